(* C17, engine level: RUN-LEVEL theorems.  For every event history from the initial state the logs of
   resolver calls (AliasRunLog.v) are accepted by the reference machines, and the engine's resolvers
   are the replay of the logged calls.  Hypotheses: comps_ok / ok_cfg / Forall ok_event only. *)
From GM Require Import Base.Prelude Base.Outcome Codec.Packets Codec.Settings Engine.Model
  EngineProofs.AssocLemmas EngineProofs.Frames EngineProofs.HandshakeRunTrace EngineProofs.WFDefs EngineProofs.WFClose EngineProofs.WFClose2
  EngineProofs.WFEvents EngineProofs.WFStep EngineProofs.AliasRunFrames EngineProofs.AliasRunLog EngineProofs.AliasRunOut EngineProofs.AliasRunIn.
From RecordUpdate Require Import RecordSet.
Import RecordSetNotations.
Open Scope N_scope.

(* the four component types are implicit in the engine functions, locally to this file *)
#[local] Arguments init {enc dec} _ {ores ires} _ _.
#[local] Arguments release {enc dec ores ires} _ _ _ _.
#[local] Arguments disconnect_completion {enc dec ores ires} _ _.
#[local] Arguments fail_op {enc dec ores ires} _ _ _ _.
#[local] Arguments ping_extension {enc dec ores ires} _ _.
#[local] Arguments succeed_op {enc dec ores ires} _ _ _ _.
#[local] Arguments fail_all {enc dec ores ires} _ _ _ _.
#[local] Arguments succeed_all {enc dec ores ires} _ _ _.
#[local] Arguments andthen {enc dec ores ires} _ _.
#[local] Arguments try_ {enc dec ores ires} _ _.
#[local] Arguments pure {enc dec ores ires} _.
#[local] Arguments create_operation {enc dec ores ires} _ _.
#[local] Arguments passes_now {enc dec ores ires} _ _ _.
#[local] Arguments user_event {enc dec ores ires} _ _ _ _.
#[local] Arguments create_connect {enc dec ores ires} _ _.
#[local] Arguments net_opened {enc dec} _ {ores ires} _ _ _.
#[local] Arguments op_exists {enc dec ores ires} _ _.
#[local] Arguments op_passes {enc dec ores ires} _ _ _.
#[local] Arguments partition_policy {enc dec ores ires} _ _ _.
#[local] Arguments closed_current {enc dec ores ires} _ _.
#[local] Arguments slow_start_init {enc dec ores ires} _ _.
#[local] Arguments update_retries {enc dec ores ires} _ _.
#[local] Arguments fail_exceeding {enc dec ores ires} _ _.
#[local] Arguments has_pubrel {enc dec ores ires} _ _.
#[local] Arguments net_closed_raw {enc dec ores ires} _ _.
#[local] Arguments net_closed {enc dec ores ires} _ _.
#[local] Arguments net_write_completion {enc dec ores ires} _ _.
#[local] Arguments acquire_free_pid {enc dec ores ires} _ _.
#[local] Arguments acquire_pid_for {enc dec ores ires} _ _.
#[local] Arguments unbind {enc dec ores ires} _ _.
#[local] Arguments passes_receive_max {enc dec ores ires} _ _.
#[local] Arguments throttled {enc dec ores ires} _ _.
#[local] Arguments has_pending_ack {enc dec ores ires} _.
#[local] Arguments dequeue {enc dec ores ires} _ _ _.
#[local] Arguments fully_written {enc dec ores ires} _ _.
#[local] Arguments service_keep_alive {enc dec ores ires} _ _ _.
#[local] Arguments process_ack_timeouts {enc dec ores ires} _ _ _.
#[local] Arguments halt_on_error {enc dec ores ires} _ _.
#[local] Arguments next_service_time {enc dec ores ires} _ _ _.
#[local] Arguments build_settings {enc dec ores ires} _ _ _.
#[local] Arguments apply_session {enc dec ores ires} _ _ _.
#[local] Arguments hres_of {enc dec ores ires} _ _.
#[local] Arguments pre_connack {enc dec ores ires} _.
#[local] Arguments sum_ss {enc dec ores ires} _.
#[local] Arguments handle_pingresp {enc dec ores ires} _.
#[local] Arguments handle_suback {enc dec ores ires} _ _ _.
#[local] Arguments handle_unsuback {enc dec ores ires} _ _ _.
#[local] Arguments publish_qos_of {enc dec ores ires} _ _.
#[local] Arguments handle_puback {enc dec ores ires} _ _ _.
#[local] Arguments handle_pubrec {enc dec ores ires} _ _ _.
#[local] Arguments handle_pubrel {enc dec ores ires} _ _.
#[local] Arguments handle_pubcomp {enc dec ores ires} _ _ _.
#[local] Arguments handle_publish {enc dec ores ires} _ _.
#[local] Arguments handle_disconnect {enc dec ores ires} _ _ _.
#[local] Arguments is_connect_op {enc dec ores ires} _ _.
#[local] Arguments connect_in_queue {enc dec ores ires} _.
#[local] Arguments reset {enc dec ores ires} _ _.
#[local] Arguments out_of_res {enc dec ores ires} _ _.
#[local] Arguments nst_queue {enc dec ores ires} _ _ _ _.
#[local] Arguments earliest_tmo {enc dec ores ires} _.
#[local] Arguments SeatStop {enc dec ores ires} _.
#[local] Arguments SeatContinue {enc dec ores ires} _ _.
#[local] Arguments SeatEncode {enc dec ores ires} _.



Section Run.
  Variable enc : Type.
  Variable enc_reset : version -> packet -> resolution -> outcome enc.
  Variable enc_call : enc -> N -> N -> outcome (bytes * enc).
  Variable enc_done : enc -> bool.
  Variable dec : Type.
  Variable dec_init : dec.
  Variable dec_feed : version -> N -> dec -> bytes -> dec * list packet * outcome unit.
  Variable ores : Type.
  Variable ores_reset : ores -> N -> ores.
  Variable ores_resolve : ores -> option N -> bytes -> outcome (ores * resolution).
  Variable ires : Type.
  Variable ires_reset : ires -> ires.
  Variable ires_resolve : ires -> option N -> bytes -> outcome (ires * bytes).
  Variable v_out : option settings -> connect_opts -> resolution -> packet -> outcome unit.
  Variable v_in : option settings -> packet -> outcome unit.
  Variable cfg : config.
  Variable HC : comps_ok enc enc_reset enc_call dec dec_init dec_feed ores ores_reset ores_resolve ires ires_reset ires_resolve v_out v_in.
  Hypothesis Hcfg : ok_cfg cfg.

  Notation state := (state enc dec ores ires).
  Notation sres := (sres enc dec ores ires).
  Notation hres := (hres enc dec ores ires).
  Notation res := (res enc dec ores ires).
  Notation seat := (seat enc dec ores ires).
  Notation step := (step enc enc_reset enc_call enc_done dec dec_init dec_feed ores ores_reset ores_resolve
                         ires ires_reset ires_resolve v_out v_in cfg).
  Notation run := (run enc enc_reset enc_call enc_done dec dec_init dec_feed ores ores_reset ores_resolve
                       ires ires_reset ires_resolve v_out v_in cfg).
  Notation seat_current := (seat_current enc enc_reset dec ores ores_reset ores_resolve ires v_out cfg).
  Notation service_loop := (service_loop enc enc_reset enc_call enc_done dec ores ores_reset ores_resolve ires v_out cfg).
  Notation service_queue := (service_queue enc enc_reset enc_call enc_done dec ores ores_reset ores_resolve ires v_out cfg).
  Notation service := (service enc enc_reset enc_call enc_done dec ores ores_reset ores_resolve ires v_out cfg).
  Notation handle_connack := (handle_connack enc dec ores ores_reset ires ires_reset v_in cfg).
  Notation handle_packet := (handle_packet enc dec ores ores_reset ires ires_reset v_in cfg).
  Notation handle_packets := (handle_packets enc dec ores ores_reset ires ires_reset ires_resolve v_in cfg).
  Notation net_data := (net_data enc dec dec_feed ores ores_reset ires ires_reset ires_resolve v_in cfg).
  Notation encode_next := (encode_next enc enc_call enc_done dec ores ires).
  Notation queue_fuel := (queue_fuel enc dec ores ires).
  Notation seat_state := (seat_state enc dec ores ires).

  Notation init := (init (enc:=enc) dec_init).
  Notation WFX := (WFX enc enc_reset enc_call dec dec_init dec_feed ores ores_reset ores_resolve ires ires_reset ires_resolve v_out v_in cfg HC).
  Notation step_olog := (step_olog enc enc_reset enc_call enc_done dec dec_feed ores ores_reset ores_resolve ires ires_reset ires_resolve v_out v_in cfg).
  Notation step_ilog := (step_ilog enc dec dec_feed ores ores_reset ires ires_reset ires_resolve v_in cfg).
  Notation run_olog := (run_olog enc enc_reset enc_call enc_done dec dec_init dec_feed ores ores_reset ores_resolve ires ires_reset ires_resolve v_out v_in cfg).
  Notation run_ilog := (run_ilog enc enc_reset enc_call enc_done dec dec_init dec_feed ores ores_reset ores_resolve ires ires_reset ires_resolve v_out v_in cfg).
  Notation gst := (gst ores).
  Notation gstep := (gstep ores ores_reset ores_resolve).
  Notation gruns := (gruns ores ores_reset ores_resolve).
  Notation mkG := (mkG ores).
  Notation Rel := (Rel enc dec ores ires).
  Notation gis := (gis ires).
  Notation iruns := (iruns ires ires_reset ires_resolve).
  Notation mkGi := (mkGi ires).
  Notation replay := (replay ores ores_reset ores_resolve).
  Notation ireplay := (ireplay ires ires_reset ires_resolve).

  Ltac splits := repeat match goal with |- _ /\ _ => split end.

  Lemma Rel_stable (s : state) (g : gst) : Rel s g -> stable (g_ph ores g).
  Proof. intros (_ & R2 & _). rewrite R2. destruct (s_cur s); [right; eexists; reflexivity|left; reflexivity]. Qed.

  Lemma reset_al (s : state) : r_out (reset cfg s) = Ok tt ->
    s_cur (r_s (reset cfg s)) = None /\ s_settings (r_s (reset cfg s)) = None.
  Proof.
    unfold reset. match goal with |- context [is_panic (r_out ?x)] => destruct (is_panic (r_out x)) eqn:E; set (r := x) in * end.
    - intros H. rewrite H in E. discriminate.
    - intros _. split; reflexivity.
  Qed.

  (* what the publish events of an output are *)
  Definition out_publishes (o : output) : list publish := publishes (o_events o).

  (* ---- one step: both reference machines follow the engine ---- *)
  Theorem step_a_spec (s : state) e (g : gst) (gi : gis) :
    WFX s -> ok_event e -> Rel s g -> s_ires s = gi_res ires gi ->
    exists g' gi', gruns g (step_olog s e) g' /\ Rel (fst (step s e)) g' /\
                   iruns gi (step_ilog s e) gi' /\ s_ires (fst (step s e)) = gi_res ires gi' /\
                   out_publishes (snd (step s e)) = surfaced (step_ilog s e).
  Proof.
    intros [[HW HP] HI] Hev HR Hi. pose proof (Rel_stable s g HR) as Hst.
    assert (Hsame : forall (s' : state) o, al_of s' = al_of s -> o_events o = [] ->
              exists g' gi', gruns g [] g' /\ Rel s' g' /\ iruns gi [] gi' /\ s_ires s' = gi_res ires gi' /\ out_publishes o = surfaced []).
    { intros s' o E Eo. destruct (al_fields _ _ E) as (_ & E2 & _). exists g, gi. unfold out_publishes. rewrite Eo.
      split; [reflexivity|]. split; [eapply Rel_al; eauto|]. split; [reflexivity|]. split; [congruence|reflexivity]. }
    destruct e as [now p t|now dl|now|now data|now|now cap fill|now|now]; cbn [Model.step AliasRunLog.step_olog AliasRunLog.step_ilog].
    - (* user submission *)
      unfold out_of_res. cbn [fst snd]. apply Hsame; [apply user_event_al|reflexivity].
    - (* connection opened *)
      unfold out_of_res, net_opened. cbn [fst snd].
      destruct (pstate_eqb (s_st s) Disconnected) eqn:Est; cbn [negb r_s r_out]; [|apply Hsame; reflexivity].
      cbn [create_operation fst snd pure r_s r_out halt_on_error]. destruct HR as (R1 & R2 & R3).
      exists (mkG (g_ores ores g) PIdle (g_cm ores g)), gi. split; [cbn; eexists; split; [split; [exact Hst|reflexivity]|reflexivity]|].
      split; [unfold AliasRunOut.Rel; cbn; auto|]. split; [reflexivity|]. split; [exact Hi|reflexivity].
    - (* connection closed *)
      unfold out_of_res. cbn [fst snd].
      destruct (pstate_eqb (s_st s) Disconnected) eqn:Est.
      + apply pstate_eqb_eq in Est. rewrite (net_closed_disconnected cfg s Est). cbn [r_s r_out halt_on_error]. apply Hsame; reflexivity.
      + apply pstate_eqb_neq in Est. destruct (net_closed_spec cfg s HW Est) as (E & _ & _ & (_ & _ & _ & _ & _ & F6) & _ & _).
        destruct (net_closed_static enc dec ores ires cfg s) as (_ & S2 & S3 & _ & S5 & _).
        rewrite E. cbn [halt_on_error]. destruct HR as (R1 & R2 & R3).
        exists (mkG (g_ores ores g) PIdle (g_cm ores g)), gi. split; [cbn; eexists; split; [split; [exact Hst|reflexivity]|reflexivity]|].
        split; [unfold AliasRunOut.Rel; cbn; rewrite S2, F6, S5; auto|]. split; [reflexivity|]. split; [congruence|reflexivity].
    - (* inbound bytes *)
      cbn [fst snd]. destruct (net_data_a_spec enc dec dec_feed ores ores_reset ores_resolve ires ires_reset ires_resolve v_in cfg s now data g gi HR Hi)
        as (g' & gi' & A1 & A2 & A3 & A4 & A5 & _). cbv zeta in A1, A2, A3, A4, A5.
      exists g', gi'. pose proof (halt_on_error_al (h_s (net_data s now data)) (h_out (net_data s now data))) as Eh.
      destruct (al_fields _ _ Eh) as (_ & E2 & _).
      split; [exact A1|]. split; [eapply Rel_al; eauto|]. split; [exact A3|]. split; [congruence|exact A5].
    - (* write completion *)
      unfold out_of_res. cbn [fst snd]. apply Hsame; [|reflexivity].
      etransitivity; [apply halt_on_error_al|apply net_write_completion_al].
    - (* service *)
      cbn [fst snd]. destruct (service_a_spec enc enc_reset enc_call enc_done dec ores ores_reset ores_resolve ires v_out cfg s now cap fill g HR)
        as (g' & S1 & S2 & S3).
      exists g', gi. split; [exact S1|]. split; [exact S2|]. split; [reflexivity|]. split; [congruence|reflexivity].
    - (* next service time *)
      destruct (next_service_time cfg s now); cbn [fst snd]; apply Hsame; reflexivity.
    - (* reset *)
      unfold out_of_res. cbn [fst snd]. destruct (reset_spec cfg s HW) as (E & _ & _ & _ & Hc).
      destruct (reset_al s E) as (C1 & C2). unfold comp_of in Hc. inversion Hc as [[Hc1 Hc2 Hc3 Hc4]].
      destruct HR as (R1 & R2 & R3).
      exists (mkG (g_ores ores g) PIdle (g_cm ores g)), gi. split; [cbn; eexists; split; [split; [exact Hst|reflexivity]|reflexivity]|].
      split; [unfold AliasRunOut.Rel; cbn; rewrite Hc3, C1, C2; cbn; auto|]. split; [reflexivity|]. split; [congruence|reflexivity].
  Qed.

  (* a failing inbound resolver call: the data call fails with that error, the engine halts, and the
     call is the last event of the step's log (nothing is surfaced for that packet) -- for every state *)
  Theorem inbound_error_fails (s : state) now data pb k :
    In (IResolve pb (Err k)) (step_ilog s (EvData now data)) ->
    o_res (snd (step s (EvData now data))) = Err k /\ s_st (fst (step s (EvData now data))) = Halted /\
    err_last (step_ilog s (EvData now data)).
  Proof.
    intros Hin. cbn [Model.step AliasRunLog.step_ilog fst snd o_res] in *.
    set (g0 := mkG (s_ores s) (match s_cur s with None => PIdle | Some id => PBusy id end) (dflt_tam (s_settings s))).
    assert (HR : Rel s g0) by (unfold AliasRunOut.Rel, g0; cbn; split; [reflexivity|]; split; [reflexivity|]; destruct (s_settings s); reflexivity).
    destruct (net_data_a_spec enc dec dec_feed ores ores_reset ores_resolve ires ires_reset ires_resolve v_in cfg s now data g0 (mkGi (s_ires s) None) HR eq_refl)
      as (g' & gi' & _ & _ & _ & _ & _ & A6 & A7). cbv zeta in A6, A7.
    rewrite (A7 _ _ Hin). cbn [halt_on_error]. auto.
  Qed.

  (* ---- histories ---- *)
  Definition run_publishes (os : list output) : list publish := flat_map out_publishes os.

  Theorem run_a_spec : forall h (s : state) (g : gst) (gi : gis),
    WFX s -> Forall ok_event h -> Rel s g -> s_ires s = gi_res ires gi ->
    exists g' gi', gruns g (run_olog s h) g' /\ Rel (fst (run s h)) g' /\
                   iruns gi (run_ilog s h) gi' /\ s_ires (fst (run s h)) = gi_res ires gi' /\
                   run_publishes (snd (run s h)) = surfaced (run_ilog s h).
  Proof.
    induction h as [|e r IH]; intros s g gi HW Hall HR Hi; cbn [Model.run AliasRunLog.run_olog AliasRunLog.run_ilog].
    { exists g, gi. cbn. auto. }
    inversion Hall as [|? ? He Hr]; subst.
    destruct (step_a_spec s e g gi HW He HR Hi) as (g1 & gi1 & A1 & A2 & A3 & A4 & A5).
    pose proof (WF_step enc enc_reset enc_call enc_done dec dec_init dec_feed ores ores_reset ores_resolve ires ires_reset ires_resolve v_out v_in cfg HC Hcfg s e HW He) as HW1.
    destruct (step s e) as [s1 o] eqn:Es. cbn [fst snd] in *.
    destruct (IH s1 g1 gi1 HW1 Hr A2 A4) as (g2 & gi2 & B1 & B2 & B3 & B4 & B5).
    destruct (run s1 r) as [s2 os] eqn:Er. cbn [fst snd] in *.
    exists g2, gi2. split; [eapply gruns_app; eauto|]. split; [exact B2|]. split; [eapply iruns_app; eauto|]. split; [exact B4|].
    unfold run_publishes in *. cbn [flat_map]. rewrite surfaced_app, A5, B5. reflexivity.
  Qed.

  (* ================= the run-level theorems, from the initial state ================= *)

  (* A: the outbound log of every history is accepted by the reference machine, started on the
     initial resolver with a free encoder slot and maximum 0; the engine's resolver is the machine's
     (= the replay of the logged reset / resolve calls), its current operation is the machine's, and
     the negotiated maximum held in the settings is that of the last accepted CONNACK *)
  Theorem outbound_alias_run (o : ores) (i : ires) h :
    ores_inv HC o -> ires_inv HC i -> Forall ok_event h ->
    let s := fst (run (init o i) h) in
    let L := run_olog (init o i) h in
    exists g', gruns (mkG o PIdle 0) L g' /\
               s_ores s = g_ores ores g' /\ s_ores s = replay o L /\
               g_ph ores g' = (match s_cur s with None => PIdle | Some id => PBusy id end) /\
               g_cm ores g' = cmax 0 L /\ tam_ok (s_settings s) (cmax 0 L).
  Proof.
    intros Ho Hi Hall. cbv zeta.
    assert (HR : Rel (init o i) (mkG o PIdle 0)) by (unfold AliasRunOut.Rel; cbn; auto).
    destruct (run_a_spec h (init o i) (mkG o PIdle 0) (mkGi i None) (WF_init _ _ _ _ _ _ _ _ _ _ _ _ _ _ _ HC o i Ho Hi) Hall HR eq_refl)
      as (g' & gi' & A1 & (R1 & R2 & R3) & _).
    exists g'. pose proof (gruns_replay _ _ _ _ _ _ A1) as E1. pose proof (gruns_cm _ _ _ _ _ _ A1) as E2. cbn in E1, E2.
    splits; auto; try congruence.
  Qed.

  (* C: the inbound log of every history is accepted by the inbound reference machine; the engine's
     inbound resolver is the replay of the logged calls (reset exactly at accepted CONNACKs, resolve
     exactly once per processed inbound PUBLISH, in order); the PUBLISH events handed to the
     application are exactly the logged surfacings *)
  Theorem inbound_alias_run (o : ores) (i : ires) h :
    ores_inv HC o -> ires_inv HC i -> Forall ok_event h ->
    let s := fst (run (init o i) h) in
    let L := run_ilog (init o i) h in
    exists gi', iruns (mkGi i None) L gi' /\ s_ires s = gi_res ires gi' /\ s_ires s = ireplay i L /\
                run_publishes (snd (run (init o i) h)) = surfaced L.
  Proof.
    intros Ho Hi Hall. cbv zeta.
    assert (HR : Rel (init o i) (mkG o PIdle 0)) by (unfold AliasRunOut.Rel; cbn; auto).
    destruct (run_a_spec h (init o i) (mkG o PIdle 0) (mkGi i None) (WF_init _ _ _ _ _ _ _ _ _ _ _ _ _ _ _ HC o i Ho Hi) Hall HR eq_refl)
      as (g' & gi' & _ & _ & A3 & A4 & A5).
    exists gi'. pose proof (iruns_replay _ _ _ _ _ _ A3) as E1. cbn in E1. splits; auto. congruence.
  Qed.
End Run.
