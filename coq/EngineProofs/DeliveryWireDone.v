(* C04, run level: nothing is transmitted for an operation after its completion.
   [enc_exists]: an encoder construction for operation id in the log of a step means the operation existed when the step
   began (or was created in it: id at or above the id counter) - the service loop only seats operations of the table and
   creates none (DeliveryFrame.same_packets frames);
   [nothing_after_completion]: once id appears in the completions of a step, no later step constructs an encoder for it
   (operation ids are never reused: IdsRun.step_facts). *)
From GM Require Import Base.Prelude Base.Outcome Codec.Packets Codec.Settings Engine.Model
  EngineProofs.AssocLemmas EngineProofs.WFLemmas EngineProofs.WFDefs EngineProofs.IdsFrame EngineProofs.IdsHelpers EngineProofs.IdsRun EngineProofs.IdsMain
  EngineProofs.SvcTimeout EngineProofs.HandshakeRunTrace EngineProofs.AliasRunLog EngineProofs.DeliveryBase EngineProofs.DeliveryFrame
  EngineProofs.WFStep EngineProofs.OrderRunSeq EngineProofs.InboundSpec EngineProofs.DeliveryWireDefs EngineProofs.DeliveryWire.
From RecordUpdate Require Import RecordSet.
Import RecordSetNotations.
Open Scope N_scope.

Section Done.
  Variable enc : Type.
  Variable enc_reset : version -> packet -> resolution -> outcome enc.
  Variable enc_call : enc -> N -> N -> outcome (bytes * enc).
  Variable enc_done : enc -> bool.
  Variable dec : Type.
  Variable dec_init : dec.
  Variable dec_feed : version -> N -> dec -> bytes -> dec * list packet * outcome unit.
  Variable ores : Type.
  Variable ores_reset : ores -> N -> ores.
  Variable ores_resolve : ores -> option N -> bytes -> outcome (ores * resolution).
  Variable ires : Type.
  Variable ires_reset : ires -> ires.
  Variable ires_resolve : ires -> option N -> bytes -> outcome (ires * bytes).
  Variable v_out : option settings -> connect_opts -> resolution -> packet -> outcome unit.
  Variable v_in : option settings -> packet -> outcome unit.
  Variable cfg : config.

  Notation state := (Model.state enc dec ores ires).
  Notation step := (Model.step enc enc_reset enc_call enc_done dec dec_init dec_feed ores ores_reset ores_resolve ires ires_reset ires_resolve v_out v_in cfg).
  Notation run := (Model.run enc enc_reset enc_call enc_done dec dec_init dec_feed ores ores_reset ores_resolve ires ires_reset ires_resolve v_out v_in cfg).
  Notation seat_current := (Model.seat_current enc enc_reset dec ores ores_reset ores_resolve ires v_out cfg).
  Notation seat_current_a := (AliasRunLog.seat_current_a enc enc_reset dec ores ores_reset ores_resolve ires v_out cfg).
  Notation service_loop_a := (AliasRunLog.service_loop_a enc enc_reset enc_call enc_done dec ores ores_reset ores_resolve ires v_out cfg).
  Notation service_log := (AliasRunLog.service_log enc enc_reset enc_call enc_done dec ores ores_reset ores_resolve ires v_out cfg).
  Notation step_dlog := (DeliveryWire.step_dlog enc enc_reset enc_call enc_done dec dec_feed ores ores_reset ores_resolve ires ires_reset ires_resolve v_out v_in cfg).
  Notation run_dlog := (DeliveryWire.run_dlog enc enc_reset enc_call enc_done dec dec_init dec_feed ores ores_reset ores_resolve ires ires_reset ires_resolve v_out v_in cfg).
  Notation encode_next := (HandshakeRunTrace.encode_next enc enc_call enc_done dec ores ires).
  Notation same_packets := (DeliveryFrame.same_packets enc dec ores ires).
  Notation gop := (DeliveryBase.gop enc dec ores ires).

  Definition known (s : state) (id : N) : Prop := gop s id <> None \/ s_next_id s <= id.

  Lemma known_back (s s' : state) id : same_packets s s' -> known s' id -> known s id.
  Proof.
    intros [A B] [H|H]; [|right; lia]. destruct (gop s' id) as [o'|] eqn:E; [|congruence].
    destruct (B _ _ E) as [(o & Ho & _)|Hn]; [left; congruence|right; exact Hn].
  Qed.

  (* ---- one seat ---- *)
  Lemma seat_log_exists (s : state) m acc dn id p r ok :
    In (OEncode id p r ok) (snd (seat_current_a s m acc dn)) -> gop s id <> None.
  Proof.
    unfold AliasRunLog.seat_current_a. destruct (s_cur s); [intros []|].
    pose proof (dequeue_ops enc dec ores ires cfg s m) as [Ho1 _].
    destruct (Model.dequeue enc dec ores ires cfg s m) as [s1 next]. cbn [fst] in Ho1. destruct next as [id0|]; [|intros []].
    destruct (negb (Model.op_exists enc dec ores ires (s1 <| s_cur := Some id0 |>) id0)) eqn:Eex.
    { cbn. intros [H|[H|[]]]; discriminate. }
    assert (Hex : gop s id0 <> None).
    { apply negb_false_iff in Eex. unfold Model.op_exists in Eex. cbn in Eex. unfold DeliveryBase.gop. rewrite <- Ho1.
      destruct (lookup id0 (s_ops s1)); [discriminate|congruence]. }
    assert (Hlr : forall (packet : Packets.packet) (x y : publish -> _) z l,
              In (OEncode id p r ok) (OPick id0 :: match packet with Publish pb => [OResolve id0 (x pb) (y pb) (z pb)] | _ => [] end ++ l) ->
              In (OEncode id p r ok) l).
    { intros packet x y z l [H|H]; [discriminate|]. apply in_app_or in H. destruct H as [H|H]; [|exact H].
      destruct packet; cbn in H; try contradiction. destruct H as [H|[]]. discriminate. }
    assert (Hlr0 : forall (packet : Packets.packet) (x y : publish -> _) z,
              In (OEncode id p r ok) (OPick id0 :: match packet with Publish pb => [OResolve id0 (x pb) (y pb) (z pb)] | _ => [] end) -> False).
    { intros packet x y z [H|H]; [discriminate|]. destruct packet; cbn in H; try contradiction. destruct H as [H|[]]. discriminate. }
    destruct (Model.acquire_pid_for enc dec ores ires (s1 <| s_cur := Some id0 |>) id0) as [s3|k|site].
    2,3: cbn; intros [H|[H|[]]]; discriminate.
    destruct (lookup id0 (s_ops s3)) as [o|]; [|cbn; intros [H|[H|[]]]; discriminate].
    cbv zeta.
    match goal with |- context [match ?res with Ok _ => _ | Err _ => _ | Panic _ => _ end] => destruct res as [[s4 r0]|k|site] end.
    2,3: cbn [snd]; intros H; apply Hlr0 in H; destruct H.
    destruct (v_out (s_settings s4) (cf_connect cfg) r0 _) as [u|k|site].
    - destruct (enc_reset (cf_version cfg) _ r0); cbn [snd]; intros H; apply Hlr in H;
        (destruct H as [H|[H|[]]]; [discriminate|inversion H; subst; exact Hex]).
    - match goal with |- context [r_out ?x] => destruct (r_out x) end; cbn [snd]; intros H; apply Hlr in H;
        (destruct H as [H|H]; [discriminate|]); apply in_app_or in H; (destruct H as [H|[H|[]]]; [destruct (r_alias r0); [destruct H as [H|[]]; discriminate|destruct H]|discriminate]).
    - cbn [snd]. intros H. apply Hlr in H. destruct H as [H|[]]. discriminate.
  Qed.

  (* ---- the loop ---- *)
  Lemma loop_log_known : forall f (s : state) m now cap fill acc dn id p r ok,
    In (OEncode id p r ok) (snd (service_loop_a f s m now cap fill acc dn)) -> known s id.
  Proof.
    induction f as [|f IH]; intros s m now cap fill acc dn id p r ok; [intros []|]. cbn [AliasRunLog.service_loop_a].
    destruct (negb (pstate_eqb (s_st s) PendingConnack || pstate_eqb (s_st s) Connected)); [intros []|].
    pose proof (seat_current_sp enc enc_reset dec ores ores_reset ores_resolve ires v_out cfg s m acc dn) as Hsp.
    rewrite <- (seat_current_a_fst enc enc_reset dec ores ores_reset ores_resolve ires v_out cfg s m acc dn) in Hsp.
    pose proof (seat_log_exists s m acc dn id p r ok) as Hseat.
    destruct (seat_current_a s m acc dn) as [x l]. cbn [fst snd] in *.
    destruct x as [r0|s5 dn'|s5].
    - intros H. left. apply Hseat. exact H.
    - cbn [snd]. intros H. apply in_app_or in H. destruct H as [H|H]; [left; apply Hseat; exact H|].
      eapply known_back; [exact Hsp|]. eapply IH. exact H.
    - unfold HandshakeRunTrace.encode_next. destruct (s_cur s5) as [id5|]; [|intros H; left; apply Hseat; exact H].
      destruct (negb (Model.op_exists enc dec ores ires s5 id5)); [intros H; left; apply Hseat; exact H|].
      destruct (s_enc s5) as [e|]; [|intros H; left; apply Hseat; exact H].
      destruct (enc_call e (fill + len acc) cap) as [[out e']|k|site]; [|intros H; left; apply Hseat; exact H|intros H; left; apply Hseat; exact H].
      cbv zeta. destruct (enc_done e'); [|intros H; left; apply Hseat; exact H].
      destruct (Model.fully_written enc dec ores ires (s5 <| s_enc := Some e' |>) now) as [s7|k|site] eqn:Ef;
        [|intros H; left; apply Hseat; exact H|intros H; left; apply Hseat; exact H].
      cbn [snd]. intros H. apply in_app_or in H. destruct H as [H|H]; [left; apply Hseat; exact H|].
      apply in_app_or in H. destruct H as [H|H]; [destruct H as [H|[]]; discriminate|].
      eapply known_back; [exact Hsp|]. eapply known_back; [|eapply IH; exact H].
      eapply sp_from; [| |eapply fully_written_sp; exact Ef]; reflexivity.
  Qed.

  (* ---- one step ---- *)
  Theorem enc_exists (s : state) e id p r ok : In (DO (OEncode id p r ok)) (step_dlog s e) -> known s id.
  Proof.
    assert (Hmap : forall l, In (DO (OEncode id p r ok)) (map DO l) -> In (OEncode id p r ok) l).
    { intros l H. apply in_map_iff in H. destruct H as (x & E & Hx). inversion E; subst. exact Hx. }
    destruct e as [now p0 t|now dl|now|now data|now|now cap fill|now|now]; cbn [DeliveryWire.step_dlog AliasRunLog.step_olog].
    - intros [H|[]]. discriminate.
    - destruct (pstate_eqb (s_st s) Disconnected); cbn; [intros [H|[]]; discriminate|intros []].
    - destruct (pstate_eqb (s_st s) Disconnected); cbn; [intros []|intros [H|[]]; discriminate].
    - intros H. apply in_map_iff in H. destruct H as (x & E & _). discriminate.
    - intros [].
    - intros H. apply Hmap in H. unfold AliasRunLog.service_log, AliasRunLog.service_queue_log in H. destruct (s_st s); try destruct H.
      + destruct (s_connack_to s) as [t|]; [|destruct H]. destruct (t <=? now); [destruct H|]. eapply loop_log_known. exact H.
      + destruct (Model.service_keep_alive enc dec ores ires cfg s now) as [s1|k|site] eqn:Ek; try destruct H.
        eapply known_back; [eapply service_keep_alive_sp; exact Ek|]. eapply loop_log_known. exact H.
    - intros [].
    - cbn. intros [H|[]]. discriminate.
  Qed.

  (* ---- operation ids are never reused ---- *)
  Definition gone (s : state) (id : N) : Prop := gop s id = None /\ id < s_next_id s.

  Notation facts := (step_facts_holds enc enc_reset enc_call enc_done dec dec_init dec_feed ores ores_reset ores_resolve
      ires ires_reset ires_resolve v_out v_in cfg any_packet (any_policy cfg) (any_vout v_out)).

  Lemma gone_step (s : state) e id : ids_inv enc dec ores ires s -> gone s id -> gone (fst (step s e)) id.
  Proof.
    intros Hi [Hg Hlt]. pose proof (facts s e Hi) as F. split.
    - unfold DeliveryBase.gop in *. destruct (lookup id (s_ops (fst (step s e)))) as [o1|] eqn:E; [|reflexivity]. exfalso.
      destruct (sf_old _ _ _ _ _ _ _ _ _ F id o1 E) as [(o0 & H0 & _)|[[H0 _]|(now & p & t & _ & H0 & _)]]; [congruence|lia|lia].
    - pose proof (sf_next _ _ _ _ _ _ _ _ _ F). lia.
  Qed.

  Lemma done_gone (s : state) e id c : ids_inv enc dec ores ires s -> In (id, c) (o_done (snd (step s e))) -> gone (fst (step s e)) id.
  Proof. intros Hi Hin. pose proof (facts s e Hi) as F. exact (sf_gone _ _ _ _ _ _ _ _ _ F id c Hin). Qed.

  Lemma gone_no_enc : forall h (s : state) id, ids_inv enc dec ores ires s -> gone s id ->
    forall p r ok, ~ In (DO (OEncode id p r ok)) (run_dlog s h).
  Proof.
    induction h as [|e h IH]; intros s id Hi Hg p r ok; [intros []|]. cbn [DeliveryWire.run_dlog]. intros H. apply in_app_or in H.
    destruct H as [H|H].
    - destruct (enc_exists s e id p r ok H) as [K|K]; destruct Hg as [G1 G2]; [congruence|lia].
    - eapply (IH (fst (step s e)) id); [|apply gone_step; assumption|exact H].
      exact (ids_inv_step enc enc_reset enc_call enc_done dec dec_init dec_feed ores ores_reset ores_resolve ires ires_reset ires_resolve v_out v_in cfg s e Hi).
  Qed.

  (* (e) once the operation has been completed, no later step hands a packet of it to the encoder *)
  Theorem nothing_after_completion (o0 : ores) (i0 : ires) h1 e h2 id c :
    let s1 := fst (run (Model.init enc dec dec_init ores ires o0 i0) h1) in
    In (id, c) (o_done (snd (step s1 e))) ->
    forall p r ok, ~ In (DO (OEncode id p r ok)) (run_dlog (fst (step s1 e)) h2).
  Proof.
    cbv zeta. intros Hin.
    destruct (reachable_inv enc enc_reset enc_call enc_done dec dec_init dec_feed ores ores_reset ores_resolve ires ires_reset ires_resolve
                v_out v_in cfg o0 i0 h1) as [Hi _].
    apply gone_no_enc.
    - exact (ids_inv_step enc enc_reset enc_call enc_done dec dec_init dec_feed ores ores_reset ores_resolve ires ires_reset ires_resolve v_out v_in cfg _ e Hi).
    - eapply done_gone; [exact Hi|exact Hin].
  Qed.
End Done.
