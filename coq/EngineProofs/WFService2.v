(* Well-formedness through the service path, part 2: seat_current. *)
From GM Require Import Base.Prelude Base.Outcome Codec.Packets Codec.Settings Engine.Model
  EngineProofs.AssocLemmas EngineProofs.PacketIds EngineProofs.WFLemmas EngineProofs.WFDefs EngineProofs.WFCore
  EngineProofs.WFComplete EngineProofs.WFClose EngineProofs.WFService EngineProofs.WFTrack.
From Coq Require Import Sorting.Sorted.
From RecordUpdate Require Import RecordSet.
Import RecordSetNotations.
Open Scope N_scope.

(* the four component types are implicit in the engine functions, locally to this file *)
#[local] Arguments init {enc dec} _ {ores ires} _ _.
#[local] Arguments release {enc dec ores ires} _ _ _ _.
#[local] Arguments disconnect_completion {enc dec ores ires} _ _.
#[local] Arguments fail_op {enc dec ores ires} _ _ _ _.
#[local] Arguments ping_extension {enc dec ores ires} _ _.
#[local] Arguments succeed_op {enc dec ores ires} _ _ _ _.
#[local] Arguments fail_all {enc dec ores ires} _ _ _ _.
#[local] Arguments succeed_all {enc dec ores ires} _ _ _.
#[local] Arguments andthen {enc dec ores ires} _ _.
#[local] Arguments try_ {enc dec ores ires} _ _.
#[local] Arguments pure {enc dec ores ires} _.
#[local] Arguments create_operation {enc dec ores ires} _ _.
#[local] Arguments passes_now {enc dec ores ires} _ _ _.
#[local] Arguments user_event {enc dec ores ires} _ _ _ _.
#[local] Arguments create_connect {enc dec ores ires} _ _.
#[local] Arguments net_opened {enc dec} _ {ores ires} _ _ _.
#[local] Arguments op_exists {enc dec ores ires} _ _.
#[local] Arguments op_passes {enc dec ores ires} _ _ _.
#[local] Arguments partition_policy {enc dec ores ires} _ _ _.
#[local] Arguments closed_current {enc dec ores ires} _ _.
#[local] Arguments slow_start_init {enc dec ores ires} _ _.
#[local] Arguments update_retries {enc dec ores ires} _ _.
#[local] Arguments fail_exceeding {enc dec ores ires} _ _.
#[local] Arguments has_pubrel {enc dec ores ires} _ _.
#[local] Arguments net_closed_raw {enc dec ores ires} _ _.
#[local] Arguments net_closed {enc dec ores ires} _ _.
#[local] Arguments net_write_completion {enc dec ores ires} _ _.
#[local] Arguments acquire_free_pid {enc dec ores ires} _ _.
#[local] Arguments acquire_pid_for {enc dec ores ires} _ _.
#[local] Arguments unbind {enc dec ores ires} _ _.
#[local] Arguments passes_receive_max {enc dec ores ires} _ _.
#[local] Arguments throttled {enc dec ores ires} _ _.
#[local] Arguments has_pending_ack {enc dec ores ires} _.
#[local] Arguments dequeue {enc dec ores ires} _ _ _.
#[local] Arguments fully_written {enc dec ores ires} _ _.
#[local] Arguments service_keep_alive {enc dec ores ires} _ _ _.
#[local] Arguments process_ack_timeouts {enc dec ores ires} _ _ _.
#[local] Arguments halt_on_error {enc dec ores ires} _ _.
#[local] Arguments next_service_time {enc dec ores ires} _ _ _.
#[local] Arguments build_settings {enc dec ores ires} _ _ _.
#[local] Arguments apply_session {enc dec ores ires} _ _ _.
#[local] Arguments hres_of {enc dec ores ires} _ _.
#[local] Arguments pre_connack {enc dec ores ires} _.
#[local] Arguments sum_ss {enc dec ores ires} _.
#[local] Arguments handle_pingresp {enc dec ores ires} _.
#[local] Arguments handle_suback {enc dec ores ires} _ _ _.
#[local] Arguments handle_unsuback {enc dec ores ires} _ _ _.
#[local] Arguments publish_qos_of {enc dec ores ires} _ _.
#[local] Arguments handle_puback {enc dec ores ires} _ _ _.
#[local] Arguments handle_pubrec {enc dec ores ires} _ _ _.
#[local] Arguments handle_pubrel {enc dec ores ires} _ _.
#[local] Arguments handle_pubcomp {enc dec ores ires} _ _ _.
#[local] Arguments handle_publish {enc dec ores ires} _ _.
#[local] Arguments handle_disconnect {enc dec ores ires} _ _ _.
#[local] Arguments is_connect_op {enc dec ores ires} _ _.
#[local] Arguments connect_in_queue {enc dec ores ires} _.
#[local] Arguments reset {enc dec ores ires} _ _.
#[local] Arguments out_of_res {enc dec ores ires} _ _.
#[local] Arguments nst_queue {enc dec ores ires} _ _ _ _.
#[local] Arguments earliest_tmo {enc dec ores ires} _.
#[local] Arguments SeatStop {enc dec ores ires} _.
#[local] Arguments SeatContinue {enc dec ores ires} _ _.
#[local] Arguments SeatEncode {enc dec ores ires} _.


Section Seat.
  Variable enc : Type.
  Variable enc_reset : version -> packet -> resolution -> outcome enc.
  Variable enc_call : enc -> N -> N -> outcome (bytes * enc).
  Variable enc_done : enc -> bool.
  Variable dec : Type.
  Variable dec_init : dec.
  Variable dec_feed : version -> N -> dec -> bytes -> dec * list packet * outcome unit.
  Variable ores : Type.
  Variable ores_reset : ores -> N -> ores.
  Variable ores_resolve : ores -> option N -> bytes -> outcome (ores * resolution).
  Variable ires : Type.
  Variable ires_reset : ires -> ires.
  Variable ires_resolve : ires -> option N -> bytes -> outcome (ires * bytes).
  Variable v_out : option settings -> connect_opts -> resolution -> packet -> outcome unit.
  Variable v_in : option settings -> packet -> outcome unit.
  Variable cfg : config.
  Variable HC : comps_ok enc enc_reset enc_call dec dec_init dec_feed ores ores_reset ores_resolve ires ires_reset ires_resolve v_out v_in.

  Notation state := (state enc dec ores ires).
  Notation seat_current := (seat_current enc enc_reset dec ores ores_reset ores_resolve ires v_out cfg).

  Ltac splits := repeat match goal with |- _ /\ _ => split end.
  Ltac core_cbn := unfold tracked, inq; cbn [core_of c_ops c_uq c_rq c_hq c_cur c_alloc c_ppub c_pnon c_pwco c_nid c_npid].

  Definition seat_keep (s : state) :=
    (s_st s, s_pwc s, s_tmo s, s_q2in s, s_ppub s, s_pnon s, s_pwco s, s_settings s, s_next_id s, s_connected_before s,
     s_dec s, s_next_ping s, s_ping_to s, s_connack_to s, s_ires s, s_ss_count s).

  Definition dq_rel (m : bool) (s s' : state) (id : N) : Prop :=
    (s_hq s = id :: s_hq s' /\ s_rq s' = s_rq s /\ s_uq s' = s_uq s) \/
    (m = true /\ s_hq s = [] /\ s_hq s' = [] /\
     ((s_rq s = id :: s_rq s' /\ s_uq s' = s_uq s) \/ (s_uq s = id :: s_uq s' /\ s_rq s' = s_rq s))).

  Record seated (m : bool) (s s' : state) (id : N) : Prop := mkSeated {
    sd_keep : seat_keep s' = seat_keep s;
    sd_q : dq_rel m s s' id;
    sd_other : forall i, i <> id -> getop s' i = getop s i;
    sd_op : exists o o', getop s id = Some o /\ getop s' id = Some o' /\ aq_rel o o' /\
                         (needs_pid (op_packet o') = true -> op_pid o' <> None);
    sd_sum : sumss (s_ops s') = sumss (s_ops s) }.

  Definition seat_post (m : bool) (s : state) (acc : bytes) (r : seat enc dec ores ires) : Prop :=
    match r with
    | SeatStop r => cinv HC (sr_s r) /\ (TR s -> TR (sr_s r)) /\
        (forall site, sr_out r <> Panic site) /\ WFS (sr_s r) /\ (sr_out r = Ok tt -> sr_s r = s) /\ sr_bytes r = acc /\
        (s_st (sr_s r) = s_st s \/ s_st s = PendingDisconnect)
    | SeatContinue s' dn' =>
        cinv HC s' /\ (TR s -> TR s') /\ WFS s' /\ s_cur s' = None /\ exists id,
          (getop s id = None /\ seat_keep s' = seat_keep s /\ dq_rel m s s' id /\ s_ops s' = s_ops s /\ s_enc s' = s_enc s) \/
          (exists s4, seated m s s4 id /\ frame_c [id] s4 s' /\ s_cur s4 = None /\ W9 cfg s' /\ getop s' id = None)
    | SeatEncode s' => cinv HC s' /\ (TR s -> TR s') /\ WFS s' /\ exists id, seated m s s' id /\ s_cur s' = Some id /\ s_enc s' <> None
    end.

  Lemma cinv_set (s s' : state) :
    cinv HC s -> s_dec s' = s_dec s -> s_ires s' = s_ires s -> ores_inv HC (s_ores s') ->
    (forall e, s_enc s' = Some e -> enc_inv HC e) -> cinv HC s'.
  Proof. intros (A & B & C & D) E1 E2 E3 E4. unfold cinv. rewrite E1, E2. tauto. Qed.

  Lemma TR_same (s s' : state) :
    s_ops s' = s_ops s -> s_uq s' = s_uq s -> s_rq s' = s_rq s -> s_hq s' = s_hq s -> s_cur s' = s_cur s ->
    s_pwco s' = s_pwco s -> TR s -> TR s'.
  Proof. intros E1 E2 E3 E4 E5 E6. apply TR_queues; [exact E1|]. unfold inQ. rewrite E2, E3, E4, E5, E6. tauto. Qed.

  (* all fields but the outbound resolver *)
  Definition but_ores (s : state) :=
    (s_st s, s_pwc s, s_ops s, s_tmo s, s_uq s, s_rq s, s_hq s, s_cur s, s_enc s, s_q2in s, s_alloc s, s_ppub s, s_pnon s,
     s_pwco s, s_settings s, s_next_id s, s_next_pid s, s_connected_before s, s_dec s, s_next_ping s, s_ping_to s,
     s_connack_to s, s_ires s, s_ss_count s).

  Lemma core_but_ores (s s' : state) : but_ores s' = but_ores s -> core_of s' = core_of s.
  Proof. unfold but_ores, core_of. intros H. repeat (apply pair_equal_spec in H; destruct H as [H ?]). congruence. Qed.

  Definition seat_tail (s3 : state) (id : N) (o : op) (acc : bytes) (dn : dones) : seat enc dec ores ires :=
    let packet := match op_pubrel o with Some pr => pr | None => op_packet o end in
    let resolved : outcome (state * resolution) :=
      match packet with
      | Publish pb =>
          do (o', r) <- ores_resolve (s_ores s3) (pub_alias pb) (pub_topic pb) ;
          Ok (s3 <| s_ores := o' |>, r)
      | _ => Ok (s3, no_resolution)
      end in
    match resolved with
    | Err k => SeatStop (mkSres s3 acc dn (Err k))
    | Panic site => SeatStop (mkSres s3 acc dn (Panic site))
    | Ok (s4, r) =>
        match v_out (s_settings s4) (cf_connect cfg) r packet with
        | Err k =>
            let s4 := match r_alias r with
                      | Some _ => s4 <| s_ores := ores_reset (s_ores s4)
                                    (match s_settings s4 with Some st => st_topic_alias_maximum_to_server st | None => 0 end) |>
                      | None => s4 end in
            let rf := fail_op cfg (s4 <| s_cur := None |>) id k in
            match r_out rf with
            | Ok _ => SeatContinue (r_s rf) (dn ++ r_done rf)
            | _ => SeatStop (mkSres (r_s rf) acc (dn ++ r_done rf) (r_out rf))
            end
        | Panic site => SeatStop (mkSres s4 acc dn (Panic site))
        | Ok _ =>
            match enc_reset (cf_version cfg) packet r with
            | Err k => SeatStop (mkSres s4 acc dn (Err k))
            | Panic site => SeatStop (mkSres s4 acc dn (Panic site))
            | Ok e => SeatEncode (s4 <| s_enc := Some e |>)
            end
        end
    end.

  Lemma seated_xfer (m : bool) (s s3 s4 : state) id :
    seated m s s3 id -> seat_keep s4 = seat_keep s3 -> s_ops s4 = s_ops s3 -> s_hq s4 = s_hq s3 -> s_rq s4 = s_rq s3 ->
    s_uq s4 = s_uq s3 -> seated m s s4 id.
  Proof.
    intros [A B C D E] E1 E2 E3 E4 E5. constructor.
    - congruence.
    - unfold dq_rel in *. rewrite E3, E4, E5. exact B.
    - intros i Hi. unfold getop in *. rewrite E2. exact (C i Hi).
    - unfold getop in *. rewrite E2. exact D.
    - rewrite E2. exact E.
  Qed.

  Lemma seated_ores (m : bool) (s s3 s4 : state) id : seated m s s3 id -> but_ores s4 = but_ores s3 -> seated m s s4 id.
  Proof.
    intros Hsd H. unfold but_ores in H. repeat (apply pair_equal_spec in H; destruct H as [H ?]).
    eapply seated_xfer; [exact Hsd| | | | |]; unfold seat_keep; congruence.
  Qed.

  Lemma seat_tail_spec (m : bool) (s s3 : state) id o' acc dn :
    WFS s3 -> s_cur s3 = Some id -> getop s3 id = Some o' -> seated m s s3 id -> W9 cfg s3 ->
    (s_settings s3 <> None \/ (is_connect (op_packet o') = true /\ op_pubrel o' = None)) -> cinv HC s3 ->
    (TR s -> TR s3) ->
    seat_post m s acc (seat_tail s3 id o' acc dn).
  Proof.
    intros HW Hc Hid Hsd H9 Hv HI HT3. unfold seat_tail. pose proof HI as (HIe & HId & HIo & HIi).
    assert (Hst3 : s_st s3 = s_st s) by (destruct Hsd as [K _ _ _ _]; unfold seat_keep in K; repeat (apply pair_equal_spec in K; destruct K as [K ?]); congruence).
    set (packet := match op_pubrel o' with Some pr => pr | None => op_packet o' end).
    (* the resolution step only touches the resolver *)
    assert (Hres : match (match packet with
                          | Publish pb => do (o2, r) <- ores_resolve (s_ores s3) (pub_alias pb) (pub_topic pb) ; Ok (s3 <| s_ores := o2 |>, r)
                          | _ => Ok (s3, no_resolution) end) with
                   | Ok (s4, r) => but_ores s4 = but_ores s3 /\ ores_inv HC (s_ores s4)
                   | Err _ => True
                   | Panic _ => False end).
    { destruct (co_ores HC (s_ores s3)) with (a := match packet with Publish pb => pub_alias pb | _ => None end)
                                              (t := match packet with Publish pb => pub_topic pb | _ => [] end) as (Hnp & Hinv); [exact HIo|].
      destruct packet; try (split; [reflexivity|exact HIo]).
      destruct (ores_resolve (s_ores s3) (pub_alias p) (pub_topic p)) as [[o2 r]|k|site] eqn:Er; cbn [obind]; try exact I.
      - split; [reflexivity|]. cbn. eapply Hinv. reflexivity.
      - eapply Hnp. reflexivity. }
    destruct (match packet with
              | Publish pb => do (o2, r) <- ores_resolve (s_ores s3) (pub_alias pb) (pub_topic pb) ; Ok (s3 <| s_ores := o2 |>, r)
              | _ => Ok (s3, no_resolution) end) as [[s4 r]|k|site]; [|cbn; splits; auto; [intros; discriminate|discriminate]|destruct Hres].
    destruct Hres as (Hres & HIo4).
    assert (HI4 : cinv HC s4).
    { pose proof Hres as Hb. unfold but_ores in Hb. repeat (apply pair_equal_spec in Hb; destruct Hb as [Hb ?]).
      apply (cinv_set s3 s4 HI); try congruence. replace (s_enc s4) with (s_enc s3) by congruence. exact HIe. }
    assert (HT4 : TR s -> TR s4).
    { intros T. pose proof Hres as Hb. unfold but_ores in Hb. repeat (apply pair_equal_spec in Hb; destruct Hb as [Hb ?]).
      apply (TR_same s3 s4); try congruence. auto. }
    assert (Hc4 : core_of s4 = core_of s3) by (apply core_but_ores; exact Hres).
    assert (HW4 : WFS s4) by (unfold WFS, WFSx; rewrite Hc4; exact HW).
    pose proof (seated_ores m s s3 s4 id Hsd Hres) as Hsd4.
    assert (Hf4 : s_settings s4 = s_settings s3 /\ s_cur s4 = s_cur s3 /\ s_ops s4 = s_ops s3 /\ s_st s4 = s_st s3 /\ s_ss_count s4 = s_ss_count s3).
    { unfold but_ores in Hres. repeat (apply pair_equal_spec in Hres; destruct Hres as [Hres ?]). splits; congruence. }
    destruct Hf4 as (F1 & F2 & F3 & F4 & F5).
    destruct (v_out (s_settings s4) (cf_connect cfg) r packet) as [u|k|site] eqn:Ev.
    - (* validated: reset the encoder *)
      destruct (co_enc_reset HC (cf_version cfg) packet r) as (Hnpe & Hinve).
      destruct (enc_reset (cf_version cfg) packet r) as [e|k|site] eqn:Ee.
      + cbn. split; [|split; [|split; [exact HW4|]]].
        { destruct HI4 as (_ & B4 & C4 & D4). unfold cinv. cbn. splits; auto. intros e0 He0. inversion He0; subst. apply Hinve. reflexivity. }
        { intros T. apply (TR_same s4); try reflexivity. auto. }
        exists id. split; [|split; [cbn; congruence|cbn; discriminate]].
        eapply seated_xfer; [exact Hsd4| | | | |]; reflexivity.
      + cbn. splits; auto; [intros; discriminate|discriminate|left; congruence].
      + exfalso. eapply Hnpe. reflexivity.
    - (* validation failed: the operation is failed and the loop continues *)
      set (s4' := match r_alias r with
                  | Some _ => s4 <| s_ores := ores_reset (s_ores s4)
                                (match s_settings s4 with Some st => st_topic_alias_maximum_to_server st | None => 0 end) |>
                  | None => s4 end).
      assert (Hb' : but_ores s4' = but_ores s4) by (unfold s4'; destruct (r_alias r); reflexivity).
      assert (HIo4' : ores_inv HC (s_ores s4')).
      { unfold s4'. destruct (r_alias r); [cbn; apply (co_ores_reset HC); exact HIo4|exact HIo4]. }
      clearbody s4'.
      assert (HI4' : cinv HC s4').
      { pose proof Hb' as Hb. unfold but_ores in Hb. repeat (apply pair_equal_spec in Hb; destruct Hb as [Hb ?]).
        apply (cinv_set s4 s4' HI4); try congruence. replace (s_enc s4') with (s_enc s4) by congruence. apply HI4. }
      assert (HT4' : TR s -> TR s4').
      { intros T. pose proof Hb' as Hb. unfold but_ores in Hb. repeat (apply pair_equal_spec in Hb; destruct Hb as [Hb ?]).
        apply (TR_same s4 s4'); try congruence. auto. }
      assert (Hc4' : core_of s4' = core_of s4) by (apply core_but_ores; exact Hb').
      pose proof (seated_ores m s s4 s4' id Hsd4 Hb') as Hsd4'.
      assert (Hf4' : s_cur s4' = s_cur s4 /\ s_ops s4' = s_ops s4 /\ s_st s4' = s_st s4 /\ s_ss_count s4' = s_ss_count s4).
      { unfold but_ores in Hb'. repeat (apply pair_equal_spec in Hb'; destruct Hb' as [Hb' ?]). splits; congruence. }
      destruct Hf4' as (G2 & G3 & G4 & G5).
      set (sX := s4' <| s_cur := None |>).
      assert (HWX : WFSx [id] sX).
      { assert (HW4' : WFS s4') by (unfold WFS, WFSx; rewrite Hc4'; exact HW4).
        eapply WFS_queues; [exact HW4'| | | | | | | | | | |]; cbn; auto; try tauto.
        - core_cbn. cbn. rewrite G2, F2, Hc. intros p i o Hi Hp T. destruct T as [T|[T|[T|[T|T]]]]; try tauto.
          inversion T. tauto.
        - core_cbn. cbn. intros i. intuition (try discriminate). }
      assert (H9X : W9 cfg sX).
      { unfold W9, ss_ok in *. cbn. rewrite G4, F4, G5, F5, G3, F3. exact H9. }
      pose proof (fail_op_spec cfg [id] sX id k HWX H9X) as F.
      set (rf := fail_op cfg sX id k) in *.
      assert (Hgone : getop (r_s rf) id = None) by (apply (fs_gone _ _ _ _ _ F); left; reflexivity).
      assert (HWf : WFS (r_s rf)).
      { apply (WFc_unexempt [id] _ (fs_wfs _ _ _ _ _ F)).
        - intros i o p [<-|[]] Hi. unfold getop in Hgone. unfold gop in Hi. cbn in Hi. congruence.
        - intros i o [<-|[]] Hi. unfold getop in Hgone. unfold gop in Hi. cbn in Hi. congruence. }
      assert (HIf : cinv HC (r_s rf)).
      { eapply cinv_comp; [|exact HI4']. rewrite (rest_comp _ _ (fc_rest _ _ _ (fs_frame _ _ _ _ _ F))). reflexivity. }
      assert (HTf : TR s -> TR (r_s rf)).
      { intros T. apply (TR_gen s4' _ (HT4' T)). intros i o0 Hi Hp. right. exists o0.
        pose proof (fc_sub _ _ _ (fs_frame _ _ _ _ _ F) _ _ Hi) as HiX. split; [exact HiX|]. splits; auto.
        destruct (rest_fields _ _ (fc_rest _ _ _ (fs_frame _ _ _ _ _ F))) as (R1 & R2 & R3 & R4 & R5 & _).
        unfold inQ. rewrite R1, R2, R3, R4, R5. cbn. rewrite G2, F2, Hc. intros [Q|[Q|[Q|[Q|Q]]]]; try tauto.
        inversion Q; subst i. congruence. }
      destruct (r_out rf) as [u|k'|site] eqn:Eo.
      + cbn. split; [exact HIf|]. split; [exact HTf|]. split; [exact HWf|]. split.
        * destruct (rest_fields _ _ (fc_rest _ _ _ (fs_frame _ _ _ _ _ F))) as (_ & _ & _ & R4 & _). rewrite R4. reflexivity.
        * exists id. right. exists sX. split; [|split; [apply F|split; [reflexivity|split; [apply F|exact Hgone]]]].
          eapply seated_xfer; [exact Hsd4'| | | | |]; reflexivity.
      + cbn. splits; auto; [intros; discriminate|discriminate|].
        destruct (fc_st _ _ _ (fs_frame _ _ _ _ _ F)) as [E|[E _]]; cbn in E; [left; congruence|right; congruence].
      + exfalso. exact (fs_nopanic _ _ _ _ _ F _ Eo).
    - (* the validator never panics *)
      exfalso. rewrite F1 in Ev. destruct Hv as [Hv|[Hv1 Hv2]].
      + destruct (s_settings s3) as [st|]; [|congruence]. exact (co_v_out_some HC _ _ _ _ _ Ev).
      + unfold packet in Ev. rewrite Hv2 in Ev. destruct (op_packet o'); try discriminate.
        destruct (s_settings s3) as [st|].
        * exact (co_v_out_some HC _ _ _ _ _ Ev).
        * exact (co_v_out_connect HC _ _ _ _ Ev).
  Qed.

  Lemma seat_current_unfold (s : state) m acc dn :
    seat_current s m acc dn =
    match s_cur s with
    | Some _ => SeatEncode s
    | None =>
        let (s1, next) := dequeue cfg s m in
        match next with
        | None => SeatStop (mkSres s1 acc dn (Ok tt))
        | Some id =>
            let s2 := s1 <| s_cur := Some id |> in
            if negb (op_exists s2 id) then SeatContinue (s2 <| s_cur := None |>) dn else
            match acquire_pid_for s2 id with
            | Err k => SeatStop (mkSres s2 acc dn (Err k))
            | Panic site => SeatStop (mkSres s2 acc dn (Panic site))
            | Ok s3 =>
                match lookup id (s_ops s3) with
                | None => SeatStop (mkSres s3 acc dn (Panic 1399))
                | Some o => seat_tail s3 id o acc dn
                end
            end
        end
    end.
  Proof. unfold Model.seat_current, seat_tail. reflexivity. Qed.

  Ltac tuple_eqs H := repeat (apply pair_equal_spec in H; destruct H as [H ?]).

  Lemma seat_gen (s : state) m acc dn :
    WFS s -> s_cur s = None -> W9 cfg s ->
    (s_settings s <> None \/
     (m = false /\ forall id o, In id (s_hq s) -> getop s id = Some o -> is_connect (op_packet o) = true)) ->
    cinv HC s ->
    seat_post m s acc (seat_current s m acc dn).
  Proof.
    intros HW Hcur H9 Hv HI. rewrite seat_current_unfold, Hcur.
    destruct (dequeue cfg s m) as [s1 next] eqn:Edq.
    assert (E1 : fst (dequeue cfg s m) = s1) by (rewrite Edq; reflexivity).
    assert (E2 : snd (dequeue cfg s m) = next) by (rewrite Edq; reflexivity).
    destruct next as [id|].
    2:{ rewrite <- E1, (dequeue_none cfg s m E2). cbn. splits; auto; intros; discriminate. }
    destruct (dequeue_some cfg s m id E2) as (B & Q & D). rewrite E1 in B, Q, D.
    destruct (but_queues_fields _ _ B) as (B1 & B2 & B3 & B4 & B5 & B6 & B7 & B8 & B9 & B10 & B11 & B12 & B13 & B14 & B15).
    assert (Dq : dq_rel m s s1 id) by exact D.
    set (s2 := s1 <| s_cur := Some id |>).
    assert (HW2 : WFS s2).
    { eapply WFS_queues; [exact HW| | | | | | | | | | |]; cbn; auto; try tauto.
      - core_cbn. cbn. rewrite Hcur, B7, B8. intros p i o Hi Hp T.
        destruct D as [(D1 & D2 & D3)|(D0 & D1 & D2 & [(D3 & D4)|(D3 & D4)])]; rewrite ?D1, ?D2, ?D3, ?D4 in *; cbn in T;
          intuition (subst; auto; try discriminate).
      - core_cbn. cbn. rewrite B9. intros i.
        destruct D as [(D1 & D2 & D3)|(D0 & D1 & D2 & [(D3 & D4)|(D3 & D4)])]; rewrite ?D1, ?D2, ?D3, ?D4 in *; cbn;
          intuition (try (match goal with H : Some _ = Some _ |- _ => inversion H; subst end); auto).
      - intros i Hi. left. destruct D as [(D1 & D2 & D3)|(D0 & D1 & D2 & _)]; [rewrite D1; right; exact Hi|rewrite D2 in Hi; destruct Hi].
      - rewrite B9. auto. }
    assert (HT2 : TR s -> TR s2).
    { apply TR_queues; [exact B2|]. unfold inQ. cbn. rewrite Hcur, B9. intros i Qi _.
      destruct D as [(D1 & D2 & D3)|(D0 & D1 & D2 & [(D3 & D4)|(D3 & D4)])]; rewrite ?D1, ?D2, ?D3, ?D4 in *; cbn in Qi;
        intuition (subst; auto; try discriminate). }
    assert (HI2 : cinv HC s2).
    { eapply cinv_comp; [|exact HI]. unfold comp_of. cbn. pose proof B as Bt. unfold but_queues in Bt. tuple_eqs Bt. congruence. }
    cbv zeta. fold s2.
    destruct (op_exists s2 id) eqn:Eex; cbn [negb].
    2:{ (* stale id: skip *)
        cbn. split; [exact HI2|]. split; [|split; [|split; [reflexivity|]]].
        { intros T. apply (TR_queues s2); [reflexivity| |exact (HT2 T)]. unfold inQ. cbn. intros i [Qi|[Qi|[Qi|[Qi|Qi]]]] Hk; try tauto.
          inversion Qi; subst i. exfalso. unfold op_exists in Eex. cbn in Eex, Hk. apply in_keys_lookup in Hk. destruct Hk as (v & Hv0).
          rewrite Hv0 in Eex. discriminate. }
        - eapply WFS_queues; [exact HW2| | | | | | | | | | |]; cbn; auto; try tauto.
          + core_cbn. cbn. intros p i o Hi Hp T. destruct T as [T|[T|[T|[T|T]]]]; try tauto.
            inversion T; subst i. unfold op_exists in Eex. unfold getop in Hi. cbn in Hi, Eex. rewrite Hi in Eex. discriminate.
          + core_cbn. cbn. intros i. intuition (try discriminate).
        - exists id. left. splits; try assumption.
          + unfold op_exists in Eex. unfold getop. cbn in Eex. rewrite <- B2. destruct (lookup id (s_ops s1)); [discriminate|reflexivity].
          + unfold seat_keep. cbn. unfold but_queues in B. tuple_eqs B. congruence. }
    assert (Hex : exists o, getop s2 id = Some o).
    { unfold op_exists in Eex. unfold getop. destruct (lookup id (s_ops s2)) as [o|]; [eauto|discriminate]. }
    destruct Hex as (o & Ho).
    assert (Ho0 : getop s id = Some o) by (unfold getop in *; cbn in Ho; rewrite <- B2; exact Ho).
    pose proof (acquire_pid_for_spec [] s2 id o HW2 eq_refl Ho) as Haq.
    destruct (acquire_pid_for s2 id) as [s3|k|site]; [|cbn; splits; auto; [intros; discriminate|discriminate]|destruct Haq].
    destruct Haq as (HW3 & Baq & (o' & Ho' & Hrel & Hbound) & Hother & Hsum).
    unfold getop in Ho'. rewrite Ho'.
    assert (HI3 : cinv HC s3).
    { eapply cinv_comp; [|exact HI2]. unfold comp_of. pose proof Baq as Bt. unfold but_aq in Bt. tuple_eqs Bt. congruence. }
    assert (HT3 : TR s -> TR s3).
    { intros T. apply (TR_gen s2 _ (HT2 T)). intros i o1 Hi Hp. right.
      pose proof Baq as Bt. unfold but_aq in Bt. tuple_eqs Bt.
      assert (Hq : inQ s2 i -> inQ s3 i) by (unfold inQ; intros Qi; repeat match goal with E : _ s3 = _ s2 |- _ => rewrite E; clear E end; exact Qi).
      destruct (N.eq_dec i id) as [->|Hne].
      - unfold getop in Hi. assert (o1 = o') by congruence. subst o1. destruct Hrel as (R1 & R2 & R3 & R4 & R5 & R6 & R7 & R8).
        destruct (needs_pid (op_packet o)) eqn:En.
        + exfalso. apply Hbound; [congruence|exact Hp].
        + rewrite (R8 eq_refl) in *. exists o. splits; auto.
      - exists o1. rewrite <- (Hother i Hne). splits; auto. }
    unfold but_aq in Baq. tuple_eqs Baq. unfold s2 in *. cbn in *.
    assert (Hsd : seated m s s3 id).
    { constructor.
      - unfold seat_keep. unfold but_queues in B. tuple_eqs B. congruence.
      - unfold dq_rel in *. replace (s_hq s3) with (s_hq s1) by congruence. replace (s_rq s3) with (s_rq s1) by congruence.
        replace (s_uq s3) with (s_uq s1) by congruence. exact Dq.
      - intros i Hi. rewrite (Hother i Hi). unfold getop. cbn. rewrite B2. reflexivity.
      - exists o, o'. splits; auto.
      - rewrite Hsum. cbn. rewrite B2. reflexivity. }
    apply seat_tail_spec; try assumption.
    - unfold W9, ss_ok in *. rewrite Hsum. cbn. replace (s_st s3) with (s_st s) by congruence.
      replace (s_ss_count s3) with (s_ss_count s) by congruence. rewrite B2. exact H9.
    - replace (s_settings s3) with (s_settings s) by congruence.
      destruct Hv as [Hv|[Hm Hv]]; [left; exact Hv|right].
      destruct D as [(D1 & D2 & D3)|(D0 & _)]; [|congruence].
      assert (Hconn : is_connect (op_packet o) = true) by (eapply Hv; [rewrite D1; left; reflexivity|exact Ho0]).
      destruct Hrel as (R1 & R2 & R3 & R4 & R5 & R6 & R7 & R8).
      assert (o' = o) by (apply R8; destruct (op_packet o); try discriminate; reflexivity). subst o'.
      split; [exact Hconn|].
      destruct (op_pubrel o) eqn:Epr; [|reflexivity]. exfalso.
      assert (Hne : op_pubrel o <> None) by congruence.
      destruct (w_pubrel _ _ HW _ _ Ho0 Hne) as (pb & Hpb & _). rewrite Hpb in Hconn. discriminate.
  Qed.
End Seat.

Arguments seat_keep {enc dec ores ires} s.
Arguments dq_rel {enc dec ores ires} m s s' id.
Arguments seated {enc dec ores ires} m s s' id.
Arguments but_ores {enc dec ores ires} s.
