(* C02 / wire level: the byte stream of a run.  [service_loop_w] is the model's service loop instrumented with
   the alias log of AliasRunLog.v (every resolver / validator / encoder-constructor call) INTERLEAVED with the
   bytes every single enc_call returned; it is proved equal to the model's loop, its alias events are exactly
   those of [service_loop_a], its byte events concatenate to the bytes the service call emits.
   [wstep] folds such a log into the decomposition of the current connection's stream:
   complete packets + the partially written one.  Theorems in WireRun*.v. *)
From GM Require Import Base.Prelude Base.Outcome Codec.Packets Codec.Settings Engine.Model
  EngineProofs.AssocLemmas EngineProofs.HandshakeRunTrace EngineProofs.AliasRunFrames EngineProofs.AliasRunLog.
From RecordUpdate Require Import RecordSet.
Import RecordSetNotations.
Open Scope N_scope.
#[local] Set Default Proof Using "Type".

(* the four component types are implicit in the engine functions, locally to this file *)
#[local] Arguments init {enc dec} _ {ores ires} _ _.
#[local] Arguments release {enc dec ores ires} _ _ _ _.
#[local] Arguments disconnect_completion {enc dec ores ires} _ _.
#[local] Arguments fail_op {enc dec ores ires} _ _ _ _.
#[local] Arguments ping_extension {enc dec ores ires} _ _.
#[local] Arguments succeed_op {enc dec ores ires} _ _ _ _.
#[local] Arguments fail_all {enc dec ores ires} _ _ _ _.
#[local] Arguments succeed_all {enc dec ores ires} _ _ _.
#[local] Arguments andthen {enc dec ores ires} _ _.
#[local] Arguments try_ {enc dec ores ires} _ _.
#[local] Arguments pure {enc dec ores ires} _.
#[local] Arguments create_operation {enc dec ores ires} _ _.
#[local] Arguments passes_now {enc dec ores ires} _ _ _.
#[local] Arguments user_event {enc dec ores ires} _ _ _ _.
#[local] Arguments create_connect {enc dec ores ires} _ _.
#[local] Arguments net_opened {enc dec} _ {ores ires} _ _ _.
#[local] Arguments op_exists {enc dec ores ires} _ _.
#[local] Arguments op_passes {enc dec ores ires} _ _ _.
#[local] Arguments partition_policy {enc dec ores ires} _ _ _.
#[local] Arguments closed_current {enc dec ores ires} _ _.
#[local] Arguments slow_start_init {enc dec ores ires} _ _.
#[local] Arguments update_retries {enc dec ores ires} _ _.
#[local] Arguments fail_exceeding {enc dec ores ires} _ _.
#[local] Arguments has_pubrel {enc dec ores ires} _ _.
#[local] Arguments net_closed_raw {enc dec ores ires} _ _.
#[local] Arguments net_closed {enc dec ores ires} _ _.
#[local] Arguments net_write_completion {enc dec ores ires} _ _.
#[local] Arguments acquire_free_pid {enc dec ores ires} _ _.
#[local] Arguments acquire_pid_for {enc dec ores ires} _ _.
#[local] Arguments unbind {enc dec ores ires} _ _.
#[local] Arguments passes_receive_max {enc dec ores ires} _ _.
#[local] Arguments throttled {enc dec ores ires} _ _.
#[local] Arguments has_pending_ack {enc dec ores ires} _.
#[local] Arguments dequeue {enc dec ores ires} _ _ _.
#[local] Arguments fully_written {enc dec ores ires} _ _.
#[local] Arguments service_keep_alive {enc dec ores ires} _ _ _.
#[local] Arguments process_ack_timeouts {enc dec ores ires} _ _ _.
#[local] Arguments halt_on_error {enc dec ores ires} _ _.
#[local] Arguments next_service_time {enc dec ores ires} _ _ _.
#[local] Arguments build_settings {enc dec ores ires} _ _ _.
#[local] Arguments apply_session {enc dec ores ires} _ _ _.
#[local] Arguments hres_of {enc dec ores ires} _ _.
#[local] Arguments pre_connack {enc dec ores ires} _.
#[local] Arguments sum_ss {enc dec ores ires} _.
#[local] Arguments handle_pingresp {enc dec ores ires} _.
#[local] Arguments handle_suback {enc dec ores ires} _ _ _.
#[local] Arguments handle_unsuback {enc dec ores ires} _ _ _.
#[local] Arguments publish_qos_of {enc dec ores ires} _ _.
#[local] Arguments handle_puback {enc dec ores ires} _ _ _.
#[local] Arguments handle_pubrec {enc dec ores ires} _ _ _.
#[local] Arguments handle_pubrel {enc dec ores ires} _ _.
#[local] Arguments handle_pubcomp {enc dec ores ires} _ _ _.
#[local] Arguments handle_publish {enc dec ores ires} _ _.
#[local] Arguments handle_disconnect {enc dec ores ires} _ _ _.
#[local] Arguments is_connect_op {enc dec ores ires} _ _.
#[local] Arguments connect_in_queue {enc dec ores ires} _.
#[local] Arguments reset {enc dec ores ires} _ _.
#[local] Arguments out_of_res {enc dec ores ires} _ _.
#[local] Arguments nst_queue {enc dec ores ires} _ _ _ _.
#[local] Arguments earliest_tmo {enc dec ores ires} _.
#[local] Arguments SeatStop {enc dec ores ires} _.
#[local] Arguments SeatContinue {enc dec ores ires} _ _.
#[local] Arguments SeatEncode {enc dec ores ires} _.


(* ---- events of the wire log ---- *)
Inductive wev :=
| WO (e : oev)        (* an event of the alias log: pick / resolve / validate / encoder constructed / done / ... *)
| WB (b : bytes)      (* one enc_call returned b: appended to the output buffer of the service call *)
| WOpen.              (* an EvOpen event: the stream of a new connection starts *)

Definition olog_of (l : list wev) : list oev := flat_map (fun e => match e with WO x => [x] | _ => [] end) l.
Definition wbytes (l : list wev) : bytes := flat_map (fun e => match e with WB b => b | _ => [] end) l.
Definition no_wopen (l : list wev) : bool := forallb (fun e => match e with WOpen => false | _ => true end) l.

Lemma olog_of_app a b : olog_of (a ++ b) = olog_of a ++ olog_of b.
Proof. apply flat_map_app. Qed.
Lemma wbytes_app a b : wbytes (a ++ b) = wbytes a ++ wbytes b.
Proof. apply flat_map_app. Qed.
Lemma no_wopen_app a b : no_wopen (a ++ b) = no_wopen a && no_wopen b.
Proof. apply forallb_app. Qed.
Lemma olog_of_WO l : olog_of (map WO l) = l.
Proof. induction l as [|e l IH]; [reflexivity|]. cbn. unfold olog_of in IH. rewrite IH. reflexivity. Qed.
Lemma wbytes_WO l : wbytes (map WO l) = [].
Proof. induction l as [|e l IH]; [reflexivity|]. exact IH. Qed.
Lemma no_wopen_WO l : no_wopen (map WO l) = true.
Proof. induction l as [|e l IH]; [reflexivity|]. exact IH. Qed.

(* ---- the decomposition of the current connection's stream ---- *)
Definition pr := (packet * resolution)%type.
Definition olist {A} (o : option A) : list A := match o with Some x => [x] | None => [] end.

Record wg := mkWg {
  w_done : list pr;         (* packets whose encoder was constructed on this connection and ran to completion, in order *)
  w_cur : option pr;        (* the packet the encoder currently holds *)
  w_part : bytes;           (* what the encoder has emitted of it so far *)
  w_seated : list pr;       (* every (packet, resolution) an encoder was constructed for on this connection, in order *)
  w_stream : bytes }.       (* all bytes emitted on this connection *)
Definition wg0 : wg := mkWg [] None [] [] [].

Definition wstep (g : wg) (e : wev) : wg :=
  match e with
  | WOpen => wg0
  | WB b => mkWg (w_done g) (w_cur g) (w_part g ++ b) (w_seated g) (w_stream g ++ b)
  | WO (OEncode _ p r true) => mkWg (w_done g) (Some (p, r)) [] (w_seated g ++ [(p, r)]) (w_stream g)
  | WO (ODone _) => mkWg (w_done g ++ olist (w_cur g)) None [] (w_seated g) (w_stream g)
  | WO _ => g
  end.
Definition wfold (g : wg) (l : list wev) : wg := fold_left wstep l g.

Lemma wfold_app g a b : wfold g (a ++ b) = wfold (wfold g a) b.
Proof. apply fold_left_app. Qed.

(* alias events that do not concern the encoder *)
Definition inert (e : oev) : bool := match e with OEncode _ _ _ true | ODone _ => false | _ => true end.
Lemma wfold_inert l : forallb inert l = true -> forall g, wfold g (map WO l) = g.
Proof.
  induction l as [|e l IH]; intros H g; [reflexivity|]. cbn in H. apply andb_true_iff in H as [H1 H2].
  cbn [map wfold fold_left]. fold (wfold (wstep g (WO e)) (map WO l)). rewrite (IH H2).
  destruct e as [id|id|id|id a t res|id p r v|m|id k|id p r ok|id|m| | | ]; try reflexivity; [destruct ok; [discriminate|reflexivity]|discriminate].
Qed.

(* the packets an encoder was constructed for / the bytes emitted since the last WOpen, as plain list functions *)
Fixpoint conn_seated (l : list wev) (acc : list pr) : list pr :=
  match l with
  | [] => acc
  | WOpen :: rest => conn_seated rest []
  | WO (OEncode _ p r true) :: rest => conn_seated rest (acc ++ [(p, r)])
  | _ :: rest => conn_seated rest acc
  end.
Fixpoint conn_stream (l : list wev) (acc : bytes) : bytes :=
  match l with
  | [] => acc
  | WOpen :: rest => conn_stream rest []
  | WB b :: rest => conn_stream rest (acc ++ b)
  | _ :: rest => conn_stream rest acc
  end.

Lemma wfold_seated l : forall g, w_seated (wfold g l) = conn_seated l (w_seated g).
Proof.
  induction l as [|e l IH]; intros g; [reflexivity|]. cbn [wfold fold_left]. fold (wfold (wstep g e) l). rewrite IH.
  destruct e as [x|b|]; [|reflexivity|reflexivity].
  destruct x as [id|id|id|id a t res|id p r v|m|id k|id p r ok|id|m| | | ]; try reflexivity. destruct ok; reflexivity.
Qed.
Lemma wfold_stream l : forall g, w_stream (wfold g l) = conn_stream l (w_stream g).
Proof.
  induction l as [|e l IH]; intros g; [reflexivity|]. cbn [wfold fold_left]. fold (wfold (wstep g e) l). rewrite IH.
  destruct e as [x|b|]; [|reflexivity|reflexivity].
  destruct x as [id|id|id|id a t res|id p r v|m|id k|id p r ok|id|m| | | ]; try reflexivity. destruct ok; reflexivity.
Qed.

(* the (packet, resolution) pairs of the successful encoder constructions of an alias log *)
Definition encodes (l : list oev) : list pr :=
  flat_map (fun e => match e with OEncode _ p r true => [(p, r)] | _ => [] end) l.

Lemma conn_seated_no_open l : no_wopen l = true -> forall acc, conn_seated l acc = acc ++ encodes (olog_of l).
Proof.
  induction l as [|e l IH]; intros H acc; [cbn; rewrite app_nil_r; reflexivity|]. cbn in H. apply andb_true_iff in H as [H1 H2].
  destruct e as [x|b|]; [| |discriminate]; cbn [conn_seated]; [|rewrite (IH H2); reflexivity].
  destruct x as [id|id|id|id a t res|id p r v|m|id k|id p r ok|id|m| | | ]; try (rewrite (IH H2); reflexivity).
  destruct ok; rewrite (IH H2); [|reflexivity]. cbn. rewrite <- app_assoc. reflexivity.
Qed.
Lemma conn_stream_no_open l : no_wopen l = true -> forall acc, conn_stream l acc = acc ++ wbytes l.
Proof.
  induction l as [|e l IH]; intros H acc; [cbn; rewrite app_nil_r; reflexivity|]. cbn in H. apply andb_true_iff in H as [H1 H2].
  destruct e as [x|b|]; [| |discriminate]; cbn [conn_stream]; rewrite (IH H2); [reflexivity|]. cbn. rewrite <- app_assoc. reflexivity.
Qed.

Section WLog.
  Variable enc : Type.
  Variable enc_reset : version -> packet -> resolution -> outcome enc.
  Variable enc_call : enc -> N -> N -> outcome (bytes * enc).
  Variable enc_done : enc -> bool.
  Variable dec : Type.
  Variable dec_init : dec.
  Variable dec_feed : version -> N -> dec -> bytes -> dec * list packet * outcome unit.
  Variable ores : Type.
  Variable ores_reset : ores -> N -> ores.
  Variable ores_resolve : ores -> option N -> bytes -> outcome (ores * resolution).
  Variable ires : Type.
  Variable ires_reset : ires -> ires.
  Variable ires_resolve : ires -> option N -> bytes -> outcome (ires * bytes).
  Variable v_out : option settings -> connect_opts -> resolution -> packet -> outcome unit.
  Variable v_in : option settings -> packet -> outcome unit.
  Variable cfg : config.

  Notation state := (state enc dec ores ires).
  Notation sres := (sres enc dec ores ires).
  Notation seat := (seat enc dec ores ires).
  Notation step := (step enc enc_reset enc_call enc_done dec dec_init dec_feed ores ores_reset ores_resolve
                         ires ires_reset ires_resolve v_out v_in cfg).
  Notation run := (run enc enc_reset enc_call enc_done dec dec_init dec_feed ores ores_reset ores_resolve
                       ires ires_reset ires_resolve v_out v_in cfg).
  Notation seat_current := (seat_current enc enc_reset dec ores ores_reset ores_resolve ires v_out cfg).
  Notation service_loop := (service_loop enc enc_reset enc_call enc_done dec ores ores_reset ores_resolve ires v_out cfg).
  Notation service_queue := (service_queue enc enc_reset enc_call enc_done dec ores ores_reset ores_resolve ires v_out cfg).
  Notation service := (service enc enc_reset enc_call enc_done dec ores ores_reset ores_resolve ires v_out cfg).
  Notation encode_next := (encode_next enc enc_call enc_done dec ores ires).
  Notation queue_fuel := (queue_fuel enc dec ores ires).
  Notation seat_current_a := (seat_current_a enc enc_reset dec ores ores_reset ores_resolve ires v_out cfg).
  Notation service_loop_a := (service_loop_a enc enc_reset enc_call enc_done dec ores ores_reset ores_resolve ires v_out cfg).
  Notation service_log := (service_log enc enc_reset enc_call enc_done dec ores ores_reset ores_resolve ires v_out cfg).
  Notation step_olog := (step_olog enc enc_reset enc_call enc_done dec dec_feed ores ores_reset ores_resolve ires ires_reset ires_resolve v_out v_in cfg).
  Notation run_olog := (run_olog enc enc_reset enc_call enc_done dec dec_init dec_feed ores ores_reset ores_resolve ires ires_reset ires_resolve v_out v_in cfg).

  (* ---- the service loop with the alias log and the bytes of every encoder call ---- *)
  Fixpoint service_loop_w (fuel : nat) (s : state) (m : bool) (now cap fill : N) (acc : bytes) (dn : dones)
    : sres * list wev :=
    match fuel with
    | O => (mkSres s acc dn (Panic 9999), [])
    | S f =>
      if negb (pstate_eqb (s_st s) PendingConnack || pstate_eqb (s_st s) Connected) then (mkSres s acc dn (Ok tt), []) else
      match seat_current_a s m acc dn with
      | (SeatStop r, l) => (r, map WO l)
      | (SeatContinue s5 dn', l) =>
          let rt := service_loop_w f s5 m now cap fill acc dn' in (fst rt, map WO l ++ snd rt)
      | (SeatEncode s5, l) =>
          match s_cur s5 with
          | None => (mkSres s5 acc dn (Panic 1433), map WO l)
          | Some id =>
              if negb (op_exists s5 id) then (mkSres s5 acc dn (Err EInternalStateError), map WO l) else
              match s_enc s5 with
              | None => (mkSres s5 acc dn (Panic 1436), map WO l)
              | Some e =>
                  match enc_call e (fill + len acc) cap with
                  | Err k => (mkSres s5 acc dn (Err k), map WO l)
                  | Panic site => (mkSres s5 acc dn (Panic site), map WO l)
                  | Ok (out, e') =>
                      let s6 := s5 <| s_enc := Some e' |> in
                      if enc_done e' then
                        match fully_written s6 now with
                        | Ok s7 =>
                            let rt := service_loop_w f s7 m now cap fill (acc ++ out) dn in
                            (fst rt, map WO l ++ WB out :: WO (ODone id) :: snd rt)
                        | Err k => (mkSres s6 (acc ++ out) dn (Err k), map WO l ++ [WB out])
                        | Panic site => (mkSres s6 (acc ++ out) dn (Panic site), map WO l ++ [WB out])
                        end
                      else (mkSres s6 (acc ++ out) dn (Ok tt), map WO l ++ [WB out])
                  end
              end
          end
      end
    end.

  (* it computes exactly the model's loop *)
  Lemma service_loop_w_fst : forall f (s : state) m now cap fill acc dn,
    fst (service_loop_w f s m now cap fill acc dn) = service_loop f s m now cap fill acc dn.
  Proof.
    induction f as [|f IH]; intros s m now cap fill acc dn; [reflexivity|].
    cbn [service_loop_w Model.service_loop].
    destruct (negb (pstate_eqb (s_st s) PendingConnack || pstate_eqb (s_st s) Connected)); [reflexivity|].
    rewrite <- (seat_current_a_fst _ _ _ _ _ _ _ _ _ s m acc dn).
    destruct (seat_current_a s m acc dn) as [[r|s5 dn'|s5] l]; cbn [fst]; [reflexivity|apply IH|].
    destruct (s_cur s5) as [id|]; [|reflexivity].
    destruct (negb (op_exists s5 id)); [reflexivity|]. destruct (s_enc s5) as [e|]; [|reflexivity].
    destruct (enc_call e (fill + len acc) cap) as [[out e']|k|site]; [|reflexivity|reflexivity].
    cbv zeta. destruct (enc_done e'); [|reflexivity].
    destruct (fully_written (s5 <| s_enc := Some e' |>) now) as [s7|k|site]; [|reflexivity|reflexivity].
    cbn [fst]. apply IH.
  Qed.

  (* its alias events are exactly the log of AliasRunLog.service_loop_a *)
  Lemma service_loop_w_olog : forall f (s : state) m now cap fill acc dn,
    olog_of (snd (service_loop_w f s m now cap fill acc dn)) = snd (service_loop_a f s m now cap fill acc dn).
  Proof.
    induction f as [|f IH]; intros s m now cap fill acc dn; [reflexivity|].
    cbn [service_loop_w AliasRunLog.service_loop_a].
    destruct (negb (pstate_eqb (s_st s) PendingConnack || pstate_eqb (s_st s) Connected)); [reflexivity|].
    destruct (seat_current_a s m acc dn) as [[r|s5 dn'|s5] l]; cbn [fst snd].
    - apply olog_of_WO.
    - rewrite olog_of_app, olog_of_WO, IH. reflexivity.
    - unfold HandshakeRunTrace.encode_next. destruct (s_cur s5) as [id|]; [|apply olog_of_WO].
      destruct (negb (op_exists s5 id)); [apply olog_of_WO|]. destruct (s_enc s5) as [e|]; [|apply olog_of_WO].
      destruct (enc_call e (fill + len acc) cap) as [[out e']|k|site]; [|apply olog_of_WO|apply olog_of_WO].
      cbv zeta. destruct (enc_done e'); [|cbn [snd]; rewrite olog_of_app, olog_of_WO; cbn; apply app_nil_r].
      destruct (fully_written (s5 <| s_enc := Some e' |>) now) as [s7|k|site];
        [|cbn [snd]; rewrite olog_of_app, olog_of_WO; cbn; apply app_nil_r..].
      cbn [fst snd]. rewrite olog_of_app, olog_of_WO. cbn. f_equal. f_equal. apply IH.
  Qed.

  (* a seat that stops the loop leaves the output buffer as it is *)
  Lemma seat_stop_bytes (s : state) m acc dn r : fst (seat_current_a s m acc dn) = SeatStop r -> sr_bytes r = acc.
  Proof.
    unfold AliasRunLog.seat_current_a. destruct (s_cur s); [discriminate|].
    destruct (dequeue cfg s m) as [s1 next]. destruct next as [id|]; [|intros H; inversion H; reflexivity].
    destruct (negb (op_exists (s1 <| s_cur := Some id |>) id)); [discriminate|].
    destruct (acquire_pid_for (s1 <| s_cur := Some id |>) id) as [s3|k|site]; [|intros H; inversion H; reflexivity..].
    destruct (lookup id (s_ops s3)) as [o|]; [|intros H; inversion H; reflexivity].
    set (packet := match op_pubrel o with Some pr => pr | None => op_packet o end).
    destruct (match packet with
              | Publish pb => do (o', r) <- ores_resolve (s_ores s3) (pub_alias pb) (pub_topic pb) ; Ok (s3 <| s_ores := o' |>, r)
              | _ => Ok (s3, no_resolution) end) as [[s4 r0]|k|site]; [|intros H; inversion H; reflexivity..].
    destruct (v_out (s_settings s4) (cf_connect cfg) r0 packet) as [u|k|site]; [| |intros H; inversion H; reflexivity].
    - destruct (enc_reset (cf_version cfg) packet r0); [discriminate|intros H; inversion H; reflexivity..].
    - cbv zeta. match goal with |- context [r_out ?x] => destruct (r_out x) end; [discriminate|intros H; inversion H; reflexivity..].
  Qed.

  (* its byte events concatenate to what the call appends to the output buffer *)
  Lemma service_loop_w_bytes : forall f (s : state) m now cap fill acc dn,
    sr_bytes (fst (service_loop_w f s m now cap fill acc dn)) = acc ++ wbytes (snd (service_loop_w f s m now cap fill acc dn)).
  Proof.
    induction f as [|f IH]; intros s m now cap fill acc dn; [cbn; rewrite app_nil_r; reflexivity|].
    cbn [service_loop_w].
    destruct (negb (pstate_eqb (s_st s) PendingConnack || pstate_eqb (s_st s) Connected)); [cbn; rewrite app_nil_r; reflexivity|].
    pose proof (seat_stop_bytes s m acc dn) as Hstop.
    destruct (seat_current_a s m acc dn) as [[r|s5 dn'|s5] l]; cbn [fst snd].
    - rewrite wbytes_WO, app_nil_r. apply Hstop. reflexivity.
    - rewrite wbytes_app, wbytes_WO. cbn [app]. apply IH.
    - assert (Hnil : forall x : sres, sr_bytes x = acc -> sr_bytes x = acc ++ wbytes (map WO l)) by (intros x ->; rewrite wbytes_WO, app_nil_r; reflexivity).
      assert (Hone : forall out, acc ++ out = acc ++ wbytes (map WO l ++ [WB out])) by (intros out; rewrite wbytes_app, wbytes_WO; cbn; rewrite app_nil_r; reflexivity).
      destruct (s_cur s5) as [id|]; [|apply Hnil; reflexivity].
      destruct (negb (op_exists s5 id)); [apply Hnil; reflexivity|]. destruct (s_enc s5) as [e|]; [|apply Hnil; reflexivity].
      destruct (enc_call e (fill + len acc) cap) as [[out e']|k|site]; [|apply Hnil; reflexivity..].
      cbv zeta. destruct (enc_done e'); [|cbn [fst snd sr_bytes]; apply Hone].
      destruct (fully_written (s5 <| s_enc := Some e' |>) now) as [s7|k|site]; [|cbn [fst snd sr_bytes]; apply Hone..].
      cbn [fst snd]. rewrite IH, wbytes_app, wbytes_WO. cbn. rewrite <- app_assoc. reflexivity.
  Qed.

  (* ---- the wire log of one service call, of one step, of a history ---- *)
  Definition service_queue_wlog (s : state) (m : bool) (now cap fill : N) : list wev :=
    snd (service_loop_w (queue_fuel s) s m now cap fill [] []).

  Definition service_wlog (s : state) (now cap fill : N) : list wev :=
    match s_st s with
    | PendingConnack =>
        match s_connack_to s with
        | Some t => if t <=? now then [] else service_queue_wlog s false now cap fill
        | None => []
        end
    | Connected =>
        match service_keep_alive cfg s now with
        | Ok s1 => service_queue_wlog s1 true now cap fill
        | _ => []
        end
    | _ => []
    end.

  Definition step_wlog (s : state) (e : event) : list wev :=
    match e with
    | EvOpen _ _ => WOpen :: map WO (step_olog s e)
    | EvService now cap fill => service_wlog s now cap fill
    | _ => map WO (step_olog s e)
    end.

  Fixpoint run_wlog (s : state) (h : list event) : list wev :=
    match h with [] => [] | e :: r => step_wlog s e ++ run_wlog (fst (step s e)) r end.

  Lemma service_queue_w (s : state) m now cap fill :
    service_queue s m now cap fill =
    let r := fst (service_loop_w (queue_fuel s) s m now cap fill [] []) in
    match sr_bytes r with
    | [] => r
    | _ => mkSres (sr_s r <| s_pwc := true |>) (sr_bytes r) (sr_done r) (sr_out r)
    end.
  Proof. unfold Model.service_queue, HandshakeRunTrace.queue_fuel. cbv zeta. rewrite service_loop_w_fst. reflexivity. Qed.

  Lemma service_queue_bytes (s : state) m now cap fill :
    sr_bytes (service_queue s m now cap fill) = wbytes (service_queue_wlog s m now cap fill).
  Proof.
    rewrite service_queue_w. cbv zeta. unfold service_queue_wlog.
    pose proof (service_loop_w_bytes (queue_fuel s) s m now cap fill [] []) as H. cbn [app] in H.
    destruct (sr_bytes (fst (service_loop_w (queue_fuel s) s m now cap fill [] []))) eqn:E; cbn [sr_bytes]; congruence.
  Qed.

  (* the alias events of the wire log are the alias log; its byte events are the bytes the step emits *)
  Lemma step_wlog_olog (s : state) e : olog_of (step_wlog s e) = step_olog s e.
  Proof.
    destruct e; cbn [step_wlog]; try apply olog_of_WO.
    cbn [AliasRunLog.step_olog]. unfold service_wlog, AliasRunLog.service_log, service_queue_wlog, AliasRunLog.service_queue_log.
    destruct (s_st s); try reflexivity.
    - destruct (s_connack_to s) as [t|]; [|reflexivity]. destruct (t <=? now); [reflexivity|]. apply service_loop_w_olog.
    - destruct (service_keep_alive cfg s now); try reflexivity. apply service_loop_w_olog.
  Qed.

  Lemma step_wlog_bytes (s : state) e : wbytes (step_wlog s e) = o_bytes (snd (step s e)).
  Proof.
    destruct e as [now p t|now dl|now|now data|now|now cap fill|now|now]; cbn [step_wlog Model.step].
    - rewrite wbytes_WO. unfold out_of_res. reflexivity.
    - cbn [wbytes flat_map app]. fold (wbytes (map WO (step_olog s (EvOpen now dl)))). rewrite wbytes_WO. reflexivity.
    - rewrite wbytes_WO. reflexivity.
    - rewrite wbytes_WO. reflexivity.
    - rewrite wbytes_WO. reflexivity.
    - cbn [snd o_bytes]. unfold Model.service, service_wlog. cbv zeta. cbn [sr_bytes].
      destruct (s_st s); try reflexivity.
      + destruct (s_connack_to s) as [t|]; [|reflexivity]. destruct (t <=? now); [reflexivity|]. symmetry. apply service_queue_bytes.
      + destruct (service_keep_alive cfg s now) as [s1|k|site]; try reflexivity.
        rewrite <- service_queue_bytes. destruct (sr_out (service_queue s1 true now cap fill)); reflexivity.
    - rewrite wbytes_WO. destruct (next_service_time cfg s now); reflexivity.
    - rewrite wbytes_WO. reflexivity.
  Qed.

  Lemma step_wlog_open (s : state) e : no_wopen (step_wlog s e) = match e with EvOpen _ _ => false | _ => true end.
  Proof.
    destruct e as [now p t|now dl|now|now data|now|now cap fill|now|now]; cbn [step_wlog]; try apply no_wopen_WO; [reflexivity|].
    assert (H : forall f (s0 : state) m acc dn, no_wopen (snd (service_loop_w f s0 m now cap fill acc dn)) = true).
    { induction f as [|f IH]; intros s0 m acc dn; [reflexivity|]. cbn [service_loop_w].
      destruct (negb (pstate_eqb (s_st s0) PendingConnack || pstate_eqb (s_st s0) Connected)); [reflexivity|].
      destruct (seat_current_a s0 m acc dn) as [[r|s5 dn'|s5] l]; cbn [snd]; [apply no_wopen_WO|rewrite no_wopen_app, no_wopen_WO; apply IH|].
      destruct (s_cur s5) as [id|]; [|apply no_wopen_WO].
      destruct (negb (op_exists s5 id)); [apply no_wopen_WO|]. destruct (s_enc s5) as [e|]; [|apply no_wopen_WO].
      destruct (enc_call e (fill + len acc) cap) as [[out e']|k|site]; [|apply no_wopen_WO..].
      cbv zeta. destruct (enc_done e'); [|cbn [snd]; rewrite no_wopen_app, no_wopen_WO; reflexivity].
      destruct (fully_written (s5 <| s_enc := Some e' |>) now) as [s7|k|site]; [|cbn [snd]; rewrite no_wopen_app, no_wopen_WO; reflexivity..].
      cbn [snd]. rewrite no_wopen_app, no_wopen_WO. cbn. apply IH. }
    unfold service_wlog, service_queue_wlog. destruct (s_st s); try reflexivity.
    - destruct (s_connack_to s) as [t|]; [|reflexivity]. destruct (t <=? now); [reflexivity|]. apply H.
    - destruct (service_keep_alive cfg s now); try reflexivity. apply H.
  Qed.

  Theorem run_wlog_olog : forall h (s : state), olog_of (run_wlog s h) = run_olog s h.
  Proof.
    induction h as [|e r IH]; intros s; [reflexivity|]. cbn [run_wlog AliasRunLog.run_olog].
    rewrite olog_of_app, step_wlog_olog, IH. reflexivity.
  Qed.

  (* ---- the observable side: the bytes of the outputs of a history since the last EvOpen ---- *)
  Fixpoint conn_bytes (h : list event) (os : list output) (acc : bytes) : bytes :=
    match h, os with
    | e :: h', o :: os' =>
        conn_bytes h' os' (match e with EvOpen _ _ => [] | EvService _ _ _ => acc ++ o_bytes o | _ => acc end)
    | _, _ => acc
    end.

  Lemma only_service_emits (s : state) e : match e with EvService _ _ _ => True | _ => o_bytes (snd (step s e)) = [] end.
  Proof. destruct e; cbn [Model.step]; try exact I; try reflexivity. destruct (next_service_time cfg s now); reflexivity. Qed.

  Theorem run_wlog_stream : forall h (s : state) acc,
    conn_stream (run_wlog s h) acc = conn_bytes h (snd (run s h)) acc.
  Proof.
    induction h as [|e r IH]; intros s acc; [reflexivity|]. cbn [run_wlog Model.run].
    pose proof (step_wlog_bytes s e) as Hb. pose proof (step_wlog_open s e) as Ho. pose proof (only_service_emits s e) as Hq.
    destruct (step s e) as [s1 o] eqn:Es. cbn [fst snd] in *. destruct (run s1 r) as [s2 os] eqn:Er. cbn [snd conn_bytes].
    assert (E : forall l1 l2 a, no_wopen l1 = true -> conn_stream (l1 ++ l2) a = conn_stream l2 (a ++ wbytes l1)).
    { induction l1 as [|x l1 IH1]; intros l2 a H; [cbn; rewrite app_nil_r; reflexivity|]. cbn in H. apply andb_true_iff in H as [H1 H2].
      destruct x as [x|b|]; [| |discriminate]; cbn [app conn_stream]; rewrite (IH1 _ _ H2); [reflexivity|]. cbn. rewrite <- app_assoc. reflexivity. }
    destruct e as [now p t|now dl|now|now data|now|now cap fill|now|now];
      try (rewrite (E _ _ _ Ho), Hb, Hq, app_nil_r, IH, Er; reflexivity).
    - cbn [step_wlog app conn_stream]. rewrite (E _ _ _ (no_wopen_WO _)), wbytes_WO, IH, Er. reflexivity.
    - rewrite (E _ _ _ Ho), Hb, IH, Er. reflexivity.
  Qed.
End WLog.
