(* C04: the DUP flag and the bound packet id of an operation are touched by NOTHING but the close path
   (DUP := 1, DeliveryClose.v) and the session path at CONNACK (DUP := 0 / unbind, DeliverySession.v).

   [keep_op o o']       o' has the same packet and the same bound packet id as o, OR (the only exception) o had no
                        packet id and o' is o with a freshly allocated id written into the packet and into op_pid
                        (acquire_packet_id at the first transmission; DUP, QoS, topic, payload untouched: with_pid).
   [same_packets s s']  the operation-id counter only grows, and every operation of s' is either an operation of s
                        related by keep_op or a NEW operation (its id is >= the old counter).
   Reflexive and transitive.  Proved here for every engine function other than net_closed and handle_connack /
   apply_session: submission, connection opened, write completion, the whole service call (keep-alive, dequeue,
   packet-id acquisition, validation failure, encoding, fully-written bookkeeping, ack timeouts); the packet
   handlers, incoming data and reset are in DeliveryFrame2.v.  No premise: EVERY state. *)
From GM Require Import Base.Prelude Base.Outcome Codec.Packets Codec.Settings Engine.Model
  EngineProofs.AssocLemmas EngineProofs.WFLemmas EngineProofs.IdsFrame EngineProofs.IdsHelpers EngineProofs.SvcTimeout
  EngineProofs.DeliveryBase.
From RecordUpdate Require Import RecordSet.
Import RecordSetNotations.
Open Scope N_scope.

Definition bound_from (o o' : op) : Prop :=
  op_pid o = None /\ exists pid, op_pid o' = Some pid /\ with_pid pid (op_packet o) = Ok (op_packet o').
Definition keep_op (o o' : op) : Prop := (op_packet o' = op_packet o /\ op_pid o' = op_pid o) \/ bound_from o o'.

Lemma keep_op_refl o : keep_op o o.
Proof. left. split; reflexivity. Qed.

Lemma keep_op_trans a b c : keep_op a b -> keep_op b c -> keep_op a c.
Proof.
  intros [[A1 A2]|(A1 & pid & A2 & A3)] [[B1 B2]|(B1 & pid' & B2 & B3)].
  - left. split; congruence.
  - right. split; [congruence|]. exists pid'. split; [exact B2|congruence].
  - right. split; [exact A1|]. exists pid. split; congruence.
  - congruence.
Qed.

(* the exception never touches DUP, QoS or the application content *)
Lemma bound_from_dup o o' : bound_from o o' -> dup_of (op_packet o') = dup_of (op_packet o) /\ norm (op_packet o') = norm (op_packet o).
Proof.
  intros (_ & pid & _ & H). destruct (op_packet o); cbn [with_pid] in H; inversion H; split; reflexivity.
Qed.

Section Frame.
  Variable enc : Type.
  Variable enc_reset : version -> packet -> resolution -> outcome enc.
  Variable enc_call : enc -> N -> N -> outcome (bytes * enc).
  Variable enc_done : enc -> bool.
  Variable dec : Type.
  Variable dec_init : dec.
  Variable dec_feed : version -> N -> dec -> bytes -> dec * list packet * outcome unit.
  Variable ores : Type.
  Variable ores_reset : ores -> N -> ores.
  Variable ores_resolve : ores -> option N -> bytes -> outcome (ores * resolution).
  Variable ires : Type.
  Variable ires_reset : ires -> ires.
  Variable ires_resolve : ires -> option N -> bytes -> outcome (ires * bytes).
  Variable v_out : option settings -> connect_opts -> resolution -> packet -> outcome unit.
  Variable v_in : option settings -> packet -> outcome unit.
  Variable cfg : config.

  Notation state := (Model.state enc dec ores ires).
  Notation init := (Model.init enc dec dec_init ores ires).
  Notation res := (Model.res enc dec ores ires).
  Notation release := (Model.release enc dec ores ires cfg).
  Notation disconnect_completion := (Model.disconnect_completion enc dec ores ires).
  Notation fail_op := (Model.fail_op enc dec ores ires cfg).
  Notation ping_extension := (Model.ping_extension enc dec ores ires).
  Notation succeed_op := (Model.succeed_op enc dec ores ires cfg).
  Notation fail_all := (Model.fail_all enc dec ores ires cfg).
  Notation succeed_all := (Model.succeed_all enc dec ores ires cfg).
  Notation andthen := (Model.andthen enc dec ores ires).
  Notation try_ := (Model.try_ enc dec ores ires).
  Notation pure := (Model.pure enc dec ores ires).
  Notation create_operation := (Model.create_operation enc dec ores ires).
  Notation passes_now := (Model.passes_now enc dec ores ires cfg).
  Notation user_event := (Model.user_event enc dec ores ires cfg).
  Notation create_connect := (Model.create_connect enc dec ores ires cfg).
  Notation net_opened := (Model.net_opened enc dec dec_init ores ires cfg).
  Notation op_exists := (Model.op_exists enc dec ores ires).
  Notation op_passes := (Model.op_passes enc dec ores ires cfg).
  Notation partition_policy := (Model.partition_policy enc dec ores ires cfg).
  Notation closed_current := (Model.closed_current enc dec ores ires cfg).
  Notation slow_start_init := (Model.slow_start_init enc dec ores ires cfg).
  Notation update_retries := (Model.update_retries enc dec ores ires cfg).
  Notation fail_exceeding := (Model.fail_exceeding enc dec ores ires cfg).
  Notation has_pubrel := (Model.has_pubrel enc dec ores ires).
  Notation net_closed_raw := (Model.net_closed_raw enc dec ores ires cfg).
  Notation net_closed := (Model.net_closed enc dec ores ires cfg).
  Notation net_write_completion := (Model.net_write_completion enc dec ores ires cfg).
  Notation acquire_free_pid := (Model.acquire_free_pid enc dec ores ires).
  Notation acquire_pid_for := (Model.acquire_pid_for enc dec ores ires).
  Notation unbind := (Model.unbind enc dec ores ires).
  Notation passes_receive_max := (Model.passes_receive_max enc dec ores ires).
  Notation throttled := (Model.throttled enc dec ores ires cfg).
  Notation has_pending_ack := (Model.has_pending_ack enc dec ores ires).
  Notation dequeue := (Model.dequeue enc dec ores ires cfg).
  Notation fully_written := (Model.fully_written enc dec ores ires).
  Notation sres := (Model.sres enc dec ores ires).
  Notation seat := (Model.seat enc dec ores ires).
  Notation seat_current := (Model.seat_current enc enc_reset dec ores ores_reset ores_resolve ires v_out cfg).
  Notation service_loop := (Model.service_loop enc enc_reset enc_call enc_done dec ores ores_reset ores_resolve ires v_out cfg).
  Notation service_queue := (Model.service_queue enc enc_reset enc_call enc_done dec ores ores_reset ores_resolve ires v_out cfg).
  Notation service_keep_alive := (Model.service_keep_alive enc dec ores ires cfg).
  Notation process_ack_timeouts := (Model.process_ack_timeouts enc dec ores ires cfg).
  Notation halt_on_error := (Model.halt_on_error enc dec ores ires).
  Notation service := (Model.service enc enc_reset enc_call enc_done dec ores ores_reset ores_resolve ires v_out cfg).
  Notation earliest_tmo := (Model.earliest_tmo enc dec ores ires).
  Notation nst_queue := (Model.nst_queue enc dec ores ires cfg).
  Notation next_service_time := (Model.next_service_time enc dec ores ires cfg).
  Notation build_settings := (Model.build_settings enc dec ores ires cfg).
  Notation apply_session := (Model.apply_session enc dec ores ires cfg).
  Notation hres := (Model.hres enc dec ores ires).
  Notation hres_of := (Model.hres_of enc dec ores ires).
  Notation pre_connack := (Model.pre_connack enc dec ores ires).
  Notation sum_ss := (Model.sum_ss enc dec ores ires).
  Notation handle_connack := (Model.handle_connack enc dec ores ores_reset ires ires_reset v_in cfg).
  Notation handle_pingresp := (Model.handle_pingresp enc dec ores ires).
  Notation handle_suback := (Model.handle_suback enc dec ores ires cfg).
  Notation handle_unsuback := (Model.handle_unsuback enc dec ores ires cfg).
  Notation publish_qos_of := (Model.publish_qos_of enc dec ores ires).
  Notation handle_puback := (Model.handle_puback enc dec ores ires cfg).
  Notation handle_pubrec := (Model.handle_pubrec enc dec ores ires cfg).
  Notation handle_pubrel := (Model.handle_pubrel enc dec ores ires).
  Notation handle_pubcomp := (Model.handle_pubcomp enc dec ores ires cfg).
  Notation handle_publish := (Model.handle_publish enc dec ores ires).
  Notation handle_disconnect := (Model.handle_disconnect enc dec ores ires cfg).
  Notation handle_packet := (Model.handle_packet enc dec ores ores_reset ires ires_reset v_in cfg).
  Notation handle_packets := (Model.handle_packets enc dec ores ores_reset ires ires_reset ires_resolve v_in cfg).
  Notation is_connect_op := (Model.is_connect_op enc dec ores ires).
  Notation connect_in_queue := (Model.connect_in_queue enc dec ores ires).
  Notation max_incoming_size := (Model.max_incoming_size cfg).
  Notation net_data := (Model.net_data enc dec dec_feed ores ores_reset ires ires_reset ires_resolve v_in cfg).
  Notation reset := (Model.reset enc dec ores ires cfg).
  Notation out_of_res := (Model.out_of_res enc dec ores ires).
  Notation step := (Model.step enc enc_reset enc_call enc_done dec dec_init dec_feed ores ores_reset ores_resolve ires ires_reset ires_resolve v_out v_in cfg).
  Notation run := (Model.run enc enc_reset enc_call enc_done dec dec_init dec_feed ores ores_reset ores_resolve ires ires_reset ires_resolve v_out v_in cfg).
  Notation SeatStop := (Model.SeatStop enc dec ores ires).
  Notation SeatContinue := (Model.SeatContinue enc dec ores ires).
  Notation SeatEncode := (Model.SeatEncode enc dec ores ires).
  Notation mkState := (Model.mkState enc dec ores ires).

  Ltac slia := try clear v_in; try clear v_out; try clear ires_resolve; try clear ires_reset; try clear ores_resolve;
    try clear ores_reset; try clear dec_feed; try clear dec_init; try clear enc_done; try clear enc_call; try clear enc_reset; lia.
  Ltac dm := match goal with
    | |- context [match ?x with _ => _ end] => destruct x eqn:?
    end.
  Notation gop := (DeliveryBase.gop enc dec ores ires).

  Definition same_packets (s s' : state) : Prop :=
    s_next_id s <= s_next_id s' /\
    forall i o', gop s' i = Some o' -> (exists o, gop s i = Some o /\ keep_op o o') \/ s_next_id s <= i.

  Lemma sp_refl s : same_packets s s.
  Proof. split; [slia|]. intros i o' H. left. exists o'. split; [exact H|apply keep_op_refl]. Qed.

  Lemma sp_trans s s1 s2 : same_packets s s1 -> same_packets s1 s2 -> same_packets s s2.
  Proof.
    intros [A1 A2] [B1 B2]. split; [slia|]. intros i o2 H2.
    destruct (B2 _ _ H2) as [(o1 & H1 & K1)|Hn]; [|right; slia].
    destruct (A2 _ _ H1) as [(o & H0 & K0)|Hn]; [|right; exact Hn].
    left. exists o. split; [exact H0|eapply keep_op_trans; eassumption].
  Qed.

  Lemma sp_sub s s' : s_next_id s' = s_next_id s -> (forall i o, gop s' i = Some o -> gop s i = Some o) -> same_packets s s'.
  Proof. intros En Hs. split; [slia|]. intros i o' H. left. exists o'. split; [apply Hs; exact H|apply keep_op_refl]. Qed.

  Lemma sp_same s s' : s_ops s' = s_ops s -> s_next_id s' = s_next_id s -> same_packets s s'.
  Proof. intros Eo En. apply sp_sub; [exact En|]. unfold DeliveryBase.gop. rewrite Eo. auto. Qed.

  Lemma sp_from s0 s s' : s_ops s0 = s_ops s -> s_next_id s0 = s_next_id s -> same_packets s s' -> same_packets s0 s'.
  Proof. intros Eo En. apply sp_trans. apply sp_same; congruence. Qed.

  Lemma sp_remove s s' id : s_ops s' = remove id (s_ops s) -> s_next_id s' = s_next_id s -> same_packets s s'.
  Proof.
    intros Eo En. apply sp_sub; [exact En|]. unfold DeliveryBase.gop. rewrite Eo. intros i o H.
    apply lookup_remove_inv in H. tauto.
  Qed.

  Lemma sp_create s o : same_packets s (fst (create_operation s o)).
  Proof.
    unfold Model.create_operation. cbn [fst]. split; [cbn; slia|]. intros i o'. unfold DeliveryBase.gop. cbn.
    rewrite lookup_app. destruct (lookup i (s_ops s)) as [v|] eqn:E.
    - intros H. inversion H; subst. left. exists o'. split; [reflexivity|apply keep_op_refl].
    - cbn [lookup]. destruct (s_next_id s =? i) eqn:E2; [|discriminate]. intros _. right. slia.
  Qed.

  Lemma sp_update_at s s' id o (f : op -> op) :
    gop s id = Some o -> keep_op o (f o) -> s_ops s' = update id f (s_ops s) -> s_next_id s' = s_next_id s -> same_packets s s'.
  Proof.
    intros Ho Hk Eo En. split; [slia|]. intros i o'. unfold DeliveryBase.gop in *. rewrite Eo. intros H. left.
    destruct (lookup_update_inv _ _ _ _ _ H) as (o0 & H0 & [[Hne ->]|[-> ->]]).
    - exists o0. split; [exact H0|apply keep_op_refl].
    - exists o. split; [exact Ho|]. replace o0 with o by congruence. exact Hk.
  Qed.

  Lemma sp_update s s' id (f : op -> op) :
    (forall o, keep_op o (f o)) -> s_ops s' = update id f (s_ops s) -> s_next_id s' = s_next_id s -> same_packets s s'.
  Proof.
    intros Hk Eo En. split; [slia|]. intros i o'. unfold DeliveryBase.gop in *. rewrite Eo. intros H. left.
    destruct (lookup_update_inv _ _ _ _ _ H) as (o0 & H0 & [[Hne ->]|[-> ->]]); exists o0; split; auto using keep_op_refl.
  Qed.

  Ltac spsame := apply sp_same; reflexivity.

  (* ---- completions ---- *)
  Lemma fail_op_sp s id e : same_packets s (r_s (fail_op s id e)).
  Proof.
    destruct (IdsHelpers.fail_op_spec enc dec ores ires cfg s id e) as [En [[Eo _]|(o & _ & Eo & _)]];
      [apply sp_same|eapply sp_remove]; eassumption.
  Qed.

  Lemma succeed_op_sp s id resp : same_packets s (r_s (succeed_op s id resp)).
  Proof.
    destruct (IdsHelpers.succeed_op_spec enc dec ores ires cfg s id resp) as [En [[Eo _]|(o & _ & Eo & _)]];
      [apply sp_same|eapply sp_remove]; eassumption.
  Qed.

  Lemma andthen_sp s (r : res) f : same_packets s (r_s r) -> (forall s1, same_packets s1 (r_s (f s1))) -> same_packets s (r_s (andthen r f)).
  Proof.
    intros H1 Hf. unfold Model.andthen. destruct (is_panic (r_out r)); [exact H1|].
    specialize (Hf (r_s r)). destruct (is_panic _); cbn [r_s]; eapply sp_trans; eassumption.
  Qed.

  Lemma try_sp s (r : res) f : same_packets s (r_s r) -> (forall s1, same_packets s1 (r_s (f s1))) -> same_packets s (r_s (try_ r f)).
  Proof.
    intros H1 Hf. unfold Model.try_. destruct (r_out r); cbn [r_s]; [|exact H1..]. eapply sp_trans; [exact H1|apply Hf].
  Qed.

  Lemma fail_all_sp ids : forall s e, same_packets s (r_s (fail_all s ids e)).
  Proof.
    induction ids as [|id rest IH]; intros s e; [apply sp_refl|].
    change (fail_all s (id :: rest) e) with (andthen (fail_op s id e) (fun s' => fail_all s' rest e)).
    apply andthen_sp; [apply fail_op_sp|intros s1; apply IH].
  Qed.

  Lemma succeed_all_sp ids : forall s, same_packets s (r_s (succeed_all s ids)).
  Proof.
    induction ids as [|id rest IH]; intros s; [apply sp_refl|].
    change (succeed_all s (id :: rest)) with (andthen (succeed_op s id None) (fun s' => succeed_all s' rest)).
    apply andthen_sp; [apply succeed_op_sp|intros s1; apply IH].
  Qed.

  (* ---- submission, connection opened, write completion ---- *)
  Theorem user_event_sp s p t : same_packets s (r_s (user_event s p t)).
  Proof.
    unfold Model.user_event.
    set (o := new_op p (negb (is_disconnect p)) (if is_disconnect p then None else t)).
    pose proof (sp_create s o) as Hc. destruct (create_operation s o) as [s1 id]. cbn [fst] in Hc.
    destruct (negb (passes_now s1 p)); [cbn [r_s]; eapply sp_trans; [exact Hc|apply fail_op_sp]|].
    destruct (is_disconnect p); cbn [Model.pure r_s]; (eapply sp_trans; [exact Hc|spsame]).
  Qed.

  Theorem net_opened_sp s d : same_packets s (r_s (net_opened s d)).
  Proof.
    unfold Model.net_opened. dm; [cbn [r_s]; spsame|].
    match goal with |- context [create_operation ?s1 ?o] => pose proof (sp_create s1 o) as Hc; destruct (create_operation s1 o) as [s2 id] end.
    cbn [fst] in Hc. cbn [Model.pure r_s]. eapply sp_trans; [|eapply sp_trans; [exact Hc|spsame]]. spsame.
  Qed.

  Theorem net_write_completion_sp s : same_packets s (r_s (net_write_completion s)).
  Proof.
    unfold Model.net_write_completion. dm; [cbn [r_s]; apply sp_refl|]. dm; [cbn [r_s]; spsame|].
    eapply sp_from; [| |apply succeed_all_sp]; reflexivity.
  Qed.

  (* ---- packet-id acquisition: the one place a packet of an existing operation changes ---- *)
  Lemma acquire_pid_for_sp s id s' : acquire_pid_for s id = Ok s' -> same_packets s s'.
  Proof.
    unfold Model.acquire_pid_for. destruct (lookup id (s_ops s)) as [o|] eqn:El; [|discriminate].
    destruct (op_pid o) eqn:Ep; [intros H; inversion H; apply sp_refl|].
    destruct (negb (needs_pid (op_packet o))); [intros H; inversion H; apply sp_refl|].
    destruct (acquire_free_pid s id) as [[s1 pid]| |] eqn:Ea; cbn [obind]; try discriminate.
    destruct (acquire_free_pid_ops _ _ _ _ _ _ _ _ Ea) as [Ho Hn].
    destruct (with_pid pid (op_packet o)) as [p'| |] eqn:Ew; cbn [obind]; try discriminate.
    intros H; inversion H; subst. eapply (sp_update_at s _ id o); [exact El| |cbn; rewrite Ho; reflexivity|cbn; exact Hn].
    right. split; [exact Ep|]. exists pid. cbn. split; [reflexivity|exact Ew].
  Qed.

  Lemma fully_written_sp s now s' : fully_written s now = Ok s' -> same_packets s s'.
  Proof.
    unfold Model.fully_written. destruct (s_cur s) as [id|]; [|discriminate].
    destruct (lookup id (s_ops s)) as [o|] eqn:El; [|discriminate].
    match goal with |- context [update id ?f (s_ops ?s1)] => set (s1v := s1); set (fv := f) end.
    assert (H1 : s_ops s1v = s_ops s /\ s_next_id s1v = s_next_id s).
    { unfold s1v. repeat dm; cbn; split; reflexivity. }
    destruct H1 as [Ho Hn].
    assert (H2 : same_packets s (s1v <| s_ops := update id fv (s_ops s1v) |>)).
    { eapply (sp_update s _ id fv); [|cbn; rewrite Ho; reflexivity|cbn; exact Hn]. intros o0. left. split; reflexivity. }
    repeat dm; cbn [obind]; intros H; inversion H; subst; (eapply sp_trans; [exact H2|spsame]).
  Qed.

  (* ---- service ---- *)
  Lemma seat_current_sp s m acc dn :
    match seat_current s m acc dn with
    | Model.SeatStop _ _ _ _ r => same_packets s (sr_s r)
    | Model.SeatContinue _ _ _ _ s5 _ => same_packets s s5
    | Model.SeatEncode _ _ _ _ s5 => same_packets s s5
    end.
  Proof.
    unfold Model.seat_current. destruct (s_cur s); [apply sp_refl|].
    destruct (dequeue s m) as [s1 next] eqn:Ed.
    pose proof (dequeue_ops enc dec ores ires cfg s m) as [Ho1 Hn1]. rewrite Ed in Ho1, Hn1. cbn [fst] in Ho1, Hn1.
    assert (H1 : same_packets s s1) by (apply sp_same; assumption).
    destruct next as [id|]; [|exact H1].
    destruct (negb (op_exists (s1 <| s_cur := Some id |>) id)); [eapply sp_trans; [exact H1|spsame]|].
    destruct (acquire_pid_for (s1 <| s_cur := Some id |>) id) as [s3| |] eqn:Ea;
      [|cbn [sr_s]; eapply sp_trans; [exact H1|spsame]..].
    assert (H3 : same_packets s s3).
    { eapply sp_trans; [exact H1|]. eapply sp_from; [| |eapply acquire_pid_for_sp; exact Ea]; reflexivity. }
    destruct (lookup id (s_ops s3)) as [o|] eqn:El; [|exact H3].
    match goal with |- context [match ?res with Ok _ => _ | Err _ => _ | Panic _ => _ end] =>
      assert (Hres : forall s4 r, res = Ok (s4, r) -> s_ops s4 = s_ops s3 /\ s_next_id s4 = s_next_id s3);
      [|destruct res as [[s4 r]| |] eqn:Eres] end.
    { intros s4 r. unfold obind. repeat dm; intros H; inversion H; subst; split; reflexivity. }
    2,3: exact H3.
    destruct (Hres s4 r eq_refl) as [Ho4 Hn4].
    assert (H4 : same_packets s s4) by (eapply sp_trans; [exact H3|apply sp_same; assumption]).
    match goal with |- context [v_out ?a ?b ?c ?d] => destruct (v_out a b c d) as [[]|k|site] eqn:Ev end.
    - destruct (enc_reset _ _ _); [|exact H4..]. eapply sp_trans; [exact H4|spsame].
    - match goal with |- context [fail_op ?sx id k] => set (s4' := sx) end.
      assert (H4' : same_packets s s4').
      { eapply sp_trans; [exact H4|]. unfold s4'. destruct (r_alias r); spsame. }
      pose proof (fail_op_sp s4' id k) as Hf.
      destruct (r_out (fail_op s4' id k)); cbn [sr_s]; eapply sp_trans; eassumption.
    - exact H4.
  Qed.

  Lemma service_loop_sp fuel : forall s m now cap fill acc dn, same_packets s (sr_s (service_loop fuel s m now cap fill acc dn)).
  Proof.
    induction fuel as [|f IH]; intros s m now cap fill acc dn; cbn [Model.service_loop]; [apply sp_refl|].
    dm; [apply sp_refl|].
    pose proof (seat_current_sp s m acc dn) as Hs.
    destruct (seat_current s m acc dn) as [r|s5 dn'|s5]; [exact Hs| |].
    - eapply sp_trans; [exact Hs|apply IH].
    - destruct (s_cur s5); [|exact Hs].
      dm; [exact Hs|]. destruct (s_enc s5) as [e|]; [|exact Hs].
      destruct (enc_call e (fill + len acc) cap) as [[out e']| |]; [|exact Hs..].
      assert (H6 : same_packets s (s5 <| s_enc := Some e' |>)) by (eapply sp_trans; [exact Hs|spsame]).
      destruct (enc_done e'); [|exact H6].
      destruct (fully_written (s5 <| s_enc := Some e' |>) now) as [s7| |] eqn:Ef; [|exact H6..].
      eapply sp_trans; [exact H6|]. eapply sp_trans; [eapply fully_written_sp; exact Ef|apply IH].
  Qed.

  Lemma service_queue_sp s m now cap fill : same_packets s (sr_s (service_queue s m now cap fill)).
  Proof.
    unfold Model.service_queue.
    match goal with |- context [service_loop ?f s m now cap fill [] []] =>
      pose proof (service_loop_sp f s m now cap fill [] []) as H; destruct (sr_bytes (service_loop f s m now cap fill [] [])) end.
    - exact H.
    - cbn [sr_s]. eapply sp_trans; [exact H|spsame].
  Qed.

  Lemma service_keep_alive_sp s now s' : service_keep_alive s now = Ok s' -> same_packets s s'.
  Proof.
    unfold Model.service_keep_alive. destruct (s_ping_to s); [dm; intros H; inversion H; apply sp_refl|].
    destruct (s_next_ping s) as [np|]; [|intros H; inversion H; apply sp_refl].
    destruct (np <=? now); [|intros H; inversion H; apply sp_refl].
    pose proof (sp_create s (new_op Pingreq false None)) as Hc.
    destruct (create_operation s (new_op Pingreq false None)) as [s1 id]. cbn [fst] in Hc.
    destruct (s_settings _); [|discriminate].
    destruct (add_time 1493 now _); cbn [obind]; [|discriminate..].
    dm; intros H; inversion H; subst; (eapply sp_trans; [exact Hc|spsame]).
  Qed.

  Lemma process_ack_timeouts_sp s now : same_packets s (r_s (process_ack_timeouts s now)).
  Proof. unfold Model.process_ack_timeouts. eapply sp_from; [| |apply fail_all_sp]; reflexivity. Qed.

  Lemma sp_halt s s' r : same_packets s s' -> same_packets s (halt_on_error s' r).
  Proof. intros H. destruct (halt_on_error_ops enc dec ores ires s' r). eapply sp_trans; [exact H|apply sp_same; assumption]. Qed.

  Theorem service_sp s now cap fill : same_packets s (sr_s (service s now cap fill)).
  Proof.
    unfold Model.service. cbn [sr_s]. apply sp_halt.
    destruct (s_st s).
    - apply sp_refl.
    - destruct (s_connack_to s); [|apply sp_refl]. dm; [apply sp_refl|]. apply service_queue_sp.
    - destruct (service_keep_alive s now) as [s1| |] eqn:Ek; [|apply sp_refl..].
      pose proof (service_keep_alive_sp _ _ _ Ek) as H1.
      pose proof (service_queue_sp s1 true now cap fill) as H2.
      destruct (sr_out (service_queue s1 true now cap fill)); cbn [sr_s].
      + eapply sp_trans; [exact H1|]. eapply sp_trans; [exact H2|apply process_ack_timeouts_sp].
      + eapply sp_trans; eassumption.
      + eapply sp_trans; eassumption.
    - cbn [sr_s]. apply process_ack_timeouts_sp.
    - apply sp_refl.
  Qed.
End Frame.
