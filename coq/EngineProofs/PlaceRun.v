(* C10 strict order, the missing invariant: how operation ids circulate between the places of the engine.
   [mn1 s] = user queue ++ resubmit queue ++ written list ++ pending subscribe/unsubscribe ids; together with the
   pending publish ids these are the places a connection close merges into the intake queues (OrderRunStrict2.pot).
   [ax s] = high-priority queue ++ encoder seat.  The placement invariant [PL s]:
   (A) no id occurs twice in mn1 s ++ pending publishes;
   (B) an id of ax s is either a pending publish whose operation (if it still exists) is a PUBREL carrier
       (QoS 2, op_pubrel set) - the one legitimate double placement, and the only ids the high-priority queue can
       hold twice (a repeated PUBREC) - or it occurs in none of the places of (A) and, if its operation exists,
       only once in ax s.
   Stale ids (completed operations) may remain in the queues; ids are never reused, so (A) covers them.
   This file: PL, the general preservation lemma PL_gen (each id is afterwards in one place only / is a pending
   carrier / only lost places), PL => OrderRunStrict2.CP, and the completions (release / fail_op / succeed_op and
   their sequences) under the two well-formedness facts [PB] they need. *)
From GM Require Import Base.Prelude Base.Outcome Codec.Packets Codec.Settings Engine.Model
  EngineProofs.AssocLemmas EngineProofs.WFLemmas EngineProofs.WFDefs EngineProofs.WFCore EngineProofs.WFComplete
  EngineProofs.OrderRunStrict EngineProofs.OrderRunStrict2.
From RecordUpdate Require Import RecordSet.
Import RecordSetNotations.
Open Scope N_scope.

(* the four component types are implicit in the engine functions, locally to this file *)
#[local] Arguments init {enc dec} _ {ores ires} _ _.
#[local] Arguments release {enc dec ores ires} _ _ _ _.
#[local] Arguments disconnect_completion {enc dec ores ires} _ _.
#[local] Arguments fail_op {enc dec ores ires} _ _ _ _.
#[local] Arguments ping_extension {enc dec ores ires} _ _.
#[local] Arguments succeed_op {enc dec ores ires} _ _ _ _.
#[local] Arguments fail_all {enc dec ores ires} _ _ _ _.
#[local] Arguments succeed_all {enc dec ores ires} _ _ _.
#[local] Arguments andthen {enc dec ores ires} _ _.
#[local] Arguments try_ {enc dec ores ires} _ _.
#[local] Arguments pure {enc dec ores ires} _.
#[local] Arguments create_operation {enc dec ores ires} _ _.
#[local] Arguments passes_now {enc dec ores ires} _ _ _.
#[local] Arguments user_event {enc dec ores ires} _ _ _ _.
#[local] Arguments create_connect {enc dec ores ires} _ _.
#[local] Arguments net_opened {enc dec} _ {ores ires} _ _ _.
#[local] Arguments op_exists {enc dec ores ires} _ _.
#[local] Arguments op_passes {enc dec ores ires} _ _ _.
#[local] Arguments partition_policy {enc dec ores ires} _ _ _.
#[local] Arguments closed_current {enc dec ores ires} _ _.
#[local] Arguments slow_start_init {enc dec ores ires} _ _.
#[local] Arguments update_retries {enc dec ores ires} _ _.
#[local] Arguments fail_exceeding {enc dec ores ires} _ _.
#[local] Arguments has_pubrel {enc dec ores ires} _ _.
#[local] Arguments net_closed_raw {enc dec ores ires} _ _.
#[local] Arguments net_closed {enc dec ores ires} _ _.
#[local] Arguments net_write_completion {enc dec ores ires} _ _.
#[local] Arguments acquire_free_pid {enc dec ores ires} _ _.
#[local] Arguments acquire_pid_for {enc dec ores ires} _ _.
#[local] Arguments unbind {enc dec ores ires} _ _.
#[local] Arguments passes_receive_max {enc dec ores ires} _ _.
#[local] Arguments throttled {enc dec ores ires} _ _.
#[local] Arguments has_pending_ack {enc dec ores ires} _.
#[local] Arguments dequeue {enc dec ores ires} _ _ _.
#[local] Arguments fully_written {enc dec ores ires} _ _.
#[local] Arguments service_keep_alive {enc dec ores ires} _ _ _.
#[local] Arguments process_ack_timeouts {enc dec ores ires} _ _ _.
#[local] Arguments halt_on_error {enc dec ores ires} _ _.
#[local] Arguments next_service_time {enc dec ores ires} _ _ _.
#[local] Arguments build_settings {enc dec ores ires} _ _ _.
#[local] Arguments apply_session {enc dec ores ires} _ _ _.
#[local] Arguments hres_of {enc dec ores ires} _ _.
#[local] Arguments pre_connack {enc dec ores ires} _.
#[local] Arguments sum_ss {enc dec ores ires} _.
#[local] Arguments handle_pingresp {enc dec ores ires} _.
#[local] Arguments handle_suback {enc dec ores ires} _ _ _.
#[local] Arguments handle_unsuback {enc dec ores ires} _ _ _.
#[local] Arguments publish_qos_of {enc dec ores ires} _ _.
#[local] Arguments handle_puback {enc dec ores ires} _ _ _.
#[local] Arguments handle_pubrec {enc dec ores ires} _ _ _.
#[local] Arguments handle_pubrel {enc dec ores ires} _ _.
#[local] Arguments handle_pubcomp {enc dec ores ires} _ _ _.
#[local] Arguments handle_publish {enc dec ores ires} _ _.
#[local] Arguments handle_disconnect {enc dec ores ires} _ _ _.
#[local] Arguments is_connect_op {enc dec ores ires} _ _.
#[local] Arguments connect_in_queue {enc dec ores ires} _.
#[local] Arguments reset {enc dec ores ires} _ _.
#[local] Arguments out_of_res {enc dec ores ires} _ _.
#[local] Arguments nst_queue {enc dec ores ires} _ _ _ _.
#[local] Arguments earliest_tmo {enc dec ores ires} _.
#[local] Arguments SeatStop {enc dec ores ires} _.
#[local] Arguments SeatContinue {enc dec ores ires} _ _.
#[local] Arguments SeatEncode {enc dec ores ires} _.

(* ---- counting, continued (cn is OrderRunStrict2.cn = count_occ) ---- *)
Lemma cn_in l x : In x l <-> (1 <= cn l x)%nat.
Proof. unfold cn. rewrite (count_occ_In N.eq_dec). lia. Qed.

Lemma cn_vcons (k v : N) (l : list (N * N)) x : cn (map snd ((k, v) :: l)) x = (cn [v] x + cn (map snd l) x)%nat.
Proof. apply (cn_cons v (map snd l)). Qed.

Lemma cn_vals_insert k v (l : list (N * N)) x : (cn (map snd (insert k v l)) x <= cn [v] x + cn (map snd l) x)%nat.
Proof.
  induction l as [|[k' v'] l IH]; cbn [insert]; [cbn; lia|].
  destruct (k <? k'); [rewrite (cn_vcons k v); lia|]. destruct (k' =? k); rewrite !cn_vcons; rewrite ?cn_vcons in IH; lia.
Qed.

Lemma cn_perm l m x : Permutation.Permutation l m -> cn l x = cn m x.
Proof. intros H. unfold cn. revert x. apply (Permutation.Permutation_count_occ N.eq_dec). exact H. Qed.

Lemma cn_sort l x : cn (Model.sort l) x = cn l x.
Proof. apply cn_perm. apply sort_perm. Qed.

(* an entry that is already there: inserting it again changes nothing *)
Lemma insert_same (k v : N) (l : list (N * N)) : inc (keys l) -> In (k, v) l -> insert k v l = l.
Proof.
  induction l as [|[k' v'] l IH]; intros Hi Hin; [destruct Hin|]. cbn [insert].
  cbn in Hi. inversion Hi as [|? ? Hs Hf]; subst. rewrite Forall_forall in Hf.
  assert (Hk : forall w, In (k, w) l -> k' < k) by (intros w Hw; apply Hf; change k with (fst (k, w)); apply in_map; exact Hw).
  destruct Hin as [E|Hin].
  - inversion E; subst. rewrite N.ltb_irrefl, N.eqb_refl. reflexivity.
  - pose proof (Hk v Hin) as Hlt. destruct (k <? k') eqn:E1; [lia|]. destruct (k' =? k) eqn:E2; [lia|].
    rewrite IH; [reflexivity|exact Hs|exact Hin].
Qed.

Section Place.
  Context {enc dec ores ires : Type}.
  Notation state := (state enc dec ores ires).
  Notation res := (res enc dec ores ires).

  (* the places an operation id can sit in: [mn1] ++ pending publishes are the places a connection close merges
     into the intake queues, [ax] are the high-priority queue and the encoder seat *)
  Definition mn1 (s : state) : list N := s_uq s ++ s_rq s ++ s_pwco s ++ map snd (s_pnon s).
  Definition ax (s : state) : list N := s_hq s ++ olist (s_cur s).

  (* a QoS 2 publish whose PUBREC has arrived: the operation that carries the PUBREL *)
  Definition carrier (o : op) : Prop := exists pb, op_packet o = Publish pb /\ pub_qos pb = 2 /\ op_pubrel o <> None.

  (* the placement invariant *)
  Definition PL (s : state) : Prop :=
    (forall x, (cn (mn1 s) x + cn (map snd (s_ppub s)) x <= 1)%nat) /\
    (forall x, In x (ax s) ->
       (In x (map snd (s_ppub s)) /\ forall o, getop s x = Some o -> carrier o) \/
       (cn (mn1 s) x = 0%nat /\ cn (map snd (s_ppub s)) x = 0%nat /\ (getop s x <> None -> (cn (ax s) x <= 1)%nat))).

  (* ---- the general preservation lemma: every id is, after the step, either in one place only, or a
     pending PUBREL carrier, or has only lost places ---- *)
  Definition once (s' : state) (x : N) : Prop :=
    (cn (mn1 s') x + cn (map snd (s_ppub s')) x + cn (ax s') x <= 1)%nat.
  Definition carr (s s' : state) (x : N) : Prop :=
    (cn (mn1 s') x <= cn (mn1 s) x)%nat /\ (cn (map snd (s_ppub s')) x <= cn (map snd (s_ppub s)) x)%nat /\
    In x (map snd (s_ppub s')) /\ forall o, getop s' x = Some o -> carrier o.
  Definition shr (s s' : state) (x : N) : Prop :=
    (cn (mn1 s') x <= cn (mn1 s) x)%nat /\ (cn (map snd (s_ppub s')) x <= cn (map snd (s_ppub s)) x)%nat /\
    (cn (ax s') x <= cn (ax s) x)%nat /\
    (forall o', getop s' x = Some o' -> exists o, getop s x = Some o /\ (carrier o -> carrier o')) /\
    (In x (map snd (s_ppub s)) -> In x (map snd (s_ppub s')) \/ getop s' x = None).

  Lemma PL_gen (s s' : state) : PL s -> (forall x, once s' x \/ carr s s' x \/ shr s s' x) -> PL s'.
  Proof.
    intros [A B] H. split.
    - intros x. specialize (A x). destruct (H x) as [O|[(C1 & C2 & _)|(S1 & S2 & _)]]; [unfold once in O; lia|lia|lia].
    - intros x Hx. pose proof Hx as Hc. apply cn_in in Hc. destruct (H x) as [O|[(C1 & C2 & C3 & C4)|(S1 & S2 & S3 & S4 & S5)]].
      + right. unfold once in O. split; [lia|]. split; [lia|]. intros _. lia.
      + left. split; assumption.
      + assert (Hin : In x (ax s)) by (apply cn_in; lia).
        destruct (B x Hin) as [[P C]|(Z1 & Z2 & Z3)].
        * destruct (in_dec N.eq_dec x (map snd (s_ppub s'))) as [I|NI].
          -- left. split; [exact I|]. intros o' Ho'. destruct (S4 o' Ho') as (o & Ho & Hcar). apply Hcar. apply C. exact Ho.
          -- right. destruct (S5 P) as [I|G]; [contradiction|]. apply cn_in in P. specialize (A x).
             apply cn_notin in NI. split; [lia|]. split; [exact NI|]. intros Hne. congruence.
        * right. split; [lia|]. split; [lia|]. intros Hne. destruct (getop s' x) as [o'|] eqn:E; [|congruence].
          destruct (S4 o' eq_refl) as (o & Ho & _). assert (Hne0 : getop s x <> None) by congruence. specialize (Z3 Hne0). lia.
  Qed.

  (* no pending publish before and after: only the counts and the existence of operations matter *)
  Lemma PL_nopub (s s' : state) :
    PL s -> (forall x, cn (map snd (s_ppub s)) x = 0%nat) -> (forall x, cn (map snd (s_ppub s')) x = 0%nat) ->
    (forall x, (cn (mn1 s') x <= cn (mn1 s) x)%nat) -> (forall x, (cn (ax s') x <= cn (ax s) x)%nat) ->
    (forall x, getop s' x <> None -> getop s x <> None) -> PL s'.
  Proof.
    intros [A B] P0 P1 M X E. split.
    - intros x. specialize (A x). specialize (M x). rewrite P1. rewrite P0 in A. lia.
    - intros x Hx. right. apply cn_in in Hx. assert (Hin : In x (ax s)) by (apply cn_in; specialize (X x); lia).
      destruct (B x Hin) as [[P _]|(Z1 & Z2 & Z3)]; [apply cn_in in P; rewrite P0 in P; lia|].
      split; [specialize (M x); lia|]. split; [apply P1|]. intros Hne. specialize (Z3 (E x Hne)). specialize (X x). lia.
  Qed.

  (* PL only reads the core of the state *)
  Lemma PL_core (s s' : state) : core_of s' = core_of s -> PL s -> PL s'.
  Proof.
    intros H. unfold core_of in H. inversion H. unfold PL, mn1, ax, getop.
    repeat match goal with E : _ s' = _ s |- _ => rewrite E; clear E end. tauto.
  Qed.

  (* after a connection close: only the two intake queues are populated *)
  Lemma PL_closed (s : state) :
    NoDup (s_uq s ++ s_rq s) -> s_pwco s = [] -> s_pnon s = [] -> s_ppub s = [] -> s_hq s = [] -> s_cur s = None -> PL s.
  Proof.
    intros Hn E1 E2 E3 E4 E5. unfold PL, mn1, ax. rewrite E1, E2, E3, E4, E5. cbn [map olist app]. split; [|intros x []].
    intros x. pose proof (proj1 (cn_nodup _) Hn x) as H. rewrite !cn_app in *. rewrite !cn_nil. lia.
  Qed.

  (* ---- PL implies the premise CP of OrderRunStrict2.close_DQ ---- *)
  Theorem PL_CP (s : state) : PL s -> CP enc dec ores ires s.
  Proof.
    intros [A B]. unfold CP, pot. split; [|split].
    - apply cn_nodup. intros x. specialize (A x). unfold mn1 in A. rewrite !cn_app in *. lia.
    - intros i Hc Hin. assert (Hax : In i (ax s)) by (unfold ax; rewrite Hc; apply in_or_app; right; left; reflexivity).
      apply cn_in in Hin. fold (mn1 s) in Hin. destruct (B i Hax) as [[P _]|(Z1 & _)]; [|lia].
      apply cn_in in P. specialize (A i). lia.
    - intros i o pb Hc Hin Ho Hp _. assert (Hax : In i (ax s)) by (unfold ax; rewrite Hc; apply in_or_app; right; left; reflexivity).
      destruct (B i Hax) as [[_ C]|(_ & Z2 & _)]; [|apply cn_in in Hin; lia].
      destruct (C o Ho) as (pb' & Hp' & Hq & Hr). assert (pb' = pb) by congruence. subst pb'. split; assumption.
  Qed.

  (* ---- completions ---- *)
  (* what release needs from the well-formedness invariant: a pending publish entry belongs to the operation
     holding that packet id, and a packet id is allocated to the operation holding it *)
  Definition PB (s : state) : Prop :=
    (forall p i, In (p, i) (s_ppub s) -> exists o, getop s i = Some o /\ op_pid o = Some p) /\
    (forall i o p, getop s i = Some o -> op_pid o = Some p -> lookup p (s_alloc s) = Some i).

  Lemma WFS_PB X (s : state) : WFSx X s -> PB s.
  Proof.
    intros HW. split.
    - intros p i Hin. destruct (w_ppub _ _ HW p i Hin) as (o & Ho & Hp & _). exists o. split; assumption.
    - intros i o p Ho Hp. apply (w_bound _ _ HW i o p Ho Hp).
  Qed.

  Lemma PB_same (s s' : state) : s_ops s' = s_ops s -> s_ppub s' = s_ppub s -> s_alloc s' = s_alloc s -> PB s -> PB s'.
  Proof. unfold PB, getop. intros -> -> ->. tauto. Qed.

  Definition pv (s : state) := (s_uq s, s_rq s, s_hq s, s_cur s, s_pwco s).

  Lemma pv_fields (s s' : state) : pv s' = pv s ->
    s_uq s' = s_uq s /\ s_rq s' = s_rq s /\ s_hq s' = s_hq s /\ s_cur s' = s_cur s /\ s_pwco s' = s_pwco s.
  Proof. unfold pv. intros H. inversion H. repeat split; assumption. Qed.

  (* what a completion does to the places *)
  Record cmp (s s' : state) : Prop := mkCmp {
    cm_pv : pv s' = pv s;
    cm_sub : forall i o, getop s' i = Some o -> getop s i = Some o;
    cm_ppub : forall x, (cn (map snd (s_ppub s')) x <= cn (map snd (s_ppub s)) x)%nat;
    cm_pnon : forall x, (cn (map snd (s_pnon s')) x <= cn (map snd (s_pnon s)) x)%nat;
    cm_keep : forall x, In x (map snd (s_ppub s)) -> In x (map snd (s_ppub s')) \/ getop s' x = None }.

  Lemma cmp_refl s : cmp s s.
  Proof. constructor; auto. Qed.

  Lemma cmp_trans s1 s2 s3 : cmp s1 s2 -> cmp s2 s3 -> cmp s1 s3.
  Proof.
    intros [A1 A2 A3 A4 A5] [B1 B2 B3 B4 B5]. constructor.
    - congruence.
    - auto.
    - intros x. specialize (A3 x). specialize (B3 x). lia.
    - intros x. specialize (A4 x). specialize (B4 x). lia.
    - intros x Hx. destruct (A5 x Hx) as [H|H]; [apply B5; exact H|]. right.
      destruct (getop s3 x) as [o|] eqn:E; [|reflexivity]. apply B2 in E. congruence.
  Qed.

  Lemma cmp_same (s s' : state) :
    pv s' = pv s -> s_ops s' = s_ops s -> s_ppub s' = s_ppub s -> s_pnon s' = s_pnon s -> cmp s s'.
  Proof. intros E1 E2 E3 E4. constructor; unfold getop; rewrite ?E2, ?E3, ?E4; auto. Qed.

  Lemma PL_cmp (s s' : state) : cmp s s' -> PL s -> PL s'.
  Proof.
    intros [C1 C2 C3 C4 C5] HP. apply (PL_gen s s' HP). intros x. right; right.
    destruct (pv_fields _ _ C1) as (E1 & E2 & E3 & E4 & E5). unfold shr, mn1, ax. rewrite E1, E2, E3, E4, E5.
    split; [rewrite !cn_app; specialize (C4 x); lia|]. split; [apply C3|]. split; [apply le_n|]. split; [|apply C5].
    intros o' Ho'. exists o'. split; [apply C2; exact Ho'|tauto].
  Qed.

  Variable cfg : config.

  Lemma release_shape (s s' : state) id o :
    release cfg s id o = Ok s' ->
    pv s' = pv s /\ s_ops s' = remove id (s_ops s) /\ s_ppub s' = rmo (op_pid o) (s_ppub s) /\
    s_pnon s' = rmo (op_pid o) (s_pnon s) /\ s_alloc s' = rmo (op_pid o) (s_alloc s).
  Proof.
    unfold release. destruct (op_pid o) as [p|]; cbn;
      repeat match goal with |- context [if ?b then _ else _] => destruct b; cbn end; intros H; inversion H; subst; cbn;
      repeat split; reflexivity.
  Qed.

  Lemma cn_vals_rmo po (l : list (N * N)) x : (cn (map snd (rmo po l)) x <= cn (map snd l) x)%nat.
  Proof. destruct po as [p|]; cbn [rmo]; [apply cn_vals_remove|apply le_n]. Qed.

  Lemma release_cmp (s s' : state) id o :
    PB s -> getop s id = Some o -> release cfg s id o = Ok s' -> cmp s s' /\ PB s'.
  Proof.
    intros [B1 B2] Hid Hr. destruct (release_shape _ _ _ _ Hr) as (E1 & E2 & E3 & E4 & E5).
    assert (Hown : forall p' x, In (p', x) (s_ppub s) -> x <> id -> op_pid o <> Some p').
    { intros p' x Hin Hne Hp. destruct (B1 p' x Hin) as (ox & Hox & Hpx).
      pose proof (B2 x ox p' Hox Hpx) as L1. pose proof (B2 id o p' Hid Hp) as L2. congruence. }
    split.
    - constructor.
      + exact E1.
      + intros i o' Hi. unfold getop in *. rewrite E2 in Hi. apply lookup_remove_inv in Hi. tauto.
      + intros x. rewrite E3. apply cn_vals_rmo.
      + intros x. rewrite E4. apply cn_vals_rmo.
      + intros x Hx. destruct (N.eq_dec x id) as [->|Hne].
        * right. unfold getop. rewrite E2. apply lookup_remove_eq.
        * left. apply In_snd_inv in Hx. destruct Hx as (p' & Hin). rewrite E3. apply (In_snd p'). apply In_rmo. split; [exact Hin|].
          eapply Hown; eauto.
    - split.
      + intros p i Hin. rewrite E3 in Hin. apply In_rmo in Hin. destruct Hin as [Hin Hp]. destruct (B1 p i Hin) as (oi & Hoi & Hpi).
        exists oi. split; [|exact Hpi]. unfold getop in *. rewrite E2. rewrite lookup_remove_neq; [exact Hoi|].
        intros ->. assert (oi = o) by congruence. subst oi. congruence.
      + intros i oi p Hi Hp. unfold getop in *. rewrite E2 in Hi. apply lookup_remove_inv in Hi. destruct Hi as [Hi Hne].
        rewrite E5. rewrite lookup_rmo; [exact (B2 i oi p Hi Hp)|].
        intros Hpo. pose proof (B2 i oi p Hi Hp) as L1. pose proof (B2 id o p Hid Hpo) as L2. congruence.
  Qed.

  Lemma disconnect_completion_core (s : state) o : core_of (fst (disconnect_completion s o)) = core_of s.
  Proof. unfold disconnect_completion. repeat match goal with |- context [if ?b then _ else _] => destruct b; cbn end; reflexivity. Qed.

  Lemma cmp_core (s s' : state) : core_of s' = core_of s -> cmp s s'.
  Proof. intros H. unfold core_of in H. inversion H. apply cmp_same; unfold pv; congruence. Qed.

  Lemma PB_core (s s' : state) : core_of s' = core_of s -> PB s -> PB s'.
  Proof. intros H. unfold core_of in H. inversion H. apply PB_same; congruence. Qed.

  Lemma fail_op_cmp (s : state) id e : PB s -> cmp s (r_s (fail_op cfg s id e)) /\ PB (r_s (fail_op cfg s id e)).
  Proof.
    intros HB. unfold fail_op. destruct (lookup id (s_ops s)) as [o|] eqn:Hid; [|split; [apply cmp_refl|exact HB]].
    destruct (release cfg s id o) as [s1|k|site] eqn:Er; [|split; [apply cmp_refl|exact HB]|split; [apply cmp_refl|exact HB]].
    destruct (release_cmp _ _ _ _ HB Hid Er) as [C1 B1]. pose proof (disconnect_completion_core s1 o) as Hd.
    destruct (disconnect_completion s1 o) as [s2 r]. cbn [fst] in Hd.
    assert (H : cmp s s2 /\ PB s2) by (split; [eapply cmp_trans; [exact C1|apply cmp_core; exact Hd]|eapply PB_core; eauto]).
    destruct r; [destruct (op_user o)|..]; exact H.
  Qed.

  Lemma ping_extension_core' (s : state) o : core_of (ping_extension s o) = core_of s.
  Proof. apply ping_extension_core. Qed.

  Lemma succeed_op_cmp (s : state) id resp : PB s -> cmp s (r_s (succeed_op cfg s id resp)) /\ PB (r_s (succeed_op cfg s id resp)).
  Proof.
    intros HB. unfold succeed_op. destruct (lookup id (s_ops s)) as [o|] eqn:Hid; [|split; [apply cmp_refl|exact HB]].
    destruct (release cfg s id o) as [s1|k|site] eqn:Er; [|split; [apply cmp_refl|exact HB]|split; [apply cmp_refl|exact HB]].
    destruct (release_cmp _ _ _ _ HB Hid Er) as [C1 B1]. pose proof (ping_extension_core' s1 o) as Hp.
    set (s1' := ping_extension s1 o) in *. clearbody s1'.
    pose proof (disconnect_completion_core s1' o) as Hd.
    destruct (disconnect_completion s1' o) as [s2 r]. cbn [fst] in Hd.
    assert (H : cmp s s2 /\ PB s2).
    { split; [eapply cmp_trans; [exact C1|apply cmp_core; congruence]|eapply (PB_core s1); [congruence|exact B1]]. }
    destruct r; [destruct (op_user o); [destruct (success_value o resp)|]|..]; exact H.
  Qed.

  Lemma fail_all_cmp ids : forall (s : state) e, PB s -> cmp s (r_s (fail_all cfg s ids e)) /\ PB (r_s (fail_all cfg s ids e)).
  Proof.
    induction ids as [|a r IH]; intros s e HB; cbn [fail_all]; [split; [apply cmp_refl|exact HB]|].
    destruct (fail_op_cmp s a e HB) as [C1 B1]. destruct (is_panic (r_out (fail_op cfg s a e))); [split; assumption|].
    destruct (IH (r_s (fail_op cfg s a e)) e B1) as [C2 B2].
    destruct (is_panic (r_out (fail_all cfg (r_s (fail_op cfg s a e)) r e))); cbn [r_s]; (split; [eapply cmp_trans; eauto|exact B2]).
  Qed.

  Lemma succeed_all_cmp ids : forall (s : state), PB s -> cmp s (r_s (succeed_all cfg s ids)) /\ PB (r_s (succeed_all cfg s ids)).
  Proof.
    induction ids as [|a r IH]; intros s HB; cbn [succeed_all]; [split; [apply cmp_refl|exact HB]|].
    destruct (succeed_op_cmp s a None HB) as [C1 B1]. destruct (is_panic (r_out (succeed_op cfg s a None))); [split; assumption|].
    destruct (IH (r_s (succeed_op cfg s a None)) B1) as [C2 B2].
    destruct (is_panic (r_out (succeed_all cfg (r_s (succeed_op cfg s a None)) r))); cbn [r_s]; (split; [eapply cmp_trans; eauto|exact B2]).
  Qed.

  Lemma fail_op_PL (s : state) id e : PB s -> PL s -> PL (r_s (fail_op cfg s id e)).
  Proof. intros HB. apply PL_cmp. apply fail_op_cmp. exact HB. Qed.
  Lemma succeed_op_PL (s : state) id resp : PB s -> PL s -> PL (r_s (succeed_op cfg s id resp)).
  Proof. intros HB. apply PL_cmp. apply succeed_op_cmp. exact HB. Qed.
  Lemma fail_all_PL (s : state) ids e : PB s -> PL s -> PL (r_s (fail_all cfg s ids e)).
  Proof. intros HB. apply PL_cmp. apply fail_all_cmp. exact HB. Qed.
  Lemma succeed_all_PL (s : state) ids : PB s -> PL s -> PL (r_s (succeed_all cfg s ids)).
  Proof. intros HB. apply PL_cmp. apply succeed_all_cmp. exact HB. Qed.
End Place.
