(* C10 strict order, the connection close (the step OrderRunStrict.step_DQ leaves out).
   [pot s] = the operation ids held in the user queue, the resubmit queue, the written list and the two
   pending tables: the places net_closed_raw merges into the intake queues.  Counting occurrences
   ([cn]), every phase of net_closed_raw only loses ids of [pot] ([cle], no well-formedness needed) and
   closed_current adds at most the seated operation, once, and only under [requeue_cond].  Hence
   [close_DQ]: from a state whose [pot] has no duplicates and whose seated operation is not in it
   ([CP]), the close leaves duplicate-free intake queues; [step_DQ_cp] extends OrderRunStrict.step_DQ
   to every event under that premise.
   NOT proved here: that CP holds in every reachable state (the circulation of ids between the
   queues, the seat and the pending tables while connected). *)
From GM Require Import Base.Prelude Base.Outcome Codec.Packets Codec.Settings Engine.Model
  EngineProofs.AssocLemmas EngineProofs.WFLemmas EngineProofs.WFDefs EngineProofs.WFCore EngineProofs.WFComplete
  EngineProofs.WFClose EngineProofs.WFClose2 EngineProofs.WFStep
  EngineProofs.HandshakeRunTrace EngineProofs.HandshakeRunSt EngineProofs.Order
  EngineProofs.OrderRun EngineProofs.OrderRunMain EngineProofs.OrderRunStrict.
From RecordUpdate Require Import RecordSet.
Import RecordSetNotations.
Open Scope N_scope.

(* the four component types are implicit in the engine functions, locally to this file *)

(* the four component types are implicit in the engine functions, locally to this file *)
#[local] Arguments init {enc dec} _ {ores ires} _ _.
#[local] Arguments release {enc dec ores ires} _ _ _ _.
#[local] Arguments disconnect_completion {enc dec ores ires} _ _.
#[local] Arguments fail_op {enc dec ores ires} _ _ _ _.
#[local] Arguments ping_extension {enc dec ores ires} _ _.
#[local] Arguments succeed_op {enc dec ores ires} _ _ _ _.
#[local] Arguments fail_all {enc dec ores ires} _ _ _ _.
#[local] Arguments succeed_all {enc dec ores ires} _ _ _.
#[local] Arguments andthen {enc dec ores ires} _ _.
#[local] Arguments try_ {enc dec ores ires} _ _.
#[local] Arguments pure {enc dec ores ires} _.
#[local] Arguments create_operation {enc dec ores ires} _ _.
#[local] Arguments passes_now {enc dec ores ires} _ _ _.
#[local] Arguments user_event {enc dec ores ires} _ _ _ _.
#[local] Arguments create_connect {enc dec ores ires} _ _.
#[local] Arguments net_opened {enc dec} _ {ores ires} _ _ _.
#[local] Arguments op_exists {enc dec ores ires} _ _.
#[local] Arguments op_passes {enc dec ores ires} _ _ _.
#[local] Arguments partition_policy {enc dec ores ires} _ _ _.
#[local] Arguments closed_current {enc dec ores ires} _ _.
#[local] Arguments slow_start_init {enc dec ores ires} _ _.
#[local] Arguments update_retries {enc dec ores ires} _ _.
#[local] Arguments fail_exceeding {enc dec ores ires} _ _.
#[local] Arguments has_pubrel {enc dec ores ires} _ _.
#[local] Arguments net_closed_raw {enc dec ores ires} _ _.
#[local] Arguments net_closed {enc dec ores ires} _ _.
#[local] Arguments net_write_completion {enc dec ores ires} _ _.
#[local] Arguments acquire_free_pid {enc dec ores ires} _ _.
#[local] Arguments acquire_pid_for {enc dec ores ires} _ _.
#[local] Arguments unbind {enc dec ores ires} _ _.
#[local] Arguments passes_receive_max {enc dec ores ires} _ _.
#[local] Arguments throttled {enc dec ores ires} _ _.
#[local] Arguments has_pending_ack {enc dec ores ires} _.
#[local] Arguments dequeue {enc dec ores ires} _ _ _.
#[local] Arguments fully_written {enc dec ores ires} _ _.
#[local] Arguments service_keep_alive {enc dec ores ires} _ _ _.
#[local] Arguments process_ack_timeouts {enc dec ores ires} _ _ _.
#[local] Arguments halt_on_error {enc dec ores ires} _ _.
#[local] Arguments next_service_time {enc dec ores ires} _ _ _.
#[local] Arguments build_settings {enc dec ores ires} _ _ _.
#[local] Arguments apply_session {enc dec ores ires} _ _ _.
#[local] Arguments hres_of {enc dec ores ires} _ _.
#[local] Arguments pre_connack {enc dec ores ires} _.
#[local] Arguments sum_ss {enc dec ores ires} _.
#[local] Arguments handle_pingresp {enc dec ores ires} _.
#[local] Arguments handle_suback {enc dec ores ires} _ _ _.
#[local] Arguments handle_unsuback {enc dec ores ires} _ _ _.
#[local] Arguments publish_qos_of {enc dec ores ires} _ _.
#[local] Arguments handle_puback {enc dec ores ires} _ _ _.
#[local] Arguments handle_pubrec {enc dec ores ires} _ _ _.
#[local] Arguments handle_pubrel {enc dec ores ires} _ _.
#[local] Arguments handle_pubcomp {enc dec ores ires} _ _ _.
#[local] Arguments handle_publish {enc dec ores ires} _ _.
#[local] Arguments handle_disconnect {enc dec ores ires} _ _ _.
#[local] Arguments is_connect_op {enc dec ores ires} _ _.
#[local] Arguments connect_in_queue {enc dec ores ires} _.
#[local] Arguments reset {enc dec ores ires} _ _.
#[local] Arguments out_of_res {enc dec ores ires} _ _.
#[local] Arguments nst_queue {enc dec ores ires} _ _ _ _.
#[local] Arguments earliest_tmo {enc dec ores ires} _.
#[local] Arguments SeatStop {enc dec ores ires} _.
#[local] Arguments SeatContinue {enc dec ores ires} _ _.

(* ---- counting occurrences ---- *)
Definition cn (l : list N) (x : N) : nat := count_occ N.eq_dec l x.
Arguments cn : simpl never.

Lemma cn_app l m x : cn (l ++ m) x = (cn l x + cn m x)%nat.
Proof. apply count_occ_app. Qed.
Lemma cn_nil x : cn [] x = 0%nat.
Proof. reflexivity. Qed.
Lemma cn_cons a l x : cn (a :: l) x = (cn [a] x + cn l x)%nat.
Proof. change (a :: l) with ([a] ++ l). apply cn_app. Qed.
Lemma cn_nodup l : NoDup l <-> forall x, (cn l x <= 1)%nat.
Proof. apply NoDup_count_occ. Qed.
Lemma cn_notin l x : ~ In x l <-> cn l x = 0%nat.
Proof. apply count_occ_not_In. Qed.
Lemma cn_one a x : x <> a -> cn [a] x = 0%nat.
Proof. intros H. unfold cn. cbn. destruct (N.eq_dec a x); [congruence|reflexivity]. Qed.
Lemma cn_same a : cn [a] a = 1%nat.
Proof. unfold cn. cbn. destruct (N.eq_dec a a); [reflexivity|congruence]. Qed.
Lemma cn_filter f l x : (cn (filter f l) x <= cn l x)%nat.
Proof.
  induction l as [|a l IH]; [apply le_n|]. cbn [filter]. destruct (f a); rewrite ?(cn_cons a (filter f l)), (cn_cons a l); lia.
Qed.
Lemma cn_rev l x : cn (rev l) x = cn l x.
Proof. induction l as [|a l IH]; [reflexivity|]. cbn [rev]. rewrite cn_app, (cn_cons a l), IH. lia. Qed.
Lemma cn_vals_remove k (l : list (N * N)) x : (cn (map snd (remove k l)) x <= cn (map snd l) x)%nat.
Proof.
  induction l as [|[k' v] l IH]; [apply le_n|]. cbn [remove map snd]. destruct (k' =? k); cbn [map snd]; rewrite ?(cn_cons v (map snd (remove k l))), (cn_cons v (map snd l)); lia.
Qed.

Section CloseStrict.
  Variable enc : Type.
  Variable enc_reset : version -> packet -> resolution -> outcome enc.
  Variable enc_call : enc -> N -> N -> outcome (bytes * enc).
  Variable enc_done : enc -> bool.
  Variable dec : Type.
  Variable dec_init : dec.
  Variable dec_feed : version -> N -> dec -> bytes -> dec * list packet * outcome unit.
  Variable ores : Type.
  Variable ores_reset : ores -> N -> ores.
  Variable ores_resolve : ores -> option N -> bytes -> outcome (ores * resolution).
  Variable ires : Type.
  Variable ires_reset : ires -> ires.
  Variable ires_resolve : ires -> option N -> bytes -> outcome (ires * bytes).
  Variable v_out : option settings -> connect_opts -> resolution -> packet -> outcome unit.
  Variable v_in : option settings -> packet -> outcome unit.
  Variable cfg : config.
  Variable HC : comps_ok enc enc_reset enc_call dec dec_init dec_feed ores ores_reset ores_resolve ires ires_reset ires_resolve v_out v_in.
  Hypothesis Hcfg : ok_cfg cfg.

  Notation state := (state enc dec ores ires).
  Notation res := (res enc dec ores ires).
  Notation step := (step enc enc_reset enc_call enc_done dec dec_init dec_feed ores ores_reset ores_resolve
                         ires ires_reset ires_resolve v_out v_in cfg).
  Notation run := (run enc enc_reset enc_call enc_done dec dec_init dec_feed ores ores_reset ores_resolve
                       ires ires_reset ires_resolve v_out v_in cfg).
  Notation init := (init (enc:=enc) dec_init).
  Notation WFX := (WFX enc enc_reset enc_call dec dec_init dec_feed ores ores_reset ores_resolve ires ires_reset ires_resolve v_out v_in cfg HC).
  Notation DQ := (DQ enc dec ores ires).

  Definition pot (s : state) : list N :=
    s_uq s ++ s_rq s ++ s_pwco s ++ map snd (s_pnon s) ++ map snd (s_ppub s).
  Definition cle (s' s : state) : Prop := forall x, (cn (pot s') x <= cn (pot s) x)%nat.

  Lemma cle_refl s : cle s s.
  Proof. intros x. apply le_n. Qed.
  Lemma cle_trans s1 s2 s3 : cle s2 s1 -> cle s3 s2 -> cle s3 s1.
  Proof. intros A B x. specialize (A x). specialize (B x). lia. Qed.
  Lemma cle_pot (s s' : state) : pot s' = pot s -> cle s' s.
  Proof. intros E x. rewrite E. apply le_n. Qed.

  Ltac cle_id := first [apply cle_refl | apply cle_pot; reflexivity].

  (* ---- completions only lose pending entries ---- *)
  Lemma release_cle (s s' : state) id o : release cfg s id o = Ok s' -> cle s' s.
  Proof.
    unfold release. destruct (op_pid o) as [p|]; cbn;
      repeat match goal with |- context [if ?b then _ else _] => destruct b; cbn end; intros H; inversion H; subst;
      unfold cle, pot; cbn; intros x; rewrite ?cn_app; try lia.
    all: pose proof (cn_vals_remove p (s_pnon s) x); pose proof (cn_vals_remove p (s_ppub s) x); lia.
  Qed.

  Lemma disconnect_completion_pot (s : state) o : pot (fst (disconnect_completion s o)) = pot s.
  Proof. unfold disconnect_completion. repeat match goal with |- context [if ?b then _ else _] => destruct b; cbn end; reflexivity. Qed.

  Lemma fail_op_cle (s : state) id e : cle (r_s (fail_op cfg s id e)) s.
  Proof.
    unfold fail_op. destruct (lookup id (s_ops s)) as [o|]; [|cle_id].
    destruct (release cfg s id o) as [s1|k|site] eqn:Er; [|cle_id|cle_id].
    apply release_cle in Er. pose proof (disconnect_completion_pot s1 o) as Hd.
    destruct (disconnect_completion s1 o) as [s2 r]. cbn [fst] in Hd.
    assert (H : cle s2 s) by (intros x; rewrite Hd; apply Er).
    destruct r; [destruct (op_user o)|..]; exact H.
  Qed.

  Lemma fail_all_cle ids : forall (s : state) e, cle (r_s (fail_all cfg s ids e)) s.
  Proof.
    induction ids as [|a r IH]; intros s e; cbn [fail_all]; [cle_id|].
    pose proof (fail_op_cle s a e) as H1. destruct (is_panic (r_out (fail_op cfg s a e))); [exact H1|].
    specialize (IH (r_s (fail_op cfg s a e)) e).
    destruct (is_panic (r_out (fail_all cfg (r_s (fail_op cfg s a e)) r e))); cbn [r_s]; eapply cle_trans; eauto.
  Qed.

  Lemma andthen_cle (s : state) (r : res) f : cle (r_s r) s -> (forall s1, cle (r_s (f s1)) s1) -> cle (r_s (andthen r f)) s.
  Proof.
    intros H1 H2. unfold andthen. destruct (is_panic (r_out r)); [exact H1|].
    destruct (is_panic (r_out (f (r_s r)))); cbn [r_s]; eapply cle_trans; eauto.
  Qed.

  Lemma fail_exceeding_cle (s : state) : cle (r_s (fail_exceeding cfg s)) s.
  Proof.
    unfold fail_exceeding. destruct (cf_retry cfg) as [limit|]; [|cle_id].
    destruct (negb _); [cle_id|]. apply andthen_cle; [apply fail_all_cle|].
    intros s1. destruct (negb _); [cle_id|apply fail_all_cle].
  Qed.

  (* ---- the phases of net_closed_raw ---- *)
  Lemma partition_kept_cn (s : state) q x : (cn (fst (partition_policy cfg s q)) x <= cn q x)%nat.
  Proof.
    unfold partition_policy. cbn [fst]. eapply Nat.le_trans; [apply cn_filter|apply cn_filter].
  Qed.

  Lemma phaseC_cle (s8 : state) : cle (r_s (phaseC cfg s8)) s8.
  Proof.
    unfold phaseC. cbv zeta.
    match goal with |- context [partition_policy cfg ?sx ?q] =>
      pose proof (fun x => partition_kept_cn sx q x) as Hk; destruct (partition_policy cfg sx q) as [kept_u rejected_u] end.
    cbn [fst] in Hk. unfold andthen.
    match goal with |- context [fail_all cfg ?sx ?l ?e] => pose proof (fail_all_cle l sx e) as Hf; set (rf := fail_all cfg sx l e) in * end.
    clearbody rf. destruct (is_panic (r_out rf)).
    - intros x. specialize (Hf x). unfold pot in *. cbn in Hf. rewrite ?cn_app, ?cn_rev, ?cn_nil in *. cbn in Hf. lia.
    - cbn. intros x. specialize (Hf x). specialize (Hk x). unfold pot in *. cbn in Hf, Hk |- *. rewrite ?cn_app, ?cn_rev, ?cn_nil in *. cbn in Hf. lia.
  Qed.

  Lemma phaseB_cle (s5 : state) : cle (r_s (phaseB cfg s5)) s5.
  Proof.
    unfold phaseB. cbv zeta.
    pose proof (fun x => partition_kept_cn s5 (s_pwco s5) x) as Hk.
    destruct (partition_policy cfg s5 (s_pwco s5)) as [kept rejected]. cbn [fst] in Hk.
    apply andthen_cle.
    - eapply cle_trans; [|apply fail_all_cle]. intros x. specialize (Hk x). unfold pot. cbn. rewrite ?cn_app, ?cn_nil. lia.
    - intros s7. apply andthen_cle; [apply fail_exceeding_cle|apply phaseC_cle].
  Qed.

  Lemma phaseA_cle (s3 : state) : cle (r_s (phaseA cfg s3)) s3.
  Proof.
    unfold phaseA. cbv zeta. apply andthen_cle; [eapply cle_trans; [|apply fail_all_cle]; cle_id|apply phaseB_cle].
  Qed.

  Lemma after_current_cle (s1 : state) :
    cle (r_s (match slow_start_init cfg s1 with
              | Panic site => mkRes s1 [] (Panic site) | Err k => mkRes s1 [] (Err k)
              | Ok s2 =>
              match update_retries cfg s2 with
              | Panic site => mkRes s2 [] (Panic site) | Err k => mkRes s2 [] (Err k)
              | Ok s3 => phaseA cfg s3
              end end)) s1.
  Proof.
    assert (H2 : match slow_start_init cfg s1 with Ok s2 => pot s2 = pot s1 | _ => True end).
    { unfold slow_start_init. destruct (negb (cf_drain_one cfg)); [reflexivity|]. destruct (forallb _ _); [reflexivity|exact I]. }
    destruct (slow_start_init cfg s1) as [s2|k|site]; [|cle_id|cle_id].
    assert (H3 : match update_retries cfg s2 with Ok s3 => pot s3 = pot s2 | _ => True end).
    { unfold update_retries. destruct (cf_retry cfg); [|reflexivity]. destruct (forallb _ _); [reflexivity|exact I]. }
    destruct (update_retries cfg s2) as [s3|k|site]; cbn [r_s]; [|apply cle_pot; exact H2|apply cle_pot; exact H2].
    eapply cle_trans; [|apply phaseA_cle]. apply cle_pot. congruence.
  Qed.

  (* ---- the seated operation ---- *)
  Definition requeue_cond (s : state) (o : op) : Prop :=
    match op_packet o with
    | Subscribe _ | Unsubscribe _ => True
    | Publish pb => if pub_dup pb then lookup (pub_pid pb) (s_ppub s) = None
                    else (pub_qos pb =? 2) && (match op_pubrel o with Some _ => true | None => false end) = false
    | _ => False
    end.

  Lemma closed_current_cases (s : state) :
    cle (r_s (closed_current cfg s)) s \/
    exists i o, s_cur s = Some i /\ lookup i (s_ops s) = Some o /\ requeue_cond s o /\
      forall x, (cn (pot (r_s (closed_current cfg s))) x <= cn [i] x + cn (pot s) x)%nat.
  Proof.
    unfold closed_current. destruct (s_cur s) as [id|]; [|left; cle_id].
    match goal with |- context [try_ ?r _] =>
      assert (Hin : cle (r_s r) s \/
                    exists i o, Some id = Some i /\ lookup i (s_ops s) = Some o /\ requeue_cond s o /\
                      forall x, (cn (pot (r_s r)) x <= cn [i] x + cn (pot s) x)%nat);
      [|set (r0 := r) in *; clearbody r0] end.
    2:{ unfold try_. destruct (r_out r0); cbn [r_s]; exact Hin. }
    destruct (lookup id (s_ops s)) as [o|] eqn:El; [|left; cle_id].
    assert (Hre : requeue_cond s o -> forall s' : state,
              (forall x, (cn (pot s') x <= cn [id] x + cn (pot s) x)%nat) ->
              exists i o0, Some id = Some i /\ lookup i (s_ops s) = Some o0 /\ requeue_cond s o0 /\
                forall x, (cn (pot s') x <= cn [i] x + cn (pot s) x)%nat).
    { intros Hc s' Hx. exists id, o. auto. }
    assert (Hu : forall x, (cn (pot (s <| s_uq := id :: s_uq s |>)) x <= cn [id] x + cn (pot s) x)%nat).
    { intros x. unfold pot. cbn. rewrite (cn_cons id), !cn_app. lia. }
    assert (Hr : forall x, (cn (pot (s <| s_rq := id :: s_rq s |>)) x <= cn [id] x + cn (pot s) x)%nat).
    { intros x. unfold pot. cbn. rewrite !cn_app, (cn_cons id), !cn_app. lia. }
    unfold requeue_cond in Hre.
    destruct (op_packet o) as [c|c|pb|a|a|a|a|sb|a|un|a| | |d|a]; cbn [r_s]; try (left; apply fail_op_cle).
    - destruct (pub_dup pb).
      + destruct (lookup (pub_pid pb) (s_ppub s)); [left; cle_id|]. right. cbn [r_s pure]. apply Hre; [reflexivity|exact Hr].
      + destruct ((pub_qos pb =? 2) && _); [left; cle_id|].
        destruct (passes_policy _ _); [right; apply Hre; [reflexivity|exact Hu]|left; apply fail_op_cle].
    - destruct (passes_policy _ _); [right; apply Hre; [exact I|exact Hu]|left; apply fail_op_cle].
    - destruct (passes_policy _ _); [right; apply Hre; [exact I|exact Hu]|left; apply fail_op_cle].
  Qed.

  (* ---- the close ---- *)
  Definition CP (s : state) : Prop :=
    NoDup (pot s) /\
    (forall i, s_cur s = Some i -> ~ In i (s_uq s ++ s_rq s ++ s_pwco s ++ map snd (s_pnon s))) /\
    (forall i o pb, s_cur s = Some i -> In i (map snd (s_ppub s)) -> getop s i = Some o -> op_packet o = Publish pb ->
       pub_dup pb = false -> pub_qos pb = 2 /\ op_pubrel o <> None).

  Lemma try_state (r : res) f : r_s (try_ r f) = r_s r \/ r_s (try_ r f) = r_s (f (r_s r)).
  Proof. unfold try_. destruct (r_out r); cbn [r_s]; auto. Qed.

  Lemma net_closed_raw_count (s : state) :
    WFS s -> s_st s <> Disconnected -> CP s -> forall x, (cn (pot (r_s (net_closed_raw cfg s))) x <= 1)%nat.
  Proof.
    intros HW Hst (C1 & C2 & C3) x. rewrite net_closed_raw_unfold. apply pstate_eqb_neq in Hst. rewrite Hst. cbv zeta.
    set (s0 := s <| s_st := Disconnected |> <| s_connack_to := None |> <| s_next_ping := None |>
                 <| s_ping_to := None |> <| s_tmo := [] |>).
    assert (HW0 : WFS s0) by exact HW.
    assert (C10 : forall y, (cn (pot s0) y <= 1)%nat) by (apply cn_nodup; exact C1).
    assert (Hfin : forall F : state, cle F (r_s (closed_current cfg s0)) -> (cn (pot F) x <= 1)%nat).
    { intros F HF. specialize (HF x). destruct (closed_current_cases s0) as [Hc|(i & o & Hcur & Ho & Hrc & Hc)].
      - specialize (Hc x). specialize (C10 x). lia.
      - specialize (Hc x). destruct (N.eq_dec x i) as [->|Hne]; [|rewrite (cn_one i x Hne) in Hc; specialize (C10 x); lia].
        assert (Hz : cn (pot s0) i = 0%nat).
        { apply cn_notin. unfold pot. intros Hin.
          assert (Hin' : In i (s_uq s ++ s_rq s ++ s_pwco s ++ map snd (s_pnon s)) \/ In i (map snd (s_ppub s))).
          { cbn in Hin. rewrite !in_app_iff in *. tauto. }
          destruct Hin' as [Hin'|Hin']; [exact (C2 i Hcur Hin')|].
          apply in_map_iff in Hin'. destruct Hin' as ([p i'] & Ei & Hpi). cbn in Ei. subst i'.
          destruct (w_ppub _ _ HW p i Hpi) as (o' & Ho' & Hp' & Hk'). unfold gop in Ho'. cbn in Ho'.
          assert (o' = o) by (cbn in Ho; congruence). subst o'.
          destruct (w_bound _ _ HW i o p Ho' Hp') as (_ & Bp & _).
          unfold requeue_cond in Hrc. destruct (op_packet o) as [c|c|pb|a|a|a|a|sb|a|un|a| | |d|a] eqn:Ep; try discriminate; try contradiction.
          cbn in Bp. inversion Bp; subst p.
          destruct (pub_dup pb) eqn:Ed.
          - cbn in Hrc. apply lookup_none_not_in in Hrc. apply Hrc. change (pub_pid pb) with (fst (pub_pid pb, i)). apply in_map. exact Hpi.
          - destruct (C3 i o pb Hcur) as [Q2 Qr]; auto.
            + apply in_map_iff. exists (pub_pid pb, i). split; [reflexivity|exact Hpi].
            + rewrite Q2 in Hrc. destruct (op_pubrel o); [discriminate|congruence]. }
        rewrite Hz, cn_same in Hc. lia. }
    match goal with |- context [try_ ?r ?f] => destruct (try_state r f) as [E|E]; rewrite E end.
    - apply Hfin. apply cle_refl.
    - apply Hfin. apply after_current_cle.
  Qed.

  Theorem close_DQ (s : state) : WFS s -> s_st s <> Disconnected -> CP s -> DQ (r_s (net_closed cfg s)).
  Proof.
    intros HW Hst HCP.
    assert (Hraw : DQ (r_s (net_closed_raw cfg s))).
    { unfold OrderRunStrict.DQ. apply cn_nodup. intros x. pose proof (net_closed_raw_count s HW Hst HCP x) as H.
      unfold pot in H. rewrite !cn_app in *. lia. }
    unfold net_closed. destruct (pstate_eqb (s_st s) Disconnected); [exact Hraw|].
    destruct (r_out (net_closed_raw cfg s)) as [u|k|site]; try exact Hraw. destruct k; exact Hraw.
  Qed.

  (* every step, the close included, keeps the intake queues free of duplicates when CP holds before a close *)
  Theorem step_DQ_cp (s : state) e : WFX s -> (no_close e \/ CP s) -> DQ s -> DQ (fst (step s e)).
  Proof.
    intros HX Hor Hd. destruct e as [now p t|now dl|now|now data|now|now cap fill|now|now];
      try (apply (step_DQ enc enc_reset enc_call enc_done dec dec_init dec_feed ores ores_reset ores_resolve
                    ires ires_reset ires_resolve v_out v_in cfg HC); [exact HX|exact I|exact Hd]).
    destruct Hor as [[]|HCP]. pose proof HX as [[HW _] _].
    cbn [Model.step]. unfold out_of_res. cbn [fst].
    match goal with |- context [halt_on_error ?a ?b] => destruct (halt_on_error_q enc dec ores ires a b) as (_ & F2 & F3) end.
    eapply DQ_eq; [exact F3|exact F2|].
    destruct (pstate_eqb (s_st s) Disconnected) eqn:Est.
    - apply pstate_eqb_eq in Est. rewrite (net_closed_disconnected cfg s Est). exact Hd.
    - apply pstate_eqb_neq in Est. apply close_DQ; assumption.
  Qed.
  (* ---- runs: CP is only needed in the states a connection close is taken from ---- *)
  Fixpoint cp_at_closes (s : state) (h : list event) : Prop :=
    match h with [] => True | e :: r => (no_close e \/ CP s) /\ cp_at_closes (fst (step s e)) r end.

  Theorem run_DQ_cp : forall h (s : state), WFX s -> DQ s -> Forall ok_event h -> cp_at_closes s h -> DQ (fst (run s h)).
  Proof.
    induction h as [|e r IH]; intros s HWF Hd Hall Hcp; cbn [Model.run]; [exact Hd|].
    inversion Hall as [|? ? He Hr]; subst. destruct Hcp as [Hor Hcp].
    pose proof (WF_step _ _ _ enc_done _ _ _ _ _ _ _ _ _ _ _ _ HC Hcfg s e HWF He) as HW1.
    pose proof (step_DQ_cp s e HWF Hor Hd) as Hd1.
    destruct (step s e) as [s1 o]. cbn [fst] in *. specialize (IH s1 HW1 Hd1 Hr Hcp).
    destruct (run s1 r) as [s2 os]. exact IH.
  Qed.

  (* strictly sorted queues in every reachable Connected state, PROVIDED each connection close of the
     history is taken from a state satisfying CP *)
  Theorem queues_strictly_sorted_if_cp (o : ores) (i : ires) h :
    ores_inv HC o -> ires_inv HC i -> Forall ok_event h -> cp_at_closes (init o i) h ->
    s_st (fst (run (init o i) h)) = Connected ->
    sorted_lt (s_rq (fst (run (init o i) h))) /\ sorted_lt (s_uq (fst (run (init o i) h))) /\
    NoDup (s_uq (fst (run (init o i) h)) ++ s_rq (fst (run (init o i) h))).
  Proof.
    intros Ho Hi Hall Hcp Hc.
    pose proof (WF_init _ _ _ _ _ _ _ _ _ _ _ _ _ _ cfg HC o i Ho Hi) as H0.
    assert (Hd0 : DQ (init o i)) by (unfold OrderRunStrict.DQ; cbn; constructor).
    pose proof (run_DQ_cp h _ H0 Hd0 Hall Hcp) as Hd.
    destruct (reachable_WFX_OS enc enc_reset enc_call enc_done dec dec_init dec_feed ores ores_reset ores_resolve
                ires ires_reset ires_resolve v_out v_in cfg HC Hcfg o i h Ho Hi Hall) as [_ HO].
    destruct (HO Hc) as [Sr Su]. pose proof Hd as Hd3. apply nodup_app_iff in Hd3. destruct Hd3 as (Nu & Nr & _).
    split; [apply sorted_le_nodup_lt; assumption|]. split; [apply sorted_le_nodup_lt; assumption|exact Hd].
  Qed.
End CloseStrict.
