(* C11, converse clause ("a server that follows the protocol is never reported as violating it"), decoder part:
   every successfully opened connection starts with a FRESH framing decoder, whatever state an earlier connection
   left it in (in particular the terminal-error state after a decoding failure), and an open that fails halts the
   engine.  Together with Properties/C03 (the framing decoder started from its initial state accepts exactly the
   well-formed streams, for every chunking) the decoding verdict on a connection's bytes depends on that
   connection's bytes only.  Monitor 1104 states the same on the implementation's trace (seed C11c). *)
From GM Require Import Base.Prelude Base.Outcome Codec.Packets Codec.Settings Engine.Model.
From RecordUpdate Require Import RecordSet.
Import RecordSetNotations.
Open Scope N_scope.

Section FreshDecoder.
  Context (enc dec ores ires : Type) (dec_init : dec) (cfg : config).
  Notation state := (state enc dec ores ires).
  Notation net_opened := (net_opened enc dec dec_init ores ires cfg).

  Theorem net_opened_fresh_decoder (s : state) (deadline : N) :
    r_out (net_opened s deadline) = Ok tt ->
    s_dec (r_s (net_opened s deadline)) = dec_init /\ s_st (r_s (net_opened s deadline)) = PendingConnack /\
    s_st s = Disconnected.
  Proof.
    unfold Model.net_opened. destruct (s_st s); cbn; intros H; try discriminate H.
    split; [reflexivity|]. split; reflexivity.
  Qed.

  Theorem net_opened_failed_halts (s : state) (deadline : N) :
    r_out (net_opened s deadline) <> Ok tt ->
    s_st (halt_on_error enc dec ores ires (r_s (net_opened s deadline)) (r_out (net_opened s deadline))) = Halted /\
    s_dec (r_s (net_opened s deadline)) = s_dec s.
  Proof.
    unfold Model.net_opened. destruct (s_st s); cbn; intros H; try (split; reflexivity).
    exfalso. apply H. reflexivity.
  Qed.
End FreshDecoder.
