(* C14 run level: the ping deadline.  Ghost [arm_ghost]: the time of the service call after which the
   ping deadline has been pending without interruption (defined by recursion over the history).
   In every reachable state a pending deadline t equals that time + min(ping timeout, K*500); a
   keep-alive failure is reported only by a service call at or after it; hence a peer whose PINGRESP
   is processed before that deadline is never timed out. *)
From GM Require Import Base.Prelude Base.Outcome Codec.Packets Codec.Settings Engine.Model
  EngineProofs.AssocLemmas EngineProofs.WFLemmas EngineProofs.SvcTimeout
  EngineProofs.WFDefs EngineProofs.WFCore EngineProofs.WFComplete EngineProofs.WFClose EngineProofs.WFClose2 EngineProofs.WFEvents
  EngineProofs.WFStep EngineProofs.WFProps
  EngineProofs.TimersRunDefs EngineProofs.TimersRunSvc EngineProofs.TimersRunData EngineProofs.TimersRunClose EngineProofs.TimersRun.
From RecordUpdate Require Import RecordSet.
Import RecordSetNotations.
Open Scope N_scope.

Definition ev_now (e : event) : option N := match e with EvService now _ _ => Some now | _ => None end.

Section Ping.
  Variable enc : Type.
  Variable enc_reset : version -> packet -> resolution -> outcome enc.
  Variable enc_call : enc -> N -> N -> outcome (bytes * enc).
  Variable enc_done : enc -> bool.
  Variable dec : Type.
  Variable dec_init : dec.
  Variable dec_feed : version -> N -> dec -> bytes -> dec * list packet * outcome unit.
  Variable ores : Type.
  Variable ores_reset : ores -> N -> ores.
  Variable ores_resolve : ores -> option N -> bytes -> outcome (ores * resolution).
  Variable ires : Type.
  Variable ires_reset : ires -> ires.
  Variable ires_resolve : ires -> option N -> bytes -> outcome (ires * bytes).
  Variable v_out : option settings -> connect_opts -> resolution -> packet -> outcome unit.
  Variable v_in : option settings -> packet -> outcome unit.
  Variable cfg : config.

  Notation state := (Model.state enc dec ores ires).
  Notation init := (Model.init enc dec dec_init ores ires).
  Notation res := (Model.res enc dec ores ires).
  Notation release := (Model.release enc dec ores ires cfg).
  Notation disconnect_completion := (Model.disconnect_completion enc dec ores ires).
  Notation fail_op := (Model.fail_op enc dec ores ires cfg).
  Notation ping_extension := (Model.ping_extension enc dec ores ires).
  Notation succeed_op := (Model.succeed_op enc dec ores ires cfg).
  Notation fail_all := (Model.fail_all enc dec ores ires cfg).
  Notation succeed_all := (Model.succeed_all enc dec ores ires cfg).
  Notation andthen := (Model.andthen enc dec ores ires).
  Notation try_ := (Model.try_ enc dec ores ires).
  Notation pure := (Model.pure enc dec ores ires).
  Notation create_operation := (Model.create_operation enc dec ores ires).
  Notation passes_now := (Model.passes_now enc dec ores ires cfg).
  Notation user_event := (Model.user_event enc dec ores ires cfg).
  Notation create_connect := (Model.create_connect enc dec ores ires cfg).
  Notation net_opened := (Model.net_opened enc dec dec_init ores ires cfg).
  Notation op_exists := (Model.op_exists enc dec ores ires).
  Notation op_passes := (Model.op_passes enc dec ores ires cfg).
  Notation partition_policy := (Model.partition_policy enc dec ores ires cfg).
  Notation closed_current := (Model.closed_current enc dec ores ires cfg).
  Notation slow_start_init := (Model.slow_start_init enc dec ores ires cfg).
  Notation update_retries := (Model.update_retries enc dec ores ires cfg).
  Notation fail_exceeding := (Model.fail_exceeding enc dec ores ires cfg).
  Notation has_pubrel := (Model.has_pubrel enc dec ores ires).
  Notation net_closed_raw := (Model.net_closed_raw enc dec ores ires cfg).
  Notation net_closed := (Model.net_closed enc dec ores ires cfg).
  Notation net_write_completion := (Model.net_write_completion enc dec ores ires cfg).
  Notation acquire_free_pid := (Model.acquire_free_pid enc dec ores ires).
  Notation acquire_pid_for := (Model.acquire_pid_for enc dec ores ires).
  Notation unbind := (Model.unbind enc dec ores ires).
  Notation passes_receive_max := (Model.passes_receive_max enc dec ores ires).
  Notation throttled := (Model.throttled enc dec ores ires cfg).
  Notation has_pending_ack := (Model.has_pending_ack enc dec ores ires).
  Notation dequeue := (Model.dequeue enc dec ores ires cfg).
  Notation fully_written := (Model.fully_written enc dec ores ires).
  Notation sres := (Model.sres enc dec ores ires).
  Notation seat := (Model.seat enc dec ores ires).
  Notation seat_current := (Model.seat_current enc enc_reset dec ores ores_reset ores_resolve ires v_out cfg).
  Notation service_loop := (Model.service_loop enc enc_reset enc_call enc_done dec ores ores_reset ores_resolve ires v_out cfg).
  Notation service_queue := (Model.service_queue enc enc_reset enc_call enc_done dec ores ores_reset ores_resolve ires v_out cfg).
  Notation service_keep_alive := (Model.service_keep_alive enc dec ores ires cfg).
  Notation process_ack_timeouts := (Model.process_ack_timeouts enc dec ores ires cfg).
  Notation halt_on_error := (Model.halt_on_error enc dec ores ires).
  Notation service := (Model.service enc enc_reset enc_call enc_done dec ores ores_reset ores_resolve ires v_out cfg).
  Notation earliest_tmo := (Model.earliest_tmo enc dec ores ires).
  Notation nst_queue := (Model.nst_queue enc dec ores ires cfg).
  Notation next_service_time := (Model.next_service_time enc dec ores ires cfg).
  Notation build_settings := (Model.build_settings enc dec ores ires cfg).
  Notation apply_session := (Model.apply_session enc dec ores ires cfg).
  Notation hres := (Model.hres enc dec ores ires).
  Notation hres_of := (Model.hres_of enc dec ores ires).
  Notation pre_connack := (Model.pre_connack enc dec ores ires).
  Notation sum_ss := (Model.sum_ss enc dec ores ires).
  Notation handle_connack := (Model.handle_connack enc dec ores ores_reset ires ires_reset v_in cfg).
  Notation handle_pingresp := (Model.handle_pingresp enc dec ores ires).
  Notation handle_suback := (Model.handle_suback enc dec ores ires cfg).
  Notation handle_unsuback := (Model.handle_unsuback enc dec ores ires cfg).
  Notation publish_qos_of := (Model.publish_qos_of enc dec ores ires).
  Notation handle_puback := (Model.handle_puback enc dec ores ires cfg).
  Notation handle_pubrec := (Model.handle_pubrec enc dec ores ires cfg).
  Notation handle_pubrel := (Model.handle_pubrel enc dec ores ires).
  Notation handle_pubcomp := (Model.handle_pubcomp enc dec ores ires cfg).
  Notation handle_publish := (Model.handle_publish enc dec ores ires).
  Notation handle_disconnect := (Model.handle_disconnect enc dec ores ires cfg).
  Notation handle_packet := (Model.handle_packet enc dec ores ores_reset ires ires_reset v_in cfg).
  Notation handle_packets := (Model.handle_packets enc dec ores ores_reset ires ires_reset ires_resolve v_in cfg).
  Notation is_connect_op := (Model.is_connect_op enc dec ores ires).
  Notation connect_in_queue := (Model.connect_in_queue enc dec ores ires).
  Notation max_incoming_size := (Model.max_incoming_size cfg).
  Notation net_data := (Model.net_data enc dec dec_feed ores ores_reset ires ires_reset ires_resolve v_in cfg).
  Notation reset := (Model.reset enc dec ores ires cfg).
  Notation out_of_res := (Model.out_of_res enc dec ores ires).
  Notation step := (Model.step enc enc_reset enc_call enc_done dec dec_init dec_feed ores ores_reset ores_resolve ires ires_reset ires_resolve v_out v_in cfg).
  Notation run := (Model.run enc enc_reset enc_call enc_done dec dec_init dec_feed ores ores_reset ores_resolve ires ires_reset ires_resolve v_out v_in cfg).
  Notation SeatStop := (Model.SeatStop enc dec ores ires).
  Notation SeatContinue := (Model.SeatContinue enc dec ores ires).
  Notation SeatEncode := (Model.SeatEncode enc dec ores ires).
  Notation mkState := (Model.mkState enc dec ores ires).

  Ltac slia := try clear v_in; try clear v_out; try clear ires_resolve; try clear ires_reset; try clear ores_resolve;
    try clear ores_reset; try clear dec_feed; try clear dec_init; try clear enc_done; try clear enc_call; try clear enc_reset; lia.
  Ltac dm := match goal with
    | |- context [match ?x with _ => _ end] => destruct x eqn:?
    end.

  Ltac dmh H := match type of H with
    | context [match ?x with _ => _ end] => destruct x eqn:?
    end.
  Notation FR := (TimersRunDefs.FR enc dec ores ires).
  Notation NW := (TimersRunDefs.NW enc dec ores ires).
  Notation KR := (TimersRunDefs.KR enc dec ores ires).
  Notation ORi := (TimersRunDefs.OR enc dec ores ires isame TimersRunDefs.fresh_i).
  Notation ORt := (TimersRunDefs.OR enc dec ores ires tsame fresh_op).
  Notation fv := (TimersRunDefs.fv enc dec ores ires).
  Notation FR_refl := (TimersRunDefs.FR_refl enc dec ores ires).
  Notation FR_trans := (TimersRunDefs.FR_trans enc dec ores ires).
  Notation NW_refl := (TimersRunDefs.NW_refl enc dec ores ires).
  Notation NW_trans := (TimersRunDefs.NW_trans enc dec ores ires).
  Notation KR_refl := (TimersRunDefs.KR_refl enc dec ores ires).
  Notation KR_trans := (TimersRunDefs.KR_trans enc dec ores ires).
  Notation FR_view := (TimersRunDefs.FR_view enc dec ores ires).
  Notation KR_view := (TimersRunDefs.KR_view enc dec ores ires).
  Notation NW_view := (TimersRunDefs.NW_view enc dec ores ires).
  Notation FR_sub := (TimersRunDefs.FR_sub enc dec ores ires).
  Notation FR_from := (TimersRunDefs.FR_from enc dec ores ires).
  Notation FR_ops := (TimersRunDefs.FR_ops enc dec ores ires).
  Notation FR_update := (TimersRunDefs.FR_update enc dec ores ires).
  Notation FR_fold := (TimersRunDefs.FR_fold enc dec ores ires).
  Notation ORt_ORi := (TimersRunDefs.ORt_ORi enc dec ores ires).
  Notation ORi_refl := (TimersRunDefs.ORi_refl enc dec ores ires).
  Notation ORi_trans := (TimersRunDefs.ORi_trans enc dec ores ires).
  Notation create_FR := (TimersRunDefs.create_FR enc dec ores ires).
  Notation halt_on_error_FR := (TimersRunDefs.halt_on_error_FR enc dec ores ires).
  Notation unbind_FR := (TimersRunDefs.unbind_FR enc dec ores ires).
  Notation fold_unbind_FR := (TimersRunDefs.fold_unbind_FR enc dec ores ires).
  Notation andthen_R := (TimersRunDefs.andthen_R enc dec ores ires).
  Notation try_R := (TimersRunDefs.try_R enc dec ores ires).
  Notation fail_all_R := (TimersRunDefs.fail_all_R enc dec ores ires cfg).
  Notation fail_op_FR := (TimersRunDefs.fail_op_FR enc dec ores ires cfg).
  Notation succeed_op_FR := (TimersRunDefs.succeed_op_FR enc dec ores ires cfg).
  Notation fail_all_FR := (TimersRunDefs.fail_all_FR enc dec ores ires cfg).
  Notation succeed_all_FR := (TimersRunDefs.succeed_all_FR enc dec ores ires cfg).
  Notation user_event_FR := (TimersRunDefs.user_event_FR enc dec ores ires cfg).
  Notation net_opened_NW := (TimersRunDefs.net_opened_NW enc dec dec_init ores ires cfg).
  Notation net_write_completion_FR := (TimersRunDefs.net_write_completion_FR enc dec ores ires cfg).
  Notation service_keep_alive_NW := (TimersRunDefs.service_keep_alive_NW enc dec ores ires cfg).
  Notation seat_current_FR := (TimersRunDefs.seat_current_FR enc enc_reset dec ores ores_reset ores_resolve ires v_out cfg).
  Ltac splits := repeat match goal with |- _ /\ _ => split end.
  Ltac frv := apply FR_view; reflexivity.
  Notation service_queue_inv := (TimersRunSvc.service_queue_inv enc enc_reset enc_call enc_done dec ores ores_reset ores_resolve ires v_out cfg).
  Notation service_TM := (TimersRunSvc.service_TM enc enc_reset enc_call enc_done dec ores ores_reset ores_resolve ires v_out cfg).
  Notation service_ORi := (TimersRunSvc.service_ORi enc enc_reset enc_call enc_done dec ores ores_reset ores_resolve ires v_out cfg).
  Notation TM_FR := (TimersRunSvc.TM_FR enc dec ores ires).
  Notation TM_NW := (TimersRunSvc.TM_NW enc dec ores ires).
  Notation TM_weaken := (TimersRunSvc.TM_weaken enc dec ores ires).
  Notation TM_written := (TimersRunSvc.TM_written enc dec ores ires).
  Notation TM_timeouts := (TimersRunSvc.TM_timeouts enc dec ores ires cfg).
  Notation fully_written_shape := (TimersRunSvc.fully_written_shape enc dec ores ires).
  Notation fully_written_KR := (TimersRunSvc.fully_written_KR enc dec ores ires).
  Notation fully_written_ORi := (TimersRunSvc.fully_written_ORi enc dec ores ires).
  Notation process_ack_timeouts_KR := (TimersRunSvc.process_ack_timeouts_KR enc dec ores ires cfg).
  Notation process_ack_timeouts_ORi := (TimersRunSvc.process_ack_timeouts_ORi enc dec ores ires cfg).
  Notation net_data_inv := (TimersRunData.net_data_inv enc dec dec_feed ores ores_reset ires ires_reset ires_resolve v_in cfg).
  Notation net_data_TM := (TimersRunData.net_data_TM enc dec dec_feed ores ores_reset ires ires_reset ires_resolve v_in cfg).
  Notation net_data_ORi := (TimersRunData.net_data_ORi enc dec dec_feed ores ores_reset ires ires_reset ires_resolve v_in cfg).
  Notation net_data_KI := (TimersRunData.net_data_KI enc dec dec_feed ores ores_reset ires ires_reset ires_resolve v_in cfg).
  Notation handle_connack_NW := (TimersRunData.handle_connack_NW enc dec ores ores_reset ires ires_reset v_in cfg).
  Notation KI_connack := (TimersRunData.KI_connack enc dec ores ores_reset ires ires_reset v_in cfg).
  Notation KI_FR := (TimersRunData.KI_FR enc dec ores ires cfg).
  Notation KI_KR := (TimersRunData.KI_KR enc dec ores ires cfg).
  Notation KI_keep_alive := (TimersRunData.KI_keep_alive enc dec ores ires cfg).
  Notation apply_session_FR := (TimersRunData.apply_session_FR enc dec ores ires cfg).
  Notation ka_final := (TimersRunData.ka_final cfg).
  Notation close_intr := (TimersRunClose.close_intr enc dec ores ires cfg).
  Notation close_nid := (TimersRunClose.close_nid enc dec ores ires cfg).
  Notation close_phases := (TimersRunClose.close_phases enc dec ores ires cfg).
  Notation net_closed_ka := (TimersRunClose.net_closed_ka enc dec ores ires cfg).
  Notation net_closed_rs := (TimersRunClose.net_closed_rs enc dec ores ires cfg).
  Notation net_closed_done := (TimersRunClose.net_closed_done enc dec ores ires cfg).
  Notation PC2 := (TimersRunClose.PC2 enc dec ores ires).
  Notation R0 := (TimersRunClose.R0 enc dec ores ires).
  Notation R0_old := (TimersRunClose.R0_old enc dec ores ires).
  Notation WFS_PC2 := (TimersRunClose.WFS_PC2 enc dec ores ires).
  Notation fail_all_keeps := (TimersRunClose.fail_all_keeps enc dec ores ires cfg).
  Notation fail_all_R0 := (TimersRunClose.fail_all_R0 enc dec ores ires cfg).
  Notation fail_exceeding_R0 := (TimersRunClose.fail_exceeding_R0 enc dec ores ires cfg).
  Notation phaseA_R0 := (TimersRunClose.phaseA_R0 enc dec ores ires cfg).
  Notation phaseB_R0 := (TimersRunClose.phaseB_R0 enc dec ores ires cfg).
  Notation phaseC_R0 := (TimersRunClose.phaseC_R0 enc dec ores ires cfg).
  Notation pending_nodup := (TimersRunClose.pending_nodup enc dec ores ires).
  Variable HC : comps_ok enc enc_reset enc_call dec dec_init dec_feed ores ores_reset ores_resolve ires ires_reset ires_resolve v_out v_in.
  Hypothesis Hcfg : ok_cfg cfg.
  Notation WFX := (WFStep.WFX enc enc_reset enc_call dec dec_init dec_feed ores ores_reset ores_resolve ires ires_reset ires_resolve v_out v_in cfg HC).
  Notation step_spec := (WFStep.step_spec enc enc_reset enc_call enc_done dec dec_init dec_feed ores ores_reset ores_resolve ires ires_reset ires_resolve v_out v_in cfg HC Hcfg).
  Notation WF_init := (WFStep.WF_init enc enc_reset enc_call dec dec_init dec_feed ores ores_reset ores_resolve ires ires_reset ires_resolve v_out v_in cfg HC).
  Notation WFS := (@WFDefs.WFS enc dec ores ires).
  Notation TM := (TimersRunSvc.TM enc dec ores ires).
  Notation KI := (TimersRunData.KI enc dec ores ires cfg).
  Notation pending_ids := (SvcTimeout.pending_ids enc dec ores ires).
  Notation caught_inc := (TimersRunClose.caught_inc enc dec ores ires cfg).
  Notation reset_cleared := (TimersRun.reset_cleared enc dec ores ires cfg).

  Definition arm_step (s : state) (e : event) (g : option N) : option N :=
    match s_ping_to (fst (step s e)) with
    | None => None
    | Some _ => match s_ping_to s with Some _ => g | None => ev_now e end
    end.
  Fixpoint arm_ghost (s : state) (h : list event) (g : option N) : option N :=
    match h with [] => g | e :: r => arm_ghost (fst (step s e)) r (arm_step s e g) end.

  Definition kfin (st : settings) : N := N.min (cf_ping_timeout cfg) (st_server_keep_alive st * 500).

  Definition PGI (g : option N) (s : state) : Prop :=
    forall t, s_ping_to s = Some t -> exists now0 st, g = Some now0 /\ s_settings s = Some st /\ t = now0 + kfin st.

  (* how one event moves the ping deadline: cleared, kept (with the settings), or armed by a service call *)
  Definition PR (a : option N) (s s' : state) : Prop :=
    s_ping_to s' = None \/ (s_ping_to s' = s_ping_to s /\ s_settings s' = s_settings s) \/
    (exists now st, a = Some now /\ s_ping_to s = None /\ s_settings s' = Some st /\ s_ping_to s' = Some (now + kfin st)).

  Lemma PR_KR a s s' : KR s s' -> PR a s s'.
  Proof. intros [_ K2 [K3|K3] _]; [right; left; split; assumption|left; exact K3]. Qed.

  Lemma PR_then_KR a s x y : PR a s x -> KR x y -> PR a s y.
  Proof.
    intros [H|[[H1 H2]|(now & st & A & B & C & D)]] [_ K2 [K3|K3] _]; try (left; congruence).
    - right; left. split; congruence.
    - right; right. exists now, st. repeat split; congruence.
  Qed.

  Lemma PR_then_FR a s x y : FR x y -> PR a s x -> PR a s y.
  Proof. intros [_ K] H. eapply PR_then_KR; eassumption. Qed.

  Lemma PGI_PR g a s s' : PGI g s -> PR a s s' ->
    PGI (match s_ping_to s' with None => None | Some _ => match s_ping_to s with Some _ => g | None => a end end) s'.
  Proof.
    intros HG HR t Ht. rewrite Ht. destruct HR as [H|[[H1 H2]|(now & st & A & B & C & D)]]; [congruence| |].
    - rewrite H1 in Ht. rewrite Ht. rewrite H2. apply HG. exact Ht.
    - rewrite B. exists now, st. rewrite D in Ht. inversion Ht. repeat split; assumption.
  Qed.

  Lemma handle_connack_pt s now c :
    s_ping_to (h_s (handle_connack s now c)) = None \/ h_s (handle_connack s now c) = s.
  Proof.
    unfold Model.handle_connack. destruct (negb (pstate_eqb (s_st s) PendingConnack)); [right; reflexivity|].
    destruct (negb (ca_rc c =? 0)); [right; reflexivity|]. destruct (v_in None (Connack c)); [|right; reflexivity..].
    cbv zeta. left.
    match goal with |- context [apply_session ?sx ?sp] => pose proof (apply_session_FR sx sp) as [_ [_ _ K _]]; set (s2 := sx) in *; set (r := apply_session s2 sp) in * end.
    assert (E : s_ping_to s2 = None) by (unfold s2; destruct (cf_drain_one cfg); reflexivity).
    assert (H : s_ping_to (r_s r) = None) by (destruct K as [K|K]; congruence).
    destruct (r_out r); cbn [h_s]; exact H.
  Qed.

  Lemma keep_alive_PR s now s1 : service_keep_alive s now = Ok s1 -> PR (Some now) s s1.
  Proof.
    unfold Model.service_keep_alive. destruct (s_ping_to s) as [pt|] eqn:Ept.
    { destruct (pt <=? now); [discriminate|]. intros H; inversion H; subst. right; left. split; reflexivity. }
    destruct (s_next_ping s) as [np|]; [|intros H; inversion H; subst; right; left; split; reflexivity].
    destruct (np <=? now); [|intros H; inversion H; subst; right; left; split; reflexivity].
    cbn. destruct (s_settings s) as [st|] eqn:Es; [|discriminate]. unfold add_time. destruct (IMAX <? _); cbn [obind]; [discriminate|].
    intros H. right; right. exists now, st. split; [reflexivity|]. split; [exact Ept|].
    destruct (0 <? st_server_keep_alive st); inversion H; subst; cbn; split; auto.
  Qed.

  Theorem PR_step s e : WFX s -> ok_event e -> PR (ev_now e) s (fst (step s e)).
  Proof.
    intros HX Hev. destruct (step_spec s e HX Hev) as [Hnp HX']. destruct HX as [[HW HP] HI].
    destruct e as [now p t|now dl|now|now data|now|now cap fill|now|now]; cbn [Model.step ev_now] in *.
    - unfold Model.out_of_res. cbn [fst]. apply PR_KR. apply user_event_FR.
    - unfold Model.out_of_res. cbn [fst]. eapply PR_then_FR; [apply halt_on_error_FR|].
      destruct (net_opened_NW s dl) as (_ & A1 & A2 & _). right; left. split; assumption.
    - unfold Model.out_of_res. cbn [fst]. destruct (pstate_eqb (s_st s) Disconnected) eqn:Est.
      + apply pstate_eqb_eq in Est. rewrite (net_closed_disconnected cfg s Est). cbn. right; left. split; reflexivity.
      + apply pstate_eqb_neq in Est. destruct (net_closed_spec cfg s HW Est) as (Eo & _).
        rewrite Eo. cbn [Model.halt_on_error]. left. apply net_closed_ka. exact Est.
    - cbn [fst]. eapply PR_then_FR; [apply halt_on_error_FR|].
      apply (net_data_inv (fun x => PR None s x) now).
      + intros a b. apply PR_then_FR.
      + intros a c H. destruct (handle_connack_pt a now c) as [E|E]; [left; exact E|rewrite E; exact H].
      + right; left. split; reflexivity.
    - unfold Model.out_of_res. cbn [fst]. apply PR_KR. eapply KR_trans; [apply net_write_completion_FR|apply halt_on_error_FR].
    - cbn [fst].
      assert (HQ : forall s1 m, PR (Some now) s s1 -> PR (Some now) s (sr_s (service_queue s1 m now cap fill))).
      { intros s1 m. apply (service_queue_inv (fun x => PR (Some now) s x) now).
        - intros a b. apply PR_then_FR.
        - intros a b Hw H. eapply PR_then_KR; [exact H|eapply fully_written_KR; exact Hw]. }
      assert (H0 : PR (Some now) s s) by (right; left; split; reflexivity).
      unfold Model.service. cbn [sr_s sr_out].
      match goal with |- context [halt_on_error (sr_s ?r) (sr_out ?r)] => set (r0 := r) end.
      eapply PR_then_FR; [apply halt_on_error_FR|]. unfold r0. clear r0. destruct (s_st s); try exact H0.
      + destruct (s_connack_to s) as [t|]; [|exact H0]. destruct (t <=? now); [exact H0|]. apply HQ. exact H0.
      + destruct (service_keep_alive s now) as [s1| |] eqn:Ek; [|exact H0..].
        specialize (HQ s1 true (keep_alive_PR _ _ _ Ek)). destruct (sr_out (service_queue s1 true now cap fill)); [|exact HQ..].
        cbn [sr_s]. eapply PR_then_KR; [exact HQ|apply process_ack_timeouts_KR].
      + cbn [sr_s]. apply PR_KR. apply process_ack_timeouts_KR.
    - destruct (next_service_time s now); cbn [fst]; right; left; split; reflexivity.
    - unfold Model.out_of_res in *. cbn [fst snd o_res] in *.
      destruct (reset_cleared s (nopanic_is_panic _ Hnp)) as (_ & _ & _ & _ & _ & R6). left. exact R6.
  Qed.

  Theorem PG_step g s e : WFX s -> ok_event e -> PGI g s -> PGI (arm_step s e g) (fst (step s e)).
  Proof. intros HX Hev HG. unfold arm_step. apply PGI_PR; [exact HG|apply PR_step; assumption]. Qed.

  Theorem PG_run : forall h s g, WFX s -> Forall ok_event h -> PGI g s -> PGI (arm_ghost s h g) (fst (run s h)).
  Proof.
    induction h as [|e r IH]; intros s g HX Hall HG; cbn [Model.run arm_ghost]; [exact HG|].
    inversion Hall as [|? ? He Hr]; subst. destruct (step_spec s e HX He) as [_ HX1]. pose proof (PG_step g s e HX He HG) as HG1.
    destruct (step s e) as [s1 o1]. cbn [fst] in *. specialize (IH s1 _ HX1 Hr HG1). destruct (run s1 r) as [s2 os]. exact IH.
  Qed.

  (* ---- what the ghost means ---- *)
  Lemma run_app : forall h1 h2 s, fst (run s (h1 ++ h2)) = fst (run (fst (run s h1)) h2).
  Proof.
    induction h1 as [|e r IH]; intros h2 s; cbn [app Model.run]; [reflexivity|].
    destruct (step s e) as [s1 o1]. specialize (IH h2 s1). destruct (run s1 (r ++ h2)) as [s2 os]. destruct (run s1 r) as [s3 os3].
    cbn [fst] in *. exact IH.
  Qed.

  Lemma arm_ghost_snoc : forall h s g e, arm_ghost s (h ++ [e]) g = arm_step (fst (run s h)) e (arm_ghost s h g).
  Proof.
    induction h as [|e0 r IH]; intros s g e; cbn [app arm_ghost Model.run]; [reflexivity|].
    rewrite IH. destruct (step s e0) as [s1 o1]. cbn [fst]. destruct (run s1 r) as [s2 os]. reflexivity.
  Qed.

  (* the ghost is the time of a service call before which no deadline was pending and since which one has
     been pending without interruption (so no PINGRESP has been processed since: that clears it) *)
  Theorem arm_ghost_spec : forall h s now0, arm_ghost s h None = Some now0 ->
    exists h1 cap fill h2, h = h1 ++ EvService now0 cap fill :: h2 /\ s_ping_to (fst (run s h1)) = None /\
      forall h2a h2b, h2 = h2a ++ h2b -> s_ping_to (fst (run s (h1 ++ EvService now0 cap fill :: h2a))) <> None.
  Proof.
    induction h as [|e h IH] using rev_ind; intros s now0 Hg; [discriminate|].
    rewrite arm_ghost_snoc in Hg. unfold arm_step in Hg.
    destruct (s_ping_to (fst (step (fst (run s h)) e))) as [t'|] eqn:E'; [|discriminate].
    assert (Hlast : fst (run s (h ++ [e])) = fst (step (fst (run s h)) e)).
    { rewrite run_app. cbn [Model.run]. destruct (step (fst (run s h)) e). reflexivity. }
    destruct (s_ping_to (fst (run s h))) as [t0|] eqn:E0.
    - destruct (IH s now0 Hg) as (h1 & cap & fill & h2 & -> & Hb & Ha). exists h1, cap, fill, (h2 ++ [e]).
      split; [rewrite <- app_assoc; reflexivity|]. split; [exact Hb|]. intros h2a h2b Hsp.
      destruct h2b as [|x h2b'] using rev_ind.
      + rewrite app_nil_r in Hsp. subst h2a. replace (h1 ++ EvService now0 cap fill :: h2 ++ [e]) with ((h1 ++ EvService now0 cap fill :: h2) ++ [e]) by (rewrite <- app_assoc; reflexivity).
        rewrite Hlast, E'. discriminate.
      + rewrite app_assoc in Hsp. apply app_inj_tail in Hsp. destruct Hsp as [Hsp _]. apply (Ha h2a h2b'). exact Hsp.
    - destruct e; cbn [ev_now] in Hg; try discriminate. inversion Hg; subst now. exists h, cap, fill, [].
      split; [reflexivity|]. split; [exact E0|]. intros h2a h2b Hsp. symmetry in Hsp. apply app_eq_nil in Hsp. destruct Hsp as [-> _].
      rewrite Hlast, E'. discriminate.
  Qed.

  (* ---- a peer that answers in time is never timed out ---- *)
  Fixpoint timely (s : state) (h : list event) (g : option N) : Prop :=
    match h with
    | [] => True
    | e :: r =>
        (match e with
         | EvService now _ _ => forall now0 st, g = Some now0 -> s_ping_to s <> None -> s_settings s = Some st -> now < now0 + kfin st
         | _ => True
         end) /\ timely (fst (step s e)) r (arm_step s e g)
    end.

  Fixpoint no_ka_timeout (s : state) (h : list event) : Prop :=
    match h with
    | [] => True
    | e :: r =>
        (match e with EvService now _ _ => forall k, service_keep_alive s now <> Err k | _ => True end) /\
        no_ka_timeout (fst (step s e)) r
    end.

  Lemma keep_alive_err s now k : service_keep_alive s now = Err k -> exists pt, s_ping_to s = Some pt /\ pt <= now.
  Proof.
    unfold Model.service_keep_alive. destruct (s_ping_to s) as [pt|].
    - destruct (pt <=? now) eqn:E; [|discriminate]. intros _. exists pt. split; [reflexivity|slia].
    - destruct (s_next_ping s); [|discriminate]. destruct (_ <=? now); [|discriminate]. cbn.
      destruct (s_settings s); [|discriminate]. unfold add_time. destruct (IMAX <? _); cbn [obind]; [discriminate|].
      destruct (0 <? _); discriminate.
  Qed.

  Theorem timely_no_timeout : forall h s g, WFX s -> Forall ok_event h -> PGI g s -> timely s h g -> no_ka_timeout s h.
  Proof.
    induction h as [|e r IH]; intros s g HX Hall HG Ht; cbn [timely no_ka_timeout] in *; [exact I|].
    inversion Hall as [|? ? He Hr]; subst. destruct Ht as [Ht1 Ht2]. split.
    - destruct e; try exact I. intros k Hk. destruct (keep_alive_err _ _ _ Hk) as (pt & Hpt & Hle).
      destruct (HG pt Hpt) as (now0 & st & G1 & G2 & G3). specialize (Ht1 now0 st G1). rewrite Hpt in Ht1.
      assert (now < now0 + kfin st) by (apply Ht1; [discriminate|exact G2]). slia.
    - destruct (step_spec s e HX He) as [_ HX1]. apply (IH _ (arm_step s e g)); [exact HX1|exact Hr|apply PG_step; assumption|exact Ht2].
  Qed.

  (* ---- every reachable state ---- *)
  Section Reach.
    Variable o0 : ores.
    Variable i0 : ires.
    Variable h : list event.
    Hypothesis Ho0 : ores_inv HC o0.
    Hypothesis Hi0 : ires_inv HC i0.
    Hypothesis Hall : Forall ok_event h.

    Lemma PGI_init : PGI None (init o0 i0).
    Proof. intros t Ht. discriminate. Qed.

    (* C14.6 a pending ping deadline was armed by the service call at time now0 (the ghost) and equals
       now0 + min(ping timeout, K * 500) *)
    Theorem run_ping_deadline : forall t, s_ping_to (fst (run (init o0 i0) h)) = Some t ->
      exists now0 st, arm_ghost (init o0 i0) h None = Some now0 /\ s_settings (fst (run (init o0 i0) h)) = Some st /\
        t = now0 + N.min (cf_ping_timeout cfg) (st_server_keep_alive st * 500).
    Proof. exact (PG_run h (init o0 i0) None (WF_init o0 i0 Ho0 Hi0) Hall PGI_init). Qed.

    (* ... a peer that is answered in time is never timed out *)
    Theorem run_timely_no_timeout : timely (init o0 i0) h None -> no_ka_timeout (init o0 i0) h.
    Proof. exact (timely_no_timeout h (init o0 i0) None (WF_init o0 i0 Ho0 Hi0) Hall PGI_init). Qed.
  End Reach.
End Ping.
