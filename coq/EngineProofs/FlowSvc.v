(* C09, part 4: the flow invariant through service, using the packet-id facts. *)
From GM Require Import Base.Prelude Base.Outcome Codec.Packets Codec.Settings Engine.Model.
From GM Require Import EngineProofs.AssocLemmas EngineProofs.PacketIds EngineProofs.IdsFrame EngineProofs.SvcTimeout EngineProofs.Flow EngineProofs.FlowInv EngineProofs.FlowStep.
From RecordUpdate Require Import RecordSet.
From Coq Require Import Sorting.Sorted.
Import RecordSetNotations.
Open Scope N_scope.

Set Default Proof Using "Type".
Section Engine.
  Variable enc : Type.
  Variable enc_reset : version -> packet -> resolution -> outcome enc.
  Variable enc_call : enc -> N -> N -> outcome (bytes * enc).
  Variable enc_done : enc -> bool.
  Variable dec : Type.
  Variable dec_init : dec.
  Variable dec_feed : version -> N -> dec -> bytes -> dec * list packet * outcome unit.
  Variable ores : Type.
  Variable ores_reset : ores -> N -> ores.
  Variable ores_resolve : ores -> option N -> bytes -> outcome (ores * resolution).
  Variable ires : Type.
  Variable ires_reset : ires -> ires.
  Variable ires_resolve : ires -> option N -> bytes -> outcome (ires * bytes).
  Variable v_out : option settings -> connect_opts -> resolution -> packet -> outcome unit.
  Variable v_in : option settings -> packet -> outcome unit.
  Variable cfg : config.

  Notation state := (Model.state enc dec ores ires).
  Notation init := (Model.init enc dec dec_init ores ires).
  Notation res := (Model.res enc dec ores ires).
  Notation release := (Model.release enc dec ores ires cfg).
  Notation disconnect_completion := (Model.disconnect_completion enc dec ores ires).
  Notation fail_op := (Model.fail_op enc dec ores ires cfg).
  Notation ping_extension := (Model.ping_extension enc dec ores ires).
  Notation succeed_op := (Model.succeed_op enc dec ores ires cfg).
  Notation fail_all := (Model.fail_all enc dec ores ires cfg).
  Notation succeed_all := (Model.succeed_all enc dec ores ires cfg).
  Notation andthen := (Model.andthen enc dec ores ires).
  Notation try_ := (Model.try_ enc dec ores ires).
  Notation pure := (Model.pure enc dec ores ires).
  Notation create_operation := (Model.create_operation enc dec ores ires).
  Notation passes_now := (Model.passes_now enc dec ores ires cfg).
  Notation user_event := (Model.user_event enc dec ores ires cfg).
  Notation create_connect := (Model.create_connect enc dec ores ires cfg).
  Notation net_opened := (Model.net_opened enc dec dec_init ores ires cfg).
  Notation op_exists := (Model.op_exists enc dec ores ires).
  Notation op_passes := (Model.op_passes enc dec ores ires cfg).
  Notation partition_policy := (Model.partition_policy enc dec ores ires cfg).
  Notation closed_current := (Model.closed_current enc dec ores ires cfg).
  Notation slow_start_init := (Model.slow_start_init enc dec ores ires cfg).
  Notation update_retries := (Model.update_retries enc dec ores ires cfg).
  Notation fail_exceeding := (Model.fail_exceeding enc dec ores ires cfg).
  Notation has_pubrel := (Model.has_pubrel enc dec ores ires).
  Notation net_closed_raw := (Model.net_closed_raw enc dec ores ires cfg).
  Notation net_closed := (Model.net_closed enc dec ores ires cfg).
  Notation net_write_completion := (Model.net_write_completion enc dec ores ires cfg).
  Notation acquire_free_pid := (Model.acquire_free_pid enc dec ores ires).
  Notation acquire_pid_for := (Model.acquire_pid_for enc dec ores ires).
  Notation unbind := (Model.unbind enc dec ores ires).
  Notation passes_receive_max := (Model.passes_receive_max enc dec ores ires).
  Notation throttled := (Model.throttled enc dec ores ires cfg).
  Notation has_pending_ack := (Model.has_pending_ack enc dec ores ires).
  Notation dequeue := (Model.dequeue enc dec ores ires cfg).
  Notation fully_written := (Model.fully_written enc dec ores ires).
  Notation sres := (Model.sres enc dec ores ires).
  Notation seat := (Model.seat enc dec ores ires).
  Notation seat_current := (Model.seat_current enc enc_reset dec ores ores_reset ores_resolve ires v_out cfg).
  Notation service_loop := (Model.service_loop enc enc_reset enc_call enc_done dec ores ores_reset ores_resolve ires v_out cfg).
  Notation service_queue := (Model.service_queue enc enc_reset enc_call enc_done dec ores ores_reset ores_resolve ires v_out cfg).
  Notation service_keep_alive := (Model.service_keep_alive enc dec ores ires cfg).
  Notation process_ack_timeouts := (Model.process_ack_timeouts enc dec ores ires cfg).
  Notation halt_on_error := (Model.halt_on_error enc dec ores ires).
  Notation service := (Model.service enc enc_reset enc_call enc_done dec ores ores_reset ores_resolve ires v_out cfg).
  Notation earliest_tmo := (Model.earliest_tmo enc dec ores ires).
  Notation nst_queue := (Model.nst_queue enc dec ores ires cfg).
  Notation next_service_time := (Model.next_service_time enc dec ores ires cfg).
  Notation build_settings := (Model.build_settings enc dec ores ires cfg).
  Notation apply_session := (Model.apply_session enc dec ores ires cfg).
  Notation hres := (Model.hres enc dec ores ires).
  Notation hres_of := (Model.hres_of enc dec ores ires).
  Notation pre_connack := (Model.pre_connack enc dec ores ires).
  Notation sum_ss := (Model.sum_ss enc dec ores ires).
  Notation handle_connack := (Model.handle_connack enc dec ores ores_reset ires ires_reset v_in cfg).
  Notation handle_pingresp := (Model.handle_pingresp enc dec ores ires).
  Notation handle_suback := (Model.handle_suback enc dec ores ires cfg).
  Notation handle_unsuback := (Model.handle_unsuback enc dec ores ires cfg).
  Notation publish_qos_of := (Model.publish_qos_of enc dec ores ires).
  Notation handle_puback := (Model.handle_puback enc dec ores ires cfg).
  Notation handle_pubrec := (Model.handle_pubrec enc dec ores ires cfg).
  Notation handle_pubrel := (Model.handle_pubrel enc dec ores ires).
  Notation handle_pubcomp := (Model.handle_pubcomp enc dec ores ires cfg).
  Notation handle_publish := (Model.handle_publish enc dec ores ires).
  Notation handle_disconnect := (Model.handle_disconnect enc dec ores ires cfg).
  Notation handle_packet := (Model.handle_packet enc dec ores ores_reset ires ires_reset v_in cfg).
  Notation handle_packets := (Model.handle_packets enc dec ores ores_reset ires ires_reset ires_resolve v_in cfg).
  Notation is_connect_op := (Model.is_connect_op enc dec ores ires).
  Notation connect_in_queue := (Model.connect_in_queue enc dec ores ires).
  Notation max_incoming_size := (Model.max_incoming_size cfg).
  Notation net_data := (Model.net_data enc dec dec_feed ores ores_reset ires ires_reset ires_resolve v_in cfg).
  Notation reset := (Model.reset enc dec ores ires cfg).
  Notation out_of_res := (Model.out_of_res enc dec ores ires).
  Notation step := (Model.step enc enc_reset enc_call enc_done dec dec_init dec_feed ores ores_reset ores_resolve ires ires_reset ires_resolve v_out v_in cfg).
  Notation run := (Model.run enc enc_reset enc_call enc_done dec dec_init dec_feed ores ores_reset ores_resolve ires ires_reset ires_resolve v_out v_in cfg).
  Notation SeatStop := (Model.SeatStop enc dec ores ires).
  Notation SeatContinue := (Model.SeatContinue enc dec ores ires).
  Notation SeatEncode := (Model.SeatEncode enc dec ores ires).
  Notation mkState := (Model.mkState enc dec ores ires).
  (* lia generalises over every hypothesis mentioning N, including the Section variables: clear them first *)
  Ltac slia := try clear v_in; try clear v_out; try clear ires_resolve; try clear ires_reset; try clear ores_resolve;
    try clear ores_reset; try clear dec_feed; try clear dec_init; try clear enc_done; try clear enc_call; try clear enc_reset; lia.
  Ltac dm := match goal with
    | |- context [match ?x with _ => _ end] => destruct x eqn:?
    end.
  Notation flow_m := (FlowInv.flow_m enc dec ores ires).
  Notation flow_inv := (FlowInv.flow_inv enc dec ores ires).
  Notation pid_facts := (FlowInv.pid_facts enc dec ores ires).
  Notation extra := (FlowInv.extra enc dec ores ires).

  (* ---- the packet-id facts through the primitives used by service ---- *)
  Lemma pid_removed (s s1 : state) id o :
    lookup id (s_ops s) = Some o ->
    s_ops s1 = remove id (s_ops s) ->
    s_ppub s1 = match op_pid o with Some p => remove p (s_ppub s) | None => s_ppub s end ->
    s_alloc s1 = match op_pid o with Some p => remove p (s_alloc s) | None => s_alloc s end ->
    s_hq s1 = s_hq s -> pid_facts s -> pid_facts s1.
  Proof.
    intros Hl Ho Hp Ha Hq [P1 P2].
    assert (Hsub : forall k x, lookup k (s_ops s1) = Some x -> lookup k (s_ops s) = Some x /\ k <> id).
    { intros k x. rewrite Ho. intros H. destruct (N.eq_dec k id) as [->|Hne]; [rewrite lookup_remove_eq in H; discriminate|].
      rewrite (lookup_remove_neq _ _ _ Hne) in H. auto. }
    assert (Hne : forall k x p2 p, lookup k (s_ops s1) = Some x -> op_pid x = Some p2 -> op_pid o = Some p -> p2 <> p).
    { intros k x p2 p Hk Hx Hpo ->. destruct (Hsub _ _ Hk) as [Hk0 Hkn]. pose proof (P1 _ _ _ Hk0 Hx). pose proof (P1 _ _ _ Hl Hpo). congruence. }
    constructor.
    - intros k x p2 Hk Hx. destruct (Hsub _ _ Hk) as [Hk0 _]. rewrite Ha. destruct (op_pid o) as [p|] eqn:Epo; [|eapply P1; eassumption].
      rewrite lookup_remove_neq by (eapply Hne; eauto). eapply P1; eassumption.
    - intros k x Hin Hk Hqp. rewrite Hq in Hin. destruct (Hsub _ _ Hk) as [Hk0 _].
      destruct (P2 _ _ Hin Hk0 Hqp) as (p2 & Hx & Hpp & Hh). exists p2. split; [exact Hx|]. split; [exact Hpp|].
      rewrite Hp. destruct (op_pid o) as [p|] eqn:Epo; [|exact Hh]. rewrite haskey_remove.
      destruct (p2 =? p) eqn:E; [|exact Hh]. exfalso. eapply (Hne k x p2 p); eauto. slia.
  Qed.

  Lemma pid_eq (s s' : state) :
    s_ops s' = s_ops s -> s_alloc s' = s_alloc s -> s_ppub s' = s_ppub s -> s_hq s' = s_hq s -> pid_facts s -> pid_facts s'.
  Proof. intros Ho Ha Hp Hq. apply pid_same; try assumption. intros id. rewrite Hq. exact (fun H => H). Qed.

  Lemma pid_fail_op s id e : pid_facts s -> pid_facts (r_s (fail_op s id e)).
  Proof.
    intros H. unfold Model.fail_op. destruct (lookup id (s_ops s)) as [o|] eqn:El; [|exact H].
    destruct (release s id o) as [s1| |] eqn:Er; [|exact H..].
    destruct (release_core _ _ _ _ _ _ _ _ _ Er) as (Ho & Hp & Ha & _ & Hq & _).
    pose proof (pid_removed s s1 id o El Ho Hp Ha Hq H) as H1.
    pose proof (disconnect_completion_core enc dec ores ires s1 o) as Hd. cbv zeta in Hd.
    destruct (disconnect_completion s1 o) as [s2 r]. cbn [fst] in Hd. destruct Hd as (A & _ & C & D & _ & F & _).
    assert (H2 : pid_facts s2) by (eapply pid_eq; eassumption).
    repeat dm; cbn [r_s]; exact H2.
  Qed.

  Lemma pid_fail_all ids : forall s e, pid_facts s -> pid_facts (r_s (fail_all s ids e)).
  Proof.
    induction ids as [|id r IH]; intros s e H; cbn [Model.fail_all]; [exact H|].
    pose proof (pid_fail_op s id e H) as H1. destruct (is_panic _); [exact H1|].
    destruct (is_panic _); cbn [r_s]; apply IH; exact H1.
  Qed.

  Lemma pid_create (s s' : state) (o : op) :
    ids_ok (s_ops s, s_next_id s) ->
    s_ops s' = s_ops s ++ [(s_next_id s, o)] -> s_alloc s' = s_alloc s -> s_ppub s' = s_ppub s ->
    (forall id, In id (s_hq s') -> In id (s_hq s) \/ id = s_next_id s) ->
    op_pid o = None -> qpub (op_packet o) = false -> pid_facts s -> pid_facts s'.
  Proof.
    intros Hids Ho Ha Hp Hq Hpo Hqo [P1 P2]. constructor.
    - intros k x p Hk Hx. rewrite Ho in Hk. rewrite Ha. destruct (lookup_app_new _ _ _ _ _ Hk) as [Hk0|(_ & -> & _)]; [eapply P1; eassumption|congruence].
    - intros k x Hin Hk Hqp. rewrite Ho in Hk. rewrite Hp. destruct (lookup_app_new _ _ _ _ _ Hk) as [Hk0|(_ & -> & _)]; [|congruence].
      destruct (Hq k Hin) as [Hin0| ->]; [eapply P2; eassumption|].
      exfalso. pose proof (ids_ok_lt _ _ _ Hids Hk0) as Hlt. cbn [snd] in Hlt. slia.
  Qed.

  Lemma pid_fully_written s now s' : fully_written s now = Ok s' -> pid_facts s -> pid_facts s'.
  Proof.
    unfold Model.fully_written. destruct (s_cur s) as [id|]; [|discriminate].
    destruct (lookup id (s_ops s)) as [o|] eqn:El; [|discriminate].
    match goal with |- context [update id ?f (s_ops ?s1)] => set (s1v := s1); set (fv := f) end.
    intros H [P1 P2].
    assert (H1 : s_ops s1v = s_ops s /\ s_alloc s1v = s_alloc s /\ s_hq s1v = s_hq s /\
                 (forall p, haskey p (s_ppub s) = true -> haskey p (s_ppub s1v) = true)).
    { unfold s1v. repeat dm; cbn; repeat split; auto. intros p9 Hp9. rewrite haskey_insert. destruct (p9 =? _); [reflexivity|exact Hp9]. }
    destruct H1 as (Ho & Ha & Hq & Hk).
    assert (Hfin : s_ops s' = update id fv (s_ops s) /\ s_alloc s' = s_alloc s /\ s_hq s' = s_hq s /\ s_ppub s' = s_ppub s1v).
    { revert H. repeat dm; cbn [obind]; intros H; inversion H; subst; cbn; rewrite ?Ho, ?Ha, ?Hq; auto. }
    destruct Hfin as (Ho' & Ha' & Hq' & Hp').
    assert (Hrel : forall k x, lookup k (s_ops s') = Some x -> exists x0, lookup k (s_ops s) = Some x0 /\ op_pid x = op_pid x0 /\ op_packet x = op_packet x0).
    { intros k x Hl. rewrite Ho' in Hl. destruct (lookup_update_rel _ _ _ _ _ Hl) as (x0 & Hl0 & [->| ->]); exists x0; auto. }
    constructor.
    - intros k x p Hl Hx. destruct (Hrel _ _ Hl) as (x0 & Hl0 & E1 & _). rewrite Ha'. eapply P1; [exact Hl0|congruence].
    - intros k x Hin Hl Hqp. destruct (Hrel _ _ Hl) as (x0 & Hl0 & E1 & E2). rewrite Hq' in Hin. rewrite E2 in *.
      destruct (P2 _ _ Hin Hl0 Hqp) as (p & Hx & Hpp & Hh). exists p. rewrite E1, Hp'. auto.
  Qed.

  Lemma acquire_free_pid_spec s id s1 c : inc (keys (s_alloc s)) -> acquire_free_pid s id = Ok (s1, c) ->
    ~ In c (keys (s_alloc s)) /\ s_alloc s1 = insert c id (s_alloc s) /\ s_ops s1 = s_ops s /\ s_ppub s1 = s_ppub s /\
    s_hq s1 = s_hq s /\ s_cur s1 = s_cur s /\ s_next_id s1 = s_next_id s /\ s_settings s1 = s_settings s /\ s_st s1 = s_st s.
  Proof.
    intros Hinc. unfold Model.acquire_free_pid.
    destruct (first_gap (map fst (s_alloc s)) (s_next_pid s) 65535) as [c1|] eqn:E1.
    - intros H. inversion H; subst. split; [apply (first_gap_some _ _ _ _ Hinc E1)|]. cbn. repeat split.
    - destruct (first_gap (map fst (s_alloc s)) 1 (s_next_pid s - 1)) as [c2|] eqn:E2; [|discriminate].
      intros H. inversion H; subst. split; [apply (first_gap_some _ _ _ _ Hinc E2)|]. cbn. repeat split.
  Qed.

  (* what acquire_pid_for does: nothing, or binds a fresh packet id to the operation and its packet *)
  Lemma acquire_pid_for_spec s id s' : inc (keys (s_alloc s)) -> acquire_pid_for s id = Ok s' ->
    s' = s \/
    exists o c p', lookup id (s_ops s) = Some o /\ op_pid o = None /\ ~ In c (keys (s_alloc s)) /\
      with_pid c (op_packet o) = Ok p' /\
      s_ops s' = update id (fun o => o <| op_pid := Some c |> <| op_packet := p' |>) (s_ops s) /\
      s_alloc s' = insert c id (s_alloc s) /\ s_ppub s' = s_ppub s /\ s_hq s' = s_hq s /\ s_cur s' = s_cur s /\
      s_next_id s' = s_next_id s /\ s_settings s' = s_settings s /\ s_st s' = s_st s.
  Proof.
    intros Hinc. unfold Model.acquire_pid_for. destruct (lookup id (s_ops s)) as [o|] eqn:El; [|discriminate].
    destruct (op_pid o) eqn:Epo; [intros H; inversion H; left; reflexivity|].
    destruct (negb (needs_pid (op_packet o))); [intros H; inversion H; left; reflexivity|].
    destruct (acquire_free_pid s id) as [[s1 c]| |] eqn:Ea; cbn [obind]; try discriminate.
    destruct (acquire_free_pid_spec _ _ _ _ Hinc Ea) as (Hn & Ha & Ho & Hp & Hq & Hc & Hni & Hs & Hst).
    destruct (with_pid c (op_packet o)) as [p'| |] eqn:Ew; cbn [obind]; try discriminate.
    intros H. inversion H; subst. right. exists o, c, p'. cbn. rewrite Ho. repeat split; assumption.
  Qed.

  Lemma with_pid_qpub c p p' : with_pid c p = Ok p' -> qpub p' = qpub p /\ ppid p' = c.
  Proof. destruct p; cbn; intros H; inversion H; split; reflexivity. Qed.

  Lemma pid_acquire s id s' : inc (keys (s_alloc s)) -> acquire_pid_for s id = Ok s' -> pid_facts s -> pid_facts s'.
  Proof.
    intros Hinc Ha [P1 P2]. destruct (acquire_pid_for_spec _ _ _ Hinc Ha) as [->|(o & c & p' & Hl & Hpo & Hfresh & Hw & Ho & Hal & Hp & Hq & _)]; [constructor; assumption|].
    destruct (with_pid_qpub _ _ _ Hw) as [Hqp _].
    constructor.
    - intros k x p Hk Hx. rewrite Ho in Hk. rewrite Hal. destruct (N.eq_dec k id) as [->|Hne].
      + rewrite (lookup_update_eq _ _ _ _ Hl) in Hk. inversion Hk; subst. cbn in Hx. inversion Hx; subst. apply lookup_insert_eq.
      + rewrite (lookup_update_neq _ _ _ _ Hne) in Hk. pose proof (P1 _ _ _ Hk Hx) as Hlk.
        rewrite lookup_insert_neq; [exact Hlk|]. intros ->. apply Hfresh. eapply lookup_in_keys. exact Hlk.
    - intros k x Hin Hk Hqx. rewrite Ho in Hk. rewrite Hq in Hin. rewrite Hp. destruct (N.eq_dec k id) as [->|Hne].
      + rewrite (lookup_update_eq _ _ _ _ Hl) in Hk. inversion Hk; subst. cbn in Hqx. rewrite Hqp in Hqx.
        destruct (P2 _ _ Hin Hl Hqx) as (p & Hx & _). congruence.
      + rewrite (lookup_update_neq _ _ _ _ Hne) in Hk. eapply P2; eassumption.
  Qed.

  (* ---- fully written ---- *)
  Lemma flow_fully_written m s now s' : fully_written s now = Ok s' -> flow_m m s -> flow_m m s'.
  Proof.
    unfold Model.fully_written. destruct (s_cur s) as [id|] eqn:Ec; [|discriminate].
    destruct (lookup id (s_ops s)) as [o|] eqn:El; [|discriminate].
    match goal with |- context [update id ?f (s_ops ?s1)] => set (s1v := s1); set (fv := f) end.
    intros H [F1 F2 F3 F4 F5 F6].
    assert (H1 : s_ops s1v = s_ops s /\ s_alloc s1v = s_alloc s /\ s_hq s1v = s_hq s /\ s_next_id s1v = s_next_id s /\
                 s_settings s1v = s_settings s /\
                 (s_ppub s1v = s_ppub s \/ exists pb, op_packet o = Publish pb /\ (pub_qos pb =? 0) = false /\
                                                  s_ppub s1v = insert (pub_pid pb) id (s_ppub s))).
    { unfold s1v. destruct (op_packet o) eqn:Ep; try (cbn; repeat split; auto; fail).
      destruct (pub_qos p =? 0) eqn:Eq; cbn; repeat split; auto. right. exists p. auto. }
    destruct H1 as (Ho & Ha & Hq & Hn & Hs & Hp).
    assert (Hfin : s_ops s' = update id fv (s_ops s) /\ s_alloc s' = s_alloc s /\ s_hq s' = s_hq s /\ s_ppub s' = s_ppub s1v /\
                   s_next_id s' = s_next_id s /\ s_settings s' = s_settings s /\ s_cur s' = None).
    { revert H. repeat dm; cbn [obind]; intros H; inversion H; subst; cbn; rewrite ?Ho, ?Ha, ?Hq, ?Hn, ?Hs; repeat split; reflexivity. }
    destruct Hfin as (Ho' & Ha' & Hq' & Hp' & Hn' & Hs' & Hc').
    assert (Hrel : forall k x, lookup k (s_ops s') = Some x -> exists x0, lookup k (s_ops s) = Some x0 /\ op_packet x = op_packet x0).
    { intros k x Hl. rewrite Ho' in Hl. destruct (lookup_update_rel _ _ _ _ _ Hl) as (x0 & Hl0 & [->| ->]); exists x0; auto. }
    constructor.
    - unfold ids_ok in *. cbn [fst snd] in *. rewrite Ho', Hn', keys_update. exact F1.
    - rewrite Hp'. destruct Hp as [->|(pb & _ & _ & ->)]; [exact F2|apply inc_insert; exact F2].
    - rewrite Ha'. exact F3.
    - intros k Hk. rewrite Hc' in Hk. discriminate.
    - intros Hm. destruct (F5 Hm) as (st & Hst & Hle). exists st. rewrite Hs'. split; [exact Hst|].
      assert (Hx : extra s' = 0) by (unfold FlowInv.extra; rewrite Hc'; reflexivity). rewrite Hx, Hp'.
      destruct Hp as [->|(pb & Epk & Eq & ->)]; [slia|].
      unfold FlowInv.extra in Hle. rewrite Ec, El, Epk in Hle. cbn [qpub ppid] in Hle. rewrite Eq in Hle. cbn [negb andb] in Hle.
      destruct (haskey (pub_pid pb) (s_ppub s)) eqn:Ek; cbn [negb] in Hle.
      + rewrite (len_insert_present _ _ _ F2 Ek). slia.
      + pose proof (len_insert_le (pub_pid pb) id (s_ppub s)). slia.
    - intros Hoff k [Hk|Hk]; [rewrite Hc' in Hk; discriminate|]. rewrite Hq' in Hk.
      destruct (F6 Hoff k (or_intror Hk)) as [Hlt Hcl]. rewrite Hn'. split; [exact Hlt|].
      intros x Hl. destruct (Hrel _ _ Hl) as (x0 & Hl0 & ->). apply Hcl. exact Hl0.
  Qed.

  Lemma fully_written_st s now s' : fully_written s now = Ok s' -> s_st s' = s_st s \/ s_st s' = PendingDisconnect.
  Proof.
    unfold Model.fully_written. destruct (s_cur s) as [id|]; [|discriminate]. destruct (lookup id (s_ops s)) as [o|]; [|discriminate].
    repeat dm; cbn [obind]; intros H; inversion H; subst; cbn; auto.
  Qed.


  (* ---- seating the next operation ---- *)
  Definition FP (m : pstate) (s : state) : Prop := flow_m m s /\ pid_facts s.

  Lemma FP_eq m (s s' : state) :
    s_ops s' = s_ops s -> s_next_id s' = s_next_id s -> s_ppub s' = s_ppub s -> s_alloc s' = s_alloc s ->
    s_cur s' = s_cur s -> s_hq s' = s_hq s -> s_settings s' = s_settings s -> FP m s -> FP m s'.
  Proof. intros Ho Hn Hp Ha Hc Hq Hs [H1 H2]. split; [eapply flow_eq; eassumption|eapply pid_eq; eassumption]. Qed.

  Lemma FP_clear_cur m (s s' : state) :
    s_ops s' = s_ops s -> s_next_id s' = s_next_id s -> s_ppub s' = s_ppub s -> s_alloc s' = s_alloc s ->
    s_cur s' = None -> (forall id, In id (s_hq s') -> In id (s_hq s)) -> s_settings s' = s_settings s -> FP m s -> FP m s'.
  Proof. intros Ho Hn Hp Ha Hc Hq Hs [H1 H2]. split; [eapply flow_clear_cur; eassumption|eapply pid_same; eassumption]. Qed.

  Lemma FP_fail_op m s id e : FP m s -> FP m (r_s (fail_op s id e)).
  Proof. intros [H1 H2]. split; [apply flow_fail_op; exact H1|apply pid_fail_op; exact H2]. Qed.

  (* the budget that allows [id] to become the current operation *)
  Definition budget (m : pstate) (s : state) (o : op) : Prop :=
    qpub (op_packet o) = false \/
    (m = Connected -> exists st, s_settings s = Some st /\ len (s_ppub s) + 1 <= st_receive_maximum_from_server st) \/
    (op_pid o <> None /\ haskey (ppid (op_packet o)) (s_ppub s) = true).

  Lemma seat_budget m s mode s1 id o :
    FP m s -> s_cur s = None -> (mode = true -> ~ offline m) -> dequeue s mode = (s1, Some id) ->
    lookup id (s_ops s) = Some o ->
    budget m s o /\ (offline m -> In id (s_hq s)) /\
    s_ops s1 = s_ops s /\ s_next_id s1 = s_next_id s /\ s_ppub s1 = s_ppub s /\ s_alloc s1 = s_alloc s /\
    s_cur s1 = None /\ (forall k, In k (s_hq s1) -> In k (s_hq s)) /\ s_settings s1 = s_settings s.
  Proof.
    intros [Hf Hp] Hc Hmode Hd Hl.
    destruct (dequeue_shape enc dec ores ires cfg s mode s1 id Hd) as [_ [(r & Hr & ->)|(-> & Hq & _ & Hpass & Hcase)]].
    - (* from the high-priority queue *)
      assert (Hin : In id (s_hq s)) by (rewrite Hr; left; reflexivity).
      split; [|split; [intros _; exact Hin|cbn; rewrite Hr; repeat split; auto; intros k Hk; right; exact Hk]].
      destruct (qpub (op_packet o)) eqn:Eq; [|left; exact Eq]. right. right.
      destruct (pf_hq enc dec ores ires s Hp id o Hin Hl Eq) as (p & Hpo & Hpp & Hk). rewrite Hpp. split; [congruence|exact Hk].
    - (* from the resubmit / user queue: the receive-maximum gate *)
      specialize (Hmode eq_refl).
      split; [|split; [intros Hoff; contradiction|]].
      + destruct (qpub (op_packet o)) eqn:Eq; [|left; exact Eq]. right. left. intros Hm.
        destruct (fl_count enc dec ores ires m s Hf Hm) as (st & Hst & Hle). exists st. split; [exact Hst|].
        unfold Model.passes_receive_max in Hpass. rewrite Hst, Hl in Hpass.
        destruct (st_receive_maximum_from_server st <=? len (s_ppub s)) eqn:E; [|slia].
        unfold qpub in Eq. destruct (op_packet o); try discriminate. rewrite Hpass in Eq. discriminate.
      + destruct Hcase as [(r & Hr & ->)|(_ & r & Hr & ->)]; cbn; repeat split; auto.
  Qed.


  Lemma flow_seated m (s s2 : state) id o :
    flow_m m s -> s_cur s = None ->
    s_ops s2 = s_ops s -> s_next_id s2 = s_next_id s -> s_ppub s2 = s_ppub s -> s_alloc s2 = s_alloc s ->
    s_settings s2 = s_settings s -> (forall k, In k (s_hq s2) -> In k (s_hq s)) -> s_cur s2 = Some id ->
    lookup id (s_ops s) = Some o -> budget m s o -> (offline m -> In id (s_hq s)) -> flow_m m s2.
  Proof.
    intros [F1 F2 F3 F4 F5 F6] Hc Ho Hn Hp Ha Hs Hq Hc2 Hl Hb Hoffin.
    assert (Hlt : id < s_next_id s) by (pose proof (ids_ok_lt _ _ _ F1 Hl) as H; exact H).
    constructor; rewrite ?Ho, ?Hn, ?Hp, ?Ha, ?Hs; try assumption.
    - intros k Hk. rewrite Hc2 in Hk. inversion Hk; subst. exact Hlt.
    - intros Hm. destruct (F5 Hm) as (st & Hst & Hle). exists st. split; [exact Hst|].
      unfold FlowInv.extra in *. rewrite Hc in Hle. rewrite Hc2, Ho, Hl, Hp.
      destruct Hb as [Hb|[Hb|[_ Hb]]].
      + rewrite Hb. cbn [andb]. slia.
      + destruct (Hb Hm) as (st' & Hst' & Hle'). assert (st' = st) by congruence. subst. repeat dm; slia.
      + rewrite Hb. rewrite andb_false_r. slia.
    - intros Hoff k [Hk|Hk].
      + rewrite Hc2 in Hk. inversion Hk; subst. apply (F6 Hoff). right. apply Hoffin. exact Hoff.
      + apply (F6 Hoff). right. apply Hq. exact Hk.
  Qed.

  Lemma flow_acquired m (s2 s3 : state) id o :
    flow_m m s2 -> s_cur s2 = Some id -> lookup id (s_ops s2) = Some o -> budget m s2 o ->
    acquire_pid_for s2 id = Ok s3 -> flow_m m s3.
  Proof.
    intros Hf Hc Hl Hb Ha. pose proof Hf as [F1 F2 F3 F4 F5 F6].
    destruct (acquire_pid_for_spec s2 id s3 F3 Ha) as [->|(o' & c & p' & Hl' & Hpo & Hfresh & Hw & Ho & Hal & Hp & Hq & Hc3 & Hn & Hs & _)]; [exact Hf|].
    assert (o' = o) by congruence. subst o'. destruct (with_pid_qpub _ _ _ Hw) as [Hqp Hpp].
    assert (Hrel : forall k x, lookup k (s_ops s3) = Some x -> exists x0, lookup k (s_ops s2) = Some x0 /\ qpub (op_packet x) = qpub (op_packet x0)).
    { intros k x Hk. rewrite Ho in Hk. destruct (lookup_update_rel _ _ _ _ _ Hk) as (x0 & Hk0 & [->| ->]); [exists x0; auto|].
      destruct (N.eq_dec k id) as [->|Hne]; [|rewrite (lookup_update_neq _ _ _ _ Hne) in Hk; exists x0; split; [exact Hk0|congruence]].
      exists o. split; [exact Hl|]. replace x0 with o by congruence. cbn. exact Hqp. }
    constructor.
    - unfold ids_ok in *. cbn [fst snd] in *. rewrite Ho, Hn, keys_update. exact F1.
    - rewrite Hp. exact F2.
    - rewrite Hal. apply inc_insert. exact F3.
    - intros k. rewrite Hc3, Hn. apply F4.
    - intros Hm. destruct (F5 Hm) as (st & Hst & Hle). exists st. rewrite Hs, Hp. split; [exact Hst|].
      unfold FlowInv.extra. rewrite Hc3, Hc, Ho, (lookup_update_eq _ _ _ _ Hl). cbn. rewrite Hqp.
      destruct Hb as [Hb|[Hb|[Hb _]]].
      + rewrite Hb. cbn [andb]. unfold FlowInv.extra in Hle. rewrite Hc, Hl, Hb in Hle. cbn [andb] in Hle. exact Hle.
      + destruct (Hb Hm) as (st' & Hst' & Hle'). assert (st' = st) by congruence. subst. repeat dm; slia.
      + congruence.
    - intros Hoff k Hk. rewrite Hc3, Hq in Hk. destruct (F6 Hoff k Hk) as [Hlt Hcl]. rewrite Hn. split; [exact Hlt|].
      intros x Hx. destruct (Hrel _ _ Hx) as (x0 & Hx0 & ->). apply Hcl. exact Hx0.
  Qed.

  Lemma seat_current_FP m s mode acc dn :
    FP m s -> (mode = true -> ~ offline m) ->
    match seat_current s mode acc dn with
    | Model.SeatStop _ _ _ _ r => FP m (sr_s r)
    | Model.SeatContinue _ _ _ _ s5 _ => FP m s5
    | Model.SeatEncode _ _ _ _ s5 => FP m s5
    end.
  Proof.
    intros Hfp Hmode. unfold Model.seat_current. destruct (s_cur s) eqn:Ec; [exact Hfp|].
    destruct (dequeue s mode) as [s1 next] eqn:Ed. destruct next as [id|].
    2: { rewrite (dequeue_none _ _ _ _ _ _ _ _ Ed). exact Hfp. }
    set (s2 := s1 <| s_cur := Some id |>).
    destruct (lookup id (s_ops s)) as [o|] eqn:El.
    2: { (* the operation no longer exists *)
         assert (Hcore : s_ops s1 = s_ops s /\ s_next_id s1 = s_next_id s /\ s_ppub s1 = s_ppub s /\ s_alloc s1 = s_alloc s /\
                         (forall k, In k (s_hq s1) -> In k (s_hq s)) /\ s_settings s1 = s_settings s).
         { destruct (dequeue_shape enc dec ores ires cfg s mode s1 id Ed) as [_ [(r & Hr & ->)|(_ & _ & _ & _ & [(r & Hr & ->)|(_ & r & Hr & ->)])]];
             cbn; rewrite ?Hr; repeat split; auto. intros k Hk. right. exact Hk. }
         destruct Hcore as (A & B & C & D & E & F).
         unfold Model.op_exists. cbn. rewrite A, El. cbn. eapply FP_clear_cur; [..|exact Hfp]; cbn; auto. }
    destruct (seat_budget m s mode s1 id o Hfp Ec Hmode Ed El) as (Hb & Hoffin & A & B & C & D & E & F & G).
    destruct Hfp as [Hf Hp].
    assert (Hf2 : flow_m m s2) by (eapply flow_seated with (s := s) (id := id) (o := o); cbn; eauto).
    assert (Hp2 : pid_facts s2) by (eapply pid_same; [..|exact Hp]; cbn; auto).
    assert (Hl2 : lookup id (s_ops s2) = Some o) by (cbn; rewrite A; exact El).
    assert (Hb2 : budget m s2 o) by (unfold budget in *; cbn; rewrite C, G; exact Hb).
    unfold Model.op_exists. fold s2. rewrite Hl2. cbn [negb].
    destruct (acquire_pid_for s2 id) as [s3| |] eqn:Ea; [|split; assumption..].
    assert (Hf3 : flow_m m s3) by (eapply flow_acquired; [exact Hf2|reflexivity|exact Hl2|exact Hb2|exact Ea]).
    assert (Hp3 : pid_facts s3) by (eapply pid_acquire; [apply Hf2|exact Ea|exact Hp2]).
    destruct (lookup id (s_ops s3)) as [o3|] eqn:El3; [|split; assumption].
    match goal with |- context [match ?res with Ok _ => _ | Err _ => _ | Panic _ => _ end] =>
      assert (Hres : forall s4 r, res = Ok (s4, r) -> FP m s4); [|destruct res as [[s4 r]| |] eqn:Eres] end.
    { intros s4 r. unfold obind. repeat dm; intros H; inversion H; subst; try (split; assumption).
      eapply FP_eq; [..|split; [exact Hf3|exact Hp3]]; reflexivity. }
    2,3: split; assumption.
    specialize (Hres s4 r eq_refl).
    match goal with |- context [v_out ?a ?b ?c ?d] => destruct (v_out a b c d) as [[]|k|site] end.
    - destruct (enc_reset _ _ _); [|exact Hres..]. eapply FP_eq; [..|exact Hres]; reflexivity.
    - match goal with |- context [fail_op ?sx id k] => set (sx' := sx) end.
      assert (Hx : FP m sx').
      { unfold sx'. destruct (r_alias r); (eapply FP_clear_cur; [..|exact Hres]; cbn; auto). }
      pose proof (FP_fail_op m sx' id k Hx) as Hfo. destruct (r_out (fail_op sx' id k)); exact Hfo.
    - exact Hres.
  Qed.


  (* ---- the service loop ---- *)
  Lemma FP_fully_written m s now s' : fully_written s now = Ok s' -> FP m s -> FP m s'.
  Proof. intros H [H1 H2]. split; [eapply flow_fully_written; eassumption|eapply pid_fully_written; eassumption]. Qed.

  Lemma service_loop_FP fuel : forall s mode now cap fill acc dn m,
    FP m s -> (mode = true -> ~ offline m) -> FP m (sr_s (service_loop fuel s mode now cap fill acc dn)).
  Proof.
    induction fuel as [|f IH]; intros s mode now cap fill acc dn m Hfp Hmode; cbn [Model.service_loop]; [exact Hfp|].
    dm; [exact Hfp|].
    pose proof (seat_current_FP m s mode acc dn Hfp Hmode) as Hs.
    destruct (seat_current s mode acc dn) as [r|s5 dn'|s5]; [exact Hs|apply IH; assumption|].
    destruct (s_cur s5); [|exact Hs]. dm; [exact Hs|]. destruct (s_enc s5) as [e|]; [|exact Hs].
    destruct (enc_call e (fill + len acc) cap) as [[out e']| |]; [|exact Hs..].
    assert (H6 : FP m (s5 <| s_enc := Some e' |>)) by (eapply FP_eq; [..|exact Hs]; reflexivity).
    destruct (enc_done e'); [|exact H6].
    destruct (fully_written (s5 <| s_enc := Some e' |>) now) as [s7| |] eqn:Ef; [|exact H6..].
    apply IH; [eapply FP_fully_written; eassumption|exact Hmode].
  Qed.

  Lemma service_queue_FP m s mode now cap fill :
    FP m s -> (mode = true -> ~ offline m) -> FP m (sr_s (service_queue s mode now cap fill)).
  Proof.
    intros Hfp Hmode. unfold Model.service_queue.
    match goal with |- context [service_loop ?f s mode now cap fill [] []] =>
      pose proof (service_loop_FP f s mode now cap fill [] [] m Hfp Hmode) as H; destruct (sr_bytes (service_loop f s mode now cap fill [] [])) end.
    - exact H.
    - cbn [sr_s]. eapply FP_eq; [..|exact H]; reflexivity.
  Qed.

  (* ---- protocol state along the way: unchanged, Halted or PendingDisconnect ---- *)
  Definition st_ok (m st' : pstate) : Prop := st' = m \/ st' = Halted \/ st' = PendingDisconnect.

  Lemma st_ok_refl m : st_ok m m.
  Proof. left. reflexivity. Qed.

  Lemma st_ok_trans m a b : st_ok m a -> st_ok a b -> st_ok m b.
  Proof. unfold st_ok. intros [->|[->| ->]] [->|[->| ->]]; auto. Qed.

  Lemma acquire_free_pid_st s id s1 c : acquire_free_pid s id = Ok (s1, c) -> s_st s1 = s_st s.
  Proof. unfold Model.acquire_free_pid. repeat dm; intros H; inversion H; subst; reflexivity. Qed.

  Lemma acquire_pid_for_st s id s' : acquire_pid_for s id = Ok s' -> s_st s' = s_st s.
  Proof.
    unfold Model.acquire_pid_for. destruct (lookup id (s_ops s)); [|discriminate]. destruct (op_pid _); [intros H; inversion H; reflexivity|].
    dm; [intros H; inversion H; reflexivity|].
    destruct (acquire_free_pid s id) as [[s1 c]| |] eqn:Ea; cbn [obind]; try discriminate.
    destruct (with_pid c _); cbn [obind]; try discriminate. intros H; inversion H; subst. cbn. eapply acquire_free_pid_st. exact Ea.
  Qed.

  Lemma dequeue_st s mode : s_st (fst (dequeue s mode)) = s_st s.
  Proof. unfold Model.dequeue. repeat dm; reflexivity. Qed.

  Lemma seat_current_st s mode acc dn :
    match seat_current s mode acc dn with
    | Model.SeatStop _ _ _ _ r => st_ok (s_st s) (s_st (sr_s r))
    | Model.SeatContinue _ _ _ _ s5 _ => st_ok (s_st s) (s_st s5)
    | Model.SeatEncode _ _ _ _ s5 => st_ok (s_st s) (s_st s5)
    end.
  Proof.
    unfold Model.seat_current. destruct (s_cur s); [apply st_ok_refl|].
    pose proof (dequeue_st s mode) as Hd. destruct (dequeue s mode) as [s1 next]. cbn [fst] in Hd.
    destruct next as [id|]; [|simpl; left; exact Hd]. destruct (negb (op_exists (s1 <| s_cur := Some id |>) id)); [simpl; left; exact Hd|].
    destruct (acquire_pid_for (s1 <| s_cur := Some id |>) id) as [s3| |] eqn:Ea; [|simpl; left; exact Hd..].
    pose proof (acquire_pid_for_st _ _ _ Ea) as H3. cbn in H3.
    destruct (lookup id (s_ops s3)) as [o|]; [|simpl; left; congruence].
    match goal with |- context [match ?res with Ok _ => _ | Err _ => _ | Panic _ => _ end] =>
      assert (Hres : forall s4 r, res = Ok (s4, r) -> s_st s4 = s_st s3); [|destruct res as [[s4 r]| |] eqn:Eres] end.
    { intros s4 r. unfold obind. repeat dm; intros H; inversion H; subst; reflexivity. }
    2,3: simpl; left; congruence.
    specialize (Hres s4 r eq_refl).
    match goal with |- context [v_out ?a ?b ?c ?d] => destruct (v_out a b c d) as [[]|k|site] end.
    - destruct (enc_reset _ _ _); simpl; left; congruence.
    - match goal with |- context [fail_op ?sx id k] => set (sx' := sx) end.
      assert (Hx : s_st sx' = s_st s) by (unfold sx'; destruct (r_alias r); cbn; congruence).
      assert (Hf : st_ok (s_st s) (s_st (r_s (fail_op sx' id k)))).
      { destruct (fail_op_st enc dec ores ires cfg sx' id k) as [E|E]; [left; congruence|right; left; exact E]. }
      destruct (r_out (fail_op sx' id k)); exact Hf.
    - simpl. left. congruence.
  Qed.

  Lemma service_loop_st fuel : forall s mode now cap fill acc dn,
    st_ok (s_st s) (s_st (sr_s (service_loop fuel s mode now cap fill acc dn))).
  Proof.
    induction fuel as [|f IH]; intros s mode now cap fill acc dn; cbn [Model.service_loop]; [apply st_ok_refl|].
    dm; [apply st_ok_refl|].
    pose proof (seat_current_st s mode acc dn) as Hs.
    destruct (seat_current s mode acc dn) as [r|s5 dn'|s5]; [exact Hs|eapply st_ok_trans; [exact Hs|apply IH]|].
    destruct (s_cur s5); [|exact Hs]. dm; [exact Hs|]. destruct (s_enc s5) as [e|]; [|exact Hs].
    destruct (enc_call e (fill + len acc) cap) as [[out e']| |]; [|exact Hs..].
    destruct (enc_done e'); [|exact Hs].
    destruct (fully_written (s5 <| s_enc := Some e' |>) now) as [s7| |] eqn:Ef; [|exact Hs..].
    eapply st_ok_trans; [exact Hs|]. eapply st_ok_trans; [|apply IH].
    destruct (fully_written_st _ _ _ Ef) as [E|E]; [left; exact E|right; right; exact E].
  Qed.

  Lemma service_queue_st s mode now cap fill : st_ok (s_st s) (s_st (sr_s (service_queue s mode now cap fill))).
  Proof.
    unfold Model.service_queue.
    match goal with |- context [service_loop ?f s mode now cap fill [] []] =>
      pose proof (service_loop_st f s mode now cap fill [] []) as H; destruct (sr_bytes (service_loop f s mode now cap fill [] [])) end; exact H.
  Qed.

  Lemma flow_of_st_ok m (s' : state) : flow_m m s' -> st_ok m (s_st s') -> flow_inv s'.
  Proof.
    unfold FlowInv.flow_inv. intros H [->|[->| ->]]; [exact H|eapply flow_halted; exact H|eapply flow_pdisc; exact H].
  Qed.

  (* ---- keep-alive: a PINGREQ is created and queued first ---- *)
  Lemma service_keep_alive_FP m s now s1 : service_keep_alive s now = Ok s1 -> FP m s -> FP m s1 /\ s_st s1 = s_st s.
  Proof.
    unfold Model.service_keep_alive. intros H Hfp.
    destruct (s_ping_to s); [revert H; dm; intros H; inversion H; subst; auto|].
    destruct (s_next_ping s) as [np|]; [|inversion H; subst; auto]. destruct (np <=? now); [|inversion H; subst; auto].
    unfold Model.create_operation in H. cbn in H. destruct (s_settings s) eqn:Es; [|discriminate].
    destruct (add_time 1493 now _); cbn [obind] in H; [|discriminate..].
    destruct Hfp as [Hf Hp].
    assert (Hgen : forall s', s_ops s' = s_ops s ++ [(s_next_id s, new_op Pingreq false None)] -> s_next_id s' = s_next_id s + 1 ->
               s_ppub s' = s_ppub s -> s_alloc s' = s_alloc s -> s_settings s' = s_settings s -> s_cur s' = s_cur s ->
               s_hq s' = s_next_id s :: s_hq s -> FP m s').
    { intros s' A B C D E F G. split.
      - eapply flow_create with (m := m) (o := new_op Pingreq false None); [..|exact Hf]; auto.
        intros id Hid. rewrite G in Hid. destruct Hid as [<-|Hid]; [right; auto|left; exact Hid].
      - eapply pid_create with (o := new_op Pingreq false None); [apply Hf| | | | | | |exact Hp]; auto.
        intros id Hid. rewrite G in Hid. destruct Hid as [<-|Hid]; [right; reflexivity|left; exact Hid]. }
    revert H. dm; intros H; inversion H; subst; (split; [apply Hgen; cbn; auto|reflexivity]).
  Qed.

  (* ---- service ---- *)
  Theorem flow_service s now cap fill : flow_inv s -> pid_facts s -> flow_inv (sr_s (service s now cap fill)).
  Proof.
    unfold FlowInv.flow_inv. intros Hf Hp. unfold Model.service. cbn [sr_s].
    assert (Hhalt : forall (x : state) (out : outcome unit) m, flow_m m x -> st_ok m (s_st x) -> flow_inv (halt_on_error x out)).
    { intros x out m Hx Hst. destruct out; cbn [Model.halt_on_error]; [eapply flow_of_st_ok; eassumption| |];
        (apply (flow_set_halted enc dec ores ires m); exact Hx). }
    destruct (s_st s) eqn:Est.
    - (* Disconnected *) cbn. unfold FlowInv.flow_inv. rewrite Est. exact Hf.
    - (* PendingConnack *)
      destruct (s_connack_to s); [|cbn; apply (flow_set_halted enc dec ores ires PendingConnack); exact Hf].
      dm; [cbn; apply (flow_set_halted enc dec ores ires PendingConnack); exact Hf|].
      apply (Hhalt _ _ PendingConnack).
      + apply (service_queue_FP PendingConnack s false now cap fill); [split; assumption|discriminate].
      + rewrite <- Est. apply service_queue_st.
    - (* Connected *)
      destruct (service_keep_alive s now) as [s1| |] eqn:Ek; [|cbn; apply (flow_set_halted enc dec ores ires Connected); exact Hf..].
      destruct (service_keep_alive_FP Connected s now s1 Ek (conj Hf Hp)) as [Hfp1 Hst1].
      assert (Hmode : true = true -> ~ offline Connected) by (intros _ [E|E]; discriminate).
      pose proof (service_queue_FP Connected s1 true now cap fill Hfp1 Hmode) as [Hfq _].
      pose proof (service_queue_st s1 true now cap fill) as Hstq. rewrite Hst1, Est in Hstq.
      destruct (sr_out (service_queue s1 true now cap fill)).
      + cbn [sr_s sr_out]. apply (Hhalt _ _ Connected).
        * apply flow_fail_all. eapply flow_eq; [..|exact Hfq]; reflexivity.
        * unfold Model.process_ack_timeouts.
          match goal with |- context [fail_all ?sx ?ids ?e] => destruct (fail_all_st enc dec ores ires cfg ids sx e) as [E|E] end.
          -- rewrite E. cbn. exact Hstq.
          -- rewrite E. right. left. reflexivity.
      + apply (Hhalt _ _ Connected); assumption.
      + apply (Hhalt _ _ Connected); assumption.
    - (* PendingDisconnect *)
      cbn [sr_s sr_out]. apply (Hhalt _ _ PendingDisconnect).
      + apply flow_fail_all. eapply flow_eq; [..|exact Hf]; reflexivity.
      + unfold Model.process_ack_timeouts.
        match goal with |- context [fail_all ?sx ?ids ?e] => destruct (fail_all_st enc dec ores ires cfg ids sx e) as [E|E] end.
        * rewrite E. cbn. left. exact Est.
        * rewrite E. right. left. reflexivity.
    - (* Halted *) cbn. apply (flow_set_halted enc dec ores ires Halted). exact Hf.
  Qed.

End Engine.
