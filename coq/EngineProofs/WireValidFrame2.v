(* C02 at run level: preservation of the invariant GI (WireValidFrame.v) by the inbound path (CONNACK and session
   handling, the packet handlers that build PUBACK / PUBREC / PUBCOMP / the PUBREL slot from inbound packet
   identifiers, the packet loop, incoming data), by the connection close (the one place that needs the engine's
   well-formedness invariant: the DUP flag is set on QoS >= 1 publishes only) and by reset. *)
From GM Require Import Base.Prelude Base.Outcome Codec.Packets Codec.Prim Codec.Settings Codec.ValidC2S.
From GM Require Import ValidateProofs.BridgeDefs ValidateProofs.BridgeConnect.
From GM Require Import Engine.Model EngineProofs.AssocLemmas EngineProofs.WFLemmas EngineProofs.Frames EngineProofs.HandshakeRunTrace
  EngineProofs.HandshakeRunSt EngineProofs.HandshakeRunFrame EngineProofs.WFDefs EngineProofs.WFClose2 EngineProofs.DeliveryBase EngineProofs.DeliveryClose
  EngineProofs.WireValidDefs EngineProofs.WireValidFrame.
From RecordUpdate Require Import RecordSet.
Import RecordSetNotations.
Open Scope N_scope.

(* the four component types are implicit in the engine functions, locally to this file *)
#[local] Arguments init {enc dec} _ {ores ires} _ _.
#[local] Arguments release {enc dec ores ires} _ _ _ _.
#[local] Arguments disconnect_completion {enc dec ores ires} _ _.
#[local] Arguments fail_op {enc dec ores ires} _ _ _ _.
#[local] Arguments ping_extension {enc dec ores ires} _ _.
#[local] Arguments succeed_op {enc dec ores ires} _ _ _ _.
#[local] Arguments fail_all {enc dec ores ires} _ _ _ _.
#[local] Arguments succeed_all {enc dec ores ires} _ _ _.
#[local] Arguments andthen {enc dec ores ires} _ _.
#[local] Arguments try_ {enc dec ores ires} _ _.
#[local] Arguments pure {enc dec ores ires} _.
#[local] Arguments create_operation {enc dec ores ires} _ _.
#[local] Arguments passes_now {enc dec ores ires} _ _ _.
#[local] Arguments user_event {enc dec ores ires} _ _ _ _.
#[local] Arguments create_connect {enc dec ores ires} _ _.
#[local] Arguments net_opened {enc dec} _ {ores ires} _ _ _.
#[local] Arguments op_exists {enc dec ores ires} _ _.
#[local] Arguments op_passes {enc dec ores ires} _ _ _.
#[local] Arguments partition_policy {enc dec ores ires} _ _ _.
#[local] Arguments closed_current {enc dec ores ires} _ _.
#[local] Arguments slow_start_init {enc dec ores ires} _ _.
#[local] Arguments update_retries {enc dec ores ires} _ _.
#[local] Arguments fail_exceeding {enc dec ores ires} _ _.
#[local] Arguments has_pubrel {enc dec ores ires} _ _.
#[local] Arguments net_closed_raw {enc dec ores ires} _ _.
#[local] Arguments net_closed {enc dec ores ires} _ _.
#[local] Arguments net_write_completion {enc dec ores ires} _ _.
#[local] Arguments acquire_free_pid {enc dec ores ires} _ _.
#[local] Arguments acquire_pid_for {enc dec ores ires} _ _.
#[local] Arguments unbind {enc dec ores ires} _ _.
#[local] Arguments passes_receive_max {enc dec ores ires} _ _.
#[local] Arguments throttled {enc dec ores ires} _ _.
#[local] Arguments has_pending_ack {enc dec ores ires} _.
#[local] Arguments dequeue {enc dec ores ires} _ _ _.
#[local] Arguments fully_written {enc dec ores ires} _ _.
#[local] Arguments service_keep_alive {enc dec ores ires} _ _ _.
#[local] Arguments process_ack_timeouts {enc dec ores ires} _ _ _.
#[local] Arguments halt_on_error {enc dec ores ires} _ _.
#[local] Arguments next_service_time {enc dec ores ires} _ _ _.
#[local] Arguments build_settings {enc dec ores ires} _ _ _.
#[local] Arguments apply_session {enc dec ores ires} _ _ _.
#[local] Arguments hres_of {enc dec ores ires} _ _.
#[local] Arguments pre_connack {enc dec ores ires} _.
#[local] Arguments sum_ss {enc dec ores ires} _.
#[local] Arguments handle_pingresp {enc dec ores ires} _.
#[local] Arguments handle_suback {enc dec ores ires} _ _ _.
#[local] Arguments handle_unsuback {enc dec ores ires} _ _ _.
#[local] Arguments publish_qos_of {enc dec ores ires} _ _.
#[local] Arguments handle_puback {enc dec ores ires} _ _ _.
#[local] Arguments handle_pubrec {enc dec ores ires} _ _ _.
#[local] Arguments handle_pubrel {enc dec ores ires} _ _.
#[local] Arguments handle_pubcomp {enc dec ores ires} _ _ _.
#[local] Arguments handle_publish {enc dec ores ires} _ _.
#[local] Arguments handle_disconnect {enc dec ores ires} _ _ _.
#[local] Arguments is_connect_op {enc dec ores ires} _ _.
#[local] Arguments connect_in_queue {enc dec ores ires} _.
#[local] Arguments reset {enc dec ores ires} _ _.
#[local] Arguments out_of_res {enc dec ores ires} _ _.
#[local] Arguments nst_queue {enc dec ores ires} _ _ _ _.
#[local] Arguments earliest_tmo {enc dec ores ires} _.
#[local] Arguments SeatStop {enc dec ores ires} _.
#[local] Arguments SeatContinue {enc dec ores ires} _ _.
#[local] Arguments SeatEncode {enc dec ores ires} _.

Lemma with_dup_true_gpk v p : pubq p = true -> gpk v p -> gpk v (with_dup true p).
Proof.
  destruct p as [| |pb| | | | | | | | | | | |]; try discriminate. cbn [pubq]. intros Hq [G1 G2]. cbn [with_dup gpk erase engine_ok pub_pid pub_qos pub_dup] in *.
  split; [exact G1|]. apply andb_true_iff in G2 as [G2 _]. rewrite G2. apply negb_true_iff in Hq. rewrite Hq. reflexivity.
Qed.

Lemma str_valid_nil : str_valid [] = true.
Proof. reflexivity. Qed.

Lemma cfg_cid_valid v co i : connect_cfg_ok v co -> co_client_id co = Some i -> str_valid i = true.
Proof.
  intros H E. specialize (H false (Some i)). unfold cid_for in H. rewrite E in H. specialize (H eq_refl).
  unfold valid_connect in H. repeat (apply andb_true_iff in H as [H ?]).
  match goal with A : opt_ok str_valid (con_client_id _) = true |- _ => exact A end.
Qed.

Section WVFrame2.
  Variable enc : Type.
  Variable enc_reset : version -> packet -> resolution -> outcome enc.
  Variable enc_call : enc -> N -> N -> outcome (bytes * enc).
  Variable enc_done : enc -> bool.
  Variable dec : Type.
  Variable dec_init : dec.
  Variable dec_feed : version -> N -> dec -> bytes -> dec * list packet * outcome unit.
  Variable ores : Type.
  Variable ores_reset : ores -> N -> ores.
  Variable ores_resolve : ores -> option N -> bytes -> outcome (ores * resolution).
  Variable ires : Type.
  Variable ires_reset : ires -> ires.
  Variable ires_resolve : ires -> option N -> bytes -> outcome (ires * bytes).
  Variable v_out : option settings -> connect_opts -> resolution -> packet -> outcome unit.
  Variable v_in : option settings -> packet -> outcome unit.
  Variable cfg : config.

  Notation state := (state enc dec ores ires).
  Notation res := (res enc dec ores ires).
  Notation step := (step enc enc_reset enc_call enc_done dec dec_init dec_feed ores ores_reset ores_resolve
                         ires ires_reset ires_resolve v_out v_in cfg).
  Notation run := (run enc enc_reset enc_call enc_done dec dec_init dec_feed ores ores_reset ores_resolve
                       ires ires_reset ires_resolve v_out v_in cfg).
  Notation seat_current := (seat_current enc enc_reset dec ores ores_reset ores_resolve ires v_out cfg).
  Notation service_loop := (service_loop enc enc_reset enc_call enc_done dec ores ores_reset ores_resolve ires v_out cfg).
  Notation service_queue := (service_queue enc enc_reset enc_call enc_done dec ores ores_reset ores_resolve ires v_out cfg).
  Notation service := (service enc enc_reset enc_call enc_done dec ores ores_reset ores_resolve ires v_out cfg).
  Notation handle_connack := (handle_connack enc dec ores ores_reset ires ires_reset v_in cfg).
  Notation handle_packet := (handle_packet enc dec ores ores_reset ires ires_reset v_in cfg).
  Notation handle_packets := (handle_packets enc dec ores ores_reset ires ires_reset ires_resolve v_in cfg).
  Notation net_data := (net_data enc dec dec_feed ores ores_reset ires ires_reset ires_resolve v_in cfg).
  Notation encode_next := (encode_next enc enc_call enc_done dec ores ires).
  Notation SUB := (SUB enc dec ores ires).
  Notation same_static := (same_static enc dec ores ires).
  Notation v := (cf_version cfg).
  Variable HW : wv_comps dec ores dec_init dec_feed ores_reset ores_resolve v_in v (cf_connect cfg).

  Notation GI := (GI enc dec dec_init dec_feed ores ores_reset ores_resolve ires v_in cfg HW).
  Notation FR := (FR enc dec dec_init dec_feed ores ores_reset ores_resolve ires v_in cfg HW).
  Notation SI := (SI enc dec ores ires cfg).
  Notation rest_of := (rest_of enc dec ores ires).
  Notation FR_refl := (FR_refl enc dec dec_init dec_feed ores ores_reset ores_resolve ires v_in cfg HW).
  Notation FR_trans := (FR_trans enc dec dec_init dec_feed ores ores_reset ores_resolve ires v_in cfg HW).
  Notation FR_same := (FR_same enc dec dec_init dec_feed ores ores_reset ores_resolve ires v_in cfg HW).
  Notation FR_ops := (FR_ops enc dec dec_init dec_feed ores ores_reset ores_resolve ires v_in cfg HW).
  Notation FR_update := (FR_update enc dec dec_init dec_feed ores ores_reset ores_resolve ires v_in cfg HW).
  Notation FR_fold_update := (FR_fold_update enc dec dec_init dec_feed ores ores_reset ores_resolve ires v_in cfg HW).
  Notation FR_new := (FR_new enc dec dec_init dec_feed ores ores_reset ores_resolve ires v_in cfg HW).
  Notation fail_all_FR := (fail_all_FR enc dec dec_init dec_feed ores ores_reset ores_resolve ires v_in cfg HW).
  Notation succeed_op_FR := (succeed_op_FR enc dec dec_init dec_feed ores ores_reset ores_resolve ires v_in cfg HW).
  Notation fail_op_FR := (fail_op_FR enc dec dec_init dec_feed ores ores_reset ores_resolve ires v_in cfg HW).

  Ltac kf_id := first [apply FR_refl | apply FR_same; reflexivity].

  (* ---- session handling at CONNACK ---- *)
  Lemma unbind_FR (s : state) id : FR s (unbind s id).
  Proof.
    unfold unbind. destruct (lookup id (s_ops s)) as [o|] eqn:Eo; [|kf_id].
    assert (Hk : forall o0 : op, goodop v o0 -> goodop v (o0 <| op_pubrel := None |>)) by (intros o0 [A _]; split; [exact A|apply gpr_none]).
    destruct (op_pid o) as [pid|]; [|eapply FR_update; [reflexivity|intros o0 _; apply Hk|reflexivity]].
    destruct (with_pid 0 (op_packet o)) as [p'| |] eqn:Ew; try (eapply FR_update; [reflexivity|intros o0 _; apply Hk|reflexivity]).
    eapply FR_trans; [|eapply FR_update; [reflexivity|intros o0 _; apply Hk|reflexivity]].
    eapply (FR_update s _ id); [reflexivity| |reflexivity].
    intros o0 Ho0 [A1 A2]. rewrite Eo in Ho0. inversion Ho0; subst o0. split; [|exact A2]. cbn. eapply with_pid_gpk; [|exact Ew|exact A1]. lia.
  Qed.

  Lemma fold_unbind_FR ids : forall s : state, FR s (fold_left unbind ids s).
  Proof.
    induction ids as [|a r IH]; intros s; cbn [fold_left]; [kf_id|].
    eapply FR_trans; [apply unbind_FR|apply IH].
  Qed.

  Lemma apply_session_FR (s : state) sp : FR s (r_s (apply_session cfg s sp)).
  Proof.
    unfold apply_session.
    set (r1 := if sp then _ else _).
    assert (H1 : FR s (r_s r1)).
    { unfold r1. destruct sp; [kf_id|].
      destruct (partition_policy cfg s (s_rq s)) as [kept rejected].
      match goal with |- context [fail_all cfg ?sx rejected ?e] => pose proof (fail_all_FR rejected sx e) as Hf;
        set (rf := fail_all cfg sx rejected e) in * end.
      assert (Hq : FR s (r_s rf)).
      { eapply FR_trans; [|exact Hf]. eapply FR_fold_update; [reflexivity| |reflexivity].
        intros o Ho. apply set_dup_goodop; [|exact Ho]. destruct (op_packet o); cbn; try exact I. discriminate. }
      destruct (is_panic (r_out rf)); [exact Hq|]. cbn [r_s]. eapply FR_trans; [exact Hq|kf_id]. }
    clearbody r1. destruct (is_panic (r_out r1)); [exact H1|].
    set (s2 := fold_left unbind (s_uq (r_s r1)) (r_s r1)).
    assert (H2 : FR s s2) by (eapply FR_trans; [exact H1|apply fold_unbind_FR]).
    set (s3 := s2 <| s_rq := sort (s_rq s2) |> <| s_uq := sort (s_uq s2) |>).
    assert (H3 : FR s s3) by (eapply FR_trans; [exact H2|kf_id]).
    cbv zeta.
    repeat match goal with |- context [if ?b then _ else _] => destruct b end; cbn [r_s]; exact H3.
  Qed.

  Lemma handle_connack_FR (s : state) now c : in_ok v (Connack c) -> FR s (h_s (handle_connack s now c)).
  Proof.
    intros [Htam Hid]. unfold Model.handle_connack. destruct (negb (pstate_eqb (s_st s) PendingConnack)); [kf_id|].
    destruct (negb (ca_rc c =? 0)); [kf_id|]. destruct (v_in None (Connack c)); [|kf_id|kf_id].
    cbv zeta.
    match goal with |- context [apply_session cfg ?sx ?sp] => pose proof (apply_session_FR sx sp) as Ha; set (sa := sx) in *; set (r := apply_session cfg sa sp) in * end.
    assert (H : FR s (r_s r)).
    { eapply FR_trans; [|exact Ha]. intros (G1 & G2 & G3 & G4 & G5).
      assert (Hm : match ca_tam c with Some m => m | None => 0 end <= Bv v) by (destruct (ca_tam c); [exact Htam|lia]).
      assert (Go : OGt v (s_ops sa)) by (unfold sa; destruct (cf_drain_one cfg); exact G1).
      assert (Gn : s_next_pid sa <= 65535) by (unfold sa; destruct (cf_drain_one cfg); exact G2).
      assert (Gd : dec_good HW (s_dec sa)) by (unfold sa; destruct (cf_drain_one cfg); exact G4).
      assert (Gr : ores_good HW (s_ores sa)) by (unfold sa; destruct (cf_drain_one cfg); cbn; apply (wv_reset HW); exact Hm).
      assert (Gs : SI sa).
      { intros st Est. assert (st = build_settings cfg s c) as -> by (unfold sa in Est; destruct (cf_drain_one cfg); cbn in Est; congruence).
        unfold build_settings. cbn [st_client_id st_topic_alias_maximum_to_server]. split; [|exact Hm].
        destruct (ca_assigned_id c) as [i|]; [exact Hid|].
        destruct (co_client_id (cf_connect cfg)) as [i|] eqn:Ec; [exact (cfg_cid_valid _ _ _ (wv_co HW) Ec)|].
        destruct (s_settings s) as [st0|] eqn:E0; [apply (G3 st0 E0)|apply str_valid_nil]. }
      split; [exact Go|split; [exact Gn|split; [exact Gs|split; [exact Gd|exact Gr]]]]. }
    destruct (r_out r); cbn [h_s]; exact H.
  Qed.

  (* ---- the other handlers: acknowledgements are built from inbound packet identifiers ---- *)
  Lemma in_pid_ok pid : pid <= 65535 -> pid <> 0 -> pid_ok pid = true.
  Proof. intros A B0. unfold pid_ok, U16_MAX. lia. Qed.

  Lemma ack_op_good (mk : ack -> packet) pid u t :
    (mk = Puback \/ mk = Pubrec \/ mk = Pubcomp) -> pid_ok pid = true -> goodop v (new_op (mk (default_ack pid)) u t).
  Proof. intros Hm Hp. split; [|apply gpr_none]. destruct Hm as [-> | [-> | ->]]; cbn; split; try reflexivity; exact Hp. Qed.

  Lemma handle_packet_FR (s : state) now p : in_ok v p -> in_nz p -> FR s (h_s (handle_packet s now p)).
  Proof.
    intros Hin Hnz.
    destruct p as [c|c|p|a|a|a|a|sb|s0|un|u| | |d|au]; cbn [Model.handle_packet h_s]; try kf_id.
    - apply handle_connack_FR. exact Hin.
    - unfold handle_publish. destruct (pre_connack s); [kf_id|]. destruct (pub_qos p =? 0) eqn:Eq; [kf_id|].
      cbn [in_ok in_nz] in Hin, Hnz. pose proof (in_pid_ok _ Hin (Hnz Eq)) as Hp.
      destruct (pub_qos p =? 1); unfold create_operation; cbn.
      + eapply (FR_new s _ (s_next_id s)); [reflexivity|intros _; apply (ack_op_good Puback); [auto|exact Hp]|reflexivity].
      + destruct (mem (pub_pid p) (s_q2in s)).
        * eapply (FR_new s _ (s_next_id s)); [reflexivity|intros _; apply (ack_op_good Pubrec); [auto|exact Hp]|reflexivity].
        * eapply FR_trans; [apply (FR_same s (s <| s_q2in := set_insert (pub_pid p) (s_q2in s) |>)); reflexivity|].
          eapply (FR_new _ _ (s_next_id s)); [reflexivity|intros _; apply (ack_op_good Pubrec); [auto|exact Hp]|reflexivity].
    - unfold handle_puback. destruct (pre_connack s); [kf_id|]. destruct (lookup (ack_pid a) (s_ppub s)) as [id|]; [|kf_id].
      destruct (publish_qos_of s id) as [[|q]|]; try kf_id. destruct q; try kf_id. apply succeed_op_FR.
    - unfold handle_pubrec. destruct (pre_connack s); [kf_id|]. destruct (lookup (ack_pid a) (s_ppub s)) as [id|]; [|kf_id].
      destruct (lookup id (s_ops s)) as [o|]; [|kf_id]. destruct (op_packet o); try kf_id.
      destruct (pub_qos p =? 2); [|kf_id]. destruct (128 <=? ack_rc a); [apply succeed_op_FR|].
      cbn [in_ok in_nz] in Hin, Hnz. cbn [h_s]. eapply (FR_update s _ id); [reflexivity| |reflexivity].
      intros o0 _ [A1 _]. split; [exact A1|]. cbn. intros pr Hpr. inversion Hpr. exists (ack_pid a). split; [reflexivity|apply in_pid_ok; assumption].
    - unfold handle_pubrel. destruct (pre_connack s); [kf_id|]. unfold create_operation. cbn.
      cbn [in_ok in_nz] in Hin, Hnz. eapply FR_trans; [apply (FR_same s (s <| s_q2in := set_remove (ack_pid a) (s_q2in s) |>)); reflexivity|].
      eapply (FR_new _ _ (s_next_id s)); [reflexivity|intros _; apply (ack_op_good Pubcomp); [auto|apply in_pid_ok; assumption]|reflexivity].
    - unfold handle_pubcomp. destruct (pre_connack s); [kf_id|]. destruct (lookup (ack_pid a) (s_ppub s)) as [id|]; [|kf_id].
      destruct (lookup id (s_ops s)) as [o|]; [|kf_id]. destruct (op_packet o); try kf_id.
      destruct (pub_qos p =? 2); [|kf_id]. destruct (op_pubrel o); [|kf_id]. apply succeed_op_FR.
    - unfold handle_suback. destruct (pre_connack s); [kf_id|]. destruct (lookup (sa_pid s0) (s_pnon s)) as [id|]; [|kf_id].
      destruct (lookup id (s_ops s)) as [o|]; [|kf_id]. destruct (op_packet o); try kf_id.
      destruct (negb _); [kf_id|]. apply succeed_op_FR.
    - unfold handle_unsuback. destruct (pre_connack s); [kf_id|]. destruct (lookup (ua_pid u) (s_pnon s)) as [id|]; [|kf_id].
      destruct (lookup id (s_ops s)) as [o|]; [|kf_id]. destruct (op_packet o); try kf_id.
      destruct (version_eqb _ _); [apply succeed_op_FR|]. destruct (negb _); [kf_id|]. apply succeed_op_FR.
    - unfold handle_pingresp. destruct (s_st s); try kf_id; destruct (s_ping_to s); kf_id.
    - unfold handle_disconnect. destruct (pre_connack s); [kf_id|]. destruct (version_eqb _ _); kf_id.
  Qed.

  Lemma in_ok_with_topic pb t : in_ok v (Publish pb) -> in_ok v (Publish (with_topic pb t)).
  Proof. exact (fun H => H). Qed.

  Lemma handle_packets_FR now : forall ps (s : state) dn ev, Forall (in_ok v) ps -> FR s (h_s (handle_packets s now ps dn ev)).
  Proof.
    induction ps as [|p rest IH]; intros s dn ev Hall; cbn [Model.handle_packets]; [kf_id|].
    inversion Hall as [|? ? Hp Hrest]; subst.
    assert (Hres : forall x : outcome (state * packet),
              x = match p with
                  | Publish pb => do (i', t) <- ires_resolve (s_ires s) (pub_alias pb) (pub_topic pb) ;
                                  Ok (s <| s_ires := i' |>, Publish (with_topic pb t))
                  | _ => Ok (s, p) end ->
              match x with Ok (s1, p1) => s_ops s1 = s_ops s /\ rest_of s1 = rest_of s /\ in_ok v p1 | _ => True end).
    { intros x ->. destruct p; try (split; [reflexivity|split; [reflexivity|exact Hp]]).
      destruct (ires_resolve _ _ _) as [[i' t]| |]; cbn; try exact I. split; [reflexivity|split; [reflexivity|exact Hp]]. }
    specialize (Hres _ eq_refl).
    destruct (match p with Publish pb => _ | _ => _ end) as [[s1 p1]|k|site]; [|kf_id|kf_id].
    destruct Hres as (E1 & E2 & Hp1).
    assert (H1 : FR s s1) by (apply FR_same; assumption).
    destruct (v_in (s_settings s1) p1) as [u|k|site] eqn:Ev; [|eapply FR_trans; [exact H1|kf_id]|exact H1].
    destruct u. pose proof (handle_packet_FR s1 now p1 Hp1 (wv_vin HW _ _ Ev)) as Hh.
    destruct (h_out (handle_packet s1 now p1)); cbn [h_s].
    - eapply FR_trans; [exact H1|]. eapply FR_trans; [exact Hh|apply IH; exact Hrest].
    - eapply FR_trans; [exact H1|]. eapply FR_trans; [exact Hh|kf_id].
    - eapply FR_trans; [exact H1|exact Hh].
  Qed.

  Theorem net_data_FR (s : state) now data : bytes_ok data = true -> FR s (h_s (net_data s now data)).
  Proof.
    intros Hb. unfold Model.net_data. destruct (_ || _); [kf_id|]. destruct (_ && _); [kf_id|].
    intros G. pose proof G as (G1 & G2 & G3 & G4 & G5).
    destruct (wv_dec HW (max_incoming_size cfg) (s_dec s) data G4 Hb) as [D1 D2].
    destruct (dec_feed _ _ _ _) as [[d' ps] r]. cbn [fst snd] in D1, D2.
    assert (Gd : GI (s <| s_dec := d' |>)) by (split; [exact G1|split; [exact G2|split; [exact G3|split; [exact D1|exact G5]]]]).
    destruct r; cbn [h_s]; [apply (handle_packets_FR now ps _ [] [] D2 Gd)| |exact Gd].
    revert Gd. kf_id.
  Qed.

  (* ---- connection close: DUP is set on the unacknowledged QoS >= 1 publishes only (DeliveryClose.close_requeues with the
          well-formedness invariant: the pending-publish table holds QoS >= 1 publishes) ---- *)
  Theorem net_closed_FR (s : state) : WFS s -> FR s (r_s (net_closed cfg s)).
  Proof.
    intros HWF. destruct (pstate_eqb (s_st s) Disconnected) eqn:Est.
    - apply pstate_eqb_eq in Est. rewrite (net_closed_disconnected cfg s Est). cbn [r_s]. apply FR_refl.
    - apply pstate_eqb_neq in Est. destruct (net_closed_spec cfg s HWF Est) as (E & _).
      assert (Hnp : is_panic (r_out (net_closed cfg s)) = false) by (rewrite E; reflexivity).
      destruct (close_requeues enc dec ores ires cfg s Est Hnp) as (f & _ & _ & Hops & _). cbv zeta in Hops.
      apply FR_ops; [|apply static_rest, net_closed_static].
      intros (G1 & _) i o' Hi. destruct (Hops i o' Hi) as (o & Ho & (Hpr & _) & Hpk). pose proof (G1 i o Ho) as [A1 A2].
      split; [|rewrite Hpr; exact A2]. rewrite Hpk. destruct (mem i _) eqn:Em; [|exact A1].
      apply mem_In in Em. apply In_snd_inv in Em. destruct Em as (p & Hin). apply filter_In in Hin. destruct Hin as [Hin _].
      destruct (w_ppub _ _ HWF p i Hin) as (o2 & Ho2 & _ & Hq). unfold WFDefs.gop, core_of in Ho2. cbn in Ho2.
      unfold DeliveryBase.gop in Ho. rewrite Ho in Ho2. inversion Ho2; subst o2. apply with_dup_true_gpk; assumption.
  Qed.

  Theorem reset_FR (s : state) : FR s (r_s (reset cfg s)).
  Proof.
    unfold reset.
    set (s0 := if pstate_eqb (s_st s) Disconnected then s else s <| s_st := Halted |>).
    assert (H0 : FR s s0) by (unfold s0; destruct (pstate_eqb (s_st s) Disconnected); kf_id).
    assert (Hf : forall ids (acc : res), FR s (r_s acc) ->
              FR s (r_s (fold_left (fun (acc : res) (id : N) =>
                          if is_panic (r_out acc) then acc else
                          let r1 := fail_op cfg (r_s acc) id EClientClosed in
                          mkRes (r_s r1) (r_done acc ++ r_done r1) (if is_panic (r_out r1) then r_out r1 else Ok tt)) ids acc))).
    { induction ids as [|a r IH]; intros acc Ha; cbn [fold_left]; [exact Ha|]. apply IH.
      destruct (is_panic (r_out acc)); [exact Ha|]. cbn [r_s]. eapply FR_trans; [exact Ha|apply fail_op_FR]. }
    specialize (Hf (map fst (s_ops s0)) (pure s0) H0). cbv zeta.
    destruct (is_panic _); [exact Hf|]. cbn [r_s]. intros G. destruct (Hf G) as (_ & _ & _ & G4 & G5).
    split; [apply OGt_nil|split; [cbn; lia|split; [intros st Hst; discriminate|split; [exact G4|exact G5]]]].
  Qed.
End WVFrame2.
