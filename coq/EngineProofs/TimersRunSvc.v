(* C18 run level, part 2: the timer invariant TM and its preservation by the service call.

   TM E s (E = the times of the service calls made since the last close / reset):
   - armed: every operation awaiting an acknowledgement (pending tables) that is a user operation with
     ack timeout T, completely written at w with w + T inside the clock range, has the record (i, w + T);
   - sound: every record (i, t) is w + T for a service time w of E and the ack timeout T of operation i,
     a user operation that was completely written (if it still exists). *)
From GM Require Import Base.Prelude Base.Outcome Codec.Packets Codec.Settings Engine.Model
  EngineProofs.AssocLemmas EngineProofs.WFLemmas EngineProofs.SvcTimeout EngineProofs.TimersRunDefs.
From RecordUpdate Require Import RecordSet.
Import RecordSetNotations.
Open Scope N_scope.

Section Svc.
  Variable enc : Type.
  Variable enc_reset : version -> packet -> resolution -> outcome enc.
  Variable enc_call : enc -> N -> N -> outcome (bytes * enc).
  Variable enc_done : enc -> bool.
  Variable dec : Type.
  Variable dec_init : dec.
  Variable dec_feed : version -> N -> dec -> bytes -> dec * list packet * outcome unit.
  Variable ores : Type.
  Variable ores_reset : ores -> N -> ores.
  Variable ores_resolve : ores -> option N -> bytes -> outcome (ores * resolution).
  Variable ires : Type.
  Variable ires_reset : ires -> ires.
  Variable ires_resolve : ires -> option N -> bytes -> outcome (ires * bytes).
  Variable v_out : option settings -> connect_opts -> resolution -> packet -> outcome unit.
  Variable v_in : option settings -> packet -> outcome unit.
  Variable cfg : config.

  Notation state := (Model.state enc dec ores ires).
  Notation init := (Model.init enc dec dec_init ores ires).
  Notation res := (Model.res enc dec ores ires).
  Notation release := (Model.release enc dec ores ires cfg).
  Notation disconnect_completion := (Model.disconnect_completion enc dec ores ires).
  Notation fail_op := (Model.fail_op enc dec ores ires cfg).
  Notation ping_extension := (Model.ping_extension enc dec ores ires).
  Notation succeed_op := (Model.succeed_op enc dec ores ires cfg).
  Notation fail_all := (Model.fail_all enc dec ores ires cfg).
  Notation succeed_all := (Model.succeed_all enc dec ores ires cfg).
  Notation andthen := (Model.andthen enc dec ores ires).
  Notation try_ := (Model.try_ enc dec ores ires).
  Notation pure := (Model.pure enc dec ores ires).
  Notation create_operation := (Model.create_operation enc dec ores ires).
  Notation passes_now := (Model.passes_now enc dec ores ires cfg).
  Notation user_event := (Model.user_event enc dec ores ires cfg).
  Notation create_connect := (Model.create_connect enc dec ores ires cfg).
  Notation net_opened := (Model.net_opened enc dec dec_init ores ires cfg).
  Notation op_exists := (Model.op_exists enc dec ores ires).
  Notation op_passes := (Model.op_passes enc dec ores ires cfg).
  Notation partition_policy := (Model.partition_policy enc dec ores ires cfg).
  Notation closed_current := (Model.closed_current enc dec ores ires cfg).
  Notation slow_start_init := (Model.slow_start_init enc dec ores ires cfg).
  Notation update_retries := (Model.update_retries enc dec ores ires cfg).
  Notation fail_exceeding := (Model.fail_exceeding enc dec ores ires cfg).
  Notation has_pubrel := (Model.has_pubrel enc dec ores ires).
  Notation net_closed_raw := (Model.net_closed_raw enc dec ores ires cfg).
  Notation net_closed := (Model.net_closed enc dec ores ires cfg).
  Notation net_write_completion := (Model.net_write_completion enc dec ores ires cfg).
  Notation acquire_free_pid := (Model.acquire_free_pid enc dec ores ires).
  Notation acquire_pid_for := (Model.acquire_pid_for enc dec ores ires).
  Notation unbind := (Model.unbind enc dec ores ires).
  Notation passes_receive_max := (Model.passes_receive_max enc dec ores ires).
  Notation throttled := (Model.throttled enc dec ores ires cfg).
  Notation has_pending_ack := (Model.has_pending_ack enc dec ores ires).
  Notation dequeue := (Model.dequeue enc dec ores ires cfg).
  Notation fully_written := (Model.fully_written enc dec ores ires).
  Notation sres := (Model.sres enc dec ores ires).
  Notation seat := (Model.seat enc dec ores ires).
  Notation seat_current := (Model.seat_current enc enc_reset dec ores ores_reset ores_resolve ires v_out cfg).
  Notation service_loop := (Model.service_loop enc enc_reset enc_call enc_done dec ores ores_reset ores_resolve ires v_out cfg).
  Notation service_queue := (Model.service_queue enc enc_reset enc_call enc_done dec ores ores_reset ores_resolve ires v_out cfg).
  Notation service_keep_alive := (Model.service_keep_alive enc dec ores ires cfg).
  Notation process_ack_timeouts := (Model.process_ack_timeouts enc dec ores ires cfg).
  Notation halt_on_error := (Model.halt_on_error enc dec ores ires).
  Notation service := (Model.service enc enc_reset enc_call enc_done dec ores ores_reset ores_resolve ires v_out cfg).
  Notation earliest_tmo := (Model.earliest_tmo enc dec ores ires).
  Notation nst_queue := (Model.nst_queue enc dec ores ires cfg).
  Notation next_service_time := (Model.next_service_time enc dec ores ires cfg).
  Notation build_settings := (Model.build_settings enc dec ores ires cfg).
  Notation apply_session := (Model.apply_session enc dec ores ires cfg).
  Notation hres := (Model.hres enc dec ores ires).
  Notation hres_of := (Model.hres_of enc dec ores ires).
  Notation pre_connack := (Model.pre_connack enc dec ores ires).
  Notation sum_ss := (Model.sum_ss enc dec ores ires).
  Notation handle_connack := (Model.handle_connack enc dec ores ores_reset ires ires_reset v_in cfg).
  Notation handle_pingresp := (Model.handle_pingresp enc dec ores ires).
  Notation handle_suback := (Model.handle_suback enc dec ores ires cfg).
  Notation handle_unsuback := (Model.handle_unsuback enc dec ores ires cfg).
  Notation publish_qos_of := (Model.publish_qos_of enc dec ores ires).
  Notation handle_puback := (Model.handle_puback enc dec ores ires cfg).
  Notation handle_pubrec := (Model.handle_pubrec enc dec ores ires cfg).
  Notation handle_pubrel := (Model.handle_pubrel enc dec ores ires).
  Notation handle_pubcomp := (Model.handle_pubcomp enc dec ores ires cfg).
  Notation handle_publish := (Model.handle_publish enc dec ores ires).
  Notation handle_disconnect := (Model.handle_disconnect enc dec ores ires cfg).
  Notation handle_packet := (Model.handle_packet enc dec ores ores_reset ires ires_reset v_in cfg).
  Notation handle_packets := (Model.handle_packets enc dec ores ores_reset ires ires_reset ires_resolve v_in cfg).
  Notation is_connect_op := (Model.is_connect_op enc dec ores ires).
  Notation connect_in_queue := (Model.connect_in_queue enc dec ores ires).
  Notation max_incoming_size := (Model.max_incoming_size cfg).
  Notation net_data := (Model.net_data enc dec dec_feed ores ores_reset ires ires_reset ires_resolve v_in cfg).
  Notation reset := (Model.reset enc dec ores ires cfg).
  Notation out_of_res := (Model.out_of_res enc dec ores ires).
  Notation step := (Model.step enc enc_reset enc_call enc_done dec dec_init dec_feed ores ores_reset ores_resolve ires ires_reset ires_resolve v_out v_in cfg).
  Notation run := (Model.run enc enc_reset enc_call enc_done dec dec_init dec_feed ores ores_reset ores_resolve ires ires_reset ires_resolve v_out v_in cfg).
  Notation SeatStop := (Model.SeatStop enc dec ores ires).
  Notation SeatContinue := (Model.SeatContinue enc dec ores ires).
  Notation SeatEncode := (Model.SeatEncode enc dec ores ires).
  Notation mkState := (Model.mkState enc dec ores ires).

  Ltac slia := try clear v_in; try clear v_out; try clear ires_resolve; try clear ires_reset; try clear ores_resolve;
    try clear ores_reset; try clear dec_feed; try clear dec_init; try clear enc_done; try clear enc_call; try clear enc_reset; lia.
  Ltac dm := match goal with
    | |- context [match ?x with _ => _ end] => destruct x eqn:?
    end.

  Ltac dmh H := match type of H with
    | context [match ?x with _ => _ end] => destruct x eqn:?
    end.
  Notation FR := (TimersRunDefs.FR enc dec ores ires).
  Notation NW := (TimersRunDefs.NW enc dec ores ires).
  Notation KR := (TimersRunDefs.KR enc dec ores ires).
  Notation ORi := (TimersRunDefs.OR enc dec ores ires isame TimersRunDefs.fresh_i).
  Notation ORt := (TimersRunDefs.OR enc dec ores ires tsame fresh_op).
  Notation fv := (TimersRunDefs.fv enc dec ores ires).
  Notation FR_refl := (TimersRunDefs.FR_refl enc dec ores ires).
  Notation FR_trans := (TimersRunDefs.FR_trans enc dec ores ires).
  Notation NW_refl := (TimersRunDefs.NW_refl enc dec ores ires).
  Notation NW_trans := (TimersRunDefs.NW_trans enc dec ores ires).
  Notation KR_refl := (TimersRunDefs.KR_refl enc dec ores ires).
  Notation KR_trans := (TimersRunDefs.KR_trans enc dec ores ires).
  Notation FR_view := (TimersRunDefs.FR_view enc dec ores ires).
  Notation KR_view := (TimersRunDefs.KR_view enc dec ores ires).
  Notation NW_view := (TimersRunDefs.NW_view enc dec ores ires).
  Notation FR_sub := (TimersRunDefs.FR_sub enc dec ores ires).
  Notation FR_from := (TimersRunDefs.FR_from enc dec ores ires).
  Notation FR_ops := (TimersRunDefs.FR_ops enc dec ores ires).
  Notation FR_update := (TimersRunDefs.FR_update enc dec ores ires).
  Notation FR_fold := (TimersRunDefs.FR_fold enc dec ores ires).
  Notation ORt_ORi := (TimersRunDefs.ORt_ORi enc dec ores ires).
  Notation ORi_refl := (TimersRunDefs.ORi_refl enc dec ores ires).
  Notation ORi_trans := (TimersRunDefs.ORi_trans enc dec ores ires).
  Notation create_FR := (TimersRunDefs.create_FR enc dec ores ires).
  Notation halt_on_error_FR := (TimersRunDefs.halt_on_error_FR enc dec ores ires).
  Notation unbind_FR := (TimersRunDefs.unbind_FR enc dec ores ires).
  Notation fold_unbind_FR := (TimersRunDefs.fold_unbind_FR enc dec ores ires).
  Notation andthen_R := (TimersRunDefs.andthen_R enc dec ores ires).
  Notation try_R := (TimersRunDefs.try_R enc dec ores ires).
  Notation fail_all_R := (TimersRunDefs.fail_all_R enc dec ores ires cfg).
  Notation fail_op_FR := (TimersRunDefs.fail_op_FR enc dec ores ires cfg).
  Notation succeed_op_FR := (TimersRunDefs.succeed_op_FR enc dec ores ires cfg).
  Notation fail_all_FR := (TimersRunDefs.fail_all_FR enc dec ores ires cfg).
  Notation succeed_all_FR := (TimersRunDefs.succeed_all_FR enc dec ores ires cfg).
  Notation user_event_FR := (TimersRunDefs.user_event_FR enc dec ores ires cfg).
  Notation net_opened_NW := (TimersRunDefs.net_opened_NW enc dec dec_init ores ires cfg).
  Notation net_write_completion_FR := (TimersRunDefs.net_write_completion_FR enc dec ores ires cfg).
  Notation service_keep_alive_NW := (TimersRunDefs.service_keep_alive_NW enc dec ores ires cfg).
  Notation seat_current_FR := (TimersRunDefs.seat_current_FR enc enc_reset dec ores ores_reset ores_resolve ires v_out cfg).
  Ltac splits := repeat match goal with |- _ /\ _ => split end.
  Ltac frv := apply FR_view; reflexivity.
  (* ---- what a complete write changes ---- *)
  Lemma fully_written_shape s now s' : fully_written s now = Ok s' ->
    exists id o, s_cur s = Some id /\ lookup id (s_ops s) = Some o /\
      s_ops s' = update id (fun o => o <| op_ext := Some now |>) (s_ops s) /\ s_next_id s' = s_next_id s /\
      (forall x, In x (s_ppub s') -> In x (s_ppub s) \/ snd x = id) /\
      (forall x, In x (s_pnon s') -> In x (s_pnon s) \/ snd x = id) /\
      s_settings s' = s_settings s /\ s_ping_to s' = s_ping_to s /\ s_next_ping s' = s_next_ping s /\
      (s_st s' = s_st s \/ s_st s' = PendingDisconnect).
  Proof.
    unfold Model.fully_written. intros H. destruct (s_cur s) as [id|] eqn:Ec; [|discriminate].
    destruct (lookup id (s_ops s)) as [o|] eqn:El; [|discriminate]. exists id, o. split; [reflexivity|]. split; [exact El|].
    match type of H with context [update id ?f (s_ops ?s1)] => set (s1v := s1) in H; set (fu := f) in H end.
    assert (H1 : s_ops s1v = s_ops s /\ s_next_id s1v = s_next_id s /\
                 (forall x, In x (s_ppub s1v) -> In x (s_ppub s) \/ snd x = id) /\
                 (forall x, In x (s_pnon s1v) -> In x (s_pnon s) \/ snd x = id) /\
                 s_settings s1v = s_settings s /\ s_ping_to s1v = s_ping_to s /\ s_next_ping s1v = s_next_ping s /\
                 (s_st s1v = s_st s \/ s_st s1v = PendingDisconnect)).
    { assert (Hin : forall k (l : list (N * N)) x, In x (insert k id l) -> In x l \/ snd x = id).
      { intros k l x Hx. apply in_insert_values in Hx. destruct Hx as [->|Hx]; [right; reflexivity|left; exact Hx]. }
      unfold s1v. destruct (op_packet o); try (destruct (pub_qos _ =? 0)); cbn; splits; eauto. }
    destruct H1 as (A1 & A2 & A3 & A4 & A5 & A6 & A7 & A8).
    destruct (if op_user o then op_timeout o else None) as [d|]; cbn [obind] in H; [destruct (IMAX <? now + d)|];
      inversion H; subst s'; cbn; rewrite A1; splits; auto.
  Qed.

  Lemma fully_written_KR s now s' : fully_written s now = Ok s' -> KR s s'.
  Proof.
    intros H. destruct (fully_written_shape s now s' H) as (id & o & _ & _ & _ & _ & _ & _ & B1 & B2 & B3 & B4).
    constructor; auto; [tauto|]. rewrite B3. apply np_mono_refl.
  Qed.

  Lemma fully_written_ORi s now s' : fully_written s now = Ok s' -> ORi s s'.
  Proof.
    intros H. destruct (fully_written_shape s now s' H) as (id & o & _ & _ & A1 & A2 & _).
    split; [slia|]. intros i o'. rewrite A1. intros Hl. left.
    destruct (lookup_update_inv _ _ _ _ _ Hl) as (o0 & Ho & [[_ ->]|[_ ->]]); exists o0; split; auto; unfold isame; cbn; tauto.
  Qed.

  (* ---- the service loop keeps whatever the frame relation and a complete write keep ---- *)
  Section Loop.
    Variable P : state -> Prop.
    Variable now : N.
    Hypothesis P_FR : forall s s', FR s s' -> P s -> P s'.
    Hypothesis P_written : forall s s', fully_written s now = Ok s' -> P s -> P s'.

    Lemma service_loop_inv fuel : forall s m cap fill acc dn, P s -> P (sr_s (service_loop fuel s m now cap fill acc dn)).
    Proof.
      induction fuel as [|f IH]; intros s m cap fill acc dn HP; cbn [Model.service_loop]; [exact HP|].
      dm; [exact HP|].
      pose proof (seat_current_FR s m acc dn) as Hs.
      destruct (seat_current s m acc dn) as [r|s5 dn'|s5]; [eapply P_FR; eassumption| |].
      - apply IH. eapply P_FR; eassumption.
      - assert (H5 : P s5) by (eapply P_FR; eassumption).
        destruct (s_cur s5); [|exact H5].
        dm; [exact H5|]. destruct (s_enc s5) as [e|]; [|exact H5].
        destruct (enc_call e (fill + len acc) cap) as [[out e']| |]; [|exact H5..].
        assert (H6 : P (s5 <| s_enc := Some e' |>)) by (apply (P_FR s5); [apply FR_view; reflexivity|exact H5]).
        destruct (enc_done e'); [|exact H6].
        destruct (fully_written (s5 <| s_enc := Some e' |>) now) as [s7| |] eqn:Ef; [|exact H6..].
        apply IH. eapply P_written; eassumption.
    Qed.

    Lemma service_queue_inv s m cap fill : P s -> P (sr_s (service_queue s m now cap fill)).
    Proof.
      intros HP. unfold Model.service_queue.
      match goal with |- context [service_loop ?f s m now cap fill [] []] =>
        pose proof (service_loop_inv f s m cap fill [] [] HP) as H; set (r := service_loop f s m now cap fill [] []) in * end.
      destruct (sr_bytes r); [exact H|]. cbn [sr_s]. apply (P_FR (sr_s r)); [apply FR_view; reflexivity|exact H].
    Qed.
  End Loop.

  (* ---- the timer invariant ---- *)
  Record TM (E : list N) (s : state) : Prop := mkTM {
    tm_lt : forall i o, lookup i (s_ops s) = Some o -> i < s_next_id s;
    tm_armed : forall p i o T w, In (p, i) (s_ppub s) \/ In (p, i) (s_pnon s) -> lookup i (s_ops s) = Some o ->
       op_user o = true -> op_timeout o = Some T -> op_ext o = Some w -> w + T <= IMAX -> In (i, w + T) (s_tmo s);
    tm_sound : forall i t, In (i, t) (s_tmo s) -> i < s_next_id s /\ t <= IMAX /\
       exists w T, t = w + T /\ In w E /\
         forall o, lookup i (s_ops s) = Some o ->
           op_user o = true /\ op_timeout o = Some T /\ exists we, op_ext o = Some we /\ In we E }.

  Lemma TM_weaken E E' s : (forall w, In w E -> In w E') -> TM E s -> TM E' s.
  Proof.
    intros HE [A B C]. constructor; auto. intros i t Hin. destruct (C i t Hin) as (C1 & C2 & w & T & C3 & C4 & C5).
    splits; auto. exists w, T. splits; auto. intros o Hl. destruct (C5 o Hl) as (D1 & D2 & we & D3 & D4). splits; auto. exists we. auto.
  Qed.

  Lemma TM_NW E s s' : NW s s' -> TM E s -> TM E s'.
  Proof.
    intros [N1 [N2 N3] N4 N5] [A B C]. constructor.
    - intros i o' Hl. destruct (N3 _ _ Hl) as [(o & Ho & _)|[Hn _]]; [apply A in Ho; slia|slia].
    - intros p i o' T w Hin Hl Hu Ht He Hle. rewrite N1.
      destruct (N3 _ _ Hl) as [(o & Ho & R1 & R2 & R3 & R4)|[_ [F1 _]]]; [|congruence].
      apply (B p i o T w); try congruence. destruct Hin as [Hin|Hin]; [left; apply N4|right; apply N5]; exact Hin.
    - intros i t Hin. rewrite N1 in Hin. destruct (C i t Hin) as (C1 & C2 & w & T & C3 & C4 & C5).
      splits; auto; [slia|]. exists w, T. splits; auto. intros o' Hl.
      destruct (N3 _ _ Hl) as [(o & Ho & R1 & R2 & R3 & R4)|[Hn _]]; [|slia].
      destruct (C5 o Ho) as (D1 & D2 & we & D3 & D4). splits; try congruence. exists we. split; congruence.
  Qed.

  Lemma TM_FR E s s' : FR s s' -> TM E s -> TM E s'.
  Proof. intros [H _]. apply TM_NW. exact H. Qed.

  (* a complete write at a time of E: the record of the written operation is armed *)
  Lemma TM_written E s now s' : In now E -> fully_written s now = Ok s' -> TM E s -> TM E s'.
  Proof.
    intros HE H [A B C]. destruct (fully_written_shape s now s' H) as (id & o & Ec & El & A1 & A2 & A3 & A4 & _).
    pose proof (deadline_armed enc dec ores ires s now s' id o H Ec El) as Ht.
    constructor.
    - intros i o' Hl. rewrite A1 in Hl. destruct (lookup_update_inv _ _ _ _ _ Hl) as (o0 & Ho & _). rewrite A2. eapply A. exact Ho.
    - intros p i o' T w Hin Hl Hu Hti He Hle. rewrite A1 in Hl. rewrite Ht. apply in_or_app.
      destruct (lookup_update_inv _ _ _ _ _ Hl) as (o0 & Ho & [[Hne ->]|[-> ->]]).
      + left. apply (B p i o0 T w); auto.
        destruct Hin as [Hin|Hin]; [left; destruct (A3 _ Hin) as [G|G]|right; destruct (A4 _ Hin) as [G|G]]; auto; cbn in G; congruence.
      + right. assert (o0 = o) by congruence. subst o0. cbn in Hu, Hti, He. inversion He; subst w. rewrite Hu, Hti.
        assert (E1 : IMAX <? now + T = false) by slia. rewrite E1. left. reflexivity.
    - intros i t Hin. rewrite Ht in Hin. apply in_app_or in Hin. destruct Hin as [Hin|Hin].
      + destruct (C i t Hin) as (C1 & C2 & w & T & C3 & C4 & C5). splits; auto; [slia|]. exists w, T. splits; auto.
        intros o' Hl. rewrite A1 in Hl. destruct (lookup_update_inv _ _ _ _ _ Hl) as (o0 & Ho & [[Hne ->]|[-> ->]]); [exact (C5 _ Ho)|].
        destruct (C5 _ Ho) as (D1 & D2 & D3). cbn. splits; auto. exists now. split; [reflexivity|exact HE].
      + destruct (op_user o) eqn:Eu; [|destruct Hin]. destruct (op_timeout o) as [d|] eqn:Et; [|destruct Hin].
        destruct (IMAX <? now + d) eqn:Ei; [destruct Hin|]. destruct Hin as [Hin|[]]. inversion Hin; subst i t.
        splits; [rewrite A2; eapply A; exact El|slia|]. exists now, d. splits; auto.
        intros o' Hl. rewrite A1 in Hl. rewrite (lookup_update_eq _ _ _ _ El) in Hl. inversion Hl; subst o'. cbn. splits; auto. exists now. split; [reflexivity|exact HE].
  Qed.

  (* the due records are consumed and their operations failed *)
  Lemma TM_timeouts E s now : is_panic (r_out (process_ack_timeouts s now)) = false ->
    TM E s -> TM E (r_s (process_ack_timeouts s now)).
  Proof.
    intros Hp [A B C]. destruct (ack_timeouts_exact enc dec ores ires cfg s now Hp) as (X1 & _ & X3 & X4).
    destruct X4 as (_ & _ & _ & _ & _ & _ & _ & _ & _ & Xn).
    assert (Hsub : forall k o, lookup k (s_ops (r_s (process_ack_timeouts s now))) = Some o -> lookup k (s_ops s) = Some o /\
               existsb (fun x => (fst x =? k) && due now x) (s_tmo s) = false).
    { intros k o. rewrite X3. destruct (existsb _ _); [discriminate|tauto]. }
    assert (Hpp : (forall x, In x (s_ppub (r_s (process_ack_timeouts s now))) -> In x (s_ppub s)) /\
                  (forall x, In x (s_pnon (r_s (process_ack_timeouts s now))) -> In x (s_pnon s))).
    { unfold Model.process_ack_timeouts.
      match goal with |- context [fail_all ?s0 ?ids ?e] =>
        destruct (fail_all_FR ids s0 e) as [[_ _ N4 N5] _] end.
      split; [exact N4|exact N5]. }
    destruct Hpp as [Hpp Hpn].
    constructor.
    - intros i o Hl. rewrite Xn. destruct (Hsub _ _ Hl) as [Hl0 _]. eapply A. exact Hl0.
    - intros p i o T w Hin Hl Hu Ht He Hle. destruct (Hsub _ _ Hl) as [Hl0 Hnd]. rewrite X1. apply filter_In.
      assert (Hi : In (i, w + T) (s_tmo s)).
      { apply (B p i o T w); auto. destruct Hin as [Hin|Hin]; [left; apply Hpp|right; apply Hpn]; exact Hin. }
      split; [exact Hi|]. destruct (due now (i, w + T)) eqn:Ed; [|reflexivity]. exfalso.
      assert (Hex : existsb (fun x => (fst x =? i) && due now x) (s_tmo s) = true).
      { apply existsb_exists. exists (i, w + T). split; [exact Hi|]. cbn [fst]. rewrite N.eqb_refl, Ed. reflexivity. }
      congruence.
    - intros i t Hin. rewrite X1 in Hin. apply filter_In in Hin. destruct Hin as [Hin _].
      destruct (C i t Hin) as (C1 & C2 & w & T & C3 & C4 & C5). splits; auto; [slia|]. exists w, T. splits; auto.
      intros o Hl. destruct (Hsub _ _ Hl) as [Hl0 _]. exact (C5 _ Hl0).
  Qed.

  Lemma process_ack_timeouts_KR s now : KR s (r_s (process_ack_timeouts s now)).
  Proof.
    unfold Model.process_ack_timeouts.
    match goal with |- context [fail_all ?s0 ?ids ?e] =>
      destruct (fail_all_FR ids s0 e) as [_ K] end.
    eapply KR_trans; [|exact K]. apply KR_view. reflexivity.
  Qed.

  Lemma process_ack_timeouts_ORi s now : ORi s (r_s (process_ack_timeouts s now)).
  Proof.
    unfold Model.process_ack_timeouts.
    match goal with |- context [fail_all ?s0 ?ids ?e] =>
      destruct (fail_all_FR ids s0 e) as [[_ N _ _] _] end.
    apply ORt_ORi in N. exact N.
  Qed.

  (* ---- the service call ---- *)
  Theorem service_TM E s now cap fill :
    is_panic (sr_out (service s now cap fill)) = false -> TM E s -> TM (now :: E) (sr_s (service s now cap fill)).
  Proof.
    intros Hp HT0. assert (HT : TM (now :: E) s) by (eapply TM_weaken; [|exact HT0]; intros w Hw; right; exact Hw). clear HT0.
    assert (HQ : forall s1 m, TM (now :: E) s1 -> TM (now :: E) (sr_s (service_queue s1 m now cap fill))).
    { intros s1 m. apply service_queue_inv; [intros a b; apply TM_FR|intros a b; apply TM_written; left; reflexivity]. }
    revert Hp. unfold Model.service. cbn [sr_s sr_out].
    match goal with |- context [halt_on_error (sr_s ?r) (sr_out ?r)] => set (r0 := r) end.
    intros Hp. eapply TM_FR; [apply halt_on_error_FR|].
    unfold r0 in *. clear r0. destruct (s_st s).
    - exact HT.
    - destruct (s_connack_to s) as [t|]; [|exact HT]. destruct (t <=? now); [exact HT|]. apply HQ. exact HT.
    - destruct (service_keep_alive s now) as [s1| |] eqn:Ek; [|exact HT..].
      assert (H1 : TM (now :: E) s1) by (eapply TM_NW; [eapply service_keep_alive_NW; exact Ek|exact HT]).
      specialize (HQ s1 true H1). destruct (sr_out (service_queue s1 true now cap fill)); [|exact HQ..].
      cbn [sr_s sr_out] in *. apply TM_timeouts; assumption.
    - cbn [sr_s sr_out] in *. apply TM_timeouts; assumption.
    - exact HT.
  Qed.

  Theorem service_ORi s now cap fill : ORi s (sr_s (service s now cap fill)).
  Proof.
    assert (Hfr : forall a b, FR a b -> ORi s a -> ORi s b).
    { intros a b [[_ N _ _] _] H. eapply ORi_trans; [exact H|apply ORt_ORi; exact N]. }
    assert (HQ : forall s1 m, ORi s s1 -> ORi s (sr_s (service_queue s1 m now cap fill))).
    { intros s1 m. apply (service_queue_inv (fun x => ORi s x)); [exact Hfr|].
      intros a b Hw H. eapply ORi_trans; [exact H|eapply fully_written_ORi; exact Hw]. }
    unfold Model.service. cbn [sr_s sr_out].
    match goal with |- context [halt_on_error (sr_s ?r) (sr_out ?r)] => set (r0 := r) end.
    eapply Hfr; [apply halt_on_error_FR|]. unfold r0. clear r0. destruct (s_st s); try apply ORi_refl.
    - destruct (s_connack_to s) as [t|]; [|apply ORi_refl]. destruct (t <=? now); [apply ORi_refl|]. apply HQ, ORi_refl.
    - destruct (service_keep_alive s now) as [s1| |] eqn:Ek; [|apply ORi_refl..].
      assert (H1 : ORi s s1) by (apply ORt_ORi; destruct (service_keep_alive_NW _ _ _ Ek) as [_ N _ _]; exact N).
      specialize (HQ s1 true H1). destruct (sr_out (service_queue s1 true now cap fill)); [|exact HQ..].
      cbn [sr_s]. eapply ORi_trans; [exact HQ|apply process_ack_timeouts_ORi].
    - cbn [sr_s]. apply process_ack_timeouts_ORi.
  Qed.
End Svc.
