(* Well-formedness invariant of the protocol engine model (Engine/Model.v): definitions.

   WF s = WFS s /\ WFP s where
   - WFS ("structural", holds in every state including Halted) is a predicate [WFc] over the
     "core" of the state: the operation table, the three intake queues, the current operation,
     the three packet-id tables, the pending-write-completion list and the two id counters;
   - WFP ("per protocol state") are the facts that hold only in a given [s_st].

   [WFc X c] carries a list X of operation ids that are temporarily exempt from the
   "bound operations are tracked" and "pubrel carriers are pending or dup" conjuncts; the
   invariant proper is X = [].  The exemption is only used inside net_closed / apply_session,
   where a queue is emptied, its rejected members are failed, and the kept members are
   re-appended afterwards. *)
From GM Require Import Base.Prelude Base.Outcome Codec.Packets Codec.Settings Engine.Model
  EngineProofs.AssocLemmas EngineProofs.WFLemmas.
From Coq Require Import Sorting.Sorted.
From RecordUpdate Require Import RecordSet.
Import RecordSetNotations.
Open Scope N_scope.

(* the four component types are implicit in the engine functions, locally to this file *)
#[local] Arguments init {enc dec} _ {ores ires} _ _.
#[local] Arguments release {enc dec ores ires} _ _ _ _.
#[local] Arguments disconnect_completion {enc dec ores ires} _ _.
#[local] Arguments fail_op {enc dec ores ires} _ _ _ _.
#[local] Arguments ping_extension {enc dec ores ires} _ _.
#[local] Arguments succeed_op {enc dec ores ires} _ _ _ _.
#[local] Arguments fail_all {enc dec ores ires} _ _ _ _.
#[local] Arguments succeed_all {enc dec ores ires} _ _ _.
#[local] Arguments andthen {enc dec ores ires} _ _.
#[local] Arguments try_ {enc dec ores ires} _ _.
#[local] Arguments pure {enc dec ores ires} _.
#[local] Arguments create_operation {enc dec ores ires} _ _.
#[local] Arguments passes_now {enc dec ores ires} _ _ _.
#[local] Arguments user_event {enc dec ores ires} _ _ _ _.
#[local] Arguments create_connect {enc dec ores ires} _ _.
#[local] Arguments net_opened {enc dec} _ {ores ires} _ _ _.
#[local] Arguments op_exists {enc dec ores ires} _ _.
#[local] Arguments op_passes {enc dec ores ires} _ _ _.
#[local] Arguments partition_policy {enc dec ores ires} _ _ _.
#[local] Arguments closed_current {enc dec ores ires} _ _.
#[local] Arguments slow_start_init {enc dec ores ires} _ _.
#[local] Arguments update_retries {enc dec ores ires} _ _.
#[local] Arguments fail_exceeding {enc dec ores ires} _ _.
#[local] Arguments has_pubrel {enc dec ores ires} _ _.
#[local] Arguments net_closed_raw {enc dec ores ires} _ _.
#[local] Arguments net_closed {enc dec ores ires} _ _.
#[local] Arguments net_write_completion {enc dec ores ires} _ _.
#[local] Arguments acquire_free_pid {enc dec ores ires} _ _.
#[local] Arguments acquire_pid_for {enc dec ores ires} _ _.
#[local] Arguments unbind {enc dec ores ires} _ _.
#[local] Arguments passes_receive_max {enc dec ores ires} _ _.
#[local] Arguments throttled {enc dec ores ires} _ _.
#[local] Arguments has_pending_ack {enc dec ores ires} _.
#[local] Arguments dequeue {enc dec ores ires} _ _ _.
#[local] Arguments fully_written {enc dec ores ires} _ _.
#[local] Arguments service_keep_alive {enc dec ores ires} _ _ _.
#[local] Arguments process_ack_timeouts {enc dec ores ires} _ _ _.
#[local] Arguments halt_on_error {enc dec ores ires} _ _.
#[local] Arguments next_service_time {enc dec ores ires} _ _ _.
#[local] Arguments build_settings {enc dec ores ires} _ _ _.
#[local] Arguments apply_session {enc dec ores ires} _ _ _.
#[local] Arguments hres_of {enc dec ores ires} _ _.
#[local] Arguments pre_connack {enc dec ores ires} _.
#[local] Arguments sum_ss {enc dec ores ires} _.
#[local] Arguments handle_pingresp {enc dec ores ires} _.
#[local] Arguments handle_suback {enc dec ores ires} _ _ _.
#[local] Arguments handle_unsuback {enc dec ores ires} _ _ _.
#[local] Arguments publish_qos_of {enc dec ores ires} _ _.
#[local] Arguments handle_puback {enc dec ores ires} _ _ _.
#[local] Arguments handle_pubrec {enc dec ores ires} _ _ _.
#[local] Arguments handle_pubrel {enc dec ores ires} _ _.
#[local] Arguments handle_pubcomp {enc dec ores ires} _ _ _.
#[local] Arguments handle_publish {enc dec ores ires} _ _.
#[local] Arguments handle_disconnect {enc dec ores ires} _ _ _.
#[local] Arguments is_connect_op {enc dec ores ires} _ _.
#[local] Arguments connect_in_queue {enc dec ores ires} _.
#[local] Arguments reset {enc dec ores ires} _ _.
#[local] Arguments out_of_res {enc dec ores ires} _ _.
#[local] Arguments nst_queue {enc dec ores ires} _ _ _ _.
#[local] Arguments earliest_tmo {enc dec ores ires} _.
#[local] Arguments SeatStop {enc dec ores ires} _.
#[local] Arguments SeatContinue {enc dec ores ires} _ _.
#[local] Arguments SeatEncode {enc dec ores ires} _.

(* ---- packet kinds ---- *)
Definition pubq (p : packet) : bool := match p with Publish pb => negb (pub_qos pb =? 0) | _ => false end.
Definition nonk (p : packet) : bool := match p with Subscribe _ | Unsubscribe _ => true | _ => false end.
Definition pkt_pid (p : packet) : option N :=
  match p with
  | Subscribe x => Some (s_pid x) | Unsubscribe x => Some (u_pid x) | Publish pb => Some (pub_pid pb)
  | _ => None
  end.

Lemma needs_pid_split p : needs_pid p = pubq p || nonk p.
Proof. destruct p; cbn; try reflexivity. rewrite orb_false_r. reflexivity. Qed.

(* ---- the core of a state ---- *)
Record core := mkCore {
  c_ops : list (N * op); c_uq : list N; c_rq : list N; c_hq : list N; c_cur : option N;
  c_alloc : list (N * N); c_ppub : list (N * N); c_pnon : list (N * N); c_pwco : list N;
  c_nid : N; c_npid : N }.

Definition gop (c : core) (i : N) : option op := lookup i (c_ops c).

Definition pids_ok' (alloc : list (N * N)) (npid : N) : Prop :=
  inc (keys alloc) /\ Forall (fun p => 1 <= p <= 65535) (keys alloc) /\ 1 <= npid <= 65535.

Definition tracked (X : list N) (c : core) (p i : N) : Prop :=
  In i X \/ In i (c_uq c) \/ In i (c_rq c) \/ c_cur c = Some i \/ In (p, i) (c_ppub c) \/ In (p, i) (c_pnon c).

Definition inq (c : core) (i : N) : Prop :=
  In i (c_uq c) \/ In i (c_rq c) \/ In i (c_hq c) \/ c_cur c = Some i \/ In i (c_pwco c).

Record WFc (X : list N) (c : core) : Prop := mkWFc {
  (* W1 *)
  w_inc : inc (keys (c_ops c));
  w_lt : forall i, In i (keys (c_ops c)) -> i < c_nid c;
  (* W2 *)
  w_pids : pids_ok' (c_alloc c) (c_npid c);
  (* W3 *)
  w_ppub_inc : inc (keys (c_ppub c));
  w_ppub : forall p i, In (p, i) (c_ppub c) ->
             exists o, gop c i = Some o /\ op_pid o = Some p /\ pubq (op_packet o) = true;
  (* W4 *)
  w_pnon_inc : inc (keys (c_pnon c));
  w_pnon : forall p i, In (p, i) (c_pnon c) ->
             exists o, gop c i = Some o /\ op_pid o = Some p /\ nonk (op_packet o) = true;
  (* W5 and its converse *)
  w_bound : forall i o p, gop c i = Some o -> op_pid o = Some p ->
             lookup p (c_alloc c) = Some i /\ pkt_pid (op_packet o) = Some p /\ needs_pid (op_packet o) = true;
  w_alloc : forall p i, lookup p (c_alloc c) = Some i -> exists o, gop c i = Some o /\ op_pid o = Some p;
  (* W6 *)
  w_tracked : forall i o p, gop c i = Some o -> op_pid o = Some p -> tracked X c p i;
  (* ids in the queues were allocated before (so a new operation never aliases a stale id) *)
  w_qlt : forall i, inq c i -> i < c_nid c;
  (* W8 *)
  w_pwco : forall i o, In i (c_pwco c) -> gop c i = Some o -> needs_pid (op_packet o) = false;
  (* W10 *)
  w_pubrel : forall i o, gop c i = Some o -> op_pubrel o <> None ->
             exists pb, op_packet o = Publish pb /\ (In i X \/ pub_dup pb = true \/ exists p, In (p, i) (c_ppub c));
  w_hq : forall i o, In i (c_hq c) -> gop c i = Some o -> needs_pid (op_packet o) = true -> exists p, In (p, i) (c_ppub c) }.

(* slow-start sum over the operation table *)
Definition sumss (ops : list (N * op)) : N := fold_right (fun x acc => op_ss (snd x) + acc) 0 ops.
Global Arguments sumss : simpl never.

Section Defs.
  Context {enc dec ores ires : Type}.
  Notation state := (state enc dec ores ires).
  Variable cfg : config.

  Definition core_of (s : state) : core :=
    mkCore (s_ops s) (s_uq s) (s_rq s) (s_hq s) (s_cur s) (s_alloc s) (s_ppub s) (s_pnon s) (s_pwco s)
           (s_next_id s) (s_next_pid s).

  Definition getop (s : state) (i : N) : option op := lookup i (s_ops s).

  Definition WFSx (X : list N) (s : state) : Prop := WFc X (core_of s).
  Definition WFS (s : state) : Prop := WFSx [] s.

  (* the seated operation: an encoder exists, and it holds a packet id if its kind needs one *)
  Definition cur_ok (s : state) : Prop :=
    forall i o, s_cur s = Some i -> getop s i = Some o ->
      s_enc s <> None /\ (needs_pid (op_packet o) = true -> op_pid o <> None).

  Definition is_conn_op (s : state) (i : N) : Prop :=
    exists o, getop s i = Some o /\ is_connect (op_packet o) = true /\ op_user o = false.

  Definition olist (o : option N) : list N := match o with Some i => [i] | None => [] end.

  Definition ss_ok (s : state) : Prop := cf_drain_one cfg = true -> s_ss_count s = sumss (s_ops s).

  Definition WFP (s : state) : Prop :=
    match s_st s with
    | Disconnected =>
        s_ppub s = [] /\ s_pnon s = [] /\ s_pwco s = [] /\ s_hq s = [] /\ s_tmo s = [] /\ s_cur s = None
    | PendingConnack =>
        s_ppub s = [] /\ s_pnon s = [] /\ s_tmo s = [] /\ s_connack_to s <> None /\
        (forall i, In i (s_hq s) \/ In i (s_pwco s) -> is_conn_op s i) /\
        (forall i o, s_cur s = Some i -> getop s i = Some o -> is_connect (op_packet o) = true /\ op_user o = false) /\
        cur_ok s /\ NoDup (s_hq s ++ s_pwco s ++ olist (s_cur s))
    | Connected => s_settings s <> None /\ cur_ok s /\ ss_ok s
    | PendingDisconnect => s_settings s <> None
    | Halted => True
    end.

  Definition WF (s : state) : Prop := WFS s /\ WFP s.
End Defs.

(* ---- what the environment guarantees ---- *)
Definition TMAX : N := 4611686018427387904.     (* 2^62 ms *)

Definition ok_event (e : event) : Prop :=
  match e with
  | EvService now cap fill => now <= TMAX /\ 4 <= cap
  | _ => True
  end.

(* the configured ping timeout is a finite duration (so that `now + timeout` stays an Instant) *)
Definition ok_cfg (cfg : config) : Prop := cf_ping_timeout cfg <= TMAX.

Section Comps.
  Variable enc : Type.
  Variable enc_reset : version -> packet -> resolution -> outcome enc.
  Variable enc_call : enc -> N -> N -> outcome (bytes * enc).
  Variable dec : Type.
  Variable dec_init : dec.
  Variable dec_feed : version -> N -> dec -> bytes -> dec * list packet * outcome unit.
  Variable ores : Type.
  Variable ores_reset : ores -> N -> ores.
  Variable ores_resolve : ores -> option N -> bytes -> outcome (ores * resolution).
  Variable ires : Type.
  Variable ires_reset : ires -> ires.
  Variable ires_resolve : ires -> option N -> bytes -> outcome (ires * bytes).
  Variable v_out : option settings -> connect_opts -> resolution -> packet -> outcome unit.
  Variable v_in : option settings -> packet -> outcome unit.

  (* the abstract components never panic on well-formed component states: each component comes with an
     invariant of its state (e.g. the framing decoder's `wf`, the LRU resolver's consistency) that its
     operations establish and preserve; discharged for the concrete instance elsewhere *)
  Record comps_ok : Type := mkCompsOk {
    enc_inv : enc -> Prop;
    dec_inv : dec -> Prop;
    ores_inv : ores -> Prop;
    ires_inv : ires -> Prop;
    co_enc_reset : forall v p r, (forall site, enc_reset v p r <> Panic site) /\ (forall e, enc_reset v p r = Ok e -> enc_inv e);
    co_enc_call : forall e fill cap, enc_inv e -> 4 <= cap ->
                    (forall site, enc_call e fill cap <> Panic site) /\
                    (forall out e', enc_call e fill cap = Ok (out, e') -> enc_inv e');
    co_dec_init : dec_inv dec_init;
    co_dec_feed : forall v m d b, dec_inv d ->
                    (forall site, snd (dec_feed v m d b) <> Panic site) /\ dec_inv (fst (fst (dec_feed v m d b)));
    co_ores : forall o a t, ores_inv o ->
                (forall site, ores_resolve o a t <> Panic site) /\ (forall o' r, ores_resolve o a t = Ok (o', r) -> ores_inv o');
    co_ores_reset : forall o n, ores_inv o -> ores_inv (ores_reset o n);
    co_ires : forall i a t, ires_inv i ->
                (forall site, ires_resolve i a t <> Panic site) /\ (forall i' b, ires_resolve i a t = Ok (i', b) -> ires_inv i');
    co_ires_reset : forall i, ires_inv i -> ires_inv (ires_reset i);
    co_v_out_some : forall st co r p site, v_out (Some st) co r p <> Panic site;
    co_v_out_connect : forall co r c site, v_out None co r (Connect c) <> Panic site;
    co_v_in : forall st p site, v_in st p <> Panic site }.

  (* the component states held by an engine state satisfy their invariants *)
  Definition cinv (HC : comps_ok) (s : state enc dec ores ires) : Prop :=
    (forall e, s_enc s = Some e -> enc_inv HC e) /\ dec_inv HC (s_dec s) /\ ores_inv HC (s_ores s) /\ ires_inv HC (s_ires s).

  (* the four component fields *)
  Definition comp_of (s : state enc dec ores ires) := (s_enc s, s_dec s, s_ores s, s_ires s).

  Lemma cinv_comp (HC : comps_ok) (s s' : state enc dec ores ires) : comp_of s' = comp_of s -> cinv HC s -> cinv HC s'.
  Proof.
    unfold comp_of, cinv. intros H. repeat (apply pair_equal_spec in H; destruct H as [H ?]).
    repeat match goal with E : _ s' = _ s |- _ => rewrite E; clear E end. tauto.
  Qed.
End Comps.

Arguments enc_inv {enc enc_reset enc_call dec dec_init dec_feed ores ores_reset ores_resolve ires ires_reset ires_resolve v_out v_in} _.
Arguments dec_inv {enc enc_reset enc_call dec dec_init dec_feed ores ores_reset ores_resolve ires ires_reset ires_resolve v_out v_in} _.
Arguments ores_inv {enc enc_reset enc_call dec dec_init dec_feed ores ores_reset ores_resolve ires ires_reset ires_resolve v_out v_in} _.
Arguments ires_inv {enc enc_reset enc_call dec dec_init dec_feed ores ores_reset ores_resolve ires ires_reset ires_resolve v_out v_in} _.
Arguments co_enc_reset {enc enc_reset enc_call dec dec_init dec_feed ores ores_reset ores_resolve ires ires_reset ires_resolve v_out v_in} _.
Arguments co_enc_call {enc enc_reset enc_call dec dec_init dec_feed ores ores_reset ores_resolve ires ires_reset ires_resolve v_out v_in} _.
Arguments co_dec_init {enc enc_reset enc_call dec dec_init dec_feed ores ores_reset ores_resolve ires ires_reset ires_resolve v_out v_in} _.
Arguments co_dec_feed {enc enc_reset enc_call dec dec_init dec_feed ores ores_reset ores_resolve ires ires_reset ires_resolve v_out v_in} _.
Arguments co_ores {enc enc_reset enc_call dec dec_init dec_feed ores ores_reset ores_resolve ires ires_reset ires_resolve v_out v_in} _.
Arguments co_ores_reset {enc enc_reset enc_call dec dec_init dec_feed ores ores_reset ores_resolve ires ires_reset ires_resolve v_out v_in} _.
Arguments co_ires {enc enc_reset enc_call dec dec_init dec_feed ores ores_reset ores_resolve ires ires_reset ires_resolve v_out v_in} _.
Arguments co_ires_reset {enc enc_reset enc_call dec dec_init dec_feed ores ores_reset ores_resolve ires ires_reset ires_resolve v_out v_in} _.
Arguments co_v_out_some {enc enc_reset enc_call dec dec_init dec_feed ores ores_reset ores_resolve ires ires_reset ires_resolve v_out v_in} _.
Arguments co_v_out_connect {enc enc_reset enc_call dec dec_init dec_feed ores ores_reset ores_resolve ires ires_reset ires_resolve v_out v_in} _.
Arguments co_v_in {enc enc_reset enc_call dec dec_init dec_feed ores ores_reset ores_resolve ires ires_reset ires_resolve v_out v_in} _.
Arguments cinv {enc enc_reset enc_call dec dec_init dec_feed ores ores_reset ores_resolve ires ires_reset ires_resolve v_out v_in} HC s.
Arguments cinv_comp {enc enc_reset enc_call dec dec_init dec_feed ores ores_reset ores_resolve ires ires_reset ires_resolve v_out v_in} HC s s' _ _.
Arguments comp_of {enc dec ores ires} s.
