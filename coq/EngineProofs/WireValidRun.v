(* C02 at run level, abstract engine: after every event history (from any well-formed state that satisfies GI, in
   particular the initial one), GI holds, and every packet an encoder was constructed for ([encodes] of the alias
   log) was accepted by the send-time validator with its resolution, is the seated packet of a good operation, and
   carries a resolution within the resolver bound ([pr_good]).  Hypotheses: WFDefs.ok_event / ok_cfg, the component
   facts of WireValidFrame.wv_comps, and [sub_ev]: submitted packets passed the submission-time validator, incoming
   data are octets. *)
From GM Require Import Base.Prelude Base.Outcome Codec.Packets Codec.Prim Codec.Settings Codec.ValidC2S.
From GM Require Import ValidateProofs.BridgeDefs ValidateProofs.BridgeConnect.
From GM Require Import Engine.Model EngineProofs.AssocLemmas EngineProofs.WFLemmas EngineProofs.Frames EngineProofs.HandshakeRunTrace
  EngineProofs.HandshakeRunFrame EngineProofs.WFDefs EngineProofs.WFStep EngineProofs.AliasRunLog EngineProofs.WireRunLog
  EngineProofs.WireValidDefs EngineProofs.WireValidFrame EngineProofs.WireValidSeat EngineProofs.WireValidFrame2.
From RecordUpdate Require Import RecordSet.
Import RecordSetNotations.
Open Scope N_scope.

(* the four component types are implicit in the engine functions, locally to this file *)
#[local] Arguments init {enc dec} _ {ores ires} _ _.
#[local] Arguments release {enc dec ores ires} _ _ _ _.
#[local] Arguments disconnect_completion {enc dec ores ires} _ _.
#[local] Arguments fail_op {enc dec ores ires} _ _ _ _.
#[local] Arguments ping_extension {enc dec ores ires} _ _.
#[local] Arguments succeed_op {enc dec ores ires} _ _ _ _.
#[local] Arguments fail_all {enc dec ores ires} _ _ _ _.
#[local] Arguments succeed_all {enc dec ores ires} _ _ _.
#[local] Arguments andthen {enc dec ores ires} _ _.
#[local] Arguments try_ {enc dec ores ires} _ _.
#[local] Arguments pure {enc dec ores ires} _.
#[local] Arguments create_operation {enc dec ores ires} _ _.
#[local] Arguments passes_now {enc dec ores ires} _ _ _.
#[local] Arguments user_event {enc dec ores ires} _ _ _ _.
#[local] Arguments create_connect {enc dec ores ires} _ _.
#[local] Arguments net_opened {enc dec} _ {ores ires} _ _ _.
#[local] Arguments op_exists {enc dec ores ires} _ _.
#[local] Arguments op_passes {enc dec ores ires} _ _ _.
#[local] Arguments partition_policy {enc dec ores ires} _ _ _.
#[local] Arguments closed_current {enc dec ores ires} _ _.
#[local] Arguments slow_start_init {enc dec ores ires} _ _.
#[local] Arguments update_retries {enc dec ores ires} _ _.
#[local] Arguments fail_exceeding {enc dec ores ires} _ _.
#[local] Arguments has_pubrel {enc dec ores ires} _ _.
#[local] Arguments net_closed_raw {enc dec ores ires} _ _.
#[local] Arguments net_closed {enc dec ores ires} _ _.
#[local] Arguments net_write_completion {enc dec ores ires} _ _.
#[local] Arguments acquire_free_pid {enc dec ores ires} _ _.
#[local] Arguments acquire_pid_for {enc dec ores ires} _ _.
#[local] Arguments unbind {enc dec ores ires} _ _.
#[local] Arguments passes_receive_max {enc dec ores ires} _ _.
#[local] Arguments throttled {enc dec ores ires} _ _.
#[local] Arguments has_pending_ack {enc dec ores ires} _.
#[local] Arguments dequeue {enc dec ores ires} _ _ _.
#[local] Arguments fully_written {enc dec ores ires} _ _.
#[local] Arguments service_keep_alive {enc dec ores ires} _ _ _.
#[local] Arguments process_ack_timeouts {enc dec ores ires} _ _ _.
#[local] Arguments halt_on_error {enc dec ores ires} _ _.
#[local] Arguments next_service_time {enc dec ores ires} _ _ _.
#[local] Arguments build_settings {enc dec ores ires} _ _ _.
#[local] Arguments apply_session {enc dec ores ires} _ _ _.
#[local] Arguments hres_of {enc dec ores ires} _ _.
#[local] Arguments pre_connack {enc dec ores ires} _.
#[local] Arguments sum_ss {enc dec ores ires} _.
#[local] Arguments handle_pingresp {enc dec ores ires} _.
#[local] Arguments handle_suback {enc dec ores ires} _ _ _.
#[local] Arguments handle_unsuback {enc dec ores ires} _ _ _.
#[local] Arguments publish_qos_of {enc dec ores ires} _ _.
#[local] Arguments handle_puback {enc dec ores ires} _ _ _.
#[local] Arguments handle_pubrec {enc dec ores ires} _ _ _.
#[local] Arguments handle_pubrel {enc dec ores ires} _ _.
#[local] Arguments handle_pubcomp {enc dec ores ires} _ _ _.
#[local] Arguments handle_publish {enc dec ores ires} _ _.
#[local] Arguments handle_disconnect {enc dec ores ires} _ _ _.
#[local] Arguments is_connect_op {enc dec ores ires} _ _.
#[local] Arguments connect_in_queue {enc dec ores ires} _.
#[local] Arguments reset {enc dec ores ires} _ _.
#[local] Arguments out_of_res {enc dec ores ires} _ _.
#[local] Arguments nst_queue {enc dec ores ires} _ _ _ _.
#[local] Arguments earliest_tmo {enc dec ores ires} _.
#[local] Arguments SeatStop {enc dec ores ires} _.
#[local] Arguments SeatContinue {enc dec ores ires} _ _.
#[local] Arguments SeatEncode {enc dec ores ires} _.

Section WVRun.
  Variable enc : Type.
  Variable enc_reset : version -> packet -> resolution -> outcome enc.
  Variable enc_call : enc -> N -> N -> outcome (bytes * enc).
  Variable enc_done : enc -> bool.
  Variable dec : Type.
  Variable dec_init : dec.
  Variable dec_feed : version -> N -> dec -> bytes -> dec * list packet * outcome unit.
  Variable ores : Type.
  Variable ores_reset : ores -> N -> ores.
  Variable ores_resolve : ores -> option N -> bytes -> outcome (ores * resolution).
  Variable ires : Type.
  Variable ires_reset : ires -> ires.
  Variable ires_resolve : ires -> option N -> bytes -> outcome (ires * bytes).
  Variable v_out : option settings -> connect_opts -> resolution -> packet -> outcome unit.
  Variable v_in : option settings -> packet -> outcome unit.
  Variable cfg : config.

  Notation state := (state enc dec ores ires).
  Notation res := (res enc dec ores ires).
  Notation step := (step enc enc_reset enc_call enc_done dec dec_init dec_feed ores ores_reset ores_resolve
                         ires ires_reset ires_resolve v_out v_in cfg).
  Notation run := (run enc enc_reset enc_call enc_done dec dec_init dec_feed ores ores_reset ores_resolve
                       ires ires_reset ires_resolve v_out v_in cfg).
  Notation seat_current := (seat_current enc enc_reset dec ores ores_reset ores_resolve ires v_out cfg).
  Notation service_loop := (service_loop enc enc_reset enc_call enc_done dec ores ores_reset ores_resolve ires v_out cfg).
  Notation service_queue := (service_queue enc enc_reset enc_call enc_done dec ores ores_reset ores_resolve ires v_out cfg).
  Notation service := (service enc enc_reset enc_call enc_done dec ores ores_reset ores_resolve ires v_out cfg).
  Notation handle_connack := (handle_connack enc dec ores ores_reset ires ires_reset v_in cfg).
  Notation handle_packet := (handle_packet enc dec ores ores_reset ires ires_reset v_in cfg).
  Notation handle_packets := (handle_packets enc dec ores ores_reset ires ires_reset ires_resolve v_in cfg).
  Notation net_data := (net_data enc dec dec_feed ores ores_reset ires ires_reset ires_resolve v_in cfg).
  Notation encode_next := (encode_next enc enc_call enc_done dec ores ires).
  Notation SUB := (SUB enc dec ores ires).
  Notation same_static := (same_static enc dec ores ires).
  Notation v := (cf_version cfg).
  Variable HC : comps_ok enc enc_reset enc_call dec dec_init dec_feed ores ores_reset ores_resolve ires ires_reset ires_resolve v_out v_in.
  Hypothesis Hcfg : ok_cfg cfg.
  Variable HW : wv_comps dec ores dec_init dec_feed ores_reset ores_resolve v_in v (cf_connect cfg).

  Notation GI := (GI enc dec dec_init dec_feed ores ores_reset ores_resolve ires v_in cfg HW).
  Notation FR := (FR enc dec dec_init dec_feed ores ores_reset ores_resolve ires v_in cfg HW).
  Notation WFX := (WFX enc enc_reset enc_call dec dec_init dec_feed ores ores_reset ores_resolve ires ires_reset ires_resolve v_out v_in cfg HC).
  Notation evgood := (evgood v_out cfg).
  Notation step_olog := (step_olog enc enc_reset enc_call enc_done dec dec_feed ores ores_reset ores_resolve ires ires_reset ires_resolve v_out v_in cfg).
  Notation run_olog := (run_olog enc enc_reset enc_call enc_done dec dec_init dec_feed ores ores_reset ores_resolve ires ires_reset ires_resolve v_out v_in cfg).
  Notation handle_packets_a := (handle_packets_a enc dec ores ores_reset ires ires_reset ires_resolve v_in cfg).
  Notation halt_FR := (halt_on_error_FR enc dec dec_init dec_feed ores ores_reset ores_resolve ires v_in cfg HW).

  (* what the environment guarantees beyond WFDefs.ok_event: a submitted packet is one of the four user kinds, a value of
     the Rust packet type, accepted by the submission-time validator and shorter than 4 GiB; incoming data are octets *)
  Definition sub_ev (e : event) : Prop :=
    match e with
    | EvUser _ p _ => sub_good p
    | EvData _ data => bytes_ok data = true
    | _ => True
    end.

  Lemma init_GI (o : ores) (i : ires) : ores_good HW o -> GI (init (enc:=enc) dec_init o i).
  Proof.
    intros Ho. split; [apply OGt_nil|]. split; [cbn; lia|]. split; [intros st Hst; discriminate|]. split; [apply (wv_dec_init HW)|exact Ho].
  Qed.

  (* the inbound path constructs no encoder *)
  Lemma packets_olog_good now : forall ps (s : state) dn ev, Forall evgood (snd (snd (handle_packets_a s now ps dn ev))).
  Proof.
    induction ps as [|p rest IH]; intros s dn ev; cbn [AliasRunLog.handle_packets_a]; [constructor|].
    destruct (match p with
              | Publish pb => do (i', t) <- ires_resolve (s_ires s) (pub_alias pb) (pub_topic pb) ; Ok (s <| s_ires := i' |>, Publish (with_topic pb t))
              | _ => Ok (s, p) end) as [[s1 p1]|k|site]; cbn [snd]; [|constructor|constructor].
    destruct (v_in (s_settings s1) p1); cbn [snd]; [|constructor|constructor].
    cbv zeta.
    assert (Hl : Forall evgood (packet_olog enc dec ores ires v_in s1 p1)).
    { unfold packet_olog. destruct p1; try constructor. destruct (connack_accepted _ _ _ _ _ _ _); repeat constructor. }
    destruct (h_out (handle_packet s1 now p1)); cbn [snd]; [apply Forall_app; split; [exact Hl|apply IH]|exact Hl|exact Hl].
  Qed.

  Theorem step_good (s : state) e :
    WFX s -> GI s -> ok_event e -> sub_ev e -> GI (fst (step s e)) /\ Forall evgood (step_olog s e).
  Proof.
    intros HWF G Hev Hsub.
    destruct e as [now p t|now dl|now|now data|now|now cap fill|now|now]; cbn [Model.step AliasRunLog.step_olog].
    - unfold out_of_res. cbn [fst]. split; [|constructor].
      exact (user_event_FR enc dec dec_init dec_feed ores ores_reset ores_resolve ires v_in cfg HW s p t Hsub G).
    - unfold out_of_res. cbn [fst]. split; [|destruct (pstate_eqb _ _); repeat constructor].
      apply halt_FR. exact (net_opened_FR enc dec dec_init dec_feed ores ores_reset ores_resolve ires v_in cfg HW s dl G).
    - unfold out_of_res. cbn [fst]. split; [|destruct (pstate_eqb _ _); repeat constructor].
      apply halt_FR. destruct HWF as [[HS _] _].
      exact (net_closed_FR enc dec dec_init dec_feed ores ores_reset ores_resolve ires v_in cfg HW s HS G).
    - cbn [fst]. split.
      + apply halt_FR. exact (net_data_FR enc enc_reset enc_call dec dec_init dec_feed ores ores_reset ores_resolve ires ires_reset ires_resolve v_in cfg HW s now data Hsub G).
      + unfold data_logs. destruct (_ || _); [constructor|]. destruct (_ && _); [constructor|].
        destruct (dec_feed _ _ _ _) as [[d' ps] r]. destruct r; cbn [snd]; [apply packets_olog_good|constructor|constructor].
    - unfold out_of_res. cbn [fst]. split; [|constructor].
      apply halt_FR. exact (net_write_completion_FR enc dec dec_init dec_feed ores ores_reset ores_resolve ires v_in cfg HW s G).
    - cbn [fst]. exact (service_good enc enc_reset enc_call enc_done dec dec_init dec_feed ores ores_reset ores_resolve ires v_out v_in cfg HW s now cap fill G).
    - split; [|constructor]. destruct (next_service_time cfg s now); exact G.
    - unfold out_of_res. cbn [fst]. split; [|repeat constructor].
      exact (reset_FR enc dec dec_init dec_feed ores ores_reset ores_resolve ires v_in cfg HW s G).
  Qed.

  Theorem run_good : forall h (s : state),
    WFX s -> GI s -> Forall ok_event h -> Forall sub_ev h -> GI (fst (run s h)) /\ Forall evgood (run_olog s h).
  Proof.
    induction h as [|e r IH]; intros s HWF G Hok Hsub; cbn [Model.run AliasRunLog.run_olog]; [split; [exact G|constructor]|].
    inversion Hok as [|? ? He Hr]; subst. inversion Hsub as [|? ? Hs Hrs]; subst.
    destruct (step_good s e HWF G He Hs) as [G1 L1].
    pose proof (WF_step enc enc_reset enc_call enc_done dec dec_init dec_feed ores ores_reset ores_resolve ires ires_reset ires_resolve v_out v_in
                  cfg HC Hcfg s e HWF He) as W1.
    destruct (step s e) as [s1 o1]. cbn [fst] in *. destruct (IH s1 W1 G1 Hr Hrs) as [G2 L2].
    destruct (run s1 r) as [s2 os]. cbn [fst] in *. split; [exact G2|apply Forall_app; split; assumption].
  Qed.

  (* the packets an encoder was constructed for *)
  Definition pr_good (x : packet * resolution) : Prop :=
    (exists sto, v_out sto (cf_connect cfg) (snd x) (fst x) = Ok tt) /\ gseat v (fst x) /\ res_le (Bv v) (snd x).

  Lemma encodes_good l : Forall evgood l -> Forall pr_good (encodes l).
  Proof.
    induction l as [|e l IH]; intros H; [constructor|]. inversion H as [|? ? He Hl]; subst. unfold encodes. cbn [flat_map].
    apply Forall_app. split; [|apply IH; exact Hl]. destruct e; try constructor. destruct ok; constructor; [exact He|constructor].
  Qed.

  Theorem run_encodes_good h (s : state) :
    WFX s -> GI s -> Forall ok_event h -> Forall sub_ev h -> Forall pr_good (encodes (run_olog s h)).
  Proof. intros A B0 C D. apply encodes_good. apply (run_good h s A B0 C D). Qed.
End WVRun.
