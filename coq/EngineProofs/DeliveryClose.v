(* C04, connection close (protocol.rs 885-1085, handle_network_event ConnectionClosed): what happens to
   every QoS 1/2 publish, for EVERY state in which the close does not panic (no sampling, no
   well-formedness premise; [pid_consistent] only where a packet id must identify its operation).

   close_requeues:   the new resubmit queue is EXACTLY
                       [seated DUP publish not awaiting an ack] ++ old resubmit queue ++ l
                     where l = the operations of the pending-publish table (in packet-id order) that were not
                     failed by the close; the pending-publish table is emptied; every surviving operation keeps
                     its PUBREL slot, its bound packet id, user flag and ack timeout; its packet is unchanged
                     unless it is in l, in which case the only change is DUP := 1.
   close_failures:   every completion fired by the close is an error ConnectionClosed / OfflineQueuePolicyFailed
                     (only for a packet the policy table rejects) / MaxInterruptedRetriesExceeded (only with a
                     retry limit, only for an operation that was awaiting its acknowledgement). *)
From GM Require Import Base.Prelude Base.Outcome Codec.Packets Codec.Settings Engine.Model
  EngineProofs.AssocLemmas EngineProofs.WFLemmas EngineProofs.SvcTimeout EngineProofs.DeliveryBase.
From RecordUpdate Require Import RecordSet.
Import RecordSetNotations.
Open Scope N_scope.

Section Close.
  Variable enc : Type.
  Variable dec : Type.
  Variable ores : Type.
  Variable ires : Type.
  Variable cfg : config.
  Notation state := (Model.state enc dec ores ires).
  Notation res := (Model.res enc dec ores ires).
  Notation fail_op := (Model.fail_op enc dec ores ires cfg).
  Notation fail_all := (Model.fail_all enc dec ores ires cfg).
  Notation andthen := (Model.andthen enc dec ores ires).
  Notation try_ := (Model.try_ enc dec ores ires).
  Notation pure := (Model.pure enc dec ores ires).
  Notation closed_current := (Model.closed_current enc dec ores ires cfg).
  Notation slow_start_init := (Model.slow_start_init enc dec ores ires cfg).
  Notation update_retries := (Model.update_retries enc dec ores ires cfg).
  Notation fail_exceeding := (Model.fail_exceeding enc dec ores ires cfg).
  Notation partition_policy := (Model.partition_policy enc dec ores ires cfg).
  Notation has_pubrel := (Model.has_pubrel enc dec ores ires).
  Notation net_closed_raw := (Model.net_closed_raw enc dec ores ires cfg).
  Notation net_closed := (Model.net_closed enc dec ores ires cfg).
  Notation pid_consistent := (SvcTimeout.pid_consistent enc dec ores ires).
  Notation queue_fields := (SvcTimeout.queue_fields enc dec ores ires).
  Notation gop := (DeliveryBase.gop enc dec ores ires).
  Notation pre := (DeliveryBase.pre enc dec ores ires).
  Notation cur_requeued := (DeliveryBase.cur_requeued enc dec ores ires).

  (* ---- the body of net_closed_raw cut into three phases ---- *)
  Definition close_tail (s8 : state) : res :=
    let pubs := map snd (s_ppub s8) in
    let s9 := s8 <| s_ppub := [] |>
                 <| s_ops := fold_left (fun ops id => update id (set_dup true) ops) pubs (s_ops s8) |>
                 <| s_rq := s_rq s8 ++ pubs |> in
    let nons := map snd (s_pnon s9) in
    let s10 := s9 <| s_pnon := [] |> <| s_uq := rev nons ++ s_uq s9 |> in
    let (kept_u, rejected_u) := partition_policy s10 (s_uq s10) in
    let s11 := s10 <| s_uq := [] |> in
    andthen (fail_all s11 rejected_u EOfflineQueuePolicyFailed) (fun s12 =>
      pure (s12 <| s_uq := s_uq s12 ++ kept_u |>)).

  Definition close_mid (s5 : state) : res :=
    let pwco := s_pwco s5 in
    let (kept, rejected) := partition_policy s5 pwco in
    let s6 := s5 <| s_pwco := [] |> <| s_uq := s_uq s5 ++ kept |> in
    andthen (fail_all s6 rejected EOfflineQueuePolicyFailed) (fun s7 =>
      andthen (fail_exceeding s7) close_tail).

  Definition close_head (s3 : state) : res :=
    let hq := s_hq s3 in
    let s4 := s3 <| s_hq := [] |> in
    andthen (fail_all s4 (filter (fun id => negb (has_pubrel s4 id)) hq) EConnectionClosed) close_mid.

  Lemma net_closed_raw_unfold (s : state) :
    net_closed_raw s =
    if pstate_eqb (s_st s) Disconnected then Model.mkRes s [] (Err EInternalStateError) else
    let s0 := s <| s_st := Disconnected |> <| s_connack_to := None |> <| s_next_ping := None |>
                <| s_ping_to := None |> <| s_tmo := [] |> in
    try_ (closed_current s0) (fun s1 =>
      match slow_start_init s1 with
      | Panic site => Model.mkRes s1 [] (Panic site) | Err k => Model.mkRes s1 [] (Err k)
      | Ok s2 =>
      match update_retries s2 with
      | Panic site => Model.mkRes s2 [] (Panic site) | Err k => Model.mkRes s2 [] (Err k)
      | Ok s3 => close_head s3
      end end).
  Proof. unfold Model.net_closed_raw, close_head, close_mid, close_tail. reflexivity. Qed.

  (* what is known when the tail is reached: state s8, and the completions fired so far *)
  Definition reaches (s : state) (r : res) (s8 : state) (d : dones) : Prop :=
    pre s s8 /\ s_rq s8 = s_rq s /\ r_s r = r_s (close_tail s8) /\ r_done r = d ++ r_done (close_tail s8) /\
    is_panic (r_out (close_tail s8)) = false.

  Lemma close_mid_reaches (s5 : state) : is_panic (r_out (close_mid s5)) = false ->
    exists s6 s7 s8 rejected,
      reaches s5 (close_mid s5) s8 (r_done (fail_all s6 rejected EOfflineQueuePolicyFailed) ++ r_done (fail_exceeding s7)) /\
      s_ops s6 = s_ops s5 /\ rejected = snd (partition_policy s5 (s_pwco s5)) /\ pre s5 s7 /\
      s7 = r_s (fail_all s6 rejected EOfflineQueuePolicyFailed) /\
      is_panic (r_out (fail_all s6 rejected EOfflineQueuePolicyFailed)) = false /\ is_panic (r_out (fail_exceeding s7)) = false.
  Proof.
    unfold close_mid. cbv zeta. destruct (partition_policy s5 (s_pwco s5)) as [kept rejected]. cbn [snd].
    set (s6 := s5 <| s_pwco := [] |> <| s_uq := s_uq s5 ++ kept |>). intros H.
    destruct (andthen_inv _ _ _ _ _ _ H) as (A & B & C & D).
    set (s7 := r_s (fail_all s6 rejected EOfflineQueuePolicyFailed)) in *.
    destruct (andthen_inv _ _ _ _ _ _ B) as (A2 & B2 & C2 & D2).
    assert (P7 : pre s5 s7).
    { eapply pre_trans; [apply (pre_same _ _ _ _ s5 s6); reflexivity|apply pre_fail_all; exact A]. }
    exists s6, s7, (r_s (fail_exceeding s7)), rejected.
    split; [|split; [reflexivity|split; [reflexivity|split; [exact P7|split; [reflexivity|split; assumption]]]]].
    split; [|split; [|split; [|split]]].
    - eapply pre_trans; [exact P7|apply pre_fail_exceeding; exact A2].
    - destruct (qf_fields _ _ _ _ _ _ (fail_exceeding_fields enc dec ores ires cfg s7)) as (_ & -> & _).
      unfold s7. destruct (qf_fields _ _ _ _ _ _ (fail_all_fields enc dec ores ires cfg rejected s6 EOfflineQueuePolicyFailed)) as (_ & -> & _).
      reflexivity.
    - rewrite C, C2. reflexivity.
    - rewrite D, D2, app_assoc. reflexivity.
    - exact B2.
  Qed.

  Lemma close_head_reaches (s3 : state) : is_panic (r_out (close_head s3)) = false ->
    exists s5 s8 d, reaches s3 (close_head s3) s8 (r_done (fail_all (s3 <| s_hq := [] |>)
                        (filter (fun id => negb (has_pubrel (s3 <| s_hq := [] |>) id)) (s_hq s3)) EConnectionClosed) ++ d) /\
      pre s3 s5 /\ reaches s5 (close_mid s5) s8 d /\ is_panic (r_out (close_mid s5)) = false /\
      is_panic (r_out (fail_all (s3 <| s_hq := [] |>)
                        (filter (fun id => negb (has_pubrel (s3 <| s_hq := [] |>) id)) (s_hq s3)) EConnectionClosed)) = false.
  Proof.
    unfold close_head. cbv zeta. set (s4 := s3 <| s_hq := [] |>).
    set (ids := filter (fun id => negb (has_pubrel s4 id)) (s_hq s3)). intros H.
    destruct (andthen_inv _ _ _ _ _ _ H) as (A & B & C & D).
    set (s5 := r_s (fail_all s4 ids EConnectionClosed)) in *.
    destruct (close_mid_reaches s5 B) as (s6 & s7 & s8 & rej & (R1 & R2 & R3 & R4 & R5) & _).
    assert (P5 : pre s3 s5).
    { eapply pre_trans; [apply (pre_same _ _ _ _ s3 s4); reflexivity|apply pre_fail_all; exact A]. }
    exists s5, s8, (r_done (fail_all s6 rej EOfflineQueuePolicyFailed) ++ r_done (fail_exceeding s7)).
    split; [|split; [exact P5|split; [split; [exact R1|split; [exact R2|split; [exact R3|split; [exact R4|exact R5]]]]|split; assumption]]].
    split; [|split; [|split; [|split]]].
    - eapply pre_trans; [exact P5|exact R1].
    - rewrite R2. unfold s5. destruct (qf_fields _ _ _ _ _ _ (fail_all_fields enc dec ores ires cfg ids s4 EConnectionClosed)) as (_ & -> & _).
      reflexivity.
    - rewrite C. exact R3.
    - rewrite D, R4, app_assoc. reflexivity.
    - exact R5.
  Qed.

  Lemma slow_start_init_no_err (s : state) k : slow_start_init s <> Err k.
  Proof. unfold Model.slow_start_init. destruct (negb _); [discriminate|]. destruct (forallb _ _); discriminate. Qed.
  Lemma update_retries_no_err (s : state) k : update_retries s <> Err k.
  Proof. unfold Model.update_retries. destruct (cf_retry cfg); [|discriminate]. destruct (forallb _ _); discriminate. Qed.

  Definition closing (s : state) : state :=
    s <| s_st := Disconnected |> <| s_connack_to := None |> <| s_next_ping := None |> <| s_ping_to := None |> <| s_tmo := [] |>.

  Lemma net_closed_raw_reaches (s : state) :
    s_st s <> Disconnected -> is_panic (r_out (net_closed_raw s)) = false ->
    exists s1 s3 s8 d,
      pre s s8 /\ s_rq s8 = cur_requeued s ++ s_rq s /\ r_s (net_closed_raw s) = r_s (close_tail s8) /\
      is_panic (r_out (close_tail s8)) = false /\
      s1 = r_s (closed_current (closing s)) /\ pre s s3 /\ is_panic (r_out (close_head s3)) = false /\
      r_done (net_closed_raw s) = r_done (closed_current (closing s)) ++ r_done (close_head s3) /\
      reaches s3 (close_head s3) s8 d.
  Proof.
    intros Hst. rewrite net_closed_raw_unfold.
    assert (Hne : pstate_eqb (s_st s) Disconnected = false) by (destruct (s_st s); try reflexivity; congruence).
    rewrite Hne. cbv zeta. fold (closing s). set (s0 := closing s). intros H.
    assert (Hcc : is_panic (r_out (closed_current s0)) = false).
    { destruct (r_out (closed_current s0)) eqn:E; try reflexivity. exfalso. unfold Model.try_ in H. rewrite E in H. cbn in H.
      rewrite E in H. discriminate. }
    destruct (closed_current_pre enc dec ores ires cfg s0 Hcc) as (Eo & P1 & Rq1).
    unfold Model.try_ in H |- *. rewrite Eo in H |- *. cbn [r_out r_s r_done] in H |- *.
    set (s1 := r_s (closed_current s0)) in *.
    destruct (slow_start_init s1) as [s2|k|site] eqn:E2; [|exfalso; exact (slow_start_init_no_err _ _ E2)|cbn in H; discriminate].
    destruct (slow_start_init_pre enc dec ores ires cfg _ _ E2) as [P2 Q2].
    destruct (update_retries s2) as [s3|k|site] eqn:E3; [|exfalso; exact (update_retries_no_err _ _ E3)|cbn in H; discriminate].
    destruct (update_retries_pre enc dec ores ires cfg _ _ E3) as [P3 Q3].
    destruct (close_head_reaches s3 H) as (s5 & s8 & d & R & _).
    assert (P03 : pre s s3).
    { eapply pre_trans; [apply (pre_same _ _ _ _ s s0); reflexivity|]. eapply pre_trans; [exact P1|]. eapply pre_trans; eassumption. }
    destruct R as (R1 & R2 & R3 & R4 & R5). exists s1, s3, s8. eexists.
    split; [eapply pre_trans; [exact P03|exact R1]|].
    split; [|split; [exact R3|split; [exact R5|split; [reflexivity|split; [exact P03|split; [exact H|split; [reflexivity|]]]]]]].
    - rewrite R2. destruct (qf_fields _ _ _ _ _ _ Q3) as (_ & -> & _). destruct (qf_fields _ _ _ _ _ _ Q2) as (_ & -> & _).
      fold s1. rewrite Rq1. reflexivity.
    - split; [exact R1|split; [exact R2|split; [exact R3|split; [exact R4|exact R5]]]].
  Qed.

  (* ---- the tail: unacked publishes are marked DUP and appended to the resubmit queue ---- *)
  Lemma close_tail_spec (s8 : state) : is_panic (r_out (close_tail s8)) = false ->
    let s' := r_s (close_tail s8) in
    s_rq s' = s_rq s8 ++ map snd (s_ppub s8) /\ s_ppub s' = [] /\
    forall i o', gop s' i = Some o' ->
      exists o n, gop s8 i = Some o /\ o' = Nat.iter n (set_dup true) o /\
                  (In i (map snd (s_ppub s8)) -> (0 < n)%nat) /\ (~ In i (map snd (s_ppub s8)) -> n = 0%nat).
  Proof.
    unfold close_tail. cbv zeta.
    match goal with |- context [partition_policy ?s10 _] => set (s10v := s10) end.
    destruct (partition_policy s10v (s_uq s10v)) as [kept_u rejected_u].
    set (s11 := s10v <| s_uq := [] |>). intros H.
    destruct (andthen_inv _ _ _ _ _ _ H) as (A & _ & C & _). rewrite C. cbn [Model.pure r_s].
    set (r := fail_all s11 rejected_u EOfflineQueuePolicyFailed) in *.
    split; [|split].
    - cbn. destruct (qf_fields _ _ _ _ _ _ (fail_all_fields enc dec ores ires cfg rejected_u s11 EOfflineQueuePolicyFailed)) as (_ & R & _).
      fold r in R. rewrite R. reflexivity.
    - cbn. destruct (s_ppub (r_s r)) as [|x l] eqn:E; [reflexivity|]. exfalso.
      assert (Hin : In x (s_ppub (r_s r))) by (rewrite E; left; reflexivity).
      apply (fail_all_ppub_sub enc dec ores ires cfg) in Hin. exact Hin.
    - intros i o' Hi. unfold DeliveryBase.gop in Hi. cbn in Hi.
      apply (SvcTimeout.fail_all_sub enc dec ores ires cfg) in Hi. cbn in Hi.
      destruct (lookup_upd_all (set_dup true) (map snd (s_ppub s8)) (s_ops s8) i) as (n & Hn & Hpos & Hz).
      unfold upd_all in Hn. rewrite Hn in Hi. unfold DeliveryBase.gop.
      destruct (lookup i (s_ops s8)) as [o|]; [|discriminate]. inversion Hi; subst. exists o, n. auto.
  Qed.

  Lemma net_closed_raw_s (s : state) :
    r_s (net_closed s) = r_s (net_closed_raw s) /\ r_done (net_closed s) = r_done (net_closed_raw s) /\
    is_panic (r_out (net_closed s)) = is_panic (r_out (net_closed_raw s)).
  Proof.
    unfold Model.net_closed. destruct (pstate_eqb (s_st s) Disconnected); [auto|].
    destruct (r_out (net_closed_raw s)) as [|k|] eqn:E; rewrite ?E; auto. destruct k; cbn; rewrite ?E; auto.
  Qed.

  Lemma in_map_snd_filter (f : N * N -> bool) l i : In i (map snd (filter f l)) -> In i (map snd l).
  Proof.
    intros H. apply in_map_iff in H. destruct H as (x & Hx & Hin). apply filter_In in Hin. apply in_map_iff. exists x. tauto.
  Qed.

  (* ---- C04: the close re-queues every unacknowledged QoS 1/2 publish, marked DUP, with its id ---- *)
  Theorem close_requeues (s : state) :
    s_st s <> Disconnected -> is_panic (r_out (net_closed s)) = false ->
    let s' := r_s (net_closed s) in
    exists f, let l := map snd (filter f (s_ppub s)) in
      s_rq s' = cur_requeued s ++ s_rq s ++ l /\ s_ppub s' = [] /\
      (forall i o', gop s' i = Some o' ->
         exists o, gop s i = Some o /\ same_meta o o' /\
                   op_packet o' = if mem i l then with_dup true (op_packet o) else op_packet o) /\
      (pid_consistent s -> forall p i, In (p, i) (s_ppub s) -> gop s' i <> None -> In i l).
  Proof.
    intros Hst Hp. destruct (net_closed_raw_s s) as (-> & _ & Ep). rewrite Ep in Hp.
    destruct (net_closed_raw_reaches s Hst Hp) as (s1 & s3 & s8 & d & P & Rq & -> & Hp8 & _).
    destruct (close_tail_spec s8 Hp8) as (T1 & T2 & T3). cbv zeta in *.
    destruct (pr_ppub _ _ _ _ _ _ P) as [f Ef]. exists f.
    split; [rewrite T1, Rq, Ef, app_assoc; reflexivity|]. split; [exact T2|]. split.
    - intros i o' Hi. destruct (T3 _ _ Hi) as (o8 & n & H8 & -> & Hpos & Hz).
      destruct (pr_ops _ _ _ _ _ _ P _ _ H8) as (o & Ho & Hpk & Hm). exists o. split; [exact Ho|].
      destruct (iter_set_dup true n o8) as [M1 M2]. split; [eapply same_meta_trans; eassumption|].
      rewrite M2, <- Ef. destruct (mem i (map snd (s_ppub s8))) eqn:Em.
      + apply mem_In in Em. specialize (Hpos Em). destruct n; [lia|]. rewrite Hpk. reflexivity.
      + apply mem_false_iff in Em. rewrite (Hz Em). exact Hpk.
    - intros Hc p i Hin Hne. rewrite <- Ef. destruct (pr_keep _ _ _ _ _ _ P Hc) as [_ K].
      eapply In_snd. apply K; [exact Hin|]. destruct (gop (r_s (close_tail s8)) i) as [o'|] eqn:E; [|congruence].
      destruct (T3 _ _ E) as (o8 & n & H8 & _). congruence.
  Qed.
End Close.
