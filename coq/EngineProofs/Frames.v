(* Frame lemmas: the bookkeeping helpers that complete / fail / re-queue operations never touch the
   "static" part of the state: inbound QoS 2 set, alias resolvers, decoder, negotiated settings,
   packet-id cursor, connection-history flag, timers set elsewhere. *)
From GM Require Import Base.Prelude Base.Outcome Codec.Packets Codec.Settings Engine.Model.
From RecordUpdate Require Import RecordSet.
Import RecordSetNotations.
Open Scope N_scope.

Section Frames.
  Variable enc : Type.
  Variable dec : Type.
  Variable ores : Type.
  Variable ires : Type.
  Variable cfg : config.
  Notation state := (state enc dec ores ires).

  Definition same_static (s s' : state) : Prop :=
    s_q2in s' = s_q2in s /\ s_ores s' = s_ores s /\ s_ires s' = s_ires s /\ s_dec s' = s_dec s /\
    s_settings s' = s_settings s /\ s_next_pid s' = s_next_pid s /\ s_connected_before s' = s_connected_before s /\
    s_enc s' = s_enc s.

  Lemma same_static_refl s : same_static s s.
  Proof. unfold same_static. repeat split; reflexivity. Qed.

  Lemma same_static_trans s1 s2 s3 : same_static s1 s2 -> same_static s2 s3 -> same_static s1 s3.
  Proof. unfold same_static. intuition congruence. Qed.

  Ltac ss := unfold same_static; cbn; repeat split; reflexivity.

  Lemma release_static (s s' : state) id o : release enc dec ores ires cfg s id o = Ok s' -> same_static s s'.
  Proof.
    unfold release. destruct (op_pid o);
      destruct (_ && _ && _); try destruct (_ <=? _); intros H; inversion H; subst; ss.
  Qed.

  Lemma disconnect_completion_static (s : state) o :
    same_static s (fst (disconnect_completion enc dec ores ires s o)).
  Proof.
    unfold disconnect_completion. destruct (is_disconnect (op_packet o)); cbn; [|apply same_static_refl].
    destruct (pstate_eqb (s_st s) PendingDisconnect); cbn; [ss|apply same_static_refl].
  Qed.

  Lemma fail_op_static (s : state) id e : same_static s (r_s (fail_op enc dec ores ires cfg s id e)).
  Proof.
    unfold fail_op. destruct (lookup id (s_ops s)) as [o|]; [|apply same_static_refl].
    destruct (release enc dec ores ires cfg s id o) as [s1|k|site] eqn:Er; cbn; try apply same_static_refl.
    pose proof (release_static _ _ _ _ Er) as H1.
    pose proof (disconnect_completion_static s1 o) as H2.
    destruct (disconnect_completion enc dec ores ires s1 o) as [s2 r]. cbn in H2.
    destruct r; [destruct (op_user o)|..]; cbn; eapply same_static_trans; eauto.
  Qed.

  Lemma ping_extension_static (s : state) o : same_static s (ping_extension enc dec ores ires s o).
  Proof.
    unfold ping_extension.
    destruct (match op_packet o with Subscribe _ | Unsubscribe _ => op_ext o | Publish pb => _ | _ => None end);
      [|apply same_static_refl].
    destruct (s_settings s); [|apply same_static_refl]. destruct (s_next_ping s); [|apply same_static_refl].
    destruct (_ <? _); [ss|apply same_static_refl].
  Qed.

  Lemma succeed_op_static (s : state) id resp : same_static s (r_s (succeed_op enc dec ores ires cfg s id resp)).
  Proof.
    unfold succeed_op. destruct (lookup id (s_ops s)) as [o|]; [|apply same_static_refl].
    destruct (release enc dec ores ires cfg s id o) as [s1|k|site] eqn:Er; cbn; try apply same_static_refl.
    pose proof (release_static _ _ _ _ Er) as H1.
    pose proof (ping_extension_static s1 o) as H1'.
    pose proof (disconnect_completion_static (ping_extension enc dec ores ires s1 o) o) as H2.
    destruct (disconnect_completion enc dec ores ires (ping_extension enc dec ores ires s1 o) o) as [s2 r]. cbn in H2.
    assert (same_static s s2) by (eapply same_static_trans; [exact H1|eapply same_static_trans; eauto]).
    destruct r; [destruct (op_user o); [destruct (success_value o resp)|]|..]; cbn; assumption.
  Qed.

  Lemma fail_all_static ids : forall (s : state) e, same_static s (r_s (fail_all enc dec ores ires cfg s ids e)).
  Proof.
    induction ids as [|id rest IH]; intros s e; cbn [fail_all]; [apply same_static_refl|].
    pose proof (fail_op_static s id e) as H1.
    destruct (is_panic (r_out (fail_op enc dec ores ires cfg s id e))); [exact H1|].
    pose proof (IH (r_s (fail_op enc dec ores ires cfg s id e)) e) as H2.
    destruct (is_panic _); cbn; eapply same_static_trans; eauto.
  Qed.

  Lemma succeed_all_static ids : forall (s : state), same_static s (r_s (succeed_all enc dec ores ires cfg s ids)).
  Proof.
    induction ids as [|id rest IH]; intros s; cbn [succeed_all]; [apply same_static_refl|].
    pose proof (succeed_op_static s id None) as H1.
    destruct (is_panic (r_out (succeed_op enc dec ores ires cfg s id None))); [exact H1|].
    pose proof (IH (r_s (succeed_op enc dec ores ires cfg s id None))) as H2.
    destruct (is_panic _); cbn; eapply same_static_trans; eauto.
  Qed.

  Lemma andthen_static (r : res enc dec ores ires) f s0 :
    same_static s0 (r_s r) -> (forall s, same_static s (r_s (f s))) ->
    same_static s0 (r_s (andthen enc dec ores ires r f)).
  Proof.
    intros H1 Hf. unfold andthen. destruct (is_panic (r_out r)); [exact H1|].
    specialize (Hf (r_s r)). destruct (is_panic _); cbn; eapply same_static_trans; eauto.
  Qed.

  Lemma try_static (r : res enc dec ores ires) f s0 :
    same_static s0 (r_s r) -> (forall s, same_static s (r_s (f s))) ->
    same_static s0 (r_s (try_ enc dec ores ires r f)).
  Proof.
    intros H1 Hf. unfold try_. destruct (r_out r); cbn; [|exact H1|exact H1].
    eapply same_static_trans; [exact H1|apply Hf].
  Qed.
End Frames.

(* connection close and session handling *)
Section Frames2.
  Variable enc : Type.
  Variable dec : Type.
  Variable ores : Type.
  Variable ires : Type.
  Variable cfg : config.
  Notation state := (state enc dec ores ires).
  Notation same_static := (same_static enc dec ores ires).

  Ltac ss := unfold Frames.same_static; cbn; repeat split; reflexivity.
  Ltac trans_ss := eapply same_static_trans; eauto.

  Lemma closed_current_static (s : state) : same_static s (r_s (closed_current enc dec ores ires cfg s)).
  Proof.
    unfold closed_current. destruct (s_cur s) as [id|]; [|cbn; ss].
    apply try_static; [|intros s'; cbn; ss].
    destruct (lookup id (s_ops s)) as [o|]; [|cbn; apply same_static_refl].
    destruct (op_packet o);
      repeat match goal with
             | |- context [if ?b then _ else _] => destruct b
             | |- context [match lookup ?k ?l with _ => _ end] => destruct (lookup k l)
             end; cbn; try apply same_static_refl; try apply fail_op_static; try ss.
    all: pose proof (fail_op_static enc dec ores ires cfg s id EConnectionClosed) as H; destruct (is_panic _); exact H.
  Qed.

  Lemma slow_start_init_static (s s' : state) : slow_start_init enc dec ores ires cfg s = Ok s' -> same_static s s'.
  Proof.
    unfold slow_start_init. destruct (negb (cf_drain_one cfg)); [intros H; inversion H; apply same_static_refl|].
    destruct (forallb _ _); [|discriminate]. intros H; inversion H; subst. ss.
  Qed.

  Lemma update_retries_static (s s' : state) : update_retries enc dec ores ires cfg s = Ok s' -> same_static s s'.
  Proof.
    unfold update_retries. destruct (cf_retry cfg); [|intros H; inversion H; apply same_static_refl].
    destruct (forallb _ _); [|discriminate]. intros H; inversion H; subst. ss.
  Qed.

  Lemma fail_exceeding_static (s : state) : same_static s (r_s (fail_exceeding enc dec ores ires cfg s)).
  Proof.
    unfold fail_exceeding. destruct (cf_retry cfg) as [limit|]; [|cbn; apply same_static_refl].
    destruct (negb (forallb _ _)); [cbn; apply same_static_refl|].
    apply andthen_static; [apply fail_all_static|].
    intros s1. destruct (negb (forallb _ _)); [cbn; apply same_static_refl|apply fail_all_static].
  Qed.

  Lemma net_closed_raw_static (s : state) : same_static s (r_s (net_closed_raw enc dec ores ires cfg s)).
  Proof.
    unfold net_closed_raw. destruct (pstate_eqb (s_st s) Disconnected); [cbn; apply same_static_refl|].
    set (s0 := s <| s_st := Disconnected |> <| s_connack_to := None |> <| s_next_ping := None |> <| s_ping_to := None |> <| s_tmo := [] |>).
    assert (H0 : same_static s s0) by (subst s0; ss).
    eapply same_static_trans; [exact H0|].
    apply try_static; [apply closed_current_static|]. intros s1.
    destruct (slow_start_init enc dec ores ires cfg s1) as [s2|k|site] eqn:E2; cbn; try apply same_static_refl.
    pose proof (slow_start_init_static _ _ E2) as H2.
    destruct (update_retries enc dec ores ires cfg s2) as [s3|k|site] eqn:E3; cbn; try exact H2.
    pose proof (update_retries_static _ _ E3) as H3.
    eapply same_static_trans; [exact H2|]. eapply same_static_trans; [exact H3|].
    apply andthen_static.
    { eapply same_static_trans; [|apply fail_all_static]. ss. }
    intros s5. destruct (partition_policy enc dec ores ires cfg s5 (s_pwco s5)) as [kept rejected].
    apply andthen_static.
    { eapply same_static_trans; [|apply fail_all_static]. ss. }
    intros s7. apply andthen_static; [apply fail_exceeding_static|].
    intros s8. cbv zeta.
    apply andthen_static.
    { eapply same_static_trans; [|apply fail_all_static]. ss. }
    intros s12. cbn. ss.
  Qed.

  Lemma net_closed_static (s : state) : same_static s (r_s (net_closed enc dec ores ires cfg s)).
  Proof.
    unfold net_closed. pose proof (net_closed_raw_static s) as H.
    destruct (pstate_eqb (s_st s) Disconnected); [exact H|].
    destruct (r_out (net_closed_raw enc dec ores ires cfg s)) as [|k|]; try exact H.
    destruct k; cbn; exact H.
  Qed.

  (* closing a connection never forgets an inbound QoS 2 message, a resolver binding is not touched
     (resolvers are reset at CONNACK), the packet-id cursor and the settings stay *)
  Corollary close_keeps_inbound_qos2 (s : state) : s_q2in (r_s (net_closed enc dec ores ires cfg s)) = s_q2in s.
  Proof. destruct (net_closed_static s) as [H _]. exact H. Qed.
End Frames2.
