(* C01 / C15: the frame relation on the operation table.
   Everything here is about the pair (s_ops, s_next_id) only, so that updates of every other
   field of the engine state are invisible ([cbn] removes them).

   [T pol x x' dn] says: if the ids of table x are strictly increasing and below the counter, then
   so are those of x'; the counter only grows; every operation of x' is an operation of x with
   the same user flag and the same packet up to packet id / dup flag, or a new internal operation
   with an id at or above the old counter; the completions [dn] have distinct ids, each of them
   belonged to a user operation of x that is no longer in x', and the completion value fits the
   operation's packet ([comp_ok]; the parameter [pol : packet -> Prop] says which packets may
   receive the offline-policy error).  T is reflexive and transitive (dones are appended). *)
From GM Require Import Base.Prelude Base.Outcome Codec.Packets Codec.Settings Engine.Model EngineProofs.AssocLemmas.
From Coq Require Import Sorting.Sorted.
Open Scope N_scope.

(* the packet with packet id and dup flag erased: what never changes during an operation's life *)
Definition norm (p : packet) : packet :=
  match p with
  | Publish pb =>
      Publish {| pub_pid := 0; pub_topic := pub_topic pb; pub_qos := pub_qos pb; pub_dup := false;
                 pub_retain := pub_retain pb; pub_payload := pub_payload pb; pub_pfi := pub_pfi pb; pub_mei := pub_mei pb;
                 pub_alias := pub_alias pb; pub_response_topic := pub_response_topic pb; pub_correlation := pub_correlation pb;
                 pub_subids := pub_subids pb; pub_content_type := pub_content_type pb; pub_up := pub_up pb |}
  | Subscribe x => Subscribe {| s_pid := 0; s_subs := s_subs x; s_subid := s_subid x; s_up := s_up x |}
  | Unsubscribe x => Unsubscribe {| u_pid := 0; u_filters := u_filters x; u_up := u_up x |}
  | _ => p
  end.

Lemma norm_idem p : norm (norm p) = norm p.
Proof. destruct p; reflexivity. Qed.

Lemma norm_policy pol p : passes_policy pol (norm p) = passes_policy pol p.
Proof. destruct p; reflexivity. Qed.

Lemma norm_is_disconnect p : is_disconnect (norm p) = is_disconnect p.
Proof. destruct p; reflexivity. Qed.

Lemma norm_with_pid pid p p' : with_pid pid p = Ok p' -> norm p' = norm p.
Proof. destruct p; cbn [with_pid]; intros H; inversion H; reflexivity. Qed.

(* does a completion value fit the (normalised) packet of the operation it is delivered to *)
Definition comp_fits (offl : packet -> Prop) (p : packet) (c : completion) : Prop :=
  match c with
  | CompErr EOfflineQueuePolicyFailed => offl p
  | CompErr _ => True
  | CompOk None => is_publish p = true
  | CompOk (Some (Puback _)) | CompOk (Some (Pubrec _)) | CompOk (Some (Pubcomp _)) => is_publish p = true
  | CompOk (Some (Suback a)) => exists x, p = Subscribe x /\ len (sa_codes a) = len (s_subs x)
  | CompOk (Some (Unsuback a)) => exists x, p = Unsubscribe x /\ len (ua_codes a) = len (u_filters x)
  | CompOk (Some _) => False
  end.
Definition comp_ok (offl : packet -> Prop) (p : packet) (c : completion) : Prop := comp_fits offl (norm p) c.

Lemma comp_ok_norm pol p q c : norm p = norm q -> comp_ok pol p c -> comp_ok pol q c.
Proof. unfold comp_ok. intros ->. exact (fun H => H). Qed.

Lemma comp_ok_err pol p e : e <> EOfflineQueuePolicyFailed -> comp_ok pol p (CompErr e).
Proof. intros H. unfold comp_ok, comp_fits. destruct e; try exact I. congruence. Qed.

Lemma comp_ok_offline (pol : packet -> Prop) p : pol (norm p) -> comp_ok pol p (CompErr EOfflineQueuePolicyFailed).
Proof. intros H. exact H. Qed.

(* ---- list helpers ---- *)
Lemma NoDup_app_intro {A} (a b : list A) :
  NoDup a -> NoDup b -> (forall x, In x a -> ~ In x b) -> NoDup (a ++ b).
Proof.
  induction a as [|x r IH]; intros Ha Hb Hd; cbn [app]; [exact Hb|].
  inversion Ha as [|? ? Hn Hr]; subst. constructor.
  - intros H. apply in_app_or in H. destruct H as [H|H]; [contradiction|]. apply (Hd x); [left; reflexivity|exact H].
  - apply IH; [exact Hr|exact Hb|]. intros y Hy. apply Hd. right. exact Hy.
Qed.

Lemma in_map_fst {A B} (l : list (A * B)) a b : In (a, b) l -> In a (map fst l).
Proof. intros H. apply (in_map fst) in H. exact H. Qed.

Lemma lookup_app_last {A} (l : list (N * A)) id o k :
  ~ In id (keys l) -> lookup k (l ++ [(id, o)]) = if id =? k then Some o else lookup k l.
Proof.
  intros Hn. induction l as [|[k' v'] r IH]; cbn [app lookup]; [reflexivity|].
  cbn [keys map fst In] in Hn. destruct (k' =? k) eqn:E.
  - destruct (id =? k) eqn:E2; [exfalso; apply Hn; left; lia | reflexivity].
  - apply IH. intros H. apply Hn. right. exact H.
Qed.

Lemma keys_app {A} (a b : list (N * A)) : keys (a ++ b) = keys a ++ keys b.
Proof. unfold keys. apply map_app. Qed.

(* ---- the table with its counter ---- *)
Definition ost := (list (N * op) * N)%type.

Definition ids_ok (x : ost) : Prop := inc (keys (fst x)) /\ Forall (fun k => k < snd x) (keys (fst x)).
(* user operations never carry a DISCONNECT *)
Definition user_ok (x : ost) : Prop :=
  forall id o, lookup id (fst x) = Some o -> op_user o = true -> is_disconnect (op_packet o) = false.

Lemma ids_ok_lt x id o : ids_ok x -> lookup id (fst x) = Some o -> id < snd x.
Proof.
  intros [_ H] Hl. rewrite Forall_forall in H. apply H. eapply lookup_in_keys. exact Hl.
Qed.

Definition same_op (o o' : op) : Prop := op_user o' = op_user o /\ norm (op_packet o') = norm (op_packet o).

Lemma same_op_refl o : same_op o o.
Proof. split; reflexivity. Qed.
Lemma same_op_trans a b c : same_op a b -> same_op b c -> same_op a c.
Proof. intros [H1 H2] [H3 H4]. split; congruence. Qed.

Definition old_or_new (x x' : ost) : Prop :=
  forall id o', lookup id (fst x') = Some o' ->
    (exists o, lookup id (fst x) = Some o /\ same_op o o') \/ (snd x <= id /\ op_user o' = false).

Definition dones_ok (pol : packet -> Prop) (x x' : ost) (dn : dones) : Prop :=
  forall id c, In (id, c) dn ->
    exists o, lookup id (fst x) = Some o /\ op_user o = true /\ lookup id (fst x') = None /\ comp_ok pol (op_packet o) c.

Definition T (pol : packet -> Prop) (x x' : ost) (dn : dones) : Prop :=
  ids_ok x ->
  ids_ok x' /\ snd x <= snd x' /\ old_or_new x x' /\ NoDup (map fst dn) /\ dones_ok pol x x' dn.

Lemma T_refl pol x : T pol x x [].
Proof.
  intros H. split; [exact H|]. split; [lia|]. split; [|split; [constructor|intros ? ? []]].
  intros id o Hl. left. exists o. split; [exact Hl|apply same_op_refl].
Qed.

Lemma T_trans pol x x1 x2 d1 d2 : T pol x x1 d1 -> T pol x1 x2 d2 -> T pol x x2 (d1 ++ d2).
Proof.
  intros A B H0. destruct (A H0) as (H1 & Hn1 & Hoon1 & Hnd1 & Hd1).
  destruct (B H1) as (H2 & Hn2 & Hoon2 & Hnd2 & Hd2).
  assert (Hoon : old_or_new x x2).
  { intros id o2 Hl. destruct (Hoon2 id o2 Hl) as [(o1 & Hl1 & Hs1) | [Hge Hu]].
    - destruct (Hoon1 id o1 Hl1) as [(o & Hl0 & Hs0) | [Hge Hu]].
      + left. exists o. split; [exact Hl0|]. eapply same_op_trans; eassumption.
      + right. split; [exact Hge|]. destruct Hs1 as [Hs1 _]. congruence.
    - right. split; [lia|exact Hu]. }
  split; [exact H2|]. split; [lia|]. split; [exact Hoon|]. split.
  - rewrite map_app. apply NoDup_app_intro; [exact Hnd1|exact Hnd2|].
    intros id Hi1 Hi2. apply in_map_iff in Hi1. destruct Hi1 as ([id1 c1] & Heq & Hi1). cbn [fst] in Heq. subst id1.
    apply in_map_iff in Hi2. destruct Hi2 as ([id2 c2] & Heq & Hi2). cbn [fst] in Heq. subst id2.
    destruct (Hd1 id c1 Hi1) as (o & _ & _ & Hnone & _).
    destruct (Hd2 id c2 Hi2) as (o' & Hsome & _). congruence.
  - intros id c Hin. apply in_app_or in Hin. destruct Hin as [Hin|Hin].
    + destruct (Hd1 id c Hin) as (o & Hl & Hu & Hnone & Hc). exists o. repeat split; try assumption.
      destruct (lookup id (fst x2)) as [o2|] eqn:E; [|reflexivity]. exfalso.
      destruct (Hoon2 id o2 E) as [(o1 & Hl1 & _) | [Hge _]]; [congruence|].
      pose proof (ids_ok_lt _ _ _ H0 Hl). lia.
    + destruct (Hd2 id c Hin) as (o1 & Hl1 & Hu1 & Hnone & Hc).
      destruct (Hoon1 id o1 Hl1) as [(o & Hl & Hu & Hnm) | [_ Hu]]; [|congruence].
      exists o. repeat split; try assumption; [congruence|]. eapply comp_ok_norm; [|exact Hc]. exact Hnm.
Qed.

Lemma T_trans_nil_l pol x x1 x2 d : T pol x x1 [] -> T pol x1 x2 d -> T pol x x2 d.
Proof. intros A B. exact (T_trans pol x x1 x2 [] d A B). Qed.

Lemma T_trans_nil_r pol x x1 x2 d : T pol x x1 d -> T pol x1 x2 [] -> T pol x x2 d.
Proof. intros A B. rewrite <- (app_nil_r d). exact (T_trans pol x x1 x2 d [] A B). Qed.

Lemma T_user_ok pol x x' dn : T pol x x' dn -> ids_ok x -> user_ok x -> user_ok x'.
Proof.
  intros A H0 Hu. destruct (A H0) as (_ & _ & Hoon & _). intros id o' Hl Hus.
  destruct (Hoon id o' Hl) as [(o & Hl0 & Hs1 & Hs2) | [_ Hf]]; [|congruence].
  rewrite <- norm_is_disconnect, Hs2, norm_is_disconnect. apply (Hu id o Hl0). congruence.
Qed.

(* ---- elementary transitions ---- *)
Lemma T_update pol ops n id (f : op -> op) :
  (forall o, same_op o (f o)) -> T pol (ops, n) (update id f ops, n) [].
Proof.
  intros Hf [Hinc Hb]. cbn [fst snd] in *. split; [split; cbn [fst snd]; rewrite keys_update; assumption|].
  split; [cbn [snd]; lia|]. split; [|split; [constructor|intros ? ? []]].
  intros k o' Hl. cbn [fst snd] in *. left. destruct (N.eq_dec k id) as [->|Hne].
  - destruct (lookup id ops) as [o|] eqn:E.
    + rewrite (lookup_update_eq _ _ _ _ E) in Hl. inversion Hl; subst. exists o. split; [reflexivity|apply Hf].
    + rewrite (lookup_update_none _ _ _ E) in Hl. discriminate.
  - rewrite (lookup_update_neq _ _ _ _ Hne) in Hl. exists o'. split; [exact Hl|apply same_op_refl].
Qed.

Lemma T_fold_update pol n (f : op -> op) ids : forall ops,
  (forall o, same_op o (f o)) -> T pol (ops, n) (fold_left (fun ops id => update id f ops) ids ops, n) [].
Proof.
  induction ids as [|id r IH]; intros ops Hf; cbn [fold_left]; [apply T_refl|].
  eapply T_trans_nil_l; [apply (T_update pol ops n id f Hf)|]. apply IH. exact Hf.
Qed.

Lemma T_create pol ops n o : op_user o = false -> T pol (ops, n) (ops ++ [(n, o)], n + 1) [].
Proof.
  intros Hu [Hinc Hb]. cbn [fst snd] in *.
  assert (Hfresh : ~ In n (keys ops)). { intros H. rewrite Forall_forall in Hb. apply Hb in H. lia. }
  split.
  { split; cbn [fst snd]; rewrite keys_app; cbn [keys map fst].
    - apply inc_app_last; assumption.
    - apply Forall_app. split; [|repeat constructor; lia]. eapply Forall_impl; [|exact Hb]. cbn. intros; lia. }
  split; [cbn [snd]; lia|]. split; [|split; [constructor|intros ? ? []]].
  intros k o' Hl. cbn [fst snd] in *. rewrite (lookup_app_last _ _ _ _ Hfresh) in Hl.
  destruct (n =? k) eqn:E.
  - right. inversion Hl; subst. split; [lia|exact Hu].
  - left. exists o'. split; [exact Hl|apply same_op_refl].
Qed.

(* a user operation created by a submission: not covered by T (the new operation is a user
   operation); only the id bookkeeping *)
Lemma ids_ok_create ops n o : ids_ok (ops, n) -> ids_ok (ops ++ [(n, o)], n + 1).
Proof.
  intros [Hinc Hb]. cbn [fst snd] in *. split; cbn [fst snd]; rewrite keys_app; cbn [keys map fst].
  - apply inc_app_last; assumption.
  - apply Forall_app. split; [|repeat constructor; lia]. eapply Forall_impl; [|exact Hb]. cbn. intros; lia.
Qed.

Lemma ids_ok_remove ops n id : ids_ok (ops, n) -> ids_ok (remove id ops, n).
Proof.
  intros [Hinc Hb]. cbn [fst snd] in *. split; cbn [fst snd]; [apply inc_remove; exact Hinc|].
  rewrite Forall_forall in *. intros k Hk. apply keys_remove in Hk. apply Hb. tauto.
Qed.

(* removing an operation, with or without a completion *)
Lemma T_remove pol ops n id o dn :
  lookup id ops = Some o ->
  (dn = [] \/ exists c, dn = [(id, c)] /\ op_user o = true /\ comp_ok pol (op_packet o) c) ->
  T pol (ops, n) (remove id ops, n) dn.
Proof.
  intros Hl Hdn H0. split; [apply ids_ok_remove; exact H0|]. split; [cbn [snd]; lia|]. split.
  { intros k o' Hk. cbn [fst snd] in *. left. destruct (N.eq_dec k id) as [->|Hne].
    - rewrite lookup_remove_eq in Hk. discriminate.
    - rewrite (lookup_remove_neq _ _ _ Hne) in Hk. exists o'. split; [exact Hk|apply same_op_refl]. }
  destruct Hdn as [->|(c & -> & Hu & Hc)]; [split; [constructor|intros ? ? []]|].
  split; [cbn [map fst]; repeat constructor; intros []|].
  intros k c' [Heq|[]]. inversion Heq; subst. exists o. cbn [fst snd]. repeat split; try assumption. apply lookup_remove_eq.
Qed.

(* dropping the whole table (reset) *)
Lemma T_clear pol ops n : T pol (ops, n) ([], n) [].
Proof.
  intros [Hinc Hb]. split; [split; cbn [fst snd keys map]; constructor|]. split; [cbn [snd]; lia|].
  split; [intros ? ? Hl; cbn [fst lookup] in Hl; discriminate|]. split; [constructor|intros ? ? []].
Qed.

(* ---- exact preservation: the table only loses entries ---- *)
Definition ops_sub (ops ops' : list (N * op)) : Prop := forall id o, lookup id ops' = Some o -> lookup id ops = Some o.

Lemma ops_sub_refl ops : ops_sub ops ops.
Proof. intros ? ? H. exact H. Qed.
Lemma ops_sub_trans a b c : ops_sub a b -> ops_sub b c -> ops_sub a c.
Proof. intros H1 H2 id o H. apply H1, H2, H. Qed.
Lemma ops_sub_remove ops id : ops_sub ops (remove id ops).
Proof.
  intros k o H. destruct (N.eq_dec k id) as [->|Hne]; [rewrite lookup_remove_eq in H; discriminate|].
  rewrite (lookup_remove_neq _ _ _ Hne) in H. exact H.
Qed.

(* lookup through a fold of updates *)
Lemma lookup_fold_update_same (f : op -> op) ids :
  (forall o, same_op o (f o)) ->
  forall ops id o', lookup id (fold_left (fun ops id => update id f ops) ids ops) = Some o' ->
  exists o, lookup id ops = Some o /\ same_op o o'.
Proof.
  intros Hf. induction ids as [|k r IH]; intros ops id o' H; cbn [fold_left] in H; [exists o'; split; [exact H|apply same_op_refl]|].
  destruct (IH _ _ _ H) as (o1 & Hl1 & HR). destruct (N.eq_dec id k) as [->|Hne].
  - destruct (lookup k ops) as [o|] eqn:E.
    + rewrite (lookup_update_eq _ _ _ _ E) in Hl1. inversion Hl1; subst. exists o. split; [reflexivity|].
      eapply same_op_trans; [apply Hf|exact HR].
    + rewrite (lookup_update_none _ _ _ E) in Hl1. discriminate.
  - rewrite (lookup_update_neq _ _ _ _ Hne) in Hl1. exists o1. split; assumption.
Qed.
