(* C07 (b): no engine function other than net_opened creates a CONNECT operation.
   [KF s s'] = every CONNECT operation of s' is a CONNECT operation of s under the same id.
   Proved for every function of Engine/Model.v on ARBITRARY states (no well-formedness needed):
   operations are only removed, updated by kind-preserving functions, or created with packets
   that are not CONNECT (acks, PINGREQ, the user's packet). *)
From GM Require Import Base.Prelude Base.Outcome Codec.Packets Codec.Settings Engine.Model
  EngineProofs.AssocLemmas EngineProofs.WFLemmas EngineProofs.HandshakeRunTrace.
From RecordUpdate Require Import RecordSet.
Import RecordSetNotations.
Open Scope N_scope.
#[local] Set Default Proof Using "Type".

(* the four component types are implicit in the engine functions, locally to this file *)
#[local] Arguments init {enc dec} _ {ores ires} _ _.
#[local] Arguments release {enc dec ores ires} _ _ _ _.
#[local] Arguments disconnect_completion {enc dec ores ires} _ _.
#[local] Arguments fail_op {enc dec ores ires} _ _ _ _.
#[local] Arguments ping_extension {enc dec ores ires} _ _.
#[local] Arguments succeed_op {enc dec ores ires} _ _ _ _.
#[local] Arguments fail_all {enc dec ores ires} _ _ _ _.
#[local] Arguments succeed_all {enc dec ores ires} _ _ _.
#[local] Arguments andthen {enc dec ores ires} _ _.
#[local] Arguments try_ {enc dec ores ires} _ _.
#[local] Arguments pure {enc dec ores ires} _.
#[local] Arguments create_operation {enc dec ores ires} _ _.
#[local] Arguments passes_now {enc dec ores ires} _ _ _.
#[local] Arguments user_event {enc dec ores ires} _ _ _ _.
#[local] Arguments create_connect {enc dec ores ires} _ _.
#[local] Arguments net_opened {enc dec} _ {ores ires} _ _ _.
#[local] Arguments op_exists {enc dec ores ires} _ _.
#[local] Arguments op_passes {enc dec ores ires} _ _ _.
#[local] Arguments partition_policy {enc dec ores ires} _ _ _.
#[local] Arguments closed_current {enc dec ores ires} _ _.
#[local] Arguments slow_start_init {enc dec ores ires} _ _.
#[local] Arguments update_retries {enc dec ores ires} _ _.
#[local] Arguments fail_exceeding {enc dec ores ires} _ _.
#[local] Arguments has_pubrel {enc dec ores ires} _ _.
#[local] Arguments net_closed_raw {enc dec ores ires} _ _.
#[local] Arguments net_closed {enc dec ores ires} _ _.
#[local] Arguments net_write_completion {enc dec ores ires} _ _.
#[local] Arguments acquire_free_pid {enc dec ores ires} _ _.
#[local] Arguments acquire_pid_for {enc dec ores ires} _ _.
#[local] Arguments unbind {enc dec ores ires} _ _.
#[local] Arguments passes_receive_max {enc dec ores ires} _ _.
#[local] Arguments throttled {enc dec ores ires} _ _.
#[local] Arguments has_pending_ack {enc dec ores ires} _.
#[local] Arguments dequeue {enc dec ores ires} _ _ _.
#[local] Arguments fully_written {enc dec ores ires} _ _.
#[local] Arguments service_keep_alive {enc dec ores ires} _ _ _.
#[local] Arguments process_ack_timeouts {enc dec ores ires} _ _ _.
#[local] Arguments halt_on_error {enc dec ores ires} _ _.
#[local] Arguments next_service_time {enc dec ores ires} _ _ _.
#[local] Arguments build_settings {enc dec ores ires} _ _ _.
#[local] Arguments apply_session {enc dec ores ires} _ _ _.
#[local] Arguments hres_of {enc dec ores ires} _ _.
#[local] Arguments pre_connack {enc dec ores ires} _.
#[local] Arguments sum_ss {enc dec ores ires} _.
#[local] Arguments handle_pingresp {enc dec ores ires} _.
#[local] Arguments handle_suback {enc dec ores ires} _ _ _.
#[local] Arguments handle_unsuback {enc dec ores ires} _ _ _.
#[local] Arguments publish_qos_of {enc dec ores ires} _ _.
#[local] Arguments handle_puback {enc dec ores ires} _ _ _.
#[local] Arguments handle_pubrec {enc dec ores ires} _ _ _.
#[local] Arguments handle_pubrel {enc dec ores ires} _ _.
#[local] Arguments handle_pubcomp {enc dec ores ires} _ _ _.
#[local] Arguments handle_publish {enc dec ores ires} _ _.
#[local] Arguments handle_disconnect {enc dec ores ires} _ _ _.
#[local] Arguments is_connect_op {enc dec ores ires} _ _.
#[local] Arguments connect_in_queue {enc dec ores ires} _.
#[local] Arguments reset {enc dec ores ires} _ _.
#[local] Arguments out_of_res {enc dec ores ires} _ _.
#[local] Arguments nst_queue {enc dec ores ires} _ _ _ _.
#[local] Arguments earliest_tmo {enc dec ores ires} _.
#[local] Arguments SeatStop {enc dec ores ires} _.
#[local] Arguments SeatContinue {enc dec ores ires} _ _.
#[local] Arguments SeatEncode {enc dec ores ires} _.


(* ---- operation tables ---- *)
Definition KT (l l' : list (N * op)) : Prop :=
  forall i o', lookup i l' = Some o' -> is_connect (op_packet o') = true ->
    exists o, lookup i l = Some o /\ is_connect (op_packet o) = true.

Lemma KT_refl l : KT l l.
Proof. intros i o H C. eauto. Qed.

Lemma KT_trans l1 l2 l3 : KT l1 l2 -> KT l2 l3 -> KT l1 l3.
Proof. intros A B i o3 H C. destruct (B _ _ H C) as (o2 & H2 & C2). exact (A _ _ H2 C2). Qed.

Lemma KT_sub l l' : (forall i o, lookup i l' = Some o -> lookup i l = Some o) -> KT l l'.
Proof. intros S i o H C. eauto. Qed.

Lemma KT_remove k l : KT l (remove k l).
Proof. apply KT_sub. intros i o H. apply lookup_remove_inv in H. tauto. Qed.

Definition kindp (f : op -> op) : Prop := forall o, is_connect (op_packet (f o)) = true -> is_connect (op_packet o) = true.

Lemma KT_update k f l : kindp f -> KT l (update k f l).
Proof.
  intros Hf i o' H C. apply lookup_update_inv in H. destruct H as (o & Ho & [[_ ->]|[_ ->]]); eauto.
Qed.

Lemma KT_fold_update f ids : kindp f -> forall l, KT l (fold_left (fun ops id => update id f ops) ids l).
Proof.
  intros Hf. induction ids as [|a r IH]; intros l; cbn [fold_left]; [apply KT_refl|].
  eapply KT_trans; [apply KT_update; exact Hf|apply IH].
Qed.

Lemma KT_new k o l : is_connect (op_packet o) = false -> KT l (l ++ [(k, o)]).
Proof.
  intros Hn i o' H C. rewrite lookup_app in H. destruct (lookup i l) as [o1|] eqn:E.
  - inversion H; subst. eauto.
  - cbn in H. destruct (k =? i); [|discriminate]. inversion H; subst. congruence.
Qed.

Lemma KT_nil l : KT l [].
Proof. intros i o H. discriminate. Qed.

Lemma kindp_set_dup v : kindp (set_dup v).
Proof. intros o. unfold set_dup. destruct (op_packet o) eqn:E; cbn; rewrite ?E; auto. Qed.

Section Frame.
  Variable enc : Type.
  Variable enc_reset : version -> packet -> resolution -> outcome enc.
  Variable enc_call : enc -> N -> N -> outcome (bytes * enc).
  Variable enc_done : enc -> bool.
  Variable dec : Type.
  Variable dec_init : dec.
  Variable dec_feed : version -> N -> dec -> bytes -> dec * list packet * outcome unit.
  Variable ores : Type.
  Variable ores_reset : ores -> N -> ores.
  Variable ores_resolve : ores -> option N -> bytes -> outcome (ores * resolution).
  Variable ires : Type.
  Variable ires_reset : ires -> ires.
  Variable ires_resolve : ires -> option N -> bytes -> outcome (ires * bytes).
  Variable v_out : option settings -> connect_opts -> resolution -> packet -> outcome unit.
  Variable v_in : option settings -> packet -> outcome unit.
  Variable cfg : config.

  Notation state := (state enc dec ores ires).
  Notation res := (res enc dec ores ires).
  Notation step := (step enc enc_reset enc_call enc_done dec dec_init dec_feed ores ores_reset ores_resolve
                         ires ires_reset ires_resolve v_out v_in cfg).
  Notation seat_current := (seat_current enc enc_reset dec ores ores_reset ores_resolve ires v_out cfg).
  Notation service_loop := (service_loop enc enc_reset enc_call enc_done dec ores ores_reset ores_resolve ires v_out cfg).
  Notation service_loop_t := (service_loop_t enc enc_reset enc_call enc_done dec ores ores_reset ores_resolve ires v_out cfg).
  Notation service_queue := (service_queue enc enc_reset enc_call enc_done dec ores ores_reset ores_resolve ires v_out cfg).
  Notation service := (service enc enc_reset enc_call enc_done dec ores ores_reset ores_resolve ires v_out cfg).
  Notation handle_connack := (handle_connack enc dec ores ores_reset ires ires_reset v_in cfg).
  Notation handle_packet := (handle_packet enc dec ores ores_reset ires ires_reset v_in cfg).
  Notation handle_packets := (handle_packets enc dec ores ores_reset ires ires_reset ires_resolve v_in cfg).
  Notation net_data := (net_data enc dec dec_feed ores ores_reset ires ires_reset ires_resolve v_in cfg).
  Notation encode_next := (encode_next enc enc_call enc_done dec ores ires).

  Definition KF (s s' : state) : Prop := KT (s_ops s) (s_ops s').
  Definition SUB (s s' : state) : Prop := forall i o, lookup i (s_ops s') = Some o -> lookup i (s_ops s) = Some o.

  Lemma KF_refl s : KF s s.
  Proof. apply KT_refl. Qed.
  Lemma KF_trans s1 s2 s3 : KF s1 s2 -> KF s2 s3 -> KF s1 s3.
  Proof. apply KT_trans. Qed.
  Lemma SUB_KF s s' : SUB s s' -> KF s s'.
  Proof. apply KT_sub. Qed.
  Lemma SUB_refl s : SUB s s.
  Proof. intros i o H. exact H. Qed.
  Lemma SUB_trans s1 s2 s3 : SUB s1 s2 -> SUB s2 s3 -> SUB s1 s3.
  Proof. intros A B i o H. auto. Qed.
  Lemma KF_ops (s s' : state) : s_ops s' = s_ops s -> KF s s'.
  Proof. unfold KF. intros ->. apply KT_refl. Qed.
  Lemma SUB_ops (s s' : state) : s_ops s' = s_ops s -> SUB s s'.
  Proof. unfold SUB. intros ->. auto. Qed.

  (* ---- completions only remove ---- *)
  Lemma release_sub (s s' : state) id o : release cfg s id o = Ok s' -> s_ops s' = remove id (s_ops s).
  Proof.
    unfold release. destruct (op_pid o); cbn;
      repeat match goal with |- context [if ?b then _ else _] => destruct b; cbn end; intros H; inversion H; reflexivity.
  Qed.

  Lemma disconnect_completion_ops (s : state) o : s_ops (fst (disconnect_completion s o)) = s_ops s.
  Proof. unfold disconnect_completion. repeat match goal with |- context [if ?b then _ else _] => destruct b; cbn end; reflexivity. Qed.

  Lemma fail_op_sub (s : state) id e : SUB s (r_s (fail_op cfg s id e)).
  Proof.
    unfold fail_op. destruct (lookup id (s_ops s)) as [o|]; [|apply SUB_refl].
    destruct (release cfg s id o) as [s1|k|site] eqn:Er; [|apply SUB_refl|apply SUB_refl].
    apply release_sub in Er. pose proof (disconnect_completion_ops s1 o) as Hd.
    destruct (disconnect_completion s1 o) as [s2 r]. cbn [fst] in Hd.
    assert (H : SUB s s2). { intros i o1 H. rewrite Hd, Er in H. apply lookup_remove_inv in H. tauto. }
    destruct r; [destruct (op_user o)|..]; exact H.
  Qed.

  Lemma ping_extension_ops (s : state) o : s_ops (ping_extension s o) = s_ops s.
  Proof.
    unfold ping_extension. destruct (match op_packet o with Subscribe _ | Unsubscribe _ => op_ext o | Publish pb => _ | _ => None end);
      [|reflexivity]. destruct (s_settings s); [|reflexivity]. destruct (s_next_ping s); [|reflexivity].
    destruct (_ <? _); reflexivity.
  Qed.

  Lemma succeed_op_sub (s : state) id resp : SUB s (r_s (succeed_op cfg s id resp)).
  Proof.
    unfold succeed_op. destruct (lookup id (s_ops s)) as [o|]; [|apply SUB_refl].
    destruct (release cfg s id o) as [s1|k|site] eqn:Er; [|apply SUB_refl|apply SUB_refl].
    apply release_sub in Er. pose proof (disconnect_completion_ops (ping_extension s1 o) o) as Hd.
    destruct (disconnect_completion (ping_extension s1 o) o) as [s2 r]. cbn [fst] in Hd.
    assert (H : SUB s s2). { intros i o1 H. rewrite Hd, ping_extension_ops, Er in H. apply lookup_remove_inv in H. tauto. }
    destruct r; [destruct (op_user o); [destruct (success_value o resp)|]|..]; exact H.
  Qed.

  Lemma fail_all_sub ids : forall (s : state) e, SUB s (r_s (fail_all cfg s ids e)).
  Proof.
    induction ids as [|a r IH]; intros s e; cbn [fail_all]; [apply SUB_refl|].
    pose proof (fail_op_sub s a e) as H1. destruct (is_panic (r_out (fail_op cfg s a e))); [exact H1|].
    specialize (IH (r_s (fail_op cfg s a e)) e).
    destruct (is_panic (r_out (fail_all cfg (r_s (fail_op cfg s a e)) r e))); cbn [r_s]; eapply SUB_trans; eauto.
  Qed.

  Lemma succeed_all_sub ids : forall (s : state), SUB s (r_s (succeed_all cfg s ids)).
  Proof.
    induction ids as [|a r IH]; intros s; cbn [succeed_all]; [apply SUB_refl|].
    pose proof (succeed_op_sub s a None) as H1. destruct (is_panic (r_out (succeed_op cfg s a None))); [exact H1|].
    specialize (IH (r_s (succeed_op cfg s a None))).
    destruct (is_panic (r_out (succeed_all cfg (r_s (succeed_op cfg s a None)) r))); cbn [r_s]; eapply SUB_trans; eauto.
  Qed.

  Lemma andthen_KF (s : state) (r : res) f : KF s (r_s r) -> (forall s1, KF s1 (r_s (f s1))) -> KF s (r_s (andthen r f)).
  Proof.
    intros H1 H2. unfold andthen. destruct (is_panic (r_out r)); [exact H1|].
    destruct (is_panic (r_out (f (r_s r)))); cbn [r_s]; eapply KF_trans; eauto.
  Qed.

  (* ---- user submissions ---- *)
  Lemma user_event_KF (s : state) p t : is_connect p = false -> KF s (r_s (user_event cfg s p t)).
  Proof.
    intros Hp. unfold user_event, create_operation.
    set (o := new_op p _ _).
    set (s1 := s <| s_next_id := s_next_id s + 1 |> <| s_ops := s_ops s ++ [(s_next_id s, o)] |>).
    assert (H1 : KF s s1) by (apply KT_new; exact Hp).
    destruct (negb (passes_now cfg s1 p)).
    - cbn [r_s]. eapply KF_trans; [exact H1|apply SUB_KF, fail_op_sub].
    - destruct (is_disconnect p); exact H1.
  Qed.

  (* ---- the service loop ---- *)
  Lemma with_pid_kind pid p p' : with_pid pid p = Ok p' -> is_connect p' = false.
  Proof. destruct p; cbn; intros H; inversion H; reflexivity. Qed.

  Lemma acquire_pid_for_KF (s s' : state) id : acquire_pid_for s id = Ok s' -> KF s s'.
  Proof.
    unfold acquire_pid_for. destruct (lookup id (s_ops s)) as [o|]; [|discriminate].
    destruct (op_pid o); [intros H; inversion H; apply KF_refl|].
    destruct (negb (needs_pid (op_packet o))); [intros H; inversion H; apply KF_refl|].
    unfold acquire_free_pid. destruct (match first_gap _ _ _ with Some c => Some c | None => _ end) as [c|]; cbn; [|discriminate].
    destruct (with_pid c (op_packet o)) as [p'| |] eqn:Ew; cbn; [|discriminate|discriminate]. intros H; inversion H; subst.
    unfold KF. cbn. apply KT_update. intros o0. cbn. rewrite (with_pid_kind _ _ _ Ew). discriminate.
  Qed.

  Lemma seat_current_KF (s : state) m acc dn : KF s (seat_state _ _ _ _ (seat_current s m acc dn)).
  Proof.
    unfold Model.seat_current. destruct (s_cur s); [apply KF_refl|].
    assert (Hd : s_ops (fst (dequeue cfg s m)) = s_ops s).
    { unfold dequeue. repeat match goal with |- context [if ?b then _ else _] => destruct b; cbn end;
        repeat match goal with |- context [match ?l with [] => _ | _ :: _ => _ end] => destruct l; cbn end;
        repeat match goal with |- context [if ?b then _ else _] => destruct b; cbn end; reflexivity. }
    destruct (dequeue cfg s m) as [s1 next]. cbn [fst] in Hd. destruct next as [id|]; [|cbn; apply KF_ops; exact Hd].
    destruct (negb (op_exists (s1 <| s_cur := Some id |>) id)); [cbn; apply KF_ops; exact Hd|].
    destruct (acquire_pid_for (s1 <| s_cur := Some id |>) id) as [s3|k|site] eqn:Ea; [|cbn; apply KF_ops; exact Hd|cbn; apply KF_ops; exact Hd].
    apply acquire_pid_for_KF in Ea.
    assert (H3 : KF s s3) by (eapply KF_trans; [apply (KF_ops s (s1 <| s_cur := Some id |>)); exact Hd|exact Ea]).
    destruct (lookup id (s_ops s3)) as [o|]; [|exact H3].
    set (packet := match op_pubrel o with Some pr => pr | None => op_packet o end).
    assert (Hres : forall x : outcome (state * resolution),
              x = match packet with
                  | Publish pb => do (o', r) <- ores_resolve (s_ores s3) (pub_alias pb) (pub_topic pb) ; Ok (s3 <| s_ores := o' |>, r)
                  | _ => Ok (s3, no_resolution) end ->
              match x with Ok (s4, _) => s_ops s4 = s_ops s3 | _ => True end).
    { intros x ->. destruct packet; try reflexivity.
      destruct (ores_resolve _ _ _) as [[o' r]| |]; cbn; try exact I. reflexivity. }
    specialize (Hres _ eq_refl).
    destruct (match packet with Publish pb => _ | _ => _ end) as [[s4 r]|k|site]; [|exact H3|exact H3].
    assert (H4 : KF s s4) by (eapply KF_trans; [exact H3|apply KF_ops; exact Hres]).
    destruct (v_out (s_settings s4) (cf_connect cfg) r packet) as [u|k|site]; [| |exact H4].
    - destruct (enc_reset (cf_version cfg) packet r); cbn; exact H4.
    - match goal with |- context [fail_op cfg ?sx id k] => pose proof (fail_op_sub sx id k) as Hf; set (rf := fail_op cfg sx id k) in * end.
      assert (Hq : KF s (r_s rf)).
      { eapply KF_trans; [|apply SUB_KF; exact Hf]. eapply KF_trans; [exact H4|]. apply KF_ops. destruct (r_alias r); reflexivity. }
      destruct (r_out rf); cbn; exact Hq.
  Qed.

  Lemma fully_written_KF (s s' : state) now : fully_written s now = Ok s' -> KF s s'.
  Proof.
    unfold fully_written. destruct (s_cur s) as [id|]; [|discriminate]. destruct (lookup id (s_ops s)) as [o|]; [|discriminate].
    assert (Hk : kindp (fun o : op => o <| op_ext := Some now |>)) by (intros o0; cbn; auto).
    destruct (if op_user o then op_timeout o else None) as [d|]; [destruct (IMAX <? now + d)|];
      destruct (op_packet o) as [| |pb| | | | | | | | | | | |]; cbn; try destruct (pub_qos pb =? 0); cbn;
      intros H; inversion H; unfold KF; cbn; apply KT_update; exact Hk.
  Qed.

  Lemma encode_next_KF now cap fill (s5 : state) acc dn :
    match encode_next now cap fill s5 acc dn with
    | inl r => KF s5 (sr_s r)
    | inr (s7, _) => KF s5 s7
    end.
  Proof.
    unfold HandshakeRunTrace.encode_next. destruct (s_cur s5) as [id|]; [|apply KF_refl].
    destruct (negb (op_exists s5 id)); [apply KF_refl|]. destruct (s_enc s5) as [e|]; [|apply KF_refl].
    destruct (enc_call e (fill + len acc) cap) as [[out e']|k|site]; [|apply KF_refl|apply KF_refl].
    cbv zeta. destruct (enc_done e'); [|apply KF_ops; reflexivity].
    destruct (fully_written (s5 <| s_enc := Some e' |>) now) as [s7|k|site] eqn:Ef; [|apply KF_ops; reflexivity|apply KF_ops; reflexivity].
    apply fully_written_KF in Ef. exact Ef.
  Qed.

  Lemma service_loop_KF : forall f (s : state) m now cap fill acc dn,
    KF s (sr_s (service_loop f s m now cap fill acc dn)).
  Proof.
    intros f s m now cap fill acc dn. rewrite <- service_loop_t_fst. revert s m now cap fill acc dn.
    induction f as [|f IH]; intros s m now cap fill acc dn; cbn [HandshakeRunTrace.service_loop_t]; [apply KF_refl|].
    destruct (negb (pstate_eqb (s_st s) PendingConnack || pstate_eqb (s_st s) Connected)); [apply KF_refl|].
    pose proof (seat_current_KF s m acc dn) as Hs.
    destruct (seat_current s m acc dn) as [r|s5 dn'|s5]; cbn [seat_state fst] in *; [exact Hs|eapply KF_trans; [exact Hs|apply IH]|].
    pose proof (encode_next_KF now cap fill s5 acc dn) as He.
    destruct (encode_next now cap fill s5 acc dn) as [r|[s7 acc']]; cbn [fst]; [eapply KF_trans; eauto|].
    eapply KF_trans; [exact Hs|]. eapply KF_trans; [exact He|apply IH].
  Qed.

  Lemma service_queue_KF (s : state) m now cap fill : KF s (sr_s (service_queue s m now cap fill)).
  Proof.
    unfold Model.service_queue. cbv zeta.
    match goal with |- context [service_loop ?f s m now cap fill [] []] => pose proof (service_loop_KF f s m now cap fill [] []) as H;
      destruct (sr_bytes (service_loop f s m now cap fill [] [])) end; exact H.
  Qed.

  Lemma service_keep_alive_KF (s s' : state) now : service_keep_alive cfg s now = Ok s' -> KF s s'.
  Proof.
    unfold service_keep_alive. destruct (s_ping_to s) as [pt|]; [destruct (pt <=? now); [discriminate|intros H; inversion H; apply KF_refl]|].
    destruct (s_next_ping s) as [np|]; [|intros H; inversion H; apply KF_refl].
    destruct (np <=? now); [|intros H; inversion H; apply KF_refl].
    unfold create_operation. cbn. destruct (s_settings s) as [st|]; [|discriminate].
    unfold add_time. destruct (IMAX <? _); cbn; [discriminate|].
    destruct (0 <? st_server_keep_alive st); intros H; inversion H; unfold KF; cbn; apply KT_new; reflexivity.
  Qed.

  Lemma process_ack_timeouts_sub (s : state) now : SUB s (r_s (process_ack_timeouts cfg s now)).
  Proof. unfold process_ack_timeouts. eapply SUB_trans; [|apply fail_all_sub]. apply SUB_ops. reflexivity. Qed.

  Lemma halt_on_error_ops (s : state) r : s_ops (halt_on_error s r) = s_ops s.
  Proof. destruct r; reflexivity. Qed.

  Theorem service_KF (s : state) now cap fill : KF s (sr_s (service s now cap fill)).
  Proof.
    unfold Model.service. cbv zeta. cbn [sr_s]. unfold KF. rewrite halt_on_error_ops. fold (KF s).
    destruct (s_st s).
    - apply KF_refl.
    - destruct (s_connack_to s) as [t|]; [|apply KF_refl]. destruct (t <=? now); [apply KF_refl|apply service_queue_KF].
    - destruct (service_keep_alive cfg s now) as [s1|k|site] eqn:Ek; [|apply KF_refl|apply KF_refl].
      apply service_keep_alive_KF in Ek. pose proof (service_queue_KF s1 true now cap fill) as Hq.
      destruct (sr_out (service_queue s1 true now cap fill)); cbn [sr_s]; [|eapply KF_trans; eauto|eapply KF_trans; eauto].
      eapply KF_trans; [exact Ek|]. eapply KF_trans; [exact Hq|]. apply SUB_KF, process_ack_timeouts_sub.
    - cbn [sr_s]. apply SUB_KF, process_ack_timeouts_sub.
    - apply KF_refl.
  Qed.
End Frame.
