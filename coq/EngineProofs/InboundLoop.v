(* C05, run level, part 1: one incoming-data call.
   - [item_of] / [plog]: the processing log of the packet loop (Model.handle_packets), extracted from
     the inputs and the PRE-state of every handler call;
   - [handle_packet_spec]: every packet handler implements the specification of InboundSpec.v
     (inbound QoS 2 set, surfaced events, ids appended to the high-priority queue);
   - [handle_packets_spec] / [net_data_spec]: so does the loop, by induction on the packet list; the
     packets after the first failure are not in the log and have no effect.
   Everything holds for ANY state, any decoder / resolver / validator. *)
From GM Require Import Base.Prelude Base.Outcome Codec.Packets Codec.Settings Engine.Model
  EngineProofs.Frames EngineProofs.Handlers EngineProofs.InboundSpec.
From RecordUpdate Require Import RecordSet.
Import RecordSetNotations.
Open Scope N_scope.

Set Default Proof Using "Type".
Section Engine.
  Variable enc : Type.
  Variable dec : Type.
  Variable dec_feed : version -> N -> dec -> bytes -> dec * list packet * outcome unit.
  Variable ores : Type.
  Variable ores_reset : ores -> N -> ores.
  Variable ires : Type.
  Variable ires_reset : ires -> ires.
  Variable ires_resolve : ires -> option N -> bytes -> outcome (ires * bytes).
  Variable v_in : option settings -> packet -> outcome unit.
  Variable cfg : config.

  Notation state := (Model.state enc dec ores ires).
  Notation res := (Model.res enc dec ores ires).
  Notation hres := (Model.hres enc dec ores ires).
  Notation release := (Model.release enc dec ores ires cfg).
  Notation disconnect_completion := (Model.disconnect_completion enc dec ores ires).
  Notation fail_op := (Model.fail_op enc dec ores ires cfg).
  Notation ping_extension := (Model.ping_extension enc dec ores ires).
  Notation succeed_op := (Model.succeed_op enc dec ores ires cfg).
  Notation fail_all := (Model.fail_all enc dec ores ires cfg).
  Notation succeed_all := (Model.succeed_all enc dec ores ires cfg).
  Notation unbind := (Model.unbind enc dec ores ires).
  Notation partition_policy := (Model.partition_policy enc dec ores ires cfg).
  Notation apply_session := (Model.apply_session enc dec ores ires cfg).
  Notation pre_connack := (Model.pre_connack enc dec ores ires).
  Notation handle_connack := (Model.handle_connack enc dec ores ores_reset ires ires_reset v_in cfg).
  Notation handle_pingresp := (Model.handle_pingresp enc dec ores ires).
  Notation handle_suback := (Model.handle_suback enc dec ores ires cfg).
  Notation handle_unsuback := (Model.handle_unsuback enc dec ores ires cfg).
  Notation handle_puback := (Model.handle_puback enc dec ores ires cfg).
  Notation handle_pubrec := (Model.handle_pubrec enc dec ores ires cfg).
  Notation handle_pubrel := (Model.handle_pubrel enc dec ores ires).
  Notation handle_pubcomp := (Model.handle_pubcomp enc dec ores ires cfg).
  Notation handle_publish := (Model.handle_publish enc dec ores ires).
  Notation handle_disconnect := (Model.handle_disconnect enc dec ores ires cfg).
  Notation handle_packet := (Model.handle_packet enc dec ores ores_reset ires ires_reset v_in cfg).
  Notation handle_packets := (Model.handle_packets enc dec ores ores_reset ires ires_reset ires_resolve v_in cfg).
  Notation net_data := (Model.net_data enc dec dec_feed ores ores_reset ires ires_reset ires_resolve v_in cfg).
  Notation connect_in_queue := (Model.connect_in_queue enc dec ores ires).
  Notation max_incoming_size := (Model.max_incoming_size cfg).

  (* ================= the processing log ================= *)

  (* the outbound QoS 2 operation for which a PUBREC queues a PUBREL: the PUBREC is awaited (its
     packet id is in the unacked-publish table), the operation still exists, is a QoS 2 publish, and
     the reason code is a success code *)
  Definition pubrel_target (s : state) (a : ack) : option N :=
    if pre_connack s then None else
    match lookup (ack_pid a) (s_ppub s) with
    | None => None
    | Some id =>
        match lookup id (s_ops s) with
        | None => None
        | Some o =>
            match op_packet o with
            | Publish pb => if (pub_qos pb =? 2) && negb (128 <=? ack_rc a) then Some id else None
            | _ => None
            end
        end
    end.

  (* a CONNACK on which the session rules are run: one is awaited, reason code 0, and it passes the
     engine's own connack validation *)
  Definition sess_applied (s : state) (p : packet) : bool :=
    match p with
    | Connack c => pstate_eqb (s_st s) PendingConnack && (ca_rc c =? 0) && is_ok (v_in None (Connack c))
    | _ => false
    end.

  Definition item_of (s : state) (now : N) (p : packet) : item :=
    mkItem p (s_st s) (h_out (handle_packet s now p)) (s_next_id s) (sess_applied s p)
           (match p with Pubrec a => pubrel_target s a | _ => None end).

  (* inbound topic alias resolution of the loop (1166-1171) *)
  Definition resolve_in (s : state) (p : packet) : outcome (state * packet) :=
    match p with
    | Publish pb =>
        do (i', t) <- ires_resolve (s_ires s) (pub_alias pb) (pub_topic pb) ;
        Ok (s <| s_ires := i' |>, Publish (with_topic pb t))
    | _ => Ok (s, p)
    end.

  (* the packets of one decoded batch that reach a handler, in order: the loop stops at the first
     packet whose alias resolution, validation or handler fails; a packet stopped by the resolver or
     the validator never reaches a handler and is not logged; the packet whose handler fails is
     logged (with its failure) and is the last item *)
  Fixpoint plog (s : state) (now : N) (ps : list packet) : list item :=
    match ps with
    | [] => []
    | p :: rest =>
        match resolve_in s p with
        | Ok (s1, p1) =>
            match v_in (s_settings s1) p1 with
            | Ok _ =>
                item_of s1 now p1 ::
                (match h_out (handle_packet s1 now p1) with
                 | Ok _ => plog (h_s (handle_packet s1 now p1)) now rest
                 | _ => []
                 end)
            | _ => []
            end
        | _ => []
        end
    end.

  Definition data_log (s : state) (now : N) (data : bytes) : list item :=
    if pstate_eqb (s_st s) Disconnected || pstate_eqb (s_st s) Halted then []
    else if pstate_eqb (s_st s) PendingConnack && connect_in_queue s then []
    else
      match dec_feed (cf_version cfg) max_incoming_size (s_dec s) data with
      | (d', ps, Ok _) => plog (s <| s_dec := d' |>) now ps
      | _ => []
      end.

  Lemma handle_packets_cons s now p rest dn ev :
    handle_packets s now (p :: rest) dn ev =
    match resolve_in s p with
    | Err k => mkHres s dn ev (Err k)
    | Panic site => mkHres s dn ev (Panic site)
    | Ok (s1, p1) =>
        match v_in (s_settings s1) p1 with
        | Err k => mkHres (s1 <| s_st := Halted |>) dn ev (Err k)
        | Panic site => mkHres s1 dn ev (Panic site)
        | Ok _ =>
            let h := handle_packet s1 now p1 in
            match h_out h with
            | Ok _ => handle_packets (h_s h) now rest (dn ++ h_done h) (ev ++ h_ev h)
            | Err k => mkHres (h_s h <| s_st := Halted |>) (dn ++ h_done h) (ev ++ h_ev h) (Err k)
            | Panic site => mkHres (h_s h) (dn ++ h_done h) (ev ++ h_ev h) (Panic site)
            end
        end
    end.
  Proof. reflexivity. Qed.

  (* what the resolver step does to a packet: only a PUBLISH changes, and only in its topic *)
  Lemma resolve_in_packet s p s1 p1 : resolve_in s p = Ok (s1, p1) ->
    match p with
    | Publish pb => exists i' t, ires_resolve (s_ires s) (pub_alias pb) (pub_topic pb) = Ok (i', t) /\
                                 p1 = Publish (with_topic pb t) /\ s1 = s <| s_ires := i' |>
    | _ => p1 = p /\ s1 = s
    end.
  Proof.
    unfold resolve_in. destruct p; try (intros H; inversion H; split; reflexivity).
    destruct (ires_resolve _ _ _) as [[i' t]| |]; cbn [obind]; [|discriminate..].
    intros H; inversion H. exists i', t. repeat split; reflexivity.
  Qed.

  (* ================= frame: the inbound QoS 2 set and the high-priority queue ================= *)
  Definition keep (s s' : state) : Prop := s_q2in s' = s_q2in s /\ s_hq s' = s_hq s.

  Lemma keep_refl s : keep s s.
  Proof. split; reflexivity. Qed.
  Lemma keep_trans s1 s2 s3 : keep s1 s2 -> keep s2 s3 -> keep s1 s3.
  Proof. unfold keep. intuition congruence. Qed.

  Ltac kk := unfold keep; cbn; split; reflexivity.

  Lemma release_keep (s s' : state) id o : release s id o = Ok s' -> keep s s'.
  Proof.
    unfold Model.release. destruct (op_pid o);
      destruct (_ && _ && _); try destruct (_ <=? _); intros H; inversion H; subst; kk.
  Qed.

  Lemma disconnect_completion_keep (s : state) o : keep s (fst (disconnect_completion s o)).
  Proof.
    unfold Model.disconnect_completion. destruct (is_disconnect (op_packet o)); cbn; [|apply keep_refl].
    destruct (pstate_eqb (s_st s) PendingDisconnect); cbn; [kk|apply keep_refl].
  Qed.

  Lemma fail_op_keep (s : state) id e : keep s (r_s (fail_op s id e)).
  Proof.
    unfold Model.fail_op. destruct (lookup id (s_ops s)) as [o|]; [|apply keep_refl].
    destruct (release s id o) as [s1|k|site] eqn:Er; cbn; try apply keep_refl.
    pose proof (release_keep _ _ _ _ Er) as H1.
    pose proof (disconnect_completion_keep s1 o) as H2.
    destruct (disconnect_completion s1 o) as [s2 r]. cbn in H2.
    destruct r; [destruct (op_user o)|..]; cbn; eapply keep_trans; eauto.
  Qed.

  Lemma ping_extension_keep (s : state) o : keep s (ping_extension s o).
  Proof.
    unfold Model.ping_extension.
    destruct (match op_packet o with Subscribe _ | Unsubscribe _ => op_ext o | Publish pb => _ | _ => None end);
      [|apply keep_refl].
    destruct (s_settings s); [|apply keep_refl]. destruct (s_next_ping s); [|apply keep_refl].
    destruct (_ <? _); [kk|apply keep_refl].
  Qed.

  Lemma succeed_op_keep (s : state) id resp : keep s (r_s (succeed_op s id resp)).
  Proof.
    unfold Model.succeed_op. destruct (lookup id (s_ops s)) as [o|]; [|apply keep_refl].
    destruct (release s id o) as [s1|k|site] eqn:Er; cbn; try apply keep_refl.
    pose proof (release_keep _ _ _ _ Er) as H1.
    pose proof (ping_extension_keep s1 o) as H1'.
    pose proof (disconnect_completion_keep (ping_extension s1 o) o) as H2.
    destruct (disconnect_completion (ping_extension s1 o) o) as [s2 r]. cbn in H2.
    assert (keep s s2) by (eapply keep_trans; [exact H1|eapply keep_trans; eauto]).
    destruct r; [destruct (op_user o); [destruct (success_value o resp)|]|..]; cbn; assumption.
  Qed.

  Lemma fail_all_keep ids : forall (s : state) e, keep s (r_s (fail_all s ids e)).
  Proof.
    induction ids as [|id rest IH]; intros s e; cbn [Model.fail_all]; [apply keep_refl|].
    pose proof (fail_op_keep s id e) as H1.
    destruct (is_panic (r_out (fail_op s id e))); [exact H1|].
    pose proof (IH (r_s (fail_op s id e)) e) as H2.
    destruct (is_panic _); cbn; eapply keep_trans; eauto.
  Qed.

  Lemma succeed_all_keep ids : forall (s : state), keep s (r_s (succeed_all s ids)).
  Proof.
    induction ids as [|id rest IH]; intros s; cbn [Model.succeed_all]; [apply keep_refl|].
    pose proof (succeed_op_keep s id None) as H1.
    destruct (is_panic (r_out (succeed_op s id None))); [exact H1|].
    pose proof (IH (r_s (succeed_op s id None))) as H2.
    destruct (is_panic _); cbn; eapply keep_trans; eauto.
  Qed.

  Lemma unbind_keep (s : state) id : keep s (unbind s id).
  Proof.
    unfold Model.unbind. destruct (lookup id (s_ops s)) as [o|]; [|apply keep_refl].
    destruct (op_pid o) as [pid|]; [destruct (with_pid 0 (op_packet o))|]; kk.
  Qed.

  Lemma fold_unbind_keep l : forall (s : state), keep s (fold_left unbind l s).
  Proof.
    induction l as [|x r IH]; intros s; cbn [fold_left]; [apply keep_refl|].
    eapply keep_trans; [apply unbind_keep|apply IH].
  Qed.

  (* session handling never touches the high-priority queue (whatever its outcome) *)
  Lemma apply_session_hq (s : state) sp : s_hq (r_s (apply_session s sp)) = s_hq s.
  Proof.
    unfold Model.apply_session. destruct sp.
    - cbn [Model.pure r_out r_s is_panic r_done].
      set (s2 := fold_left _ _ _).
      assert (H2 : keep s s2) by (subst s2; apply fold_unbind_keep).
      destruct H2 as [_ Hh]. clearbody s2.
      repeat match goal with
      | |- context [if ?b then _ else _] => destruct b; cbn [r_s r_out is_panic] in *
      end; cbn; assumption.
    - destruct (partition_policy s (s_rq s)) as [kept rejected].
      set (s1 := s <| s_rq := [] |> <| s_ops := _ |> <| s_uq := _ |>).
      pose proof (fail_all_keep rejected s1 EOfflineQueuePolicyFailed) as [_ Hf].
      assert (Hs1 : s_hq s1 = s_hq s) by reflexivity.
      destruct (is_panic (r_out (fail_all s1 rejected EOfflineQueuePolicyFailed))) eqn:Ep.
      + cbn [r_out]. rewrite Ep. cbv iota. congruence.
      + cbn [r_out r_s r_done]. rewrite Ep.
        set (sa := r_s _ <| s_q2in := [] |> <| s_alloc := [] |>).
        set (s2 := fold_left _ _ sa).
        assert (H2 : keep sa s2) by (subst s2; apply fold_unbind_keep).
        destruct H2 as [_ Hh].
        assert (Hsa : s_hq sa = s_hq s) by (subst sa; cbn; congruence).
        clearbody s2. clearbody sa.
        repeat match goal with
        | |- context [if ?b then _ else _] => destruct b; cbn [r_s r_out is_panic] in *
        end; cbn; congruence.
  Qed.

  (* ================= every handler implements the specification ================= *)
  Definition meets (s : state) (now : N) (p : packet) : Prop :=
    let h := handle_packet s now p in
    let i := item_of s now p in
    h_ev h = ev_item (s_q2in s) i /\
    s_hq (h_s h) = s_hq s ++ hq_item i /\
    (is_panic (h_out h) = false -> s_q2in (h_s h) = q2_item (s_q2in s) i).

  (* handlers that touch neither the set nor the queue and surface nothing *)
  Lemma meets_neutral s now p :
    (match p with Connack _ | Publish _ | Pubrel _ | Pubrec _ | Disconnect _ => False | _ => True end) ->
    keep s (h_s (handle_packet s now p)) -> h_ev (handle_packet s now p) = [] -> meets s now p.
  Proof.
    intros Hp [Hq Hh] He. unfold meets. cbv zeta. rewrite He, Hq, Hh.
    unfold ev_item, hq_item, ack_of, q2_item, item_of. cbn [it_p it_rel].
    destruct p; try contradiction; rewrite ?app_nil_r; repeat split; reflexivity.
  Qed.

  Ltac neutral_leaf :=
    cbn [h_s h_ev Model.hres_of]; first [apply keep_refl | apply succeed_op_keep | reflexivity].

  Lemma suback_neutral s a : keep s (h_s (handle_suback s a)) /\ h_ev (handle_suback s a) = [].
  Proof.
    unfold Model.handle_suback.
    destruct (pre_connack s); [split; neutral_leaf|].
    destruct (lookup _ (s_pnon s)); [|split; neutral_leaf].
    destruct (lookup _ (s_ops s)) as [o|]; [|split; neutral_leaf].
    destruct (op_packet o); try (split; neutral_leaf).
    destruct (negb _); split; neutral_leaf.
  Qed.

  Lemma unsuback_neutral s a : keep s (h_s (handle_unsuback s a)) /\ h_ev (handle_unsuback s a) = [].
  Proof.
    unfold Model.handle_unsuback.
    destruct (pre_connack s); [split; neutral_leaf|].
    destruct (lookup _ (s_pnon s)); [|split; neutral_leaf].
    destruct (lookup _ (s_ops s)) as [o|]; [|split; neutral_leaf].
    destruct (op_packet o); try (split; neutral_leaf).
    destruct (version_eqb _ _); [split; neutral_leaf|].
    destruct (negb _); split; neutral_leaf.
  Qed.

  Lemma puback_neutral s a : keep s (h_s (handle_puback s a)) /\ h_ev (handle_puback s a) = [].
  Proof.
    unfold Model.handle_puback.
    destruct (pre_connack s); [split; neutral_leaf|].
    destruct (lookup _ (s_ppub s)) as [id|]; [|split; neutral_leaf].
    destruct (publish_qos_of enc dec ores ires s id) as [q|]; [|split; neutral_leaf].
    destruct q as [|q]; [split; neutral_leaf|]. destruct q; split; neutral_leaf.
  Qed.

  Lemma pubcomp_neutral s a : keep s (h_s (handle_pubcomp s a)) /\ h_ev (handle_pubcomp s a) = [].
  Proof.
    unfold Model.handle_pubcomp.
    destruct (pre_connack s); [split; neutral_leaf|].
    destruct (lookup _ (s_ppub s)) as [id|]; [|split; neutral_leaf].
    destruct (lookup _ (s_ops s)) as [o|]; [|split; neutral_leaf].
    destruct (op_packet o); try (split; neutral_leaf).
    destruct (_ =? 2); [|split; neutral_leaf].
    destruct (op_pubrel o); split; neutral_leaf.
  Qed.

  Lemma pingresp_neutral s : keep s (h_s (handle_pingresp s)) /\ h_ev (handle_pingresp s) = [].
  Proof.
    unfold Model.handle_pingresp.
    destruct (s_st s); try (split; neutral_leaf); destruct (s_ping_to s); split; first [kk|neutral_leaf].
  Qed.

  Lemma meets_publish s now pb : meets s now (Publish pb).
  Proof.
    unfold meets, item_of, ev_item, hq_item, ack_of, q2_item, it_ok, is_q2.
    cbn [it_p it_out it_rel it_id Model.handle_packet]. cbv zeta.
    unfold Model.handle_publish.
    destruct (pre_connack s); [cbn; rewrite app_nil_r; repeat split; reflexivity|].
    destruct (pub_qos pb =? 0) eqn:E0; [cbn; rewrite app_nil_r; repeat split; reflexivity|].
    destruct (pub_qos pb =? 1) eqn:E1; [cbn; repeat split; reflexivity|].
    unfold q2_add. destruct (mem (pub_pid pb) (s_q2in s)); cbn; repeat split; reflexivity.
  Qed.

  Lemma meets_pubrel s now a : meets s now (Pubrel a).
  Proof.
    unfold meets, item_of, ev_item, hq_item, ack_of, q2_item, it_ok.
    cbn [it_p it_out it_rel it_id Model.handle_packet]. cbv zeta.
    unfold Model.handle_pubrel.
    destruct (pre_connack s); cbn; rewrite ?app_nil_r; repeat split; reflexivity.
  Qed.

  Lemma meets_pubrec s now a : meets s now (Pubrec a).
  Proof.
    unfold meets, item_of, ev_item, hq_item, ack_of, q2_item.
    cbn [it_p it_rel Model.handle_packet]. cbv zeta.
    unfold Model.handle_pubrec, pubrel_target.
    destruct (pre_connack s); [cbn; rewrite app_nil_r; repeat split; reflexivity|].
    destruct (lookup _ (s_ppub s)) as [id|]; [|cbn; rewrite app_nil_r; repeat split; reflexivity].
    destruct (lookup _ (s_ops s)) as [o|]; [|cbn; rewrite app_nil_r; repeat split; reflexivity].
    destruct (op_packet o); try (cbn; rewrite app_nil_r; repeat split; reflexivity).
    destruct (_ =? 2); [|cbn; rewrite app_nil_r; repeat split; reflexivity].
    destruct (128 <=? ack_rc a); cbn [andb negb]; [|cbn; repeat split; reflexivity].
    destruct (succeed_op_keep s id (Some (Pubrec a))) as [Hq Hh].
    cbn [Model.hres_of h_s h_ev h_out]. rewrite Hq, Hh, app_nil_r. repeat split; reflexivity.
  Qed.

  Lemma meets_disconnect s now d : meets s now (Disconnect d).
  Proof.
    unfold meets, item_of, ev_item, hq_item, ack_of, q2_item.
    cbn [it_p it_out it_rel Model.handle_packet]. cbv zeta.
    unfold Model.handle_disconnect.
    destruct (pre_connack s); [cbn; rewrite app_nil_r; repeat split; reflexivity|].
    destruct (version_eqb _ _); cbn; rewrite app_nil_r; repeat split; reflexivity.
  Qed.

  Lemma meets_connack s now c : meets s now (Connack c).
  Proof.
    unfold meets, item_of, ev_item, hq_item, ack_of, q2_item, it_ok, sess_applied.
    cbn [it_p it_out it_rel it_st it_sess Model.handle_packet]. cbv zeta. rewrite app_nil_r.
    unfold Model.handle_connack.
    destruct (pstate_eqb (s_st s) PendingConnack); cbn [negb andb orb];
      [|cbn; repeat split; reflexivity].
    destruct (ca_rc c =? 0); cbn [negb andb orb]; [|cbn; repeat split; reflexivity].
    destruct (v_in None (Connack c)); cbn [is_ok andb]; [|cbn; repeat split; reflexivity..].
    set (s1 := s <| s_st := Connected |> <| s_connected_before := true |> <| s_settings := _ |> <| s_connack_to := None |>
                  <| s_ores := _ |> <| s_ires := _ |> <| s_ping_to := None |> <| s_next_ping := _ |>).
    set (s2 := if cf_drain_one cfg then _ else s1).
    assert (Hs2 : s_q2in s2 = s_q2in s /\ s_hq s2 = s_hq s).
    { subst s2. destruct (cf_drain_one cfg); cbn; split; reflexivity. }
    destruct Hs2 as [Hq2 Hh2].
    pose proof (apply_session_hq s2 (ca_session_present c)) as Hh.
    pose proof (session_inbound_qos2 enc dec ores ires cfg s2 (ca_session_present c)) as Hq.
    destruct (r_out (apply_session s2 (ca_session_present c))) eqn:Er; cbn [h_s h_ev h_out is_panic orb].
    - split; [reflexivity|]. split; [congruence|]. intros _. destruct (Hq eq_refl) as [Hq' _]. rewrite Hq', Hq2.
      destruct (ca_session_present c); reflexivity.
    - split; [reflexivity|]. split; [congruence|]. intros _. destruct (Hq eq_refl) as [Hq' _]. rewrite Hq', Hq2.
      destruct (ca_session_present c); reflexivity.
    - split; [reflexivity|]. split; [congruence|]. discriminate.
  Qed.

  Theorem handle_packet_spec s now p : meets s now p.
  Proof.
    destruct p as [x|c|pb|a|a|a|a|x|a|x|a| | |d|x];
      try (apply meets_neutral; [exact I|cbn; apply keep_refl|reflexivity]).
    - apply meets_connack.
    - apply meets_publish.
    - apply meets_neutral; [exact I|apply puback_neutral|apply puback_neutral].
    - apply meets_pubrec.
    - apply meets_pubrel.
    - apply meets_neutral; [exact I|apply pubcomp_neutral|apply pubcomp_neutral].
    - apply meets_neutral; [exact I|apply suback_neutral|apply suback_neutral].
    - apply meets_neutral; [exact I|apply unsuback_neutral|apply unsuback_neutral].
    - apply meets_neutral; [exact I|apply pingresp_neutral|apply pingresp_neutral].
    - apply meets_disconnect.
  Qed.

  Theorem handle_packet_refines s now p :
    let h := handle_packet s now p in
    let i := item_of s now p in
    h_ev h = ev_item (s_q2in s) i /\
    s_hq (h_s h) = s_hq s ++ hq_item i /\
    (is_panic (h_out h) = false -> s_q2in (h_s h) = q2_item (s_q2in s) i).
  Proof. exact (handle_packet_spec s now p). Qed.

  (* the acknowledgement owed by an item is created NOW: a fresh operation, without completion
     handler, under the id recorded in the item, appended to the operation table *)
  Theorem ack_op_created s now p pk :
    ack_of (item_of s now p) = Some pk ->
    let h := handle_packet s now p in
    h_out h = Ok tt /\
    s_ops (h_s h) = s_ops s ++ [(s_next_id s, new_op pk false None)] /\
    s_next_id (h_s h) = s_next_id s + 1 /\
    it_id (item_of s now p) = s_next_id s.
  Proof.
    unfold ack_of, item_of, it_ok. cbn [it_p it_out it_id]. cbv zeta.
    destruct p; try discriminate; cbn [Model.handle_packet].
    - unfold Model.handle_publish. destruct (pre_connack s); [discriminate|].
      destruct (pub_qos p =? 0); [discriminate|]. destruct (pub_qos p =? 1).
      + cbn. intros H; inversion H. repeat split; reflexivity.
      + destruct (mem _ _); cbn; intros H; inversion H; repeat split; reflexivity.
    - unfold Model.handle_pubrel. destruct (pre_connack s); [discriminate|].
      cbn. intros H; inversion H. repeat split; reflexivity.
  Qed.

  (* a processed CONNACK had its session rules applied *)
  Lemma connack_ok_sess s now c : it_ok (item_of s now (Connack c)) = true -> it_sess (item_of s now (Connack c)) = true.
  Proof.
    unfold it_ok, item_of, sess_applied. cbn [it_out it_sess Model.handle_packet]. unfold Model.handle_connack.
    destruct (pstate_eqb (s_st s) PendingConnack); cbn [negb andb]; [|discriminate].
    destruct (ca_rc c =? 0); cbn [negb andb]; [|discriminate].
    destruct (v_in None (Connack c)); cbn; [reflexivity|discriminate..].
  Qed.

  (* PUBLISH / PUBREL are processed exactly when a CONNACK has been accepted on this connection *)
  Lemma publish_ok_iff s now pb : it_ok (item_of s now (Publish pb)) = negb (pre_connack s).
  Proof.
    unfold it_ok, item_of. cbn [it_out Model.handle_packet]. unfold Model.handle_publish.
    destruct (pre_connack s); [reflexivity|]. destruct (_ =? 0); [reflexivity|]. destruct (_ =? 1); [reflexivity|].
    destruct (mem _ _); reflexivity.
  Qed.
  Lemma pubrel_ok_iff s now a : it_ok (item_of s now (Pubrel a)) = negb (pre_connack s).
  Proof.
    unfold it_ok, item_of. cbn [it_out Model.handle_packet]. unfold Model.handle_pubrel.
    destruct (pre_connack s); reflexivity.
  Qed.

  (* a CONNACK on which the session rules were run fails (without panicking) only with
     UserInitiatedDisconnect: the completion signal of a DISCONNECT operation that sat in the
     resubmit queue and was rejected by the offline-queue policy *)
  Lemma fail_op_out s id e :
    match r_out (fail_op s id e) with Err k => k = EUserInitiatedDisconnect | _ => True end.
  Proof.
    unfold Model.fail_op. destruct (lookup id (s_ops s)) as [o|]; [|exact I].
    destruct (release s id o) as [s1|k|site] eqn:Er; [| |exact I].
    - unfold Model.disconnect_completion. destruct (is_disconnect (op_packet o)); cbn; [reflexivity|].
      destruct (op_user o); exact I.
    - exfalso. revert Er. unfold Model.release. destruct (op_pid o);
        destruct (_ && _ && _); try destruct (_ <=? _); discriminate.
  Qed.

  Lemma fail_all_out ids : forall s e,
    match r_out (fail_all s ids e) with Err k => k = EUserInitiatedDisconnect | _ => True end.
  Proof.
    induction ids as [|id rest IH]; intros s e; cbn [Model.fail_all]; [exact I|].
    pose proof (fail_op_out s id e) as H1.
    destruct (is_panic (r_out (fail_op s id e))); [exact H1|].
    pose proof (IH (r_s (fail_op s id e)) e) as H2.
    destruct (is_panic _); cbn [r_out]; [exact H2|].
    unfold Model.fold_result. destruct (r_out (fail_all _ rest e)); assumption.
  Qed.

  Lemma apply_session_out s sp :
    match r_out (apply_session s sp) with Err k => k = EUserInitiatedDisconnect | _ => True end.
  Proof.
    unfold Model.apply_session. destruct sp.
    - cbn [Model.pure r_out r_s is_panic r_done].
      repeat match goal with
      | |- context [if ?b then _ else _] => destruct b; cbn [r_s r_out is_panic] in *
      end; exact I.
    - destruct (partition_policy s (s_rq s)) as [kept rejected].
      set (s1 := s <| s_rq := [] |> <| s_ops := _ |> <| s_uq := _ |>).
      pose proof (fail_all_out rejected s1 EOfflineQueuePolicyFailed) as Hf.
      destruct (is_panic (r_out (fail_all s1 rejected EOfflineQueuePolicyFailed))) eqn:Ep.
      + cbn [r_out]. rewrite Ep. cbv iota. exact Hf.
      + cbn [r_out r_s r_done]. rewrite Ep.
        repeat match goal with
        | |- context [if ?b then _ else _] => destruct b; cbn [r_s r_out is_panic] in *
        end; first [exact I|exact Hf].
  Qed.

  Theorem failed_session_kind s now c k :
    it_sess (item_of s now (Connack c)) = true -> it_out (item_of s now (Connack c)) = Err k ->
    k = EUserInitiatedDisconnect.
  Proof.
    unfold item_of, sess_applied. cbn [it_out it_sess Model.handle_packet]. unfold Model.handle_connack.
    destruct (pstate_eqb (s_st s) PendingConnack); cbn [negb andb]; [|discriminate].
    destruct (ca_rc c =? 0); cbn [negb andb]; [|discriminate].
    destruct (v_in None (Connack c)); cbn [is_ok]; [|discriminate..]. intros _.
    match goal with |- context [apply_session ?a ?b] => pose proof (apply_session_out a b) as Ho;
      destruct (r_out (apply_session a b)) end; cbn [h_out]; [discriminate| |discriminate].
    intros H; inversion H; congruence.
  Qed.

  (* ================= the packet loop ================= *)
  Lemma resolve_in_keep s p s1 p1 : resolve_in s p = Ok (s1, p1) -> keep s s1.
  Proof.
    intros H. apply resolve_in_packet in H. destruct p; try (destruct H as [_ ->]; apply keep_refl).
    destruct H as (i' & t & _ & _ & ->). kk.
  Qed.

  Theorem handle_packets_spec now ps : forall s dn ev,
    let h := handle_packets s now ps dn ev in
    let log := plog s now ps in
    h_ev h = ev ++ ev_spec (s_q2in s) (pkts log) /\
    s_hq (h_s h) = s_hq s ++ flat_map hq_item log /\
    (is_panic (h_out h) = false -> s_q2in (h_s h) = q2_spec (s_q2in s) (pkts log)).
  Proof.
    induction ps as [|p rest IH]; intros s dn ev; cbv zeta.
    - cbn. rewrite !app_nil_r. repeat split; reflexivity.
    - rewrite handle_packets_cons. cbn [plog].
      destruct (resolve_in s p) as [[s1 p1]|k|site] eqn:Er;
        [|cbn; rewrite !app_nil_r; repeat split; reflexivity..].
      destruct (resolve_in_keep _ _ _ _ Er) as [Hq1 Hh1].
      destruct (v_in (s_settings s1) p1);
        [|cbn; rewrite !app_nil_r; repeat split; try discriminate; intros; solve [reflexivity|assumption]..].
      destruct (handle_packet_spec s1 now p1) as (He & Hh & Hq). cbv zeta in He, Hh, Hq.
      cbv zeta. destruct (h_out (handle_packet s1 now p1)) as [u|k|site] eqn:Eo.
      + specialize (IH (h_s (handle_packet s1 now p1)) (dn ++ h_done (handle_packet s1 now p1))
                       (ev ++ h_ev (handle_packet s1 now p1))). cbv zeta in IH.
        destruct IH as (IHe & IHh & IHq). specialize (Hq eq_refl).
        unfold pkts. cbn [map ev_spec ev_entry q2_entry flat_map]. fold (pkts (plog (h_s (handle_packet s1 now p1)) now rest)).
        rewrite q2_spec_pkts_cons. rewrite <- Hq1, <- Hh1, <- Hq.
        split; [rewrite IHe, He, <- app_assoc; reflexivity|].
        split; [rewrite IHh, Hh, <- app_assoc; reflexivity|]. exact IHq.
      + unfold pkts. cbn [map ev_spec ev_entry q2_entry flat_map h_s h_ev h_out is_panic].
        rewrite q2_spec_pkts_cons, !app_nil_r. rewrite <- Hq1, <- Hh1.
        split; [rewrite He; reflexivity|]. split; [cbn; exact Hh|]. intros _. cbn. apply Hq. reflexivity.
      + unfold pkts. cbn [map ev_spec ev_entry q2_entry flat_map h_s h_ev h_out is_panic].
        rewrite !app_nil_r. rewrite <- Hq1, <- Hh1.
        split; [rewrite He; reflexivity|]. split; [exact Hh|]. discriminate.
  Qed.

  (* the shape of a log: every item but the last was processed; after a successful call all were *)
  Lemma plog_ok_prefix now ps : forall s, Forall (fun i => it_ok i = true) (removelast (plog s now ps)).
  Proof.
    induction ps as [|p rest IH]; intros s; cbn [plog]; [constructor|].
    destruct (resolve_in s p) as [[s1 p1]|k|site]; [|constructor..].
    destruct (v_in (s_settings s1) p1); [|constructor..].
    destruct (h_out (handle_packet s1 now p1)) eqn:Eo; [|constructor..].
    specialize (IH (h_s (handle_packet s1 now p1))).
    destruct (plog (h_s (handle_packet s1 now p1)) now rest) as [|i r] eqn:El; [constructor|].
    change (removelast (?a :: i :: r)) with (a :: removelast (i :: r)).
    constructor; [|exact IH]. unfold it_ok, item_of. cbn [it_out]. rewrite Eo. reflexivity.
  Qed.

  Lemma plog_all_ok now ps : forall s dn ev, h_out (handle_packets s now ps dn ev) = Ok tt ->
    Forall (fun i => it_ok i = true) (plog s now ps) /\ length (plog s now ps) = length ps.
  Proof.
    induction ps as [|p rest IH]; intros s dn ev; [split; constructor|].
    rewrite handle_packets_cons. cbn [plog].
    destruct (resolve_in s p) as [[s1 p1]|k|site]; [|discriminate..].
    destruct (v_in (s_settings s1) p1); [|discriminate..]. cbv zeta.
    destruct (h_out (handle_packet s1 now p1)) eqn:Eo; [|discriminate..].
    intros H. destruct (IH _ _ _ H) as [IH1 IH2]. split.
    - constructor; [|exact IH1]. unfold it_ok, item_of. cbn [it_out]. rewrite Eo. reflexivity.
    - cbn [length]. rewrite IH2. reflexivity.
  Qed.

  (* the set after a call is the fold of the specification over the PROCESSED packets, unless the
     call failed in the session handling of a CONNACK (see failed_session_kind) *)
  Theorem handle_packets_q2_processed now ps s dn ev :
    let h := handle_packets s now ps dn ev in
    let log := plog s now ps in
    is_panic (h_out h) = false ->
    Forall (fun i => it_ok i = false -> it_sess i = false) log ->
    s_q2in (h_s h) = q2_spec (s_q2in s) (pkts (filter it_ok log)).
  Proof.
    cbv zeta. intros Hp Hf. destruct (handle_packets_spec now ps s dn ev) as (_ & _ & Hq). cbv zeta in Hq.
    rewrite (Hq Hp). apply q2_spec_processed, Hf.
  Qed.

  (* ================= one incoming-data call ================= *)
  Theorem net_data_spec s now data :
    let h := net_data s now data in
    let log := data_log s now data in
    h_ev h = ev_spec (s_q2in s) (pkts log) /\
    s_hq (h_s h) = s_hq s ++ flat_map hq_item log /\
    (is_panic (h_out h) = false -> s_q2in (h_s h) = q2_spec (s_q2in s) (pkts log)).
  Proof.
    cbv zeta. unfold Model.net_data, data_log.
    destruct (_ || _); [cbn; rewrite app_nil_r; repeat split; reflexivity|].
    destruct (_ && _); [cbn; rewrite app_nil_r; repeat split; reflexivity|].
    destruct (dec_feed _ _ _ _) as [[d' ps] r].
    destruct r; [|cbn; rewrite app_nil_r; repeat split; reflexivity..].
    pose proof (handle_packets_spec now ps (s <| s_dec := d' |>) [] []) as H. cbv zeta in H. exact H.
  Qed.
End Engine.
