(* C02 / wire level, codec side.
   (1) [flat]: the bytes a step queue still has to write, as a TOTAL function (a step whose variable-length
       integer is out of range contributes nothing: the encoder fails when it reaches it); every successful
       encode_call, whatever fill and capacity, emits a prefix of it and leaves the rest.
   (2) the specification decoder reads ONE packet from the front of a stream: a complete encoding followed by
       anything decodes to the same packet with exactly the rest left over; iterated over the concatenation of the
       implementation's encodings of valid packets it returns their canonical forms, in order, nothing left over. *)
From GM Require Import Base.Prelude Base.Outcome Codec.Prim Codec.Packets Codec.Steps Codec.ImplEncode
  Codec.SpecDecodeC2S Codec.ValidC2S CodecProofs.EncPrim CodecProofs.EncFrag CodecProofs.EncAck
  CodecProofs.EncDisc CodecProofs.EncSub CodecProofs.EncPub CodecProofs.EncCon.
Open Scope N_scope.

(* ---------- (1) what a step queue still has to write ---------- *)
Definition step_flat (s : step) : bytes := match step_bytes s with Ok b => b | _ => [] end.
Definition flat (steps : list step) : bytes := flat_map step_flat steps.

Lemma flat_cons s steps : flat (s :: steps) = step_flat s ++ flat steps.
Proof. reflexivity. Qed.

Lemma flatten_flat steps : forall bs, flatten steps = Ok bs -> flat steps = bs.
Proof.
  induction steps as [|s steps IH]; intros bs H; [cbn in H; injection H as <-; reflexivity|].
  cbn [flatten] in H. destruct (step_bytes s) as [b| |] eqn:Hs; cbn [obind] in H; try discriminate.
  destruct (flatten steps) as [t| |]; cbn [obind] in H; try discriminate. injection H as <-.
  rewrite flat_cons, (IH t eq_refl). unfold step_flat. rewrite Hs. reflexivity.
Qed.

Lemma encode_loop_flat steps : forall l cap out rest,
  encode_loop steps l cap = Ok (out, rest) -> flat steps = out ++ flat rest.
Proof.
  induction steps as [|s steps IH]; intros l cap out rest H.
  - cbn in H. injection H as <- <-. reflexivity.
  - cbn [encode_loop] in H. destruct (l + 4 <=? cap); [|injection H as <- <-; reflexivity].
    destruct s as [v|v|v|v|b].
    1-4: match type of H with context [step_bytes ?s] => destruct (step_bytes s) as [bs| |] eqn:Hs end;
         cbn [obind] in H; try discriminate;
         destruct (encode_loop steps (l + len bs) cap) as [[out' rest']| |] eqn:Hrec; cbn [obind] in H; try discriminate;
         injection H as <- <-; rewrite flat_cons, (IH _ _ _ _ Hrec); unfold step_flat; rewrite Hs; apply app_assoc.
    cbn zeta in H. destruct (N.min (cap - l) (len b) <? len b).
    + injection H as <- <-. rewrite !flat_cons. unfold step_flat. cbn [step_bytes]. rewrite app_assoc, take_drop. reflexivity.
    + destruct (encode_loop steps (l + N.min (cap - l) (len b)) cap) as [[out' rest']| |] eqn:Hrec; cbn [obind] in H; try discriminate.
      injection H as <- <-. rewrite flat_cons, (IH _ _ _ _ Hrec). unfold step_flat. cbn [step_bytes]. apply app_assoc.
Qed.

Lemma flat_drop_empty steps : flat (drop_empty steps) = flat steps.
Proof.
  induction steps as [|s steps IH]; [reflexivity|]. destruct s as [v|v|v|v|[|x b]]; try reflexivity. exact IH.
Qed.

(* every successful call, for EVERY fill and capacity: emitted bytes ++ what remains = what remained before *)
Theorem encode_call_flat steps fill cap out rest :
  encode_call steps fill cap = Ok (out, rest) -> flat steps = out ++ flat rest.
Proof.
  intros H. destruct (encode_call_inv _ _ _ _ _ H) as (_ & rest0 & Hl & ->).
  rewrite flat_drop_empty. exact (encode_loop_flat _ _ _ _ _ Hl).
Qed.

(* a call that leaves an error-free queue was made on an error-free queue *)
Theorem encode_call_flatten_ok steps fill cap out rest :
  encode_call steps fill cap = Ok (out, rest) -> (exists b, flatten rest = Ok b) -> exists b, flatten steps = Ok b.
Proof.
  intros H [b Hb]. destruct (encode_call_inv _ _ _ _ _ H) as (_ & rest0 & Hl & ->).
  rewrite flatten_drop_empty in Hb. pose proof (encode_loop_flatten _ _ _ _ _ Hl) as E. unfold then_rest in E. rewrite Hb in E.
  eexists. exact E.
Qed.

(* the complete encoding of a packet: what the steps Encoder::reset queues have to write *)
Definition full_encoding (v : version) (p : packet) (r : resolution) : bytes :=
  match impl_steps v p r with Ok s => flat s | _ => [] end.

Lemma full_encoding_ok v p r bs : impl_encode_all v p r = Ok bs -> full_encoding v p r = bs.
Proof.
  unfold impl_encode_all, full_encoding. destruct (impl_steps v p r) as [s| |]; cbn [obind]; try discriminate. apply flatten_flat.
Qed.

(* ---------- (2) the specification decoder on a stream ---------- *)
Lemma p_vbi_n_app n : forall b x r more, p_vbi_n n b = Some (x, r) -> p_vbi_n n (b ++ more) = Some (x, r ++ more).
Proof.
  induction n as [|n IH]; intros b x r more H; [destruct b; discriminate|].
  destruct b as [|y b]; [discriminate|]. cbn [p_vbi_n app] in *. destruct (y <? 128); [injection H as <- <-; reflexivity|].
  destruct (p_vbi_n n b) as [[hi r']|] eqn:E; [|discriminate]. rewrite (IH _ _ _ more E).
  cbn in *. destruct (negb (hi =? 0)); [|discriminate]. injection H as <- <-. reflexivity.
Qed.

Theorem spec_decode_app v bs p more : spec_decode v bs = Some (p, []) -> spec_decode v (bs ++ more) = Some (p, more).
Proof.
  unfold spec_decode. destruct bs as [|first b1]; [discriminate|]. cbn [p_u8 app].
  destruct (p_vbi b1) as [[rl b2]|] eqn:Ev; [|discriminate]. unfold p_vbi in *. rewrite (p_vbi_n_app _ _ _ _ more Ev).
  unfold p_take. destruct (rl <=? len b2) eqn:El; [|discriminate]. cbn.
  destruct (d_body v (first / 16) (first mod 16) (take rl b2)) as [q|] eqn:Ed; [|discriminate].
  intros H. injection H as <- Hd.
  assert (Hlen : N.to_nat rl = length b2).
  { unfold drop in Hd. unfold len in El. assert (length (skipn (N.to_nat rl) b2) = 0%nat) by (rewrite Hd; reflexivity).
    rewrite skipn_length in H. lia. }
  assert (E1 : rl <=? len (b2 ++ more) = true) by (rewrite len_app; lia). rewrite E1. cbn.
  assert (E2 : take rl (b2 ++ more) = take rl b2).
  { unfold take. rewrite Hlen, firstn_app, Nat.sub_diag, firstn_all. cbn. rewrite app_nil_r. reflexivity. }
  assert (E3 : drop rl (b2 ++ more) = more).
  { unfold drop. rewrite Hlen, skipn_app, Nat.sub_diag, skipn_all. reflexivity. }
  rewrite E2, Ed, E3. reflexivity.
Qed.

(* read packets until the stream is exhausted *)
Fixpoint spec_decode_all (fuel : nat) (v : version) (b : bytes) : option (list packet) :=
  match b with
  | [] => Some []
  | _ => match fuel with
         | O => None
         | S f => match spec_decode v b with
                  | Some (p, rest) => option_map (cons p) (spec_decode_all f v rest)
                  | None => None
                  end
         end
  end.

(* all client -> server kinds, both versions: the per-kind theorems of Properties/C02.v in one statement *)
Theorem roundtrip_all v r p : valid v r p = true ->
  exists bs, impl_encode_all v p r = Ok bs /\ spec_decode v bs = Some (canon v r p, []).
Proof.
  intros H. destruct p; cbn [valid] in H; try discriminate.
  - destruct v; [apply connect_rt5|apply connect_rt311]; exact H.
  - destruct v; [apply publish_rt5|apply publish_rt311]; exact H.
  - destruct v; [apply puback_rt5|apply puback_rt311]; exact H.
  - destruct v; [apply pubrec_rt5|apply pubrec_rt311]; exact H.
  - destruct v; [apply pubrel_rt5|apply pubrel_rt311]; exact H.
  - destruct v; [apply pubcomp_rt5|apply pubcomp_rt311]; exact H.
  - destruct v; [apply subscribe_rt5|apply subscribe_rt311]; exact H.
  - destruct v; [apply unsubscribe_rt5|apply unsubscribe_rt311]; exact H.
  - apply pingreq_rt.
  - destruct v; [apply disconnect_rt5; exact H|apply disconnect_rt311].
  - destruct v; [apply auth_rt5; exact H|discriminate].
Qed.

Definition pr_valid (v : version) (x : packet * resolution) : Prop := valid v (snd x) (fst x) = true.
Definition pr_canon (v : version) (x : packet * resolution) : packet := canon v (snd x) (fst x).

(* the concatenation of the complete encodings of valid packets decodes, frame by frame, to their canonical forms *)
Theorem spec_decode_stream v : forall (l : list (packet * resolution)),
  Forall (pr_valid v) l ->
  spec_decode_all (length l) v (concat (map (fun x => full_encoding v (fst x) (snd x)) l)) = Some (map (pr_canon v) l).
Proof.
  induction l as [|[p r] l IH]; intros H; [reflexivity|]. inversion H as [|? ? Hx Hl]; subst.
  destruct (roundtrip_all v r p Hx) as (bs & He & Hd). cbn [map concat fst snd length].
  rewrite (full_encoding_ok _ _ _ _ He).
  assert (Hne : bs <> []) by (intros ->; discriminate).
  destruct (bs ++ concat (map (fun x => full_encoding v (fst x) (snd x)) l)) as [|y t] eqn:Eb; [apply app_eq_nil in Eb; tauto|].
  cbn [spec_decode_all]. rewrite <- Eb, (spec_decode_app _ _ _ _ Hd), (IH Hl). reflexivity.
Qed.
