(* C09, part 1: the flow-control gates of [dequeue] (protocol.rs 1197-1245), single step. *)
From GM Require Import Base.Prelude Base.Outcome Codec.Packets Codec.Settings Engine.Model EngineProofs.AssocLemmas.
From RecordUpdate Require Import RecordSet.
Import RecordSetNotations.
Open Scope N_scope.

Definition qpub (p : packet) : bool := match p with Publish pb => negb (pub_qos pb =? 0) | _ => false end.

Set Default Proof Using "Type".
Section Engine.
  Variable enc : Type.
  Variable enc_reset : version -> packet -> resolution -> outcome enc.
  Variable enc_call : enc -> N -> N -> outcome (bytes * enc).
  Variable enc_done : enc -> bool.
  Variable dec : Type.
  Variable dec_init : dec.
  Variable dec_feed : version -> N -> dec -> bytes -> dec * list packet * outcome unit.
  Variable ores : Type.
  Variable ores_reset : ores -> N -> ores.
  Variable ores_resolve : ores -> option N -> bytes -> outcome (ores * resolution).
  Variable ires : Type.
  Variable ires_reset : ires -> ires.
  Variable ires_resolve : ires -> option N -> bytes -> outcome (ires * bytes).
  Variable v_out : option settings -> connect_opts -> resolution -> packet -> outcome unit.
  Variable v_in : option settings -> packet -> outcome unit.
  Variable cfg : config.

  Notation state := (Model.state enc dec ores ires).
  Notation init := (Model.init enc dec dec_init ores ires).
  Notation res := (Model.res enc dec ores ires).
  Notation release := (Model.release enc dec ores ires cfg).
  Notation disconnect_completion := (Model.disconnect_completion enc dec ores ires).
  Notation fail_op := (Model.fail_op enc dec ores ires cfg).
  Notation ping_extension := (Model.ping_extension enc dec ores ires).
  Notation succeed_op := (Model.succeed_op enc dec ores ires cfg).
  Notation fail_all := (Model.fail_all enc dec ores ires cfg).
  Notation succeed_all := (Model.succeed_all enc dec ores ires cfg).
  Notation andthen := (Model.andthen enc dec ores ires).
  Notation try_ := (Model.try_ enc dec ores ires).
  Notation pure := (Model.pure enc dec ores ires).
  Notation create_operation := (Model.create_operation enc dec ores ires).
  Notation passes_now := (Model.passes_now enc dec ores ires cfg).
  Notation user_event := (Model.user_event enc dec ores ires cfg).
  Notation create_connect := (Model.create_connect enc dec ores ires cfg).
  Notation net_opened := (Model.net_opened enc dec dec_init ores ires cfg).
  Notation op_exists := (Model.op_exists enc dec ores ires).
  Notation op_passes := (Model.op_passes enc dec ores ires cfg).
  Notation partition_policy := (Model.partition_policy enc dec ores ires cfg).
  Notation closed_current := (Model.closed_current enc dec ores ires cfg).
  Notation slow_start_init := (Model.slow_start_init enc dec ores ires cfg).
  Notation update_retries := (Model.update_retries enc dec ores ires cfg).
  Notation fail_exceeding := (Model.fail_exceeding enc dec ores ires cfg).
  Notation has_pubrel := (Model.has_pubrel enc dec ores ires).
  Notation net_closed_raw := (Model.net_closed_raw enc dec ores ires cfg).
  Notation net_closed := (Model.net_closed enc dec ores ires cfg).
  Notation net_write_completion := (Model.net_write_completion enc dec ores ires cfg).
  Notation acquire_free_pid := (Model.acquire_free_pid enc dec ores ires).
  Notation acquire_pid_for := (Model.acquire_pid_for enc dec ores ires).
  Notation unbind := (Model.unbind enc dec ores ires).
  Notation passes_receive_max := (Model.passes_receive_max enc dec ores ires).
  Notation throttled := (Model.throttled enc dec ores ires cfg).
  Notation has_pending_ack := (Model.has_pending_ack enc dec ores ires).
  Notation dequeue := (Model.dequeue enc dec ores ires cfg).
  Notation fully_written := (Model.fully_written enc dec ores ires).
  Notation sres := (Model.sres enc dec ores ires).
  Notation seat := (Model.seat enc dec ores ires).
  Notation seat_current := (Model.seat_current enc enc_reset dec ores ores_reset ores_resolve ires v_out cfg).
  Notation service_loop := (Model.service_loop enc enc_reset enc_call enc_done dec ores ores_reset ores_resolve ires v_out cfg).
  Notation service_queue := (Model.service_queue enc enc_reset enc_call enc_done dec ores ores_reset ores_resolve ires v_out cfg).
  Notation service_keep_alive := (Model.service_keep_alive enc dec ores ires cfg).
  Notation process_ack_timeouts := (Model.process_ack_timeouts enc dec ores ires cfg).
  Notation halt_on_error := (Model.halt_on_error enc dec ores ires).
  Notation service := (Model.service enc enc_reset enc_call enc_done dec ores ores_reset ores_resolve ires v_out cfg).
  Notation earliest_tmo := (Model.earliest_tmo enc dec ores ires).
  Notation nst_queue := (Model.nst_queue enc dec ores ires cfg).
  Notation next_service_time := (Model.next_service_time enc dec ores ires cfg).
  Notation build_settings := (Model.build_settings enc dec ores ires cfg).
  Notation apply_session := (Model.apply_session enc dec ores ires cfg).
  Notation hres := (Model.hres enc dec ores ires).
  Notation hres_of := (Model.hres_of enc dec ores ires).
  Notation pre_connack := (Model.pre_connack enc dec ores ires).
  Notation sum_ss := (Model.sum_ss enc dec ores ires).
  Notation handle_connack := (Model.handle_connack enc dec ores ores_reset ires ires_reset v_in cfg).
  Notation handle_pingresp := (Model.handle_pingresp enc dec ores ires).
  Notation handle_suback := (Model.handle_suback enc dec ores ires cfg).
  Notation handle_unsuback := (Model.handle_unsuback enc dec ores ires cfg).
  Notation publish_qos_of := (Model.publish_qos_of enc dec ores ires).
  Notation handle_puback := (Model.handle_puback enc dec ores ires cfg).
  Notation handle_pubrec := (Model.handle_pubrec enc dec ores ires cfg).
  Notation handle_pubrel := (Model.handle_pubrel enc dec ores ires).
  Notation handle_pubcomp := (Model.handle_pubcomp enc dec ores ires cfg).
  Notation handle_publish := (Model.handle_publish enc dec ores ires).
  Notation handle_disconnect := (Model.handle_disconnect enc dec ores ires cfg).
  Notation handle_packet := (Model.handle_packet enc dec ores ores_reset ires ires_reset v_in cfg).
  Notation handle_packets := (Model.handle_packets enc dec ores ores_reset ires ires_reset ires_resolve v_in cfg).
  Notation is_connect_op := (Model.is_connect_op enc dec ores ires).
  Notation connect_in_queue := (Model.connect_in_queue enc dec ores ires).
  Notation max_incoming_size := (Model.max_incoming_size cfg).
  Notation net_data := (Model.net_data enc dec dec_feed ores ores_reset ires ires_reset ires_resolve v_in cfg).
  Notation reset := (Model.reset enc dec ores ires cfg).
  Notation out_of_res := (Model.out_of_res enc dec ores ires).
  Notation step := (Model.step enc enc_reset enc_call enc_done dec dec_init dec_feed ores ores_reset ores_resolve ires ires_reset ires_resolve v_out v_in cfg).
  Notation run := (Model.run enc enc_reset enc_call enc_done dec dec_init dec_feed ores ores_reset ores_resolve ires ires_reset ires_resolve v_out v_in cfg).
  Notation SeatStop := (Model.SeatStop enc dec ores ires).
  Notation SeatContinue := (Model.SeatContinue enc dec ores ires).
  Notation SeatEncode := (Model.SeatEncode enc dec ores ires).
  Notation mkState := (Model.mkState enc dec ores ires).
  (* lia generalises over every hypothesis mentioning N, including the Section variables: clear them first *)
  Ltac slia := try clear v_in; try clear v_out; try clear ires_resolve; try clear ires_reset; try clear ores_resolve;
    try clear ores_reset; try clear dec_feed; try clear dec_init; try clear enc_done; try clear enc_call; try clear enc_reset; lia.
  Ltac dm := match goal with
    | |- context [match ?x with _ => _ end] => destruct x eqn:?
    end.

  (* what dequeue does to the state: pops exactly the returned id from the head of one queue *)
  Lemma dequeue_shape (s : state) m s1 id : dequeue s m = (s1, Some id) ->
    s_pwc s = false /\
    ((exists r, s_hq s = id :: r /\ s1 = s <| s_hq := r |>) \/
     (m = true /\ s_hq s = [] /\ (throttled s && has_pending_ack s) = false /\ passes_receive_max s id = true /\
      ((exists r, s_rq s = id :: r /\ s1 = s <| s_rq := r |>) \/
       (s_rq s = [] /\ exists r, s_uq s = id :: r /\ s1 = s <| s_uq := r |>)))).
  Proof.
    unfold Model.dequeue. destruct (s_pwc s); [discriminate|]. intros H0. split; [reflexivity|]. revert H0.
    destruct (s_hq s) as [|h r]; [|intros H; inversion H; subst; left; eauto].
    destruct m; cbn [negb]; [|discriminate]. destruct (throttled s && has_pending_ack s); [discriminate|].
    destruct (s_rq s) as [|h r].
    - destruct (s_uq s) as [|h r]; [discriminate|]. destruct (passes_receive_max s h) eqn:E; [|discriminate].
      intros H; inversion H; subst. right. repeat split; try assumption. right. split; [reflexivity|]. eauto.
    - destruct (passes_receive_max s h) eqn:E; [|discriminate].
      intros H; inversion H; subst. right. repeat split; try assumption. left. eauto.
  Qed.

  Lemma dequeue_none (s : state) m s1 : dequeue s m = (s1, None) -> s1 = s.
  Proof. unfold Model.dequeue. repeat dm; intros H; inversion H; reflexivity. Qed.

  (* slow start: while throttled with an acknowledgement outstanding, nothing leaves the resubmit /
     user queues *)
  Theorem slow_start_gate (s : state) id s1 :
    (throttled s && has_pending_ack s) = true -> dequeue s true = (s1, Some id) ->
    exists r, s_hq s = id :: r.
  Proof.
    intros Ht H. destruct (dequeue_shape s true s1 id H) as [_ [(r & Hr & _)|(_ & _ & Hf & _)]]; [eauto|congruence].
  Qed.

  (* receive maximum: a QoS>0 publish leaves the resubmit / user queues only while the pending
     table is below the server's receive maximum *)
  Theorem receive_max_gate (s : state) id s1 st o :
    dequeue s true = (s1, Some id) -> s_hq s = [] -> s_settings s = Some st ->
    lookup id (s_ops s) = Some o -> qpub (op_packet o) = true ->
    len (s_ppub s) < st_receive_maximum_from_server st.
  Proof.
    intros H Hq Hs Hl Hp. destruct (dequeue_shape s true s1 id H) as [_ [(r & Hr & _)|(_ & _ & _ & Hpass & _)]]; [congruence|].
    unfold Model.passes_receive_max in Hpass. rewrite Hs, Hl in Hpass.
    destruct (st_receive_maximum_from_server st <=? len (s_ppub s)) eqn:E; [|slia].
    unfold qpub in Hp. destruct (op_packet o); try discriminate. rewrite Hpass in Hp. discriminate.
  Qed.
End Engine.
