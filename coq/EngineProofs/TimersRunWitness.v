(* Concrete runs of the instantiated engine used as non-vacuity witnesses of the run-level C18 / C14
   theorems (TimersRunInstance.v): the premises are satisfiable and the conclusions are not trivial. *)
From GM Require Import Base.Prelude Base.Outcome Codec.Packets Codec.Settings Alias.Outbound Engine.Model Engine.Instance
  EngineProofs.WFDefs EngineProofs.IdsWitness EngineProofs.TimersRun EngineProofs.TimersRunPing EngineProofs.TimersRunInstance.
Open Scope N_scope.

Definition t_view (s : istate) :=
  (s_st s, s_ppub s, s_pnon s, s_tmo s,
   map (fun x => (fst x, op_user (snd x), op_timeout (snd x), op_ext (snd x), op_intr (snd x))) (s_ops s),
   s_next_ping s, s_ping_to s).

Ltac ok_events := repeat constructor; cbn; unfold TMAX; lia.

(* ---- ack timeout: submitted at 1 with timeout 500, completely written at 400 (time in the queue does not
   count): record (2, 900); the service at 899 leaves it, the service at 900 fails it with AckTimeout ---- *)
Definition t_hist1 : list event := x_connect_events x_connack_bytes ++ [EvUser 1 (x_pub 1) (Some 500); EvService 400 4096 0].

Lemma t_timeout :
  Forall ok_event (t_hist1 ++ [EvService 899 4096 0; EvService 900 4096 0]) /\ ok_cfg (x_cfg 0) /\
  t_view (x_state (x_cfg 0) t_hist1) = (Connected, [(1, 2)], [], [(2, 900)], [(2, true, Some 500, Some 400, 0)], None, None) /\
  (s_hq (x_state (x_cfg 0) t_hist1), s_rq (x_state (x_cfg 0) t_hist1), s_uq (x_state (x_cfg 0) t_hist1), s_cur (x_state (x_cfg 0) t_hist1)) = ([], [], [], None) /\
  epoch t_hist1 = [400; 0] /\
  map o_res (x_outs (x_cfg 0) (t_hist1 ++ [EvService 899 4096 0; EvService 900 4096 0])) = repeat (Ok tt) 8 /\
  map o_done (x_outs (x_cfg 0) (t_hist1 ++ [EvService 899 4096 0; EvService 900 4096 0])) =
    [[]; []; []; []; []; []; []; [(2, CompErr EAckTimeout)]] /\
  s_ops (x_state (x_cfg 0) (t_hist1 ++ [EvService 899 4096 0; EvService 900 4096 0])) = [].
Proof.
  split; [unfold t_hist1, x_connect_events; ok_events|]. split; [unfold ok_cfg, TMAX; cbn; lia|].
  vm_compute. repeat split; reflexivity.
Qed.

(* ---- retry limit 1: the first close catches the written QoS 1 publish (count 1), the second one is its
   2nd interruption: MaxInterruptedRetriesExceeded ---- *)
Definition t_cfg2 : config := x_cfg_full 0 false (Some 1) 0.
Definition t_hist2 : list event :=
  x_connect_events x_connack_bytes ++ [EvUser 1 (x_pub 1) None; EvService 10 4096 0; EvWriteComplete 10; EvClose 20].
Definition t_hist3 : list event :=
  t_hist2 ++ [EvOpen 30 1000; EvService 30 4096 0; EvWriteComplete 30; EvData 30 x_connack_bytes; EvService 40 4096 0; EvWriteComplete 40].

Lemma t_retry :
  Forall ok_event (t_hist3 ++ [EvClose 50]) /\ ok_cfg t_cfg2 /\
  t_view (x_state t_cfg2 t_hist2) = (Disconnected, [], [], [], [(2, true, None, Some 10, 1)], None, None) /\
  t_view (x_state t_cfg2 t_hist3) = (Connected, [(2, 2)], [], [], [(2, true, None, Some 40, 1)], None, None) /\
  (i_intr_count t_cfg2 (x_init t_cfg2) t_hist2 2, i_intr_count t_cfg2 (x_init t_cfg2) t_hist3 2) = (1, 1) /\
  i_pending (x_state t_cfg2 t_hist3) = [2] /\
  o_done (snd (i_step t_cfg2 (x_state t_cfg2 t_hist3) (EvClose 50))) = [(2, CompErr EMaxInterruptedRetriesExceeded)] /\
  s_ops (fst (i_step t_cfg2 (x_state t_cfg2 t_hist3) (EvClose 50))) = [].
Proof.
  split; [unfold t_hist3, t_hist2, x_connect_events; ok_events|]. split; [unfold ok_cfg, TMAX; cbn; lia|].
  vm_compute. repeat split; reflexivity.
Qed.

(* ---- keep-alive 20 s, ping timeout 10 s: CONNACK at 0 arms the next ping for 20000; the service call at
   20000 sends PINGREQ and arms the deadline 30000 = 20000 + min(10000, 20 * 500); answered at 26000 it is
   cleared and the service call at 30000 succeeds; unanswered, the same call reports the keep-alive failure;
   with keep-alive 0 there is no deadline at all ---- *)
Definition t_cfg3 : config := x_cfg_full 0 false None 20.
Definition t_hist4 : list event := x_connect_events x_connack_bytes ++ [EvService 20000 4096 0].
Definition t_hist5 : list event :=
  t_hist4 ++ [EvWriteComplete 20000; EvService 25000 4096 0; EvData 26000 [208; 0]; EvService 30000 4096 0].

Lemma t_ping :
  Forall ok_event t_hist5 /\ ok_cfg t_cfg3 /\
  t_view (x_state t_cfg3 (x_connect_events x_connack_bytes)) = (Connected, [], [], [], [], Some 20000, None) /\
  t_view (x_state t_cfg3 t_hist4) = (Connected, [], [], [], [(2, false, None, Some 20000, 0)], Some 40000, Some 30000) /\
  i_arm_ghost t_cfg3 (x_init t_cfg3) t_hist4 None = Some 20000 /\
  map o_res (x_outs t_cfg3 t_hist5) = repeat (Ok tt) 9 /\
  s_ping_to (x_state t_cfg3 t_hist5) = None /\
  map o_res (x_outs t_cfg3 (t_hist4 ++ [EvWriteComplete 20000; EvService 30000 4096 0])) =
    repeat (Ok tt) 6 ++ [Err EConnectionClosed] /\
  t_view (x_state (x_cfg 0) (x_connect_events x_connack_bytes)) = (Connected, [], [], [], [], None, None).
Proof.
  split; [unfold t_hist5, t_hist4, x_connect_events; ok_events|]. split; [unfold ok_cfg, TMAX; cbn; lia|].
  vm_compute. repeat split; reflexivity.
Qed.

(* the premise of the "answered in time => never timed out" theorem holds for the answered history *)
Lemma t_timely : i_timely t_cfg3 (x_init t_cfg3) t_hist5 None.
Proof.
  unfold i_timely, t_hist5, t_hist4, x_connect_events. cbn [app TimersRunPing.timely].
  repeat split; intros now0 st Hg Hp Hs; vm_compute in Hg; try discriminate Hg;
    inversion Hg; subst now0; vm_compute in Hs; inversion Hs; subst st; vm_compute; reflexivity.
Qed.
