(* C04, run level: the language of the per-operation reference machine (DeliveryWireDefs.v), read at wire level.
   Pure list reasoning about delivery logs accepted by the machine (no engine state):
   - [sends]: the encoder constructions of operation i with their connection number (the number of connection
     open / close / reset events before);
   - first transmission (DUP = 0, bound identifier, submitted content), no second PUBLISH within a connection, after a
     processed PUBREC only the PUBREL with that identifier, a DUP = 1 PUBLISH only on a session-present connection with the
     identifier of an earlier complete transmission, restart with DUP = 0 after a CONNACK without session.
   DeliveryWireThms.v instantiates them with the log of an arbitrary history (DeliveryWire.reachable_accepts). *)
From GM Require Import Base.Prelude Base.Outcome Codec.Packets Codec.Settings Engine.Model
  EngineProofs.WFDefs EngineProofs.IdsFrame EngineProofs.InboundSpec EngineProofs.AliasRunLog EngineProofs.DeliveryWireDefs.
Open Scope N_scope.

Definition boundary (e : dev) : bool := match e with DO OOpen | DO OClose | DO OClear => true | _ => false end.

(* a CONNACK on which the session rules ran; with / without session *)
Definition sess_item (e : dev) : option bool :=
  match e with
  | DI it => match it_p it with Connack c => if it_sess it then Some (ca_session_present c) else None | _ => None end
  | _ => None
  end.

Section Lang.
  Variable i : N.

  (* encoder constructions for operation i *)
  Definition enc_of (e : dev) : option packet :=
    match e with DO (OEncode id p _ true) => if id =? i then Some p else None | _ => None end.
  Definition pub_of (e : dev) : option publish :=
    match enc_of e with Some (Publish pb) => Some pb | _ => None end.
  Definition done_of (e : dev) : bool := match e with DO (ODone id) => id =? i | _ => false end.
  (* a processed PUBREC that set the PUBREL slot of i *)
  Definition rec_of (e : dev) : option ack :=
    match e with
    | DI it => match it_p it, it_rel it with Pubrec a, Some id => if id =? i then Some a else None | _, _ => None end
    | _ => None
    end.

  Fixpoint sends_from (c : nat) (l : list dev) : list (nat * packet) :=
    match l with
    | [] => []
    | e :: r =>
        if boundary e then sends_from (S c) r
        else match enc_of e with Some p => (c, p) :: sends_from c r | None => sends_from c r end
    end.

  Definition openP (ph : phase) : Prop :=
    match ph with GCur _ _ | GPend _ | GRel _ | GRelCur _ => True | _ => False end.
  Definition relP (pid : N) (ph : phase) : Prop := ph = GRel pid \/ ph = GRelInt pid \/ ph = GRelCur pid.

  (* one event, by kind: the successor phase *)
  Lemma gnext_boundary g e : boundary e = true -> gnext i g e = mkG false (g_sub g) (closed_ph (g_ph g)).
  Proof. destruct e as [[]| |]; cbn; try discriminate; reflexivity. Qed.

  Lemma gnext_sess g e sp : sess_item e = Some sp -> gnext i g e = mkG sp (g_sub g) (sess_ph sp (g_ph g)).
  Proof.
    destruct e as [|it|]; cbn; try discriminate. destruct (it_p it); try discriminate. destruct (it_sess it); [|discriminate].
    intros H. inversion H. reflexivity.
  Qed.

  Lemma gnext_enc g e p : enc_of e = Some p ->
    gnext i g e = match g_ph g, p with
                  | GNot, Publish pb | GInt _, Publish pb => mkG (g_sp g) (g_sub g) (GCur (pub_pid pb) (pub_dup pb))
                  | GRelInt pid, Pubrel _ => mkG (g_sp g) (g_sub g) (GRelCur pid)
                  | GAbs, _ => mkG (g_sp g) (g_sub g) GOther
                  | _, _ => g
                  end /\
    (gok i g e <-> match g_ph g with
                   | GAbs | GOther => True
                   | GNot => exists pb, p = Publish pb /\ pub_dup pb = false /\ 1 <= pub_pid pb <= 65535 /\ pub_qos pb <> 0 /\ norm p = g_sub g
                   | GInt pid => exists pb, p = Publish pb /\ pub_dup pb = true /\ pub_pid pb = pid /\ pub_qos pb <> 0 /\ norm p = g_sub g /\ g_sp g = true
                   | GRel pid => p = Pubrel (default_ack pid)
                   | GRelInt pid => p = Pubrel (default_ack pid) /\ g_sp g = true
                   | GCur _ _ | GPend _ | GRelCur _ | GGone => False
                   end).
  Proof.
    destruct e as [[id|id|id|id a t res|id p0 r v|m|id k|id p0 r ok|id|m| | | ]|it|id p0]; cbn; try discriminate.
    destruct ok; [|discriminate]. destruct (id =? i) eqn:E; [|discriminate]. intros H. inversion H; subst p0. apply N.eqb_eq in E. subst id.
    split; [reflexivity|]. split; [intros Hk; apply Hk; reflexivity|intros Hk _; exact Hk].
  Qed.

  Lemma gnext_done g e : done_of e = true ->
    gnext i g e = match g_ph g with
                  | GCur pid _ => mkG (g_sp g) (g_sub g) (GPend pid)
                  | GRelCur pid => mkG (g_sp g) (g_sub g) (GRel pid)
                  | _ => g
                  end.
  Proof. destruct e as [[]| |]; cbn; try discriminate. intros ->. reflexivity. Qed.

  Lemma gnext_rec g e a : rec_of e = Some a ->
    gnext i g e = match g_ph g with GPend pid => mkG (g_sp g) (g_sub g) (GRel pid) | _ => g end /\
    (gok i g e -> match g_ph g with GPend pid | GRel pid => ack_pid a = pid | _ => False end).
  Proof.
    destruct e as [|it|]; cbn; try discriminate. destruct (it_p it); try discriminate. destruct (it_rel it) as [id|]; [|discriminate].
    destruct (id =? i) eqn:E; [|discriminate]. intros H. inversion H; subst. apply N.eqb_eq in E. subst id.
    split; [reflexivity|]. intros Hk. apply Hk. reflexivity.
  Qed.

  (* every other event keeps the phase (a submission only leaves GAbs) *)
  Lemma gnext_other g e :
    boundary e = false -> sess_item e = None -> enc_of e = None -> done_of e = false -> rec_of e = None ->
    (g_ph g <> GAbs -> gnext i g e = g) /\
    (g_ph g = GAbs -> gnext i g e = g \/ exists p0, e = DS i p0 /\ pubq p0 = true /\ gnext i g e = mkG (g_sp g) (norm p0) GNot) /\
    (forall p0, e = DS i p0 -> gok i g e -> g_ph g = GAbs).
  Proof.
    intros H1 H2 H3 H4 H5.
    destruct e as [[id|id|id|id a t res|id p0 r v|m|id k|id p0 r ok|id|m| | | ]|it|id p0]; cbn in *; try discriminate;
      try (split; [intros; auto|split; [intros; auto|intros; discriminate]]; fail).
    - destruct ok; [|split; [intros; auto|split; [intros; auto|intros; discriminate]]].
      destruct (id =? i); [discriminate|split; [intros; auto|split; [intros; auto|intros; discriminate]]].
    - rewrite H4. split; [intros; auto|split; [intros; auto|intros; discriminate]].
    - destruct (it_p it); try (split; [intros; auto|split; [intros; auto|intros; discriminate]]; fail).
      + destruct (it_sess it); [discriminate|split; [intros; auto|split; [intros; auto|intros; discriminate]]].
      + destruct (it_rel it) as [id|]; [|split; [intros; auto|split; [intros; auto|intros; discriminate]]].
        destruct (id =? i); [discriminate|split; [intros; auto|split; [intros; auto|intros; discriminate]]].
    - split; [|split].
      + intros Hne. destruct (g_ph g); try reflexivity. congruence.
      + intros ->. destruct ((id =? i) && pubq p0) eqn:E; [|left; reflexivity]. right. apply andb_true_iff in E. destruct E as [E1 E2].
        apply N.eqb_eq in E1. subst id. exists p0. auto.
      + intros p1 E Hk. inversion E; subst. apply Hk. reflexivity.
  Qed.

  Ltac by_kind g e :=
    let Eb := fresh "Eb" in let Es := fresh "Es" in let Ee := fresh "Ee" in let Ed := fresh "Ed" in let Er := fresh "Er" in
    destruct (boundary e) eqn:Eb;
    [rewrite (gnext_boundary g e Eb)
    |destruct (sess_item e) as [?sp|] eqn:Es;
     [rewrite (gnext_sess g e _ Es)
     |destruct (enc_of e) as [?p|] eqn:Ee;
      [let Hok := fresh "Hok" in destruct (gnext_enc g e _ Ee) as [-> Hok]
      |destruct (done_of e) eqn:Ed;
       [rewrite (gnext_done g e Ed)
       |destruct (rec_of e) as [?a|] eqn:Er;
        [let Hrk := fresh "Hrk" in destruct (gnext_rec g e _ Er) as [-> Hrk]
        |let Hna := fresh "Hna" in let Ha := fresh "Ha" in let Hds := fresh "Hds" in destruct (gnext_other g e Eb Es Ee Ed Er) as (Hna & Ha & Hds)]]]]].

  Lemma grun_snoc g l e : grun i g (l ++ [e]) = gnext i (grun i g l) e.
  Proof. rewrite grun_app. reflexivity. Qed.

  (* ---- once a QoS 1/2 publish, always; the submission comes first ---- *)
  Definition q12 (ph : phase) : Prop := ph <> GAbs /\ ph <> GOther.

  Lemma q12_step g e : q12 (g_ph g) -> q12 (g_ph (gnext i g e)).
  Proof.
    intros [Hne Hno]. unfold q12. by_kind g e; cbn [g_ph].
    - destruct (g_ph g) as [| |pid d|pid|pid|pid|pid|pid| |]; try destruct d; cbn; split; congruence.
    - destruct (g_ph g); try destruct sp; cbn; split; congruence.
    - destruct (g_ph g) eqn:Eph; destruct p; cbn; rewrite ?Eph; split; congruence.
    - destruct (g_ph g) eqn:Eph; cbn; rewrite ?Eph; split; congruence.
    - destruct (g_ph g) eqn:Eph; cbn; rewrite ?Eph; split; congruence.
    - rewrite (Hna Hne). split; assumption.
  Qed.

  Lemma q12_run l : forall g, q12 (g_ph g) -> q12 (g_ph (grun i g l)).
  Proof. induction l as [|e l IH]; intros g H; [exact H|]. cbn. apply IH. apply q12_step. exact H. Qed.

  Lemma other_step g e : g_ph g = GOther -> g_ph (gnext i g e) = GOther.
  Proof.
    intros H. by_kind g e; cbn [g_ph]; rewrite ?H; cbn; rewrite ?H; try reflexivity.
    rewrite Hna; [exact H|congruence].
  Qed.

  (* a submission of i as a QoS 1/2 publish in an accepted log: nothing was handed to the encoder for i before *)
  Lemma ds_position l : forall g p0, accepts i g l -> In (DS i p0) l -> pubq p0 = true ->
    g_ph g <> GOther /\ (g_ph g = GAbs -> q12 (g_ph (grun i g l))).
  Proof.
    induction l as [|e l IH]; intros g p0 Hacc Hin Hq; [destruct Hin|]. destruct Hacc as [Hok Hacc]. cbn [grun fold_left]. fold (grun i (gnext i g e) l).
    destruct Hin as [->|Hin].
    - assert (Hab : g_ph g = GAbs) by (apply Hok; reflexivity). split; [congruence|]. intros _. apply q12_run.
      cbn. rewrite Hab, N.eqb_refl, Hq. cbn. split; discriminate.
    - destruct (IH (gnext i g e) p0 Hacc Hin Hq) as [A B]. split.
      + intros Ho. apply A. apply other_step. exact Ho.
      + intros Hab. destruct (g_ph (gnext i g e)) eqn:En; try (apply q12_run; rewrite En; split; discriminate); [apply B; reflexivity|congruence].
  Qed.

  Definition submitted (l : list dev) : Prop := exists p0, In (DS i p0) l /\ pubq p0 = true.

  (* ... so when something is handed to the encoder for a submitted QoS 1/2 publish, the submission is behind *)
  Lemma sub_q12 l1 e l2 p : accepts i g0 (l1 ++ e :: l2) -> enc_of e = Some p -> submitted (l1 ++ e :: l2) -> q12 (g_ph (grun i g0 l1)).
  Proof.
    intros Hacc He (p0 & Hin & Hq). apply accepts_app in Hacc. destruct Hacc as [Ha1 [Hok Ha2]].
    apply in_app_or in Hin. destruct Hin as [Hin|[->|Hin]].
    - apply (ds_position l1 g0 p0 Ha1 Hin Hq). reflexivity.
    - discriminate.
    - set (g := grun i g0 l1) in *. destruct (ds_position l2 (gnext i g e) p0 Ha2 Hin Hq) as [A _].
      destruct (gnext_enc g e p He) as [Eg _]. rewrite Eg in A.
      destruct (g_ph g) eqn:Eph; try (split; discriminate); exfalso; apply A; [destruct p; reflexivity|rewrite Eph; reflexivity].
  Qed.

  (* the content the machine remembers is the submitted one *)
  Definition sub_inv (g : gst) (l : list dev) : Prop :=
    q12 (g_ph g) -> exists p0, In (DS i p0) l /\ pubq p0 = true /\ g_sub g = norm p0.

  Lemma sub_step g l e : sub_inv g l -> sub_inv (gnext i g e) (l ++ [e]).
  Proof.
    intros H. unfold sub_inv, q12 in *.
    assert (Hk : g_ph g <> GAbs /\ g_ph g <> GOther -> exists p0, In (DS i p0) (l ++ [e]) /\ pubq p0 = true /\ g_sub g = norm p0).
    { intros Hne. destruct (H Hne) as (p0 & A & B & C). exists p0. split; [apply in_or_app; left; exact A|auto]. }
    by_kind g e; cbn [g_ph g_sub].
    - intros [Hne Hno]. apply Hk. destruct (g_ph g); cbn in Hne, Hno; split; congruence.
    - intros [Hne Hno]. apply Hk. destruct (g_ph g); try destruct sp; cbn in Hne, Hno; split; congruence.
    - destruct (g_ph g) eqn:Eph; destruct p; cbn [g_ph g_sub]; intros [Hne Hno]; try (apply Hk; split; congruence); congruence.
    - destruct (g_ph g) eqn:Eph; cbn [g_ph g_sub]; intros [Hne Hno]; apply Hk; split; congruence.
    - destruct (g_ph g) eqn:Eph; cbn [g_ph g_sub]; intros [Hne Hno]; apply Hk; split; congruence.
    - destruct (g_ph g) eqn:Eph.
      2-10: rewrite Hna by congruence; rewrite Eph; intros Hq; apply Hk; exact Hq.
      destruct (Ha eq_refl) as [->|(p0 & -> & Hq & ->)]; [rewrite Eph; intros [Hq _]; congruence|].
      cbn. intros _. exists p0. split; [apply in_or_app; right; left; reflexivity|auto].
  Qed.

  Lemma sub_run l : forall g l0, sub_inv g l0 -> sub_inv (grun i g l) (l0 ++ l).
  Proof.
    induction l as [|e l IH]; intros g l0 H; [rewrite app_nil_r; exact H|]. cbn [grun fold_left].
    replace (l0 ++ e :: l) with ((l0 ++ [e]) ++ l) by (rewrite <- app_assoc; reflexivity). apply IH. apply sub_step. exact H.
  Qed.

  Lemma sub_g0 : sub_inv g0 [].
  Proof. intros [H _]. cbn in H. congruence. Qed.

  (* ---- (a) before the first PUBLISH construction ---- *)
  Definition np (ph : phase) : Prop := ph = GAbs \/ ph = GNot \/ ph = GOther.

  Lemma notyet_step g e : np (g_ph g) -> pub_of e = None -> np (g_ph (gnext i g e)).
  Proof.
    unfold np. intros H Hp. by_kind g e; cbn [g_ph].
    - destruct H as [E |[E | E]]; rewrite E; cbn; auto.
    - destruct H as [E |[E | E]]; rewrite E; cbn; auto.
    - unfold pub_of in Hp. rewrite Ee in Hp. destruct H as [E |[E | E]]; rewrite E; destruct p; cbn; rewrite ?E; auto; discriminate.
    - destruct H as [E |[E | E]]; rewrite E; cbn; rewrite ?E; auto.
    - destruct H as [E |[E | E]]; rewrite E; cbn; rewrite ?E; auto.
    - destruct H as [E|[E|E]].
      + destruct (Ha E) as [->|(p0 & _ & _ & ->)]; cbn; auto.
      + rewrite Hna by congruence. auto.
      + rewrite Hna by congruence. auto.
  Qed.

  Lemma notyet_run l : forall g, np (g_ph g) -> (forall e, In e l -> pub_of e = None) -> np (g_ph (grun i g l)).
  Proof.
    induction l as [|e l IH]; intros g H Hl; [exact H|]. cbn. apply IH; [|intros x Hx; apply Hl; right; exact Hx].
    apply notyet_step; [exact H|apply Hl; left; reflexivity].
  Qed.

  Lemma pub_enc e pb : pub_of e = Some pb -> enc_of e = Some (Publish pb).
  Proof. unfold pub_of. destruct (enc_of e) as [p|]; [|discriminate]. destruct p; try discriminate. intros H; inversion H; reflexivity. Qed.

  Theorem first_transmission l1 e l2 pb :
    accepts i g0 (l1 ++ e :: l2) -> pub_of e = Some pb -> submitted (l1 ++ e :: l2) -> (forall x, In x l1 -> pub_of x = None) ->
    pub_dup pb = false /\ 1 <= pub_pid pb <= 65535 /\ pub_qos pb <> 0 /\
    exists p0, In (DS i p0) l1 /\ pubq p0 = true /\ norm (Publish pb) = norm p0.
  Proof.
    intros Hacc He Hsub Hno. pose proof (pub_enc e pb He) as Ee. pose proof (sub_q12 l1 e l2 _ Hacc Ee Hsub) as Hq.
    apply accepts_app in Hacc. destruct Hacc as [_ [Hok _]].
    set (g := grun i g0 l1) in *.
    assert (Hph : g_ph g = GNot).
    { fold g in Hq. destruct (notyet_run l1 g0 (or_introl eq_refl) Hno) as [E|[E|E]]; fold g in E; [|exact E|]; destruct Hq; congruence. }
    destruct (gnext_enc g e _ Ee) as [_ Hk]. apply Hk in Hok. rewrite Hph in Hok. destruct Hok as (pb' & E & D & R & Q & Nn). inversion E; subst pb'.
    split; [exact D|]. split; [exact R|]. split; [exact Q|].
    pose proof (sub_run l1 g0 [] sub_g0) as Hs. cbn [app] in Hs. fold g in Hs. destruct (Hs Hq) as (p0 & A & B & C).
    exists p0. split; [exact A|]. split; [exact B|congruence].
  Qed.

  (* ---- (b) within one connection ---- *)
  Lemma open_step g e : openP (g_ph g) -> boundary e = false -> openP (g_ph (gnext i g e)) \/ g_ph (gnext i g e) = GGone.
  Proof.
    intros H Hb. by_kind g e; cbn [g_ph]; try discriminate.
    - right. destruct (g_ph g); cbn in *; tauto.
    - left. destruct (g_ph g) eqn:Eph; destruct p; cbn in *; rewrite ?Eph; tauto.
    - left. destruct (g_ph g) eqn:Eph; cbn in *; rewrite ?Eph; tauto.
    - left. destruct (g_ph g) eqn:Eph; cbn in *; rewrite ?Eph; tauto.
    - left. rewrite Hna; [exact H|]. destruct (g_ph g); cbn in H; try tauto; discriminate.
  Qed.

  Lemma gone_step g e : g_ph g = GGone -> g_ph (gnext i g e) = GGone.
  Proof.
    intros H. by_kind g e; cbn [g_ph]; rewrite ?H; cbn; rewrite ?H; try reflexivity.
    rewrite Hna; [exact H|congruence].
  Qed.

  Lemma open_run l : forall g, openP (g_ph g) \/ g_ph g = GGone -> (forall e, In e l -> boundary e = false) ->
    openP (g_ph (grun i g l)) \/ g_ph (grun i g l) = GGone.
  Proof.
    induction l as [|e l IH]; intros g H Hl; [exact H|]. cbn. apply IH; [|intros x Hx; apply Hl; right; exact Hx].
    destruct H as [H|H]; [apply open_step; [exact H|apply Hl; left; reflexivity]|right; apply gone_step; exact H].
  Qed.

  (* a PUBLISH is handed to the encoder only in phase GNot or GInt, and seats the operation *)
  Lemma pub_accepted g e pb : pub_of e = Some pb -> q12 (g_ph g) -> gok i g e ->
    (g_ph g = GNot \/ exists pid, g_ph g = GInt pid) /\ g_ph (gnext i g e) = GCur (pub_pid pb) (pub_dup pb).
  Proof.
    intros He [Hne Hno] Hok. unfold pub_of in He. destruct (enc_of e) as [p|] eqn:Ee; [|discriminate]. destruct p; try discriminate. inversion He; subst.
    destruct (gnext_enc g e _ Ee) as [-> Hk]. apply Hk in Hok.
    destruct (g_ph g) eqn:Eph; try contradiction; try discriminate; try congruence; try (destruct Hok; discriminate); cbn; split; eauto.
  Qed.

  Theorem no_second_publish l1 e1 lm e2 l2 pb1 pb2 :
    accepts i g0 (l1 ++ e1 :: lm ++ e2 :: l2) -> submitted (l1 ++ e1 :: lm ++ e2 :: l2) -> pub_of e1 = Some pb1 -> pub_of e2 = Some pb2 ->
    exists x, In x lm /\ boundary x = true.
  Proof.
    intros Hacc Hsub H1 H2. pose proof (sub_q12 l1 e1 _ _ Hacc (pub_enc e1 pb1 H1) Hsub) as Hne.
    apply accepts_app in Hacc. destruct Hacc as [_ [Hok1 Hacc]].
    set (g := grun i g0 l1) in *.
    destruct (pub_accepted g e1 pb1 H1 Hne Hok1) as [_ Hcur].
    apply accepts_app in Hacc. destruct Hacc as [_ [Hok2 _]].
    destruct (existsb boundary lm) eqn:Eb.
    { apply existsb_exists in Eb. exact Eb. }
    exfalso.
    assert (Hnb : forall x, In x lm -> boundary x = false).
    { intros x Hx. destruct (boundary x) eqn:E; [|reflexivity]. assert (existsb boundary lm = true) by (apply existsb_exists; eauto). congruence. }
    assert (Hop1 : openP (g_ph (gnext i g e1))) by (rewrite Hcur; exact I).
    pose proof (open_run lm (gnext i g e1) (or_introl Hop1) Hnb) as Hop.
    set (g2 := grun i (gnext i g e1) lm) in *.
    assert (Hne2 : q12 (g_ph g2)) by (destruct Hop as [Hop|Hop]; [destruct (g_ph g2); cbn in Hop; try tauto; split; discriminate|rewrite Hop; split; discriminate]).
    destruct (pub_accepted g2 e2 pb2 H2 Hne2 Hok2) as [[E|(pid & E)] _]; rewrite E in Hop; cbn in Hop; destruct Hop; try contradiction; discriminate.
  Qed.

  (* ---- (b) after the PUBREC only the PUBREL, with the acknowledged identifier ---- *)
  Lemma rel_step pid g e : relP pid (g_ph g) -> sess_item e <> Some false -> relP pid (g_ph (gnext i g e)) \/ g_ph (gnext i g e) = GGone.
  Proof.
    intros H Hs. unfold relP in *. by_kind g e; cbn [g_ph].
    - left. destruct H as [-> |[-> | ->]]; cbn; auto.
    - destruct sp; [|congruence]. destruct H as [-> |[-> | ->]]; cbn; auto.
    - left. destruct H as [E|[E|E]]; rewrite E; destruct p; cbn; rewrite ?E; auto.
    - left. destruct H as [E|[E|E]]; rewrite E; cbn; rewrite ?E; auto.
    - left. destruct H as [E|[E|E]]; rewrite E; cbn; rewrite ?E; auto.
    - left. rewrite Hna; [exact H|]. destruct H as [E|[E|E]]; rewrite E; discriminate.
  Qed.

  Lemma rel_run pid l : forall g, relP pid (g_ph g) \/ g_ph g = GGone -> (forall e, In e l -> sess_item e <> Some false) ->
    relP pid (g_ph (grun i g l)) \/ g_ph (grun i g l) = GGone.
  Proof.
    induction l as [|e l IH]; intros g H Hl; [exact H|]. cbn. apply IH; [|intros x Hx; apply Hl; right; exact Hx].
    destruct H as [H|H]; [apply rel_step; [exact H|apply Hl; left; reflexivity]|right; apply gone_step; exact H].
  Qed.

  Theorem pubrel_after_pubrec l1 e1 lm e2 l2 a p :
    accepts i g0 (l1 ++ e1 :: lm ++ e2 :: l2) -> rec_of e1 = Some a -> enc_of e2 = Some p ->
    (forall x, In x lm -> sess_item x <> Some false) ->
    p = Pubrel (default_ack (ack_pid a)).
  Proof.
    intros Hacc H1 H2 Hns. apply accepts_app in Hacc. destruct Hacc as [_ [Hok1 Hacc]].
    set (g := grun i g0 l1) in *.
    destruct (gnext_rec g e1 a H1) as [Eg Hk]. specialize (Hk Hok1).
    assert (Hrel : relP (ack_pid a) (g_ph (gnext i g e1))).
    { rewrite Eg. unfold relP. destruct (g_ph g) eqn:Eph; try contradiction; try congruence; subst; cbn; rewrite ?Eph; auto. }
    apply accepts_app in Hacc. destruct Hacc as [_ [Hok2 _]].
    pose proof (rel_run (ack_pid a) lm (gnext i g e1) (or_introl Hrel) Hns) as Hr.
    set (g2 := grun i (gnext i g e1) lm) in *. destruct (gnext_enc g2 e2 p H2) as [_ Hk2]. apply Hk2 in Hok2.
    destruct Hr as [[E|[E|E]]|E]; rewrite E in Hok2; try contradiction; tauto.
  Qed.

  (* ---- (d) after a CONNACK without session: restart ---- *)
  Definition rsP (ph : phase) : Prop := ph = GAbs \/ ph = GNot \/ ph = GGone.

  Lemma restart_step g e : rsP (g_ph g) -> enc_of e = None -> rsP (g_ph (gnext i g e)).
  Proof.
    unfold rsP. intros H He. by_kind g e; cbn [g_ph]; try discriminate.
    - destruct H as [E|[E|E]]; rewrite E; cbn; auto.
    - destruct H as [E|[E|E]]; rewrite E; cbn; auto.
    - destruct H as [E|[E|E]]; rewrite E; cbn; rewrite ?E; auto.
    - destruct H as [E|[E|E]]; rewrite E; cbn; rewrite ?E; auto.
    - destruct H as [E|[E|E]].
      + destruct (Ha E) as [->|(p0 & _ & _ & ->)]; cbn; auto.
      + rewrite Hna by congruence. auto.
      + rewrite Hna by congruence. auto.
  Qed.

  Lemma restart_run l : forall g, rsP (g_ph g) -> (forall e, In e l -> enc_of e = None) -> rsP (g_ph (grun i g l)).
  Proof.
    induction l as [|e l IH]; intros g H Hl; [exact H|]. cbn. apply IH; [|intros x Hx; apply Hl; right; exact Hx].
    apply restart_step; [exact H|apply Hl; left; reflexivity].
  Qed.

  Lemma other_run l : forall g, g_ph g = GOther -> g_ph (grun i g l) = GOther.
  Proof. induction l as [|e l IH]; intros g H; [exact H|]. cbn. apply IH. apply other_step. exact H. Qed.

  Theorem restart_after_no_session l1 e1 lm e2 l2 p :
    accepts i g0 (l1 ++ e1 :: lm ++ e2 :: l2) -> submitted (l1 ++ e1 :: lm ++ e2 :: l2) -> sess_item e1 = Some false -> enc_of e2 = Some p ->
    (forall x, In x lm -> enc_of x = None) ->
    exists pb, p = Publish pb /\ pub_dup pb = false /\ 1 <= pub_pid pb <= 65535 /\ pub_qos pb <> 0.
  Proof.
    intros Hacc Hsub H1 H2 Hno.
    assert (Hq2 : q12 (g_ph (grun i g0 (l1 ++ e1 :: lm)))).
    { apply (sub_q12 (l1 ++ e1 :: lm) e2 l2 p); [rewrite <- app_assoc; exact Hacc|exact H2|rewrite <- app_assoc; exact Hsub]. }
    rewrite grun_app in Hq2. cbn [grun fold_left] in Hq2. fold (grun i (gnext i (grun i g0 l1) e1) lm) in Hq2.
    apply accepts_app in Hacc. destruct Hacc as [_ [_ Hacc]].
    set (g := grun i g0 l1) in *.
    apply accepts_app in Hacc. destruct Hacc as [_ [Hok2 _]].
    set (g2 := grun i (gnext i g e1) lm) in *. destruct (gnext_enc g2 e2 p H2) as [_ Hk2]. apply Hk2 in Hok2.
    assert (H0 : rsP (g_ph (gnext i g e1)) \/ g_ph (gnext i g e1) = GOther).
    { rewrite (gnext_sess g e1 false H1). cbn [g_ph]. unfold rsP. destruct (g_ph g); cbn; auto. }
    destruct H0 as [H0|H0].
    - pose proof (restart_run lm (gnext i g e1) H0 Hno) as Hr. fold g2 in Hr. destruct Hq2 as [Q1 Q2].
      destruct Hr as [E|[E|E]]; [congruence| |]; rewrite E in Hok2; [|contradiction].
      destruct Hok2 as (pb & A & B & C & D & _). exists pb. auto.
    - pose proof (other_run lm (gnext i g e1) H0) as Hr. fold g2 in Hr. destruct Hq2 as [Q1 Q2]. congruence.
  Qed.

  (* ---- (c) a DUP = 1 PUBLISH ---- *)
  Definition nb (l : list dev) : Prop := forall x, In x l -> boundary x = false.
  (* the PUBLISH of i was handed to the encoder with identifier pid and completely written, and a connection
     close / open / reset came after: an EARLIER connection *)
  Definition wrote (pid : N) (l : list dev) : Prop :=
    exists la e0 pb0 lb ed lc, l = la ++ e0 :: lb ++ ed :: lc /\ pub_of e0 = Some pb0 /\ pub_pid pb0 = pid /\ done_of ed = true /\
                               nb lb /\ exists x, In x lc /\ boundary x = true.
  Definition wrote_now (pid : N) (l : list dev) : Prop :=
    exists la e0 pb0 lb ed lc, l = la ++ e0 :: lb ++ ed :: lc /\ pub_of e0 = Some pb0 /\ pub_pid pb0 = pid /\ done_of ed = true /\ nb lb /\ nb lc.
  Definition enc_now (pid : N) (d : bool) (l : list dev) : Prop :=
    exists la e0 pb0 lb, l = la ++ e0 :: lb /\ pub_of e0 = Some pb0 /\ pub_pid pb0 = pid /\ pub_dup pb0 = d /\ nb lb.
  (* the CONNACK of the current connection reported the session present *)
  Definition sp_now (l : list dev) : Prop :=
    exists la e lb, l = la ++ e :: lb /\ sess_item e = Some true /\ forall x, In x lb -> boundary x = false /\ sess_item x = None.

  Definition hist (ph : phase) (l : list dev) : Prop :=
    match ph with
    | GCur pid d => enc_now pid d l /\ (d = true -> wrote pid l)
    | GPend pid => wrote_now pid l
    | GInt pid => wrote pid l
    | _ => True
    end.

  Lemma nb_snoc l e : nb l -> boundary e = false -> nb (l ++ [e]).
  Proof. intros H He x Hx. apply in_app_or in Hx. destruct Hx as [Hx|[<-|[]]]; auto. Qed.

  Lemma wrote_snoc pid l e : wrote pid l -> wrote pid (l ++ [e]).
  Proof.
    intros (la & e0 & pb0 & lb & ed & lc & -> & A & B & C & D & x & X1 & X2).
    exists la, e0, pb0, lb, ed, (lc ++ [e]). split; [rewrite <- !app_assoc; cbn; rewrite <- app_assoc; reflexivity|].
    repeat split; auto. exists x. split; [apply in_or_app; left; exact X1|exact X2].
  Qed.
  Lemma wrote_now_nb pid l e : wrote_now pid l -> boundary e = false -> wrote_now pid (l ++ [e]).
  Proof.
    intros (la & e0 & pb0 & lb & ed & lc & -> & A & B & C & D & E) He.
    exists la, e0, pb0, lb, ed, (lc ++ [e]). split; [rewrite <- !app_assoc; cbn; rewrite <- app_assoc; reflexivity|].
    repeat split; auto. apply nb_snoc; assumption.
  Qed.
  Lemma wrote_now_b pid l e : wrote_now pid l -> boundary e = true -> wrote pid (l ++ [e]).
  Proof.
    intros (la & e0 & pb0 & lb & ed & lc & -> & A & B & C & D & E) He.
    exists la, e0, pb0, lb, ed, (lc ++ [e]). split; [rewrite <- !app_assoc; cbn; rewrite <- app_assoc; reflexivity|].
    repeat split; auto. exists e. split; [apply in_or_app; right; left; reflexivity|exact He].
  Qed.
  Lemma enc_now_nb pid d l e : enc_now pid d l -> boundary e = false -> enc_now pid d (l ++ [e]).
  Proof.
    intros (la & e0 & pb0 & lb & -> & A & B & C & D) He. exists la, e0, pb0, (lb ++ [e]).
    split; [rewrite <- app_assoc; reflexivity|]. repeat split; auto. apply nb_snoc; assumption.
  Qed.
  Lemma enc_now_done pid d l e : enc_now pid d l -> done_of e = true -> wrote_now pid (l ++ [e]).
  Proof.
    intros (la & e0 & pb0 & lb & -> & A & B & C & D) He. exists la, e0, pb0, lb, e, [].
    split; [rewrite <- app_assoc; reflexivity|]. repeat split; auto. intros x [].
  Qed.
  Lemma enc_now_new l e pb : pub_of e = Some pb -> enc_now (pub_pid pb) (pub_dup pb) (l ++ [e]).
  Proof. intros H. exists l, e, pb, []. repeat split; auto. intros x []. Qed.

  Lemma hist_keep ph l e : hist ph l -> boundary e = false -> hist ph (l ++ [e]).
  Proof.
    destruct ph; cbn; auto.
    - intros [A B] He. split; [apply enc_now_nb; assumption|intros Hd; apply wrote_snoc, B, Hd].
    - intros A He. apply wrote_now_nb; assumption.
    - intros A _. apply wrote_snoc; assumption.
  Qed.

  Lemma hist_step g l e : hist (g_ph g) l -> gok i g e -> hist (g_ph (gnext i g e)) (l ++ [e]).
  Proof.
    intros H Hok. by_kind g e; cbn [g_ph].
    - destruct (g_ph g) as [| |pid d|pid|pid|pid|pid|pid| |]; cbn in *; auto.
      + destruct d; cbn; [apply wrote_snoc; apply H; reflexivity|exact I].
      + apply wrote_now_b; assumption.
      + apply wrote_snoc; assumption.
    - destruct (g_ph g) as [| |pid d|pid|pid|pid|pid|pid| |]; cbn in *; auto; destruct sp; cbn; auto. apply wrote_snoc; assumption.
    - apply Hok0 in Hok. assert (Hpo : forall pb, p = Publish pb -> pub_of e = Some pb) by (intros pb ->; unfold pub_of; rewrite Ee; reflexivity).
      destruct (g_ph g) as [| |pid d|pid|pid|pid|pid|pid| |] eqn:Eph; try contradiction.
      + destruct p; cbn; rewrite ?Eph; exact I.
      + destruct Hok as (pb & -> & D & _). cbn. split; [apply enc_now_new; apply Hpo; reflexivity|rewrite D; discriminate].
      + destruct Hok as (pb & -> & D & Pd & _). cbn. split; [apply enc_now_new; apply Hpo; reflexivity|]. intros _. rewrite Pd. apply wrote_snoc. exact H.
      + subst p. cbn. rewrite Eph. exact I.
      + destruct Hok as [-> _]. cbn. exact I.
      + cbn. rewrite Eph. exact I.
    - destruct (g_ph g) as [| |pid d|pid|pid|pid|pid|pid| |] eqn:Eph; cbn; rewrite ?Eph; cbn; auto.
      + destruct H as [A _]. eapply enc_now_done; eassumption.
      + apply wrote_now_nb; assumption.
      + apply wrote_snoc; assumption.
    - destruct (g_ph g) as [| |pid d|pid|pid|pid|pid|pid| |] eqn:Eph; cbn; rewrite ?Eph; cbn; auto.
      + apply (hist_keep (GCur pid d)); assumption.
      + apply wrote_snoc; assumption.
    - destruct (g_ph g) eqn:Eph.
      2-10: rewrite Hna by congruence; rewrite Eph; apply hist_keep; [exact H|exact Eb].
      destruct (Ha eq_refl) as [->|(p0 & _ & _ & ->)]; [rewrite Eph; exact I|exact I].
  Qed.

  Lemma hist_run l : forall g l0, accepts i g l -> hist (g_ph g) l0 -> hist (g_ph (grun i g l)) (l0 ++ l).
  Proof.
    induction l as [|e l IH]; intros g l0 Ha H; [rewrite app_nil_r; exact H|]. cbn [grun fold_left]. destruct Ha as [Hok Ha].
    replace (l0 ++ e :: l) with ((l0 ++ [e]) ++ l) by (rewrite <- app_assoc; reflexivity). apply IH; [exact Ha|]. apply hist_step; assumption.
  Qed.

  Definition sp_inv (g : gst) (l : list dev) : Prop := g_sp g = true -> sp_now l.

  Lemma sp_keep l e : sp_now l -> boundary e = false -> sess_item e = None -> sp_now (l ++ [e]).
  Proof.
    intros (la & e0 & lb & -> & A & B) H1 H2. exists la, e0, (lb ++ [e]). split; [rewrite <- app_assoc; reflexivity|]. split; [exact A|].
    intros x Hx. apply in_app_or in Hx. destruct Hx as [Hx|[<-|[]]]; auto.
  Qed.

  Lemma sp_step g l e : sp_inv g l -> sp_inv (gnext i g e) (l ++ [e]).
  Proof.
    intros H. unfold sp_inv in *. by_kind g e; cbn [g_sp]; try discriminate.
    - intros ->. exists l, e, []. split; [reflexivity|]. split; [exact Es|intros x []].
    - destruct (g_ph g); destruct p; cbn [g_sp]; intros Hs; apply sp_keep; auto.
    - destruct (g_ph g); cbn [g_sp]; intros Hs; apply sp_keep; auto.
    - destruct (g_ph g); cbn [g_sp]; intros Hs; apply sp_keep; auto.
    - destruct (g_ph g) eqn:Eph.
      2-10: rewrite Hna by congruence; intros Hs; apply sp_keep; auto.
      destruct (Ha eq_refl) as [->|(p0 & _ & _ & ->)]; cbn [g_sp]; intros Hs; apply sp_keep; auto.
  Qed.

  Lemma sp_run l : forall g l0, sp_inv g l0 -> sp_inv (grun i g l) (l0 ++ l).
  Proof.
    induction l as [|e l IH]; intros g l0 H; [rewrite app_nil_r; exact H|]. cbn [grun fold_left].
    replace (l0 ++ e :: l) with ((l0 ++ [e]) ++ l) by (rewrite <- app_assoc; reflexivity). apply IH. apply sp_step. exact H.
  Qed.

  Theorem retransmission l1 e l2 pb :
    accepts i g0 (l1 ++ e :: l2) -> submitted (l1 ++ e :: l2) -> pub_of e = Some pb -> pub_dup pb = true ->
    sp_now l1 /\ wrote (pub_pid pb) l1 /\ pub_qos pb <> 0 /\ exists p0, In (DS i p0) l1 /\ pubq p0 = true /\ norm (Publish pb) = norm p0.
  Proof.
    intros Hacc Hsub He Hd. pose proof (sub_q12 l1 e l2 _ Hacc (pub_enc e pb He) Hsub) as Hne.
    apply accepts_app in Hacc. destruct Hacc as [Ha1 [Hok _]].
    set (g := grun i g0 l1) in *.
    pose proof (hist_run l1 g0 [] Ha1 I) as Hh. pose proof (sp_run l1 g0 [] (fun H : g_sp g0 = true => ltac:(discriminate))) as Hs.
    pose proof (sub_run l1 g0 [] sub_g0) as Hb. cbn [app] in Hh, Hs, Hb. fold g in Hh, Hs, Hb.
    unfold pub_of in He. destruct (enc_of e) as [p|] eqn:Ee; [|discriminate]. destruct p; try discriminate. inversion He; subst p.
    destruct (gnext_enc g e _ Ee) as [_ Hk]. apply Hk in Hok.
    destruct (Hb Hne) as (p0 & B1 & B2 & B3).
    destruct (g_ph g) eqn:Eph; try contradiction; try (destruct Hne; congruence); try discriminate; try (destruct Hok; discriminate).
    - destruct Hok as (pb' & E & D & _). inversion E; subst. congruence.
    - destruct Hok as (pb' & E & D & Pd & Q & Nn & Sp). inversion E; subst pb'. cbn in Hh. rewrite <- Pd in Hh.
      split; [apply Hs; exact Sp|]. split; [exact Hh|]. split; [exact Q|]. exists p0. split; [exact B1|]. split; [exact B2|congruence].
  Qed.
End Lang.
