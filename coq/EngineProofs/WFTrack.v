(* "No operation is silently dropped": on top of the well-formedness invariant, every existing
   operation that holds no packet id sits in one of the intake queues, is the current operation,
   or awaits its write completion (TR).  Together with WFc.w_tracked (bound operations) every
   existing operation is somewhere.  TR needs one guarantee about submissions: a submitted PUBLISH
   does not carry the duplicate flag (the clients' submission-time validator rejects it). *)
From GM Require Import Base.Prelude Base.Outcome Codec.Packets Codec.Settings Engine.Model
  EngineProofs.AssocLemmas EngineProofs.WFLemmas EngineProofs.WFDefs EngineProofs.WFCore EngineProofs.WFComplete.
From RecordUpdate Require Import RecordSet.
Import RecordSetNotations.
Open Scope N_scope.

Section Track.
  Context {enc dec ores ires : Type}.
  Notation state := (state enc dec ores ires).

  Definition inQ (s : state) (i : N) : Prop :=
    In i (s_uq s) \/ In i (s_rq s) \/ In i (s_hq s) \/ s_cur s = Some i \/ In i (s_pwco s).

  (* what an unbound operation looks like *)
  Definition unb_ok (o : op) : Prop :=
    op_pubrel o = None /\ forall pb, op_packet o = Publish pb -> pub_dup pb = false \/ pub_pid pb = 0.

  Definition TR (s : state) : Prop :=
    forall i o, getop s i = Some o -> op_pid o = None -> inQ s i /\ unb_ok o.

  (* the workhorse: every unbound operation of s' is either tracked outright, or is an unbound
     operation of s with the same packet / pubrel whose queue position survives *)
  Lemma TR_gen (s s' : state) :
    TR s ->
    (forall i o', getop s' i = Some o' -> op_pid o' = None ->
       (inQ s' i /\ unb_ok o') \/
       (exists o, getop s i = Some o /\ op_pid o = None /\ op_packet o' = op_packet o /\ op_pubrel o' = op_pubrel o /\
                  (inQ s i -> inQ s' i))) ->
    TR s'.
  Proof.
    intros HT H i o' Hi Hp. destruct (H i o' Hi Hp) as [D|(o & Ho & Hpo & E1 & E2 & Hq)]; [exact D|].
    destruct (HT i o Ho Hpo) as (Q & U1 & U2). split; [auto|]. unfold unb_ok. rewrite E1, E2. split; assumption.
  Qed.

  (* completions: queues untouched, surviving operations unchanged *)
  Lemma TR_frame_c ids (s s' : state) : frame_c ids s s' -> TR s -> TR s'.
  Proof.
    intros F HT. apply (TR_gen s s' HT). intros i o' Hi Hp. right. exists o'.
    split; [apply (fc_sub _ _ _ F); exact Hi|]. split; [exact Hp|]. split; [reflexivity|]. split; [reflexivity|].
    pose proof (fc_rest _ _ _ F) as R. unfold rest_of in R. repeat (apply pair_equal_spec in R; destruct R as [R ?]).
    unfold inQ. intros Q. repeat match goal with E : _ s' = _ s |- _ => rewrite E; clear E end. exact Q.
  Qed.

  (* same operations, queue positions survive *)
  Lemma TR_queues (s s' : state) :
    s_ops s' = s_ops s -> (forall i, inQ s i -> In i (keys (s_ops s)) -> inQ s' i) -> TR s -> TR s'.
  Proof.
    intros Eo Hq HT. apply (TR_gen s s' HT). intros i o' Hi Hp. right. exists o'. unfold getop in *. rewrite Eo in Hi.
    split; [exact Hi|]. split; [exact Hp|]. split; [reflexivity|]. split; [reflexivity|].
    intros Q. apply Hq; [exact Q|]. eapply lookup_in_keys; eauto.
  Qed.

  (* operations rewritten by functions that keep pid, packet and pubrel (marks, timestamps) *)
  Lemma TR_upd_all (s s' : state) f ids :
    (forall o, op_pid (f o) = op_pid o /\ op_packet (f o) = op_packet o /\ op_pubrel (f o) = op_pubrel o) ->
    s_ops s' = upd_all f ids (s_ops s) -> (forall i, inQ s i -> inQ s' i) -> TR s -> TR s'.
  Proof.
    intros Hf Eo Hq HT. apply (TR_gen s s' HT). intros i o' Hi Hp. right. unfold getop in *. rewrite Eo in Hi.
    destruct (lookup_upd_all f ids (s_ops s) i) as (n & Hn & _). rewrite Hn in Hi.
    destruct (lookup i (s_ops s)) as [o|]; [|discriminate]. inversion Hi; subst o'. exists o.
    assert (Hit : forall n, op_pid (Nat.iter n f o) = op_pid o /\ op_packet (Nat.iter n f o) = op_packet o /\
                            op_pubrel (Nat.iter n f o) = op_pubrel o).
    { induction n0 as [|m IH]; [cbn; tauto|]. change (Nat.iter (S m) f o) with (f (Nat.iter m f o)). destruct (Hf (Nat.iter m f o)) as (A & B & C).
      destruct IH as (A' & B' & C'). repeat split; congruence. }
    destruct (Hit n) as (A & B & C). split; [reflexivity|]. split; [congruence|]. split; [exact B|]. split; [exact C|apply Hq].
  Qed.

  Lemma TR_update (s s' : state) f id :
    (forall o, op_pid (f o) = op_pid o /\ op_packet (f o) = op_packet o /\ op_pubrel (f o) = op_pubrel o) ->
    s_ops s' = update id f (s_ops s) -> (forall i, inQ s i -> inQ s' i) -> TR s -> TR s'.
  Proof. intros Hf Eo. apply (TR_upd_all s s' f [id] Hf). exact Eo. Qed.

  (* a fresh operation is appended and (if it holds no packet id) put into a queue *)
  Lemma TR_newop (s s' : state) o :
    TR s -> lookup (s_next_id s) (s_ops s) = None -> s_ops s' = s_ops s ++ [(s_next_id s, o)] ->
    (forall i, inQ s i -> inQ s' i) -> (op_pid o = None -> inQ s' (s_next_id s) /\ unb_ok o) -> TR s'.
  Proof.
    intros HT Hfresh Eo Hq Hnew. apply (TR_gen s s' HT). intros i o1 Hi Hp. unfold getop in Hi. rewrite Eo, lookup_app in Hi.
    destruct (lookup i (s_ops s)) as [o0|] eqn:E0.
    - right. inversion Hi; subst o1. exists o0. repeat split; auto.
    - left. cbn in Hi. destruct (s_next_id s =? i) eqn:E; [|discriminate]. inversion Hi; subst o1.
      assert (i = s_next_id s) by lia. subst i. apply Hnew. exact Hp.
  Qed.

  Lemma TR_no_ops (s : state) : s_ops s = [] -> TR s.
  Proof. intros E i o Hi. unfold getop in Hi. rewrite E in Hi. discriminate. Qed.

  (* the guarantee about submissions: no duplicate flag on a submitted PUBLISH *)
  Definition sub_ok (p : packet) : Prop := match p with Publish pb => pub_dup pb = false | _ => True end.

  Lemma unb_ok_new p u t : sub_ok p -> unb_ok (new_op p u t).
  Proof. intros H. unfold unb_ok, new_op. cbn. split; [reflexivity|]. intros pb ->. left. exact H. Qed.

  (* keys of the pending-publish table are real packet ids *)
  Lemma ppub_key_pos (s : state) p i : WFS s -> In (p, i) (s_ppub s) -> 1 <= p.
  Proof.
    intros HW Hin. destruct (w_ppub _ _ HW p i Hin) as (o & Ho & Hp & _).
    destruct (w_bound _ _ HW i o p Ho Hp) as (Ha & _). destruct (w_pids _ _ HW) as (_ & Hr & _).
    rewrite Forall_forall in Hr. apply Hr. eapply lookup_in_keys. exact Ha.
  Qed.

  (* the statement of interest *)
  Theorem all_tracked (s : state) :
    WFS s -> TR s ->
    forall i o, getop s i = Some o ->
      inQ s i \/ In i (map snd (s_ppub s)) \/ In i (map snd (s_pnon s)).
  Proof.
    intros HW HT i o Ho. destruct (op_pid o) as [p|] eqn:Hp.
    - destruct (w_tracked _ _ HW i o p Ho Hp) as [[]|[T|[T|[T|[T|T]]]]]; unfold inQ; cbn in T; try tauto.
      + right; left. eapply In_snd; eauto.
      + right; right. eapply In_snd; eauto.
    - left. apply (HT i o Ho Hp).
  Qed.
End Track.

(* the guarantee about the events a client produces: submitted PUBLISH packets are not duplicates
   (validate_packet_outbound rejects them before they reach the engine) *)
Definition ok_submit (e : event) : Prop := match e with EvUser _ p _ => sub_ok p | _ => True end.
