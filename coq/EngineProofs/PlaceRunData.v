(* C10 strict order, the placement invariant PL (PlaceRun.v) through inbound data: handle_connack (the session
   step, PlaceRunEvents.apply_session_PL), handle_packet, and the packet loop of net_data, with the
   well-formedness of the intermediate states taken from WFData3.handle_packet_spec. *)
From GM Require Import Base.Prelude Base.Outcome Codec.Packets Codec.Settings Engine.Model
  EngineProofs.AssocLemmas EngineProofs.WFLemmas EngineProofs.WFDefs EngineProofs.WFCore EngineProofs.WFComplete
  EngineProofs.WFClose EngineProofs.WFClose2 EngineProofs.WFService EngineProofs.WFEvents EngineProofs.WFData EngineProofs.WFData2
  EngineProofs.WFData3 EngineProofs.OrderRunStrict EngineProofs.OrderRunStrict2 EngineProofs.PlaceRun EngineProofs.PlaceRunEvents.
From RecordUpdate Require Import RecordSet.
Import RecordSetNotations.
Open Scope N_scope.

(* the four component types are implicit in the engine functions, locally to this file *)
#[local] Arguments init {enc dec} _ {ores ires} _ _.
#[local] Arguments release {enc dec ores ires} _ _ _ _.
#[local] Arguments disconnect_completion {enc dec ores ires} _ _.
#[local] Arguments fail_op {enc dec ores ires} _ _ _ _.
#[local] Arguments ping_extension {enc dec ores ires} _ _.
#[local] Arguments succeed_op {enc dec ores ires} _ _ _ _.
#[local] Arguments fail_all {enc dec ores ires} _ _ _ _.
#[local] Arguments succeed_all {enc dec ores ires} _ _ _.
#[local] Arguments andthen {enc dec ores ires} _ _.
#[local] Arguments try_ {enc dec ores ires} _ _.
#[local] Arguments pure {enc dec ores ires} _.
#[local] Arguments create_operation {enc dec ores ires} _ _.
#[local] Arguments passes_now {enc dec ores ires} _ _ _.
#[local] Arguments user_event {enc dec ores ires} _ _ _ _.
#[local] Arguments create_connect {enc dec ores ires} _ _.
#[local] Arguments net_opened {enc dec} _ {ores ires} _ _ _.
#[local] Arguments op_exists {enc dec ores ires} _ _.
#[local] Arguments op_passes {enc dec ores ires} _ _ _.
#[local] Arguments partition_policy {enc dec ores ires} _ _ _.
#[local] Arguments closed_current {enc dec ores ires} _ _.
#[local] Arguments slow_start_init {enc dec ores ires} _ _.
#[local] Arguments update_retries {enc dec ores ires} _ _.
#[local] Arguments fail_exceeding {enc dec ores ires} _ _.
#[local] Arguments has_pubrel {enc dec ores ires} _ _.
#[local] Arguments net_closed_raw {enc dec ores ires} _ _.
#[local] Arguments net_closed {enc dec ores ires} _ _.
#[local] Arguments net_write_completion {enc dec ores ires} _ _.
#[local] Arguments acquire_free_pid {enc dec ores ires} _ _.
#[local] Arguments acquire_pid_for {enc dec ores ires} _ _.
#[local] Arguments unbind {enc dec ores ires} _ _.
#[local] Arguments passes_receive_max {enc dec ores ires} _ _.
#[local] Arguments throttled {enc dec ores ires} _ _.
#[local] Arguments has_pending_ack {enc dec ores ires} _.
#[local] Arguments dequeue {enc dec ores ires} _ _ _.
#[local] Arguments fully_written {enc dec ores ires} _ _.
#[local] Arguments service_keep_alive {enc dec ores ires} _ _ _.
#[local] Arguments process_ack_timeouts {enc dec ores ires} _ _ _.
#[local] Arguments halt_on_error {enc dec ores ires} _ _.
#[local] Arguments next_service_time {enc dec ores ires} _ _ _.
#[local] Arguments build_settings {enc dec ores ires} _ _ _.
#[local] Arguments apply_session {enc dec ores ires} _ _ _.
#[local] Arguments hres_of {enc dec ores ires} _ _.
#[local] Arguments pre_connack {enc dec ores ires} _.
#[local] Arguments sum_ss {enc dec ores ires} _.
#[local] Arguments handle_pingresp {enc dec ores ires} _.
#[local] Arguments handle_suback {enc dec ores ires} _ _ _.
#[local] Arguments handle_unsuback {enc dec ores ires} _ _ _.
#[local] Arguments publish_qos_of {enc dec ores ires} _ _.
#[local] Arguments handle_puback {enc dec ores ires} _ _ _.
#[local] Arguments handle_pubrec {enc dec ores ires} _ _ _.
#[local] Arguments handle_pubrel {enc dec ores ires} _ _.
#[local] Arguments handle_pubcomp {enc dec ores ires} _ _ _.
#[local] Arguments handle_publish {enc dec ores ires} _ _.
#[local] Arguments handle_disconnect {enc dec ores ires} _ _ _.
#[local] Arguments is_connect_op {enc dec ores ires} _ _.
#[local] Arguments connect_in_queue {enc dec ores ires} _.
#[local] Arguments reset {enc dec ores ires} _ _.
#[local] Arguments out_of_res {enc dec ores ires} _ _.
#[local] Arguments nst_queue {enc dec ores ires} _ _ _ _.
#[local] Arguments earliest_tmo {enc dec ores ires} _.
#[local] Arguments SeatStop {enc dec ores ires} _.
#[local] Arguments SeatContinue {enc dec ores ires} _ _.
#[local] Arguments SeatEncode {enc dec ores ires} _.

Section Data.
  Variable enc : Type.
  Variable enc_reset : version -> packet -> resolution -> outcome enc.
  Variable enc_call : enc -> N -> N -> outcome (bytes * enc).
  Variable enc_done : enc -> bool.
  Variable dec : Type.
  Variable dec_init : dec.
  Variable dec_feed : version -> N -> dec -> bytes -> dec * list packet * outcome unit.
  Variable ores : Type.
  Variable ores_reset : ores -> N -> ores.
  Variable ores_resolve : ores -> option N -> bytes -> outcome (ores * resolution).
  Variable ires : Type.
  Variable ires_reset : ires -> ires.
  Variable ires_resolve : ires -> option N -> bytes -> outcome (ires * bytes).
  Variable v_out : option settings -> connect_opts -> resolution -> packet -> outcome unit.
  Variable v_in : option settings -> packet -> outcome unit.
  Variable cfg : config.
  Variable HC : comps_ok enc enc_reset enc_call dec dec_init dec_feed ores ores_reset ores_resolve ires ires_reset ires_resolve v_out v_in.

  Notation state := (state enc dec ores ires).
  Notation hres := (hres enc dec ores ires).
  Notation handle_connack := (handle_connack enc dec ores ores_reset ires ires_reset v_in cfg).
  Notation handle_packet := (handle_packet enc dec ores ores_reset ires ires_reset v_in cfg).
  Notation handle_packets := (handle_packets enc dec ores ores_reset ires ires_reset ires_resolve v_in cfg).
  Notation net_data := (net_data enc dec dec_feed ores ores_reset ires ires_reset ires_resolve v_in cfg).

  Ltac splits := repeat match goal with |- _ /\ _ => split end.

  (* the CONNACK: no publish is pending while the CONNACK is awaited (WFP), the session step only shrinks places *)
  Lemma handle_connack_PL (s : state) now c : WF cfg s -> PL s -> PL (h_s (handle_connack s now c)).
  Proof.
    intros [HW HP0] HP. unfold Model.handle_connack.
    destruct (pstate_eqb (s_st s) PendingConnack) eqn:Est; cbn [negb]; [|exact HP].
    apply pstate_eqb_eq in Est. destruct (negb (ca_rc c =? 0)); [exact HP|].
    destruct (v_in None (Connack c)); [|exact HP|exact HP].
    unfold WFP in HP0. rewrite Est in HP0. destruct HP0 as (A1 & _). cbv zeta.
    match goal with |- context [apply_session cfg ?sx ?sp] =>
      assert (Hx : PL sx) by (destruct (cf_drain_one cfg); (eapply PL_core; [|exact HP]; reflexivity));
      assert (Ex : s_ppub sx = []) by (destruct (cf_drain_one cfg); exact A1);
      pose proof (apply_session_PL cfg sx sp Ex Hx) as Ha; set (r := apply_session cfg sx sp) in * end.
    clearbody r. destruct (r_out r); cbn [h_s]; exact Ha.
  Qed.

  Lemma handle_packet_PL (s : state) now p : WF cfg s -> PL s -> PL (h_s (handle_packet s now p)).
  Proof.
    intros HWF HP. pose proof HWF as [HW _]. pose proof (WFS_PB _ _ HW) as HB.
    destruct p; cbn [Model.handle_packet]; try exact HP.
    - apply handle_connack_PL; assumption.
    - apply handle_publish_PL; assumption.
    - apply handle_puback_PL; assumption.
    - apply handle_pubrec_PL; assumption.
    - apply handle_pubrel_PL; assumption.
    - apply handle_pubcomp_PL; assumption.
    - apply handle_suback_PL; assumption.
    - apply handle_unsuback_PL; assumption.
    - apply handle_pingresp_PL; assumption.
    - apply handle_disconnect_PL; assumption.
  Qed.

  Lemma handle_packets_PL now : forall ps (s : state) dn ev,
    WF cfg s -> cinv HC s -> pcq s -> PL s -> PL (h_s (handle_packets s now ps dn ev)).
  Proof.
    induction ps as [|p rest IH]; intros s dn ev HWF HI Hq HP; pose proof HWF as [HW HP0]; cbn [Model.handle_packets]; [exact HP|].
    assert (Hres : match (match p with
                          | Publish pb => do (i', t) <- ires_resolve (s_ires s) (pub_alias pb) (pub_topic pb) ;
                                          Ok (s <| s_ires := i' |>, Publish (with_topic pb t))
                          | _ => Ok (s, p) end) with
                   | Ok (s1, p1) => WF cfg s1 /\ pcq s1 /\ cinv HC s1 /\ PL s1
                   | _ => True end).
    { destruct p; try (splits; auto; fail).
      destruct (co_ires HC (s_ires s) (pub_alias p) (pub_topic p) (proj2 (proj2 (proj2 HI)))) as (Hnp & Hinv).
      destruct (ires_resolve (s_ires s) (pub_alias p) (pub_topic p)) as [[i' t]|k|site] eqn:Er; cbn [obind]; try exact I.
      split; [split; [exact HW|exact HP0]|split; [exact Hq|split]].
      - destruct HI as (I1 & I2 & I3 & I4). unfold cinv. cbn. splits; auto. eapply Hinv. reflexivity.
      - eapply PL_core; [|exact HP]. reflexivity. }
    destruct (match p with
              | Publish pb => do (i', t) <- ires_resolve (s_ires s) (pub_alias pb) (pub_topic pb) ;
                              Ok (s <| s_ires := i' |>, Publish (with_topic pb t))
              | _ => Ok (s, p) end) as [[s1 p1]|k|site]; [|exact HP|exact HP].
    destruct Hres as (HWF1 & Hq1 & HI1 & HP1).
    destruct (v_in (s_settings s1) p1) as [u|k|site] eqn:Ev; [|cbn [h_s]; eapply PL_core; [|exact HP1]; reflexivity|exact HP1].
    destruct (handle_packet_spec _ _ _ _ _ _ _ _ _ _ _ _ _ _ _ HC s1 now p1 HWF1 HI1 Hq1) as (N1 & W1 & P1 & J1 & _).
    pose proof (handle_packet_PL s1 now p1 HWF1 HP1) as HPh.
    destruct (h_out (handle_packet s1 now p1)) as [[]|k|site] eqn:Eo.
    - destruct (P1 eq_refl) as (P2 & P3). apply IH; [split; assumption|exact J1| |exact HPh]. intros E. congruence.
    - cbn [h_s]. eapply PL_core; [|exact HPh]. reflexivity.
    - exact HPh.
  Qed.

  Lemma net_data_PL (s : state) now data : WF cfg s -> cinv HC s -> PL s -> PL (h_s (net_data s now data)).
  Proof.
    intros HWF HI HP. pose proof HWF as [HW HP0]. unfold Model.net_data.
    destruct (pstate_eqb (s_st s) Disconnected || pstate_eqb (s_st s) Halted); [exact HP|].
    destruct (pstate_eqb (s_st s) PendingConnack && connect_in_queue s) eqn:Eg; [cbn [h_s]; eapply PL_core; [|exact HP]; reflexivity|].
    destruct (co_dec_feed HC (cf_version cfg) (max_incoming_size cfg) (s_dec s) data (proj1 (proj2 HI))) as (Hnpd & Hinvd).
    destruct (dec_feed (cf_version cfg) (max_incoming_size cfg) (s_dec s) data) as [[d' ps] r] eqn:Ed.
    set (s1 := s <| s_dec := d' |>).
    assert (HI1 : cinv HC s1) by (destruct HI as (I1 & I2 & I3 & I4); unfold cinv; cbn; splits; auto).
    assert (HWF1 : WF cfg s1) by (split; [exact HW|exact HP0]).
    assert (HP1 : PL s1) by (eapply PL_core; [|exact HP]; reflexivity).
    assert (Hq1 : pcq s1).
    { intros E. change (connect_in_queue s1) with (connect_in_queue s). change (s_st s1) with (s_st s) in E.
      rewrite E in Eg. cbn in Eg. exact Eg. }
    destruct r as [u|k|site].
    - apply handle_packets_PL; assumption.
    - cbn [h_s]. eapply PL_core; [|exact HP1]. reflexivity.
    - exact HP1.
  Qed.
End Data.
