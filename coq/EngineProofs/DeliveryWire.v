(* C04, RUN LEVEL: the sequence of transmissions of one operation, for EVERY event history.

   [run_dlog s h]   the delivery log of the history h started in s (DeliveryWireDefs.dev): per step, the encoder-construction
                    log of AliasRunLog.step_olog (service / open / close / reset), the processed-packet items of
                    InboundLoop.data_log (incoming data) and the submission (user event);
   [step_J]/[run_J] the reference machine of operation i accepts the log of every step / history, and the relation J between
                    engine state and machine state is an invariant (premises: component invariants, ok_cfg, ok_event, and
                    ok_submit: submitted PUBLISH packets carry DUP = 0);
   [reachable_accepts]  from the initial state.
   The wire-level corollaries (first transmission, no repetition within a connection, retransmission, restart, PUBREL) are
   read off the accepted language in DeliveryWireThms.v. *)
From GM Require Import Base.Prelude Base.Outcome Codec.Packets Codec.Settings Engine.Model
  EngineProofs.AssocLemmas EngineProofs.WFLemmas EngineProofs.WFDefs EngineProofs.IdsFrame EngineProofs.SvcTimeout
  EngineProofs.InboundSpec EngineProofs.HandshakeRunTrace EngineProofs.AliasRunLog EngineProofs.InboundLoop EngineProofs.WFCore EngineProofs.WFComplete EngineProofs.WFClose EngineProofs.WFClose2 EngineProofs.WFEvents
  EngineProofs.WFData3 EngineProofs.WFService4 EngineProofs.WFStep EngineProofs.WFTrack EngineProofs.OrderRunSeq EngineProofs.PlaceRun EngineProofs.PlaceRunMain
  EngineProofs.DeliveryWireDefs EngineProofs.DeliveryWireFrames EngineProofs.DeliveryWireEvents EngineProofs.DeliveryWireSession EngineProofs.DeliveryWireData
  EngineProofs.DeliveryWireSeat EngineProofs.DeliveryWireService.
From RecordUpdate Require Import RecordSet.
Import RecordSetNotations.
Open Scope N_scope.

(* the four component types are implicit in the engine functions, locally to this file *)
#[local] Arguments init {enc dec} _ {ores ires} _ _.
#[local] Arguments release {enc dec ores ires} _ _ _ _.
#[local] Arguments disconnect_completion {enc dec ores ires} _ _.
#[local] Arguments fail_op {enc dec ores ires} _ _ _ _.
#[local] Arguments ping_extension {enc dec ores ires} _ _.
#[local] Arguments succeed_op {enc dec ores ires} _ _ _ _.
#[local] Arguments fail_all {enc dec ores ires} _ _ _ _.
#[local] Arguments succeed_all {enc dec ores ires} _ _ _.
#[local] Arguments andthen {enc dec ores ires} _ _.
#[local] Arguments try_ {enc dec ores ires} _ _.
#[local] Arguments pure {enc dec ores ires} _.
#[local] Arguments create_operation {enc dec ores ires} _ _.
#[local] Arguments passes_now {enc dec ores ires} _ _ _.
#[local] Arguments user_event {enc dec ores ires} _ _ _ _.
#[local] Arguments create_connect {enc dec ores ires} _ _.
#[local] Arguments net_opened {enc dec} _ {ores ires} _ _ _.
#[local] Arguments op_exists {enc dec ores ires} _ _.
#[local] Arguments op_passes {enc dec ores ires} _ _ _.
#[local] Arguments partition_policy {enc dec ores ires} _ _ _.
#[local] Arguments closed_current {enc dec ores ires} _ _.
#[local] Arguments slow_start_init {enc dec ores ires} _ _.
#[local] Arguments update_retries {enc dec ores ires} _ _.
#[local] Arguments fail_exceeding {enc dec ores ires} _ _.
#[local] Arguments has_pubrel {enc dec ores ires} _ _.
#[local] Arguments net_closed_raw {enc dec ores ires} _ _.
#[local] Arguments net_closed {enc dec ores ires} _ _.
#[local] Arguments net_write_completion {enc dec ores ires} _ _.
#[local] Arguments acquire_free_pid {enc dec ores ires} _ _.
#[local] Arguments acquire_pid_for {enc dec ores ires} _ _.
#[local] Arguments unbind {enc dec ores ires} _ _.
#[local] Arguments passes_receive_max {enc dec ores ires} _ _.
#[local] Arguments throttled {enc dec ores ires} _ _.
#[local] Arguments has_pending_ack {enc dec ores ires} _.
#[local] Arguments dequeue {enc dec ores ires} _ _ _.
#[local] Arguments fully_written {enc dec ores ires} _ _.
#[local] Arguments service_keep_alive {enc dec ores ires} _ _ _.
#[local] Arguments process_ack_timeouts {enc dec ores ires} _ _ _.
#[local] Arguments halt_on_error {enc dec ores ires} _ _.
#[local] Arguments next_service_time {enc dec ores ires} _ _ _.
#[local] Arguments build_settings {enc dec ores ires} _ _ _.
#[local] Arguments apply_session {enc dec ores ires} _ _ _.
#[local] Arguments hres_of {enc dec ores ires} _ _.
#[local] Arguments pre_connack {enc dec ores ires} _.
#[local] Arguments sum_ss {enc dec ores ires} _.
#[local] Arguments handle_pingresp {enc dec ores ires} _.
#[local] Arguments handle_suback {enc dec ores ires} _ _ _.
#[local] Arguments handle_unsuback {enc dec ores ires} _ _ _.
#[local] Arguments publish_qos_of {enc dec ores ires} _ _.
#[local] Arguments handle_puback {enc dec ores ires} _ _ _.
#[local] Arguments handle_pubrec {enc dec ores ires} _ _ _.
#[local] Arguments handle_pubrel {enc dec ores ires} _ _.
#[local] Arguments handle_pubcomp {enc dec ores ires} _ _ _.
#[local] Arguments handle_publish {enc dec ores ires} _ _.
#[local] Arguments handle_disconnect {enc dec ores ires} _ _ _.
#[local] Arguments is_connect_op {enc dec ores ires} _ _.
#[local] Arguments connect_in_queue {enc dec ores ires} _.
#[local] Arguments reset {enc dec ores ires} _ _.
#[local] Arguments out_of_res {enc dec ores ires} _ _.
#[local] Arguments nst_queue {enc dec ores ires} _ _ _ _.
#[local] Arguments earliest_tmo {enc dec ores ires} _.
#[local] Arguments SeatStop {enc dec ores ires} _.
#[local] Arguments SeatContinue {enc dec ores ires} _ _.
#[local] Arguments SeatEncode {enc dec ores ires} _.

Section Run.
  Variable enc : Type.
  Variable enc_reset : version -> packet -> resolution -> outcome enc.
  Variable enc_call : enc -> N -> N -> outcome (bytes * enc).
  Variable enc_done : enc -> bool.
  Variable dec : Type.
  Variable dec_init : dec.
  Variable dec_feed : version -> N -> dec -> bytes -> dec * list packet * outcome unit.
  Variable ores : Type.
  Variable ores_reset : ores -> N -> ores.
  Variable ores_resolve : ores -> option N -> bytes -> outcome (ores * resolution).
  Variable ires : Type.
  Variable ires_reset : ires -> ires.
  Variable ires_resolve : ires -> option N -> bytes -> outcome (ires * bytes).
  Variable v_out : option settings -> connect_opts -> resolution -> packet -> outcome unit.
  Variable v_in : option settings -> packet -> outcome unit.
  Variable cfg : config.
  Variable HC : comps_ok enc enc_reset enc_call dec dec_init dec_feed ores ores_reset ores_resolve ires ires_reset ires_resolve v_out v_in.
  Hypothesis Hcfg : ok_cfg cfg.

  Notation state := (state enc dec ores ires).
  Notation step := (step enc enc_reset enc_call enc_done dec dec_init dec_feed ores ores_reset ores_resolve
                         ires ires_reset ires_resolve v_out v_in cfg).
  Notation run := (run enc enc_reset enc_call enc_done dec dec_init dec_feed ores ores_reset ores_resolve
                       ires ires_reset ires_resolve v_out v_in cfg).
  Notation init := (init (enc:=enc) dec_init).
  Notation step_olog := (step_olog enc enc_reset enc_call enc_done dec dec_feed ores ores_reset ores_resolve ires ires_reset ires_resolve v_out v_in cfg).
  Notation data_log := (InboundLoop.data_log enc dec dec_feed ores ores_reset ires ires_reset ires_resolve v_in cfg).
  Notation WFX := (WFX enc enc_reset enc_call dec dec_init dec_feed ores ores_reset ores_resolve ires ires_reset ires_resolve v_out v_in cfg HC).

  (* ---- the delivery log of a step and of a history ---- *)
  Definition step_dlog (s : state) (e : event) : list dev :=
    match e with
    | EvData now data => map DI (data_log s now data)
    | EvUser _ p _ => [DS (s_next_id s) p]
    | _ => map DO (step_olog s e)
    end.
  Fixpoint run_dlog (s : state) (h : list event) : list dev :=
    match h with [] => [] | e :: r => step_dlog s e ++ run_dlog (fst (step s e)) r end.

  Lemma run_dlog_app h1 : forall s h2, run_dlog s (h1 ++ h2) = run_dlog s h1 ++ run_dlog (fst (run s h1)) h2.
  Proof.
    induction h1 as [|e r IH]; intros s h2; [reflexivity|]. cbn [app run_dlog].
    rewrite (run_cons enc enc_reset enc_call enc_done dec dec_init dec_feed ores ores_reset ores_resolve ires ires_reset ires_resolve v_out v_in cfg).
    cbn [fst]. rewrite IH, app_assoc. reflexivity.
  Qed.

  Section One.
    Variable i : N.
    Notation J := (J (enc:=enc) (dec:=dec) (ores:=ores) (ires:=ires) i).

    (* ---- one step ---- *)
    Theorem step_J (s : state) e g :
      WFX s -> PL s -> ok_event e -> ok_submit e -> J s g ->
      accepts i g (step_dlog s e) /\ J (fst (step s e)) (grun i g (step_dlog s e)).
    Proof.
      intros HX HPL Hev Hsub HJ. pose proof HX as [HWF HI]. pose proof HWF as [HW HP].
      pose proof (step_next_id enc enc_reset enc_call enc_done dec dec_init dec_feed ores ores_reset ores_resolve
                    ires ires_reset ires_resolve v_out v_in cfg HC s e HX) as Hnid.
      destruct e as [now p t|now dl|now|now data|now|now cap fill|now|now]; cbn [Model.step step_dlog AliasRunLog.step_olog] in *.
      - (* submission *)
        unfold out_of_res. cbn [fst]. unfold grun. cbn [fold_left accepts].
        destruct (user_event_J cfg i s g p t HW Hsub HJ) as [A B]. split; [split; [exact A|exact I]|exact B].
      - (* connection opened *)
        unfold out_of_res. cbn [fst]. destruct (pstate_eqb (s_st s) Disconnected) eqn:Est.
        + apply pstate_eqb_eq in Est. cbn [map accepts]. unfold grun. cbn [fold_left gnext]. split; [split; exact I|].
          apply halt_J. apply net_opened_J; [split; assumption|exact Est|exact HJ].
        + cbn [map accepts]. unfold grun. cbn [fold_left]. split; [exact I|]. apply halt_J.
          unfold net_opened. rewrite Est. cbn [negb r_s]. apply halted_J. exact HJ.
      - (* connection closed *)
        unfold out_of_res in *. cbn [fst] in *. destruct (pstate_eqb (s_st s) Disconnected) eqn:Est.
        + apply pstate_eqb_eq in Est. rewrite (net_closed_disconnected cfg s Est). cbn [map accepts r_s r_out]. unfold grun. cbn [fold_left].
          split; [exact I|]. apply halt_J. exact HJ.
        + apply pstate_eqb_neq in Est. cbn [map accepts]. unfold grun. cbn [fold_left gnext]. split; [split; exact I|].
          destruct (net_closed_spec cfg s HW Est) as (Eo & _). rewrite Eo in *. cbn [halt_on_error] in *.
          apply net_closed_J; assumption.
      - (* incoming data *)
        cbn [fst]. destruct (net_data_J enc enc_reset enc_call dec dec_init dec_feed ores ores_reset ores_resolve
                               ires ires_reset ires_resolve v_out v_in cfg HC i s now data g HWF HI HPL HJ) as [A B].
        split; [exact A|]. apply halt_J. exact B.
      - (* write completion *)
        unfold out_of_res. cbn [fst]. cbn [map accepts]. unfold grun. cbn [fold_left]. split; [exact I|]. apply halt_J.
        eapply quiet_J; [|exact HJ]. apply net_write_completion_quiet. apply wfs_pc. exact HW.
      - (* service *)
        destruct Hev as [Hnow Hcap]. cbn [fst].
        apply (service_J enc enc_reset enc_call enc_done dec dec_init dec_feed ores ores_reset ores_resolve
                 ires ires_reset ires_resolve v_out v_in cfg HC Hcfg i s now cap fill g); assumption.
      - (* next service time *)
        cbn [map accepts]. unfold grun. cbn [fold_left]. split; [exact I|]. destruct (next_service_time cfg s now); exact HJ.
      - (* reset *)
        unfold out_of_res in *. cbn [fst] in *. cbn [map accepts]. unfold grun. cbn [fold_left gnext]. split; [split; exact I|].
        apply reset_J; assumption.
    Qed.

    (* ---- a whole history ---- *)
    Theorem run_J : forall h (s : state) g,
      WFX s -> PL s -> Forall ok_event h -> Forall ok_submit h -> J s g ->
      accepts i g (run_dlog s h) /\ J (fst (run s h)) (grun i g (run_dlog s h)).
    Proof.
      induction h as [|e r IH]; intros s g HX HPL Hall Hsub HJ; [split; [exact I|exact HJ]|].
      inversion Hall as [|? ? He Hr]; subst. inversion Hsub as [|? ? Hs Hsr]; subst.
      destruct (step_J s e g HX HPL He Hs HJ) as [A B].
      pose proof (WF_step _ _ _ enc_done _ _ _ _ _ _ _ _ _ _ _ _ HC Hcfg s e HX He) as HX1.
      pose proof (step_PL enc enc_reset enc_call enc_done dec dec_init dec_feed ores ores_reset ores_resolve
                    ires ires_reset ires_resolve v_out v_in cfg HC Hcfg s e HX He HPL) as HP1.
      rewrite (run_cons enc enc_reset enc_call enc_done dec dec_init dec_feed ores ores_reset ores_resolve ires ires_reset ires_resolve v_out v_in cfg).
      cbn [fst run_dlog]. destruct (IH (fst (step s e)) (grun i g (step_dlog s e)) HX1 HP1 Hr Hsr B) as [A2 B2].
      rewrite grun_app. split; [apply accepts_app; split; assumption|exact B2].
    Qed.

    Theorem reachable_accepts (o0 : ores) (i0 : ires) h :
      ores_inv HC o0 -> ires_inv HC i0 -> Forall ok_event h -> Forall ok_submit h ->
      accepts i g0 (run_dlog (init o0 i0) h) /\ J (fst (run (init o0 i0) h)) (grun i g0 (run_dlog (init o0 i0) h)).
    Proof.
      intros Ho Hi Hall Hsub. apply run_J; auto.
      - exact (WF_init _ _ _ _ _ _ _ _ _ _ _ _ _ _ cfg HC o0 i0 Ho Hi).
      - apply PL_init.
      - unfold DeliveryWireDefs.J. cbn. intros o H. discriminate.
    Qed.
  End One.
End Run.
