(* C18 / C14 run level, part 6: the statements about every reachable state (every event history from
   init; hypotheses: component invariants, ok_cfg, Forall ok_event). *)
From GM Require Import Base.Prelude Base.Outcome Codec.Packets Codec.Settings Engine.Model
  EngineProofs.AssocLemmas EngineProofs.WFLemmas EngineProofs.SvcTimeout
  EngineProofs.WFDefs EngineProofs.WFCore EngineProofs.WFComplete EngineProofs.WFClose EngineProofs.WFClose2 EngineProofs.WFEvents
  EngineProofs.WFStep EngineProofs.WFProps
  EngineProofs.TimersRunDefs EngineProofs.TimersRunSvc EngineProofs.TimersRunData EngineProofs.TimersRunClose EngineProofs.TimersRun.
From RecordUpdate Require Import RecordSet.
Import RecordSetNotations.
Open Scope N_scope.

(* the times of [epoch h] are times of service calls made after the last close / reset of the history *)
Definition no_close (e : event) : Prop := match e with EvClose _ | EvReset _ => False | _ => True end.

Lemma epoch_spec : forall h w, In w (epoch h) ->
  exists h1 cap fill h2, h = h1 ++ EvService w cap fill :: h2 /\ Forall no_close h2.
Proof.
  unfold epoch. induction h as [|e h IH] using rev_ind; intros w Hin; [destruct Hin|].
  rewrite fold_left_app in Hin. cbn [fold_left] in Hin.
  assert (Hold : In w (fold_left epoch_step h []) -> no_close e ->
            exists h1 cap fill h2, h ++ [e] = h1 ++ EvService w cap fill :: h2 /\ Forall no_close h2).
  { intros Hw Hne. destruct (IH w Hw) as (h1 & cap & fill & h2 & -> & Hf). exists h1, cap, fill, (h2 ++ [e]).
    split; [rewrite <- app_assoc; reflexivity|]. apply Forall_app. split; [exact Hf|repeat constructor; exact Hne]. }
  destruct e; cbn [epoch_step] in Hin; try (apply Hold; [exact Hin|exact I]); try destruct Hin.
  - subst now. exists h, cap, fill, []. split; [reflexivity|constructor].
  - apply Hold; [exact H|exact I].
Qed.

Section Thms.
  Variable enc : Type.
  Variable enc_reset : version -> packet -> resolution -> outcome enc.
  Variable enc_call : enc -> N -> N -> outcome (bytes * enc).
  Variable enc_done : enc -> bool.
  Variable dec : Type.
  Variable dec_init : dec.
  Variable dec_feed : version -> N -> dec -> bytes -> dec * list packet * outcome unit.
  Variable ores : Type.
  Variable ores_reset : ores -> N -> ores.
  Variable ores_resolve : ores -> option N -> bytes -> outcome (ores * resolution).
  Variable ires : Type.
  Variable ires_reset : ires -> ires.
  Variable ires_resolve : ires -> option N -> bytes -> outcome (ires * bytes).
  Variable v_out : option settings -> connect_opts -> resolution -> packet -> outcome unit.
  Variable v_in : option settings -> packet -> outcome unit.
  Variable cfg : config.

  Notation state := (Model.state enc dec ores ires).
  Notation init := (Model.init enc dec dec_init ores ires).
  Notation res := (Model.res enc dec ores ires).
  Notation release := (Model.release enc dec ores ires cfg).
  Notation disconnect_completion := (Model.disconnect_completion enc dec ores ires).
  Notation fail_op := (Model.fail_op enc dec ores ires cfg).
  Notation ping_extension := (Model.ping_extension enc dec ores ires).
  Notation succeed_op := (Model.succeed_op enc dec ores ires cfg).
  Notation fail_all := (Model.fail_all enc dec ores ires cfg).
  Notation succeed_all := (Model.succeed_all enc dec ores ires cfg).
  Notation andthen := (Model.andthen enc dec ores ires).
  Notation try_ := (Model.try_ enc dec ores ires).
  Notation pure := (Model.pure enc dec ores ires).
  Notation create_operation := (Model.create_operation enc dec ores ires).
  Notation passes_now := (Model.passes_now enc dec ores ires cfg).
  Notation user_event := (Model.user_event enc dec ores ires cfg).
  Notation create_connect := (Model.create_connect enc dec ores ires cfg).
  Notation net_opened := (Model.net_opened enc dec dec_init ores ires cfg).
  Notation op_exists := (Model.op_exists enc dec ores ires).
  Notation op_passes := (Model.op_passes enc dec ores ires cfg).
  Notation partition_policy := (Model.partition_policy enc dec ores ires cfg).
  Notation closed_current := (Model.closed_current enc dec ores ires cfg).
  Notation slow_start_init := (Model.slow_start_init enc dec ores ires cfg).
  Notation update_retries := (Model.update_retries enc dec ores ires cfg).
  Notation fail_exceeding := (Model.fail_exceeding enc dec ores ires cfg).
  Notation has_pubrel := (Model.has_pubrel enc dec ores ires).
  Notation net_closed_raw := (Model.net_closed_raw enc dec ores ires cfg).
  Notation net_closed := (Model.net_closed enc dec ores ires cfg).
  Notation net_write_completion := (Model.net_write_completion enc dec ores ires cfg).
  Notation acquire_free_pid := (Model.acquire_free_pid enc dec ores ires).
  Notation acquire_pid_for := (Model.acquire_pid_for enc dec ores ires).
  Notation unbind := (Model.unbind enc dec ores ires).
  Notation passes_receive_max := (Model.passes_receive_max enc dec ores ires).
  Notation throttled := (Model.throttled enc dec ores ires cfg).
  Notation has_pending_ack := (Model.has_pending_ack enc dec ores ires).
  Notation dequeue := (Model.dequeue enc dec ores ires cfg).
  Notation fully_written := (Model.fully_written enc dec ores ires).
  Notation sres := (Model.sres enc dec ores ires).
  Notation seat := (Model.seat enc dec ores ires).
  Notation seat_current := (Model.seat_current enc enc_reset dec ores ores_reset ores_resolve ires v_out cfg).
  Notation service_loop := (Model.service_loop enc enc_reset enc_call enc_done dec ores ores_reset ores_resolve ires v_out cfg).
  Notation service_queue := (Model.service_queue enc enc_reset enc_call enc_done dec ores ores_reset ores_resolve ires v_out cfg).
  Notation service_keep_alive := (Model.service_keep_alive enc dec ores ires cfg).
  Notation process_ack_timeouts := (Model.process_ack_timeouts enc dec ores ires cfg).
  Notation halt_on_error := (Model.halt_on_error enc dec ores ires).
  Notation service := (Model.service enc enc_reset enc_call enc_done dec ores ores_reset ores_resolve ires v_out cfg).
  Notation earliest_tmo := (Model.earliest_tmo enc dec ores ires).
  Notation nst_queue := (Model.nst_queue enc dec ores ires cfg).
  Notation next_service_time := (Model.next_service_time enc dec ores ires cfg).
  Notation build_settings := (Model.build_settings enc dec ores ires cfg).
  Notation apply_session := (Model.apply_session enc dec ores ires cfg).
  Notation hres := (Model.hres enc dec ores ires).
  Notation hres_of := (Model.hres_of enc dec ores ires).
  Notation pre_connack := (Model.pre_connack enc dec ores ires).
  Notation sum_ss := (Model.sum_ss enc dec ores ires).
  Notation handle_connack := (Model.handle_connack enc dec ores ores_reset ires ires_reset v_in cfg).
  Notation handle_pingresp := (Model.handle_pingresp enc dec ores ires).
  Notation handle_suback := (Model.handle_suback enc dec ores ires cfg).
  Notation handle_unsuback := (Model.handle_unsuback enc dec ores ires cfg).
  Notation publish_qos_of := (Model.publish_qos_of enc dec ores ires).
  Notation handle_puback := (Model.handle_puback enc dec ores ires cfg).
  Notation handle_pubrec := (Model.handle_pubrec enc dec ores ires cfg).
  Notation handle_pubrel := (Model.handle_pubrel enc dec ores ires).
  Notation handle_pubcomp := (Model.handle_pubcomp enc dec ores ires cfg).
  Notation handle_publish := (Model.handle_publish enc dec ores ires).
  Notation handle_disconnect := (Model.handle_disconnect enc dec ores ires cfg).
  Notation handle_packet := (Model.handle_packet enc dec ores ores_reset ires ires_reset v_in cfg).
  Notation handle_packets := (Model.handle_packets enc dec ores ores_reset ires ires_reset ires_resolve v_in cfg).
  Notation is_connect_op := (Model.is_connect_op enc dec ores ires).
  Notation connect_in_queue := (Model.connect_in_queue enc dec ores ires).
  Notation max_incoming_size := (Model.max_incoming_size cfg).
  Notation net_data := (Model.net_data enc dec dec_feed ores ores_reset ires ires_reset ires_resolve v_in cfg).
  Notation reset := (Model.reset enc dec ores ires cfg).
  Notation out_of_res := (Model.out_of_res enc dec ores ires).
  Notation step := (Model.step enc enc_reset enc_call enc_done dec dec_init dec_feed ores ores_reset ores_resolve ires ires_reset ires_resolve v_out v_in cfg).
  Notation run := (Model.run enc enc_reset enc_call enc_done dec dec_init dec_feed ores ores_reset ores_resolve ires ires_reset ires_resolve v_out v_in cfg).
  Notation SeatStop := (Model.SeatStop enc dec ores ires).
  Notation SeatContinue := (Model.SeatContinue enc dec ores ires).
  Notation SeatEncode := (Model.SeatEncode enc dec ores ires).
  Notation mkState := (Model.mkState enc dec ores ires).

  Ltac slia := try clear v_in; try clear v_out; try clear ires_resolve; try clear ires_reset; try clear ores_resolve;
    try clear ores_reset; try clear dec_feed; try clear dec_init; try clear enc_done; try clear enc_call; try clear enc_reset; lia.
  Ltac dm := match goal with
    | |- context [match ?x with _ => _ end] => destruct x eqn:?
    end.

  Ltac dmh H := match type of H with
    | context [match ?x with _ => _ end] => destruct x eqn:?
    end.
  Notation FR := (TimersRunDefs.FR enc dec ores ires).
  Notation NW := (TimersRunDefs.NW enc dec ores ires).
  Notation KR := (TimersRunDefs.KR enc dec ores ires).
  Notation ORi := (TimersRunDefs.OR enc dec ores ires isame TimersRunDefs.fresh_i).
  Notation ORt := (TimersRunDefs.OR enc dec ores ires tsame fresh_op).
  Notation fv := (TimersRunDefs.fv enc dec ores ires).
  Notation FR_refl := (TimersRunDefs.FR_refl enc dec ores ires).
  Notation FR_trans := (TimersRunDefs.FR_trans enc dec ores ires).
  Notation NW_refl := (TimersRunDefs.NW_refl enc dec ores ires).
  Notation NW_trans := (TimersRunDefs.NW_trans enc dec ores ires).
  Notation KR_refl := (TimersRunDefs.KR_refl enc dec ores ires).
  Notation KR_trans := (TimersRunDefs.KR_trans enc dec ores ires).
  Notation FR_view := (TimersRunDefs.FR_view enc dec ores ires).
  Notation KR_view := (TimersRunDefs.KR_view enc dec ores ires).
  Notation NW_view := (TimersRunDefs.NW_view enc dec ores ires).
  Notation FR_sub := (TimersRunDefs.FR_sub enc dec ores ires).
  Notation FR_from := (TimersRunDefs.FR_from enc dec ores ires).
  Notation FR_ops := (TimersRunDefs.FR_ops enc dec ores ires).
  Notation FR_update := (TimersRunDefs.FR_update enc dec ores ires).
  Notation FR_fold := (TimersRunDefs.FR_fold enc dec ores ires).
  Notation ORt_ORi := (TimersRunDefs.ORt_ORi enc dec ores ires).
  Notation ORi_refl := (TimersRunDefs.ORi_refl enc dec ores ires).
  Notation ORi_trans := (TimersRunDefs.ORi_trans enc dec ores ires).
  Notation create_FR := (TimersRunDefs.create_FR enc dec ores ires).
  Notation halt_on_error_FR := (TimersRunDefs.halt_on_error_FR enc dec ores ires).
  Notation unbind_FR := (TimersRunDefs.unbind_FR enc dec ores ires).
  Notation fold_unbind_FR := (TimersRunDefs.fold_unbind_FR enc dec ores ires).
  Notation andthen_R := (TimersRunDefs.andthen_R enc dec ores ires).
  Notation try_R := (TimersRunDefs.try_R enc dec ores ires).
  Notation fail_all_R := (TimersRunDefs.fail_all_R enc dec ores ires cfg).
  Notation fail_op_FR := (TimersRunDefs.fail_op_FR enc dec ores ires cfg).
  Notation succeed_op_FR := (TimersRunDefs.succeed_op_FR enc dec ores ires cfg).
  Notation fail_all_FR := (TimersRunDefs.fail_all_FR enc dec ores ires cfg).
  Notation succeed_all_FR := (TimersRunDefs.succeed_all_FR enc dec ores ires cfg).
  Notation user_event_FR := (TimersRunDefs.user_event_FR enc dec ores ires cfg).
  Notation net_opened_NW := (TimersRunDefs.net_opened_NW enc dec dec_init ores ires cfg).
  Notation net_write_completion_FR := (TimersRunDefs.net_write_completion_FR enc dec ores ires cfg).
  Notation service_keep_alive_NW := (TimersRunDefs.service_keep_alive_NW enc dec ores ires cfg).
  Notation seat_current_FR := (TimersRunDefs.seat_current_FR enc enc_reset dec ores ores_reset ores_resolve ires v_out cfg).
  Ltac splits := repeat match goal with |- _ /\ _ => split end.
  Ltac frv := apply FR_view; reflexivity.
  Notation service_queue_inv := (TimersRunSvc.service_queue_inv enc enc_reset enc_call enc_done dec ores ores_reset ores_resolve ires v_out cfg).
  Notation service_TM := (TimersRunSvc.service_TM enc enc_reset enc_call enc_done dec ores ores_reset ores_resolve ires v_out cfg).
  Notation service_ORi := (TimersRunSvc.service_ORi enc enc_reset enc_call enc_done dec ores ores_reset ores_resolve ires v_out cfg).
  Notation TM_FR := (TimersRunSvc.TM_FR enc dec ores ires).
  Notation TM_NW := (TimersRunSvc.TM_NW enc dec ores ires).
  Notation TM_weaken := (TimersRunSvc.TM_weaken enc dec ores ires).
  Notation TM_written := (TimersRunSvc.TM_written enc dec ores ires).
  Notation TM_timeouts := (TimersRunSvc.TM_timeouts enc dec ores ires cfg).
  Notation fully_written_shape := (TimersRunSvc.fully_written_shape enc dec ores ires).
  Notation fully_written_KR := (TimersRunSvc.fully_written_KR enc dec ores ires).
  Notation fully_written_ORi := (TimersRunSvc.fully_written_ORi enc dec ores ires).
  Notation process_ack_timeouts_KR := (TimersRunSvc.process_ack_timeouts_KR enc dec ores ires cfg).
  Notation process_ack_timeouts_ORi := (TimersRunSvc.process_ack_timeouts_ORi enc dec ores ires cfg).
  Notation net_data_inv := (TimersRunData.net_data_inv enc dec dec_feed ores ores_reset ires ires_reset ires_resolve v_in cfg).
  Notation net_data_TM := (TimersRunData.net_data_TM enc dec dec_feed ores ores_reset ires ires_reset ires_resolve v_in cfg).
  Notation net_data_ORi := (TimersRunData.net_data_ORi enc dec dec_feed ores ores_reset ires ires_reset ires_resolve v_in cfg).
  Notation net_data_KI := (TimersRunData.net_data_KI enc dec dec_feed ores ores_reset ires ires_reset ires_resolve v_in cfg).
  Notation handle_connack_NW := (TimersRunData.handle_connack_NW enc dec ores ores_reset ires ires_reset v_in cfg).
  Notation KI_connack := (TimersRunData.KI_connack enc dec ores ores_reset ires ires_reset v_in cfg).
  Notation KI_FR := (TimersRunData.KI_FR enc dec ores ires cfg).
  Notation KI_KR := (TimersRunData.KI_KR enc dec ores ires cfg).
  Notation KI_keep_alive := (TimersRunData.KI_keep_alive enc dec ores ires cfg).
  Notation apply_session_FR := (TimersRunData.apply_session_FR enc dec ores ires cfg).
  Notation ka_final := (TimersRunData.ka_final cfg).
  Notation close_intr := (TimersRunClose.close_intr enc dec ores ires cfg).
  Notation close_nid := (TimersRunClose.close_nid enc dec ores ires cfg).
  Notation close_phases := (TimersRunClose.close_phases enc dec ores ires cfg).
  Notation net_closed_ka := (TimersRunClose.net_closed_ka enc dec ores ires cfg).
  Notation net_closed_rs := (TimersRunClose.net_closed_rs enc dec ores ires cfg).
  Notation net_closed_done := (TimersRunClose.net_closed_done enc dec ores ires cfg).
  Notation PC2 := (TimersRunClose.PC2 enc dec ores ires).
  Notation R0 := (TimersRunClose.R0 enc dec ores ires).
  Notation R0_old := (TimersRunClose.R0_old enc dec ores ires).
  Notation WFS_PC2 := (TimersRunClose.WFS_PC2 enc dec ores ires).
  Notation fail_all_keeps := (TimersRunClose.fail_all_keeps enc dec ores ires cfg).
  Notation fail_all_R0 := (TimersRunClose.fail_all_R0 enc dec ores ires cfg).
  Notation fail_exceeding_R0 := (TimersRunClose.fail_exceeding_R0 enc dec ores ires cfg).
  Notation phaseA_R0 := (TimersRunClose.phaseA_R0 enc dec ores ires cfg).
  Notation phaseB_R0 := (TimersRunClose.phaseB_R0 enc dec ores ires cfg).
  Notation phaseC_R0 := (TimersRunClose.phaseC_R0 enc dec ores ires cfg).
  Notation pending_nodup := (TimersRunClose.pending_nodup enc dec ores ires).
  Variable HC : comps_ok enc enc_reset enc_call dec dec_init dec_feed ores ores_reset ores_resolve ires ires_reset ires_resolve v_out v_in.
  Hypothesis Hcfg : ok_cfg cfg.
  Notation WFX := (WFStep.WFX enc enc_reset enc_call dec dec_init dec_feed ores ores_reset ores_resolve ires ires_reset ires_resolve v_out v_in cfg HC).
  Notation step_spec := (WFStep.step_spec enc enc_reset enc_call enc_done dec dec_init dec_feed ores ores_reset ores_resolve ires ires_reset ires_resolve v_out v_in cfg HC Hcfg).
  Notation WF_init := (WFStep.WF_init enc enc_reset enc_call dec dec_init dec_feed ores ores_reset ores_resolve ires ires_reset ires_resolve v_out v_in cfg HC).
  Notation WFS := (@WFDefs.WFS enc dec ores ires).
  Notation TM := (TimersRunSvc.TM enc dec ores ires).
  Notation KI := (TimersRunData.KI enc dec ores ires cfg).
  Notation pending_ids := (SvcTimeout.pending_ids enc dec ores ires).
  Notation caught_inc := (TimersRunClose.caught_inc enc dec ores ires cfg).
  Notation reachable_inv := (TimersRun.reachable_inv enc enc_reset enc_call enc_done dec dec_init dec_feed ores ores_reset ores_resolve ires ires_reset ires_resolve v_out v_in cfg HC Hcfg).
  Notation run_intr := (TimersRun.run_intr enc enc_reset enc_call enc_done dec dec_init dec_feed ores ores_reset ores_resolve ires ires_reset ires_resolve v_out v_in cfg HC Hcfg).
  Notation intr_count := (TimersRun.intr_count enc enc_reset enc_call enc_done dec dec_init dec_feed ores ores_reset ores_resolve ires ires_reset ires_resolve v_out v_in cfg).
  Notation caught := (TimersRun.caught enc dec ores ires cfg).

  (* ---- a due record fires in a successful service call ---- *)
  Lemma service_fires s now cap fill i t :
    In (i, t) (s_tmo s) -> t <= now -> s_st s = Connected \/ s_st s = PendingDisconnect ->
    sr_out (service s now cap fill) = Ok tt -> lookup i (s_ops (sr_s (service s now cap fill))) = None.
  Proof.
    intros Hin Hle Hst.
    assert (Hfire : forall s1, In (i, t) (s_tmo s1) -> r_out (process_ack_timeouts s1 now) = Ok tt ->
              lookup i (s_ops (r_s (process_ack_timeouts s1 now))) = None).
    { intros s1 H1 Ho. assert (Hp : is_panic (r_out (process_ack_timeouts s1 now)) = false) by (rewrite Ho; reflexivity).
      destruct (ack_timeouts_exact enc dec ores ires cfg s1 now Hp) as (_ & _ & X3 & _). rewrite X3.
      assert (Hex : existsb (fun x => (fst x =? i) && due now x) (s_tmo s1) = true).
      { apply existsb_exists. exists (i, t). split; [exact H1|]. unfold due. cbn [fst snd]. rewrite N.eqb_refl. cbn. slia. }
      rewrite Hex. reflexivity. }
    assert (HQ : forall s1 m, In (i, t) (s_tmo s1) -> In (i, t) (s_tmo (sr_s (service_queue s1 m now cap fill)))).
    { intros s1 m. apply (service_queue_inv (fun x => In (i, t) (s_tmo x)) now).
      - intros a b [[N _ _ _] _] H. rewrite N. exact H.
      - intros a b Hw H. destruct (fully_written_shape a now b Hw) as (id & o & Ec & El & _).
        rewrite (deadline_armed enc dec ores ires a now b id o Hw Ec El). apply in_or_app. left. exact H. }
    unfold Model.service. cbn [sr_s sr_out]. destruct Hst as [Est|Est]; rewrite Est.
    - destruct (service_keep_alive s now) as [s1| |] eqn:Ek; cbn [sr_out sr_s]; try (intros Hx; discriminate Hx).
      assert (H1 : In (i, t) (s_tmo s1)) by (destruct (service_keep_alive_NW _ _ _ Ek) as [N _ _ _]; rewrite N; exact Hin).
      specialize (HQ s1 true H1). destruct (sr_out (service_queue s1 true now cap fill)) as [[]| |] eqn:Eq; cbn [sr_out sr_s]; try (rewrite Eq; intros Hx; discriminate Hx).
      intros Ho. rewrite Ho. cbn [Model.halt_on_error]. apply Hfire; assumption.
    - cbn [sr_out sr_s]. intros Ho. rewrite Ho. cbn [Model.halt_on_error]. apply Hfire; assumption.
  Qed.

  Section Reach.
    Variable o0 : ores.
    Variable i0 : ires.
    Variable h : list event.
    Hypothesis Ho0 : ores_inv HC o0.
    Hypothesis Hi0 : ires_inv HC i0.
    Hypothesis Hall : Forall ok_event h.
    Notation sR := (fst (run (init o0 i0) h)).

    (* C18.1 armed *)
    Theorem run_armed : forall p i o T w,
      In (p, i) (s_ppub sR) \/ In (p, i) (s_pnon sR) -> lookup i (s_ops sR) = Some o ->
      op_user o = true -> op_timeout o = Some T -> op_ext o = Some w -> w + T <= IMAX -> In (i, w + T) (s_tmo sR).
    Proof. destruct (reachable_inv o0 i0 h Ho0 Hi0 Hall) as (_ & HT & _). exact (tm_armed _ _ _ _ _ _ HT). Qed.

    (* ... hence the first successful service call at or after w + T fails the operation *)
    Theorem run_timeout_fires : forall p i o T w now cap fill,
      In (p, i) (s_ppub sR) \/ In (p, i) (s_pnon sR) -> lookup i (s_ops sR) = Some o ->
      op_user o = true -> op_timeout o = Some T -> op_ext o = Some w -> w + T <= IMAX ->
      w + T <= now -> o_res (snd (step sR (EvService now cap fill))) = Ok tt ->
      lookup i (s_ops (fst (step sR (EvService now cap fill)))) = None.
    Proof.
      intros p i o T w now cap fill Hin Hl Hu Ht He Hle Hdue Hok.
      pose proof (run_armed p i o T w Hin Hl Hu Ht He Hle) as Hrec.
      destruct (reachable_inv o0 i0 h Ho0 Hi0 Hall) as ([[HW HP] _] & _ & _).
      cbn [Model.step fst snd o_res] in *. apply (service_fires _ _ _ _ i (w + T)); auto.
      unfold WFP in HP. destruct (s_st sR) eqn:Est; auto.
      - destruct HP as (P1 & P2 & _). rewrite P1, P2 in Hin. destruct Hin as [[]|[]].
      - destruct HP as (P1 & P2 & _). rewrite P1, P2 in Hin. destruct Hin as [[]|[]].
      - exfalso. revert Hok. unfold Model.service. rewrite Est. cbn. discriminate.
    Qed.

    (* C18.2 sound records *)
    Theorem run_records_sound : forall i t, In (i, t) (s_tmo sR) ->
      t <= IMAX /\ exists w T, t = w + T /\ In w (epoch h) /\
        forall o, lookup i (s_ops sR) = Some o ->
          op_user o = true /\ op_timeout o = Some T /\ exists we, op_ext o = Some we /\ In we (epoch h).
    Proof.
      destruct (reachable_inv o0 i0 h Ho0 Hi0 Hall) as (_ & HT & _). intros i t Hin.
      destruct (tm_sound _ _ _ _ _ _ HT i t Hin) as (_ & A & B). split; assumption.
    Qed.

    (* ... measured from a service call made after the last close / reset *)
    Corollary run_record_epoch : forall i t, In (i, t) (s_tmo sR) ->
      exists w T h1 cap fill h2, t = w + T /\ h = h1 ++ EvService w cap fill :: h2 /\ Forall no_close h2 /\
        forall o, lookup i (s_ops sR) = Some o -> op_timeout o = Some T.
    Proof.
      intros i t Hin. destruct (run_records_sound i t Hin) as (_ & w & T & Ht & Hw & Ho).
      destruct (epoch_spec h w Hw) as (h1 & cap & fill & h2 & Hh & Hf). exists w, T, h1, cap, fill, h2. repeat split; auto.
      intros o Hl. apply (Ho o Hl).
    Qed.

    (* C18.2 / C18.3: internal operations, operations without a timeout, operations never completely written have no record *)
    Corollary run_no_record : forall i o, lookup i (s_ops sR) = Some o ->
      op_user o = false \/ op_timeout o = None \/ op_ext o = None -> forall t, ~ In (i, t) (s_tmo sR).
    Proof.
      intros i o Hl Hc t Hin. destruct (run_records_sound i t Hin) as (_ & w & T & _ & _ & Ho).
      destruct (Ho o Hl) as (A & B & we & C & _). destruct Hc as [Hc|[Hc|Hc]]; congruence.
    Qed.

    (* C18.3 queued time does not count: an operation that has a record was last completely written by a service
       call made after the last close / reset, i.e. on the current connection (time spent in a queue, or a write
       on an earlier connection, arms nothing) *)
    Corollary run_record_written : forall i t o, In (i, t) (s_tmo sR) -> lookup i (s_ops sR) = Some o ->
      exists we h1 cap fill h2, op_ext o = Some we /\ h = h1 ++ EvService we cap fill :: h2 /\ Forall no_close h2.
    Proof.
      intros i t o Hin Hl. destruct (run_records_sound i t Hin) as (_ & w & T & _ & _ & Ho).
      destruct (Ho o Hl) as (_ & _ & we & He & Hw). destruct (epoch_spec h we Hw) as (h1 & cap & fill & h2 & Hh & Hf).
      exists we, h1, cap, fill, h2. auto.
    Qed.

    (* no record outside a connection *)
    Theorem run_tmo_empty : s_st sR = Disconnected \/ s_st sR = PendingConnack -> s_tmo sR = [].
    Proof.
      destruct (reachable_inv o0 i0 h Ho0 Hi0 Hall) as ([[HW HP] _] & _ & _). unfold WFP in HP.
      intros [E|E]; rewrite E in HP; tauto.
    Qed.

    (* C18.4 the interruption count is the number of closes that caught the operation *)
    Theorem run_intr_count : forall i o, lookup i (s_ops sR) = Some o -> op_intr o = intr_count (init o0 i0) h i.
    Proof.
      intros i o Hl.
      destruct (run_intr h (init o0 i0) (WF_init o0 i0 Ho0 Hi0) Hall i o Hl) as [(o' & Ho' & _)|[_ E]]; [discriminate|exact E].
    Qed.

    (* C14.5 *)
    Theorem run_ka_connected : s_st sR = Connected ->
      exists st, s_settings sR = Some st /\
        (0 < st_server_keep_alive st -> exists n, s_next_ping sR = Some n /\
           forall t, s_ping_to sR = Some t -> t + st_server_keep_alive st * 1000 <= n + ka_final (st_server_keep_alive st)) /\
        (st_server_keep_alive st = 0 -> s_next_ping sR = None /\ s_ping_to sR = None /\ forall now, service_keep_alive sR now = Ok sR).
    Proof.
      destruct (reachable_inv o0 i0 h Ho0 Hi0 Hall) as (_ & _ & HK). unfold TimersRunData.KI in HK. intros Est. rewrite Est in HK.
      destruct HK as (st & A & B & C). exists st. split; [exact A|]. split; [exact B|]. intros Hk. destruct (C Hk) as [C1 C2].
      split; [exact C1|]. split; [exact C2|]. intros now. unfold Model.service_keep_alive. rewrite C2, C1. reflexivity.
    Qed.

    Theorem run_ka_unconnected : s_st sR = Disconnected \/ s_st sR = PendingConnack -> s_next_ping sR = None /\ s_ping_to sR = None.
    Proof.
      destruct (reachable_inv o0 i0 h Ho0 Hi0 Hall) as (_ & _ & HK). unfold TimersRunData.KI in HK. intros [E|E]; rewrite E in HK; exact HK.
    Qed.
  End Reach.
End Thms.
