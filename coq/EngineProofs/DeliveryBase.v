(* C04, reconnect / session half: shared definitions and the per-helper frame lemmas.
   Everything here holds for EVERY state (no well-formedness premise); the only premises used are
   "this call does not panic" and, where a packet id must identify its operation, the simple
   [pid_consistent] of SvcTimeout.v (implied by the engine invariant WF).

   [with_dup v p]   the packet with its DUP flag set to v (PUBLISH only);
   [same_meta o o'] o' has the same PUBREL slot, bound packet id, user flag, ack timeout and ping-extension base as o;
   [mark_rel o o']  same_meta and the same packet (only slow-start / retry marks may differ);
   [pre s0 s]       s is an intermediate state of the close of s0 BEFORE the unacked publishes are
                    re-queued: operations only disappear or get new marks, the pending-publish table only
                    loses entries (it is a filter of the old one), and it loses only entries of failed operations. *)
From GM Require Import Base.Prelude Base.Outcome Codec.Packets Codec.Settings Engine.Model
  EngineProofs.AssocLemmas EngineProofs.WFLemmas EngineProofs.SvcTimeout.
From RecordUpdate Require Import RecordSet.
Import RecordSetNotations.
Open Scope N_scope.

Definition with_dup (v : bool) (p : packet) : packet :=
  match p with
  | Publish pb =>
      Publish {| pub_pid := pub_pid pb; pub_topic := pub_topic pb; pub_qos := pub_qos pb; pub_dup := v;
                 pub_retain := pub_retain pb; pub_payload := pub_payload pb; pub_pfi := pub_pfi pb; pub_mei := pub_mei pb;
                 pub_alias := pub_alias pb; pub_response_topic := pub_response_topic pb; pub_correlation := pub_correlation pb;
                 pub_subids := pub_subids pb; pub_content_type := pub_content_type pb; pub_up := pub_up pb |}
  | _ => p
  end.

Definition dup_of (p : packet) : bool := match p with Publish pb => pub_dup pb | _ => false end.
Definition pid_of (p : packet) : option N :=
  match p with
  | Publish pb => Some (pub_pid pb) | Subscribe x => Some (s_pid x) | Unsubscribe x => Some (u_pid x) | _ => None
  end.

Lemma with_dup_idem v w p : with_dup v (with_dup w p) = with_dup v p.
Proof. destruct p; reflexivity. Qed.

Lemma with_dup_dup v pb : exists pb', with_dup v (Publish pb) = Publish pb' /\ pub_dup pb' = v /\ pub_pid pb' = pub_pid pb /\
  pub_qos pb' = pub_qos pb /\ pub_topic pb' = pub_topic pb /\ pub_payload pb' = pub_payload pb /\ pub_retain pb' = pub_retain pb.
Proof. eexists. split; [reflexivity|]. cbn. repeat split. Qed.

Lemma with_dup_same p : with_dup (dup_of p) p = p.
Proof. destruct p; try reflexivity. destruct p; reflexivity. Qed.

Lemma with_dup_pid v p : pid_of (with_dup v p) = pid_of p.
Proof. destruct p; reflexivity. Qed.

Lemma with_dup_policy n v p : passes_policy n (with_dup v p) = passes_policy n p.
Proof. destruct p; reflexivity. Qed.

Lemma with_dup_is_disconnect v p : is_disconnect (with_dup v p) = is_disconnect p.
Proof. destruct p; reflexivity. Qed.

Definition same_meta (o o' : op) : Prop :=
  op_pubrel o' = op_pubrel o /\ op_pid o' = op_pid o /\ op_user o' = op_user o /\ op_timeout o' = op_timeout o /\
  op_ext o' = op_ext o.
Definition mark_rel (o o' : op) : Prop := op_packet o' = op_packet o /\ same_meta o o'.

Lemma same_meta_refl o : same_meta o o.
Proof. unfold same_meta. repeat split. Qed.
Lemma same_meta_trans a b c : same_meta a b -> same_meta b c -> same_meta a c.
Proof. unfold same_meta. intuition congruence. Qed.
Lemma mark_rel_refl o : mark_rel o o.
Proof. split; [reflexivity|apply same_meta_refl]. Qed.
Lemma mark_rel_trans a b c : mark_rel a b -> mark_rel b c -> mark_rel a c.
Proof. intros [A1 A2] [B1 B2]. split; [congruence|eapply same_meta_trans; eassumption]. Qed.

Lemma set_dup_fields v o : op_packet (set_dup v o) = with_dup v (op_packet o) /\ same_meta o (set_dup v o).
Proof. unfold set_dup, same_meta. destruct (op_packet o) eqn:E; cbn; rewrite ?E; repeat split; reflexivity. Qed.

Lemma set_ss_rel v o : mark_rel o (set_ss v o).
Proof. unfold mark_rel, same_meta. cbn. repeat split. Qed.
Lemma bump_intr_rel o : mark_rel o (bump_intr o).
Proof. unfold mark_rel, same_meta. cbn. repeat split. Qed.

Lemma iter_rel (R : op -> op -> Prop) (f : op -> op) :
  (forall o, R o o) -> (forall a b c, R a b -> R b c -> R a c) -> (forall o, R o (f o)) -> forall n o, R o (Nat.iter n f o).
Proof.
  intros Hr Ht Hf n o. induction n as [|n IH]; [apply Hr|]. cbn [Nat.iter nat_rect]. eapply Ht; [exact IH|apply Hf].
Qed.

Lemma iter_set_dup v n o :
  same_meta o (Nat.iter n (set_dup v) o) /\
  op_packet (Nat.iter n (set_dup v) o) = match n with O => op_packet o | S _ => with_dup v (op_packet o) end.
Proof.
  induction n as [|n [IH1 IH2]]; [split; [apply same_meta_refl|reflexivity]|].
  cbn [Nat.iter nat_rect]. destruct (set_dup_fields v (Nat.iter n (set_dup v) o)) as [F1 F2]. split.
  - eapply same_meta_trans; eassumption.
  - unfold Nat.iter in *. rewrite F1, IH2. destruct n; [reflexivity|apply with_dup_idem].
Qed.

Lemma remove_filter {A} (k : N) (l : list (N * A)) : remove k l = filter (fun x => negb (fst x =? k)) l.
Proof.
  induction l as [|[k' v] r IH]; cbn [remove filter fst]; [reflexivity|]. destruct (k' =? k); cbn [negb]; [exact IH|].
  f_equal. exact IH.
Qed.

Lemma filter_filter {A} (f g : A -> bool) l : filter g (filter f l) = filter (fun x => f x && g x) l.
Proof.
  induction l as [|x r IH]; cbn [filter]; [reflexivity|]. destruct (f x); cbn [filter andb]; [|exact IH].
  destruct (g x); [f_equal|]; exact IH.
Qed.

Lemma filter_true {A} (l : list A) : l = filter (fun _ => true) l.
Proof. induction l as [|x r IH]; cbn [filter]; [reflexivity|]. f_equal. exact IH. Qed.

Lemma mem_false_iff k l : mem k l = false <-> ~ In k l.
Proof.
  rewrite <- mem_In. destruct (mem k l); split.
  - discriminate.
  - intros H. exfalso. apply H. reflexivity.
  - intros _ H. discriminate.
  - reflexivity.
Qed.

Section Base.
  Variable enc : Type.
  Variable dec : Type.
  Variable ores : Type.
  Variable ires : Type.
  Variable cfg : config.
  Notation state := (Model.state enc dec ores ires).
  Notation res := (Model.res enc dec ores ires).
  Notation fail_op := (Model.fail_op enc dec ores ires cfg).
  Notation fail_all := (Model.fail_all enc dec ores ires cfg).
  Notation andthen := (Model.andthen enc dec ores ires).
  Notation try_ := (Model.try_ enc dec ores ires).
  Notation pure := (Model.pure enc dec ores ires).
  Notation closed_current := (Model.closed_current enc dec ores ires cfg).
  Notation slow_start_init := (Model.slow_start_init enc dec ores ires cfg).
  Notation update_retries := (Model.update_retries enc dec ores ires cfg).
  Notation fail_exceeding := (Model.fail_exceeding enc dec ores ires cfg).
  Notation pid_consistent := (SvcTimeout.pid_consistent enc dec ores ires).
  Notation queue_fields := (SvcTimeout.queue_fields enc dec ores ires).

  Definition gop (s : state) (i : N) : option op := lookup i (s_ops s).

  Lemma qf_fields (s s' : state) : queue_fields s' = queue_fields s ->
    s_uq s' = s_uq s /\ s_rq s' = s_rq s /\ s_hq s' = s_hq s /\ s_cur s' = s_cur s /\ s_pwco s' = s_pwco s /\
    s_tmo s' = s_tmo s /\ s_q2in s' = s_q2in s /\ s_pwc s' = s_pwc s.
  Proof. unfold SvcTimeout.queue_fields. intros H. inversion H. repeat split; assumption. Qed.

  (* ---- sequencing ---- *)
  Lemma andthen_inv (r : res) f : is_panic (r_out (andthen r f)) = false ->
    is_panic (r_out r) = false /\ is_panic (r_out (f (r_s r))) = false /\
    r_s (andthen r f) = r_s (f (r_s r)) /\ r_done (andthen r f) = r_done r ++ r_done (f (r_s r)).
  Proof.
    unfold Model.andthen. destruct (is_panic (r_out r)) eqn:E1; [intros H; congruence|].
    destruct (is_panic (r_out (f (r_s r)))) eqn:E2; cbn [r_out r_s r_done]; [intros H; congruence|].
    intros _. repeat split.
  Qed.

  Lemma fail_all_cons_inv (s : state) id rest e : is_panic (r_out (fail_all s (id :: rest) e)) = false ->
    is_panic (r_out (fail_op s id e)) = false /\ is_panic (r_out (fail_all (r_s (fail_op s id e)) rest e)) = false /\
    r_s (fail_all s (id :: rest) e) = r_s (fail_all (r_s (fail_op s id e)) rest e).
  Proof.
    intros H. change (fail_all s (id :: rest) e) with (andthen (fail_op s id e) (fun s' => fail_all s' rest e)) in H |- *.
    destruct (andthen_inv _ _ H) as (A & B & C & _). auto.
  Qed.

  (* ---- the phase relation ---- *)
  Record pre (s0 s : state) : Prop := mkPre {
    pr_ops : forall i o', gop s i = Some o' -> exists o, gop s0 i = Some o /\ mark_rel o o';
    pr_ppub : exists f, s_ppub s = filter f (s_ppub s0);
    pr_keep : pid_consistent s0 -> pid_consistent s /\
              forall p i, In (p, i) (s_ppub s0) -> gop s i <> None -> In (p, i) (s_ppub s) }.

  Lemma pre_refl s : pre s s.
  Proof.
    constructor.
    - intros i o' H. exists o'. split; [exact H|apply mark_rel_refl].
    - exists (fun _ => true). apply filter_true.
    - intros H. split; [exact H|]. auto.
  Qed.

  Lemma pre_trans s0 s1 s2 : pre s0 s1 -> pre s1 s2 -> pre s0 s2.
  Proof.
    intros [A1 [f1 A2] A3] [B1 [f2 B2] B3]. constructor.
    - intros i o2 H2. destruct (B1 _ _ H2) as (o1 & H1 & R1). destruct (A1 _ _ H1) as (o0 & H0 & R0).
      exists o0. split; [exact H0|eapply mark_rel_trans; eassumption].
    - exists (fun x => f1 x && f2 x). rewrite B2, A2. apply filter_filter.
    - intros Hc. destruct (A3 Hc) as [Hc1 K1]. destruct (B3 Hc1) as [Hc2 K2]. split; [exact Hc2|].
      intros p i Hin Hne. apply K2; [|exact Hne]. apply K1; [exact Hin|].
      destruct (gop s2 i) as [o2|] eqn:E; [|congruence]. destruct (B1 _ _ E) as (o1 & H1 & _). congruence.
  Qed.

  (* queue moves, timer resets: operation table and pending-publish table untouched *)
  Lemma pre_same (s s' : state) : s_ops s' = s_ops s -> s_ppub s' = s_ppub s -> pre s s'.
  Proof.
    intros Eo Ep. constructor; unfold gop, SvcTimeout.pid_consistent; rewrite ?Eo, ?Ep.
    - intros i o' H. exists o'. split; [exact H|apply mark_rel_refl].
    - exists (fun _ => true). apply filter_true.
    - intros H. split; [exact H|]. auto.
  Qed.

  (* marks: an iterated update by a function that keeps packet and meta *)
  Lemma pre_upd (s s' : state) f ids :
    (forall o, mark_rel o (f o)) -> s_ops s' = upd_all f ids (s_ops s) -> s_ppub s' = s_ppub s -> pre s s'.
  Proof.
    intros Hf Eo Ep.
    assert (Hops : forall i o', gop s' i = Some o' -> exists o, gop s i = Some o /\ mark_rel o o').
    { intros i o' H. unfold gop in *. rewrite Eo in H. destruct (lookup_upd_all f ids (s_ops s) i) as (n & Hn & _).
      rewrite Hn in H. destruct (lookup i (s_ops s)) as [o|]; [|discriminate]. inversion H; subst. exists o. split; [reflexivity|].
      apply (iter_rel mark_rel f mark_rel_refl mark_rel_trans Hf). }
    constructor; [exact Hops| |].
    - exists (fun _ => true). rewrite Ep. apply filter_true.
    - intros Hc. split; [|intros p i Hin _; rewrite Ep; exact Hin].
      intros p id Hin id' o' Hl Hp. rewrite Ep in Hin. destruct (Hops _ _ Hl) as (o & Ho & _ & _ & Hpid & _).
      eapply Hc; [exact Hin|exact Ho|congruence].
  Qed.

  (* one failure *)
  Lemma pre_fail_op (s : state) id e : is_panic (r_out (fail_op s id e)) = false -> pre s (r_s (fail_op s id e)).
  Proof.
    intros Hp. constructor.
    - intros i o' H. exists o'. split; [eapply SvcTimeout.fail_op_sub; exact H|apply mark_rel_refl].
    - destruct (fail_op_ppub enc dec ores ires cfg s id e) as [->|(o & p & _ & _ & ->)].
      + exists (fun _ => true). apply filter_true.
      + eexists. apply remove_filter.
    - intros Hc. destruct (fail_op_keeps_ppub enc dec ores ires cfg s id e Hc) as [Hc1 Hk]. split; [exact Hc1|].
      intros p i Hin Hne. apply Hk; [exact Hin|]. intros ->. apply Hne. unfold gop.
      rewrite (fail_op_lookup enc dec ores ires cfg s id e id Hp), N.eqb_refl. reflexivity.
  Qed.

  Lemma pre_fail_all ids : forall (s : state) e, is_panic (r_out (fail_all s ids e)) = false -> pre s (r_s (fail_all s ids e)).
  Proof.
    induction ids as [|id rest IH]; intros s e Hp; [apply pre_refl|].
    destruct (fail_all_cons_inv s id rest e Hp) as (A & B & ->).
    eapply pre_trans; [apply pre_fail_op; exact A|apply IH; exact B].
  Qed.

  Lemma pre_fail_exceeding (s : state) : is_panic (r_out (fail_exceeding s)) = false -> pre s (r_s (fail_exceeding s)).
  Proof.
    unfold Model.fail_exceeding. destruct (cf_retry cfg) as [limit|]; [|intros _; apply pre_refl].
    destruct (negb (forallb _ _)); [cbn; discriminate|]. intros Hp.
    destruct (andthen_inv _ _ Hp) as (A & B & -> & _).
    eapply pre_trans; [apply pre_fail_all; exact A|].
    destruct (negb (forallb _ _)); [cbn in B; discriminate|]. apply pre_fail_all. exact B.
  Qed.

  Lemma fail_exceeding_fields (s : state) : queue_fields (r_s (fail_exceeding s)) = queue_fields s.
  Proof.
    unfold Model.fail_exceeding. destruct (cf_retry cfg) as [limit|]; [|reflexivity].
    destruct (negb (forallb _ _)); [reflexivity|]. unfold Model.andthen.
    match goal with |- context [fail_all s ?l ?e] => set (r1 := fail_all s l e); pose proof (fail_all_fields enc dec ores ires cfg l s e) as H1; fold r1 in H1 end.
    destruct (is_panic (r_out r1)); [exact H1|].
    assert (H2 : forall r2, r2 = (if negb (forallb (op_exists enc dec ores ires (r_s r1)) (map snd (s_ppub (r_s r1)))) then Model.mkRes (r_s r1) [] (Panic 978)
              else fail_all (r_s r1) (filter (fun id => match lookup id (s_ops (r_s r1)) with Some o => limit <? op_intr o | None => false end)
                     (map snd (s_ppub (r_s r1)))) EMaxInterruptedRetriesExceeded) -> queue_fields (r_s r2) = queue_fields s).
    { intros r2 ->. destruct (negb _); [exact H1|]. rewrite fail_all_fields. exact H1. }
    destruct (is_panic _); cbn [r_s]; apply H2; reflexivity.
  Qed.

  Lemma slow_start_init_pre (s s' : state) : slow_start_init s = Ok s' -> pre s s' /\ queue_fields s' = queue_fields s.
  Proof.
    unfold Model.slow_start_init. destruct (negb (cf_drain_one cfg)); [intros H; inversion H; split; [apply pre_refl|reflexivity]|].
    destruct (forallb _ _); [|discriminate]. intros H; inversion H; subst. split; [|reflexivity].
    eapply (pre_upd _ _ (set_ss 1)); [apply set_ss_rel|reflexivity|reflexivity].
  Qed.

  Lemma update_retries_pre (s s' : state) : update_retries s = Ok s' -> pre s s' /\ queue_fields s' = queue_fields s.
  Proof.
    unfold Model.update_retries. destruct (cf_retry cfg); [|intros H; inversion H; split; [apply pre_refl|reflexivity]].
    destruct (forallb _ _); [|discriminate]. intros H; inversion H; subst. split; [|reflexivity].
    eapply (pre_upd _ _ bump_intr); [apply bump_intr_rel|reflexivity|reflexivity].
  Qed.

  (* ---- the seated operation at close: where it goes ---- *)
  (* the operation ids that closed_current puts at the FRONT of the resubmit queue: the seated operation
     when it is a PUBLISH already marked DUP whose packet id is not in the pending-publish table (a
     retransmission, or a re-sent PUBREL, interrupted before it was completely written) *)
  Definition cur_requeued (s : state) : list N :=
    match s_cur s with
    | Some id =>
        match gop s id with
        | Some o =>
            match op_packet o with
            | Publish pb => if pub_dup pb then match lookup (pub_pid pb) (s_ppub s) with Some _ => [] | None => [id] end else []
            | _ => []
            end
        | None => []
        end
    | None => []
    end.

  Lemma fail_op_nodisc_out (s : state) id e o :
    gop s id = Some o -> is_disconnect (op_packet o) = false -> is_panic (r_out (fail_op s id e)) = false ->
    r_out (fail_op s id e) = Ok tt.
  Proof.
    unfold gop, Model.fail_op. intros -> Hd.
    destruct (release enc dec ores ires cfg s id o) as [s1|k|site] eqn:Er; [| exfalso; exact (release_no_err _ _ _ _ _ _ _ _ _ Er) | cbn; discriminate].
    unfold disconnect_completion. rewrite Hd. destruct (op_user o); reflexivity.
  Qed.

  Lemma closed_current_pre (s : state) :
    is_panic (r_out (closed_current s)) = false ->
    r_out (closed_current s) = Ok tt /\ pre s (r_s (closed_current s)) /\
    s_rq (r_s (closed_current s)) = cur_requeued s ++ s_rq s.
  Proof.
    unfold Model.closed_current, cur_requeued, gop. destruct (s_cur s) as [id|]; [|intros _; cbn; split; [reflexivity|split; [apply pre_same; reflexivity|reflexivity]]].
    destruct (lookup id (s_ops s)) as [o|] eqn:El.
    2:{ intros _. cbn. split; [reflexivity|split; [apply pre_same; reflexivity|reflexivity]]. }
    assert (Hq : forall (s1 : state), s_ops s1 = s_ops s -> s_ppub s1 = s_ppub s ->
              forall l, s_rq s1 = l ++ s_rq s ->
              let r := try_ (pure s1) (fun s' => pure (s' <| s_cur := None |>)) in
              r_out r = Ok tt /\ pre s (r_s r) /\ s_rq (r_s r) = l ++ s_rq s).
    { intros s1 E1 E2 l E3. cbn. split; [reflexivity|split; [apply pre_same; assumption|exact E3]]. }
    assert (Hf : forall e, is_disconnect (op_packet o) = false ->
              let r := try_ (fail_op s id e) (fun s' => pure (s' <| s_cur := None |>)) in
              is_panic (r_out r) = false -> r_out r = Ok tt /\ pre s (r_s r) /\ s_rq (r_s r) = [] ++ s_rq s).
    { intros e Hd. cbn zeta. unfold Model.try_.
      destruct (r_out (fail_op s id e)) as [[]|k|site] eqn:Eo.
      - intros _. cbn. split; [reflexivity|]. assert (Hp : is_panic (r_out (fail_op s id e)) = false) by (rewrite Eo; reflexivity).
        split; [eapply pre_trans; [apply pre_fail_op; exact Hp|apply pre_same; reflexivity]|].
        destruct (qf_fields _ _ (fail_op_fields enc dec ores ires cfg s id e)) as (_ & R & _). exact R.
      - intros _. exfalso. assert (Hp : is_panic (r_out (fail_op s id e)) = false) by (rewrite Eo; reflexivity).
        rewrite (fail_op_nodisc_out s id e o El Hd Hp) in Eo. discriminate.
      - rewrite Eo. cbn. discriminate. }
    destruct (op_packet o) as [c|c|pb|a|a|a|a|sb|a|un|a| | |d|a] eqn:Ep.
    3:{ (* Publish *)
      destruct (pub_dup pb).
      - destruct (lookup (pub_pid pb) (s_ppub s)); intros _; [apply (Hq s); reflexivity|apply (Hq (s <| s_rq := id :: s_rq s |>)); reflexivity].
      - destruct ((pub_qos pb =? 2) && _); [intros _; apply (Hq (s <| s_hq := id :: s_hq s |>)); reflexivity|].
        destruct (passes_policy (cf_policy cfg) (Publish pb)); [intros _; apply (Hq (s <| s_uq := id :: s_uq s |>)); reflexivity|].
        apply Hf. reflexivity. }
    7:{ destruct (passes_policy (cf_policy cfg) (Subscribe sb)); [intros _; apply (Hq (s <| s_uq := id :: s_uq s |>)); reflexivity|].
        apply Hf. reflexivity. }
    8:{ destruct (passes_policy (cf_policy cfg) (Unsubscribe un)); [intros _; apply (Hq (s <| s_uq := id :: s_uq s |>)); reflexivity|].
        apply Hf. reflexivity. }
    (* every other kind: failed with ConnectionClosed, result ignored unless it panics *)
    all: unfold Model.try_; cbn [r_out r_s r_done];
         destruct (is_panic (r_out (fail_op s id EConnectionClosed))) eqn:Hp;
         [destruct (r_out (fail_op s id EConnectionClosed)); cbn in Hp |- *; try discriminate; intros H; discriminate|];
         intros _; cbn; split; [reflexivity|]; split;
         [eapply pre_trans; [apply pre_fail_op; exact Hp|apply pre_same; reflexivity]
         |destruct (qf_fields _ _ (fail_op_fields enc dec ores ires cfg s id EConnectionClosed)) as (_ & R & _); exact R].
  Qed.
End Base.
