(* C04, session handling at CONNACK (protocol.rs 1599-1673 apply_session_present_to_connection,
   unbind_operation_packet_id): exact effect on every operation, for EVERY state.

   [unbound o]  what unbind_operation_packet_id + clear_qos2_state do to one operation: the bound packet id is
                dropped (op_pid := None, packet id field := 0), the PUBREL slot is cleared; DUP is NOT touched here.

   session_present_keeps   (session present): the resubmit queue and the user queue are sorted, nothing moves between
                them; every operation NOT in the user queue is untouched (packet incl. DUP and packet id, bound
                id, PUBREL slot); operations of the user queue are unbound; the allocation table loses only ids
                held by user-queue operations; nothing is completed.
   session_absent_restarts (no session): the resubmit queue is emptied; its operations that pass the offline
                policy move to the user queue with DUP := 0, unbound (id released, PUBREL slot cleared: a QoS 2
                publish whose PUBREC had been received restarts as a fresh PUBLISH); those the policy rejects are
                failed with OfflineQueuePolicyFailed, and exactly those; the allocation table and the inbound
                QoS 2 set are emptied. *)
From GM Require Import Base.Prelude Base.Outcome Codec.Packets Codec.Settings Engine.Model
  EngineProofs.AssocLemmas EngineProofs.WFLemmas EngineProofs.Frames EngineProofs.Order EngineProofs.Handlers
  EngineProofs.IdsFrame EngineProofs.SvcTimeout EngineProofs.DeliveryBase.
From RecordUpdate Require Import RecordSet.
Import RecordSetNotations.
Open Scope N_scope.

Definition unbound (o : op) : op :=
  (match op_pid o with
   | Some _ => match with_pid 0 (op_packet o) with
               | Ok p' => o <| op_pid := None |> <| op_packet := p' |>
               | _ => o
               end
   | None => o
   end) <| op_pubrel := None |>.

Lemma unbound_idem o : unbound (unbound o) = unbound o.
Proof.
  unfold unbound. destruct o as [pk pr pid us tm ex ss intr]. cbn.
  destruct pid as [p|]; cbn; [|reflexivity].
  destruct (with_pid 0 pk) as [p'| |] eqn:Ew; cbn; rewrite ?Ew; reflexivity.
Qed.

Lemma unbound_fields o :
  op_pubrel (unbound o) = None /\ op_user (unbound o) = op_user o /\ op_timeout (unbound o) = op_timeout o /\
  op_ext (unbound o) = op_ext o /\ op_ss (unbound o) = op_ss o /\ op_intr (unbound o) = op_intr o /\
  (op_pid (unbound o) = None \/ (op_pid (unbound o) = op_pid o /\ op_packet (unbound o) = op_packet o)).
Proof.
  unfold unbound. destruct (op_pid o) as [p|] eqn:Ep; [destruct (with_pid 0 (op_packet o))|]; cbn; rewrite ?Ep; repeat split; auto.
Qed.

(* for the three kinds that ever hold a packet id the unbound packet is the normalised one, up to DUP *)
Lemma with_pid_zero p : needs_pid p = true \/ is_publish p = true -> with_pid 0 p = Ok (with_dup (dup_of p) (norm p)).
Proof. destruct p; cbn; intros [H|H]; try discriminate; try reflexivity; destruct p; reflexivity. Qed.

Lemma unbound_packet o pid :
  op_pid o = Some pid -> (needs_pid (op_packet o) = true \/ is_publish (op_packet o) = true) ->
  op_pid (unbound o) = None /\ op_packet (unbound o) = with_dup (dup_of (op_packet o)) (norm (op_packet o)).
Proof. intros Ep Hk. unfold unbound. rewrite Ep, (with_pid_zero _ Hk). cbn. split; reflexivity. Qed.

Lemma unbound_unbound_pid o : op_pid o = None -> op_packet (unbound o) = op_packet o /\ op_pid (unbound o) = None.
Proof. intros Ep. unfold unbound. rewrite Ep. cbn. auto. Qed.

Section Session.
  Variable enc : Type.
  Variable dec : Type.
  Variable ores : Type.
  Variable ires : Type.
  Variable cfg : config.
  Notation state := (Model.state enc dec ores ires).
  Notation res := (Model.res enc dec ores ires).
  Notation fail_all := (Model.fail_all enc dec ores ires cfg).
  Notation pure := (Model.pure enc dec ores ires).
  Notation unbind := (Model.unbind enc dec ores ires).
  Notation partition_policy := (Model.partition_policy enc dec ores ires cfg).
  Notation apply_session := (Model.apply_session enc dec ores ires cfg).
  Notation gop := (DeliveryBase.gop enc dec ores ires).

  (* ---- unbind ---- *)
  Lemma unbind_lookup (s : state) id j :
    gop (unbind s id) j = if j =? id then option_map unbound (gop s id) else gop s j.
  Proof.
    unfold Model.unbind, DeliveryBase.gop. destruct (lookup id (s_ops s)) as [o|] eqn:El.
    2:{ destruct (j =? id) eqn:E; [|reflexivity]. assert (j = id) by lia. subst. rewrite El. reflexivity. }
    cbn [option_map].
    assert (Hu : forall f (ops : list (N * op)), lookup id ops = Some o ->
              lookup j (update id (fun o => o <| op_pubrel := None |>) (update id f ops)) =
              if j =? id then Some ((f o) <| op_pubrel := None |>) else lookup j ops).
    { intros f ops Ho. destruct (j =? id) eqn:E.
      - assert (j = id) by lia. subst. apply lookup_update_eq. apply lookup_update_eq. exact Ho.
      - rewrite !lookup_update_neq by lia. reflexivity. }
    unfold unbound. destruct (op_pid o) as [pid|] eqn:Ep; [destruct (with_pid 0 (op_packet o)) as [p'| |] eqn:Ew|]; cbn [s_ops].
    - cbn. rewrite (Hu _ _ El). reflexivity.
    - destruct (j =? id) eqn:E; [assert (j = id) by lia; subst; apply lookup_update_eq; exact El|apply lookup_update_neq; lia].
    - destruct (j =? id) eqn:E; [assert (j = id) by lia; subst; apply lookup_update_eq; exact El|apply lookup_update_neq; lia].
    - destruct (j =? id) eqn:E; [assert (j = id) by lia; subst; apply lookup_update_eq; exact El|apply lookup_update_neq; lia].
  Qed.

  Lemma fold_unbind_lookup l : forall (s : state) j,
    gop (fold_left unbind l s) j = if mem j l then option_map unbound (gop s j) else gop s j.
  Proof.
    induction l as [|id r IH]; intros s j; cbn [fold_left]; [reflexivity|].
    rewrite IH, mem_cons, unbind_lookup. destruct (j =? id) eqn:E; cbn [orb].
    - assert (j = id) by lia. subst. destruct (gop s id) as [o|]; cbn [option_map]; [|destruct (mem id r); reflexivity].
      destruct (mem id r); [rewrite unbound_idem|]; reflexivity.
    - reflexivity.
  Qed.

  (* the allocation table only loses entries, and only ids held by an unbound operation *)
  Lemma unbind_alloc (s : state) id :
    s_alloc (unbind s id) = s_alloc s \/
    exists o pid, gop s id = Some o /\ op_pid o = Some pid /\ s_alloc (unbind s id) = remove pid (s_alloc s).
  Proof.
    unfold Model.unbind, DeliveryBase.gop. destruct (lookup id (s_ops s)) as [o|] eqn:El; [|left; reflexivity].
    destruct (op_pid o) as [pid|] eqn:Ep; [destruct (with_pid 0 (op_packet o))|]; cbn; try (left; reflexivity).
    right. exists o, pid. auto.
  Qed.

  Lemma fold_unbind_alloc_sub l : forall (s : state) p i,
    lookup p (s_alloc (fold_left unbind l s)) = Some i -> lookup p (s_alloc s) = Some i.
  Proof.
    induction l as [|id r IH]; intros s p i; cbn [fold_left]; [exact (fun H => H)|].
    intros H. apply IH in H. destruct (unbind_alloc s id) as [E|(o & pid & _ & _ & E)]; rewrite E in H; [exact H|].
    apply lookup_remove_inv in H. tauto.
  Qed.

  Lemma fold_unbind_alloc_keep l : forall (s : state) p i,
    lookup p (s_alloc s) = Some i -> (forall j o, In j l -> gop s j = Some o -> op_pid o <> Some p) ->
    lookup p (s_alloc (fold_left unbind l s)) = Some i.
  Proof.
    induction l as [|id r IH]; intros s p i Hl Hn; cbn [fold_left]; [exact Hl|].
    apply IH.
    - destruct (unbind_alloc s id) as [->|(o & pid & Ho & Hp & ->)]; [exact Hl|].
      rewrite lookup_remove_neq; [exact Hl|]. intros ->. apply (Hn id o); [left; reflexivity|exact Ho|exact Hp].
    - intros j o' Hj Ho'. rewrite unbind_lookup in Ho'. destruct (j =? id) eqn:E.
      + assert (j = id) by lia. subst. destruct (gop s id) as [o|] eqn:Eo; [|discriminate]. cbn in Ho'. inversion Ho'; subst.
        destruct (unbound_fields o) as (_ & _ & _ & _ & _ & _ & [Hnone|[Hsame _]]); [congruence|].
        rewrite Hsame. apply (Hn id o); [left; reflexivity|exact Eo].
      + apply (Hn j o'); [right; exact Hj|exact Ho'].
  Qed.

  Lemma fold_unbind_alloc_nil l : forall (s : state), s_alloc s = [] -> s_alloc (fold_left unbind l s) = [].
  Proof.
    induction l as [|id r IH]; intros s H; cbn [fold_left]; [exact H|]. apply IH.
    destruct (unbind_alloc s id) as [->|(o & pid & _ & _ & ->)]; rewrite H; reflexivity.
  Qed.

  (* ---- the two halves of apply_session ---- *)
  Definition session_pre (s : state) (session_present : bool) : res :=
    if session_present then pure s else
    let rq := s_rq s in
    let (kept, rejected) := partition_policy s rq in
    let s1 := s <| s_rq := [] |>
                <| s_ops := fold_left (fun ops id => update id (set_dup false) ops) kept (s_ops s) |>
                <| s_uq := s_uq s ++ kept |> in
    let r := fail_all s1 rejected EOfflineQueuePolicyFailed in
    if is_panic (r_out r) then r else
    Model.mkRes (r_s r <| s_q2in := [] |> <| s_alloc := [] |>) (r_done r) (r_out r).

  Definition session_fin (s1 : state) : state :=
    let s2 := fold_left unbind (s_uq s1) s1 in
    s2 <| s_rq := Model.sort (s_rq s2) |> <| s_uq := Model.sort (s_uq s2) |>.

  Lemma apply_session_unfold (s : state) sp :
    is_panic (r_out (session_pre s sp)) = false ->
    r_s (apply_session s sp) = session_fin (r_s (session_pre s sp)) /\
    r_done (apply_session s sp) = r_done (session_pre s sp) /\
    (is_panic (r_out (apply_session s sp)) = false -> r_out (apply_session s sp) = r_out (session_pre s sp)).
  Proof.
    unfold Model.apply_session. change (if sp then pure s else _) with (session_pre s sp).
    intros Hp. rewrite Hp. unfold session_fin. cbv zeta.
    repeat match goal with |- context [if ?b then _ else _] => destruct b end; cbn [r_s r_done r_out is_panic];
      (split; [reflexivity|split; [reflexivity|try discriminate; reflexivity]]).
  Qed.

  Lemma apply_session_pre_nopanic (s : state) sp :
    is_panic (r_out (apply_session s sp)) = false -> is_panic (r_out (session_pre s sp)) = false.
  Proof.
    unfold Model.apply_session. change (if sp then pure s else _) with (session_pre s sp).
    destruct (is_panic (r_out (session_pre s sp))) eqn:E; [intros H; congruence|reflexivity].
  Qed.

  Lemma session_fin_spec (s1 : state) :
    s_rq (session_fin s1) = Model.sort (s_rq s1) /\ s_uq (session_fin s1) = Model.sort (s_uq s1) /\
    (forall i, gop (session_fin s1) i = if mem i (s_uq s1) then option_map unbound (gop s1 i) else gop s1 i) /\
    s_q2in (session_fin s1) = s_q2in s1 /\
    (forall p i, lookup p (s_alloc (session_fin s1)) = Some i -> lookup p (s_alloc s1) = Some i) /\
    (forall p i, lookup p (s_alloc s1) = Some i -> (forall j o, In j (s_uq s1) -> gop s1 j = Some o -> op_pid o <> Some p) ->
                 lookup p (s_alloc (session_fin s1)) = Some i) /\
    (s_alloc s1 = [] -> s_alloc (session_fin s1) = []).
  Proof.
    unfold session_fin. cbv zeta. destruct (fold_unbind_queues enc dec ores ires (s_uq s1) s1) as [Hu Hr].
    cbn [s_rq s_uq s_ops s_q2in s_alloc]. rewrite Hu, Hr.
    split; [reflexivity|]. split; [reflexivity|]. split; [intros i; apply (fold_unbind_lookup (s_uq s1) s1 i)|].
    split; [destruct (fold_unbind_static enc dec ores ires (s_uq s1) s1) as [H _]; exact H|].
    split; [apply fold_unbind_alloc_sub|]. split; [apply fold_unbind_alloc_keep|apply fold_unbind_alloc_nil].
  Qed.

  (* ---- C04: session present ---- *)
  Theorem session_present_keeps (s : state) :
    let r := apply_session s true in
    r_done r = [] /\
    s_rq (r_s r) = Model.sort (s_rq s) /\ s_uq (r_s r) = Model.sort (s_uq s) /\
    (forall i, gop (r_s r) i = if mem i (s_uq s) then option_map unbound (gop s i) else gop s i) /\
    s_q2in (r_s r) = s_q2in s /\
    (forall p i, lookup p (s_alloc (r_s r)) = Some i -> lookup p (s_alloc s) = Some i) /\
    (forall p i, lookup p (s_alloc s) = Some i -> (forall j o, In j (s_uq s) -> gop s j = Some o -> op_pid o <> Some p) ->
                 lookup p (s_alloc (r_s r)) = Some i).
  Proof.
    cbv zeta. destruct (apply_session_unfold s true eq_refl) as (-> & -> & _). cbn [session_pre Model.pure r_s r_done].
    destruct (session_fin_spec s) as (A & B & C & D & E & F & _). repeat split; assumption.
  Qed.

  (* ---- C04: session absent ---- *)
  Lemma lookup_set_dup_all (ops : list (N * op)) ids i :
    exists n, lookup i (fold_left (fun ops id => update id (set_dup false) ops) ids ops) =
              option_map (Nat.iter n (set_dup false)) (lookup i ops) /\ (In i ids -> (0 < n)%nat) /\ (~ In i ids -> n = 0%nat).
  Proof. exact (lookup_upd_all (set_dup false) ids ops i). Qed.

  Definition kept_of (s : state) : list N := fst (partition_policy s (s_rq s)).
  Definition rejected_of (s : state) : list N := snd (partition_policy s (s_rq s)).

  Lemma kept_spec (s : state) i : In i (kept_of s) <->
    In i (s_rq s) /\ exists o, gop s i = Some o /\ passes_policy (cf_policy cfg) (op_packet o) = true.
  Proof.
    unfold kept_of, Model.partition_policy, DeliveryBase.gop. cbn [fst]. rewrite !filter_In. unfold op_exists, op_passes.
    destruct (lookup i (s_ops s)) as [o|]; split.
    - intros [[H _] Hp]. split; [exact H|]. exists o. auto.
    - intros [H (o' & Ho' & Hp)]. inversion Ho'; subst. auto.
    - intros [[_ H] _]. discriminate.
    - intros [_ (o' & Ho' & _)]. discriminate.
  Qed.

  Lemma rejected_spec (s : state) i : In i (rejected_of s) <->
    In i (s_rq s) /\ exists o, gop s i = Some o /\ passes_policy (cf_policy cfg) (op_packet o) = false.
  Proof.
    unfold rejected_of, Model.partition_policy, DeliveryBase.gop. cbn [snd]. rewrite !filter_In. unfold op_exists, op_passes.
    destruct (lookup i (s_ops s)) as [o|]; split.
    - intros [[H _] Hp]. split; [exact H|]. exists o. split; [reflexivity|]. destruct (passes_policy _ _); [discriminate|reflexivity].
    - intros [H (o' & Ho' & Hp)]. inversion Ho'; subst. rewrite Hp. auto.
    - intros [[_ H] _]. discriminate.
    - intros [_ (o' & Ho' & _)]. discriminate.
  Qed.

  Theorem session_absent_restarts (s : state) :
    is_panic (r_out (apply_session s false)) = false ->
    let r := apply_session s false in
    let s' := r_s r in
    s_rq s' = [] /\ s_uq s' = Model.sort (s_uq s ++ kept_of s) /\ s_alloc s' = [] /\ s_q2in s' = [] /\
    (* operations of the resubmit queue that pass the offline policy: restarted *)
    (forall i o, In i (kept_of s) -> gop s i = Some o ->
       exists o', gop s' i = Some o' /\ In i (s_uq s') /\ op_pubrel o' = None /\ op_pid o' = None /\
         op_user o' = op_user o /\ op_timeout o' = op_timeout o /\
         op_packet o' = match op_pid o with Some _ => norm (op_packet o) | None => with_dup false (op_packet o) end) /\
    (* those the policy rejects: failed, and exactly those *)
    (forall i, In i (rejected_of s) -> gop s' i = None) /\
    (forall i c, In (i, c) (r_done r) <->
       c = CompErr EOfflineQueuePolicyFailed /\ In i (rejected_of s) /\ exists o, gop s i = Some o /\ completes o = true) /\
    (* operations of the user queue that were not in the resubmit queue: unbound; everything else: untouched *)
    (forall i, ~ In i (s_rq s) -> gop s' i = if mem i (s_uq s) then option_map unbound (gop s i) else gop s i).
  Proof.
    intros Hp. pose proof (apply_session_pre_nopanic s false Hp) as Hp1.
    cbv zeta. destruct (apply_session_unfold s false Hp1) as (-> & -> & _).
    revert Hp1. unfold session_pre, kept_of, rejected_of. cbv zeta.
    pose proof (kept_spec s) as Hk. pose proof (rejected_spec s) as Hr. unfold kept_of, rejected_of in Hk, Hr.
    destruct (partition_policy s (s_rq s)) as [kept rejected]. cbn [fst snd] in *.
    set (s1 := s <| s_rq := [] |> <| s_ops := fold_left (fun ops id => update id (set_dup false) ops) kept (s_ops s) |>
                 <| s_uq := s_uq s ++ kept |>).
    set (rf := fail_all s1 rejected EOfflineQueuePolicyFailed).
    destruct (is_panic (r_out rf)) eqn:Ef; [intros H; congruence|]. intros _. cbn [r_s r_done].
    destruct (fail_all_exact enc dec ores ires cfg rejected s1 EOfflineQueuePolicyFailed Ef) as [Hl Hd]. fold rf in Hl, Hd.
    destruct (qf_fields _ _ _ _ _ _ (fail_all_fields enc dec ores ires cfg rejected s1 EOfflineQueuePolicyFailed)) as (Qu & Qr & _).
    fold rf in Qu, Qr.
    set (sa := r_s rf <| s_q2in := [] |> <| s_alloc := [] |>).
    destruct (session_fin_spec sa) as (A & B & C & D & _ & _ & G).
    assert (Hua : s_uq sa = s_uq s ++ kept) by (unfold sa; cbn; rewrite Qu; reflexivity).
    assert (Hga : forall i, gop sa i = if mem i rejected then None else lookup i (s_ops s1)) by (intros i; exact (Hl i)).
    assert (Hops1 : s_ops s1 = fold_left (fun ops id => update id (set_dup false) ops) kept (s_ops s)) by reflexivity.
    assert (Hra : s_rq sa = []) by (unfold sa; cbn; rewrite Qr; reflexivity).
    assert (Hqa : s_q2in sa = []) by reflexivity.
    rewrite A, B, D, Hua, Hra, Hqa.
    split; [reflexivity|]. split; [reflexivity|]. split; [apply G; reflexivity|]. split; [reflexivity|].
    assert (Hnk : forall i, In i kept -> mem i rejected = false).
    { intros i Hi. apply mem_false_iff. intros Hj. apply Hk in Hi. apply Hr in Hj.
      destruct Hi as (_ & o & Ho & Hpp). destruct Hj as (_ & o' & Ho' & Hpp'). congruence. }
    split; [|split; [|split]].
    - intros i o Hi Ho. rewrite C, Hua, Hga, (Hnk i Hi).
      assert (Hm : mem i (s_uq s ++ kept) = true) by (apply mem_In; apply in_or_app; right; exact Hi). rewrite Hm.
      destruct (lookup_set_dup_all (s_ops s) kept i) as (n & Hn & Hpos & _). rewrite Hops1, Hn.
      unfold DeliveryBase.gop in Ho. rewrite Ho. cbn [option_map]. eexists. split; [reflexivity|].
      split; [apply (Permutation.Permutation_in _ (Permutation.Permutation_sym (sort_perm _))); apply in_or_app; right; exact Hi|].
      destruct (iter_set_dup false n o) as [(M1 & M2 & M3 & M4 & _) Mp].
      specialize (Hpos Hi). destruct n as [|n]; [lia|]. set (o1 := Nat.iter (S n) (set_dup false) o) in *.
      destruct (unbound_fields o1) as (U1 & U2 & U3 & _).
      split; [exact U1|].
      apply Hk in Hi. destruct Hi as (_ & o0 & Ho0 & Hpp). unfold DeliveryBase.gop in Ho0. replace o0 with o in * by congruence.
      assert (Hkind : needs_pid (op_packet o1) = true \/ is_publish (op_packet o1) = true).
      { rewrite Mp. destruct (op_packet o); cbn in Hpp |- *; try discriminate; auto. }
      destruct (op_pid o) as [pid|] eqn:Epid.
      + destruct (unbound_packet o1 pid (eq_trans M2 eq_refl) Hkind) as [V1 V2].
        split; [exact V1|]. split; [congruence|]. split; [congruence|]. rewrite V2, Mp.
        destruct (op_packet o); reflexivity.
      + destruct (unbound_unbound_pid o1 M2) as [V1 V2]. split; [exact V2|]. split; [congruence|]. split; [congruence|].
        rewrite V1. exact Mp.
    - intros i Hi. rewrite C, Hga. apply mem_In in Hi. rewrite Hi. destruct (mem i (s_uq sa)); reflexivity.
    - intros i c. rewrite Hd. split; intros (-> & Hi & o & Ho & Hc); (split; [reflexivity|]); (split; [exact Hi|]); exists o; (split; [|exact Hc]).
      + rewrite Hops1 in Ho. destruct (lookup_set_dup_all (s_ops s) kept i) as (n & Hn & _ & Hz). rewrite Hn in Ho.
        rewrite Hz in Ho. { unfold DeliveryBase.gop. destruct (lookup i (s_ops s)); [exact Ho|discriminate]. }
        intros Hik. specialize (Hnk i Hik). apply mem_In in Hi. congruence.
      + rewrite Hops1. destruct (lookup_set_dup_all (s_ops s) kept i) as (n & Hn & _ & Hz). rewrite Hn, Hz.
        { unfold DeliveryBase.gop in Ho. rewrite Ho. reflexivity. }
        intros Hik. specialize (Hnk i Hik). apply mem_In in Hi. congruence.
    - intros i Hni. rewrite C, Hua, Hga.
      assert (Hnr : mem i rejected = false) by (apply mem_false_iff; intros H; apply Hr in H; tauto).
      assert (Hnk' : ~ In i kept) by (intros H; apply Hk in H; tauto).
      rewrite Hnr, Hops1. destruct (lookup_set_dup_all (s_ops s) kept i) as (n & Hn & _ & Hz). rewrite Hn, (Hz Hnk').
      assert (Hm : mem i (s_uq s ++ kept) = mem i (s_uq s)).
      { destruct (mem i (s_uq s)) eqn:E.
        - apply mem_In. apply in_or_app. left. apply mem_In. exact E.
        - apply mem_false_iff. intros H. apply in_app_or in H. destruct H as [H|H]; [|contradiction]. apply mem_In in H. congruence. }
      rewrite Hm. unfold DeliveryBase.gop. destruct (lookup i (s_ops s)); reflexivity.
  Qed.
End Session.
