(* C04, run level: the invariant J (DeliveryWireDefs.v) through the events other than incoming data and service:
   submission (the operation enters phase GNot when it is a QoS 1/2 publish; needs DUP = 0 on submitted packets),
   connection opened, connection closed (DeliveryClose.close_requeues: exactly the pending publishes are marked DUP and
   re-queued, the seated DUP publish goes back to the front of the resubmit queue), write completion, reset. *)
From GM Require Import Base.Prelude Base.Outcome Codec.Packets Codec.Settings Engine.Model
  EngineProofs.AssocLemmas EngineProofs.WFLemmas EngineProofs.WFDefs EngineProofs.IdsFrame EngineProofs.SvcTimeout
  EngineProofs.InboundSpec EngineProofs.HandshakeRunTrace EngineProofs.AliasRunLog EngineProofs.InboundLoop EngineProofs.WFCore EngineProofs.WFClose EngineProofs.WFClose2 EngineProofs.WFEvents EngineProofs.WFTrack
  EngineProofs.DeliveryBase EngineProofs.DeliveryClose EngineProofs.DeliveryRun EngineProofs.DeliveryWireDefs EngineProofs.DeliveryWireFrames.
From RecordUpdate Require Import RecordSet.
Import RecordSetNotations.
Open Scope N_scope.

(* the four component types are implicit in the engine functions, locally to this file *)
#[local] Arguments init {enc dec} _ {ores ires} _ _.
#[local] Arguments release {enc dec ores ires} _ _ _ _.
#[local] Arguments disconnect_completion {enc dec ores ires} _ _.
#[local] Arguments fail_op {enc dec ores ires} _ _ _ _.
#[local] Arguments ping_extension {enc dec ores ires} _ _.
#[local] Arguments succeed_op {enc dec ores ires} _ _ _ _.
#[local] Arguments fail_all {enc dec ores ires} _ _ _ _.
#[local] Arguments succeed_all {enc dec ores ires} _ _ _.
#[local] Arguments andthen {enc dec ores ires} _ _.
#[local] Arguments try_ {enc dec ores ires} _ _.
#[local] Arguments pure {enc dec ores ires} _.
#[local] Arguments create_operation {enc dec ores ires} _ _.
#[local] Arguments passes_now {enc dec ores ires} _ _ _.
#[local] Arguments user_event {enc dec ores ires} _ _ _ _.
#[local] Arguments create_connect {enc dec ores ires} _ _.
#[local] Arguments net_opened {enc dec} _ {ores ires} _ _ _.
#[local] Arguments op_exists {enc dec ores ires} _ _.
#[local] Arguments op_passes {enc dec ores ires} _ _ _.
#[local] Arguments partition_policy {enc dec ores ires} _ _ _.
#[local] Arguments closed_current {enc dec ores ires} _ _.
#[local] Arguments slow_start_init {enc dec ores ires} _ _.
#[local] Arguments update_retries {enc dec ores ires} _ _.
#[local] Arguments fail_exceeding {enc dec ores ires} _ _.
#[local] Arguments has_pubrel {enc dec ores ires} _ _.
#[local] Arguments net_closed_raw {enc dec ores ires} _ _.
#[local] Arguments net_closed {enc dec ores ires} _ _.
#[local] Arguments net_write_completion {enc dec ores ires} _ _.
#[local] Arguments acquire_free_pid {enc dec ores ires} _ _.
#[local] Arguments acquire_pid_for {enc dec ores ires} _ _.
#[local] Arguments unbind {enc dec ores ires} _ _.
#[local] Arguments passes_receive_max {enc dec ores ires} _ _.
#[local] Arguments throttled {enc dec ores ires} _ _.
#[local] Arguments has_pending_ack {enc dec ores ires} _.
#[local] Arguments dequeue {enc dec ores ires} _ _ _.
#[local] Arguments fully_written {enc dec ores ires} _ _.
#[local] Arguments service_keep_alive {enc dec ores ires} _ _ _.
#[local] Arguments process_ack_timeouts {enc dec ores ires} _ _ _.
#[local] Arguments halt_on_error {enc dec ores ires} _ _.
#[local] Arguments next_service_time {enc dec ores ires} _ _ _.
#[local] Arguments build_settings {enc dec ores ires} _ _ _.
#[local] Arguments apply_session {enc dec ores ires} _ _ _.
#[local] Arguments hres_of {enc dec ores ires} _ _.
#[local] Arguments pre_connack {enc dec ores ires} _.
#[local] Arguments sum_ss {enc dec ores ires} _.
#[local] Arguments handle_pingresp {enc dec ores ires} _.
#[local] Arguments handle_suback {enc dec ores ires} _ _ _.
#[local] Arguments handle_unsuback {enc dec ores ires} _ _ _.
#[local] Arguments publish_qos_of {enc dec ores ires} _ _.
#[local] Arguments handle_puback {enc dec ores ires} _ _ _.
#[local] Arguments handle_pubrec {enc dec ores ires} _ _ _.
#[local] Arguments handle_pubrel {enc dec ores ires} _ _.
#[local] Arguments handle_pubcomp {enc dec ores ires} _ _ _.
#[local] Arguments handle_publish {enc dec ores ires} _ _.
#[local] Arguments handle_disconnect {enc dec ores ires} _ _ _.
#[local] Arguments is_connect_op {enc dec ores ires} _ _.
#[local] Arguments connect_in_queue {enc dec ores ires} _.
#[local] Arguments reset {enc dec ores ires} _ _.
#[local] Arguments out_of_res {enc dec ores ires} _ _.
#[local] Arguments nst_queue {enc dec ores ires} _ _ _ _.
#[local] Arguments earliest_tmo {enc dec ores ires} _.
#[local] Arguments SeatStop {enc dec ores ires} _.
#[local] Arguments SeatContinue {enc dec ores ires} _ _.
#[local] Arguments SeatEncode {enc dec ores ires} _.

Lemma norm_with_dup v p : norm (with_dup v p) = norm p.
Proof. destruct p; reflexivity. Qed.
Lemma pubq_with_dup v p : pubq (with_dup v p) = pubq p.
Proof. destruct p; reflexivity. Qed.

Section Events.
  Context {enc dec ores ires : Type}.
  Notation state := (state enc dec ores ires).
  Notation res := (res enc dec ores ires).
  Notation pid_consistent := (SvcTimeout.pid_consistent enc dec ores ires).
  Variable cfg : config.
  Variable i : N.
  Notation quiet := (quiet (enc:=enc) (dec:=dec) (ores:=ores) (ires:=ires) i).
  Notation J := (J (enc:=enc) (dec:=dec) (ores:=ores) (ires:=ires) i).
  Notation JP := (JP (enc:=enc) (dec:=dec) (ores:=ores) (ires:=ires) i).
  Notation PJ := (PJ (enc:=enc) (dec:=dec) (ores:=ores) (ires:=ires) i).

  Ltac splits := repeat match goal with |- _ /\ _ => split end.

  Lemma wfs_pc (s : state) : WFS s -> pid_consistent s.
  Proof. apply wfs_pid_consistent. Qed.

  (* the machine state does not matter beyond its phase, its session flag (read only in Connected) and the content *)
  Lemma J_sp (s : state) g b : s_st s <> Connected -> J s g -> J s (mkG b (g_sub g) (g_ph g)).
  Proof.
    intros Hst. unfold J, JP, PJ. cbn [g_ph g_sub g_sp]. destruct (g_ph g); try exact (fun H => H).
    all: intros [Hlt H]; (split; [exact Hlt|]); intros o Ho; destruct (H o Ho) as (pb & A & B & C & D); exists pb; splits; auto;
      repeat match goal with H : _ /\ _ |- _ => destruct H end; splits; auto; intros Hc; congruence.
  Qed.

  (* ---- submission ---- *)
  Theorem user_event_J (s : state) g p t :
    WFS s -> sub_ok p -> J s g ->
    gok i g (DS (s_next_id s) p) /\ J (r_s (user_event cfg s p t)) (gnext i g (DS (s_next_id s) p)).
  Proof.
    intros HW Hsub HJ.
    assert (Hlt : g_ph g <> GAbs -> i < s_next_id s) by (intros Hne; exact (J_lt i s g Hne HJ)).
    split; [cbn; intros E; destruct (g_ph g); [reflexivity|..]; exfalso; assert (i < s_next_id s) by (apply Hlt; discriminate); lia|].
    cbn [gnext].
    assert (Hq : (s_next_id s = i -> pubq p = false) -> J (r_s (user_event cfg s p t)) g).
    { intros Hk. eapply quiet_J; [|exact HJ]. apply user_event_quiet; [apply wfs_pc; exact HW|exact Hk]. }
    destruct (g_ph g) eqn:Eph.
    2-10: apply Hq; intros E; exfalso; assert (i < s_next_id s) by (apply Hlt; congruence); lia.
    destruct ((s_next_id s =? i) && pubq p) eqn:Eb; [|apply Hq; intros E; apply N.eqb_eq in E; rewrite E in Eb; exact Eb].
    apply andb_true_iff in Eb. destruct Eb as [En Ep]. apply N.eqb_eq in En.
    destruct p as [ | |pb| | | | | | | | | | | | ]; try discriminate. cbn in Ep, Hsub.
    unfold user_event, create_operation. cbn [is_disconnect negb].
    set (o0 := new_op (Publish pb) true t).
    set (s1 := s <| s_next_id := s_next_id s + 1 |> <| s_ops := s_ops s ++ [(s_next_id s, o0)] |>).
    set (g1 := mkG (g_sp g) (norm (Publish pb)) GNot).
    assert (Hnone : lookup i (s_ops s) = None).
    { destruct (lookup i (s_ops s)) eqn:E; [|reflexivity]. apply lookup_in_keys in E. apply (w_lt _ _ HW) in E. cbn in E. lia. }
    assert (J1 : J s1 g1).
    { unfold DeliveryWireDefs.J, DeliveryWireDefs.JP. cbn [g1 g_ph g_sub]. split; [cbn; lia|]. intros o. unfold getop. cbn [s1 s_ops set].
      rewrite lookup_app, Hnone. cbn. rewrite En, N.eqb_refl. intros H. inversion H; subst o. exists pb.
      split; [reflexivity|]. split; [destruct (pub_qos pb =? 0) eqn:E; [discriminate|lia]|]. split; [reflexivity|].
      unfold DeliveryWireDefs.PJ. cbn [g_ph]. splits; auto.
      - intros p0 Hin. change (s_ppub s1) with (s_ppub s) in Hin. destruct (w_ppub _ _ HW _ _ Hin) as (o & Ho & _). unfold gop in Ho. cbn in Ho. congruence.
      - intros Hc _. change (s_cur s1) with (s_cur s) in Hc. assert (Hi : inq (core_of s) i) by (unfold inq; cbn; tauto).
        apply (w_qlt _ _ HW) in Hi. cbn in Hi. lia.
      - cbn. discriminate. }
    destruct (negb (passes_now cfg s1 (Publish pb))).
    - cbn [r_s]. eapply quiet_J; [|exact J1]. apply shrink_quiet, fail_op_shrink.
      eapply (pc_new s s1 o0); try reflexivity. apply wfs_pc; exact HW.
    - cbn [pure r_s]. eapply quiet_J; [|exact J1]. apply quiet_fields; reflexivity.
  Qed.

  (* ---- connection opened ---- *)
  Lemma J_closed (s : state) g :
    s_ppub s = [] -> s_cur s = None -> s_st s <> Connected -> J s g -> J s (mkG false (g_sub g) (closed_ph (g_ph g))).
  Proof.
    intros Ep Ec Hst. unfold DeliveryWireDefs.J, DeliveryWireDefs.JP, DeliveryWireDefs.PJ. cbn [g_ph g_sub g_sp].
    destruct (g_ph g) as [| |pid d|pid|pid|pid|pid|pid| |] eqn:Eph; cbn [closed_ph]; try exact (fun H => H).
    - (* GCur: impossible *)
      intros [Hlt H]. destruct d; (split; [exact Hlt|]); intros o Ho; destruct (H o Ho) as (pb & _ & _ & _ & Hc & _); congruence.
    - intros [Hlt H]. split; [exact Hlt|]. intros o Ho. destruct (H o Ho) as (pb & _ & _ & _ & Hc & _).
      exfalso. unfold onlyppub in Hc. rewrite Ep in Hc. apply (proj2 (Hc pid) eq_refl).
    - intros [Hlt H]. split; [exact Hlt|]. intros o Ho. destruct (H o Ho) as (pb & A & B & C & D). exists pb.
      repeat match goal with H : _ /\ _ |- _ => destruct H end. splits; auto; intros Hc; congruence.
    - intros [Hlt H]. split; [exact Hlt|]. intros o Ho. destruct (H o Ho) as (pb & _ & _ & _ & Hc & _).
      exfalso. unfold onlyppub in Hc. rewrite Ep in Hc. apply (proj2 (Hc pid) eq_refl).
    - intros [Hlt H]. split; [exact Hlt|]. intros o Ho. destruct (H o Ho) as (pb & A & B & C & D). exists pb.
      repeat match goal with H : _ /\ _ |- _ => destruct H end. splits; auto; intros Hc; congruence.
    - intros [Hlt H]. split; [exact Hlt|]. intros o Ho. destruct (H o Ho) as (pb & _ & _ & _ & Hc & _). congruence.
  Qed.

  Lemma J_set_st (s : state) g x : s_cur s = None -> x <> Connected -> J s g -> J (s <| s_st := x |>) g.
  Proof.
    intros Ec Hx. unfold DeliveryWireDefs.J, DeliveryWireDefs.JP, DeliveryWireDefs.PJ, noppub, onlyppub, dead_cur, parked, getop.
    cbn [s_ops s_cur s_ppub s_rq s_st s_next_id set]. rewrite Ec.
    destruct (g_ph g); try exact (fun H => H).
    all: intros [Hlt H]; (split; [exact Hlt|]); intros o Ho; destruct (H o Ho) as (pb & A & B & C & D); exists pb; splits; auto;
      repeat match goal with H : _ /\ _ |- _ => destruct H end; splits; auto; try discriminate; try congruence.
    all: match goal with H : _ \/ _ |- _ => destruct H as [H|[H _]]; [left; exact H|discriminate] end.
  Qed.

  Theorem net_opened_J (dec_init : dec) (s : state) g dl :
    WF cfg s -> s_st s = Disconnected -> J s g ->
    J (r_s (net_opened dec_init cfg s dl)) (mkG false (g_sub g) (closed_ph (g_ph g))).
  Proof.
    intros [HW HP] Est HJ. unfold WFP in HP. rewrite Est in HP. destruct HP as (A1 & _ & _ & _ & _ & A6).
    assert (J1 : J s (mkG false (g_sub g) (closed_ph (g_ph g)))) by (apply J_closed; auto; congruence).
    unfold net_opened. rewrite Est. cbn [pstate_eqb negb]. unfold create_operation. cbn [pure r_s].
    set (g1 := mkG false (g_sub g) (closed_ph (g_ph g))) in *.
    pose proof (J_set_st s g1 PendingConnack A6 ltac:(discriminate) J1) as J2.
    eapply quiet_J; [|exact J2].
    match goal with |- context [new_op ?p false None] => eapply (quiet_new i (s <| s_st := PendingConnack |>) _ (new_op p false None)) end;
      try reflexivity; cbn; auto.
    intros _. unfold create_connect. destruct (con_client_id _); [reflexivity|]. cbn [s_settings set]. destruct (s_settings s); reflexivity.
  Qed.

  (* ---- connection closed ---- *)
  Lemma cur_requeued_self (s : state) o pb :
    WFS s -> s_cur s = Some i -> getop s i = Some o -> op_packet o = Publish pb -> pub_dup pb = true ->
    op_pid o = Some (pub_pid pb) -> noppub i s -> cur_requeued enc dec ores ires s = [i].
  Proof.
    intros HW Hc Ho Hp Hd Hpid Hn. unfold cur_requeued, DeliveryBase.gop. unfold getop in Ho. rewrite Hc, Ho, Hp, Hd.
    destruct (lookup (pub_pid pb) (s_ppub s)) as [j|] eqn:El; [|reflexivity]. exfalso.
    apply lookup_In in El. assert (i = j) by (eapply (wfs_pc s HW); eassumption). subst j. exact (Hn _ El).
  Qed.

  Theorem net_closed_J (s : state) g :
    WFS s -> s_st s <> Disconnected -> s_next_id s <= s_next_id (r_s (net_closed cfg s)) -> J s g ->
    J (r_s (net_closed cfg s)) (mkG false (g_sub g) (closed_ph (g_ph g))).
  Proof.
    intros HW Hst Hnid HJ. destruct (net_closed_spec cfg s HW Hst) as (Eo & HW' & Hst' & (_ & _ & _ & _ & _ & Ecur) & _).
    assert (Hnp : is_panic (r_out (net_closed cfg s)) = false) by (rewrite Eo; reflexivity).
    destruct (close_requeues enc dec ores ires cfg s Hst Hnp) as (f & Rq & Pp & Ops & Keep). cbv zeta in *.
    set (l := map snd (filter f (s_ppub s))) in *. set (s' := r_s (net_closed cfg s)) in *.
    specialize (Keep (wfs_pc s HW)).
    assert (Hl : forall x, In x l -> exists p, In (p, x) (s_ppub s)).
    { intros x Hx. unfold l in Hx. apply in_map_iff in Hx. destruct Hx as ([p y] & E & Hin). cbn in E. subst y.
      apply filter_In in Hin. exists p. tauto. }
    unfold DeliveryWireDefs.J in *. destruct (g_ph g) as [| |pid d|pid|pid|pid|pid|pid| |] eqn:Eph; cbn [closed_ph g_ph].
    { (* not a QoS 1/2 publish *)
      intros o' Ho'. destruct (Ops _ _ Ho') as (o & Ho & _ & Hp). rewrite Hp. destruct (mem i l); rewrite ?pubq_with_dup; eapply HJ; exact Ho. }
    9:{ (* handed to the encoder, but no QoS 1/2 publish *)
      destruct HJ as [Hlt HJ]. split; [lia|]. intros o' Ho'. destruct (Ops _ _ Ho') as (o & Ho & _ & Hp). rewrite Hp.
      destruct (mem i l); rewrite ?pubq_with_dup; eapply HJ; exact Ho. }
    all: destruct HJ as [Hlt HJ]; unfold DeliveryWireDefs.JP in *; cbn [g_sub g_ph g_sp].
    all: assert (Hop : forall o', getop s' i = Some o' ->
           exists o pb pb', getop s i = Some o /\ op_packet o = Publish pb /\ pub_qos pb <> 0 /\ norm (Publish pb) = g_sub g /\
             PJ s g o pb /\ op_packet o' = Publish pb' /\ op_pubrel o' = op_pubrel o /\ op_pid o' = op_pid o /\
             pub_pid pb' = pub_pid pb /\ pub_qos pb' = pub_qos pb /\ norm (Publish pb') = g_sub g /\
             pub_dup pb' = (if mem i l then true else pub_dup pb))
      by (intros o' Ho'; destruct (Ops _ _ Ho') as (o & Ho & (M1 & M2 & _) & Hp);
          destruct (HJ _ Ho) as (pb & Epb & Hq & Hn & HP); rewrite Epb in Hp;
          destruct (with_dup_dup true pb) as (pbd & Ed & D1 & D2 & D3 & _);
          destruct (mem i l) eqn:Em;
          [exists o, pb, pbd; rewrite Ed in Hp; splits; auto; rewrite <- Ed, norm_with_dup; exact Hn
          |exists o, pb, pb; splits; auto]).
    all: assert (Hnl : noppub i s -> mem i l = false)
      by (intros Hn; apply mem_false_iff; intros Hx; destruct (Hl _ Hx) as (p0 & Hin); exact (Hn _ Hin)).
    all: assert (Hil : forall pid0 o', getop s' i = Some o' -> onlyppub i s pid0 -> In i l /\ mem i l = true)
      by (intros pid0 o' Ho' Hn; assert (Hx : In i l) by (eapply (Keep pid0 i); [apply Hn; reflexivity|unfold DeliveryBase.gop; unfold getop in Ho'; congruence]);
          split; [exact Hx|apply mem_In; exact Hx]).
    2: destruct d.
    all: split; [lia|]; intros o' Ho'; destruct (Hop o' Ho') as (o & pb & pb' & Ho & Epb & Hq & Hn & HP & Epb' & R1 & R2 & R3 & R4 & R5 & R6);
      exists pb'; (split; [exact Epb'|]); (split; [congruence|]); (split; [exact R5|]);
      unfold DeliveryWireDefs.PJ in *; rewrite Eph in HP; cbn [g_ph g_sp]; unfold bnd in *; fold s'; rewrite ?R1, ?R2, ?R3, ?R4.
    - (* GNot *)
      destruct HP as (P1 & P2 & P3 & P4 & P5). rewrite (Hnl P3) in R6. splits; auto; try congruence; try (intros p0; rewrite Pp; intros []); try (intros Hc; congruence); try lia.
    - (* GCur, DUP *)
      destruct HP as (P1 & P2 & P3 & P4 & P5 & P6 & P7). rewrite (Hnl P4) in R6. splits; auto; try congruence; try (intros p0; rewrite Pp; intros []); try (intros Hc; congruence); try lia.
      left. rewrite Rq, (cur_requeued_self s o pb HW P1 Ho Epb); [left; reflexivity|congruence|congruence|exact P4].
    - (* GCur, first transmission *)
      destruct HP as (P1 & P2 & P3 & P4 & P5 & P6 & P7). rewrite (Hnl P4) in R6. splits; auto; try congruence; try (intros p0; rewrite Pp; intros []); try (intros Hc; congruence); try lia.
      intros p0 Hp0. assert (p0 = pid) by congruence. subst p0. split; [congruence|exact P7].
    - (* GPend *)
      destruct HP as (P1 & P2 & P3 & P4 & P5). destruct (Hil _ o' Ho' P1) as [I1 I2]. rewrite I2 in R6. splits; auto; try congruence; try (intros p0; rewrite Pp; intros []); try (intros Hc; congruence); try lia.
      left. rewrite Rq. apply in_or_app. right. apply in_or_app. right. exact I1.
    - (* GInt *)
      destruct HP as (P1 & P2 & P3 & (P4 & P5 & P6) & P7 & P8 & P9). rewrite (Hnl P3) in R6. splits; auto; try congruence; try (intros p0; rewrite Pp; intros []); try (intros Hc; congruence); try lia.
      left. rewrite Rq. destruct P7 as [P7|[P7 _]].
      + apply in_or_app. right. apply in_or_app. left. exact P7.
      + rewrite (cur_requeued_self s o pb HW P7 Ho Epb); [left; reflexivity|congruence|congruence|exact P3].
    - (* GRel *)
      destruct HP as (P1 & P2 & (P3 & P4 & P5) & P6). destruct (Hil _ o' Ho' P1) as [I1 I2]. rewrite I2 in R6. splits; auto; try congruence; try (intros p0; rewrite Pp; intros []); try (intros Hc; congruence); try lia.
      left. rewrite Rq. apply in_or_app. right. apply in_or_app. right. exact I1.
    - (* GRelInt *)
      destruct HP as (P1 & P2 & P3 & (P4 & P5 & P6) & P7 & P8 & P9 & P10). rewrite (Hnl P3) in R6. splits; auto; try congruence; try (intros p0; rewrite Pp; intros []); try (intros Hc; congruence); try lia.
      left. rewrite Rq. destruct P7 as [P7|[P7 _]].
      + apply in_or_app. right. apply in_or_app. left. exact P7.
      + rewrite (cur_requeued_self s o pb HW P7 Ho Epb); [left; reflexivity|congruence|congruence|exact P3].
    - (* GRelCur *)
      destruct HP as (P1 & P2 & P3 & P4 & (P5 & P6 & P7) & P8). rewrite (Hnl P4) in R6. splits; auto; try congruence; try (intros p0; rewrite Pp; intros []); try (intros Hc; congruence); try lia.
      left. rewrite Rq, (cur_requeued_self s o pb HW P1 Ho Epb); [left; reflexivity|congruence|congruence|exact P4].
    - (* GGone *) destruct HP.
  Qed.

  (* ---- reset: every operation is gone ---- *)
  Theorem reset_J (s : state) g :
    WFS s -> s_next_id s <= s_next_id (r_s (reset cfg s)) -> J s g ->
    J (r_s (reset cfg s)) (mkG false (g_sub g) (closed_ph (g_ph g))).
  Proof.
    intros HW Hn HJ. destruct (reset_spec cfg s HW) as (_ & _ & _ & Eops & _).
    apply J_gone; [|unfold getop; rewrite Eops; reflexivity].
    cbn [g_ph]. unfold DeliveryWireDefs.J in HJ. destruct (g_ph g) as [| |pid d|pid|pid|pid|pid|pid| |]; cbn [closed_ph]; try congruence.
    all: intros _; destruct HJ as [Hlt _]; lia.
  Qed.

  (* ---- a state change that only halts the engine ---- *)
  Lemma halted_J (s : state) g : J s g -> J (s <| s_st := Halted |>) g.
  Proof. apply quiet_J. apply quiet_fields; try reflexivity. unfold alive. cbn. intros [H|H]; discriminate. Qed.

  Lemma halt_J (s : state) g out : J s g -> J (halt_on_error s out) g.
  Proof. apply quiet_J, halt_quiet. Qed.
End Events.


