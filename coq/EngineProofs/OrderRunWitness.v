(* Non-vacuity witnesses for the run-level C10 theorems (OrderRunMain.v, OrderRunSeq.v) on the
   instantiated engine (Engine/Instance.v), by computation:
   - a reachable Connected state whose service call seats two user publishes in submission order;
   - after a reconnect with a resumed session, the publish that was in flight (resubmit queue) is seated
     before the publish submitted while offline (user queue);
   - a Connected segment with three service calls (small write buffer) interleaved with submissions:
     the seats of the whole segment are the retransmission, then the user operations in submission order. *)
From GM Require Import Base.Prelude Base.Outcome Codec.Packets Codec.Settings Codec.Steps Codec.ImplEncode
  Codec.Framing Alias.Outbound Alias.Inbound Validate.Rules Engine.Model Engine.Instance
  EngineProofs.AssocLemmas EngineProofs.WFDefs EngineProofs.HandshakeRunTrace EngineProofs.IdsWitness
  EngineProofs.OrderRunSeq EngineProofs.OrderRunStrict.
Open Scope N_scope.

Definition i_service (cfg : config) : istate -> N -> N -> N -> sres enc decoder ores ires :=
  service enc impl_steps encode_call enc_done decoder ores ores_reset ores_resolve ires validate_outbound_internal cfg.
Definition i_service_seats (cfg : config) : istate -> N -> N -> N -> list seat_ev :=
  service_seats enc impl_steps encode_call enc_done decoder ores ores_reset ores_resolve ires validate_outbound_internal cfg.
Definition i_run_seats (cfg : config) : istate -> list event -> list seat_ev :=
  run_seats enc impl_steps encode_call enc_done decoder decoder_init decode_bytes ores ores_reset ores_resolve ires ires_reset ires_resolve
    validate_outbound_internal validate_inbound_internal cfg.
Definition i_stays_connected (cfg : config) : istate -> list event -> Prop :=
  stays_connected enc impl_steps encode_call enc_done decoder decoder_init decode_bytes ores ores_reset ores_resolve ires ires_reset ires_resolve
    validate_outbound_internal validate_inbound_internal cfg.

Definition ow_cfg : config := x_cfg 0.     (* MQTT 5, offline policy PreserveAll *)

Lemma ow_cfg_ok : ok_cfg ow_cfg.
Proof. unfold ok_cfg, TMAX. cbn. lia. Qed.

(* connect, CONNACK, two QoS 1 publishes submitted *)
Definition ow_hist1 : list event :=
  x_connect_events x_connack_bytes ++ [EvUser 1 (x_pub 1) (Some 5000); EvUser 2 (x_pub 1) (Some 5000)].
Definition ow_s1 : istate := x_state ow_cfg ow_hist1.

Lemma ow_hist1_ok : Forall ok_event ow_hist1.
Proof. unfold ow_hist1, x_connect_events. cbn [app]. repeat constructor; cbn; unfold TMAX; lia. Qed.

Example ow_two_publishes :
  Forall ok_event ow_hist1 /\ ok_cfg ow_cfg /\ s_st ow_s1 = Connected /\ s_rq ow_s1 = [] /\ s_uq ow_s1 = [2; 3] /\
  i_service_seats ow_cfg ow_s1 3 4096 0 = [(QU, 2); (QU, 3)] /\
  s_uq (sr_s (i_service ow_cfg ow_s1 3 4096 0)) = [] /\ sr_out (i_service ow_cfg ow_s1 3 4096 0) = Ok tt.
Proof.
  split; [exact ow_hist1_ok|]. split; [exact ow_cfg_ok|]. vm_compute. repeat split; reflexivity.
Qed.

(* a QoS 1 publish is written, the connection closes, another publish is submitted offline, the client
   reconnects and the server resumes the session *)
Definition ow_connack_sp_bytes : bytes := [32; 3; 1; 0; 0].       (* CONNACK, session present, Success *)
Definition ow_hist2 : list event :=
  x_connect_events x_connack_bytes ++
  [EvUser 1 (x_pub 1) (Some 5000); EvService 1 4096 0; EvWriteComplete 1; EvClose 2;
   EvUser 3 (x_pub 1) (Some 5000); EvOpen 4 1000; EvService 4 4096 0; EvWriteComplete 4; EvData 5 ow_connack_sp_bytes].
Definition ow_s2 : istate := x_state ow_cfg ow_hist2.

Lemma ow_hist2_ok : Forall ok_event ow_hist2.
Proof. unfold ow_hist2, x_connect_events. cbn [app]. repeat constructor; cbn; unfold TMAX; lia. Qed.

Example ow_reconnect :
  Forall ok_event ow_hist2 /\ s_st ow_s2 = Connected /\ s_rq ow_s2 = [2] /\ s_uq ow_s2 = [3] /\
  map o_res (x_outs ow_cfg ow_hist2) = repeat (Ok tt) 13 /\
  i_service_seats ow_cfg ow_s2 6 4096 0 = [(QR, 2); (QU, 3)].
Proof.
  split; [exact ow_hist2_ok|]. vm_compute. repeat split; reflexivity.
Qed.

(* from that state: submissions interleaved with three service calls, the first two with an 8-byte buffer *)
Definition ow_seg : list event :=
  [EvUser 6 (x_pub 1) (Some 5000); EvService 6 8 0; EvWriteComplete 6; EvUser 7 (x_pub 0) None;
   EvService 7 8 0; EvWriteComplete 7; EvService 8 4096 0].

Lemma ow_seg_ok : Forall ok_event ow_seg.
Proof. unfold ow_seg. repeat constructor; cbn; unfold TMAX; lia. Qed.

Example ow_segment :
  Forall ok_event ow_seg /\ i_stays_connected ow_cfg ow_s2 ow_seg /\
  i_run_seats ow_cfg ow_s2 ow_seg = [(QR, 2); (QU, 3); (QU, 5); (QU, 6)] /\
  map (fun o => length (o_bytes o)) (snd (i_run ow_cfg ow_s2 ow_seg)) = [0; 5; 0; 0; 5; 0; 20]%nat.
Proof.
  split; [exact ow_seg_ok|]. vm_compute. repeat split; reflexivity.
Qed.

(* the first-connection history closes no connection: the premises of the strict (partial) theorem hold *)
Example ow_first_connection :
  Forall ok_event ow_hist1 /\ Forall no_close ow_hist1 /\ s_st ow_s1 = Connected /\ s_uq ow_s1 = [2; 3].
Proof.
  split; [exact ow_hist1_ok|]. split; [unfold ow_hist1, x_connect_events; cbn [app]; repeat constructor|].
  vm_compute. split; reflexivity.
Qed.
