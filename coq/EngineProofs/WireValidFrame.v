(* C02 at run level: the invariant GI "every operation holds a good packet" (WireValidDefs.v) and its preservation by the
   engine functions of the submission / open / write-completion / service paths.
   [GI s]: every operation of the table is good (gop), the packet-id cursor is at most 65535, the negotiated settings
   hold a valid client id and a Topic Alias Maximum within the bound of the protocol version, and the decoder / outbound
   resolver states satisfy the component invariants of [wv_comps] (discharged for the concrete components in
   WireValidComps.v).  [FR s s'] = GI s -> GI s'; proved function by function, on the skeleton of WireRunPubrel.v. *)
From GM Require Import Base.Prelude Base.Outcome Codec.Packets Codec.Prim Codec.Settings Codec.ValidC2S.
From GM Require Import ValidateProofs.BridgeDefs ValidateProofs.BridgeConnect.
From GM Require Import Engine.Model EngineProofs.AssocLemmas EngineProofs.WFLemmas EngineProofs.Frames EngineProofs.HandshakeRunTrace
  EngineProofs.HandshakeRunFrame EngineProofs.WireValidDefs.
From RecordUpdate Require Import RecordSet.
Import RecordSetNotations.
Open Scope N_scope.

(* the four component types are implicit in the engine functions, locally to this file *)
#[local] Arguments init {enc dec} _ {ores ires} _ _.
#[local] Arguments release {enc dec ores ires} _ _ _ _.
#[local] Arguments disconnect_completion {enc dec ores ires} _ _.
#[local] Arguments fail_op {enc dec ores ires} _ _ _ _.
#[local] Arguments ping_extension {enc dec ores ires} _ _.
#[local] Arguments succeed_op {enc dec ores ires} _ _ _ _.
#[local] Arguments fail_all {enc dec ores ires} _ _ _ _.
#[local] Arguments succeed_all {enc dec ores ires} _ _ _.
#[local] Arguments andthen {enc dec ores ires} _ _.
#[local] Arguments try_ {enc dec ores ires} _ _.
#[local] Arguments pure {enc dec ores ires} _.
#[local] Arguments create_operation {enc dec ores ires} _ _.
#[local] Arguments passes_now {enc dec ores ires} _ _ _.
#[local] Arguments user_event {enc dec ores ires} _ _ _ _.
#[local] Arguments create_connect {enc dec ores ires} _ _.
#[local] Arguments net_opened {enc dec} _ {ores ires} _ _ _.
#[local] Arguments op_exists {enc dec ores ires} _ _.
#[local] Arguments op_passes {enc dec ores ires} _ _ _.
#[local] Arguments partition_policy {enc dec ores ires} _ _ _.
#[local] Arguments closed_current {enc dec ores ires} _ _.
#[local] Arguments slow_start_init {enc dec ores ires} _ _.
#[local] Arguments update_retries {enc dec ores ires} _ _.
#[local] Arguments fail_exceeding {enc dec ores ires} _ _.
#[local] Arguments has_pubrel {enc dec ores ires} _ _.
#[local] Arguments net_closed_raw {enc dec ores ires} _ _.
#[local] Arguments net_closed {enc dec ores ires} _ _.
#[local] Arguments net_write_completion {enc dec ores ires} _ _.
#[local] Arguments acquire_free_pid {enc dec ores ires} _ _.
#[local] Arguments acquire_pid_for {enc dec ores ires} _ _.
#[local] Arguments unbind {enc dec ores ires} _ _.
#[local] Arguments passes_receive_max {enc dec ores ires} _ _.
#[local] Arguments throttled {enc dec ores ires} _ _.
#[local] Arguments has_pending_ack {enc dec ores ires} _.
#[local] Arguments dequeue {enc dec ores ires} _ _ _.
#[local] Arguments fully_written {enc dec ores ires} _ _.
#[local] Arguments service_keep_alive {enc dec ores ires} _ _ _.
#[local] Arguments process_ack_timeouts {enc dec ores ires} _ _ _.
#[local] Arguments halt_on_error {enc dec ores ires} _ _.
#[local] Arguments next_service_time {enc dec ores ires} _ _ _.
#[local] Arguments build_settings {enc dec ores ires} _ _ _.
#[local] Arguments apply_session {enc dec ores ires} _ _ _.
#[local] Arguments hres_of {enc dec ores ires} _ _.
#[local] Arguments pre_connack {enc dec ores ires} _.
#[local] Arguments sum_ss {enc dec ores ires} _.
#[local] Arguments handle_pingresp {enc dec ores ires} _.
#[local] Arguments handle_suback {enc dec ores ires} _ _ _.
#[local] Arguments handle_unsuback {enc dec ores ires} _ _ _.
#[local] Arguments publish_qos_of {enc dec ores ires} _ _.
#[local] Arguments handle_puback {enc dec ores ires} _ _ _.
#[local] Arguments handle_pubrec {enc dec ores ires} _ _ _.
#[local] Arguments handle_pubrel {enc dec ores ires} _ _.
#[local] Arguments handle_pubcomp {enc dec ores ires} _ _ _.
#[local] Arguments handle_publish {enc dec ores ires} _ _.
#[local] Arguments handle_disconnect {enc dec ores ires} _ _ _.
#[local] Arguments is_connect_op {enc dec ores ires} _ _.
#[local] Arguments connect_in_queue {enc dec ores ires} _.
#[local] Arguments reset {enc dec ores ires} _ _.
#[local] Arguments out_of_res {enc dec ores ires} _ _.
#[local] Arguments nst_queue {enc dec ores ires} _ _ _ _.
#[local] Arguments earliest_tmo {enc dec ores ires} _.
#[local] Arguments SeatStop {enc dec ores ires} _.
#[local] Arguments SeatContinue {enc dec ores ires} _ _.
#[local] Arguments SeatEncode {enc dec ores ires} _.

(* ---- what the run-level theorem asks of the components ---- *)
(* inbound packets as a decoder fed with octets produces them: 16-bit fields are below 65536, a CONNACK's Topic Alias
   Maximum is within the bound of the protocol version, an assigned client identifier is a valid string *)
Definition in_ok (v : version) (p : packet) : Prop :=
  match p with
  | Publish pb => pub_pid pb <= 65535
  | Pubrec a | Pubrel a => ack_pid a <= 65535
  | Connack c => match ca_tam c with Some m => m <= Bv v | None => True end /\ opt_ok str_valid (ca_assigned_id c) = true
  | _ => True
  end.
(* what the inbound validator guarantees: non-zero packet identifiers *)
Definition in_nz (p : packet) : Prop :=
  match p with
  | Publish pb => (pub_qos pb =? 0) = false -> pub_pid pb <> 0
  | Pubrec a | Pubrel a => ack_pid a <> 0
  | _ => True
  end.

(* the client id a CONNECT can carry: the configured one, or (none configured) one the server assigned earlier *)
Definition cid_for (co : connect_opts) (cid : option bytes) : Prop :=
  match co_client_id co with Some i => cid = Some i | None => opt_ok str_valid cid = true end.
Definition connect_cfg_ok (v : version) (co : connect_opts) : Prop :=
  forall cb cid, cid_for co cid -> valid_connect v (connect_of co cb cid) = true.

Record wv_comps (dec ores : Type) (dec_init : dec) (dec_feed : version -> N -> dec -> bytes -> dec * list packet * outcome unit)
  (ores_reset : ores -> N -> ores) (ores_resolve : ores -> option N -> bytes -> outcome (ores * resolution))
  (v_in : option settings -> packet -> outcome unit) (v : version) (co : connect_opts) : Type := mkWvComps {
  ores_good : ores -> Prop;
  dec_good : dec -> Prop;
  wv_res : forall o a t o' r, ores_good o -> ores_resolve o a t = Ok (o', r) -> ores_good o' /\ res_le (Bv v) r;
  wv_reset : forall o m, m <= Bv v -> ores_good (ores_reset o m);
  wv_dec_init : dec_good dec_init;
  wv_dec : forall m d b, dec_good d -> bytes_ok b = true ->
             dec_good (fst (fst (dec_feed v m d b))) /\ Forall (in_ok v) (snd (fst (dec_feed v m d b)));
  wv_vin : forall st p, v_in st p = Ok tt -> in_nz p;
  wv_co : connect_cfg_ok v co }.

Arguments ores_good {dec ores dec_init dec_feed ores_reset ores_resolve v_in v co} _.
Arguments dec_good {dec ores dec_init dec_feed ores_reset ores_resolve v_in v co} _.
Arguments wv_res {dec ores dec_init dec_feed ores_reset ores_resolve v_in v co} _.
Arguments wv_reset {dec ores dec_init dec_feed ores_reset ores_resolve v_in v co} _.
Arguments wv_dec_init {dec ores dec_init dec_feed ores_reset ores_resolve v_in v co} _.
Arguments wv_dec {dec ores dec_init dec_feed ores_reset ores_resolve v_in v co} _.
Arguments wv_vin {dec ores dec_init dec_feed ores_reset ores_resolve v_in v co} _.
Arguments wv_co {dec ores dec_init dec_feed ores_reset ores_resolve v_in v co} _.

Lemma first_gap_range keys : forall lo hi c, first_gap keys lo hi = Some c -> lo <= c <= hi.
Proof.
  induction keys as [|k r IH]; intros lo hi c H; cbn [first_gap] in H.
  - destruct (lo <=? hi) eqn:E; [|discriminate]. inversion H; subst. lia.
  - destruct (hi <? lo) eqn:E1; [discriminate|]. destruct (k <? lo); [exact (IH _ _ _ H)|].
    destruct (k =? lo); [specialize (IH _ _ _ H); lia|]. inversion H; subst. lia.
Qed.

Section WVFrame.
  Variable enc : Type.
  Variable enc_reset : version -> packet -> resolution -> outcome enc.
  Variable enc_call : enc -> N -> N -> outcome (bytes * enc).
  Variable enc_done : enc -> bool.
  Variable dec : Type.
  Variable dec_init : dec.
  Variable dec_feed : version -> N -> dec -> bytes -> dec * list packet * outcome unit.
  Variable ores : Type.
  Variable ores_reset : ores -> N -> ores.
  Variable ores_resolve : ores -> option N -> bytes -> outcome (ores * resolution).
  Variable ires : Type.
  Variable ires_reset : ires -> ires.
  Variable ires_resolve : ires -> option N -> bytes -> outcome (ires * bytes).
  Variable v_out : option settings -> connect_opts -> resolution -> packet -> outcome unit.
  Variable v_in : option settings -> packet -> outcome unit.
  Variable cfg : config.

  Notation state := (state enc dec ores ires).
  Notation res := (res enc dec ores ires).
  Notation step := (step enc enc_reset enc_call enc_done dec dec_init dec_feed ores ores_reset ores_resolve
                         ires ires_reset ires_resolve v_out v_in cfg).
  Notation run := (run enc enc_reset enc_call enc_done dec dec_init dec_feed ores ores_reset ores_resolve
                       ires ires_reset ires_resolve v_out v_in cfg).
  Notation seat_current := (seat_current enc enc_reset dec ores ores_reset ores_resolve ires v_out cfg).
  Notation service_loop := (service_loop enc enc_reset enc_call enc_done dec ores ores_reset ores_resolve ires v_out cfg).
  Notation service_queue := (service_queue enc enc_reset enc_call enc_done dec ores ores_reset ores_resolve ires v_out cfg).
  Notation service := (service enc enc_reset enc_call enc_done dec ores ores_reset ores_resolve ires v_out cfg).
  Notation handle_connack := (handle_connack enc dec ores ores_reset ires ires_reset v_in cfg).
  Notation handle_packet := (handle_packet enc dec ores ores_reset ires ires_reset v_in cfg).
  Notation handle_packets := (handle_packets enc dec ores ores_reset ires ires_reset ires_resolve v_in cfg).
  Notation net_data := (net_data enc dec dec_feed ores ores_reset ires ires_reset ires_resolve v_in cfg).
  Notation encode_next := (encode_next enc enc_call enc_done dec ores ires).
  Notation SUB := (SUB enc dec ores ires).
  Notation same_static := (same_static enc dec ores ires).
  Notation v := (cf_version cfg).
  Variable HW : wv_comps dec ores dec_init dec_feed ores_reset ores_resolve v_in v (cf_connect cfg).

  (* ---- the invariant ---- *)
  Definition SI (s : state) : Prop :=
    forall st, s_settings s = Some st -> str_valid (st_client_id st) = true /\ st_topic_alias_maximum_to_server st <= Bv v.
  Definition GI (s : state) : Prop :=
    OGt v (s_ops s) /\ s_next_pid s <= 65535 /\ SI s /\ dec_good HW (s_dec s) /\ ores_good HW (s_ores s).
  Definition rest_of (s : state) := (s_next_pid s, s_settings s, s_dec s, s_ores s).
  Definition FR (s s' : state) : Prop := GI s -> GI s'.

  Lemma FR_refl s : FR s s.
  Proof. exact (fun H => H). Qed.
  Lemma FR_trans s1 s2 s3 : FR s1 s2 -> FR s2 s3 -> FR s1 s3.
  Proof. intros A B0 H. exact (B0 (A H)). Qed.

  Lemma FR_ops (s s' : state) : (GI s -> OGt v (s_ops s')) -> rest_of s' = rest_of s -> FR s s'.
  Proof.
    intros Ho Hr G. pose proof (Ho G) as Ho'. destruct G as (_ & G2 & G3 & G4 & G5).
    unfold rest_of in Hr. repeat (apply pair_equal_spec in Hr; destruct Hr as [Hr ?]).
    unfold GI, SI. repeat match goal with E : _ s' = _ s |- _ => rewrite E; clear E end. auto.
  Qed.

  Lemma FR_same (s s' : state) : s_ops s' = s_ops s -> rest_of s' = rest_of s -> FR s s'.
  Proof. intros Eo Hr. apply FR_ops; [|exact Hr]. intros G. rewrite Eo. apply G. Qed.

  Lemma static_rest (s s' : state) : same_static s s' -> rest_of s' = rest_of s.
  Proof. unfold Frames.same_static, rest_of. intros (_ & -> & _ & -> & -> & -> & _). reflexivity. Qed.

  Lemma FR_sub (s s' : state) : SUB s s' -> same_static s s' -> FR s s'.
  Proof. intros Hs Hst. apply FR_ops; [|apply static_rest; exact Hst]. intros G. eapply OGt_sub; [exact Hs|apply G]. Qed.

  Lemma FR_update (s s' : state) k f :
    s_ops s' = update k f (s_ops s) -> (forall o, lookup k (s_ops s) = Some o -> goodop v o -> goodop v (f o)) -> rest_of s' = rest_of s -> FR s s'.
  Proof. intros Eo Hf Hr. apply FR_ops; [|exact Hr]. intros G. rewrite Eo. apply OGt_update; [exact Hf|apply G]. Qed.

  Lemma FR_fold_update (s s' : state) ids f :
    s_ops s' = fold_left (fun ops id => update id f ops) ids (s_ops s) -> (forall o, goodop v o -> goodop v (f o)) -> rest_of s' = rest_of s -> FR s s'.
  Proof. intros Eo Hf Hr. apply FR_ops; [|exact Hr]. intros G. rewrite Eo. apply OGt_fold_update; [exact Hf|apply G]. Qed.

  Lemma FR_new (s s' : state) k o :
    s_ops s' = s_ops s ++ [(k, o)] -> (GI s -> goodop v o) -> rest_of s' = rest_of s -> FR s s'.
  Proof. intros Eo Ho Hr. apply FR_ops; [|exact Hr]. intros G. rewrite Eo. apply OGt_new; [exact (Ho G)|apply G]. Qed.

  Lemma andthen_FR (s : state) (r : res) f : FR s (r_s r) -> (forall s1, FR s1 (r_s (f s1))) -> FR s (r_s (andthen r f)).
  Proof.
    intros H1 H2. unfold andthen. destruct (is_panic (r_out r)); [exact H1|].
    destruct (is_panic (r_out (f (r_s r)))); cbn [r_s]; eapply FR_trans; eauto.
  Qed.

  Ltac kf_id := first [apply FR_refl | apply FR_same; reflexivity].

  Lemma fail_op_FR (s : state) id e : FR s (r_s (fail_op cfg s id e)).
  Proof. apply FR_sub; [apply fail_op_sub|apply fail_op_static]. Qed.
  Lemma fail_all_FR ids (s : state) e : FR s (r_s (fail_all cfg s ids e)).
  Proof. apply FR_sub; [apply fail_all_sub|apply fail_all_static]. Qed.
  Lemma succeed_op_FR (s : state) id resp : FR s (r_s (succeed_op cfg s id resp)).
  Proof. apply FR_sub; [apply succeed_op_sub|apply succeed_op_static]. Qed.
  Lemma succeed_all_FR ids (s : state) : FR s (r_s (succeed_all cfg s ids)).
  Proof. apply FR_sub; [apply succeed_all_sub|apply succeed_all_static]. Qed.

  (* ---- user submissions: the submitted packet passed the submission-time validator ---- *)
  Lemma new_op_goodop p u t : gpk v p -> goodop v (new_op p u t).
  Proof. intros H. split; [exact H|apply gpr_none]. Qed.

  Lemma user_event_FR (s : state) p t : sub_good p -> FR s (r_s (user_event cfg s p t)).
  Proof.
    intros Hp. unfold user_event, create_operation.
    set (o := new_op p _ _).
    set (s1 := s <| s_next_id := s_next_id s + 1 |> <| s_ops := s_ops s ++ [(s_next_id s, o)] |>).
    assert (H1 : FR s s1).
    { apply (FR_new s s1 (s_next_id s) o); [reflexivity| |reflexivity]. intros _. apply new_op_goodop, gpk_submitted, Hp. }
    destruct (negb (passes_now cfg s1 p)).
    - cbn [r_s]. eapply FR_trans; [exact H1|apply fail_op_FR].
    - destruct (is_disconnect p); cbn [pure r_s]; (eapply FR_trans; [exact H1|kf_id]).
  Qed.

  (* ---- connection opened: the CONNECT of the configuration ---- *)
  Lemma create_connect_eq (s : state) :
    create_connect cfg s =
    Connect (connect_of (cf_connect cfg) (s_connected_before s)
               (match co_client_id (cf_connect cfg), s_settings s with None, Some st => Some (st_client_id st) | x, _ => x end)).
  Proof.
    unfold create_connect, connect_of, with_client_id, to_connect_packet.
    cbn [con_client_id con_keep_alive con_clean_start con_username con_password con_sei con_rri con_rpi con_receive_max con_tam
         con_max_packet con_auth_method con_auth_data con_will_delay con_will con_up].
    destruct (co_client_id (cf_connect cfg)); [reflexivity|]. destruct (s_settings s); reflexivity.
  Qed.

  Lemma create_connect_good (s : state) : SI s -> gpk v (create_connect cfg s).
  Proof.
    intros Hs. rewrite create_connect_eq. cbn [gpk]. apply (wv_co HW). unfold cid_for.
    destruct (co_client_id (cf_connect cfg)) as [i|]; [reflexivity|]. destruct (s_settings s) as [st|] eqn:E; [|reflexivity].
    cbn [opt_ok]. apply (Hs st E).
  Qed.

  Lemma net_opened_FR (s : state) dl : FR s (r_s (net_opened dec_init cfg s dl)).
  Proof.
    unfold net_opened. destruct (negb (pstate_eqb (s_st s) Disconnected)); cbn [r_s]; [kf_id|].
    unfold create_operation. cbn [pure r_s]. intros G.
    set (s1 := s <| s_st := PendingConnack |> <| s_cur := None |> <| s_pwc := false |> <| s_dec := dec_init |>).
    assert (G1 : GI s1).
    { destruct G as (G1 & G2 & G3 & G4 & G5). split; [exact G1|split; [exact G2|split; [exact G3|split; [apply (wv_dec_init HW)|exact G5]]]]. }
    revert G1. match goal with |- GI s1 -> GI ?sx => apply (FR_new s1 sx (s_next_id s1) (new_op (create_connect cfg s1) false None)) end;
      [reflexivity| |reflexivity].
    intros (_ & _ & G3 & _). apply new_op_goodop, create_connect_good, G3.
  Qed.

  Theorem net_write_completion_FR (s : state) : FR s (r_s (net_write_completion cfg s)).
  Proof.
    unfold net_write_completion. destruct (_ || _); [kf_id|]. destruct (negb (s_pwc s)); [kf_id|].
    eapply FR_trans; [|apply succeed_all_FR]. kf_id.
  Qed.

  (* ---- packet-id acquisition: the allocator hands out 1..65535 ---- *)
  Lemma acquire_pid_for_FR (s s' : state) id : acquire_pid_for s id = Ok s' -> FR s s'.
  Proof.
    unfold acquire_pid_for. destruct (lookup id (s_ops s)) as [o|] eqn:Eo; [|discriminate].
    destruct (op_pid o); [intros H; inversion H; apply FR_refl|].
    destruct (negb (needs_pid (op_packet o))); [intros H; inversion H; apply FR_refl|].
    unfold acquire_free_pid.
    destruct (match first_gap _ _ _ with Some c => Some c | None => _ end) as [c|] eqn:Ec; cbn; [|discriminate].
    destruct (with_pid c (op_packet o)) as [p'| |] eqn:Ew; cbn; [|discriminate|discriminate]. intros H; inversion H; subst. clear H.
    intros G. pose proof G as (G1 & G2 & G3 & G4 & G5).
    assert (Hc : c <= 65535).
    { destruct (first_gap (map fst (s_alloc s)) (s_next_pid s) 65535) as [c1|] eqn:E1.
      - inversion Ec; subst. apply first_gap_range in E1. lia.
      - apply first_gap_range in Ec. lia. }
    split; [|split; [|split; [exact G3|split; [exact G4|exact G5]]]].
    - cbn. apply OGt_update; [|exact G1]. intros o0 Ho0 [A1 A2]. rewrite Eo in Ho0. inversion Ho0; subst o0. split; [|exact A2].
      cbn. eapply with_pid_gpk; eassumption.
    - cbn. destruct (c =? 65535) eqn:E; lia.
  Qed.

  Lemma fully_written_FR (s s' : state) now : fully_written s now = Ok s' -> FR s s'.
  Proof.
    unfold fully_written. destruct (s_cur s) as [id|]; [|discriminate]. destruct (lookup id (s_ops s)) as [o|]; [|discriminate].
    assert (Hk : forall o0 : op, lookup id (s_ops s) = Some o0 -> goodop v o0 -> goodop v (o0 <| op_ext := Some now |>)) by (intros o0 _ H; exact H).
    destruct (if op_user o then op_timeout o else None) as [d|]; [destruct (IMAX <? now + d)|];
      destruct (op_packet o) as [| |pb| | | | | | | | | | | |]; cbn; try destruct (pub_qos pb =? 0); cbn;
      intros H; inversion H; (eapply FR_update; [reflexivity|exact Hk|reflexivity]).
  Qed.

  Lemma encode_next_FR now cap fill (s5 : state) acc dn :
    match encode_next now cap fill s5 acc dn with
    | inl r => FR s5 (sr_s r)
    | inr (s7, _) => FR s5 s7
    end.
  Proof.
    unfold HandshakeRunTrace.encode_next. destruct (s_cur s5) as [id|]; [|apply FR_refl].
    destruct (negb (op_exists s5 id)); [apply FR_refl|]. destruct (s_enc s5) as [e|]; [|apply FR_refl].
    destruct (enc_call e (fill + len acc) cap) as [[out e']|k|site]; [|apply FR_refl|apply FR_refl].
    cbv zeta. destruct (enc_done e'); [|kf_id].
    destruct (fully_written (s5 <| s_enc := Some e' |>) now) as [s7|k|site] eqn:Ef; [|kf_id|kf_id].
    apply fully_written_FR in Ef. eapply FR_trans; [|exact Ef]. kf_id.
  Qed.

  Lemma service_keep_alive_FR (s s' : state) now : service_keep_alive cfg s now = Ok s' -> FR s s'.
  Proof.
    unfold service_keep_alive. destruct (s_ping_to s) as [pt|]; [destruct (pt <=? now); [discriminate|intros H; inversion H; apply FR_refl]|].
    destruct (s_next_ping s) as [np|]; [|intros H; inversion H; apply FR_refl].
    destruct (np <=? now); [|intros H; inversion H; apply FR_refl].
    unfold create_operation. cbn. destruct (s_settings s) as [st|] eqn:Est; [|discriminate].
    unfold add_time. destruct (IMAX <? _); cbn; [discriminate|].
    destruct (0 <? st_server_keep_alive st); intros H; inversion H;
      (eapply (FR_new s _ (s_next_id s) (new_op Pingreq false None)); [reflexivity|intros _; apply new_op_goodop; exact I|reflexivity]).
  Qed.

  Lemma process_ack_timeouts_FR (s : state) now : FR s (r_s (process_ack_timeouts cfg s now)).
  Proof. unfold process_ack_timeouts. eapply FR_trans; [|apply fail_all_FR]. kf_id. Qed.

  Lemma halt_on_error_FR (s : state) r : FR s (halt_on_error s r).
  Proof. destruct r; kf_id. Qed.
End WVFrame.
