(* C02 / wire level: frame lemmas.  Nothing but seat_current (dequeue: current operation; encoder constructor)
   and the encode half of the service loop (encoder state; fully_written: current operation) touches the two
   fields the wire-stream theorems read, apart from open / close / reset, which end the connection. *)
From GM Require Import Base.Prelude Base.Outcome Codec.Packets Codec.Settings Engine.Model
  EngineProofs.AssocLemmas.
From RecordUpdate Require Import RecordSet.
Import RecordSetNotations.
Open Scope N_scope.
#[local] Set Default Proof Using "Type".

(* the four component types are implicit in the engine functions, locally to this file *)
#[local] Arguments init {enc dec} _ {ores ires} _ _.
#[local] Arguments release {enc dec ores ires} _ _ _ _.
#[local] Arguments disconnect_completion {enc dec ores ires} _ _.
#[local] Arguments fail_op {enc dec ores ires} _ _ _ _.
#[local] Arguments ping_extension {enc dec ores ires} _ _.
#[local] Arguments succeed_op {enc dec ores ires} _ _ _ _.
#[local] Arguments fail_all {enc dec ores ires} _ _ _ _.
#[local] Arguments succeed_all {enc dec ores ires} _ _ _.
#[local] Arguments andthen {enc dec ores ires} _ _.
#[local] Arguments try_ {enc dec ores ires} _ _.
#[local] Arguments pure {enc dec ores ires} _.
#[local] Arguments create_operation {enc dec ores ires} _ _.
#[local] Arguments passes_now {enc dec ores ires} _ _ _.
#[local] Arguments user_event {enc dec ores ires} _ _ _ _.
#[local] Arguments create_connect {enc dec ores ires} _ _.
#[local] Arguments net_opened {enc dec} _ {ores ires} _ _ _.
#[local] Arguments op_exists {enc dec ores ires} _ _.
#[local] Arguments op_passes {enc dec ores ires} _ _ _.
#[local] Arguments partition_policy {enc dec ores ires} _ _ _.
#[local] Arguments closed_current {enc dec ores ires} _ _.
#[local] Arguments slow_start_init {enc dec ores ires} _ _.
#[local] Arguments update_retries {enc dec ores ires} _ _.
#[local] Arguments fail_exceeding {enc dec ores ires} _ _.
#[local] Arguments has_pubrel {enc dec ores ires} _ _.
#[local] Arguments net_closed_raw {enc dec ores ires} _ _.
#[local] Arguments net_closed {enc dec ores ires} _ _.
#[local] Arguments net_write_completion {enc dec ores ires} _ _.
#[local] Arguments acquire_free_pid {enc dec ores ires} _ _.
#[local] Arguments acquire_pid_for {enc dec ores ires} _ _.
#[local] Arguments unbind {enc dec ores ires} _ _.
#[local] Arguments passes_receive_max {enc dec ores ires} _ _.
#[local] Arguments throttled {enc dec ores ires} _ _.
#[local] Arguments has_pending_ack {enc dec ores ires} _.
#[local] Arguments dequeue {enc dec ores ires} _ _ _.
#[local] Arguments fully_written {enc dec ores ires} _ _.
#[local] Arguments service_keep_alive {enc dec ores ires} _ _ _.
#[local] Arguments process_ack_timeouts {enc dec ores ires} _ _ _.
#[local] Arguments halt_on_error {enc dec ores ires} _ _.
#[local] Arguments next_service_time {enc dec ores ires} _ _ _.
#[local] Arguments build_settings {enc dec ores ires} _ _ _.
#[local] Arguments apply_session {enc dec ores ires} _ _ _.
#[local] Arguments hres_of {enc dec ores ires} _ _.
#[local] Arguments pre_connack {enc dec ores ires} _.
#[local] Arguments sum_ss {enc dec ores ires} _.
#[local] Arguments handle_pingresp {enc dec ores ires} _.
#[local] Arguments handle_suback {enc dec ores ires} _ _ _.
#[local] Arguments handle_unsuback {enc dec ores ires} _ _ _.
#[local] Arguments publish_qos_of {enc dec ores ires} _ _.
#[local] Arguments handle_puback {enc dec ores ires} _ _ _.
#[local] Arguments handle_pubrec {enc dec ores ires} _ _ _.
#[local] Arguments handle_pubrel {enc dec ores ires} _ _.
#[local] Arguments handle_pubcomp {enc dec ores ires} _ _ _.
#[local] Arguments handle_publish {enc dec ores ires} _ _.
#[local] Arguments handle_disconnect {enc dec ores ires} _ _ _.
#[local] Arguments is_connect_op {enc dec ores ires} _ _.
#[local] Arguments connect_in_queue {enc dec ores ires} _.
#[local] Arguments reset {enc dec ores ires} _ _.
#[local] Arguments out_of_res {enc dec ores ires} _ _.
#[local] Arguments nst_queue {enc dec ores ires} _ _ _ _.
#[local] Arguments earliest_tmo {enc dec ores ires} _.
#[local] Arguments SeatStop {enc dec ores ires} _.
#[local] Arguments SeatContinue {enc dec ores ires} _ _.




Section Frames.
  Context {enc dec ores ires : Type}.
  Variable cfg : config.
  Notation state := (state enc dec ores ires).
  Notation res := (res enc dec ores ires).

  (* the fields the wire-stream theorems read *)
  Definition wv_of (s : state) := (s_cur s, s_enc s).

  Lemma wv_fields (s s' : state) : wv_of s' = wv_of s -> s_cur s' = s_cur s /\ s_enc s' = s_enc s.
  Proof. unfold wv_of. intros H. inversion H. auto. Qed.

  Lemma release_wv (s s' : state) id o : release cfg s id o = Ok s' -> wv_of s' = wv_of s.
  Proof.
    unfold release. destruct (op_pid o);
      destruct (_ && _ && _); try destruct (_ <=? _); intros H; inversion H; subst; reflexivity.
  Qed.

  Lemma disconnect_completion_wv (s : state) o : wv_of (fst (disconnect_completion s o)) = wv_of s.
  Proof.
    unfold disconnect_completion. destruct (is_disconnect (op_packet o)); cbn; [|reflexivity].
    destruct (pstate_eqb (s_st s) PendingDisconnect); reflexivity.
  Qed.

  Lemma fail_op_wv (s : state) id e : wv_of (r_s (fail_op cfg s id e)) = wv_of s.
  Proof.
    unfold fail_op. destruct (lookup id (s_ops s)) as [o|]; [|reflexivity].
    destruct (release cfg s id o) as [s1|k|site] eqn:Er; cbn; try reflexivity.
    pose proof (release_wv _ _ _ _ Er) as H1.
    pose proof (disconnect_completion_wv s1 o) as H2.
    destruct (disconnect_completion s1 o) as [s2 r]. cbn in H2.
    destruct r; [destruct (op_user o)|..]; cbn; congruence.
  Qed.

  Lemma ping_extension_wv (s : state) o : wv_of (ping_extension s o) = wv_of s.
  Proof.
    unfold ping_extension.
    destruct (match op_packet o with Subscribe _ | Unsubscribe _ => op_ext o | Publish pb => _ | _ => None end); [|reflexivity].
    destruct (s_settings s) eqn:E; [|reflexivity]. destruct (s_next_ping s); [|reflexivity].
    destruct (_ <? _); reflexivity.
  Qed.

  Lemma succeed_op_wv (s : state) id resp : wv_of (r_s (succeed_op cfg s id resp)) = wv_of s.
  Proof.
    unfold succeed_op. destruct (lookup id (s_ops s)) as [o|]; [|reflexivity].
    destruct (release cfg s id o) as [s1|k|site] eqn:Er; cbn; try reflexivity.
    pose proof (release_wv _ _ _ _ Er) as H1.
    pose proof (ping_extension_wv s1 o) as H1'.
    pose proof (disconnect_completion_wv (ping_extension s1 o) o) as H2.
    destruct (disconnect_completion (ping_extension s1 o) o) as [s2 r]. cbn in H2.
    assert (wv_of s2 = wv_of s) by congruence.
    destruct r; [destruct (op_user o); [destruct (success_value o resp)|]|..]; cbn; assumption.
  Qed.

  Lemma fail_all_wv ids : forall (s : state) e, wv_of (r_s (fail_all cfg s ids e)) = wv_of s.
  Proof.
    induction ids as [|id rest IH]; intros s e; cbn [fail_all]; [reflexivity|].
    pose proof (fail_op_wv s id e) as H1.
    destruct (is_panic (r_out (fail_op cfg s id e))); [exact H1|].
    pose proof (IH (r_s (fail_op cfg s id e)) e) as H2.
    destruct (is_panic _); cbn; congruence.
  Qed.

  Lemma succeed_all_wv ids : forall (s : state), wv_of (r_s (succeed_all cfg s ids)) = wv_of s.
  Proof.
    induction ids as [|id rest IH]; intros s; cbn [succeed_all]; [reflexivity|].
    pose proof (succeed_op_wv s id None) as H1.
    destruct (is_panic (r_out (succeed_op cfg s id None))); [exact H1|].
    pose proof (IH (r_s (succeed_op cfg s id None))) as H2.
    destruct (is_panic _); cbn; congruence.
  Qed.

  Lemma user_event_wv (s : state) p t : wv_of (r_s (user_event cfg s p t)) = wv_of s.
  Proof.
    unfold user_event. cbn [create_operation].
    match goal with |- context [negb (passes_now cfg ?x p)] => destruct (negb (passes_now cfg x p)) end.
    - cbn [r_s]. rewrite fail_op_wv. reflexivity.
    - destruct (is_disconnect p); reflexivity.
  Qed.

  Lemma net_write_completion_wv (s : state) : wv_of (r_s (net_write_completion cfg s)) = wv_of s.
  Proof.
    unfold net_write_completion. destruct (_ || _); [reflexivity|]. destruct (negb (s_pwc s)); [reflexivity|].
    rewrite succeed_all_wv. reflexivity.
  Qed.

  Lemma dequeue_wv (s : state) m : wv_of (fst (dequeue cfg s m)) = wv_of s.
  Proof.
    unfold dequeue. destruct (s_pwc s); [reflexivity|]. destruct (s_hq s); [|reflexivity].
    destruct (negb m); [reflexivity|]. destruct (throttled cfg s && has_pending_ack s); [reflexivity|].
    destruct (s_rq s) as [|a r]; [destruct (s_uq s) as [|a r]; [reflexivity|]|]; destruct (passes_receive_max s a); reflexivity.
  Qed.

  Lemma acquire_pid_for_wv (s s' : state) id : acquire_pid_for s id = Ok s' -> wv_of s' = wv_of s.
  Proof.
    unfold acquire_pid_for. destruct (lookup id (s_ops s)) as [o|]; [|discriminate].
    destruct (op_pid o); [intros H; inversion H; reflexivity|].
    destruct (negb (needs_pid (op_packet o))); [intros H; inversion H; reflexivity|].
    unfold acquire_free_pid. destruct (match first_gap _ _ _ with Some c => Some c | None => _ end) as [c|]; cbn; [|discriminate].
    destruct (with_pid c (op_packet o)); cbn; [|discriminate|discriminate]. intros H; inversion H; reflexivity.
  Qed.

  Lemma fully_written_wv (s s' : state) now : fully_written s now = Ok s' ->
    s_cur s' = None /\ s_enc s' = s_enc s.
  Proof.
    unfold fully_written. destruct (s_cur s) as [id|]; [|discriminate]. destruct (lookup id (s_ops s)) as [o|]; [|discriminate].
    destruct (if op_user o then op_timeout o else None) as [d|]; [destruct (IMAX <? now + d)|];
      destruct (op_packet o) as [| |pb| | | | | | | | | | | |]; cbn; try destruct (pub_qos pb =? 0); cbn;
      intros H; inversion H; repeat split; reflexivity.
  Qed.

  Lemma service_keep_alive_wv (s s' : state) now : service_keep_alive cfg s now = Ok s' -> wv_of s' = wv_of s.
  Proof.
    unfold service_keep_alive. destruct (s_ping_to s) as [pt|].
    { destruct (pt <=? now); [discriminate|]. intros H; inversion H; reflexivity. }
    destruct (s_next_ping s) as [np|]; [|intros H; inversion H; reflexivity].
    destruct (np <=? now); [|intros H; inversion H; reflexivity].
    cbn [create_operation]. cbn. destruct (s_settings s) as [st|] eqn:Es; [|discriminate].
    unfold add_time. destruct (IMAX <? _); cbn; [discriminate|].
    destruct (0 <? st_server_keep_alive st); intros H; inversion H; reflexivity.
  Qed.

  Lemma process_ack_timeouts_wv (s : state) now : wv_of (r_s (process_ack_timeouts cfg s now)) = wv_of s.
  Proof. unfold process_ack_timeouts. rewrite fail_all_wv. reflexivity. Qed.

  Lemma halt_on_error_wv (s : state) r : wv_of (halt_on_error s r) = wv_of s.
  Proof. destruct r; reflexivity. Qed.

  (* ---- session handling and the packet handlers ---- *)
  Lemma unbind_wv (s : state) id : wv_of (unbind s id) = wv_of s.
  Proof.
    unfold unbind. destruct (lookup id (s_ops s)) as [o|]; [|reflexivity].
    destruct (op_pid o); [|reflexivity]. destruct (with_pid 0 (op_packet o)); reflexivity.
  Qed.

  Lemma fold_unbind_wv l : forall (s : state), wv_of (fold_left unbind l s) = wv_of s.
  Proof. induction l as [|a l IH]; intros s; cbn; [reflexivity|]. rewrite IH. apply unbind_wv. Qed.

  Lemma apply_session_wv (s : state) sp : wv_of (r_s (apply_session cfg s sp)) = wv_of s.
  Proof.
    unfold apply_session.
    set (r1 := if sp then pure s else _).
    assert (H1 : wv_of (r_s r1) = wv_of s).
    { subst r1. destruct sp; [reflexivity|].
      destruct (partition_policy cfg s (s_rq s)) as [kept rejected].
      match goal with |- context [fail_all cfg ?x rejected ?e] => pose proof (fail_all_wv rejected x e) as Hf; set (rf := fail_all cfg x rejected e) in * end.
      destruct (is_panic (r_out rf)); [exact Hf|]. cbn [r_s]. unfold wv_of in *. cbn. exact Hf. }
    destruct (is_panic (r_out r1)); [exact H1|].
    set (s2 := fold_left unbind (s_uq (r_s r1)) (r_s r1)).
    assert (H2 : wv_of s2 = wv_of s) by (subst s2; rewrite fold_unbind_wv; exact H1).
    set (s3 := s2 <| s_rq := Model.sort (s_rq s2) |> <| s_uq := Model.sort (s_uq s2) |>).
    assert (H3 : wv_of s3 = wv_of s) by exact H2.
    destruct (s_hq s3); [|exact H3]. destruct (s_ppub s3); [|exact H3]. destruct (s_pnon s3); [|exact H3].
    destruct (s_tmo s3); [|exact H3]. destruct (s_pwco s3); exact H3.
  Qed.

  Lemma handle_pingresp_wv (s : state) : wv_of (h_s (handle_pingresp s)) = wv_of s.
  Proof. unfold handle_pingresp. destruct (s_st s); try reflexivity; destruct (s_ping_to s); reflexivity. Qed.

  Lemma handle_suback_wv (s : state) a : wv_of (h_s (handle_suback cfg s a)) = wv_of s.
  Proof.
    unfold handle_suback. destruct (pre_connack s); [reflexivity|]. destruct (lookup _ (s_pnon s)) as [id|]; [|reflexivity].
    destruct (lookup id (s_ops s)) as [o|]; [|reflexivity]. destruct (op_packet o); try reflexivity.
    destruct (negb _); [reflexivity|]. cbn. apply succeed_op_wv.
  Qed.

  Lemma handle_unsuback_wv (s : state) a : wv_of (h_s (handle_unsuback cfg s a)) = wv_of s.
  Proof.
    unfold handle_unsuback. destruct (pre_connack s); [reflexivity|]. destruct (lookup _ (s_pnon s)) as [id|]; [|reflexivity].
    destruct (lookup id (s_ops s)) as [o|]; [|reflexivity]. destruct (op_packet o); try reflexivity.
    destruct (version_eqb _ _); [cbn; apply succeed_op_wv|]. destruct (negb _); [reflexivity|]. cbn. apply succeed_op_wv.
  Qed.

  Lemma handle_puback_wv (s : state) a : wv_of (h_s (handle_puback cfg s a)) = wv_of s.
  Proof.
    unfold handle_puback. destruct (pre_connack s); [reflexivity|]. destruct (lookup _ (s_ppub s)) as [id|]; [|reflexivity].
    destruct (publish_qos_of s id) as [q|]; [|reflexivity]. destruct q as [|q]; [reflexivity|].
    destruct q; try reflexivity. cbn. apply succeed_op_wv.
  Qed.

  Lemma handle_pubrec_wv (s : state) a : wv_of (h_s (handle_pubrec cfg s a)) = wv_of s.
  Proof.
    unfold handle_pubrec. destruct (pre_connack s); [reflexivity|]. destruct (lookup _ (s_ppub s)) as [id|]; [|reflexivity].
    destruct (lookup id (s_ops s)) as [o|]; [|reflexivity]. destruct (op_packet o); try reflexivity.
    destruct (_ =? 2); [|reflexivity]. destruct (128 <=? _); [cbn; apply succeed_op_wv|reflexivity].
  Qed.

  Lemma handle_pubrel_wv (s : state) a : wv_of (h_s (handle_pubrel s a)) = wv_of s.
  Proof. unfold handle_pubrel. destruct (pre_connack s); reflexivity. Qed.

  Lemma handle_pubcomp_wv (s : state) a : wv_of (h_s (handle_pubcomp cfg s a)) = wv_of s.
  Proof.
    unfold handle_pubcomp. destruct (pre_connack s); [reflexivity|]. destruct (lookup _ (s_ppub s)) as [id|]; [|reflexivity].
    destruct (lookup id (s_ops s)) as [o|]; [|reflexivity]. destruct (op_packet o); try reflexivity.
    destruct (_ =? 2); [|reflexivity]. destruct (op_pubrel o); [cbn; apply succeed_op_wv|reflexivity].
  Qed.

  Lemma handle_publish_wv (s : state) pb : wv_of (h_s (handle_publish s pb)) = wv_of s.
  Proof.
    unfold handle_publish. destruct (pre_connack s); [reflexivity|]. destruct (_ =? 0); [reflexivity|].
    destruct (_ =? 1); [reflexivity|]. destruct (mem _ _); reflexivity.
  Qed.

  Lemma handle_disconnect_wv (s : state) d : wv_of (h_s (handle_disconnect cfg s d)) = wv_of s.
  Proof. unfold handle_disconnect. destruct (pre_connack s); [reflexivity|]. destruct (version_eqb _ _); reflexivity. Qed.


End Frames.

(* ---- the inbound path: CONNACK handling, the packet dispatch, a whole data call ---- *)
Section FramesIn.
  Variable enc : Type.
  Variable dec : Type.
  Variable dec_feed : version -> N -> dec -> bytes -> dec * list packet * outcome unit.
  Variable ores : Type.
  Variable ores_reset : ores -> N -> ores.
  Variable ires : Type.
  Variable ires_reset : ires -> ires.
  Variable ires_resolve : ires -> option N -> bytes -> outcome (ires * bytes).
  Variable v_in : option settings -> packet -> outcome unit.
  Variable cfg : config.
  Notation state := (state enc dec ores ires).
  Notation handle_connack := (handle_connack enc dec ores ores_reset ires ires_reset v_in cfg).
  Notation handle_packet := (handle_packet enc dec ores ores_reset ires ires_reset v_in cfg).
  Notation handle_packets := (handle_packets enc dec ores ores_reset ires ires_reset ires_resolve v_in cfg).
  Notation net_data := (net_data enc dec dec_feed ores ores_reset ires ires_reset ires_resolve v_in cfg).

  Lemma handle_connack_wv (s : state) now c : wv_of (h_s (handle_connack s now c)) = wv_of s.
  Proof.
    unfold Model.handle_connack. destruct (negb (pstate_eqb (s_st s) PendingConnack)); [reflexivity|].
    destruct (negb (ca_rc c =? 0)); [reflexivity|]. destruct (v_in None (Connack c)); [|reflexivity|reflexivity].
    cbv zeta.
    match goal with |- context [apply_session cfg ?x ?sp] => pose proof (apply_session_wv cfg x sp) as Ha; set (r := apply_session cfg x sp) in * end.
    assert (E : wv_of (r_s r) = wv_of s) by (rewrite Ha; destruct (cf_drain_one cfg); reflexivity).
    destruct (r_out r); exact E.
  Qed.

  Lemma handle_packet_wv (s : state) now p : wv_of (h_s (handle_packet s now p)) = wv_of s.
  Proof.
    destruct p; cbn [Model.handle_packet h_s]; try reflexivity.
    - apply handle_connack_wv.
    - apply handle_publish_wv.
    - apply handle_puback_wv.
    - apply handle_pubrec_wv.
    - apply handle_pubrel_wv.
    - apply handle_pubcomp_wv.
    - apply handle_suback_wv.
    - apply handle_unsuback_wv.
    - apply handle_pingresp_wv.
    - apply handle_disconnect_wv.
  Qed.

  Lemma handle_packets_wv now : forall ps (s : state) dn ev, wv_of (h_s (handle_packets s now ps dn ev)) = wv_of s.
  Proof.
    induction ps as [|p rest IH]; intros s dn ev; cbn [Model.handle_packets]; [reflexivity|].
    assert (Hres : forall x : outcome (state * packet),
              x = match p with
                  | Publish pb => do (i', t) <- ires_resolve (s_ires s) (pub_alias pb) (pub_topic pb) ;
                                  Ok (s <| s_ires := i' |>, Publish (with_topic pb t))
                  | _ => Ok (s, p) end ->
              match x with Ok (s1, _) => wv_of s1 = wv_of s | _ => True end).
    { intros x ->. destruct p; try reflexivity. destruct (ires_resolve _ _ _) as [[i' t]| |]; cbn; try exact I. reflexivity. }
    specialize (Hres _ eq_refl).
    destruct (match p with Publish pb => _ | _ => _ end) as [[s1 p1]|k|site]; [|reflexivity|reflexivity].
    destruct (v_in (s_settings s1) p1); [|exact Hres|exact Hres].
    pose proof (handle_packet_wv s1 now p1) as Hh.
    destruct (h_out (handle_packet s1 now p1)); cbn [h_s]; [rewrite IH; congruence| |congruence].
    change (wv_of (h_s (handle_packet s1 now p1)) = wv_of s). congruence.
  Qed.

  Lemma net_data_wv (s : state) now data : wv_of (h_s (net_data s now data)) = wv_of s.
  Proof.
    unfold Model.net_data. destruct (_ || _); [reflexivity|]. destruct (_ && _); [reflexivity|].
    destruct (dec_feed _ _ _ _) as [[d' ps] r]. destruct r; [|reflexivity|reflexivity].
    rewrite handle_packets_wv. reflexivity.
  Qed.
End FramesIn.
