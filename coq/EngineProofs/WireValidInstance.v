(* C02 at run level for the CONCRETE engine of Engine/Instance.v: the premise `Forall pr_valid (encodes L)` of
   WireRunInstance.instance_wire_decodes is discharged.  For every event history with
     ok_cfg / Forall ok_event      (service times below 2^62 ms, buffers of at least 4 bytes: WFDefs.v),
     Forall sub_ev                 (every submitted packet is a PUBLISH / SUBSCRIBE / UNSUBSCRIBE / DISCONNECT value that
                                    passed the submission-time validator validate_packet_outbound and is shorter than 4 GiB;
                                    incoming data are octets),
     connect_opts_ok               (the connect options, which the library never validates, satisfy BridgeConnect.connect_checked
                                    for every client id the CONNECT can carry),
   every (packet, resolution) an encoder is constructed for is valid for the wire specification; hence the completed
   part of every connection's byte stream decodes, by the independent specification decoder, frame by frame to exactly
   the canonical forms of the seated packets. *)
From GM Require Import Base.Prelude Base.Outcome Codec.Prim Codec.Packets Codec.Settings Codec.Steps Codec.ImplEncode
  Codec.SpecDecodeC2S Codec.ValidC2S Codec.Framing Alias.Outbound Alias.Inbound Validate.Rules Validate.Spec Engine.Model Engine.Instance.
From GM Require Import ValidateProofs.BridgeDefs ValidateProofs.BridgeConnect.
From GM Require Import EngineProofs.WFDefs EngineProofs.WFStep EngineProofs.WFInstance EngineProofs.AliasRunLog EngineProofs.AliasRunInstance
  EngineProofs.WireRunLog EngineProofs.WireRunConn EngineProofs.WireRunCodec EngineProofs.WireRunInstance
  EngineProofs.WireValidDefs EngineProofs.WireValidFrame EngineProofs.WireValidRun EngineProofs.WireValidComps.
Open Scope N_scope.

(* the connect options are good: whatever client id the CONNECT carries (the configured one, or a valid string the
   server assigned), the options are representable and satisfy connect_checked *)
Definition connect_opts_ok (v : version) (co : connect_opts) : Prop :=
  forall cb cid, cid_for co cid -> connect_typed co cid = true /\ connect_checked v co cb cid = true.

Lemma connect_opts_cfg v co : connect_opts_ok v co -> connect_cfg_ok v co.
Proof. intros H cb cid Hc. destruct (H cb cid Hc) as [A B0]. rewrite (connect_valid_iff v co cb cid A). exact B0. Qed.

(* with a configured client id the predicate is decidable: the two CONNECT packets of BridgeConnect *)
Lemma connect_opts_ok_configured v co i :
  co_client_id co = Some i -> connect_typed co (Some i) = true ->
  connect_checked v co false (Some i) = true -> connect_checked v co true (Some i) = true -> connect_opts_ok v co.
Proof. intros E T C1 C2 cb cid Hc. unfold cid_for in Hc. rewrite E in Hc. subst cid. split; [exact T|destruct cb; assumption]. Qed.

(* ... and it is necessary: if a CONNECT the configuration can produce is not valid, the predicate fails *)
Lemma connect_opts_ok_necessary v co cb cid r :
  cid_for co cid -> connect_typed co cid = true -> valid v r (Connect (connect_of co cb cid)) = false -> ~ connect_opts_ok v co.
Proof.
  intros Hc T Hv H. destruct (H cb cid Hc) as [_ B0]. cbn [valid] in Hv. rewrite (connect_valid_iff v co cb cid T) in Hv. congruence.
Qed.

Section Instance.
  Variable cfg : config.
  Hypothesis Hcfg : ok_cfg cfg.
  Variable k : resolver_kind.
  Hypothesis Hco : connect_opts_ok (cf_version cfg) (cf_connect cfg).

  Let HW := instance_wv (cf_version cfg) (cf_connect cfg) (connect_opts_cfg _ _ Hco).
  Notation GIi := (GI enc decoder decoder_init decode_bytes ores ores_reset ores_resolve ires validate_inbound_internal cfg HW).
  Notation WFXi := (WFX enc impl_steps encode_call decoder decoder_init decode_bytes ores ores_reset ores_resolve ires ires_reset ires_resolve
                        validate_outbound_internal validate_inbound_internal cfg instance_comps_ok).

  Lemma i_init_good : WFXi (i_init cfg k) /\ GIi (i_init cfg k).
  Proof.
    split.
    - exact (WF_init enc impl_steps encode_call decoder decoder_init decode_bytes ores ores_reset ores_resolve ires ires_reset ires_resolve
               validate_outbound_internal validate_inbound_internal cfg instance_comps_ok _ _ I I).
    - apply (init_GI enc decoder decoder_init decode_bytes ores ores_reset ores_resolve ires validate_inbound_internal cfg HW). apply og_init.
  Qed.

  (* the invariants hold after every history *)
  Theorem instance_reach_good h : Forall ok_event h -> Forall sub_ev h ->
    WFXi (fst (i_run cfg (i_init cfg k) h)) /\ GIi (fst (i_run cfg (i_init cfg k) h)).
  Proof.
    intros Hok Hsub. destruct i_init_good as [W G]. split.
    - exact (WF_run enc impl_steps encode_call enc_done decoder decoder_init decode_bytes ores ores_reset ores_resolve ires ires_reset ires_resolve
               validate_outbound_internal validate_inbound_internal cfg instance_comps_ok Hcfg h _ W Hok).
    - exact (proj1 (run_good enc impl_steps encode_call enc_done decoder decoder_init decode_bytes ores ores_reset ores_resolve ires ires_reset ires_resolve
               validate_outbound_internal validate_inbound_internal cfg instance_comps_ok Hcfg HW h _ W G Hok Hsub)).
  Qed.

  (* every (packet, resolution) an encoder is constructed for, from any good state on, is valid for the wire specification *)
  Theorem instance_encodes_valid_from (s : istate) h :
    WFXi s -> GIi s -> Forall ok_event h -> Forall sub_ev h -> Forall (pr_valid (cf_version cfg)) (encodes (i_olog cfg s h)).
  Proof.
    intros W G Hok Hsub.
    pose proof (run_encodes_good enc impl_steps encode_call enc_done decoder decoder_init decode_bytes ores ores_reset ores_resolve ires ires_reset ires_resolve
                  validate_outbound_internal validate_inbound_internal cfg instance_comps_ok Hcfg HW h s W G Hok Hsub) as H.
    eapply Forall_impl; [|exact H]. intros [p r] ((sto & Hv) & Hs & Hr). unfold pr_valid. cbn [fst snd] in *.
    exact (seat_valid (cf_version cfg) sto (cf_connect cfg) r p Hs Hv Hr).
  Qed.

  Theorem instance_encodes_valid h : Forall ok_event h -> Forall sub_ev h ->
    Forall (pr_valid (cf_version cfg)) (encodes (i_olog cfg (i_init cfg k) h)).
  Proof. intros Hok Hsub. destruct i_init_good as [W G]. exact (instance_encodes_valid_from _ h W G Hok Hsub). Qed.

  (* the completed part of a connection's byte stream is well-formed MQTT: the specification decoder reads it back,
     frame by frame, as exactly the canonical forms of the seated packets; what follows is a prefix of the encoding of
     the packet being written, which is valid as well *)
  Theorem instance_wire_wellformed h1 now dl h2 :
    Forall ok_event (h1 ++ EvOpen now dl :: h2) -> Forall sub_ev (h1 ++ EvOpen now dl :: h2) -> Forall not_open h2 ->
    let s1 := fst (i_run cfg (i_init cfg k) (h1 ++ [EvOpen now dl])) in
    let L := i_olog cfg s1 h2 in
    Forall (pr_valid (cf_version cfg)) (encodes L) /\
    exists frames part,
      concat (map o_bytes (snd (i_run cfg s1 h2))) = frames ++ part /\
      spec_decode_all (length (fst (packets_of L))) (cf_version cfg) frames = Some (map (pr_canon (cf_version cfg)) (fst (packets_of L))) /\
      match snd (packets_of L) with
      | None => part = []
      | Some x => exists bs rest, impl_encode_all (cf_version cfg) (fst x) (snd x) = Ok bs /\ bs = part ++ rest /\
                                  spec_decode (cf_version cfg) bs = Some (pr_canon (cf_version cfg) x, [])
      end.
  Proof.
    intros Hok Hsub Hno s1 L.
    assert (Hv : Forall (pr_valid (cf_version cfg)) (encodes L)).
    { assert (Hok1 : Forall ok_event (h1 ++ [EvOpen now dl]) /\ Forall ok_event h2).
      { replace (h1 ++ EvOpen now dl :: h2) with ((h1 ++ [EvOpen now dl]) ++ h2) in Hok by (rewrite <- app_assoc; reflexivity).
        apply Forall_app in Hok. exact Hok. }
      assert (Hsub1 : Forall sub_ev (h1 ++ [EvOpen now dl]) /\ Forall sub_ev h2).
      { replace (h1 ++ EvOpen now dl :: h2) with ((h1 ++ [EvOpen now dl]) ++ h2) in Hsub by (rewrite <- app_assoc; reflexivity).
        apply Forall_app in Hsub. exact Hsub. }
      destruct (instance_reach_good (h1 ++ [EvOpen now dl]) (proj1 Hok1) (proj1 Hsub1)) as [W G].
      exact (instance_encodes_valid_from s1 h2 W G (proj2 Hok1) (proj2 Hsub1)). }
    split; [exact Hv|]. exact (instance_wire_decodes cfg Hcfg k h1 now dl h2 Hok Hno Hv).
  Qed.
End Instance.
