(* C07 run-level theorems: for every event history from the initial state (hypotheses: the component
   invariants comps_ok, ok_cfg, Forall ok_event, and - where CONNECT operations are counted - no user
   submission of a CONNECT packet, which the client API cannot produce):
   (a) only_connect_before_connack   (b) exactly_one_connect   (c) connected_only_after_connack
   (d) nothing_after_disconnect. *)
From GM Require Import Base.Prelude Base.Outcome Codec.Packets Codec.Settings Engine.Model
  EngineProofs.AssocLemmas EngineProofs.PacketIds EngineProofs.WFLemmas EngineProofs.WFDefs EngineProofs.WFCore
  EngineProofs.WFComplete EngineProofs.WFClose EngineProofs.WFClose2 EngineProofs.WFEvents EngineProofs.WFStep EngineProofs.WFProps
  EngineProofs.HandshakeRunTrace EngineProofs.HandshakeRunFrame EngineProofs.HandshakeRunFrame2 EngineProofs.HandshakeRunSt
  EngineProofs.HandshakeRunClose EngineProofs.HandshakeRunPC EngineProofs.HandshakeRunInv.
From RecordUpdate Require Import RecordSet.
Import RecordSetNotations.
Open Scope N_scope.

(* the four component types are implicit in the engine functions, locally to this file *)
#[local] Arguments init {enc dec} _ {ores ires} _ _.
#[local] Arguments release {enc dec ores ires} _ _ _ _.
#[local] Arguments disconnect_completion {enc dec ores ires} _ _.
#[local] Arguments fail_op {enc dec ores ires} _ _ _ _.
#[local] Arguments ping_extension {enc dec ores ires} _ _.
#[local] Arguments succeed_op {enc dec ores ires} _ _ _ _.
#[local] Arguments fail_all {enc dec ores ires} _ _ _ _.
#[local] Arguments succeed_all {enc dec ores ires} _ _ _.
#[local] Arguments andthen {enc dec ores ires} _ _.
#[local] Arguments try_ {enc dec ores ires} _ _.
#[local] Arguments pure {enc dec ores ires} _.
#[local] Arguments create_operation {enc dec ores ires} _ _.
#[local] Arguments passes_now {enc dec ores ires} _ _ _.
#[local] Arguments user_event {enc dec ores ires} _ _ _ _.
#[local] Arguments create_connect {enc dec ores ires} _ _.
#[local] Arguments net_opened {enc dec} _ {ores ires} _ _ _.
#[local] Arguments op_exists {enc dec ores ires} _ _.
#[local] Arguments op_passes {enc dec ores ires} _ _ _.
#[local] Arguments partition_policy {enc dec ores ires} _ _ _.
#[local] Arguments closed_current {enc dec ores ires} _ _.
#[local] Arguments slow_start_init {enc dec ores ires} _ _.
#[local] Arguments update_retries {enc dec ores ires} _ _.
#[local] Arguments fail_exceeding {enc dec ores ires} _ _.
#[local] Arguments has_pubrel {enc dec ores ires} _ _.
#[local] Arguments net_closed_raw {enc dec ores ires} _ _.
#[local] Arguments net_closed {enc dec ores ires} _ _.
#[local] Arguments net_write_completion {enc dec ores ires} _ _.
#[local] Arguments acquire_free_pid {enc dec ores ires} _ _.
#[local] Arguments acquire_pid_for {enc dec ores ires} _ _.
#[local] Arguments unbind {enc dec ores ires} _ _.
#[local] Arguments passes_receive_max {enc dec ores ires} _ _.
#[local] Arguments throttled {enc dec ores ires} _ _.
#[local] Arguments has_pending_ack {enc dec ores ires} _.
#[local] Arguments dequeue {enc dec ores ires} _ _ _.
#[local] Arguments fully_written {enc dec ores ires} _ _.
#[local] Arguments service_keep_alive {enc dec ores ires} _ _ _.
#[local] Arguments process_ack_timeouts {enc dec ores ires} _ _ _.
#[local] Arguments halt_on_error {enc dec ores ires} _ _.
#[local] Arguments next_service_time {enc dec ores ires} _ _ _.
#[local] Arguments build_settings {enc dec ores ires} _ _ _.
#[local] Arguments apply_session {enc dec ores ires} _ _ _.
#[local] Arguments hres_of {enc dec ores ires} _ _.
#[local] Arguments pre_connack {enc dec ores ires} _.
#[local] Arguments sum_ss {enc dec ores ires} _.
#[local] Arguments handle_pingresp {enc dec ores ires} _.
#[local] Arguments handle_suback {enc dec ores ires} _ _ _.
#[local] Arguments handle_unsuback {enc dec ores ires} _ _ _.
#[local] Arguments publish_qos_of {enc dec ores ires} _ _.
#[local] Arguments handle_puback {enc dec ores ires} _ _ _.
#[local] Arguments handle_pubrec {enc dec ores ires} _ _ _.
#[local] Arguments handle_pubrel {enc dec ores ires} _ _.
#[local] Arguments handle_pubcomp {enc dec ores ires} _ _ _.
#[local] Arguments handle_publish {enc dec ores ires} _ _.
#[local] Arguments handle_disconnect {enc dec ores ires} _ _ _.
#[local] Arguments is_connect_op {enc dec ores ires} _ _.
#[local] Arguments connect_in_queue {enc dec ores ires} _.
#[local] Arguments reset {enc dec ores ires} _ _.
#[local] Arguments out_of_res {enc dec ores ires} _ _.
#[local] Arguments nst_queue {enc dec ores ires} _ _ _ _.
#[local] Arguments earliest_tmo {enc dec ores ires} _.
#[local] Arguments SeatStop {enc dec ores ires} _.
#[local] Arguments SeatContinue {enc dec ores ires} _ _.
#[local] Arguments SeatEncode {enc dec ores ires} _.


Section Run.
  Variable enc : Type.
  Variable enc_reset : version -> packet -> resolution -> outcome enc.
  Variable enc_call : enc -> N -> N -> outcome (bytes * enc).
  Variable enc_done : enc -> bool.
  Variable dec : Type.
  Variable dec_init : dec.
  Variable dec_feed : version -> N -> dec -> bytes -> dec * list packet * outcome unit.
  Variable ores : Type.
  Variable ores_reset : ores -> N -> ores.
  Variable ores_resolve : ores -> option N -> bytes -> outcome (ores * resolution).
  Variable ires : Type.
  Variable ires_reset : ires -> ires.
  Variable ires_resolve : ires -> option N -> bytes -> outcome (ires * bytes).
  Variable v_out : option settings -> connect_opts -> resolution -> packet -> outcome unit.
  Variable v_in : option settings -> packet -> outcome unit.
  Variable cfg : config.
  Variable HC : comps_ok enc enc_reset enc_call dec dec_init dec_feed ores ores_reset ores_resolve ires ires_reset ires_resolve v_out v_in.
  Hypothesis Hcfg : ok_cfg cfg.

  Notation state := (state enc dec ores ires).
  Notation step := (step enc enc_reset enc_call enc_done dec dec_init dec_feed ores ores_reset ores_resolve
                         ires ires_reset ires_resolve v_out v_in cfg).
  Notation run := (run enc enc_reset enc_call enc_done dec dec_init dec_feed ores ores_reset ores_resolve
                       ires ires_reset ires_resolve v_out v_in cfg).
  Notation service := (service enc enc_reset enc_call enc_done dec ores ores_reset ores_resolve ires v_out cfg).
  Notation service_seats := (service_seats enc enc_reset enc_call enc_done dec ores ores_reset ores_resolve ires v_out cfg).
  Notation service_loop := (service_loop enc enc_reset enc_call enc_done dec ores ores_reset ores_resolve ires v_out cfg).
  Notation net_opened := (net_opened dec_init cfg).
  Notation init := (init (enc:=enc) dec_init).
  Notation WFX := (WFX enc enc_reset enc_call dec dec_init dec_feed ores ores_reset ores_resolve ires ires_reset ires_resolve v_out v_in cfg HC).
  Notation HS := (HS enc dec ores ires cfg).
  Notation user_ok := (user_ok).
  Notation places := (places enc dec ores ires).

  Ltac splits := repeat match goal with |- _ /\ _ => split end.

  (* ---- runs ---- *)
  Lemma run_snoc : forall h (s : state) e, fst (run s (h ++ [e])) = fst (step (fst (run s h)) e).
  Proof.
    induction h as [|a r IH]; intros s e; cbn [app Model.run fst].
    - destruct (step s e) as [s1 o]. reflexivity.
    - destruct (step s a) as [s1 o]. specialize (IH s1 e). destruct (run s1 (r ++ [e])) as [s2 os]. destruct (run s1 r) as [s3 os']. exact IH.
  Qed.

  Theorem RI_run : forall h (s : state), WFX s -> HS s -> Forall ok_event h -> Forall user_ok h ->
    WFX (fst (run s h)) /\ HS (fst (run s h)).
  Proof.
    induction h as [|e r IH]; intros s HW HH Hev Hus; cbn [Model.run]; [split; assumption|].
    inversion Hev as [|? ? He Hr]; subst. inversion Hus as [|? ? Hu Hur]; subst.
    pose proof (WF_step enc enc_reset enc_call enc_done dec dec_init dec_feed ores ores_reset ores_resolve ires ires_reset ires_resolve v_out v_in cfg HC Hcfg s e HW He) as HW1.
    pose proof (HS_step enc enc_reset enc_call enc_done dec dec_init dec_feed ores ores_reset ores_resolve ires ires_reset ires_resolve v_out v_in cfg s e (proj1 HW) HH Hu) as HH1.
    destruct (step s e) as [s1 o]. cbn [fst] in HW1, HH1. specialize (IH s1 HW1 HH1 Hr Hur).
    destruct (run s1 r) as [s2 os]. exact IH.
  Qed.

  Theorem reachable_hs (o : ores) (i : ires) h :
    ores_inv HC o -> ires_inv HC i -> Forall ok_event h -> Forall user_ok h ->
    WFX (fst (run (init o i) h)) /\ HS (fst (run (init o i) h)).
  Proof.
    intros Ho Hi Hev Hus. apply RI_run; auto.
    - exact (WF_init _ _ _ _ _ _ _ _ _ _ _ _ _ _ _ HC o i Ho Hi).
    - apply HS_init.
  Qed.

  (* the CONNECT operation of the handshake in progress *)
  Definition is_the_connect (s : state) (c : N) : Prop :=
    exists o, lookup c (s_ops s) = Some o /\ op_packet o = create_connect cfg s /\ op_user o = false /\ op_pubrel o = None.

  (* ---- (a) ---- *)
  Theorem only_connect_before_connack (o : ores) (i : ires) h now cap fill :
    ores_inv HC o -> ires_inv HC i -> Forall ok_event h -> Forall user_ok h ->
    let s := fst (run (init o i) h) in
    s_st s = PendingConnack ->
    let r := service s now cap fill in
    (* at most one operation is seated by the call, from the high-priority queue, and it is the CONNECT *)
    (service_seats s now cap fill = [] \/
     exists c, service_seats s now cap fill = [(QH, c)] /\ s_cur s = None /\ s_hq s = [c] /\ is_the_connect s c) /\
    (* an operation already on the encoder is the CONNECT, before and after the call *)
    (forall c, s_cur s = Some c -> is_the_connect s c) /\
    (forall c, s_st (sr_s r) = PendingConnack -> s_cur (sr_s r) = Some c -> is_the_connect (sr_s r) c) /\
    (* no completion is delivered, the engine keeps waiting or halts, and the places hold at most that one operation *)
    sr_done r = [] /\ (s_st (sr_s r) = PendingConnack \/ s_st (sr_s r) = Halted) /\ (length (places s) <= 1)%nat /\
    (* and no other CONNECT operation exists *)
    (forall j oj, lookup j (s_ops s) = Some oj -> is_connect (op_packet oj) = true -> In j (places s)).
  Proof.
    intros Ho Hi Hev Hus s Hst r. destruct (reachable_hs o i h Ho Hi Hev Hus) as [HW HH]. fold s in HW, HH.
    unfold HandshakeRunInv.HS in HH. rewrite Hst in HH. destruct HH as [HCP HJ].
    assert (HP : PCI enc dec ores ires cfg s) by (split; [exact Hst|split; assumption]).
    destruct (pc_service enc enc_reset enc_call enc_done dec ores ores_reset ores_resolve ires v_out cfg s now cap fill HP) as (A & B & C & D & E).
    cbv zeta in A, B, C, D, E. fold r in A, B, C, D.
    assert (Hcur : forall (x : state) c, J enc dec ores ires cfg x -> s_cur x = Some c -> is_the_connect x c).
    { intros x c (_ & Hx) Hc. apply Hx. unfold HandshakeRunClose.places. rewrite Hc. apply in_or_app. right. left. reflexivity. }
    split; [destruct E as [E|(c & E1 & E2 & E3 & E4)]; [left; exact E|right; exists c; splits; auto]|].
    split; [intros c Hc; apply Hcur; assumption|]. split; [intros c Hs Hc; apply Hcur; auto|].
    split; [exact B|]. split; [exact C|]. split; [apply HJ|exact HCP].
  Qed.

  (* nothing but a CONNECT packet is handed to the encoder before the CONNACK: no user packet, no ack *)
  Corollary no_packet_but_connect_before_connack (o : ores) (i : ires) h now cap fill :
    ores_inv HC o -> ires_inv HC i -> Forall ok_event h -> Forall user_ok h ->
    let s := fst (run (init o i) h) in
    s_st s = PendingConnack ->
    forall q c, In (q, c) (service_seats s now cap fill) ->
      exists oc, lookup c (s_ops s) = Some oc /\ is_connect (op_packet oc) = true /\ op_pubrel oc = None /\ op_user oc = false.
  Proof.
    intros Ho Hi Hev Hus s Hst q c Hin.
    destruct (only_connect_before_connack o i h now cap fill Ho Hi Hev Hus Hst) as (A & _). fold s in A.
    destruct A as [A|(c0 & A1 & _ & _ & (oc & O1 & O2 & O3 & O4))]; [rewrite A in Hin; destruct Hin|].
    rewrite A1 in Hin. destruct Hin as [Hin|[]]. inversion Hin; subst. exists oc. splits; auto.
    rewrite O2. apply is_connect_create.
  Qed.

  (* ---- (b) ---- *)
  (* a connection opening creates exactly one operation: the CONNECT, at the front of the high-priority queue *)
  Theorem opened_creates_the_connect (s : state) dl :
    s_st s = Disconnected ->
    let s' := r_s (net_opened s dl) in
    s_ops s' = s_ops s ++ [(s_next_id s, new_op (create_connect cfg s) false None)] /\
    s_hq s' = s_next_id s :: s_hq s /\ create_connect cfg s' = create_connect cfg s /\ s_next_id s' = s_next_id s + 1.
  Proof. intros Hst. unfold Model.net_opened. rewrite Hst. cbn. splits; reflexivity. Qed.

  (* no other event creates a CONNECT operation (any state) *)
  Theorem no_other_connect_creation (s : state) e :
    makes_no_connect e ->
    forall j oj, lookup j (s_ops (fst (step s e))) = Some oj -> is_connect (op_packet oj) = true ->
      exists oj0, lookup j (s_ops s) = Some oj0 /\ is_connect (op_packet oj0) = true.
  Proof.
    intros He. exact (step_KF enc enc_reset enc_call enc_done dec dec_init dec_feed ores ores_reset ores_resolve ires ires_reset ires_resolve v_out v_in cfg s e He).
  Qed.

  (* a CONNECT packet submitted as a user operation: refused by the offline-queue policy unless Connected, where it
     is queued like any other submission (the client API cannot submit one) *)
  Theorem user_connect_behaviour (s : state) p t :
    is_connect p = true -> lookup (s_next_id s) (s_ops s) = None ->
    let r := user_event cfg s p t in
    (s_st s = Connected -> s_uq (r_s r) = s_uq s ++ [s_next_id s] /\ lookup (s_next_id s) (s_ops (r_s r)) = Some (new_op p true t)) /\
    (s_st s <> Connected -> s_uq (r_s r) = s_uq s /\ (is_panic (r_out (fail_op cfg
        (s <| s_next_id := s_next_id s + 1 |> <| s_ops := s_ops s ++ [(s_next_id s, new_op p true t)] |>) (s_next_id s) EOfflineQueuePolicyFailed)) = false ->
        lookup (s_next_id s) (s_ops (r_s r)) = None /\ r_done r = [(s_next_id s, CompErr EOfflineQueuePolicyFailed)])).
  Proof.
    intros Hp Hfresh. cbv zeta. unfold user_event, create_operation.
    assert (Hd : is_disconnect p = false) by (destruct p; try discriminate; reflexivity). rewrite Hd. cbn [negb].
    set (o := new_op p true t).
    set (s1 := s <| s_next_id := s_next_id s + 1 |> <| s_ops := s_ops s ++ [(s_next_id s, o)] |>).
    assert (Hget : lookup (s_next_id s) (s_ops s1) = Some o).
    { unfold s1. cbn. rewrite lookup_app, Hfresh. cbn. rewrite N.eqb_refl. reflexivity. }
    split.
    - intros Hst. unfold passes_now. change (s_st s1) with (s_st s). rewrite Hst. cbn. split; [reflexivity|exact Hget].
    - intros Hst. unfold passes_now. change (s_st s1) with (s_st s).
      assert (Hpol : passes_policy (cf_policy cfg) p = false) by (destruct p; try discriminate; reflexivity).
      destruct (pstate_eqb (s_st s) Connected) eqn:E; [destruct (s_st s); cbn in E; congruence|]. rewrite Hpol. cbn [negb r_s r_done].
      split.
      + destruct (qs_fields _ _ _ _ _ _ (fail_op_qs enc dec ores ires cfg s1 (s_next_id s) EOfflineQueuePolicyFailed)) as (_ & _ & Q). exact Q.
      + intros Hnp. split; [exact (fail_op_gone enc dec ores ires cfg s1 (s_next_id s) EOfflineQueuePolicyFailed Hnp)|].
        revert Hnp. unfold fail_op. rewrite Hget.
        destruct (release cfg s1 (s_next_id s) o) as [s2|k|site] eqn:Er; [| |cbn; discriminate].
        * unfold disconnect_completion. replace (is_disconnect (op_packet o)) with false by (symmetry; exact Hd). reflexivity.
        * exfalso. unfold release in Er. cbn in Er.
          repeat match type of Er with context [if ?b then _ else _] => destruct b; cbn in Er end; discriminate.
  Qed.

  (* once the CONNACK is accepted no CONNECT operation exists, so none can be sent again on the connection;
     the same holds while Disconnected and PendingDisconnect *)
  Theorem no_connect_operation_once_connected (o : ores) (i : ires) h :
    ores_inv HC o -> ires_inv HC i -> Forall ok_event h -> Forall user_ok h ->
    let s := fst (run (init o i) h) in
    s_st s = Connected \/ s_st s = PendingDisconnect \/ s_st s = Disconnected ->
    forall j oj, lookup j (s_ops s) = Some oj -> is_connect (op_packet oj) = false.
  Proof.
    intros Ho Hi Hev Hus s Hst. destruct (reachable_hs o i h Ho Hi Hev Hus) as [_ HH]. fold s in HH.
    unfold HandshakeRunInv.HS in HH. destruct Hst as [E|[E|E]]; rewrite E in HH; exact HH.
  Qed.

  (* ---- (c) ---- *)
  (* the one way into Connected: a successful CONNACK, decoded from inbound data in a state that awaits it and
     whose CONNECT has left the high-priority queue, the encoder and the written-not-completed list *)
  Theorem connected_entry (s : state) e :
    WFS s -> s_st s <> Connected -> s_st (fst (step s e)) = Connected ->
    exists now data, e = EvData now data /\ s_st s = PendingConnack /\ connect_in_queue s = false /\
      o_res (snd (step s e)) = Ok tt /\ exists c, In (Connack c) (o_events (snd (step s e))) /\ ca_rc c = 0.
  Proof.
    intros HW Hn Hc. pose proof (step_st enc enc_reset enc_call enc_done dec dec_init dec_feed ores ores_reset ores_resolve ires ires_reset ires_resolve v_out v_in cfg s e HW) as Hs.
    rewrite Hc in Hs.
    destruct e as [now p t|now dl|now|now data|now|now cap fill|now|now]; cbn [HandshakeRunSt.st_step] in Hs;
      try (destruct (s_st s) eqn:Es; try congruence; intuition congruence).
    exists now, data. split; [reflexivity|].
    cbn [Model.step fst snd o_events o_res] in Hc |- *.
    destruct (net_data_st enc dec dec_feed ores ores_reset ires ires_reset ires_resolve v_in cfg s now data) as [_ Hd]. cbv zeta in Hd.
    destruct (Hd Hc Hn) as ((V1 & c & V2 & V3) & V4). split; [exact V1|]. split; [exact V4|]. split; [|exists c; split; assumption].
    destruct (h_out (net_data enc dec dec_feed ores ores_reset ires ires_reset ires_resolve v_in cfg s now data)) as [[]|k|site]; [reflexivity|cbn in Hc; discriminate..].
  Qed.

  (* every state along a run from s satisfies P *)
  Fixpoint all_along (P : state -> Prop) (s : state) (h : list event) : Prop :=
    P s /\ match h with [] => True | e :: r => all_along P (fst (step s e)) r end.

  Lemma all_along_snoc P : forall h (s : state) e, all_along P s h -> P (fst (run s (h ++ [e]))) -> all_along P s (h ++ [e]).
  Proof.
    induction h as [|a r IH]; intros s e Ha Hp; cbn [app all_along] in *.
    - destruct Ha as [Ha _]. split; [exact Ha|]. split; [|exact I]. cbn [Model.run] in Hp. destruct (step s e) as [s1 o1]. exact Hp.
    - destruct Ha as [Ha Hr]. split; [exact Ha|]. apply IH; [exact Hr|]. cbn [Model.run] in Hp.
      destruct (step s a) as [s1 o1]. cbn [fst]. destruct (run s1 (r ++ [e])) as [s2 os]. exact Hp.
  Qed.

  Lemma run_app_fst : forall h1 h2 (s : state), fst (run s (h1 ++ h2)) = fst (run (fst (run s h1)) h2).
  Proof.
    induction h1 as [|a r IH]; intros h2 s; cbn [app Model.run fst]; [reflexivity|].
    destruct (step s a) as [s1 o1]. specialize (IH h2 s1). destruct (run s1 (r ++ h2)) as [s2 os]. destruct (run s1 r) as [s3 os']. exact IH.
  Qed.

  (* in every reachable Connected state: the history splits at the inbound data that carried the successful CONNACK,
     received while PendingConnack with the CONNECT completely written and flushed, and the engine has been Connected
     ever since (so no connection opening or close happened in between) *)
  Theorem connected_only_after_connack (o : ores) (i : ires) : forall h,
    ores_inv HC o -> ires_inv HC i -> Forall ok_event h ->
    s_st (fst (run (init o i) h)) = Connected ->
    exists h1 now data h2, h = h1 ++ EvData now data :: h2 /\
      let s1 := fst (run (init o i) h1) in
      s_st s1 = PendingConnack /\ connect_in_queue s1 = false /\
      o_res (snd (step s1 (EvData now data))) = Ok tt /\
      (exists c, In (Connack c) (o_events (snd (step s1 (EvData now data)))) /\ ca_rc c = 0) /\
      all_along (fun x => s_st x = Connected) (fst (step s1 (EvData now data))) h2.
  Proof.
    intros h Ho Hi. induction h as [|e h' IH] using rev_ind; intros Hev Hc; [cbn in Hc; discriminate|].
    apply Forall_app in Hev. destruct Hev as [Hev' He]. rewrite run_snoc in Hc.
    destruct (reachable_wf enc enc_reset enc_call enc_done dec dec_init dec_feed ores ores_reset ores_resolve ires ires_reset ires_resolve v_out v_in cfg HC Hcfg o i h' Ho Hi Hev') as [[HW _] _].
    set (s' := fst (run (init o i) h')) in *.
    destruct (pstate_eqb (s_st s') Connected) eqn:Ec.
    - assert (Ec' : s_st s' = Connected) by (destruct (s_st s'); cbn in Ec; congruence).
      destruct (IH Hev' Ec') as (h1 & now & data & h2 & E & A1 & A2 & A3 & A4 & A5).
      exists h1, now, data, (h2 ++ [e]). split; [rewrite E, <- app_assoc; reflexivity|]. cbv zeta. splits; auto.
      apply all_along_snoc; [exact A5|]. rewrite run_snoc.
      assert (Es : fst (run (fst (step (fst (run (init o i) h1)) (EvData now data))) h2) = s').
      { unfold s'. rewrite E. rewrite run_app_fst. cbn [Model.run]. destruct (step (fst (run (init o i) h1)) (EvData now data)) as [sa oa]. cbn [fst].
        destruct (run sa h2) as [sb ob]. reflexivity. }
      rewrite Es. exact Hc.
    - assert (Ec' : s_st s' <> Connected) by (intros E; rewrite E in Ec; discriminate).
      destruct (connected_entry s' e HW Ec' Hc) as (now & data & -> & B1 & B2 & B3 & B4).
      exists h', now, data, []. split; [reflexivity|]. cbv zeta. fold s'. splits; auto. cbn. split; [exact Hc|exact I].
  Qed.

  Definition not_open_close (e : event) : Prop := match e with EvOpen _ _ | EvClose _ => False | _ => True end.

  (* staying Connected excludes connection openings and closes *)
  Lemma all_along_connected_no_open_close : forall h2 (s : state),
    WFX s -> Forall ok_event h2 -> all_along (fun x => s_st x = Connected) s h2 -> Forall not_open_close h2.
  Proof.
    induction h2 as [|e r IH]; intros s HW Hev Ha; [constructor|]. inversion Hev as [|? ? He Hr]; subst.
    cbn [all_along] in Ha. destruct Ha as [Hs Ha].
    pose proof (step_st enc enc_reset enc_call enc_done dec dec_init dec_feed ores ores_reset ores_resolve ires ires_reset ires_resolve v_out v_in cfg s e (proj1 (proj1 HW))) as Hst.
    assert (Hn : s_st (fst (step s e)) = Connected) by (destruct r; cbn [all_along] in Ha; tauto).
    rewrite Hs, Hn in Hst. constructor.
    - destruct e; cbn in Hst |- *; try exact I; discriminate.
    - apply (IH (fst (step s e))); [|exact Hr|exact Ha].
      exact (WF_step enc enc_reset enc_call enc_done dec dec_init dec_feed ores ores_reset ores_resolve ires ires_reset ires_resolve v_out v_in cfg HC Hcfg s e HW He).
  Qed.

  (* ---- (d) ---- *)
  Definition quiet (st : pstate) : Prop := st = PendingDisconnect \/ st = Halted.
  Definition not_close (e : event) : Prop := match e with EvClose _ => False | _ => True end.

  (* after a completely written DISCONNECT (PendingDisconnect) or a halt, only a close changes anything *)
  Theorem quiet_step (s : state) e :
    WFS s -> quiet (s_st s) ->
    (quiet (s_st (fst (step s e))) /\ o_bytes (snd (step s e)) = []) \/
    (exists now, e = EvClose now /\ s_st (fst (step s e)) = Disconnected /\ o_bytes (snd (step s e)) = []).
  Proof.
    intros HW Hq. pose proof (step_st enc enc_reset enc_call enc_done dec dec_init dec_feed ores ores_reset ores_resolve ires ires_reset ires_resolve v_out v_in cfg s e HW) as Hs.
    assert (Hb : o_bytes (snd (step s e)) = []).
    { destruct e as [now p t|now dl|now|now data|now|now cap fill|now|now]; cbn [Model.step]; unfold out_of_res;
        try reflexivity; try (destruct (user_event cfg s p t); reflexivity).
      - cbn [snd o_bytes]. unfold Model.service. destruct Hq as [Hq|Hq]; rewrite Hq; reflexivity.
      - destruct (next_service_time cfg s now); reflexivity. }
    unfold quiet in *.
    destruct e as [now p t|now dl|now|now data|now|now cap fill|now|now]; cbn [HandshakeRunSt.st_step] in Hs;
      try (left; split; [|exact Hb]; destruct Hq as [Hq|Hq]; rewrite Hq in Hs; intuition congruence).
    right. exists now. split; [reflexivity|]. split; [|exact Hb]. destruct Hq as [Hq|Hq]; rewrite Hq in Hs; exact Hs.
  Qed.

  (* run-level: from a reachable quiet state, whatever happens short of a close, no byte is emitted and the state
     stays quiet; in particular nothing brings the engine back to Connected *)
  Theorem nothing_after_disconnect_from : forall h2 (s : state),
    WFX s -> quiet (s_st s) -> Forall ok_event h2 -> Forall not_close h2 ->
    quiet (s_st (fst (run s h2))) /\ forall out, In out (snd (run s h2)) -> o_bytes out = [].
  Proof.
    induction h2 as [|e r IH]; intros s HW Hq Hev Hnc; cbn [Model.run]; [split; [exact Hq|intros out []]|].
    inversion Hev as [|? ? He Hr]; subst. inversion Hnc as [|? ? Hn Hnr]; subst.
    pose proof (WF_step enc enc_reset enc_call enc_done dec dec_init dec_feed ores ores_reset ores_resolve ires ires_reset ires_resolve v_out v_in cfg HC Hcfg s e HW He) as HW1.
    destruct (quiet_step s e (proj1 (proj1 HW)) Hq) as [[Q1 Q2]|(now & -> & _)]; [|destruct Hn].
    destruct (step s e) as [s1 o1]. cbn [fst snd] in *. destruct (IH s1 HW1 Q1 Hr Hnr) as [I1 I2].
    destruct (run s1 r) as [s2 os]. cbn [fst snd] in *. split; [exact I1|]. intros out [<-|Hin]; [exact Q2|exact (I2 out Hin)].
  Qed.

  Theorem nothing_after_disconnect (o : ores) (i : ires) h h2 :
    ores_inv HC o -> ires_inv HC i -> Forall ok_event h -> Forall ok_event h2 -> Forall not_close h2 ->
    let s := fst (run (init o i) h) in
    s_st s = PendingDisconnect \/ s_st s = Halted ->
    (s_st (fst (run s h2)) = PendingDisconnect \/ s_st (fst (run s h2)) = Halted) /\
    forall out, In out (snd (run s h2)) -> o_bytes out = [].
  Proof.
    intros Ho Hi Hev Hev2 Hnc s Hq.
    pose proof (WF_run enc enc_reset enc_call enc_done dec dec_init dec_feed ores ores_reset ores_resolve ires ires_reset ires_resolve v_out v_in cfg HC Hcfg h _
                 (WF_init _ _ _ _ _ _ _ _ _ _ _ _ _ _ _ HC o i Ho Hi) Hev) as HW.
    exact (nothing_after_disconnect_from h2 s HW Hq Hev2 Hnc).
  Qed.

  (* within the service call that writes the last byte of the DISCONNECT the loop stops at once *)
  Theorem loop_stops_when_pending_disconnect f (s : state) m now cap fill acc dn :
    s_st s = PendingDisconnect -> service_loop (S f) s m now cap fill acc dn = mkSres s acc dn (Ok tt).
  Proof. intros H. cbn [Model.service_loop]. rewrite H. reflexivity. Qed.

  (* the protocol-state machine: how each state can be entered *)
  Theorem state_entry (s : state) e :
    WFS s ->
    let st' := s_st (fst (step s e)) in
    (st' = PendingConnack -> s_st s = PendingConnack \/ (s_st s = Disconnected /\ exists now dl, e = EvOpen now dl)) /\
    (st' = Disconnected -> (s_st s = Disconnected) \/ (s_st s <> Disconnected /\ exists now, e = EvClose now)) /\
    (st' = PendingDisconnect -> s_st s = PendingDisconnect \/ ((s_st s = Connected \/ s_st s = PendingConnack) /\ exists now cap fill, e = EvService now cap fill)).
  Proof.
    intros HW. cbv zeta. pose proof (step_st enc enc_reset enc_call enc_done dec dec_init dec_feed ores ores_reset ores_resolve ires ires_reset ires_resolve v_out v_in cfg s e HW) as Hs.
    destruct e as [now p t|now dl|now|now data|now|now cap fill|now|now]; cbn [HandshakeRunSt.st_step] in Hs;
      destruct (s_st s) eqn:Es; splits; intros E; rewrite E in Hs; try (intuition congruence); try discriminate.
    - right. split; [reflexivity|]. eauto.
    - right. split; [discriminate|]. eauto.
    - right. split; [discriminate|]. eauto.
    - right. split; [discriminate|]. eauto.
    - right. split; [discriminate|]. eauto.
    - right. split; [tauto|]. eauto.
    - right. split; [tauto|]. eauto.
  Qed.
End Run.
