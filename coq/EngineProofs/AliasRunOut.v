(* C17, engine level, outbound: every seat of the service loop is accepted by the reference machine
   of AliasRunLog.v, and the machine's resolver / slot / maximum stay equal to the engine's. *)
From GM Require Import Base.Prelude Base.Outcome Codec.Packets Codec.Settings Engine.Model
  EngineProofs.AssocLemmas EngineProofs.HandshakeRunTrace EngineProofs.AliasRunFrames EngineProofs.AliasRunLog.
From RecordUpdate Require Import RecordSet.
Import RecordSetNotations.
Open Scope N_scope.
#[local] Set Default Proof Using "Type".

(* the four component types are implicit in the engine functions, locally to this file *)
#[local] Arguments init {enc dec} _ {ores ires} _ _.
#[local] Arguments release {enc dec ores ires} _ _ _ _.
#[local] Arguments disconnect_completion {enc dec ores ires} _ _.
#[local] Arguments fail_op {enc dec ores ires} _ _ _ _.
#[local] Arguments ping_extension {enc dec ores ires} _ _.
#[local] Arguments succeed_op {enc dec ores ires} _ _ _ _.
#[local] Arguments fail_all {enc dec ores ires} _ _ _ _.
#[local] Arguments succeed_all {enc dec ores ires} _ _ _.
#[local] Arguments andthen {enc dec ores ires} _ _.
#[local] Arguments try_ {enc dec ores ires} _ _.
#[local] Arguments pure {enc dec ores ires} _.
#[local] Arguments create_operation {enc dec ores ires} _ _.
#[local] Arguments passes_now {enc dec ores ires} _ _ _.
#[local] Arguments user_event {enc dec ores ires} _ _ _ _.
#[local] Arguments create_connect {enc dec ores ires} _ _.
#[local] Arguments net_opened {enc dec} _ {ores ires} _ _ _.
#[local] Arguments op_exists {enc dec ores ires} _ _.
#[local] Arguments op_passes {enc dec ores ires} _ _ _.
#[local] Arguments partition_policy {enc dec ores ires} _ _ _.
#[local] Arguments closed_current {enc dec ores ires} _ _.
#[local] Arguments slow_start_init {enc dec ores ires} _ _.
#[local] Arguments update_retries {enc dec ores ires} _ _.
#[local] Arguments fail_exceeding {enc dec ores ires} _ _.
#[local] Arguments has_pubrel {enc dec ores ires} _ _.
#[local] Arguments net_closed_raw {enc dec ores ires} _ _.
#[local] Arguments net_closed {enc dec ores ires} _ _.
#[local] Arguments net_write_completion {enc dec ores ires} _ _.
#[local] Arguments acquire_free_pid {enc dec ores ires} _ _.
#[local] Arguments acquire_pid_for {enc dec ores ires} _ _.
#[local] Arguments unbind {enc dec ores ires} _ _.
#[local] Arguments passes_receive_max {enc dec ores ires} _ _.
#[local] Arguments throttled {enc dec ores ires} _ _.
#[local] Arguments has_pending_ack {enc dec ores ires} _.
#[local] Arguments dequeue {enc dec ores ires} _ _ _.
#[local] Arguments fully_written {enc dec ores ires} _ _.
#[local] Arguments service_keep_alive {enc dec ores ires} _ _ _.
#[local] Arguments process_ack_timeouts {enc dec ores ires} _ _ _.
#[local] Arguments halt_on_error {enc dec ores ires} _ _.
#[local] Arguments next_service_time {enc dec ores ires} _ _ _.
#[local] Arguments build_settings {enc dec ores ires} _ _ _.
#[local] Arguments apply_session {enc dec ores ires} _ _ _.
#[local] Arguments hres_of {enc dec ores ires} _ _.
#[local] Arguments pre_connack {enc dec ores ires} _.
#[local] Arguments sum_ss {enc dec ores ires} _.
#[local] Arguments handle_pingresp {enc dec ores ires} _.
#[local] Arguments handle_suback {enc dec ores ires} _ _ _.
#[local] Arguments handle_unsuback {enc dec ores ires} _ _ _.
#[local] Arguments publish_qos_of {enc dec ores ires} _ _.
#[local] Arguments handle_puback {enc dec ores ires} _ _ _.
#[local] Arguments handle_pubrec {enc dec ores ires} _ _ _.
#[local] Arguments handle_pubrel {enc dec ores ires} _ _.
#[local] Arguments handle_pubcomp {enc dec ores ires} _ _ _.
#[local] Arguments handle_publish {enc dec ores ires} _ _.
#[local] Arguments handle_disconnect {enc dec ores ires} _ _ _.
#[local] Arguments is_connect_op {enc dec ores ires} _ _.
#[local] Arguments connect_in_queue {enc dec ores ires} _.
#[local] Arguments reset {enc dec ores ires} _ _.
#[local] Arguments out_of_res {enc dec ores ires} _ _.
#[local] Arguments nst_queue {enc dec ores ires} _ _ _ _.
#[local] Arguments earliest_tmo {enc dec ores ires} _.
#[local] Arguments SeatStop {enc dec ores ires} _.
#[local] Arguments SeatContinue {enc dec ores ires} _ _.
#[local] Arguments SeatEncode {enc dec ores ires} _.



Section Out.
  Variable enc : Type.
  Variable enc_reset : version -> packet -> resolution -> outcome enc.
  Variable enc_call : enc -> N -> N -> outcome (bytes * enc).
  Variable enc_done : enc -> bool.
  Variable dec : Type.
  Variable dec_init : dec.
  Variable dec_feed : version -> N -> dec -> bytes -> dec * list packet * outcome unit.
  Variable ores : Type.
  Variable ores_reset : ores -> N -> ores.
  Variable ores_resolve : ores -> option N -> bytes -> outcome (ores * resolution).
  Variable ires : Type.
  Variable ires_reset : ires -> ires.
  Variable ires_resolve : ires -> option N -> bytes -> outcome (ires * bytes).
  Variable v_out : option settings -> connect_opts -> resolution -> packet -> outcome unit.
  Variable v_in : option settings -> packet -> outcome unit.
  Variable cfg : config.

  Notation state := (state enc dec ores ires).
  Notation sres := (sres enc dec ores ires).
  Notation hres := (hres enc dec ores ires).
  Notation res := (res enc dec ores ires).
  Notation seat := (seat enc dec ores ires).
  Notation step := (step enc enc_reset enc_call enc_done dec dec_init dec_feed ores ores_reset ores_resolve
                         ires ires_reset ires_resolve v_out v_in cfg).
  Notation run := (run enc enc_reset enc_call enc_done dec dec_init dec_feed ores ores_reset ores_resolve
                       ires ires_reset ires_resolve v_out v_in cfg).
  Notation seat_current := (seat_current enc enc_reset dec ores ores_reset ores_resolve ires v_out cfg).
  Notation service_loop := (service_loop enc enc_reset enc_call enc_done dec ores ores_reset ores_resolve ires v_out cfg).
  Notation service_queue := (service_queue enc enc_reset enc_call enc_done dec ores ores_reset ores_resolve ires v_out cfg).
  Notation service := (service enc enc_reset enc_call enc_done dec ores ores_reset ores_resolve ires v_out cfg).
  Notation handle_connack := (handle_connack enc dec ores ores_reset ires ires_reset v_in cfg).
  Notation handle_packet := (handle_packet enc dec ores ores_reset ires ires_reset v_in cfg).
  Notation handle_packets := (handle_packets enc dec ores ores_reset ires ires_reset ires_resolve v_in cfg).
  Notation net_data := (net_data enc dec dec_feed ores ores_reset ires ires_reset ires_resolve v_in cfg).
  Notation encode_next := (encode_next enc enc_call enc_done dec ores ires).
  Notation queue_fuel := (queue_fuel enc dec ores ires).
  Notation seat_state := (seat_state enc dec ores ires).

  Notation seat_current_a := (seat_current_a enc enc_reset dec ores ores_reset ores_resolve ires v_out cfg).
  Notation service_loop_a := (service_loop_a enc enc_reset enc_call enc_done dec ores ores_reset ores_resolve ires v_out cfg).
  Notation service_log := (service_log enc enc_reset enc_call enc_done dec ores ores_reset ores_resolve ires v_out cfg).
  Notation gst := (gst ores).
  Notation gstep := (gstep ores ores_reset ores_resolve).
  Notation gruns := (gruns ores ores_reset ores_resolve).
  Notation mkG := (mkG ores).

  Definition tam_ok (st : option settings) (cm : N) : Prop :=
    match st with Some x => st_topic_alias_maximum_to_server x = cm | None => True end.

  (* the engine state and the ghost state of the reference machine agree *)
  Definition Rel (s : state) (g : gst) : Prop :=
    s_ores s = g_ores ores g /\
    g_ph ores g = (match s_cur s with None => PIdle | Some id => PBusy id end) /\
    tam_ok (s_settings s) (g_cm ores g).

  Lemma Rel_al (s s' : state) g : al_of s' = al_of s -> Rel s g -> Rel s' g.
  Proof. intros H (A & B & C). destruct (al_fields _ _ H) as (E1 & _ & E3 & E4). unfold Rel. rewrite E1, E3, E4. auto. Qed.

  Lemma dflt_tam_ok st cm : tam_ok st cm -> dflt_tam st = cm \/ dflt_tam st = 0.
  Proof. destruct st; cbn; auto. Qed.

  (* the part of a seat block after the resolution *)
  Definition valid_pre (ph : phase) (id : N) (p : packet) (r : resolution) : Prop :=
    match p with
    | Publish pb => ph = PResolved id (pub_alias pb) (pub_topic pb) r
    | _ => ph = PPicked id /\ r = no_resolution
    end.

  Lemma tail_encode (g1 : gst) id p r ok : valid_pre (g_ph ores g1) id p r ->
    gruns g1 [OValid id p r (Ok tt); OEncode id p r ok] (mkG (g_ores ores g1) (PBusy id) (g_cm ores g1)).
  Proof.
    intros Hv. cbn. eexists. split; [split; [exact Hv|reflexivity]|]. eexists. split; [split; reflexivity|reflexivity].
  Qed.

  Lemma tail_panic (g1 : gst) id p r site : valid_pre (g_ph ores g1) id p r ->
    gruns g1 [OValid id p r (Panic site)] (mkG (g_ores ores g1) (PBusy id) (g_cm ores g1)).
  Proof. intros Hv. cbn. eexists. split; [split; [exact Hv|reflexivity]|reflexivity]. Qed.

  Lemma tail_reject (g1 : gst) id p r k m : valid_pre (g_ph ores g1) id p r -> (m = g_cm ores g1 \/ m = 0) ->
    gruns g1 (OValid id p r (Err k) :: match r_alias r with Some _ => [OReset m] | None => [] end ++ [ORejected id k])
          (mkG (match r_alias r with Some _ => ores_reset (g_ores ores g1) m | None => g_ores ores g1 end) PIdle (g_cm ores g1)).
  Proof.
    intros Hv Hm. cbn [gruns AliasRunLog.gruns]. eexists. split; [split; [exact Hv|reflexivity]|].
    destruct (r_alias r) as [a|] eqn:Ea; cbn [app AliasRunLog.gruns].
    - eexists. split; [cbn; exists id, p, r, k; split; [reflexivity|]; split; [congruence|]; split; [exact Hm|reflexivity]|].
      eexists. split; [cbn; split; [left; reflexivity|reflexivity]|reflexivity].
    - eexists. split; [cbn; split; [right; exists p, r; split; [reflexivity|exact Ea]|reflexivity]|reflexivity].
  Qed.

  (* ---- one seat ---- *)
  Theorem seat_a_spec (s : state) m acc dn (g : gst) :
    Rel s g ->
    exists g', gruns g (snd (seat_current_a s m acc dn)) g' /\
               Rel (seat_state (fst (seat_current_a s m acc dn))) g' /\
               s_ires (seat_state (fst (seat_current_a s m acc dn))) = s_ires s /\
               s_settings (seat_state (fst (seat_current_a s m acc dn))) = s_settings s.
  Proof.
    intros HR. pose proof HR as (R1 & R2 & R3). unfold AliasRunLog.seat_current_a.
    destruct (s_cur s) as [c|] eqn:Ec; [exists g; cbn; auto|].
    pose proof (dequeue_al cfg s m) as Hd. destruct (dequeue cfg s m) as [s1 next]. cbn [fst] in Hd.
    destruct (al_fields _ _ Hd) as (D1 & D2 & D3 & D4).
    destruct next as [id|]; [|exists g; cbn; split; [reflexivity|]; split; [eapply Rel_al; eauto|auto]].
    set (s2 := s1 <| s_cur := Some id |>).
    set (gp := mkG (g_ores ores g) (PPicked id) (g_cm ores g)).
    assert (Hpick : gstep g (OPick id) gp) by (cbn; split; [exact R2|reflexivity]).
    destruct (negb (op_exists s2 id)).
    { exists (mkG (g_ores ores g) PIdle (g_cm ores g)). cbn [fst snd seat_state HandshakeRunTrace.seat_state].
      split; [exists gp; split; [exact Hpick|]; eexists; split; [cbn; split; reflexivity|reflexivity]|].
      split; [unfold Rel; cbn; rewrite D1, D4; auto|auto]. }
    assert (Hstall : forall s' : state, s_ores s' = s_ores s -> s_cur s' = Some id -> s_settings s' = s_settings s ->
              gruns g [OPick id; OStall id] (mkG (g_ores ores g) (PBusy id) (g_cm ores g)) /\
              Rel s' (mkG (g_ores ores g) (PBusy id) (g_cm ores g))).
    { intros s' E1 E2 E3. split; [exists gp; split; [exact Hpick|]; eexists; split; [cbn; split; reflexivity|reflexivity]|].
      unfold Rel. cbn. rewrite E1, E2, E3. auto. }
    destruct (acquire_pid_for s2 id) as [s3|k|site] eqn:Ea.
    2,3: eexists; cbn [fst snd seat_state HandshakeRunTrace.seat_state sr_s]; destruct (Hstall s2) as [A B]; try reflexivity; try assumption;
         split; [exact A|split; [exact B|auto]].
    apply acquire_pid_for_al in Ea. destruct (al_fields _ _ Ea) as (A1 & A2 & A3 & A4).
    change (s_ores s2) with (s_ores s1) in A1. change (s_ires s2) with (s_ires s1) in A2. change (s_cur s2) with (Some id) in A3.
    change (s_settings s2) with (s_settings s1) in A4.
    destruct (lookup id (s_ops s3)) as [o|].
    2:{ eexists. cbn [fst snd seat_state HandshakeRunTrace.seat_state sr_s]. destruct (Hstall s3) as [A B]; try congruence.
        split; [exact A|split; [exact B|split; congruence]]. }
    set (packet := match op_pubrel o with Some pr => pr | None => op_packet o end).
    (* the resolution *)
    set (lr := match packet with
               | Publish pb => [OResolve id (pub_alias pb) (pub_topic pb) (res_of (ores_resolve (s_ores s3) (pub_alias pb) (pub_topic pb)))]
               | _ => [] end).
    assert (Hres : forall x : outcome (state * resolution),
              x = match packet with
                  | Publish pb => do (o', r) <- ores_resolve (s_ores s3) (pub_alias pb) (pub_topic pb) ; Ok (s3 <| s_ores := o' |>, r)
                  | _ => Ok (s3, no_resolution) end ->
              match x with
              | Ok (s4, r) => exists g1, gruns gp lr g1 /\ s_ores s4 = g_ores ores g1 /\ g_cm ores g1 = g_cm ores g /\
                                valid_pre (g_ph ores g1) id packet r /\
                                s_cur s4 = Some id /\ s_ires s4 = s_ires s /\ s_settings s4 = s_settings s
              | _ => gruns gp lr (mkG (g_ores ores g) (PBusy id) (g_cm ores g))
              end).
    { intros x ->. assert (E0 : s_ores s3 = g_ores ores g) by congruence.
      destruct packet as [| |pb| | | | | | | | | | | |]; subst lr;
        try (exists gp; cbn; split; [reflexivity|]; split; [congruence|]; split; [reflexivity|]; split; [split; reflexivity|]; split; [congruence|split; congruence]).
      rewrite E0. destruct (ores_resolve (g_ores ores g) (pub_alias pb) (pub_topic pb)) as [[o' r]|k|site] eqn:Er; cbn [obind res_of].
      - eexists. split; [cbn; eexists; split; [split; [reflexivity|]; split; [rewrite Er; reflexivity|rewrite Er; reflexivity]|reflexivity]|].
        cbn. split; [reflexivity|]. split; [reflexivity|]. split; [reflexivity|]. split; [congruence|split; congruence].
      - cbn. eexists; split; [split; [reflexivity|]; split; [rewrite Er; reflexivity|rewrite Er; reflexivity]|reflexivity].
      - cbn. eexists; split; [split; [reflexivity|]; split; [rewrite Er; reflexivity|rewrite Er; reflexivity]|reflexivity]. }
    specialize (Hres _ eq_refl).
    destruct (match packet with
              | Publish pb => do (o', r) <- ores_resolve (s_ores s3) (pub_alias pb) (pub_topic pb) ; Ok (s3 <| s_ores := o' |>, r)
              | _ => Ok (s3, no_resolution) end) as [[s4 r]|k|site].
    2,3: eexists; cbn [fst snd seat_state HandshakeRunTrace.seat_state sr_s];
         (split; [exists gp; split; [exact Hpick|exact Hres]|]); (split; [unfold Rel; cbn; rewrite A3; split; [congruence|]; split; [reflexivity|congruence]|split; congruence]).
    destruct Hres as (g1 & G1 & G2 & G3 & G4 & G5 & G6 & G7).
    assert (Hblock : forall tl g2, gruns g1 tl g2 -> gruns g (OPick id :: lr ++ tl) g2).
    { intros tl g2 H. exists gp. split; [exact Hpick|]. eapply gruns_app; eauto. }
    destruct (v_out (s_settings s4) (cf_connect cfg) r packet) as [u|k|site].
    - (* validated: the encoder is constructed with the same packet and resolution *)
      destruct u.
      assert (Hb : forall ok (s' : state), s_ores s' = s_ores s4 -> s_cur s' = Some id -> s_settings s' = s_settings s4 ->
                gruns g (OPick id :: lr ++ [OValid id packet r (Ok tt); OEncode id packet r ok]) (mkG (g_ores ores g1) (PBusy id) (g_cm ores g1)) /\
                Rel s' (mkG (g_ores ores g1) (PBusy id) (g_cm ores g1))).
      { intros ok s' E1 E2 E3. split; [apply Hblock; apply tail_encode; exact G4|]. unfold Rel. cbn. rewrite E1, E2, E3, G3, G7. auto. }
      destruct (enc_reset (cf_version cfg) packet r) as [e|k|site]; eexists; cbn [fst snd seat_state HandshakeRunTrace.seat_state sr_s];
        (destruct (Hb true s4 eq_refl G5 eq_refl) as [B1 B2]; destruct (Hb false s4 eq_refl G5 eq_refl) as [B3 B4]);
        (split; [first [exact B1|exact B3]|]); (split; [first [exact B4|apply (Rel_al s4); [reflexivity|exact B2]]|split; assumption]).
    - (* rejected: the operation is failed; a resolution with an alias resets the resolver *)
      cbv zeta.
      set (mx := match s_settings s4 with Some st => st_topic_alias_maximum_to_server st | None => 0 end).
      set (s4' := match r_alias r with Some _ => s4 <| s_ores := ores_reset (s_ores s4) mx |> | None => s4 end).
      assert (Hmx : mx = g_cm ores g1 \/ mx = 0).
      { subst mx. rewrite G7, G3. apply (dflt_tam_ok (s_settings s) (g_cm ores g)). exact R3. }
      pose proof (fail_op_al cfg (s4' <| s_cur := None |>) id k) as Hf.
      set (rf := fail_op cfg (s4' <| s_cur := None |>) id k) in *.
      destruct (al_fields _ _ Hf) as (F1 & F2 & F3 & F4). cbn in F1, F2, F3, F4.
      set (g2 := mkG (match r_alias r with Some _ => ores_reset (g_ores ores g1) mx | None => g_ores ores g1 end) PIdle (g_cm ores g1)).
      assert (Hrun : gruns g (OPick id :: lr ++ OValid id packet r (Err k) :: match r_alias r with Some _ => [OReset mx] | None => [] end ++ [ORejected id k]) g2).
      { apply Hblock. apply tail_reject; assumption. }
      assert (HR2 : Rel (r_s rf) g2).
      { unfold Rel, g2. cbn. rewrite F1, F3, F4. subst s4'. destruct (r_alias r); cbn; rewrite ?G2, G3, G7; auto. }
      assert (Hi : s_ires (r_s rf) = s_ires s /\ s_settings (r_s rf) = s_settings s).
      { rewrite F2, F4. subst s4'. destruct (r_alias r); cbn; auto. }
      destruct (r_out rf); exists g2; cbn [fst snd seat_state HandshakeRunTrace.seat_state sr_s]; (split; [exact Hrun|split; [exact HR2|exact Hi]]).
    - eexists. cbn [fst snd seat_state HandshakeRunTrace.seat_state sr_s].
      split; [apply Hblock; apply tail_panic; exact G4|]. split; [unfold Rel; cbn; rewrite G5, G3, G7; auto|auto].
  Qed.

  (* ---- the encode half of an iteration ---- *)
  Lemma encode_next_al now cap fill (s5 : state) acc dn :
    match encode_next now cap fill s5 acc dn with
    | inl r => al_of (sr_s r) = al_of s5
    | inr (s7, _) => exists id, s_cur s5 = Some id /\ s_cur s7 = None /\ s_ores s7 = s_ores s5 /\
                                s_ires s7 = s_ires s5 /\ s_settings s7 = s_settings s5
    end.
  Proof.
    unfold HandshakeRunTrace.encode_next. destruct (s_cur s5) as [id|] eqn:Ec; [|reflexivity].
    destruct (negb (op_exists s5 id)); [reflexivity|]. destruct (s_enc s5) as [e|]; [|reflexivity].
    destruct (enc_call e (fill + len acc) cap) as [[out e']|k|site]; [|reflexivity|reflexivity].
    cbv zeta. destruct (enc_done e'); [|reflexivity].
    destruct (fully_written (s5 <| s_enc := Some e' |>) now) as [s7|k|site] eqn:Ef; [|reflexivity|reflexivity].
    apply fully_written_al in Ef. destruct Ef as (F1 & F2 & F3 & F4 & _). exists id. auto.
  Qed.

  (* ---- the loop ---- *)
  Theorem loop_a_spec : forall f (s : state) m now cap fill acc dn (g : gst),
    Rel s g ->
    exists g', gruns g (snd (service_loop_a f s m now cap fill acc dn)) g' /\
               Rel (sr_s (fst (service_loop_a f s m now cap fill acc dn))) g' /\
               s_ires (sr_s (fst (service_loop_a f s m now cap fill acc dn))) = s_ires s /\
               s_settings (sr_s (fst (service_loop_a f s m now cap fill acc dn))) = s_settings s.
  Proof.
    induction f as [|f IH]; intros s m now cap fill acc dn g HR; cbn [AliasRunLog.service_loop_a].
    { exists g. cbn. auto. }
    destruct (negb (pstate_eqb (s_st s) PendingConnack || pstate_eqb (s_st s) Connected)); [exists g; cbn; auto|].
    destruct (seat_a_spec s m acc dn g HR) as (g1 & S1 & S2 & S3 & S4).
    destruct (seat_current_a s m acc dn) as [[r|s5 dn'|s5] l]; cbn [fst snd seat_state HandshakeRunTrace.seat_state] in *.
    - exists g1. auto.
    - destruct (IH s5 m now cap fill acc dn' g1 S2) as (g2 & I1 & I2 & I3 & I4). exists g2.
      split; [eapply gruns_app; eauto|]. split; [exact I2|split; congruence].
    - pose proof (encode_next_al now cap fill s5 acc dn) as He.
      destruct (encode_next now cap fill s5 acc dn) as [r|[s7 acc']].
      + exists g1. cbn [fst snd]. destruct (al_fields _ _ He) as (E1 & E2 & E3 & E4).
        split; [exact S1|]. split; [eapply Rel_al; eauto|split; congruence].
      + destruct He as (id & C1 & C2 & C3 & C4 & C5). rewrite C1.
        destruct S2 as (R1 & R2 & R3). rewrite C1 in R2.
        set (gd := mkG (g_ores ores g1) PIdle (g_cm ores g1)).
        assert (HRd : Rel s7 gd) by (unfold Rel, gd; cbn; rewrite C2, C3, C5; auto).
        destruct (IH s7 m now cap fill acc' dn gd HRd) as (g2 & I1 & I2 & I3 & I4). exists g2. cbn [fst snd].
        split; [|split; [exact I2|split; congruence]].
        eapply gruns_app; [exact S1|]. cbn [app]. exists gd. split; [cbn; split; [exact R2|reflexivity]|exact I1].
  Qed.

  (* ---- one service call ---- *)
  Theorem service_a_spec (s : state) now cap fill (g : gst) :
    Rel s g ->
    exists g', gruns g (service_log s now cap fill) g' /\ Rel (sr_s (service s now cap fill)) g' /\
               s_ires (sr_s (service s now cap fill)) = s_ires s.
  Proof.
    intros HR.
    assert (Hq : forall (s1 : state) m, al_of s1 = al_of s ->
              exists g', gruns g (snd (service_loop_a (queue_fuel s1) s1 m now cap fill [] [])) g' /\
                         Rel (sr_s (service_queue s1 m now cap fill)) g' /\
                         s_ires (sr_s (service_queue s1 m now cap fill)) = s_ires s).
    { intros s1 m E. destruct (al_fields _ _ E) as (E1 & E2 & E3 & E4).
      destruct (loop_a_spec (queue_fuel s1) s1 m now cap fill [] [] g (Rel_al _ _ _ E HR)) as (g' & L1 & L2 & L3 & L4).
      exists g'. split; [exact L1|]. rewrite service_queue_a. cbv zeta.
      set (r0 := fst (service_loop_a (queue_fuel s1) s1 m now cap fill [] [])) in *.
      destruct (sr_bytes r0); cbn [sr_s].
      - split; [exact L2|congruence].
      - split; [apply (Rel_al (sr_s r0)); [reflexivity|exact L2]|]. change (s_ires (sr_s r0) = s_ires s). congruence. }
    unfold Model.service, AliasRunLog.service_log, AliasRunLog.service_queue_log. cbv zeta. cbn [sr_s].
    assert (Hh : forall (s' : state) out, al_of s' = al_of s -> Rel (halt_on_error s' out) g /\ s_ires (halt_on_error s' out) = s_ires s).
    { intros s' out E. pose proof (halt_on_error_al s' out) as E'. destruct (al_fields _ _ E) as (_ & E2 & _). destruct (al_fields _ _ E') as (_ & E2' & _).
      split; [eapply Rel_al; [etransitivity; eassumption|exact HR]|congruence]. }
    destruct (s_st s).
    - exists g. split; [reflexivity|]. apply (Hh s (Ok tt)). reflexivity.
    - destruct (s_connack_to s) as [t|]; [|exists g; split; [reflexivity|apply (Hh s); reflexivity]].
      destruct (t <=? now); [exists g; split; [reflexivity|apply (Hh s); reflexivity]|].
      destruct (Hq s false eq_refl) as (g' & Q1 & Q2 & Q3). exists g'. split; [exact Q1|].
      pose proof (halt_on_error_al (sr_s (service_queue s false now cap fill)) (sr_out (service_queue s false now cap fill))) as E'.
      destruct (al_fields _ _ E') as (_ & E2' & _). split; [eapply Rel_al; eauto|congruence].
    - destruct (service_keep_alive cfg s now) as [s1|k|site] eqn:Ek; [|exists g; split; [reflexivity|apply (Hh s); reflexivity]..].
      apply service_keep_alive_al in Ek. destruct (Hq s1 true Ek) as (g' & Q1 & Q2 & Q3). exists g'. split; [exact Q1|].
      set (q := service_queue s1 true now cap fill) in *.
      destruct (sr_out q); cbn [sr_s sr_out].
      + pose proof (process_ack_timeouts_al cfg (sr_s q) now) as Ep.
        match goal with |- context [halt_on_error ?a ?b] => pose proof (halt_on_error_al a b) as E' end.
        destruct (al_fields _ _ Ep) as (_ & P2 & _). destruct (al_fields _ _ E') as (_ & E2' & _).
        split; [eapply Rel_al; [exact E'|]; eapply Rel_al; eauto|congruence].
      + match goal with |- context [halt_on_error ?a ?b] => pose proof (halt_on_error_al a b) as E' end.
        destruct (al_fields _ _ E') as (_ & E2' & _). split; [eapply Rel_al; eauto|congruence].
      + match goal with |- context [halt_on_error ?a ?b] => pose proof (halt_on_error_al a b) as E' end.
        destruct (al_fields _ _ E') as (_ & E2' & _). split; [eapply Rel_al; eauto|congruence].
    - exists g. split; [reflexivity|]. cbn [sr_s sr_out].
      pose proof (process_ack_timeouts_al cfg s now) as Ep.
      match goal with |- context [halt_on_error ?a ?b] => pose proof (halt_on_error_al a b) as E' end.
      destruct (al_fields _ _ Ep) as (_ & P2 & _). destruct (al_fields _ _ E') as (_ & E2' & _).
      split; [eapply Rel_al; [exact E'|]; eapply Rel_al; eauto|congruence].
    - exists g. split; [reflexivity|]. apply (Hh s). reflexivity.
  Qed.
End Out.
