(* The service-time theorems of SvcTime.v carry the premise "while PendingConnack a CONNACK deadline
   is set".  It is a conjunct of the engine well-formedness invariant (WFDefs.WFP), hence holds in
   every reachable state: run-level versions without the premise, for abstract components
   satisfying comps_ok and for the concrete engine of Engine/Instance.v. *)
From GM Require Import Base.Prelude Base.Outcome Codec.Packets Codec.Settings Alias.Outbound Engine.Model Engine.Instance
  EngineProofs.WFDefs EngineProofs.WFStep EngineProofs.WFProps EngineProofs.WFInstance EngineProofs.SvcTime.
Open Scope N_scope.

Lemma WFP_connack_deadline {enc dec ores ires : Type} cfg (s : state enc dec ores ires) :
  WFP cfg s -> s_st s = PendingConnack -> s_connack_to s <> None.
Proof. unfold WFP. intros H E. rewrite E in H. tauto. Qed.

Section SvcTimeWF.
  Variable enc : Type.
  Variable enc_reset : version -> packet -> resolution -> outcome enc.
  Variable enc_call : enc -> N -> N -> outcome (bytes * enc).
  Variable enc_done : enc -> bool.
  Variable dec : Type.
  Variable dec_init : dec.
  Variable dec_feed : version -> N -> dec -> bytes -> dec * list packet * outcome unit.
  Variable ores : Type.
  Variable ores_reset : ores -> N -> ores.
  Variable ores_resolve : ores -> option N -> bytes -> outcome (ores * resolution).
  Variable ires : Type.
  Variable ires_reset : ires -> ires.
  Variable ires_resolve : ires -> option N -> bytes -> outcome (ires * bytes).
  Variable v_out : option settings -> connect_opts -> resolution -> packet -> outcome unit.
  Variable v_in : option settings -> packet -> outcome unit.
  Variable cfg : config.
  Variable HC : comps_ok enc enc_reset enc_call dec dec_init dec_feed ores ores_reset ores_resolve ires ires_reset ires_resolve v_out v_in.
  Hypothesis Hcfg : ok_cfg cfg.

  Notation init := (Model.init enc dec dec_init ores ires).
  Notation run := (Model.run enc enc_reset enc_call enc_done dec dec_init dec_feed ores ores_reset ores_resolve ires ires_reset ires_resolve v_out v_in cfg).
  Notation next_service_time := (Model.next_service_time enc dec ores ires cfg).
  Notation candidates := (SvcTime.candidates enc dec ores ires cfg).

  Lemma reachable_connack_deadline o i h :
    ores_inv HC o -> ires_inv HC i -> Forall ok_event h ->
    s_st (fst (run (init o i) h)) = PendingConnack -> s_connack_to (fst (run (init o i) h)) <> None.
  Proof.
    intros Ho Hi Hall. apply (WFP_connack_deadline cfg).
    exact (proj2 (proj1 (reachable_wf _ _ _ enc_done _ _ _ _ _ _ _ _ _ _ _ cfg HC Hcfg o i h Ho Hi Hall))).
  Qed.

  Theorem reported_time_is_min_run o i h now :
    ores_inv HC o -> ires_inv HC i -> Forall ok_event h ->
    exists r, next_service_time (fst (run (init o i) h)) now = Ok r /\ is_min r (candidates (fst (run (init o i) h)) now).
  Proof.
    intros Ho Hi Hall. apply (next_service_time_min enc dec ores ires cfg). apply reachable_connack_deadline; assumption.
  Qed.

  Theorem no_lost_wakeup_run o i h now :
    ores_inv HC o -> ires_inv HC i -> Forall ok_event h ->
    (s_st (fst (run (init o i) h)) = PendingConnack \/ s_st (fst (run (init o i) h)) = Connected) ->
    s_pwc (fst (run (init o i) h)) = false ->
    (s_cur (fst (run (init o i) h)) <> None \/ s_hq (fst (run (init o i) h)) <> []) ->
    exists t, next_service_time (fst (run (init o i) h)) now = Ok (Some t) /\ t <= now.
  Proof.
    intros Ho Hi Hall Hst Hp Hq. apply (no_lost_wakeup enc dec ores ires cfg); try assumption.
    apply reachable_connack_deadline; assumption.
  Qed.
End SvcTimeWF.

(* the concrete engine *)
Theorem instance_reported_time_is_min (cfg : config) (k : resolver_kind) (h : list event) now :
  ok_cfg cfg -> Forall ok_event h ->
  exists r, Model.next_service_time enc Framing.decoder ores Inbound.ires cfg (fst (i_run cfg (i_init cfg k) h)) now = Ok r /\
            is_min r (SvcTime.candidates enc Framing.decoder ores Inbound.ires cfg (fst (i_run cfg (i_init cfg k) h)) now).
Proof.
  intros Hcfg Hall. exact (reported_time_is_min_run _ _ _ enc_done _ _ _ _ _ _ _ _ _ _ _ cfg instance_comps_ok Hcfg _ _ h now I I Hall).
Qed.

Theorem instance_no_lost_wakeup (cfg : config) (k : resolver_kind) (h : list event) now :
  ok_cfg cfg -> Forall ok_event h ->
  (s_st (fst (i_run cfg (i_init cfg k) h)) = PendingConnack \/ s_st (fst (i_run cfg (i_init cfg k) h)) = Connected) ->
  s_pwc (fst (i_run cfg (i_init cfg k) h)) = false ->
  (s_cur (fst (i_run cfg (i_init cfg k) h)) <> None \/ s_hq (fst (i_run cfg (i_init cfg k) h)) <> []) ->
  exists t, Model.next_service_time enc Framing.decoder ores Inbound.ires cfg (fst (i_run cfg (i_init cfg k) h)) now = Ok (Some t) /\ t <= now.
Proof.
  intros Hcfg Hall. exact (no_lost_wakeup_run _ _ _ enc_done _ _ _ _ _ _ _ _ _ _ _ cfg instance_comps_ok Hcfg _ _ h now I I Hall).
Qed.
