(* C04 at run level: the close theorems of DeliveryClose.v applied to EVERY reachable state.  The premises of
   close_requeues (no panic, packet ids identify their operations) follow from the engine invariant WF, which
   holds after every event history (WFStep.WF_run / WFProps.reachable_wf), and WF adds what the pending-publish
   table means: its entries are QoS >= 1 publishes that hold the packet id they are filed under. *)
From GM Require Import Base.Prelude Base.Outcome Codec.Packets Codec.Settings Engine.Model
  EngineProofs.AssocLemmas EngineProofs.PacketIds EngineProofs.WFLemmas EngineProofs.WFDefs EngineProofs.WFCore
  EngineProofs.WFComplete EngineProofs.WFClose EngineProofs.WFClose2 EngineProofs.WFStep EngineProofs.WFProps
  EngineProofs.WFData2 EngineProofs.SvcTimeout EngineProofs.DeliveryBase EngineProofs.DeliveryClose EngineProofs.DeliverySession.
From RecordUpdate Require Import RecordSet.
Import RecordSetNotations.
Open Scope N_scope.

#[local] Arguments init {enc dec} _ {ores ires} _ _.
#[local] Arguments release {enc dec ores ires} _ _ _ _.
#[local] Arguments disconnect_completion {enc dec ores ires} _ _.
#[local] Arguments fail_op {enc dec ores ires} _ _ _ _.
#[local] Arguments ping_extension {enc dec ores ires} _ _.
#[local] Arguments succeed_op {enc dec ores ires} _ _ _ _.
#[local] Arguments fail_all {enc dec ores ires} _ _ _ _.
#[local] Arguments succeed_all {enc dec ores ires} _ _ _.
#[local] Arguments andthen {enc dec ores ires} _ _.
#[local] Arguments try_ {enc dec ores ires} _ _.
#[local] Arguments pure {enc dec ores ires} _.
#[local] Arguments create_operation {enc dec ores ires} _ _.
#[local] Arguments passes_now {enc dec ores ires} _ _ _.
#[local] Arguments user_event {enc dec ores ires} _ _ _ _.
#[local] Arguments create_connect {enc dec ores ires} _ _.
#[local] Arguments net_opened {enc dec} _ {ores ires} _ _ _.
#[local] Arguments op_exists {enc dec ores ires} _ _.
#[local] Arguments op_passes {enc dec ores ires} _ _ _.
#[local] Arguments partition_policy {enc dec ores ires} _ _ _.
#[local] Arguments closed_current {enc dec ores ires} _ _.
#[local] Arguments slow_start_init {enc dec ores ires} _ _.
#[local] Arguments update_retries {enc dec ores ires} _ _.
#[local] Arguments fail_exceeding {enc dec ores ires} _ _.
#[local] Arguments has_pubrel {enc dec ores ires} _ _.
#[local] Arguments net_closed_raw {enc dec ores ires} _ _.
#[local] Arguments net_closed {enc dec ores ires} _ _.
#[local] Arguments net_write_completion {enc dec ores ires} _ _.
#[local] Arguments acquire_free_pid {enc dec ores ires} _ _.
#[local] Arguments acquire_pid_for {enc dec ores ires} _ _.
#[local] Arguments unbind {enc dec ores ires} _ _.
#[local] Arguments passes_receive_max {enc dec ores ires} _ _.
#[local] Arguments throttled {enc dec ores ires} _ _.
#[local] Arguments has_pending_ack {enc dec ores ires} _.
#[local] Arguments dequeue {enc dec ores ires} _ _ _.
#[local] Arguments fully_written {enc dec ores ires} _ _.
#[local] Arguments service_keep_alive {enc dec ores ires} _ _ _.
#[local] Arguments process_ack_timeouts {enc dec ores ires} _ _ _.
#[local] Arguments halt_on_error {enc dec ores ires} _ _.
#[local] Arguments next_service_time {enc dec ores ires} _ _ _.
#[local] Arguments build_settings {enc dec ores ires} _ _ _.
#[local] Arguments apply_session {enc dec ores ires} _ _ _.
#[local] Arguments hres_of {enc dec ores ires} _ _.
#[local] Arguments pre_connack {enc dec ores ires} _.
#[local] Arguments sum_ss {enc dec ores ires} _.
#[local] Arguments handle_pingresp {enc dec ores ires} _.
#[local] Arguments handle_suback {enc dec ores ires} _ _ _.
#[local] Arguments handle_unsuback {enc dec ores ires} _ _ _.
#[local] Arguments publish_qos_of {enc dec ores ires} _ _.
#[local] Arguments handle_puback {enc dec ores ires} _ _ _.
#[local] Arguments handle_pubrec {enc dec ores ires} _ _ _.
#[local] Arguments handle_pubrel {enc dec ores ires} _ _.
#[local] Arguments handle_pubcomp {enc dec ores ires} _ _ _.
#[local] Arguments handle_publish {enc dec ores ires} _ _.
#[local] Arguments handle_disconnect {enc dec ores ires} _ _ _.
#[local] Arguments is_connect_op {enc dec ores ires} _ _.
#[local] Arguments connect_in_queue {enc dec ores ires} _.
#[local] Arguments reset {enc dec ores ires} _ _.
#[local] Arguments out_of_res {enc dec ores ires} _ _.
#[local] Arguments nst_queue {enc dec ores ires} _ _ _ _.
#[local] Arguments earliest_tmo {enc dec ores ires} _.
#[local] Arguments SeatStop {enc dec ores ires} _.
#[local] Arguments SeatContinue {enc dec ores ires} _ _.
#[local] Arguments SeatEncode {enc dec ores ires} _.

Section WfClose.
  Context {enc dec ores ires : Type}.
  Notation state := (state enc dec ores ires).
  Variable cfg : config.
  Notation dgop := (DeliveryBase.gop enc dec ores ires).

  Lemma wfs_pid_consistent (s : state) : WFS s -> SvcTimeout.pid_consistent enc dec ores ires s.
  Proof. intros HW p id Hin id' o' Hl Hp. symmetry. eapply (wfc_ppub_owner [] (core_of s)); eauto. Qed.

  (* every entry of the pending-publish table of a well-formed state, through a close *)
  Theorem wf_close_requeues (s : state) :
    WFS s -> s_st s <> Disconnected ->
    let r := net_closed cfg s in
    let s' := r_s r in
    r_out r = Ok tt /\ s_st s' = Disconnected /\ s_ppub s' = [] /\
    (forall p i, In (p, i) (s_ppub s) ->
       exists o pb, dgop s i = Some o /\ op_packet o = Publish pb /\ pub_pid pb = p /\ op_pid o = Some p /\ pub_qos pb <> 0 /\
         (dgop s' i = None \/
          (In i (s_rq s') /\ exists o', dgop s' i = Some o' /\ op_packet o' = with_dup true (Publish pb) /\
             op_pid o' = Some p /\ op_pubrel o' = op_pubrel o /\ lookup p (s_alloc s') = Some i))) /\
    (forall i, In i (s_rq s) -> In i (s_rq s')) /\
    (forall i, In i (s_rq s') -> In i (cur_requeued enc dec ores ires s) \/ In i (s_rq s) \/ exists p, In (p, i) (s_ppub s)) /\
    (forall i o', dgop s' i = Some o' -> ~ In i (map snd (s_ppub s)) ->
       exists o, dgop s i = Some o /\ op_packet o' = op_packet o /\ op_pid o' = op_pid o /\ op_pubrel o' = op_pubrel o).
  Proof.
    intros HW Hst. destruct (net_closed_spec cfg s HW Hst) as (Eo & HW' & Hst' & _ & _). cbv zeta.
    assert (Hnp : is_panic (r_out (net_closed cfg s)) = false) by (rewrite Eo; reflexivity).
    destruct (close_requeues enc dec ores ires cfg s Hst Hnp) as (f & Rq & Pp & Ops & Keep). cbv zeta in *.
    set (l := map snd (filter f (s_ppub s))) in *.
    split; [exact Eo|]. split; [exact Hst'|]. split; [exact Pp|]. split; [|split; [|split]].
    - intros p i Hin. destruct (w_ppub _ _ HW _ _ Hin) as (o & Ho & Hp & Hq).
      destruct (w_bound _ _ HW _ _ _ Ho Hp) as (_ & Hpk & _).
      destruct (op_packet o) as [ | |pb| | | | | | | | | | | | ] eqn:Epk; cbn in Hq; try discriminate.
      cbn in Hpk. exists o, pb. split; [exact Ho|]. split; [exact Epk|]. split; [congruence|]. split; [exact Hp|].
      split; [destruct (pub_qos pb =? 0) eqn:E; [discriminate|lia]|].
      destruct (dgop (r_s (net_closed cfg s)) i) as [o'|] eqn:E'; [right|left; reflexivity].
      assert (Hil : In i l) by (apply (Keep (wfs_pid_consistent s HW) p i Hin); congruence).
      split; [rewrite Rq; apply in_or_app; right; apply in_or_app; right; exact Hil|].
      exists o'. split; [reflexivity|]. destruct (Ops _ _ E') as (o0 & Ho0 & (M1 & M2 & _) & Mp).
      assert (Ho' : dgop s i = Some o) by exact Ho. rewrite Ho' in Ho0. inversion Ho0; subst o0.
      assert (Em : mem i l = true) by (apply mem_In; exact Hil). rewrite Em, Epk in Mp.
      split; [exact Mp|]. split; [congruence|]. split; [exact M1|].
      assert (Hp' : op_pid o' = Some p) by congruence.
      destruct (w_bound _ _ HW' i o' p E' Hp') as (B1 & _). exact B1.
    - intros i Hi. rewrite Rq. apply in_or_app. right. apply in_or_app. left. exact Hi.
    - intros i Hi. rewrite Rq in Hi. apply in_app_or in Hi. destruct Hi as [Hi|Hi]; [left; exact Hi|].
      apply in_app_or in Hi. destruct Hi as [Hi|Hi]; [right; left; exact Hi|]. right; right.
      unfold l in Hi. apply in_map_iff in Hi. destruct Hi as ([p i'] & Heq & Hin). cbn in Heq. subst i'.
      apply filter_In in Hin. exists p. tauto.
    - intros i o' Hi Hni. destruct (Ops _ _ Hi) as (o & Ho & (M1 & M2 & _) & Mp). exists o. split; [exact Ho|].
      assert (Em : mem i l = false).
      { apply mem_false_iff. intros Hil. apply Hni. eapply in_map_snd_filter. exact Hil. }
      rewrite Em in Mp. auto.
  Qed.

  (* ---- session handling in a well-formed state ---- *)
  (* in the state in which handle_connack calls it, apply_session does not panic: the premise of
     session_absent_restarts holds *)
  Theorem wf_session_no_panic (s : state) sp :
    WFS s -> W9 cfg s -> s_st s = Connected ->
    s_hq s = [] -> s_ppub s = [] -> s_pnon s = [] -> s_tmo s = [] -> s_pwco s = [] ->
    (forall i, s_cur s = Some i -> getop s i = None) ->
    is_panic (r_out (apply_session cfg s sp)) = false.
  Proof.
    intros HW H9 Hst E1 E2 E3 E4 E5 Hcur.
    destruct (apply_session_spec cfg s sp HW H9 Hst E1 E2 E3 E4 E5 Hcur) as (Hn & _).
    apply nopanic_is_panic. exact Hn.
  Qed.

  (* session present: an operation waiting in the resubmit queue (and not also in the user queue) is untouched and
     still owns its packet id in the allocation table *)
  Theorem wf_session_present_keeps (s : state) :
    WFS s ->
    let s' := r_s (apply_session cfg s true) in
    forall i o, In i (s_rq s) -> ~ In i (s_uq s) -> dgop s i = Some o ->
      In i (s_rq s') /\ dgop s' i = Some o /\ (forall p, op_pid o = Some p -> lookup p (s_alloc s') = Some i).
  Proof.
    intros HW. cbv zeta. intros i o Hr Hu Ho.
    destruct (session_present_keeps enc dec ores ires cfg s) as (_ & Rq & _ & Ops & _ & _ & Keep). cbv zeta in *.
    assert (Em : mem i (s_uq s) = false) by (apply mem_false_iff; exact Hu).
    split; [rewrite Rq; apply (Permutation.Permutation_in _ (Permutation.Permutation_sym (sort_perm _))); exact Hr|].
    split; [rewrite Ops, Em; exact Ho|].
    intros p Hp. destruct (w_bound _ _ HW i o p Ho Hp) as (B1 & _). apply Keep; [exact B1|].
    intros j o' Hj Ho' Hp'. apply Hu. replace i with j; [exact Hj|]. eapply (wfc_unique [] (core_of s)); eauto.
  Qed.
End WfClose.

Section Run.
  Variable enc : Type.
  Variable enc_reset : version -> packet -> resolution -> outcome enc.
  Variable enc_call : enc -> N -> N -> outcome (bytes * enc).
  Variable enc_done : enc -> bool.
  Variable dec : Type.
  Variable dec_init : dec.
  Variable dec_feed : version -> N -> dec -> bytes -> dec * list packet * outcome unit.
  Variable ores : Type.
  Variable ores_reset : ores -> N -> ores.
  Variable ores_resolve : ores -> option N -> bytes -> outcome (ores * resolution).
  Variable ires : Type.
  Variable ires_reset : ires -> ires.
  Variable ires_resolve : ires -> option N -> bytes -> outcome (ires * bytes).
  Variable v_out : option settings -> connect_opts -> resolution -> packet -> outcome unit.
  Variable v_in : option settings -> packet -> outcome unit.
  Variable cfg : config.
  Variable HC : comps_ok enc enc_reset enc_call dec dec_init dec_feed ores ores_reset ores_resolve ires ires_reset ires_resolve v_out v_in.
  Hypothesis Hcfg : ok_cfg cfg.

  Notation state := (state enc dec ores ires).
  Notation step := (step enc enc_reset enc_call enc_done dec dec_init dec_feed ores ores_reset ores_resolve
                         ires ires_reset ires_resolve v_out v_in cfg).
  Notation run := (run enc enc_reset enc_call enc_done dec dec_init dec_feed ores ores_reset ores_resolve
                       ires ires_reset ires_resolve v_out v_in cfg).
  Notation init := (init (enc:=enc) dec_init).
  Notation dgop := (DeliveryBase.gop enc dec ores ires).

  (* after ANY event history: a close re-queues every unacknowledged QoS 1/2 publish (PUBREL-state ones included)
     marked DUP, with its packet id and its PUBREL slot, or fails it; nothing else enters the resubmit queue *)
  Theorem reachable_close_requeues (o0 : ores) (i0 : ires) h now :
    ores_inv HC o0 -> ires_inv HC i0 -> Forall ok_event h ->
    let s := fst (run (init o0 i0) h) in
    s_st s <> Disconnected ->
    let s' := fst (step s (EvClose now)) in
    o_res (snd (step s (EvClose now))) = Ok tt /\ s_ppub s' = [] /\
    (forall p i, In (p, i) (s_ppub s) ->
       exists o pb, dgop s i = Some o /\ op_packet o = Publish pb /\ pub_pid pb = p /\ op_pid o = Some p /\ pub_qos pb <> 0 /\
         (dgop s' i = None \/
          (In i (s_rq s') /\ exists o', dgop s' i = Some o' /\ op_packet o' = with_dup true (Publish pb) /\
             op_pid o' = Some p /\ op_pubrel o' = op_pubrel o /\ lookup p (s_alloc s') = Some i))) /\
    (forall i, In i (s_rq s) -> In i (s_rq s')) /\
    (forall i, In i (s_rq s') -> In i (cur_requeued enc dec ores ires s) \/ In i (s_rq s) \/ exists p, In (p, i) (s_ppub s)) /\
    (forall i o', dgop s' i = Some o' -> ~ In i (map snd (s_ppub s)) ->
       exists o, dgop s i = Some o /\ op_packet o' = op_packet o /\ op_pid o' = op_pid o /\ op_pubrel o' = op_pubrel o).
  Proof.
    intros Ho0 Hi0 Hall. cbv zeta. intros Hst.
    destruct (reachable_wf enc enc_reset enc_call enc_done dec dec_init dec_feed ores ores_reset ores_resolve ires ires_reset ires_resolve
                v_out v_in cfg HC Hcfg o0 i0 h Ho0 Hi0 Hall) as [[HW _] _].
    set (s := fst (run (init o0 i0) h)) in *.
    destruct (wf_close_requeues cfg s HW Hst) as (Eo & _ & A & B & C & D & E). cbv zeta in *.
    cbn [Model.step]. unfold out_of_res. cbn [fst snd o_res]. rewrite Eo. cbn [halt_on_error].
    split; [reflexivity|]. split; [exact A|]. split; [exact B|]. split; [exact C|]. split; [exact D|exact E].
  Qed.
End Run.
