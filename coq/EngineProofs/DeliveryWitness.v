(* Non-vacuity witnesses for the C04 delivery theorems, on the instantiated engine (Engine/Instance.v):
   the reachable state w_state of WFWitness.v (connected, QoS 1 publish = operation 2 written with packet
   id 1 and awaiting its PUBACK) satisfies the premises of close_requeues / puback_completes, the closed state
   w_closed those of the session theorems; the conclusions are not trivial on them. *)
From GM Require Import Base.Prelude Base.Outcome Codec.Packets Codec.Settings Codec.Framing Alias.Outbound Alias.Inbound
  Engine.Model Engine.Instance EngineProofs.WFDefs EngineProofs.WFWitness EngineProofs.SvcTimeout EngineProofs.DeliveryBase
  EngineProofs.DeliverySession EngineProofs.DeliveryAck.
Open Scope N_scope.

Definition d_ack : ack := default_ack 1.
Definition d_cfg_nothing : config := mkConfig V5 3 false None 10000 w_connect.      (* PreserveNothing *)
Definition d_dup (s : istate) : list (N * bool * option N) :=
  map (fun x => (fst x, dup_of (op_packet (snd x)), op_pid (snd x))) (s_ops s).

(* close: premises of close_requeues hold in w_state; the pending publish is re-queued with DUP and its id *)
Lemma d_close :
  s_st w_state <> Disconnected /\ is_panic (r_out (net_closed enc decoder ores ires w_cfg w_state)) = false /\
  s_ppub w_state = [(1, 2)] /\ d_dup w_state = [(2, false, Some 1)] /\
  s_rq (r_s (net_closed enc decoder ores ires w_cfg w_state)) = [2] /\
  d_dup (r_s (net_closed enc decoder ores ires w_cfg w_state)) = [(2, true, Some 1)].
Proof. split; [vm_compute; discriminate|]. vm_compute. repeat split; reflexivity. Qed.

(* session: no panic; with a session the operation is untouched, without one it restarts (DUP 0, id released)
   or, under PreserveNothing, is failed with the offline-policy error *)
Lemma d_session :
  d_dup (r_s (apply_session enc decoder ores ires w_cfg w_closed true)) = [(2, true, Some 1)] /\
  s_rq (r_s (apply_session enc decoder ores ires w_cfg w_closed true)) = [2] /\
  is_panic (r_out (apply_session enc decoder ores ires w_cfg w_closed false)) = false /\
  kept_of enc decoder ores ires w_cfg w_closed = [2] /\
  d_dup (r_s (apply_session enc decoder ores ires w_cfg w_closed false)) = [(2, false, None)] /\
  s_uq (r_s (apply_session enc decoder ores ires w_cfg w_closed false)) = [2] /\
  s_alloc (r_s (apply_session enc decoder ores ires w_cfg w_closed false)) = [] /\
  is_panic (r_out (apply_session enc decoder ores ires d_cfg_nothing w_closed false)) = false /\
  rejected_of enc decoder ores ires d_cfg_nothing w_closed = [2] /\
  r_done (apply_session enc decoder ores ires d_cfg_nothing w_closed false) = [(2, CompErr EOfflineQueuePolicyFailed)] /\
  s_ops (r_s (apply_session enc decoder ores ires d_cfg_nothing w_closed false)) = [].
Proof. vm_compute. repeat split; reflexivity. Qed.

(* PUBACK: the premises of puback_completes hold in w_state and the operation completes with that PUBACK *)
Lemma d_puback :
  pre_connack enc decoder ores ires w_state = false /\ lookup (ack_pid d_ack) (s_ppub w_state) = Some 2 /\
  (exists o pb, gop enc decoder ores ires w_state 2 = Some o /\ op_packet o = Publish pb /\ pub_qos pb = 1 /\ op_pid o = Some 1) /\
  is_panic (h_out (handle_puback enc decoder ores ires w_cfg w_state d_ack)) = false /\
  h_done (handle_puback enc decoder ores ires w_cfg w_state d_ack) = [(2, CompOk (Some (Puback d_ack)))] /\
  s_ops (h_s (handle_puback enc decoder ores ires w_cfg w_state d_ack)) = [] /\
  s_alloc (h_s (handle_puback enc decoder ores ires w_cfg w_state d_ack)) = [].
Proof.
  split; [vm_compute; reflexivity|]. split; [vm_compute; reflexivity|]. split.
  - eexists. eexists. vm_compute. repeat split; reflexivity.
  - vm_compute. repeat split; reflexivity.
Qed.
