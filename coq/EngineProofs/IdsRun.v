From GM Require Import Base.Prelude Base.Outcome Codec.Packets Codec.Settings Engine.Model EngineProofs.AssocLemmas EngineProofs.IdsFrame EngineProofs.IdsHelpers.
From RecordUpdate Require Import RecordSet.
From Coq Require Import Sorting.Sorted.
Import RecordSetNotations.
Open Scope N_scope.

Section Engine.
  Variable enc : Type.
  Variable enc_reset : version -> packet -> resolution -> outcome enc.
  Variable enc_call : enc -> N -> N -> outcome (bytes * enc).
  Variable enc_done : enc -> bool.
  Variable dec : Type.
  Variable dec_init : dec.
  Variable dec_feed : version -> N -> dec -> bytes -> dec * list packet * outcome unit.
  Variable ores : Type.
  Variable ores_reset : ores -> N -> ores.
  Variable ores_resolve : ores -> option N -> bytes -> outcome (ores * resolution).
  Variable ires : Type.
  Variable ires_reset : ires -> ires.
  Variable ires_resolve : ires -> option N -> bytes -> outcome (ires * bytes).
  Variable v_out : option settings -> connect_opts -> resolution -> packet -> outcome unit.
  Variable v_in : option settings -> packet -> outcome unit.
  Variable cfg : config.

  Notation state := (Model.state enc dec ores ires).
  Notation init := (Model.init enc dec dec_init ores ires).
  Notation res := (Model.res enc dec ores ires).
  Notation release := (Model.release enc dec ores ires cfg).
  Notation disconnect_completion := (Model.disconnect_completion enc dec ores ires).
  Notation fail_op := (Model.fail_op enc dec ores ires cfg).
  Notation ping_extension := (Model.ping_extension enc dec ores ires).
  Notation succeed_op := (Model.succeed_op enc dec ores ires cfg).
  Notation fail_all := (Model.fail_all enc dec ores ires cfg).
  Notation succeed_all := (Model.succeed_all enc dec ores ires cfg).
  Notation andthen := (Model.andthen enc dec ores ires).
  Notation try_ := (Model.try_ enc dec ores ires).
  Notation pure := (Model.pure enc dec ores ires).
  Notation create_operation := (Model.create_operation enc dec ores ires).
  Notation passes_now := (Model.passes_now enc dec ores ires cfg).
  Notation user_event := (Model.user_event enc dec ores ires cfg).
  Notation create_connect := (Model.create_connect enc dec ores ires cfg).
  Notation net_opened := (Model.net_opened enc dec dec_init ores ires cfg).
  Notation op_exists := (Model.op_exists enc dec ores ires).
  Notation op_passes := (Model.op_passes enc dec ores ires cfg).
  Notation partition_policy := (Model.partition_policy enc dec ores ires cfg).
  Notation closed_current := (Model.closed_current enc dec ores ires cfg).
  Notation slow_start_init := (Model.slow_start_init enc dec ores ires cfg).
  Notation update_retries := (Model.update_retries enc dec ores ires cfg).
  Notation fail_exceeding := (Model.fail_exceeding enc dec ores ires cfg).
  Notation has_pubrel := (Model.has_pubrel enc dec ores ires).
  Notation net_closed_raw := (Model.net_closed_raw enc dec ores ires cfg).
  Notation net_closed := (Model.net_closed enc dec ores ires cfg).
  Notation net_write_completion := (Model.net_write_completion enc dec ores ires cfg).
  Notation acquire_free_pid := (Model.acquire_free_pid enc dec ores ires).
  Notation acquire_pid_for := (Model.acquire_pid_for enc dec ores ires).
  Notation unbind := (Model.unbind enc dec ores ires).
  Notation passes_receive_max := (Model.passes_receive_max enc dec ores ires).
  Notation throttled := (Model.throttled enc dec ores ires cfg).
  Notation has_pending_ack := (Model.has_pending_ack enc dec ores ires).
  Notation dequeue := (Model.dequeue enc dec ores ires cfg).
  Notation fully_written := (Model.fully_written enc dec ores ires).
  Notation sres := (Model.sres enc dec ores ires).
  Notation seat := (Model.seat enc dec ores ires).
  Notation seat_current := (Model.seat_current enc enc_reset dec ores ores_reset ores_resolve ires v_out cfg).
  Notation service_loop := (Model.service_loop enc enc_reset enc_call enc_done dec ores ores_reset ores_resolve ires v_out cfg).
  Notation service_queue := (Model.service_queue enc enc_reset enc_call enc_done dec ores ores_reset ores_resolve ires v_out cfg).
  Notation service_keep_alive := (Model.service_keep_alive enc dec ores ires cfg).
  Notation process_ack_timeouts := (Model.process_ack_timeouts enc dec ores ires cfg).
  Notation halt_on_error := (Model.halt_on_error enc dec ores ires).
  Notation service := (Model.service enc enc_reset enc_call enc_done dec ores ores_reset ores_resolve ires v_out cfg).
  Notation earliest_tmo := (Model.earliest_tmo enc dec ores ires).
  Notation nst_queue := (Model.nst_queue enc dec ores ires cfg).
  Notation next_service_time := (Model.next_service_time enc dec ores ires cfg).
  Notation build_settings := (Model.build_settings enc dec ores ires cfg).
  Notation apply_session := (Model.apply_session enc dec ores ires cfg).
  Notation hres := (Model.hres enc dec ores ires).
  Notation hres_of := (Model.hres_of enc dec ores ires).
  Notation pre_connack := (Model.pre_connack enc dec ores ires).
  Notation sum_ss := (Model.sum_ss enc dec ores ires).
  Notation handle_connack := (Model.handle_connack enc dec ores ores_reset ires ires_reset v_in cfg).
  Notation handle_pingresp := (Model.handle_pingresp enc dec ores ires).
  Notation handle_suback := (Model.handle_suback enc dec ores ires cfg).
  Notation handle_unsuback := (Model.handle_unsuback enc dec ores ires cfg).
  Notation publish_qos_of := (Model.publish_qos_of enc dec ores ires).
  Notation handle_puback := (Model.handle_puback enc dec ores ires cfg).
  Notation handle_pubrec := (Model.handle_pubrec enc dec ores ires cfg).
  Notation handle_pubrel := (Model.handle_pubrel enc dec ores ires).
  Notation handle_pubcomp := (Model.handle_pubcomp enc dec ores ires cfg).
  Notation handle_publish := (Model.handle_publish enc dec ores ires).
  Notation handle_disconnect := (Model.handle_disconnect enc dec ores ires cfg).
  Notation handle_packet := (Model.handle_packet enc dec ores ores_reset ires ires_reset v_in cfg).
  Notation handle_packets := (Model.handle_packets enc dec ores ores_reset ires ires_reset ires_resolve v_in cfg).
  Notation is_connect_op := (Model.is_connect_op enc dec ores ires).
  Notation connect_in_queue := (Model.connect_in_queue enc dec ores ires).
  Notation max_incoming_size := (Model.max_incoming_size cfg).
  Notation net_data := (Model.net_data enc dec dec_feed ores ores_reset ires ires_reset ires_resolve v_in cfg).
  Notation reset := (Model.reset enc dec ores ires cfg).
  Notation out_of_res := (Model.out_of_res enc dec ores ires).
  Notation step := (Model.step enc enc_reset enc_call enc_done dec dec_init dec_feed ores ores_reset ores_resolve ires ires_reset ires_resolve v_out v_in cfg).
  Notation run := (Model.run enc enc_reset enc_call enc_done dec dec_init dec_feed ores ores_reset ores_resolve ires ires_reset ires_resolve v_out v_in cfg).
  Notation SeatStop := (Model.SeatStop enc dec ores ires).
  Notation SeatContinue := (Model.SeatContinue enc dec ores ires).
  Notation SeatEncode := (Model.SeatEncode enc dec ores ires).
  Notation mkState := (Model.mkState enc dec ores ires).

  Variable offl : packet -> Prop.
  Hypothesis offl_policy : forall p, passes_policy (cf_policy cfg) p = false -> offl (norm p).
  Hypothesis offl_vout : forall st co r p, v_out st co r p = Err EOfflineQueuePolicyFailed -> forall q, offl q.

  Notation ost_of := (IdsHelpers.ost_of enc dec ores ires).
  Notation ids_inv s := (ids_ok (ost_of s)).
  Notation user_inv s := (user_ok (ost_of s)).

  (* everything the frame says about one step, with the submission of EvUser made explicit *)
  Record step_facts (s : state) (e : event) (s1 : state) (o1 : output) : Prop := {
    sf_ids : ids_inv s1;
    sf_next : s_next_id s <= s_next_id s1;
    sf_user : user_inv s -> user_inv s1;
    sf_old : forall id op1, lookup id (s_ops s1) = Some op1 ->
               (exists op0, lookup id (s_ops s) = Some op0 /\ same_op op0 op1)
               \/ (s_next_id s <= id /\ op_user op1 = false)
               \/ (exists now p t, e = EvUser now p t /\ id = s_next_id s /\ op_user op1 = true /\
                     is_disconnect p = false /\ norm (op_packet op1) = norm p);
    sf_nodup : NoDup (map fst (o_done o1));
    sf_gone : forall id c, In (id, c) (o_done o1) -> lookup id (s_ops s1) = None /\ id < s_next_id s1;
    sf_done : forall id c, In (id, c) (o_done o1) ->
               (exists op0, lookup id (s_ops s) = Some op0 /\ op_user op0 = true /\ comp_ok offl (op_packet op0) c)
               \/ (exists now p t, e = EvUser now p t /\ id = s_next_id s /\ is_disconnect p = false /\ comp_ok offl p c);
    sf_oid : forall now p t, e = EvUser now p t -> o_id o1 = Some (s_next_id s) }.

  Lemma step_facts_of_T s e s1 o1 :
    ids_inv s -> (forall now p t, e <> EvUser now p t) -> o_id o1 = None \/ True ->
    T offl (ost_of s) (ost_of s1) (o_done o1) -> step_facts s e s1 o1.
  Proof.
    intros H0 Hne _ HT. destruct (HT H0) as (H1 & Hn & Hoon & Hnd & Hd). constructor.
    - exact H1.
    - exact Hn.
    - intros Hu. eapply T_user_ok; eassumption.
    - intros id op1 Hl. destruct (Hoon id op1 Hl) as [?|?]; [left; assumption|right; left; assumption].
    - exact Hnd.
    - intros id c Hin. destruct (Hd id c Hin) as (op0 & Hl & _ & Hnone & _). split; [exact Hnone|].
      pose proof (ids_ok_lt _ _ _ H0 Hl). cbn [snd ost_of IdsHelpers.ost_of] in *. lia.
    - intros id c Hin. destruct (Hd id c Hin) as (op0 & Hl & Hu & _ & Hc). left. exists op0. auto.
    - intros now p t He. exfalso. eapply Hne. exact He.
  Qed.

  Lemma step_facts_holds s e : ids_inv s -> step_facts s e (fst (step s e)) (snd (step s e)).
  Proof.
    intros H0. pose proof (step_T enc enc_reset enc_call enc_done dec dec_init dec_feed ores ores_reset ores_resolve
      ires ires_reset ires_resolve v_out v_in cfg offl offl_policy offl_vout s e) as HT.
    destruct e as [now p t| | | | | | |];
      try (apply step_facts_of_T; [exact H0|intros; discriminate|right; exact I|exact HT]).
    specialize (HT H0).
    set (o := new_op p (negb (is_disconnect p)) (if is_disconnect p then None else t)) in *.
    set (n := s_next_id s) in *.
    assert (Hx0 : IdsHelpers.ost_of enc dec ores ires (submit_state enc dec ores ires s p t) = (s_ops s ++ [(n, o)], n + 1)) by reflexivity.
    unfold IdsHelpers.Ts in HT. rewrite Hx0 in HT.
    assert (H0' : ids_ok (s_ops s ++ [(n, o)], n + 1)) by (apply ids_ok_create; exact H0).
    destruct (HT H0') as (H1 & Hn & Hoon & Hnd & Hd). cbn [fst snd] in *.
    assert (Hfresh : ~ In n (keys (s_ops s))).
    { intros Hin. destruct H0 as [_ Hb]. rewrite Forall_forall in Hb. apply Hb in Hin. cbn in Hin. unfold n in Hin. lia. }
    assert (Hlk : forall id op0, lookup id (s_ops s ++ [(n, o)]) = Some op0 ->
              lookup id (s_ops s) = Some op0 \/ (id = n /\ op0 = o)).
    { intros id op0 Hl. rewrite (lookup_app_last _ _ _ _ Hfresh) in Hl. destruct (n =? id) eqn:E; [right|left; exact Hl].
      inversion Hl. split; [lia|reflexivity]. }
    constructor.
    - exact H1.
    - cbn [snd IdsHelpers.ost_of] in Hn. fold n. lia.
    - intros Hu. eapply T_user_ok; [exact HT|exact H0'|]. intros id op0 Hl Hus. cbn [fst] in Hl.
      destruct (Hlk id op0 Hl) as [Hl0|[_ ->]]; [eapply Hu; eassumption|].
      cbn [o new_op op_user op_packet] in *. destruct (is_disconnect p); [discriminate|reflexivity].
    - intros id op1 Hl. destruct (Hoon id op1 Hl) as [(op0 & Hl0 & Hs)|[Hge Hf]].
      + destruct (Hlk id op0 Hl0) as [Hl00|[-> ->]]; [left; exists op0; split; assumption|].
        destruct (op_user op1) eqn:Eu.
        * right. right. exists now, p, t. destruct Hs as [Hs1 Hs2]. cbn [o new_op op_user op_packet] in Hs1, Hs2.
          repeat split; try reflexivity; [|exact Hs2]. rewrite Eu in Hs1. destruct (is_disconnect p); [discriminate|reflexivity].
        * right. left. split; [fold n; lia|reflexivity].
      + right. left. cbn [snd] in Hge. split; [fold n; lia|exact Hf].
    - exact Hnd.
    - intros id c Hin. destruct (Hd id c Hin) as (op0 & Hl & _ & Hnone & _). split; [exact Hnone|].
      pose proof (ids_ok_lt _ _ _ H0' Hl). cbn [snd IdsHelpers.ost_of] in *. lia.
    - intros id c Hin. destruct (Hd id c Hin) as (op0 & Hl & Hu & _ & Hc).
      destruct (Hlk id op0 Hl) as [Hl0|[-> ->]]; [left; exists op0; auto|].
      right. exists now, p, t. cbn [o new_op op_user op_packet] in Hu, Hc.
      repeat split; try reflexivity; [|exact Hc]. destruct (is_disconnect p); [discriminate|reflexivity].
    - intros now' p' t' He. reflexivity.
  Qed.

  (* ---- invariants of whole runs ---- *)
  Lemma run_cons s e r :
    run s (e :: r) = (fst (run (fst (step s e)) r), snd (step s e) :: snd (run (fst (step s e)) r)).
  Proof. cbn [Model.run]. destruct (step s e) as [s1 o]. cbn [fst snd]. destruct (run s1 r). reflexivity. Qed.

  Lemma run_inv h : forall s, ids_inv s -> user_inv s -> ids_inv (fst (run s h)) /\ user_inv (fst (run s h)).
  Proof.
    induction h as [|e r IH]; intros s H0 Hu; [split; assumption|].
    rewrite run_cons. cbn [fst]. destruct (step_facts_holds s e H0). apply IH; auto.
  Qed.

  Lemma init_inv o i : ids_inv (init o i) /\ user_inv (init o i).
  Proof.
    split; [split; cbn; constructor|]. intros id op0 Hl. cbn in Hl. discriminate.
  Qed.

  Definition all_dones (outs : list output) : list N := map fst (concat (map o_done outs)).

  Lemma at_most_once_gen h : forall s, ids_inv s ->
    NoDup (all_dones (snd (run s h))) /\
    forall id, In id (all_dones (snd (run s h))) -> lookup id (s_ops s) <> None \/ s_next_id s <= id.
  Proof.
    induction h as [|e r IH]; intros s H0; [split; [constructor|intros ? []]|].
    rewrite run_cons. cbn [snd]. unfold all_dones. cbn [map concat]. rewrite map_app.
    pose proof (step_facts_holds s e H0) as F. set (s1 := fst (step s e)) in *. set (o1 := snd (step s e)) in *.
    destruct (IH s1 (sf_ids _ _ _ _ F)) as [IHn IHi]. fold (all_dones (snd (run s1 r))).
    split.
    - apply NoDup_app_intro; [exact (sf_nodup _ _ _ _ F)|exact IHn|].
      intros id Hi1 Hi2. apply in_map_iff in Hi1. destruct Hi1 as ([id' c] & Heq & Hi1). cbn [fst] in Heq. subst id'.
      destruct (sf_gone _ _ _ _ F id c Hi1) as [Hnone Hlt]. destruct (IHi id Hi2) as [Hs|Hge]; [contradiction|lia].
    - intros id Hin. apply in_app_or in Hin. destruct Hin as [Hin|Hin].
      + apply in_map_iff in Hin. destruct Hin as ([id' c] & Heq & Hin). cbn [fst] in Heq. subst id'.
        destruct (sf_done _ _ _ _ F id c Hin) as [(op0 & Hl & _)|(now & p & t & _ & -> & _)]; [left; congruence|right; lia].
      + destruct (IHi id Hin) as [Hs|Hge]; [|right; pose proof (sf_next _ _ _ _ F); lia].
        destruct (lookup id (s_ops s1)) as [op1|] eqn:El; [|contradiction].
        destruct (sf_old _ _ _ _ F id op1 El) as [(op0 & Hl0 & _)|[[Hge _]|(now & p & t & _ & -> & _)]];
          [left; congruence|right; exact Hge|right; lia].
  Qed.

  (* every completion belongs to an earlier (or the same) submission step of the run, or to a user
     operation of the start state, and its value fits the submitted packet *)
  Definition submitted (h : list event) (outs : list output) (n : nat) (id : N) (c : completion) : Prop :=
    exists m now p t o', (m <= n)%nat /\ nth_error h m = Some (EvUser now p t) /\ nth_error outs m = Some o' /\
      o_id o' = Some id /\ is_disconnect p = false /\ comp_ok offl p c.

  Lemma dones_submitted_gen h : forall s, ids_inv s ->
    forall n o id c, nth_error (snd (run s h)) n = Some o -> In (id, c) (o_done o) ->
      submitted h (snd (run s h)) n id c
      \/ (exists op0, lookup id (s_ops s) = Some op0 /\ op_user op0 = true /\ comp_ok offl (op_packet op0) c).
  Proof.
    induction h as [|e r IH]; intros s H0 n o id c Hn Hin; [destruct n; discriminate|].
    rewrite run_cons in *. cbn [snd] in *.
    pose proof (step_facts_holds s e H0) as F. set (s1 := fst (step s e)) in *. set (o1 := snd (step s e)) in *.
    destruct n as [|n']; cbn [nth_error] in Hn.
    - inversion Hn; subst o. destruct (sf_done _ _ _ _ F id c Hin) as [?|(now & p & t & He & Hid & Hd & Hc)]; [right; assumption|].
      left. exists 0%nat, now, p, t, o1. cbn [nth_error]. rewrite He. repeat split; try reflexivity; try assumption; try lia.
      rewrite Hid. eapply sf_oid; [exact F|exact He].
    - destruct (IH s1 (sf_ids _ _ _ _ F) n' o id c Hn Hin) as [(m & now & p & t & o' & Hle & He & Ho & Hid & Hd & Hc)|(op1 & Hl1 & Hu1 & Hc1)].
      + left. exists (S m), now, p, t, o'. cbn [nth_error]. repeat split; try assumption. lia.
      + destruct (sf_old _ _ _ _ F id op1 Hl1) as [(op0 & Hl0 & Hs1 & Hs2)|[[_ Hf]|(now & p & t & He & Hid & _ & Hd & Hnm)]].
        * right. exists op0. repeat split; [exact Hl0|congruence|]. eapply comp_ok_norm; [|exact Hc1]. exact Hs2.
        * congruence.
        * left. exists 0%nat, now, p, t, o1. cbn [nth_error]. rewrite He. repeat split; try reflexivity; try assumption; try lia.
          -- rewrite Hid. eapply sf_oid; [exact F|exact He].
          -- eapply comp_ok_norm; [|exact Hc1]. exact Hnm.
  Qed.
End Engine.
