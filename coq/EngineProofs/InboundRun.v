(* C05, run level, part 3: whole histories.
   [run_log s h] is the processing log of the history [h] started in [s]: for every incoming-data
   event the items of its packet loop (InboundLoop.data_log), for every reset an [EReset]; all
   other events (submissions, open, close, write completion, service, timer queries) log nothing.

   q2in_refines       : the engine's set of unreleased inbound QoS 2 ids IS the specification
                        InboundSpec.q2_spec folded over the log  (refinement, equality of lists);
   events_refine      : the packet events surfaced over the history ARE InboundSpec.ev_spec of the log;
   qos2_surfaced_once : hence between two releases of an id at most one QoS 2 publish with that id is
                        surfaced - over closes and session-resuming reconnects too, since those log
                        nothing that releases;
   data_appends_acks / hq_step_shape / acks_fifo_step : the acknowledgements owed are appended to the
                        back of the high-priority queue in packet order, and the queue is FIFO.
   Everything is proved for an ARBITRARY start state and ANY decoder / resolver / validator /
   encoder; the only premise is that no step of the history panicked (a Rust panic leaves no
   meaningful state; Properties/C11 shows that histories from the initial state never panic). *)
From GM Require Import Base.Prelude Base.Outcome Codec.Packets Codec.Settings Engine.Model
  EngineProofs.Order EngineProofs.InboundSpec EngineProofs.InboundLoop EngineProofs.InboundFrames.
From RecordUpdate Require Import RecordSet.
Import RecordSetNotations.
Open Scope N_scope.

(* position-based FIFO fact: removing a prefix either keeps [a] with exactly its successors, or
   removes [a] (and possibly some of its successors) *)
Lemma skipn_split {A} (k : nat) (l1 : list A) a l2 :
  (exists l1', skipn k (l1 ++ a :: l2) = l1' ++ a :: l2) \/ (exists j, skipn k (l1 ++ a :: l2) = skipn j l2).
Proof.
  rewrite skipn_app. destruct (Nat.leb k (length l1)) eqn:E.
  - left. apply Nat.leb_le in E. replace (k - length l1)%nat with 0%nat by lia. exists (skipn k l1). reflexivity.
  - right. apply Nat.leb_gt in E. rewrite skipn_all2 by lia. cbn [app].
    destruct (k - length l1)%nat as [|j] eqn:Ej; [lia|]. exists j. reflexivity.
Qed.

Set Default Proof Using "Type".
Section Engine.
  Variable enc : Type.
  Variable enc_reset : version -> packet -> resolution -> outcome enc.
  Variable enc_call : enc -> N -> N -> outcome (bytes * enc).
  Variable enc_done : enc -> bool.
  Variable dec : Type.
  Variable dec_init : dec.
  Variable dec_feed : version -> N -> dec -> bytes -> dec * list packet * outcome unit.
  Variable ores : Type.
  Variable ores_reset : ores -> N -> ores.
  Variable ores_resolve : ores -> option N -> bytes -> outcome (ores * resolution).
  Variable ires : Type.
  Variable ires_reset : ires -> ires.
  Variable ires_resolve : ires -> option N -> bytes -> outcome (ires * bytes).
  Variable v_out : option settings -> connect_opts -> resolution -> packet -> outcome unit.
  Variable v_in : option settings -> packet -> outcome unit.
  Variable cfg : config.

  Notation state := (Model.state enc dec ores ires).
  Notation init := (Model.init enc dec dec_init ores ires).
  Notation step := (Model.step enc enc_reset enc_call enc_done dec dec_init dec_feed ores ores_reset ores_resolve ires ires_reset ires_resolve v_out v_in cfg).
  Notation run := (Model.run enc enc_reset enc_call enc_done dec dec_init dec_feed ores ores_reset ores_resolve ires ires_reset ires_resolve v_out v_in cfg).
  Notation net_data := (Model.net_data enc dec dec_feed ores ores_reset ires ires_reset ires_resolve v_in cfg).
  Notation dequeue := (Model.dequeue enc dec ores ires cfg).
  Notation data_log := (InboundLoop.data_log enc dec dec_feed ores ores_reset ires ires_reset ires_resolve v_in cfg).
  Notation qrel := (InboundFrames.qrel enc dec ores ires).
  Notation halt_on_error_keep := (InboundFrames.halt_on_error_keep enc dec ores ires).
  Notation qrel_keep := (InboundFrames.qrel_keep enc dec ores ires).

  (* ================= the log of a history ================= *)
  Definition step_items (s : state) (e : event) : list item :=
    match e with EvData now data => data_log s now data | _ => [] end.
  Definition step_log (s : state) (e : event) : list entry :=
    match e with EvReset _ => [EReset] | _ => pkts (step_items s e) end.
  Fixpoint run_log (s : state) (h : list event) : list entry :=
    match h with
    | [] => []
    | e :: r => step_log s e ++ run_log (fst (step s e)) r
    end.

  Definition all_events (outs : list output) : list packet := concat (map o_events outs).
  Definition no_panic (outs : list output) : Prop := Forall (fun o => is_panic (o_res o) = false) outs.

  (* ================= one step ================= *)
  Theorem step_refines s e :
    o_events (snd (step s e)) = ev_spec (s_q2in s) (step_log s e) /\
    (is_panic (o_res (snd (step s e))) = false -> s_q2in (fst (step s e)) = q2_spec (s_q2in s) (step_log s e)) /\
    exists front k, s_hq (fst (step s e)) = front ++ skipn k (s_hq s) ++ flat_map hq_item (step_items s e).
  Proof.
    assert (Hq : forall s', qrel s s' ->
              s_q2in s' = s_q2in s /\ exists front k, s_hq s' = front ++ skipn k (s_hq s) ++ []).
    { intros s' [A [f [k B]]]. split; [exact A|]. exists f, k. rewrite app_nil_r. exact B. }
    destruct e as [now p t|now deadline|now|now data|now|now cap fill|now|now]; cbn [Model.step step_log step_items flat_map pkts map].
    - unfold Model.out_of_res. cbn [fst snd o_events o_res].
      destruct (Hq _ (InboundFrames.user_event_qrel enc dec ores ires cfg s p t)) as [A B]. auto.
    - unfold Model.out_of_res. cbn [fst snd o_events o_res].
      pose proof (InboundFrames.net_opened_qrel enc dec dec_init ores ires cfg s deadline) as H.
      eapply qrel_keep in H; [|apply (halt_on_error_keep _ (r_out (Model.net_opened enc dec dec_init ores ires cfg s deadline)))].
      destruct (Hq _ H) as [A B]. auto.
    - unfold Model.out_of_res. cbn [fst snd o_events o_res].
      pose proof (InboundFrames.net_closed_qrel enc dec ores ires cfg s) as H.
      eapply qrel_keep in H; [|apply (halt_on_error_keep _ (r_out (Model.net_closed enc dec ores ires cfg s)))].
      destruct (Hq _ H) as [A B]. auto.
    - cbn [fst snd o_events o_res].
      destruct (InboundLoop.net_data_spec enc dec dec_feed ores ores_reset ires ires_reset ires_resolve v_in cfg s now data)
        as (He & Hh & Hs). cbv zeta in He, Hh, Hs.
      destruct (halt_on_error_keep (h_s (net_data s now data)) (h_out (net_data s now data))) as [Kq Kh].
      split; [exact He|]. split; [intros Hp; rewrite Kq; apply Hs, Hp|].
      exists [], 0%nat. rewrite Kh, Hh. reflexivity.
    - unfold Model.out_of_res. cbn [fst snd o_events o_res].
      pose proof (InboundFrames.keep_qrel enc dec ores ires _ _ (InboundFrames.net_write_completion_keep enc dec ores ires cfg s)) as H.
      eapply qrel_keep in H; [|apply (halt_on_error_keep _ (r_out (Model.net_write_completion enc dec ores ires cfg s)))].
      destruct (Hq _ H) as [A B]. auto.
    - cbn [fst snd o_events o_res].
      destruct (Hq _ (InboundFrames.service_qrel enc enc_reset enc_call enc_done dec ores ores_reset ores_resolve ires v_out cfg
                        s now cap fill)) as [A B]. auto.
    - assert (Hs : fst (match Model.next_service_time enc dec ores ires cfg s now with
                        | Ok t => (s, mkOutput (Ok tt) [] [] [] (Some t) None)
                        | Err k => (s, mkOutput (Err k) [] [] [] None None)
                        | Panic site => (s, mkOutput (Panic site) [] [] [] None None) end) = s /\
                   o_events (snd (match Model.next_service_time enc dec ores ires cfg s now with
                        | Ok t => (s, mkOutput (Ok tt) [] [] [] (Some t) None)
                        | Err k => (s, mkOutput (Err k) [] [] [] None None)
                        | Panic site => (s, mkOutput (Panic site) [] [] [] None None) end)) = []).
      { destruct (Model.next_service_time enc dec ores ires cfg s now); split; reflexivity. }
      destruct Hs as [-> ->]. split; [reflexivity|]. split; [reflexivity|]. exists [], 0%nat. rewrite app_nil_r. reflexivity.
    - unfold Model.out_of_res. cbn [fst snd o_events o_res].
      destruct (InboundFrames.reset_spec enc dec ores ires cfg s) as [Hok Hpanic].
      split; [reflexivity|]. split; [intros Hp; apply Hok, Hp|].
      destruct (is_panic (r_out (Model.reset enc dec ores ires cfg s))) eqn:Ep.
      + destruct (Hpanic eq_refl) as [_ Kh]. exists [], 0%nat. rewrite Kh, app_nil_r. reflexivity.
      + destruct (Hok eq_refl) as [_ Kh]. exists [], (length (s_hq s)). rewrite Kh, skipn_all. reflexivity.
  Qed.

  (* ================= whole histories ================= *)
  Lemma run_cons s e r :
    run s (e :: r) = (fst (run (fst (step s e)) r), snd (step s e) :: snd (run (fst (step s e)) r)).
  Proof. cbn [Model.run]. destruct (step s e) as [s1 o]. cbn [fst snd]. destruct (run s1 r). reflexivity. Qed.

  Lemma run_app h1 : forall s h2,
    run s (h1 ++ h2) = (fst (run (fst (run s h1)) h2), snd (run s h1) ++ snd (run (fst (run s h1)) h2)).
  Proof.
    induction h1 as [|e r IH]; intros s h2.
    - cbn [app Model.run fst snd]. destruct (run s h2); reflexivity.
    - cbn [app]. rewrite !run_cons. cbn [fst snd]. rewrite IH. reflexivity.
  Qed.

  Lemma run_log_app h1 : forall s h2, run_log s (h1 ++ h2) = run_log s h1 ++ run_log (fst (run s h1)) h2.
  Proof.
    induction h1 as [|e r IH]; intros s h2; [reflexivity|].
    cbn [app run_log]. rewrite run_cons. cbn [fst]. rewrite IH, app_assoc. reflexivity.
  Qed.

  (* A: the inbound QoS 2 set refines the specification, for every history *)
  Theorem q2in_refines h : forall s,
    no_panic (snd (run s h)) ->
    s_q2in (fst (run s h)) = q2_spec (s_q2in s) (run_log s h).
  Proof.
    induction h as [|e r IH]; intros s Hnp; [reflexivity|].
    rewrite run_cons in *. cbn [fst snd run_log] in *. inversion Hnp as [|o os Ho Hos]; subst.
    destruct (step_refines s e) as (_ & Hq & _).
    rewrite q2_spec_app, <- (Hq Ho). apply IH, Hos.
  Qed.

  (* B: the surfaced packet events refine the specification, for every history *)
  Theorem events_refine h : forall s,
    no_panic (snd (run s h)) ->
    all_events (snd (run s h)) = ev_spec (s_q2in s) (run_log s h).
  Proof.
    induction h as [|e r IH]; intros s Hnp; [reflexivity|].
    rewrite run_cons in *. cbn [fst snd run_log] in *. inversion Hnp as [|o os Ho Hos]; subst.
    destruct (step_refines s e) as (He & Hq & _).
    unfold all_events. cbn [map concat]. fold (all_events (snd (run (fst (step s e)) r))).
    rewrite ev_spec_app, <- (Hq Ho), <- He, (IH _ Hos). reflexivity.
  Qed.

  (* from the initial state the set starts empty *)
  Corollary q2in_refines_init o i h :
    no_panic (snd (run (init o i) h)) ->
    s_q2in (fst (run (init o i) h)) = q2_spec [] (run_log (init o i) h) /\
    all_events (snd (run (init o i) h)) = ev_spec [] (run_log (init o i) h).
  Proof. intros H. split; [apply (q2in_refines h (init o i) H)|apply (events_refine h (init o i) H)]. Qed.

  (* exactly-once surfacing, history granularity: over ANY history (closes, reconnects with session
     present, anything) whose log does not release [p], at most one QoS 2 publish with id [p] is
     surfaced, and none if [p] was already unreleased at the start.  [s] is arbitrary, so this
     covers every stretch of every longer history (run_app). *)
  Theorem qos2_surfaced_once p h s :
    no_panic (snd (run s h)) ->
    forallb (fun e => negb (releases p e)) (run_log s h) = true ->
    (count (surfaced p) (all_events (snd (run s h))) <= (if mem p (s_q2in s) then 0 else 1))%nat.
  Proof. intros Hnp Hr. rewrite (events_refine h s Hnp). apply spec_surfaced_once, Hr. Qed.

  (* ... packet granularity: any stretch [seg] of the log of a history that contains no release of
     [p]; the events of the history split accordingly *)
  Theorem qos2_surfaced_once_between p h s pre seg post :
    no_panic (snd (run s h)) ->
    run_log s h = pre ++ seg ++ post ->
    forallb (fun e => negb (releases p e)) seg = true ->
    let q1 := q2_spec (s_q2in s) pre in
    all_events (snd (run s h)) = ev_spec (s_q2in s) pre ++ ev_spec q1 seg ++ ev_spec (q2_spec q1 seg) post /\
    (count (surfaced p) (ev_spec q1 seg) <= (if mem p q1 then 0 else 1))%nat.
  Proof.
    intros Hnp Hl Hr. cbv zeta. rewrite (events_refine h s Hnp), Hl, !ev_spec_app.
    split; [reflexivity|apply spec_surfaced_once, Hr].
  Qed.

  (* closes, opens, submissions, service, write completions and timer queries log nothing: a
     reconnect that resumes the session is just a CONNACK item with session present, which releases
     nothing *)
  Lemma only_data_and_reset_log s e :
    match e with EvData _ _ | EvReset _ => True | _ => step_log s e = [] end.
  Proof. destruct e; cbn; exact I || reflexivity. Qed.

  Lemma session_present_connack_releases_nothing p i c :
    it_p i = Connack c -> ca_session_present c = true -> releases p (EPkt i) = false.
  Proof. intros Hp Hs. unfold releases. rewrite Hp, Hs. apply andb_false_r. Qed.

  (* ================= C: acknowledgements owed and their order ================= *)
  (* an incoming-data step appends exactly the ids of InboundSpec.hq_item, in packet order, to the
     back of the high-priority queue and does nothing else to it *)
  Theorem data_appends_acks s now data :
    s_hq (fst (step s (EvData now data))) = s_hq s ++ flat_map hq_item (data_log s now data).
  Proof.
    cbn [Model.step fst].
    destruct (InboundLoop.net_data_spec enc dec dec_feed ores ores_reset ires ires_reset ires_resolve v_in cfg s now data)
      as (_ & Hh & _). cbv zeta in Hh.
    destruct (halt_on_error_keep (h_s (net_data s now data)) (h_out (net_data s now data))) as [_ Kh].
    rewrite Kh. exact Hh.
  Qed.

  (* every step: new entries at the front, a prefix removed, the acknowledgements of this step at the back *)
  Theorem hq_step_shape s e :
    exists front k, s_hq (fst (step s e)) = front ++ skipn k (s_hq s) ++ flat_map hq_item (step_items s e).
  Proof. destruct (step_refines s e) as (_ & _ & H). exact H. Qed.

  (* FIFO: an entry [a] of the high-priority queue with [l2] queued behind it either is still
     queued with exactly [l2] (then the new arrivals) behind it - nothing is inserted between, nothing
     behind it overtakes or leaves - or it has left the queue *)
  Theorem acks_fifo_step s e l1 a l2 :
    s_hq s = l1 ++ a :: l2 ->
    (exists l1', s_hq (fst (step s e)) = l1' ++ a :: l2 ++ flat_map hq_item (step_items s e)) \/
    (exists front j, s_hq (fst (step s e)) = front ++ skipn j l2 ++ flat_map hq_item (step_items s e)).
  Proof.
    intros Hl. destruct (hq_step_shape s e) as (front & k & H). rewrite Hl in H.
    destruct (skipn_split k l1 a l2) as [[l1' E]|[j E]]; rewrite E in H.
    - left. exists (front ++ l1'). rewrite H, <- !app_assoc. reflexivity.
    - right. exists front, j. exact H.
  Qed.

  (* ... and what leaves the queue is its head (Order.dequeue_priority) *)
  Theorem dequeue_takes_head (s s' : state) mode id :
    dequeue s mode = (s', Some id) -> s_hq s <> [] -> exists r, s_hq s = id :: r /\ s_hq s' = r.
  Proof.
    intros Hd Hne. destruct (Order.dequeue_priority enc dec ores ires cfg s s' mode id Hd) as [_ [H|[H|H]]].
    - destruct H as (r & A & B & _). exists r. auto.
    - destruct H as (_ & A & _). contradiction.
    - destruct H as (_ & A & _). contradiction.
  Qed.
End Engine.
