(* C04: what is handed to the encoder.  When the service loop seats an operation for transmission it encodes the
   operation's PUBREL if the PUBREL slot is set (PUBREC received) and the operation's own packet otherwise
   (protocol.rs 1399-1431): once a PUBREC has been received the PUBLISH itself is never encoded again, until the slot
   is cleared by the session-absent path (DeliverySession.v).  An operation id that is no longer in the operation table
   (completed or failed) is skipped without encoding anything.  EVERY state. *)
From GM Require Import Base.Prelude Base.Outcome Codec.Packets Codec.Settings Engine.Model
  EngineProofs.AssocLemmas EngineProofs.IdsFrame EngineProofs.IdsHelpers EngineProofs.DeliveryBase.
From RecordUpdate Require Import RecordSet.
Import RecordSetNotations.
Open Scope N_scope.

Definition wire_packet (o : op) : packet := match op_pubrel o with Some pr => pr | None => op_packet o end.

Section Seat.
  Variable enc : Type.
  Variable enc_reset : version -> packet -> resolution -> outcome enc.
  Variable enc_call : enc -> N -> N -> outcome (bytes * enc).
  Variable enc_done : enc -> bool.
  Variable dec : Type.
  Variable dec_init : dec.
  Variable dec_feed : version -> N -> dec -> bytes -> dec * list packet * outcome unit.
  Variable ores : Type.
  Variable ores_reset : ores -> N -> ores.
  Variable ores_resolve : ores -> option N -> bytes -> outcome (ores * resolution).
  Variable ires : Type.
  Variable ires_reset : ires -> ires.
  Variable ires_resolve : ires -> option N -> bytes -> outcome (ires * bytes).
  Variable v_out : option settings -> connect_opts -> resolution -> packet -> outcome unit.
  Variable v_in : option settings -> packet -> outcome unit.
  Variable cfg : config.

  Notation state := (Model.state enc dec ores ires).
  Notation init := (Model.init enc dec dec_init ores ires).
  Notation res := (Model.res enc dec ores ires).
  Notation release := (Model.release enc dec ores ires cfg).
  Notation disconnect_completion := (Model.disconnect_completion enc dec ores ires).
  Notation fail_op := (Model.fail_op enc dec ores ires cfg).
  Notation ping_extension := (Model.ping_extension enc dec ores ires).
  Notation succeed_op := (Model.succeed_op enc dec ores ires cfg).
  Notation fail_all := (Model.fail_all enc dec ores ires cfg).
  Notation succeed_all := (Model.succeed_all enc dec ores ires cfg).
  Notation andthen := (Model.andthen enc dec ores ires).
  Notation try_ := (Model.try_ enc dec ores ires).
  Notation pure := (Model.pure enc dec ores ires).
  Notation create_operation := (Model.create_operation enc dec ores ires).
  Notation passes_now := (Model.passes_now enc dec ores ires cfg).
  Notation user_event := (Model.user_event enc dec ores ires cfg).
  Notation create_connect := (Model.create_connect enc dec ores ires cfg).
  Notation net_opened := (Model.net_opened enc dec dec_init ores ires cfg).
  Notation op_exists := (Model.op_exists enc dec ores ires).
  Notation op_passes := (Model.op_passes enc dec ores ires cfg).
  Notation partition_policy := (Model.partition_policy enc dec ores ires cfg).
  Notation closed_current := (Model.closed_current enc dec ores ires cfg).
  Notation slow_start_init := (Model.slow_start_init enc dec ores ires cfg).
  Notation update_retries := (Model.update_retries enc dec ores ires cfg).
  Notation fail_exceeding := (Model.fail_exceeding enc dec ores ires cfg).
  Notation has_pubrel := (Model.has_pubrel enc dec ores ires).
  Notation net_closed_raw := (Model.net_closed_raw enc dec ores ires cfg).
  Notation net_closed := (Model.net_closed enc dec ores ires cfg).
  Notation net_write_completion := (Model.net_write_completion enc dec ores ires cfg).
  Notation acquire_free_pid := (Model.acquire_free_pid enc dec ores ires).
  Notation acquire_pid_for := (Model.acquire_pid_for enc dec ores ires).
  Notation unbind := (Model.unbind enc dec ores ires).
  Notation passes_receive_max := (Model.passes_receive_max enc dec ores ires).
  Notation throttled := (Model.throttled enc dec ores ires cfg).
  Notation has_pending_ack := (Model.has_pending_ack enc dec ores ires).
  Notation dequeue := (Model.dequeue enc dec ores ires cfg).
  Notation fully_written := (Model.fully_written enc dec ores ires).
  Notation sres := (Model.sres enc dec ores ires).
  Notation seat := (Model.seat enc dec ores ires).
  Notation seat_current := (Model.seat_current enc enc_reset dec ores ores_reset ores_resolve ires v_out cfg).
  Notation service_loop := (Model.service_loop enc enc_reset enc_call enc_done dec ores ores_reset ores_resolve ires v_out cfg).
  Notation service_queue := (Model.service_queue enc enc_reset enc_call enc_done dec ores ores_reset ores_resolve ires v_out cfg).
  Notation service_keep_alive := (Model.service_keep_alive enc dec ores ires cfg).
  Notation process_ack_timeouts := (Model.process_ack_timeouts enc dec ores ires cfg).
  Notation halt_on_error := (Model.halt_on_error enc dec ores ires).
  Notation service := (Model.service enc enc_reset enc_call enc_done dec ores ores_reset ores_resolve ires v_out cfg).
  Notation earliest_tmo := (Model.earliest_tmo enc dec ores ires).
  Notation nst_queue := (Model.nst_queue enc dec ores ires cfg).
  Notation next_service_time := (Model.next_service_time enc dec ores ires cfg).
  Notation build_settings := (Model.build_settings enc dec ores ires cfg).
  Notation apply_session := (Model.apply_session enc dec ores ires cfg).
  Notation hres := (Model.hres enc dec ores ires).
  Notation hres_of := (Model.hres_of enc dec ores ires).
  Notation pre_connack := (Model.pre_connack enc dec ores ires).
  Notation sum_ss := (Model.sum_ss enc dec ores ires).
  Notation handle_connack := (Model.handle_connack enc dec ores ores_reset ires ires_reset v_in cfg).
  Notation handle_pingresp := (Model.handle_pingresp enc dec ores ires).
  Notation handle_suback := (Model.handle_suback enc dec ores ires cfg).
  Notation handle_unsuback := (Model.handle_unsuback enc dec ores ires cfg).
  Notation publish_qos_of := (Model.publish_qos_of enc dec ores ires).
  Notation handle_puback := (Model.handle_puback enc dec ores ires cfg).
  Notation handle_pubrec := (Model.handle_pubrec enc dec ores ires cfg).
  Notation handle_pubrel := (Model.handle_pubrel enc dec ores ires).
  Notation handle_pubcomp := (Model.handle_pubcomp enc dec ores ires cfg).
  Notation handle_publish := (Model.handle_publish enc dec ores ires).
  Notation handle_disconnect := (Model.handle_disconnect enc dec ores ires cfg).
  Notation handle_packet := (Model.handle_packet enc dec ores ores_reset ires ires_reset v_in cfg).
  Notation handle_packets := (Model.handle_packets enc dec ores ores_reset ires ires_reset ires_resolve v_in cfg).
  Notation is_connect_op := (Model.is_connect_op enc dec ores ires).
  Notation connect_in_queue := (Model.connect_in_queue enc dec ores ires).
  Notation max_incoming_size := (Model.max_incoming_size cfg).
  Notation net_data := (Model.net_data enc dec dec_feed ores ores_reset ires ires_reset ires_resolve v_in cfg).
  Notation reset := (Model.reset enc dec ores ires cfg).
  Notation out_of_res := (Model.out_of_res enc dec ores ires).
  Notation step := (Model.step enc enc_reset enc_call enc_done dec dec_init dec_feed ores ores_reset ores_resolve ires ires_reset ires_resolve v_out v_in cfg).
  Notation run := (Model.run enc enc_reset enc_call enc_done dec dec_init dec_feed ores ores_reset ores_resolve ires ires_reset ires_resolve v_out v_in cfg).
  Notation SeatStop := (Model.SeatStop enc dec ores ires).
  Notation SeatContinue := (Model.SeatContinue enc dec ores ires).
  Notation SeatEncode := (Model.SeatEncode enc dec ores ires).
  Notation mkState := (Model.mkState enc dec ores ires).

  Ltac dm := match goal with
    | |- context [match ?x with _ => _ end] => destruct x eqn:?
    end.
  Notation gop := (DeliveryBase.gop enc dec ores ires).

  Lemma acquire_pid_for_cur s id s' : acquire_pid_for s id = Ok s' -> s_cur s' = s_cur s.
  Proof.
    unfold Model.acquire_pid_for, Model.acquire_free_pid. destruct (lookup id (s_ops s)) as [o|]; [|discriminate].
    destruct (op_pid o); [intros H; inversion H; reflexivity|].
    destruct (negb (needs_pid (op_packet o))); [intros H; inversion H; reflexivity|].
    repeat dm; cbn [obind]; try discriminate; destruct (with_pid _ _); cbn [obind]; try discriminate; intros H; inversion H; reflexivity.
  Qed.

  Theorem seat_encodes_wire_packet s m acc dn s5 :
    s_cur s = None -> seat_current s m acc dn = SeatEncode s5 ->
    exists id o r e, s_cur s5 = Some id /\ gop s5 id = Some o /\ s_enc s5 = Some e /\
                     enc_reset (cf_version cfg) (wire_packet o) r = Ok e.
  Proof.
    unfold Model.seat_current. intros Hc. rewrite Hc.
    destruct (dequeue s m) as [s1 next]. destruct next as [id|]; [|discriminate].
    destruct (negb (op_exists (s1 <| s_cur := Some id |>) id)); [discriminate|].
    destruct (acquire_pid_for (s1 <| s_cur := Some id |>) id) as [s3| |] eqn:Ea; try discriminate.
    pose proof (acquire_pid_for_cur _ _ _ Ea) as Hcur3. cbn in Hcur3.
    destruct (lookup id (s_ops s3)) as [o|] eqn:El; [|discriminate].
    fold (wire_packet o).
    match goal with |- context [match ?res with Ok _ => _ | Err _ => _ | Panic _ => _ end] =>
      assert (Hres : forall s4 r, res = Ok (s4, r) -> s_ops s4 = s_ops s3 /\ s_cur s4 = s_cur s3);
      [|destruct res as [[s4 r]| |] eqn:Eres] end.
    { intros s4 r. unfold obind. repeat dm; intros H; inversion H; subst; split; reflexivity. }
    2,3: discriminate.
    destruct (Hres s4 r eq_refl) as [Ho4 Hc4].
    match goal with |- context [v_out ?a ?b ?c ?d] => destruct (v_out a b c d) as [[]|k|site] end; [| |discriminate].
    - destruct (enc_reset (cf_version cfg) (wire_packet o) r) as [e| |] eqn:Ee; try discriminate.
      intros H. inversion H; subst. exists id, o, r, e. unfold DeliveryBase.gop. cbn. rewrite Ho4, Hc4, Hcur3, El. auto.
    - match goal with |- context [r_out ?x] => destruct (r_out x) end; discriminate.
  Qed.

  (* an id whose operation is gone (completed / failed) is dropped from the queue and nothing is encoded for it *)
  Theorem seat_skips_completed s m acc dn s1 id :
    s_cur s = None -> dequeue s m = (s1, Some id) -> gop s id = None ->
    seat_current s m acc dn = SeatContinue (s1 <| s_cur := Some id |> <| s_cur := None |>) dn.
  Proof.
    intros Hc Hd Hg. unfold Model.seat_current. rewrite Hc, Hd.
    pose proof (dequeue_ops enc dec ores ires cfg s m) as [Ho _]. rewrite Hd in Ho. cbn [fst] in Ho.
    unfold Model.op_exists. cbn. unfold DeliveryBase.gop in Hg. rewrite Ho, Hg. reflexivity.
  Qed.
End Seat.
