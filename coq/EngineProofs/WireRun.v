(* C02 / wire level: RUN-LEVEL theorem.  For every event history the bytes the engine emits on the current
   connection are the concatenation of the COMPLETE encodings of the packets whose encoder was constructed on this
   connection and ran to completion, in construction order, followed by a PREFIX of the encoding of the packet the
   encoder currently holds.  Abstract over the codec: the encoder component is only assumed to be a resumable
   writer of a fixed byte string ([enc_rem]: what is still to be written; hypotheses enc_reset_full /
   enc_call_rem / enc_done_rem, discharged for the step encoder of Codec/Steps.v in WireRunInstance.v).
   Other hypotheses: comps_ok / ok_cfg / Forall ok_event only. *)
From GM Require Import Base.Prelude Base.Outcome Codec.Packets Codec.Settings Engine.Model
  EngineProofs.AssocLemmas EngineProofs.Frames EngineProofs.HandshakeRunTrace EngineProofs.WFDefs EngineProofs.WFStep
  EngineProofs.HandshakeRunSt EngineProofs.HandshakeRunInv
  EngineProofs.AliasRunFrames EngineProofs.AliasRunLog EngineProofs.WireRunFrames EngineProofs.WireRunLog.
From RecordUpdate Require Import RecordSet.
Import RecordSetNotations.
Open Scope N_scope.

(* the four component types are implicit in the engine functions, locally to this file *)
#[local] Arguments init {enc dec} _ {ores ires} _ _.
#[local] Arguments release {enc dec ores ires} _ _ _ _.
#[local] Arguments disconnect_completion {enc dec ores ires} _ _.
#[local] Arguments fail_op {enc dec ores ires} _ _ _ _.
#[local] Arguments ping_extension {enc dec ores ires} _ _.
#[local] Arguments succeed_op {enc dec ores ires} _ _ _ _.
#[local] Arguments fail_all {enc dec ores ires} _ _ _ _.
#[local] Arguments succeed_all {enc dec ores ires} _ _ _.
#[local] Arguments andthen {enc dec ores ires} _ _.
#[local] Arguments try_ {enc dec ores ires} _ _.
#[local] Arguments pure {enc dec ores ires} _.
#[local] Arguments create_operation {enc dec ores ires} _ _.
#[local] Arguments passes_now {enc dec ores ires} _ _ _.
#[local] Arguments user_event {enc dec ores ires} _ _ _ _.
#[local] Arguments create_connect {enc dec ores ires} _ _.
#[local] Arguments net_opened {enc dec} _ {ores ires} _ _ _.
#[local] Arguments op_exists {enc dec ores ires} _ _.
#[local] Arguments op_passes {enc dec ores ires} _ _ _.
#[local] Arguments partition_policy {enc dec ores ires} _ _ _.
#[local] Arguments closed_current {enc dec ores ires} _ _.
#[local] Arguments slow_start_init {enc dec ores ires} _ _.
#[local] Arguments update_retries {enc dec ores ires} _ _.
#[local] Arguments fail_exceeding {enc dec ores ires} _ _.
#[local] Arguments has_pubrel {enc dec ores ires} _ _.
#[local] Arguments net_closed_raw {enc dec ores ires} _ _.
#[local] Arguments net_closed {enc dec ores ires} _ _.
#[local] Arguments net_write_completion {enc dec ores ires} _ _.
#[local] Arguments acquire_free_pid {enc dec ores ires} _ _.
#[local] Arguments acquire_pid_for {enc dec ores ires} _ _.
#[local] Arguments unbind {enc dec ores ires} _ _.
#[local] Arguments passes_receive_max {enc dec ores ires} _ _.
#[local] Arguments throttled {enc dec ores ires} _ _.
#[local] Arguments has_pending_ack {enc dec ores ires} _.
#[local] Arguments dequeue {enc dec ores ires} _ _ _.
#[local] Arguments fully_written {enc dec ores ires} _ _.
#[local] Arguments service_keep_alive {enc dec ores ires} _ _ _.
#[local] Arguments process_ack_timeouts {enc dec ores ires} _ _ _.
#[local] Arguments halt_on_error {enc dec ores ires} _ _.
#[local] Arguments next_service_time {enc dec ores ires} _ _ _.
#[local] Arguments build_settings {enc dec ores ires} _ _ _.
#[local] Arguments apply_session {enc dec ores ires} _ _ _.
#[local] Arguments hres_of {enc dec ores ires} _ _.
#[local] Arguments pre_connack {enc dec ores ires} _.
#[local] Arguments sum_ss {enc dec ores ires} _.
#[local] Arguments handle_pingresp {enc dec ores ires} _.
#[local] Arguments handle_suback {enc dec ores ires} _ _ _.
#[local] Arguments handle_unsuback {enc dec ores ires} _ _ _.
#[local] Arguments publish_qos_of {enc dec ores ires} _ _.
#[local] Arguments handle_puback {enc dec ores ires} _ _ _.
#[local] Arguments handle_pubrec {enc dec ores ires} _ _ _.
#[local] Arguments handle_pubrel {enc dec ores ires} _ _.
#[local] Arguments handle_pubcomp {enc dec ores ires} _ _ _.
#[local] Arguments handle_publish {enc dec ores ires} _ _.
#[local] Arguments handle_disconnect {enc dec ores ires} _ _ _.
#[local] Arguments is_connect_op {enc dec ores ires} _ _.
#[local] Arguments connect_in_queue {enc dec ores ires} _.
#[local] Arguments reset {enc dec ores ires} _ _.
#[local] Arguments out_of_res {enc dec ores ires} _ _.
#[local] Arguments nst_queue {enc dec ores ires} _ _ _ _.
#[local] Arguments earliest_tmo {enc dec ores ires} _.
#[local] Arguments SeatStop {enc dec ores ires} _.
#[local] Arguments SeatContinue {enc dec ores ires} _ _.
#[local] Arguments SeatEncode {enc dec ores ires} _.


Section Wire.
  Variable enc : Type.
  Variable enc_reset : version -> packet -> resolution -> outcome enc.
  Variable enc_call : enc -> N -> N -> outcome (bytes * enc).
  Variable enc_done : enc -> bool.
  Variable dec : Type.
  Variable dec_init : dec.
  Variable dec_feed : version -> N -> dec -> bytes -> dec * list packet * outcome unit.
  Variable ores : Type.
  Variable ores_reset : ores -> N -> ores.
  Variable ores_resolve : ores -> option N -> bytes -> outcome (ores * resolution).
  Variable ires : Type.
  Variable ires_reset : ires -> ires.
  Variable ires_resolve : ires -> option N -> bytes -> outcome (ires * bytes).
  Variable v_out : option settings -> connect_opts -> resolution -> packet -> outcome unit.
  Variable v_in : option settings -> packet -> outcome unit.
  Variable cfg : config.
  Variable HC : comps_ok enc enc_reset enc_call dec dec_init dec_feed ores ores_reset ores_resolve ires ires_reset ires_resolve v_out v_in.
  Hypothesis Hcfg : ok_cfg cfg.

  (* the encoder component is a resumable writer of a fixed byte string *)
  Variable enc_rem : enc -> bytes.                                   (* what the encoder still has to write *)
  Variable enc_full : version -> packet -> resolution -> bytes.      (* the complete encoding *)
  Hypothesis enc_reset_full : forall v p r e, enc_reset v p r = Ok e -> enc_rem e = enc_full v p r.
  Hypothesis enc_call_rem : forall e fill cap out e', enc_call e fill cap = Ok (out, e') -> enc_rem e = out ++ enc_rem e'.
  Hypothesis enc_done_rem : forall e, enc_done e = true -> enc_rem e = [].
  (* an encoder that can run to completion was constructed for a packet with an error-free encoding
     (instantiate both predicates with True if this is of no interest) *)
  Variable enc_good : enc -> Prop.
  Variable pkt_good : version -> packet -> resolution -> Prop.
  Hypothesis enc_reset_good : forall v p r e, enc_reset v p r = Ok e -> enc_good e -> pkt_good v p r.
  Hypothesis enc_call_good : forall e fill cap out e', enc_call e fill cap = Ok (out, e') -> enc_good e' -> enc_good e.
  Hypothesis enc_done_good : forall e, enc_done e = true -> enc_good e.

  Notation state := (state enc dec ores ires).
  Notation sres := (sres enc dec ores ires).
  Notation seat := (seat enc dec ores ires).
  Notation step := (step enc enc_reset enc_call enc_done dec dec_init dec_feed ores ores_reset ores_resolve
                         ires ires_reset ires_resolve v_out v_in cfg).
  Notation run := (run enc enc_reset enc_call enc_done dec dec_init dec_feed ores ores_reset ores_resolve
                       ires ires_reset ires_resolve v_out v_in cfg).
  Notation service_queue := (service_queue enc enc_reset enc_call enc_done dec ores ores_reset ores_resolve ires v_out cfg).
  Notation service := (service enc enc_reset enc_call enc_done dec ores ores_reset ores_resolve ires v_out cfg).
  Notation net_data := (net_data enc dec dec_feed ores ores_reset ires ires_reset ires_resolve v_in cfg).
  Notation queue_fuel := (queue_fuel enc dec ores ires).
  Notation seat_state := (seat_state enc dec ores ires).
  Notation init := (init (enc:=enc) dec_init).
  Notation WFX := (WFX enc enc_reset enc_call dec dec_init dec_feed ores ores_reset ores_resolve ires ires_reset ires_resolve v_out v_in cfg HC).
  Notation seat_current_a := (seat_current_a enc enc_reset dec ores ores_reset ores_resolve ires v_out cfg).
  Notation service_loop_w := (service_loop_w enc enc_reset enc_call enc_done dec ores ores_reset ores_resolve ires v_out cfg).
  Notation service_wlog := (service_wlog enc enc_reset enc_call enc_done dec ores ores_reset ores_resolve ires v_out cfg).
  Notation step_wlog := (step_wlog enc enc_reset enc_call enc_done dec dec_feed ores ores_reset ores_resolve ires ires_reset ires_resolve v_out v_in cfg).
  Notation run_wlog := (run_wlog enc enc_reset enc_call enc_done dec dec_init dec_feed ores ores_reset ores_resolve ires ires_reset ires_resolve v_out v_in cfg).
  Notation run_olog := (run_olog enc enc_reset enc_call enc_done dec dec_init dec_feed ores ores_reset ores_resolve ires ires_reset ires_resolve v_out v_in cfg).
  Notation handle_packets_a := (handle_packets_a enc dec ores ores_reset ires ires_reset ires_resolve v_in cfg).
  Notation data_logs := (data_logs enc dec dec_feed ores ores_reset ires ires_reset ires_resolve v_in cfg).

  Ltac splits := repeat match goal with |- _ /\ _ => split end.

  (* the complete encoding of a seated (packet, resolution) in the configured protocol version *)
  Definition full (x : pr) : bytes := enc_full (cf_version cfg) (fst x) (snd x).
  Definition good (x : pr) : Prop := pkt_good (cf_version cfg) (fst x) (snd x).

  (* the decomposition is consistent: the stream is the completed packets' encodings followed by the part of the
     current one; the packets constructed are the completed ones followed by the current one *)
  Definition GI (g : wg) : Prop :=
    w_stream g = concat (map full (w_done g)) ++ w_part g /\
    w_seated g = w_done g ++ olist (w_cur g) /\
    match w_cur g with
    | None => w_part g = []
    | Some x => exists rest, full x = w_part g ++ rest
    end /\
    Forall good (w_done g).

  (* the engine's encoder slot and the decomposition agree: what the encoder still has to write is exactly the
     rest of the current packet's encoding *)
  Definition C (s : state) (g : wg) : Prop :=
    match s_cur s with
    | None => w_cur g = None
    | Some _ => exists e x, s_enc s = Some e /\ w_cur g = Some x /\ full x = w_part g ++ enc_rem e /\ (enc_good e -> good x)
    end.

  Definition live (s : state) : Prop := s_st s = PendingConnack \/ s_st s = Connected.
  Definition Inv (s : state) (g : wg) : Prop := live s -> C s g.

  Lemma C_wv (s s' : state) g : wv_of s' = wv_of s -> C s g -> C s' g.
  Proof. intros H. destruct (wv_fields _ _ H) as (E1 & E2). unfold C. rewrite E1, E2. auto. Qed.

  Lemma halted_dead (s : state) g : Inv (s <| s_st := Halted |>) g.
  Proof. intros [H|H]; cbn in H; discriminate. Qed.

  Lemma GI_wg0 : GI wg0.
  Proof. unfold GI. cbn. auto. Qed.
  Hint Resolve Forall_nil : core.

  (* ---- one seat ---- *)
  Lemma seat_w_spec (s : state) m acc dn (g : wg) :
    GI g -> C s g ->
    let g' := wfold g (map WO (snd (seat_current_a s m acc dn))) in
    GI g' /\
    match fst (seat_current_a s m acc dn) with
    | SeatStop r => sr_out r = Ok tt -> C (sr_s r) g'
    | SeatContinue s5 _ => C s5 g'
    | SeatEncode s5 => C s5 g'
    end.
  Proof.
    intros HG HCs. cbv zeta. unfold AliasRunLog.seat_current_a.
    destruct (s_cur s) as [c|] eqn:Ec; [cbn; auto|].
    assert (Hcur : w_cur g = None) by (unfold C in HCs; rewrite Ec in HCs; exact HCs).
    pose proof (dequeue_wv cfg s m) as Hd. destruct (dequeue cfg s m) as [s1 next]. cbn [fst] in Hd.
    destruct (wv_fields _ _ Hd) as (D1 & D2).
    destruct next as [id|]; [|cbn; split; [exact HG|intros _; eapply C_wv; eauto]].
    set (s2 := s1 <| s_cur := Some id |>).
    assert (Hin : forall l, forallb inert l = true -> wfold g (map WO l) = g) by (intros l H; apply wfold_inert; exact H).
    destruct (negb (op_exists s2 id)).
    { cbn [fst snd]. rewrite Hin by reflexivity. split; [exact HG|]. unfold C. cbn. exact Hcur. }
    destruct (acquire_pid_for s2 id) as [s3|k|site] eqn:Ea;
      [|cbn [fst snd]; rewrite Hin by reflexivity; split; [exact HG|discriminate]..].
    apply acquire_pid_for_wv in Ea. destruct (wv_fields _ _ Ea) as (A1 & A2). change (s_cur s2) with (Some id) in A1.
    destruct (lookup id (s_ops s3)) as [o|]; [|cbn [fst snd]; rewrite Hin by reflexivity; split; [exact HG|discriminate]].
    set (packet := match op_pubrel o with Some pr => pr | None => op_packet o end).
    set (lr := match packet with
               | Publish pb => [OResolve id (pub_alias pb) (pub_topic pb) (res_of (ores_resolve (s_ores s3) (pub_alias pb) (pub_topic pb)))]
               | _ => [] end).
    assert (Hlr : forallb inert lr = true) by (subst lr; destruct packet; reflexivity).
    assert (Hpre : forall tl, forallb inert tl = true -> forallb inert (OPick id :: lr ++ tl) = true).
    { intros tl H. cbn. rewrite forallb_app, Hlr, H. reflexivity. }
    assert (Hres : forall x : outcome (state * resolution),
              x = match packet with
                  | Publish pb => do (o', r) <- ores_resolve (s_ores s3) (pub_alias pb) (pub_topic pb) ; Ok (s3 <| s_ores := o' |>, r)
                  | _ => Ok (s3, no_resolution) end ->
              match x with Ok (s4, _) => wv_of s4 = wv_of s3 | _ => True end).
    { intros x ->. destruct packet; try reflexivity. destruct (ores_resolve _ _ _) as [[o' r]| |]; cbn; try exact I. reflexivity. }
    specialize (Hres _ eq_refl).
    destruct (match packet with
              | Publish pb => do (o', r) <- ores_resolve (s_ores s3) (pub_alias pb) (pub_topic pb) ; Ok (s3 <| s_ores := o' |>, r)
              | _ => Ok (s3, no_resolution) end) as [[s4 r]|k|site];
      [|cbn [fst snd]; rewrite (Hin (OPick id :: lr)) by (rewrite (app_nil_end lr); apply Hpre; reflexivity); split; [exact HG|discriminate]..].
    destruct (wv_fields _ _ Hres) as (R1 & R2).
    destruct (v_out (s_settings s4) (cf_connect cfg) r packet) as [u|k|site].
    - destruct (enc_reset (cf_version cfg) packet r) as [e|k|site] eqn:Ee;
        [|cbn [fst snd]; rewrite Hin by (apply Hpre; reflexivity); split; [exact HG|discriminate]..].
      cbn [fst snd].
      assert (Esplit : OPick id :: lr ++ [OValid id packet r (Ok tt); OEncode id packet r true] =
                       (OPick id :: lr ++ [OValid id packet r (Ok tt)]) ++ [OEncode id packet r true]).
      { cbn. rewrite <- app_assoc. reflexivity. }
      rewrite Esplit, map_app, wfold_app, Hin by (apply Hpre; reflexivity). cbn [map wfold fold_left wstep].
      destruct HG as (G1 & G2 & G3 & G4). rewrite Hcur in G2, G3. cbn [olist] in G2.
      split.
      + unfold GI. cbn. splits.
        * rewrite G1, G3. reflexivity.
        * rewrite G2, app_nil_r. reflexivity.
        * exists (full (packet, r)). reflexivity.
        * exact G4.
      + unfold C. cbn. assert (Hc4 : s_cur s4 = Some id) by congruence. rewrite Hc4.
        exists e, (packet, r). splits; auto; [unfold full; cbn; symmetry; apply (enc_reset_full _ _ _ _ Ee)|].
        unfold good. cbn. apply (enc_reset_good _ _ _ _ Ee).
    - cbv zeta.
      set (mx := match s_settings s4 with Some st => st_topic_alias_maximum_to_server st | None => 0 end).
      set (s4' := match r_alias r with Some _ => s4 <| s_ores := ores_reset (s_ores s4) mx |> | None => s4 end).
      pose proof (fail_op_wv cfg (s4' <| s_cur := None |>) id k) as Hf.
      set (rf := fail_op cfg (s4' <| s_cur := None |>) id k) in *.
      destruct (wv_fields _ _ Hf) as (F1 & F2). cbn in F1.
      assert (Hl : forallb inert (OPick id :: lr ++ OValid id packet r (Err k) :: match r_alias r with Some _ => [OReset mx] | None => [] end ++ [ORejected id k]) = true).
      { apply Hpre. destruct (r_alias r); reflexivity. }
      destruct (r_out rf); cbn [fst snd]; rewrite (Hin _ Hl); (split; [exact HG|]); try discriminate;
        unfold C; rewrite F1; exact Hcur.
    - cbn [fst snd]. rewrite Hin by (apply Hpre; reflexivity). split; [exact HG|discriminate].
  Qed.

  (* ---- the loop ---- *)
  Theorem loop_w_spec : forall f (s : state) m now cap fill acc dn (g : wg),
    GI g -> C s g ->
    let rt := service_loop_w f s m now cap fill acc dn in
    let g' := wfold g (snd rt) in
    GI g' /\ (sr_out (fst rt) = Ok tt -> C (sr_s (fst rt)) g').
  Proof.
    induction f as [|f IH]; intros s m now cap fill acc dn g HG HCs; cbn [WireRunLog.service_loop_w].
    { cbn. split; [exact HG|discriminate]. }
    destruct (negb (pstate_eqb (s_st s) PendingConnack || pstate_eqb (s_st s) Connected)); [cbn; auto|].
    pose proof (seat_w_spec s m acc dn g HG HCs) as Hs. cbv zeta in Hs.
    destruct (seat_current_a s m acc dn) as [[r|s5 dn'|s5] l]; cbn [fst snd] in Hs |- *.
    - exact Hs.
    - destruct Hs as [G1 C1]. rewrite wfold_app. apply IH; assumption.
    - destruct Hs as [G1 C1]. set (g1 := wfold g (map WO l)) in *.
      destruct (s_cur s5) as [id|] eqn:Ec; [|cbn; split; [exact G1|discriminate]].
      destruct (negb (op_exists s5 id)); [cbn; split; [exact G1|discriminate]|].
      unfold C in C1. rewrite Ec in C1. destruct C1 as (e & x & Ee & Ex & Ef & Eg). rewrite Ee.
      destruct (enc_call e (fill + len acc) cap) as [[out e']|k|site] eqn:Ecall; [|cbn; split; [exact G1|discriminate]..].
      cbv zeta. pose proof (enc_call_rem _ _ _ _ _ Ecall) as Hrem.
      set (s6 := s5 <| s_enc := Some e' |>).
      (* the ghost after the bytes of this call *)
      set (g2 := wstep g1 (WB out)).
      assert (E2 : forall tl, wfold g (map WO l ++ WB out :: tl) = wfold g2 tl) by (intros tl; rewrite wfold_app; reflexivity).
      destruct G1 as (G1a & G1b & G1c & G1d). rewrite Ex in G1b, G1c.
      pose proof (enc_call_good _ _ _ _ _ Ecall) as Hgood.
      assert (Hfull : full x = (w_part g1 ++ out) ++ enc_rem e') by (rewrite Ef, Hrem, app_assoc; reflexivity).
      assert (G2 : GI g2).
      { unfold GI, g2. cbn. rewrite Ex. splits.
        - rewrite G1a, app_assoc. reflexivity.
        - exact G1b.
        - exists (enc_rem e'). exact Hfull.
        - exact G1d. }
      destruct (enc_done e') eqn:Ed.
      + pose proof (enc_done_rem _ Ed) as Hnil. rewrite Hnil, app_nil_r in Hfull.
        destruct (fully_written s6 now) as [s7|k|site] eqn:Efw; [|cbn [fst snd]; rewrite E2; cbn; split; [exact G2|discriminate]..].
        apply fully_written_wv in Efw. destruct Efw as (W1 & W2).
        cbn [fst snd]. rewrite E2. cbn [wfold fold_left]. fold (wfold (wstep g2 (WO (ODone id))) (snd (service_loop_w f s7 m now cap fill (acc ++ out) dn))).
        apply IH.
        * unfold GI, g2. cbn. rewrite Ex. cbn [olist]. splits.
          -- rewrite map_app, concat_app. cbn. rewrite G1a, Hfull, !app_nil_r, app_assoc. reflexivity.
          -- rewrite G1b, app_nil_r. reflexivity.
          -- reflexivity.
          -- apply Forall_app. split; [exact G1d|]. constructor; [|constructor]. apply Eg, Hgood, enc_done_good. exact Ed.
        * unfold C. rewrite W1. reflexivity.
      + cbn [fst snd]. rewrite E2. cbn. split; [exact G2|]. intros _. unfold C. cbn. rewrite Ec.
        exists e', x. splits; auto.
  Qed.

  (* ---- one service call ---- *)
  Theorem service_w_spec (s : state) now cap fill (g : wg) :
    GI g -> Inv s g ->
    let g' := wfold g (service_wlog s now cap fill) in
    GI g' /\ Inv (sr_s (service s now cap fill)) g'.
  Proof.
    intros HG HI. cbv zeta.
    pose proof (service_st enc enc_reset enc_call enc_done dec ores ores_reset ores_resolve ires v_out cfg s now cap fill) as Hst.
    assert (Hq : forall (s1 : state) m, C s1 g ->
              let g' := wfold g (service_queue_wlog enc enc_reset enc_call enc_done dec ores ores_reset ores_resolve ires v_out cfg s1 m now cap fill) in
              GI g' /\ (sr_out (service_queue s1 m now cap fill) = Ok tt -> C (sr_s (service_queue s1 m now cap fill)) g')).
    { intros s1 m HC1. cbv zeta. unfold service_queue_wlog.
      destruct (loop_w_spec (queue_fuel s1) s1 m now cap fill [] [] g HG HC1) as (L1 & L2). cbv zeta in L1, L2.
      split; [exact L1|]. rewrite service_queue_w. cbv zeta.
      set (r0 := fst (service_loop_w (queue_fuel s1) s1 m now cap fill [] [])) in *.
      destruct (sr_bytes r0); cbn [sr_s sr_out]; [exact L2|]. intros H. apply (C_wv (sr_s r0)); [reflexivity|exact (L2 H)]. }
    unfold Model.service, WireRunLog.service_wlog in *. cbv zeta in *. cbn [sr_s] in *.
    destruct (s_st s) eqn:Est.
    - cbn. split; [exact HG|]. intros [H|H]; rewrite Est in H; discriminate.
    - assert (Hlive : live s) by (left; exact Est). specialize (HI Hlive).
      assert (Hhalt : forall (s' : state) out, GI g /\ Inv (halt_on_error s' out) g -> out <> Ok tt -> GI g /\ Inv (halt_on_error s' out) g) by auto.
      destruct (s_connack_to s) as [t|]; [|cbn; split; [exact HG|intros [H|H]; discriminate]].
      destruct (t <=? now); [cbn; split; [exact HG|intros [H|H]; discriminate]|].
      destruct (Hq s false HI) as (Q1 & Q2). cbv zeta in Q1, Q2. split; [exact Q1|].
      set (q := service_queue s false now cap fill) in *.
      destruct (sr_out q) as [[]|k|site]; cbn [halt_on_error]; [intros _; apply Q2; reflexivity|intros [H|H]; discriminate..].
    - assert (Hlive : live s) by (right; exact Est). specialize (HI Hlive).
      destruct (service_keep_alive cfg s now) as [s1|k|site] eqn:Ek; [|cbn; split; [exact HG|intros [H|H]; discriminate]..].
      apply service_keep_alive_wv in Ek. destruct (Hq s1 true (C_wv _ _ _ Ek HI)) as (Q1 & Q2). cbv zeta in Q1, Q2. split; [exact Q1|].
      set (q := service_queue s1 true now cap fill) in *.
      destruct (sr_out q) as [[]|k|site] eqn:Eo; cbn [sr_s sr_out]; rewrite ?Eo; cbn [halt_on_error]; [|apply halted_dead..].
      pose proof (process_ack_timeouts_wv cfg (sr_s q) now) as Ep.
      set (t := process_ack_timeouts cfg (sr_s q) now) in *.
      destruct (r_out t) as [[]|k|site]; cbn [halt_on_error]; [|apply halted_dead..].
      intros _. apply (C_wv (sr_s q)); [exact Ep|apply Q2; reflexivity].
    - cbn [wfold fold_left]. split; [exact HG|]. intros [H|H]; rewrite H in Hst; cbn in Hst; destruct Hst as [Hst|Hst]; discriminate.
    - cbn. split; [exact HG|intros [H|H]; discriminate].
  Qed.

  (* the alias events of an inbound data call do not concern the encoder *)
  Lemma handle_packets_a_inert now : forall ps (s : state) dn ev, forallb inert (snd (snd (handle_packets_a s now ps dn ev))) = true.
  Proof.
    induction ps as [|p rest IH]; intros s dn ev; cbn [AliasRunLog.handle_packets_a]; [reflexivity|].
    destruct (match p with
              | Publish pb => do (i', t) <- ires_resolve (s_ires s) (pub_alias pb) (pub_topic pb) ; Ok (s <| s_ires := i' |>, Publish (with_topic pb t))
              | _ => Ok (s, p) end) as [[s1 p1]|k|site]; [|reflexivity|reflexivity].
    destruct (v_in (s_settings s1) p1); [|reflexivity|reflexivity]. cbv zeta.
    assert (Hp : forallb inert (packet_olog enc dec ores ires v_in s1 p1) = true).
    { unfold packet_olog. destruct p1; try reflexivity. destruct (connack_accepted _ _ _ _ _ _ _); reflexivity. }
    destruct (h_out _); cbn [snd]; [rewrite forallb_app, Hp; apply IH|exact Hp..].
  Qed.

  Lemma data_logs_inert (s : state) now data : forallb inert (snd (data_logs s now data)) = true.
  Proof.
    unfold AliasRunLog.data_logs. destruct (_ || _); [reflexivity|]. destruct (_ && _); [reflexivity|].
    destruct (dec_feed _ _ _ _) as [[d' ps] r]. destruct r; [|reflexivity|reflexivity]. apply handle_packets_a_inert.
  Qed.

  (* ---- one step ---- *)
  Theorem step_w_spec (s : state) e (g : wg) :
    WFS s -> GI g -> Inv s g ->
    let g' := wfold g (step_wlog s e) in
    GI g' /\ Inv (fst (step s e)) g'.
  Proof.
    intros HW HG HI. cbv zeta.
    pose proof (step_st enc enc_reset enc_call enc_done dec dec_init dec_feed ores ores_reset ores_resolve ires ires_reset ires_resolve v_out v_in cfg s e HW) as Hst.
    assert (Hsame : forall (s' : state), wv_of s' = wv_of s -> (live s' -> live s) -> GI g /\ Inv s' g).
    { intros s' E Hl. split; [exact HG|]. intros H. apply (C_wv s); [exact E|]. apply HI. apply Hl. exact H. }
    assert (Hdead : forall (s' : state), ~ live s' -> GI g /\ Inv s' g) by (intros s' H; split; [exact HG|intros Hl; contradiction]).
    destruct e as [now p t|now dl|now|now data|now|now cap fill|now|now]; cbn [WireRunLog.step_wlog AliasRunLog.step_olog].
    - (* user submission *)
      cbn [map wfold fold_left]. cbn [Model.step] in *. unfold out_of_res in *. cbn [fst] in *.
      apply Hsame; [apply user_event_wv|]. cbn [HandshakeRunSt.st_step] in Hst.
      intros [H|H]; rewrite H in Hst; destruct Hst as [Hst|[Hst Hst']]; try discriminate; [left|right]; congruence.
    - (* connection opened: the stream of a new connection starts, the encoder slot is free *)
      cbn [wfold fold_left]. fold (wfold (wstep g WOpen) (map WO (if pstate_eqb (s_st s) Disconnected then [OOpen] else []))).
      rewrite wfold_inert by (destruct (pstate_eqb (s_st s) Disconnected); reflexivity). cbn [wstep].
      split; [exact GI_wg0|]. cbn [Model.step]. unfold out_of_res, net_opened.
      destruct (pstate_eqb (s_st s) Disconnected); cbn [negb r_s r_out fst halt_on_error].
      + cbn [create_operation fst snd pure r_s r_out halt_on_error]. intros _. unfold C. reflexivity.
      + intros [H|H]; discriminate.
    - (* connection closed *)
      rewrite wfold_inert by (destruct (pstate_eqb (s_st s) Disconnected); reflexivity).
      apply Hdead. cbn [HandshakeRunSt.st_step] in Hst. intros [H|H]; rewrite H in Hst; destruct (s_st s); discriminate.
    - (* inbound bytes *)
      rewrite wfold_inert by apply data_logs_inert. cbn [Model.step fst] in *.
      apply Hsame; [etransitivity; [apply halt_on_error_wv|apply net_data_wv]|].
      cbn [HandshakeRunSt.st_step] in Hst. unfold live.
      intros [H|H]; rewrite H in Hst; destruct (s_st s); try tauto; intuition discriminate.
    - (* write completion *)
      cbn [map wfold fold_left]. cbn [Model.step] in *. unfold out_of_res in *. cbn [fst] in *.
      apply Hsame; [etransitivity; [apply halt_on_error_wv|apply net_write_completion_wv]|].
      cbn [HandshakeRunSt.st_step] in Hst. unfold live.
      intros [H|H]; rewrite H in Hst; destruct (s_st s); try tauto; intuition discriminate.
    - (* service *)
      cbn [Model.step fst]. apply service_w_spec; assumption.
    - (* next service time *)
      cbn [map wfold fold_left Model.step]. destruct (next_service_time cfg s now); cbn [fst]; (split; [exact HG|exact HI]).
    - (* reset *)
      cbn [map wfold fold_left wstep]. apply Hdead. cbn [HandshakeRunSt.st_step] in Hst.
      intros [H|H]; rewrite H in Hst; destruct (s_st s); discriminate.
  Qed.

  (* ---- histories ---- *)
  Theorem run_w_spec : forall h (s : state) (g : wg),
    WFX s -> Forall ok_event h -> GI g -> Inv s g ->
    let g' := wfold g (run_wlog s h) in
    GI g' /\ Inv (fst (run s h)) g'.
  Proof.
    induction h as [|e r IH]; intros s g HW Hall HG HI; cbn [WireRunLog.run_wlog Model.run]; [cbn; auto|].
    inversion Hall as [|? ? He Hr]; subst.
    destruct (step_w_spec s e g (proj1 (proj1 HW)) HG HI) as (A1 & A2). cbv zeta in A1, A2.
    pose proof (WF_step enc enc_reset enc_call enc_done dec dec_init dec_feed ores ores_reset ores_resolve ires ires_reset ires_resolve v_out v_in cfg HC Hcfg s e HW He) as HW1.
    destruct (step s e) as [s1 o] eqn:Es. cbn [fst snd] in *.
    destruct (IH s1 _ HW1 Hr A1 A2) as (B1 & B2). cbv zeta in B1, B2.
    destruct (run s1 r) as [s2 os] eqn:Er. cbn [fst snd] in *. rewrite wfold_app. auto.
  Qed.

  (* ================= the run-level theorem, from the initial state ================= *)

  (* For every history: the bytes emitted since the last EvOpen (an observable of the outputs) are the complete
     encodings of [w_done] in order, followed by [w_part], a prefix of the encoding of the packet the encoder holds
     ([w_part] is empty when it holds none); [w_done ++ current] are exactly the (packet, resolution) pairs of the
     successful encoder constructions logged since the last EvOpen, in order, and the alias events of the wire log
     are the alias log of AliasRunLog.v. *)
  Theorem wire_stream_run (o : ores) (i : ires) h :
    ores_inv HC o -> ires_inv HC i -> Forall ok_event h ->
    let L := run_wlog (init o i) h in
    let g := wfold wg0 L in
    conn_bytes h (snd (run (init o i) h)) [] = concat (map full (w_done g)) ++ w_part g /\
    match w_cur g with
    | None => w_part g = []
    | Some x => exists rest, full x = w_part g ++ rest
    end /\
    conn_seated L [] = w_done g ++ olist (w_cur g) /\
    olog_of L = run_olog (init o i) h /\
    Forall good (w_done g) /\
    (live (fst (run (init o i) h)) -> C (fst (run (init o i) h)) g).
  Proof.
    intros Ho Hi Hall. cbv zeta.
    assert (HI0 : Inv (init o i) wg0) by (intros _; unfold C; reflexivity).
    destruct (run_w_spec h (init o i) wg0 (WF_init _ _ _ _ _ _ _ _ _ _ _ _ _ _ _ HC o i Ho Hi) Hall GI_wg0 HI0) as ((G1 & G2 & G3 & G4) & B2).
    cbv zeta in *. splits.
    - rewrite <- G1, wfold_stream, run_wlog_stream. reflexivity.
    - exact G3.
    - rewrite <- G2, wfold_seated. reflexivity.
    - apply run_wlog_olog.
    - exact G4.
    - exact B2.
  Qed.
End Wire.
