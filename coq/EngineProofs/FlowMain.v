(* C09, part 5: the flow invariant over whole runs and the receive-maximum bound. *)
From GM Require Import Base.Prelude Base.Outcome Codec.Packets Codec.Settings Engine.Model.
From GM Require Import EngineProofs.AssocLemmas EngineProofs.PacketIds EngineProofs.IdsFrame EngineProofs.SvcTimeout EngineProofs.Flow EngineProofs.FlowInv EngineProofs.FlowStep EngineProofs.FlowSvc.
From RecordUpdate Require Import RecordSet.
From Coq Require Import Sorting.Sorted.
Import RecordSetNotations.
Open Scope N_scope.

Set Default Proof Using "Type".
Section Engine.
  Variable enc : Type.
  Variable enc_reset : version -> packet -> resolution -> outcome enc.
  Variable enc_call : enc -> N -> N -> outcome (bytes * enc).
  Variable enc_done : enc -> bool.
  Variable dec : Type.
  Variable dec_init : dec.
  Variable dec_feed : version -> N -> dec -> bytes -> dec * list packet * outcome unit.
  Variable ores : Type.
  Variable ores_reset : ores -> N -> ores.
  Variable ores_resolve : ores -> option N -> bytes -> outcome (ores * resolution).
  Variable ires : Type.
  Variable ires_reset : ires -> ires.
  Variable ires_resolve : ires -> option N -> bytes -> outcome (ires * bytes).
  Variable v_out : option settings -> connect_opts -> resolution -> packet -> outcome unit.
  Variable v_in : option settings -> packet -> outcome unit.
  Variable cfg : config.

  Notation state := (Model.state enc dec ores ires).
  Notation init := (Model.init enc dec dec_init ores ires).
  Notation res := (Model.res enc dec ores ires).
  Notation release := (Model.release enc dec ores ires cfg).
  Notation disconnect_completion := (Model.disconnect_completion enc dec ores ires).
  Notation fail_op := (Model.fail_op enc dec ores ires cfg).
  Notation ping_extension := (Model.ping_extension enc dec ores ires).
  Notation succeed_op := (Model.succeed_op enc dec ores ires cfg).
  Notation fail_all := (Model.fail_all enc dec ores ires cfg).
  Notation succeed_all := (Model.succeed_all enc dec ores ires cfg).
  Notation andthen := (Model.andthen enc dec ores ires).
  Notation try_ := (Model.try_ enc dec ores ires).
  Notation pure := (Model.pure enc dec ores ires).
  Notation create_operation := (Model.create_operation enc dec ores ires).
  Notation passes_now := (Model.passes_now enc dec ores ires cfg).
  Notation user_event := (Model.user_event enc dec ores ires cfg).
  Notation create_connect := (Model.create_connect enc dec ores ires cfg).
  Notation net_opened := (Model.net_opened enc dec dec_init ores ires cfg).
  Notation op_exists := (Model.op_exists enc dec ores ires).
  Notation op_passes := (Model.op_passes enc dec ores ires cfg).
  Notation partition_policy := (Model.partition_policy enc dec ores ires cfg).
  Notation closed_current := (Model.closed_current enc dec ores ires cfg).
  Notation slow_start_init := (Model.slow_start_init enc dec ores ires cfg).
  Notation update_retries := (Model.update_retries enc dec ores ires cfg).
  Notation fail_exceeding := (Model.fail_exceeding enc dec ores ires cfg).
  Notation has_pubrel := (Model.has_pubrel enc dec ores ires).
  Notation net_closed_raw := (Model.net_closed_raw enc dec ores ires cfg).
  Notation net_closed := (Model.net_closed enc dec ores ires cfg).
  Notation net_write_completion := (Model.net_write_completion enc dec ores ires cfg).
  Notation acquire_free_pid := (Model.acquire_free_pid enc dec ores ires).
  Notation acquire_pid_for := (Model.acquire_pid_for enc dec ores ires).
  Notation unbind := (Model.unbind enc dec ores ires).
  Notation passes_receive_max := (Model.passes_receive_max enc dec ores ires).
  Notation throttled := (Model.throttled enc dec ores ires cfg).
  Notation has_pending_ack := (Model.has_pending_ack enc dec ores ires).
  Notation dequeue := (Model.dequeue enc dec ores ires cfg).
  Notation fully_written := (Model.fully_written enc dec ores ires).
  Notation sres := (Model.sres enc dec ores ires).
  Notation seat := (Model.seat enc dec ores ires).
  Notation seat_current := (Model.seat_current enc enc_reset dec ores ores_reset ores_resolve ires v_out cfg).
  Notation service_loop := (Model.service_loop enc enc_reset enc_call enc_done dec ores ores_reset ores_resolve ires v_out cfg).
  Notation service_queue := (Model.service_queue enc enc_reset enc_call enc_done dec ores ores_reset ores_resolve ires v_out cfg).
  Notation service_keep_alive := (Model.service_keep_alive enc dec ores ires cfg).
  Notation process_ack_timeouts := (Model.process_ack_timeouts enc dec ores ires cfg).
  Notation halt_on_error := (Model.halt_on_error enc dec ores ires).
  Notation service := (Model.service enc enc_reset enc_call enc_done dec ores ores_reset ores_resolve ires v_out cfg).
  Notation earliest_tmo := (Model.earliest_tmo enc dec ores ires).
  Notation nst_queue := (Model.nst_queue enc dec ores ires cfg).
  Notation next_service_time := (Model.next_service_time enc dec ores ires cfg).
  Notation build_settings := (Model.build_settings enc dec ores ires cfg).
  Notation apply_session := (Model.apply_session enc dec ores ires cfg).
  Notation hres := (Model.hres enc dec ores ires).
  Notation hres_of := (Model.hres_of enc dec ores ires).
  Notation pre_connack := (Model.pre_connack enc dec ores ires).
  Notation sum_ss := (Model.sum_ss enc dec ores ires).
  Notation handle_connack := (Model.handle_connack enc dec ores ores_reset ires ires_reset v_in cfg).
  Notation handle_pingresp := (Model.handle_pingresp enc dec ores ires).
  Notation handle_suback := (Model.handle_suback enc dec ores ires cfg).
  Notation handle_unsuback := (Model.handle_unsuback enc dec ores ires cfg).
  Notation publish_qos_of := (Model.publish_qos_of enc dec ores ires).
  Notation handle_puback := (Model.handle_puback enc dec ores ires cfg).
  Notation handle_pubrec := (Model.handle_pubrec enc dec ores ires cfg).
  Notation handle_pubrel := (Model.handle_pubrel enc dec ores ires).
  Notation handle_pubcomp := (Model.handle_pubcomp enc dec ores ires cfg).
  Notation handle_publish := (Model.handle_publish enc dec ores ires).
  Notation handle_disconnect := (Model.handle_disconnect enc dec ores ires cfg).
  Notation handle_packet := (Model.handle_packet enc dec ores ores_reset ires ires_reset v_in cfg).
  Notation handle_packets := (Model.handle_packets enc dec ores ores_reset ires ires_reset ires_resolve v_in cfg).
  Notation is_connect_op := (Model.is_connect_op enc dec ores ires).
  Notation connect_in_queue := (Model.connect_in_queue enc dec ores ires).
  Notation max_incoming_size := (Model.max_incoming_size cfg).
  Notation net_data := (Model.net_data enc dec dec_feed ores ores_reset ires ires_reset ires_resolve v_in cfg).
  Notation reset := (Model.reset enc dec ores ires cfg).
  Notation out_of_res := (Model.out_of_res enc dec ores ires).
  Notation step := (Model.step enc enc_reset enc_call enc_done dec dec_init dec_feed ores ores_reset ores_resolve ires ires_reset ires_resolve v_out v_in cfg).
  Notation run := (Model.run enc enc_reset enc_call enc_done dec dec_init dec_feed ores ores_reset ores_resolve ires ires_reset ires_resolve v_out v_in cfg).
  Notation SeatStop := (Model.SeatStop enc dec ores ires).
  Notation SeatContinue := (Model.SeatContinue enc dec ores ires).
  Notation SeatEncode := (Model.SeatEncode enc dec ores ires).
  Notation mkState := (Model.mkState enc dec ores ires).
  (* lia generalises over every hypothesis mentioning N, including the Section variables: clear them first *)
  Ltac slia := try clear v_in; try clear v_out; try clear ires_resolve; try clear ires_reset; try clear ores_resolve;
    try clear ores_reset; try clear dec_feed; try clear dec_init; try clear enc_done; try clear enc_call; try clear enc_reset; lia.
  Ltac dm := match goal with
    | |- context [match ?x with _ => _ end] => destruct x eqn:?
    end.
  Notation flow_m := (FlowInv.flow_m enc dec ores ires).
  Notation flow_inv := (FlowInv.flow_inv enc dec ores ires).
  Notation pid_facts := (FlowInv.pid_facts enc dec ores ires).

  Lemma flow_init o i : flow_inv (init o i).
  Proof.
    unfold FlowInv.flow_inv. cbn. constructor; cbn.
    - split; cbn; constructor.
    - constructor.
    - constructor.
    - intros id H. discriminate.
    - intros H. discriminate.
    - intros _ id [H|[]]. discriminate.
  Qed.

  Lemma succeed_all_st ids : forall s, s_st (r_s (succeed_all s ids)) = s_st s \/ s_st (r_s (succeed_all s ids)) = Halted.
  Proof.
    induction ids as [|id r IH]; intros s; cbn [Model.succeed_all]; [left; reflexivity|].
    destruct (is_panic _); [apply succeed_op_st|].
    assert (H : s_st (r_s (succeed_all (r_s (succeed_op s id None)) r)) = s_st s \/ s_st (r_s (succeed_all (r_s (succeed_op s id None)) r)) = Halted).
    { destruct (IH (r_s (succeed_op s id None))) as [E|E]; [|right; exact E]. rewrite E. apply succeed_op_st. }
    destruct (is_panic _); cbn [r_s]; exact H.
  Qed.

  Lemma flow_halt_on_error (x : state) (out : outcome unit) : flow_inv x -> flow_inv (halt_on_error x out).
  Proof. intros H. destruct out; cbn [Model.halt_on_error]; [exact H|apply (flow_set_halted enc dec ores ires (s_st x)); exact H..]. Qed.

  (* one step: the packet-id facts are needed for service only *)
  Theorem flow_step s e :
    flow_inv s -> (forall now cap fill, e = EvService now cap fill -> pid_facts s) ->
    is_panic (o_res (snd (step s e))) = false -> flow_inv (fst (step s e)).
  Proof.
    intros Hf Hp Hnp. destruct e; cbn [Model.step] in *.
    - (* user *) unfold Model.out_of_res. cbn [fst]. eapply flow_inv_of; [apply flow_user_event; exact Hf|].
      unfold Model.user_event, Model.create_operation. cbn [fst snd]. dm; cbn [r_s]; [|dm; cbn; left; reflexivity].
      match goal with |- context [fail_op ?sx ?id ?e] => destruct (fail_op_st enc dec ores ires cfg sx id e) as [E|E]; rewrite E; auto end.
    - (* open *) unfold Model.out_of_res. cbn [fst]. apply flow_net_opened. exact Hf.
    - (* close *) unfold Model.out_of_res in *. cbn [fst snd o_res] in *.
      destruct (flow_net_closed enc dec ores ires cfg s Hf) as [H|H]; [congruence|exact H].
    - (* data *) cbn [fst snd o_res] in *.
      destruct (flow_net_data enc dec dec_feed ores ores_reset ires ires_reset ires_resolve v_in cfg s now data Hf) as [H|H]; [congruence|exact H].
    - (* write completion *) unfold Model.out_of_res. cbn [fst]. apply flow_halt_on_error.
      eapply flow_inv_of; [apply flow_write_completion; exact Hf|].
      unfold Model.net_write_completion. repeat dm; cbn [r_s]; try (left; reflexivity); try (cbn; right; reflexivity).
      match goal with |- context [succeed_all ?sx ?ids] => destruct (succeed_all_st ids sx) as [E|E]; rewrite E; auto end.
    - (* service *) cbn [fst]. apply flow_service; [exact Hf|]. eapply Hp. reflexivity.
    - (* next service time *) destruct (next_service_time s now); cbn [fst]; exact Hf.
    - (* reset *) unfold Model.out_of_res in *. cbn [fst snd o_res] in *.
      destruct (flow_reset enc dec ores ires cfg s) as [H|H]; [exact H|congruence].
  Qed.

  Lemma run_cons s e r :
    run s (e :: r) = (fst (run (fst (step s e)) r), snd (step s e) :: snd (run (fst (step s e)) r)).
  Proof. cbn [Model.run]. destruct (step s e) as [s1 o]. cbn [fst snd]. destruct (run s1 r). reflexivity. Qed.

  Theorem flow_run h : forall s,
    flow_inv s ->
    (forall k, pid_facts (fst (run s (firstn k h)))) ->
    (forall o, In o (snd (run s h)) -> is_panic (o_res o) = false) ->
    flow_inv (fst (run s h)).
  Proof.
    induction h as [|e r IH]; intros s Hf Hp Hnp; [exact Hf|].
    rewrite run_cons in *. cbn [fst snd] in *. apply IH.
    - apply flow_step; [exact Hf| |apply Hnp; left; reflexivity]. intros _ _ _ _. exact (Hp 0%nat).
    - intros k. specialize (Hp (S k)). cbn [firstn] in Hp. rewrite run_cons in Hp. exact Hp.
    - intros o Ho. apply Hnp. right. exact Ho.
  Qed.

  (* the receive-maximum bound, given the packet-id facts along the run *)
  Theorem receive_max_given o i h :
    (forall k, pid_facts (fst (run (init o i) (firstn k h)))) ->
    (forall out, In out (snd (run (init o i) h)) -> is_panic (o_res out) = false) ->
    let s := fst (run (init o i) h) in
    s_st s = Connected ->
    exists st, s_settings s = Some st /\ len (s_ppub s) <= st_receive_maximum_from_server st.
  Proof.
    intros Hp Hnp s Hst. pose proof (flow_run h (init o i) (flow_init o i) Hp Hnp) as Hf.
    unfold FlowInv.flow_inv in Hf. fold s in Hf. destruct (fl_count enc dec ores ires _ _ Hf Hst) as (st & Hs & Hle).
    exists st. split; [exact Hs|]. slia.
  Qed.
End Engine.
