(* C18 / C14 run level, part 3: the packet handlers and incoming data keep the frame relations (a
   successful CONNACK keeps NW only: it negotiates the keep-alive), and the keep-alive invariant KI:
   no deadline outside a connection; while Connected the next-ping time exists iff the negotiated
   keep-alive is positive, and a pending ping deadline t satisfies t + K*1000 <= next_ping + min(ping timeout, K*500). *)
From GM Require Import Base.Prelude Base.Outcome Codec.Packets Codec.Settings Engine.Model
  EngineProofs.AssocLemmas EngineProofs.WFLemmas EngineProofs.SvcTimeout EngineProofs.TimersRunDefs EngineProofs.TimersRunSvc.
From RecordUpdate Require Import RecordSet.
Import RecordSetNotations.
Open Scope N_scope.

Section Data.
  Variable enc : Type.
  Variable enc_reset : version -> packet -> resolution -> outcome enc.
  Variable enc_call : enc -> N -> N -> outcome (bytes * enc).
  Variable enc_done : enc -> bool.
  Variable dec : Type.
  Variable dec_init : dec.
  Variable dec_feed : version -> N -> dec -> bytes -> dec * list packet * outcome unit.
  Variable ores : Type.
  Variable ores_reset : ores -> N -> ores.
  Variable ores_resolve : ores -> option N -> bytes -> outcome (ores * resolution).
  Variable ires : Type.
  Variable ires_reset : ires -> ires.
  Variable ires_resolve : ires -> option N -> bytes -> outcome (ires * bytes).
  Variable v_out : option settings -> connect_opts -> resolution -> packet -> outcome unit.
  Variable v_in : option settings -> packet -> outcome unit.
  Variable cfg : config.

  Notation state := (Model.state enc dec ores ires).
  Notation init := (Model.init enc dec dec_init ores ires).
  Notation res := (Model.res enc dec ores ires).
  Notation release := (Model.release enc dec ores ires cfg).
  Notation disconnect_completion := (Model.disconnect_completion enc dec ores ires).
  Notation fail_op := (Model.fail_op enc dec ores ires cfg).
  Notation ping_extension := (Model.ping_extension enc dec ores ires).
  Notation succeed_op := (Model.succeed_op enc dec ores ires cfg).
  Notation fail_all := (Model.fail_all enc dec ores ires cfg).
  Notation succeed_all := (Model.succeed_all enc dec ores ires cfg).
  Notation andthen := (Model.andthen enc dec ores ires).
  Notation try_ := (Model.try_ enc dec ores ires).
  Notation pure := (Model.pure enc dec ores ires).
  Notation create_operation := (Model.create_operation enc dec ores ires).
  Notation passes_now := (Model.passes_now enc dec ores ires cfg).
  Notation user_event := (Model.user_event enc dec ores ires cfg).
  Notation create_connect := (Model.create_connect enc dec ores ires cfg).
  Notation net_opened := (Model.net_opened enc dec dec_init ores ires cfg).
  Notation op_exists := (Model.op_exists enc dec ores ires).
  Notation op_passes := (Model.op_passes enc dec ores ires cfg).
  Notation partition_policy := (Model.partition_policy enc dec ores ires cfg).
  Notation closed_current := (Model.closed_current enc dec ores ires cfg).
  Notation slow_start_init := (Model.slow_start_init enc dec ores ires cfg).
  Notation update_retries := (Model.update_retries enc dec ores ires cfg).
  Notation fail_exceeding := (Model.fail_exceeding enc dec ores ires cfg).
  Notation has_pubrel := (Model.has_pubrel enc dec ores ires).
  Notation net_closed_raw := (Model.net_closed_raw enc dec ores ires cfg).
  Notation net_closed := (Model.net_closed enc dec ores ires cfg).
  Notation net_write_completion := (Model.net_write_completion enc dec ores ires cfg).
  Notation acquire_free_pid := (Model.acquire_free_pid enc dec ores ires).
  Notation acquire_pid_for := (Model.acquire_pid_for enc dec ores ires).
  Notation unbind := (Model.unbind enc dec ores ires).
  Notation passes_receive_max := (Model.passes_receive_max enc dec ores ires).
  Notation throttled := (Model.throttled enc dec ores ires cfg).
  Notation has_pending_ack := (Model.has_pending_ack enc dec ores ires).
  Notation dequeue := (Model.dequeue enc dec ores ires cfg).
  Notation fully_written := (Model.fully_written enc dec ores ires).
  Notation sres := (Model.sres enc dec ores ires).
  Notation seat := (Model.seat enc dec ores ires).
  Notation seat_current := (Model.seat_current enc enc_reset dec ores ores_reset ores_resolve ires v_out cfg).
  Notation service_loop := (Model.service_loop enc enc_reset enc_call enc_done dec ores ores_reset ores_resolve ires v_out cfg).
  Notation service_queue := (Model.service_queue enc enc_reset enc_call enc_done dec ores ores_reset ores_resolve ires v_out cfg).
  Notation service_keep_alive := (Model.service_keep_alive enc dec ores ires cfg).
  Notation process_ack_timeouts := (Model.process_ack_timeouts enc dec ores ires cfg).
  Notation halt_on_error := (Model.halt_on_error enc dec ores ires).
  Notation service := (Model.service enc enc_reset enc_call enc_done dec ores ores_reset ores_resolve ires v_out cfg).
  Notation earliest_tmo := (Model.earliest_tmo enc dec ores ires).
  Notation nst_queue := (Model.nst_queue enc dec ores ires cfg).
  Notation next_service_time := (Model.next_service_time enc dec ores ires cfg).
  Notation build_settings := (Model.build_settings enc dec ores ires cfg).
  Notation apply_session := (Model.apply_session enc dec ores ires cfg).
  Notation hres := (Model.hres enc dec ores ires).
  Notation hres_of := (Model.hres_of enc dec ores ires).
  Notation pre_connack := (Model.pre_connack enc dec ores ires).
  Notation sum_ss := (Model.sum_ss enc dec ores ires).
  Notation handle_connack := (Model.handle_connack enc dec ores ores_reset ires ires_reset v_in cfg).
  Notation handle_pingresp := (Model.handle_pingresp enc dec ores ires).
  Notation handle_suback := (Model.handle_suback enc dec ores ires cfg).
  Notation handle_unsuback := (Model.handle_unsuback enc dec ores ires cfg).
  Notation publish_qos_of := (Model.publish_qos_of enc dec ores ires).
  Notation handle_puback := (Model.handle_puback enc dec ores ires cfg).
  Notation handle_pubrec := (Model.handle_pubrec enc dec ores ires cfg).
  Notation handle_pubrel := (Model.handle_pubrel enc dec ores ires).
  Notation handle_pubcomp := (Model.handle_pubcomp enc dec ores ires cfg).
  Notation handle_publish := (Model.handle_publish enc dec ores ires).
  Notation handle_disconnect := (Model.handle_disconnect enc dec ores ires cfg).
  Notation handle_packet := (Model.handle_packet enc dec ores ores_reset ires ires_reset v_in cfg).
  Notation handle_packets := (Model.handle_packets enc dec ores ores_reset ires ires_reset ires_resolve v_in cfg).
  Notation is_connect_op := (Model.is_connect_op enc dec ores ires).
  Notation connect_in_queue := (Model.connect_in_queue enc dec ores ires).
  Notation max_incoming_size := (Model.max_incoming_size cfg).
  Notation net_data := (Model.net_data enc dec dec_feed ores ores_reset ires ires_reset ires_resolve v_in cfg).
  Notation reset := (Model.reset enc dec ores ires cfg).
  Notation out_of_res := (Model.out_of_res enc dec ores ires).
  Notation step := (Model.step enc enc_reset enc_call enc_done dec dec_init dec_feed ores ores_reset ores_resolve ires ires_reset ires_resolve v_out v_in cfg).
  Notation run := (Model.run enc enc_reset enc_call enc_done dec dec_init dec_feed ores ores_reset ores_resolve ires ires_reset ires_resolve v_out v_in cfg).
  Notation SeatStop := (Model.SeatStop enc dec ores ires).
  Notation SeatContinue := (Model.SeatContinue enc dec ores ires).
  Notation SeatEncode := (Model.SeatEncode enc dec ores ires).
  Notation mkState := (Model.mkState enc dec ores ires).

  Ltac slia := try clear v_in; try clear v_out; try clear ires_resolve; try clear ires_reset; try clear ores_resolve;
    try clear ores_reset; try clear dec_feed; try clear dec_init; try clear enc_done; try clear enc_call; try clear enc_reset; lia.
  Ltac dm := match goal with
    | |- context [match ?x with _ => _ end] => destruct x eqn:?
    end.

  Ltac dmh H := match type of H with
    | context [match ?x with _ => _ end] => destruct x eqn:?
    end.
  Notation FR := (TimersRunDefs.FR enc dec ores ires).
  Notation NW := (TimersRunDefs.NW enc dec ores ires).
  Notation KR := (TimersRunDefs.KR enc dec ores ires).
  Notation ORi := (TimersRunDefs.OR enc dec ores ires isame TimersRunDefs.fresh_i).
  Notation ORt := (TimersRunDefs.OR enc dec ores ires tsame fresh_op).
  Notation fv := (TimersRunDefs.fv enc dec ores ires).
  Notation FR_refl := (TimersRunDefs.FR_refl enc dec ores ires).
  Notation FR_trans := (TimersRunDefs.FR_trans enc dec ores ires).
  Notation NW_refl := (TimersRunDefs.NW_refl enc dec ores ires).
  Notation NW_trans := (TimersRunDefs.NW_trans enc dec ores ires).
  Notation KR_refl := (TimersRunDefs.KR_refl enc dec ores ires).
  Notation KR_trans := (TimersRunDefs.KR_trans enc dec ores ires).
  Notation FR_view := (TimersRunDefs.FR_view enc dec ores ires).
  Notation KR_view := (TimersRunDefs.KR_view enc dec ores ires).
  Notation NW_view := (TimersRunDefs.NW_view enc dec ores ires).
  Notation FR_sub := (TimersRunDefs.FR_sub enc dec ores ires).
  Notation FR_from := (TimersRunDefs.FR_from enc dec ores ires).
  Notation FR_ops := (TimersRunDefs.FR_ops enc dec ores ires).
  Notation FR_update := (TimersRunDefs.FR_update enc dec ores ires).
  Notation FR_fold := (TimersRunDefs.FR_fold enc dec ores ires).
  Notation ORt_ORi := (TimersRunDefs.ORt_ORi enc dec ores ires).
  Notation ORi_refl := (TimersRunDefs.ORi_refl enc dec ores ires).
  Notation ORi_trans := (TimersRunDefs.ORi_trans enc dec ores ires).
  Notation create_FR := (TimersRunDefs.create_FR enc dec ores ires).
  Notation halt_on_error_FR := (TimersRunDefs.halt_on_error_FR enc dec ores ires).
  Notation unbind_FR := (TimersRunDefs.unbind_FR enc dec ores ires).
  Notation fold_unbind_FR := (TimersRunDefs.fold_unbind_FR enc dec ores ires).
  Notation andthen_R := (TimersRunDefs.andthen_R enc dec ores ires).
  Notation try_R := (TimersRunDefs.try_R enc dec ores ires).
  Notation fail_all_R := (TimersRunDefs.fail_all_R enc dec ores ires cfg).
  Notation fail_op_FR := (TimersRunDefs.fail_op_FR enc dec ores ires cfg).
  Notation succeed_op_FR := (TimersRunDefs.succeed_op_FR enc dec ores ires cfg).
  Notation fail_all_FR := (TimersRunDefs.fail_all_FR enc dec ores ires cfg).
  Notation succeed_all_FR := (TimersRunDefs.succeed_all_FR enc dec ores ires cfg).
  Notation user_event_FR := (TimersRunDefs.user_event_FR enc dec ores ires cfg).
  Notation net_opened_NW := (TimersRunDefs.net_opened_NW enc dec dec_init ores ires cfg).
  Notation net_write_completion_FR := (TimersRunDefs.net_write_completion_FR enc dec ores ires cfg).
  Notation service_keep_alive_NW := (TimersRunDefs.service_keep_alive_NW enc dec ores ires cfg).
  Notation seat_current_FR := (TimersRunDefs.seat_current_FR enc enc_reset dec ores ores_reset ores_resolve ires v_out cfg).
  Ltac splits := repeat match goal with |- _ /\ _ => split end.
  Ltac frv := apply FR_view; reflexivity.
  Notation TM := (TimersRunSvc.TM enc dec ores ires).

  (* ---- session handling ---- *)
  Lemma apply_session_FR s sp : FR s (r_s (apply_session s sp)).
  Proof.
    unfold Model.apply_session.
    match goal with |- context [if is_panic (r_out ?r1) then _ else _] => set (r1v := r1) end.
    assert (H1 : FR s (r_s r1v)).
    { unfold r1v. destruct sp; [apply FR_refl|]. destruct (partition_policy s (s_rq s)) as [kept rejected].
      match goal with |- context [fail_all ?sx rejected ?e] => pose proof (fail_all_FR rejected sx e) as Hf;
        set (rf := fail_all sx rejected e) in * end.
      assert (Hq : FR s (r_s rf)).
      { eapply FR_trans; [|exact Hf]. eapply FR_fold; [apply tsame_set_dup|cbn; reflexivity|reflexivity]. }
      destruct (is_panic (r_out rf)); [exact Hq|]. cbn [r_s]. eapply FR_trans; [exact Hq|frv]. }
    clearbody r1v. destruct (is_panic (r_out r1v)); [exact H1|].
    set (s2 := fold_left unbind (s_uq (r_s r1v)) (r_s r1v)).
    assert (H2 : FR s s2) by (eapply FR_trans; [exact H1|apply fold_unbind_FR]).
    assert (H3 : FR s (s2 <| s_rq := sort (s_rq s2) |> <| s_uq := sort (s_uq s2) |>)) by (eapply FR_trans; [exact H2|frv]).
    cbv zeta.
    repeat match goal with |- context [if ?b then _ else _] => destruct b end; cbn [r_s]; exact H3.
  Qed.

  Lemma handle_connack_NW s now c : NW s (h_s (handle_connack s now c)).
  Proof.
    unfold Model.handle_connack. destruct (negb (pstate_eqb (s_st s) PendingConnack)); [apply NW_refl|].
    destruct (negb (ca_rc c =? 0)); [apply NW_refl|]. destruct (v_in None (Connack c)); [|apply NW_refl..].
    cbv zeta.
    match goal with |- context [apply_session ?sx ?sp] => pose proof (apply_session_FR sx sp) as [Ha _]; set (r := apply_session sx sp) in * end.
    assert (H : NW s (r_s r)).
    { eapply NW_trans; [|exact Ha]. apply NW_view. destruct (cf_drain_one cfg); reflexivity. }
    destruct (r_out r); cbn [h_s]; exact H.
  Qed.

  (* ---- the other handlers ---- *)
  Definition hfr (s : state) (h : hres) : Prop := FR s (h_s h).
  Lemma hfr_same s s' dn ev out : fv s' = fv s -> hfr s (Model.mkHres s' dn ev out).
  Proof. intros H. apply FR_view. exact H. Qed.
  Ltac hsame := apply hfr_same; reflexivity.

  Lemma hfr_succeed s id resp ev : hfr s (hres_of (succeed_op s id resp) ev).
  Proof. unfold hfr. cbn [Model.hres_of h_s]. apply succeed_op_FR. Qed.

  Lemma handle_pingresp_hfr s : hfr s (handle_pingresp s).
  Proof.
    unfold Model.handle_pingresp. repeat dm; try hsame; unfold hfr; cbn [h_s];
      (apply FR_sub; auto; constructor; cbn; auto; apply np_mono_refl).
  Qed.

  Lemma handle_suback_hfr s a : hfr s (handle_suback s a).
  Proof. unfold Model.handle_suback. repeat dm; try hsame; apply hfr_succeed. Qed.
  Lemma handle_unsuback_hfr s a : hfr s (handle_unsuback s a).
  Proof. unfold Model.handle_unsuback. repeat dm; try hsame; apply hfr_succeed. Qed.
  Lemma handle_puback_hfr s a : hfr s (handle_puback s a).
  Proof. unfold Model.handle_puback. repeat dm; try hsame; apply hfr_succeed. Qed.
  Lemma handle_pubcomp_hfr s a : hfr s (handle_pubcomp s a).
  Proof. unfold Model.handle_pubcomp. repeat dm; try hsame; apply hfr_succeed. Qed.

  Lemma handle_pubrec_hfr s a : hfr s (handle_pubrec s a).
  Proof.
    unfold Model.handle_pubrec. dm; [hsame|]. destruct (lookup (ack_pid a) (s_ppub s)) as [id|]; [|hsame].
    destruct (lookup id (s_ops s)) as [o|] eqn:El; [|hsame]. destruct (op_packet o) eqn:Ep; try hsame.
    dm; [|hsame]. dm; [apply hfr_succeed|]. unfold hfr. cbn [h_s].
    eapply FR_update; [|cbn; reflexivity|reflexivity]. intros o0. unfold tsame. cbn. tauto.
  Qed.

  Lemma hfr_create s (s0 : state) o (g : state -> state) ev out :
    fv s0 = fv s -> fresh_op o -> (forall x, fv (g x) = fv x) ->
    hfr s (Model.mkHres (g (fst (create_operation s0 o))) [] ev out).
  Proof.
    intros A F Hg. unfold hfr. cbn [h_s]. eapply FR_from; [exact A|].
    eapply FR_trans; [apply create_FR; exact F|apply FR_view, Hg].
  Qed.

  Lemma handle_pubrel_hfr s a : hfr s (handle_pubrel s a).
  Proof.
    unfold Model.handle_pubrel. dm; [hsame|].
    match goal with |- context [create_operation ?s1 ?o] =>
      pose proof (hfr_create s s1 o (fun s2 => s2 <| s_hq := s_hq s2 ++ [snd (create_operation s1 o)] |>) [] (Ok tt)) as H end.
    cbn beta in H. unfold Model.create_operation in *. cbn [fst snd] in *. apply H; try reflexivity. split; reflexivity.
  Qed.

  Lemma handle_publish_hfr s pb : hfr s (handle_publish s pb).
  Proof.
    unfold Model.handle_publish. dm; [hsame|]. dm; [hsame|].
    dm.
    - match goal with |- context [create_operation ?s1 ?o] =>
        pose proof (hfr_create s s1 o (fun s2 => s2 <| s_hq := s_hq s2 ++ [snd (create_operation s1 o)] |>) [Publish pb] (Ok tt)) as H end.
      cbn beta in H. unfold Model.create_operation in *. cbn [fst snd] in *. apply H; try reflexivity. split; reflexivity.
    - match goal with |- context [create_operation ?s1 ?o] =>
        pose proof (fun ev => hfr_create s s1 o (fun s2 => s2 <| s_hq := s_hq s2 ++ [snd (create_operation s1 o)] |>) ev (Ok tt)) as H end.
      cbn beta in H. unfold Model.create_operation in *. cbn [fst snd] in *. apply H; try (destruct (mem _ _); reflexivity). split; reflexivity.
  Qed.

  Lemma handle_disconnect_hfr s d : hfr s (handle_disconnect s d).
  Proof. unfold Model.handle_disconnect. repeat dm; hsame. Qed.

  (* ---- incoming packets keep whatever FR and a CONNACK (in PendingConnack) keep ---- *)
  Section Packets.
    Variable P : state -> Prop.
    Variable now : N.
    Hypothesis P_FR : forall s s', FR s s' -> P s -> P s'.
    Hypothesis P_connack : forall s c, P s -> P (h_s (handle_connack s now c)).

    Lemma handle_packet_inv s p : P s -> P (h_s (handle_packet s now p)).
    Proof.
      intros HP. destruct p; cbn [Model.handle_packet h_s]; try exact HP.
      - apply P_connack. exact HP.
      - eapply P_FR; [apply handle_publish_hfr|exact HP]. - eapply P_FR; [apply handle_puback_hfr|exact HP].
      - eapply P_FR; [apply handle_pubrec_hfr|exact HP]. - eapply P_FR; [apply handle_pubrel_hfr|exact HP].
      - eapply P_FR; [apply handle_pubcomp_hfr|exact HP]. - eapply P_FR; [apply handle_suback_hfr|exact HP].
      - eapply P_FR; [apply handle_unsuback_hfr|exact HP]. - eapply P_FR; [apply handle_pingresp_hfr|exact HP].
      - eapply P_FR; [apply handle_disconnect_hfr|exact HP].
    Qed.

    Lemma handle_packets_inv ps : forall s dn ev, P s -> P (h_s (handle_packets s now ps dn ev)).
    Proof.
      induction ps as [|p rest IH]; intros s dn ev HP; cbn [Model.handle_packets]; [exact HP|].
      match goal with |- context [match ?res with Ok _ => _ | Err _ => _ | Panic _ => _ end] =>
        assert (Hres : forall s1 p1, res = Ok (s1, p1) -> fv s1 = fv s);
        [|destruct res as [[s1 p1]| |] eqn:Eres] end.
      { intros s1 p1. unfold obind. repeat dm; intros H; inversion H; subst; reflexivity. }
      2,3: exact HP.
      assert (H1 : P s1) by (apply (P_FR s); [apply FR_view; apply (Hres s1 p1 eq_refl)|exact HP]).
      destruct (v_in (s_settings s1) p1); [|cbn [h_s]; apply (P_FR s1); [apply halt_on_error_FR with (r := Err EProtocolError)|exact H1]|exact H1].
      pose proof (handle_packet_inv s1 p1 H1) as Hh.
      destruct (h_out (handle_packet s1 now p1)); cbn [h_s].
      - apply IH. exact Hh.
      - eapply P_FR; [apply halt_on_error_FR with (r := Err EProtocolError)|exact Hh].
      - exact Hh.
    Qed.

    Lemma net_data_inv s data : P s -> P (h_s (net_data s now data)).
    Proof.
      intros HP. unfold Model.net_data. dm; [exact HP|].
      dm; [cbn [h_s]; eapply P_FR; [apply halt_on_error_FR with (r := Err EProtocolError)|exact HP]|].
      destruct (dec_feed _ _ _ _) as [[d' ps] r].
      assert (H1 : P (s <| s_dec := d' |>)) by (apply (P_FR s); [apply FR_view; reflexivity|exact HP]).
      destruct r; cbn [h_s]; [apply handle_packets_inv; exact H1| |exact H1].
      eapply P_FR; [apply halt_on_error_FR with (r := Err EProtocolError)|exact H1].
    Qed.
  End Packets.

  Lemma net_data_TM E s now data : TM E s -> TM E (h_s (net_data s now data)).
  Proof.
    apply (net_data_inv (TM E) now).
    - intros a b. apply TM_FR.
    - intros a c. apply TM_NW. apply handle_connack_NW.
  Qed.

  Lemma net_data_ORi s now data : ORi s (h_s (net_data s now data)).
  Proof.
    apply (net_data_inv (fun x => ORi s x) now).
    - intros a b [[_ N _ _] _] H. eapply ORi_trans; [exact H|apply ORt_ORi; exact N].
    - intros a c H. eapply ORi_trans; [exact H|]. apply ORt_ORi. destruct (handle_connack_NW a now c) as [_ N _ _]. exact N.
    - apply ORi_refl.
  Qed.

  (* ---- the keep-alive invariant ---- *)
  Definition ka_final (K : N) : N := N.min (cf_ping_timeout cfg) (K * 500).

  Definition KI (s : state) : Prop :=
    match s_st s with
    | Disconnected | PendingConnack => s_next_ping s = None /\ s_ping_to s = None
    | Connected =>
        exists st, s_settings s = Some st /\
          (0 < st_server_keep_alive st -> exists n, s_next_ping s = Some n /\
             forall t, s_ping_to s = Some t -> t + st_server_keep_alive st * 1000 <= n + ka_final (st_server_keep_alive st)) /\
          (st_server_keep_alive st = 0 -> s_next_ping s = None /\ s_ping_to s = None)
    | _ => True
    end.

  Lemma KI_KR s s' : KR s s' -> KI s -> KI s'.
  Proof.
    intros [K1 K2 K3 K4]. unfold KI. destruct K1 as [K1|[K1|K1]]; rewrite K1; [|exact (fun _ => I)..].
    destruct (s_st s).
    - intros [A B]. rewrite A in K4. cbn in K4. split; [exact K4|]. destruct K3 as [K3|K3]; congruence.
    - intros [A B]. rewrite A in K4. cbn in K4. split; [exact K4|]. destruct K3 as [K3|K3]; congruence.
    - intros (st & A & B & C). exists st. split; [congruence|]. split.
      + intros Hk. destruct (B Hk) as (n & Bn & Bt). rewrite Bn in K4. cbn in K4. destruct K4 as (n' & -> & Hle).
        exists n'. split; [reflexivity|]. intros t Ht. destruct K3 as [K3|K3]; [|congruence]. rewrite K3 in Ht. specialize (Bt t Ht). slia.
      + intros Hk. destruct (C Hk) as [C1 C2]. rewrite C1 in K4. cbn in K4. split; [exact K4|]. destruct K3 as [K3|K3]; congruence.
    - exact (fun _ => I).
    - exact (fun _ => I).
  Qed.

  Lemma KI_FR s s' : FR s s' -> KI s -> KI s'.
  Proof. intros [_ H]. apply KI_KR. exact H. Qed.

  Lemma KI_connack s now c : KI s -> KI (h_s (handle_connack s now c)).
  Proof.
    intros HK. unfold Model.handle_connack. destruct (negb (pstate_eqb (s_st s) PendingConnack)); [exact HK|].
    destruct (negb (ca_rc c =? 0)); [exact HK|]. destruct (v_in None (Connack c)); [|exact HK..].
    cbv zeta.
    match goal with |- context [apply_session ?sx ?sp] => pose proof (apply_session_FR sx sp) as Ha; set (s2 := sx) in *; set (r := apply_session s2 sp) in * end.
    assert (E1 : s_st s2 = Connected) by (unfold s2; destruct (cf_drain_one cfg); reflexivity).
    assert (E2 : s_settings s2 = Some (build_settings s c)) by (unfold s2; destruct (cf_drain_one cfg); reflexivity).
    assert (E3 : s_ping_to s2 = None) by (unfold s2; destruct (cf_drain_one cfg); reflexivity).
    assert (E4 : s_next_ping s2 = if 0 <? st_server_keep_alive (build_settings s c)
                                  then Some (now + st_server_keep_alive (build_settings s c) * 1000) else None)
      by (unfold s2; destruct (cf_drain_one cfg); reflexivity).
    assert (H2 : KI s2).
    { unfold KI. rewrite E1. exists (build_settings s c). rewrite E2, E3, E4. split; [reflexivity|]. split; intros Hk.
      - destruct (0 <? st_server_keep_alive (build_settings s c)) eqn:E; [|slia]. eexists. split; [reflexivity|intros t; discriminate].
      - destruct (0 <? st_server_keep_alive (build_settings s c)) eqn:E; [slia|]. split; reflexivity. }
    assert (H : KI (r_s r)) by (eapply KI_FR; eassumption).
    destruct (r_out r); cbn [h_s]; exact H.
  Qed.

  Lemma net_data_KI s now data : KI s -> KI (h_s (net_data s now data)).
  Proof. apply (net_data_inv KI now); [exact KI_FR|intros a c; apply KI_connack]. Qed.

  (* the keep-alive part of a service call *)
  Lemma KI_keep_alive s now s' : service_keep_alive s now = Ok s' -> s_st s = Connected -> KI s -> KI s'.
  Proof.
    unfold Model.service_keep_alive, KI. intros H Hst. rewrite Hst. intros G. pose proof G as (st & A & B & C).
    destruct (s_ping_to s) as [pt|] eqn:Ept; [destruct (pt <=? now); [discriminate|]; inversion H; subst s'; rewrite Hst, ?Ept, ?Enp; exact G|].
    destruct (s_next_ping s) as [np|] eqn:Enp; [|inversion H; subst s'; rewrite Hst, ?Ept, ?Enp; exact G].
    destruct (np <=? now); [|inversion H; subst s'; rewrite Hst, ?Ept, ?Enp; exact G].
    cbn in H. rewrite A in H. unfold add_time in H. destruct (IMAX <? _); cbn [obind] in H; [discriminate|].
    destruct (0 <? st_server_keep_alive st) eqn:Ek; inversion H; subst; cbn; rewrite Hst; exists st; (split; [exact A|]); split.
    - intros _. eexists. split; [reflexivity|]. intros t Ht. inversion Ht; subst. unfold ka_final. slia.
    - intros Hk. slia.
    - intros Hk. slia.
    - intros Hk. destruct (C Hk). congruence.
  Qed.
End Data.
