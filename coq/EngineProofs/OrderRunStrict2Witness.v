(* The premise of OrderRunStrict2.queues_strictly_sorted_if_cp is satisfiable on the instantiated engine:
   along the reconnect history of OrderRunWitness.v (a QoS 1 publish is in flight when the connection
   closes) the state the close is taken from satisfies CP, and the run ends Connected. *)
From GM Require Import Base.Prelude Base.Outcome Codec.Packets Codec.Settings Codec.Steps Codec.ImplEncode
  Codec.Framing Alias.Outbound Alias.Inbound Validate.Rules Engine.Model Engine.Instance
  EngineProofs.AssocLemmas EngineProofs.WFDefs EngineProofs.HandshakeRunTrace EngineProofs.IdsWitness
  EngineProofs.OrderRunStrict EngineProofs.OrderRunStrict2 EngineProofs.OrderRunWitness.
Open Scope N_scope.

Definition i_cp_at_closes (cfg : config) : istate -> list event -> Prop :=
  cp_at_closes enc impl_steps encode_call enc_done decoder decoder_init decode_bytes ores ores_reset ores_resolve ires ires_reset ires_resolve
    validate_outbound_internal validate_inbound_internal cfg.

Ltac cp_concrete :=
  match goal with |- CP _ _ _ _ ?st =>
    let Hc := fresh in let Hp := fresh in
    assert (Hc : s_cur st = None) by (vm_compute; reflexivity);
    assert (Hp : pot enc decoder ores ires st = [2]) by (vm_compute; reflexivity);
    unfold CP; rewrite Hp, Hc; split; [repeat constructor; intros []|split; [intros ? Hx; discriminate Hx|intros ? ? ? Hx; discriminate Hx]]
  end.

Example ow_cp_at_closes :
  Forall ok_event ow_hist2 /\ i_cp_at_closes ow_cfg (x_init ow_cfg) ow_hist2 /\ s_st ow_s2 = Connected.
Proof.
  split; [exact ow_hist2_ok|]. split; [|vm_compute; reflexivity].
  unfold i_cp_at_closes, ow_hist2, x_connect_events. cbn [app cp_at_closes no_close].
  repeat (split; [first [left; exact I|right; cp_concrete]|]). exact I.
Qed.
