(* C08: the next-service-time contract, single step.
   [next_service_time] (protocol.rs 545-564, 1522-1597) reports exactly the minimum of the candidate
   wake-up times: `now` when the queue can be serviced (a half-written current operation, or an
   operation that [dequeue] would hand out), and every armed timer that [service] acts on.
   [nst_queue] mirrors [dequeue] case by case. *)
From GM Require Import Base.Prelude Base.Outcome Codec.Packets Codec.Settings Engine.Model EngineProofs.AssocLemmas.
From RecordUpdate Require Import RecordSet.
Import RecordSetNotations.
Open Scope N_scope.

(* ---- minima of optional times ---- *)
Definition opt_le (r : option N) (d : N) : Prop := exists t, r = Some t /\ t <= d.
Definition is_min (r : option N) (l : list N) : Prop :=
  (forall c, In c l -> opt_le r c) /\ (forall t, r = Some t -> In t l).
Definition opt_list (o : option N) : list N := match o with Some x => [x] | None => [] end.

Lemma is_min_opt o : is_min o (opt_list o).
Proof.
  destruct o as [x|]; split; cbn [opt_list In].
  - intros c [<-|[]]. exists x. split; [reflexivity|lia].
  - intros t H. inversion H. left. reflexivity.
  - intros c [].
  - intros t H. discriminate.
Qed.

Lemma is_min_opt_min a b la lb : is_min a la -> is_min b lb -> is_min (opt_min a b) (la ++ lb).
Proof.
  intros [A1 A2] [B1 B2]. split.
  - intros c Hc. apply in_app_or in Hc. destruct Hc as [Hc|Hc].
    + destruct (A1 c Hc) as (t & -> & Hle). destruct b as [y|]; cbn [opt_min].
      * exists (N.min t y). split; [reflexivity|]. pose proof (N.le_min_l t y). lia.
      * exists t. split; [reflexivity|exact Hle].
    + destruct (B1 c Hc) as (t & -> & Hle). destruct a as [x|]; cbn [opt_min].
      * exists (N.min x t). split; [reflexivity|]. pose proof (N.le_min_r x t). lia.
      * exists t. split; [reflexivity|exact Hle].
  - intros t Ht. apply in_or_app. destruct a as [x|], b as [y|]; cbn [opt_min] in Ht; try discriminate.
    + inversion Ht. destruct (N.min_spec x y) as [[_ ->]|[_ ->]]; [left; apply A2|right; apply B2]; reflexivity.
    + left. apply A2. exact Ht.
    + right. apply B2. exact Ht.
Qed.

Lemma is_min_nil_none r : is_min r [] -> r = None.
Proof. intros [_ H]. destruct r as [t|]; [destruct (H t eq_refl)|reflexivity]. Qed.

Lemma is_min_none r l : is_min r l -> (r = None <-> l = []).
Proof.
  intros [H1 H2]. split.
  - intros ->. destruct l as [|c l']; [reflexivity|]. destruct (H1 c (or_introl eq_refl)) as (t & Ht & _). discriminate.
  - intros ->. destruct r as [t|]; [destruct (H2 t eq_refl)|reflexivity].
Qed.

(* the ack-timeout heap: earliest deadline *)
Lemma fold_opt_min_is_min (l : list (N * N)) : forall acc la, is_min acc la ->
  is_min (fold_left (fun acc '(_, t) => opt_min acc (Some t)) l acc) (la ++ map snd l).
Proof.
  induction l as [|[id t] r IH]; intros acc la Ha; cbn [fold_left map snd].
  - rewrite app_nil_r. exact Ha.
  - replace (la ++ t :: map snd r) with ((la ++ [t]) ++ map snd r) by (rewrite <- app_assoc; reflexivity).
    apply IH. apply is_min_opt_min; [exact Ha|apply (is_min_opt (Some t))].
Qed.

Section Engine.
  Variable enc : Type.
  Variable enc_reset : version -> packet -> resolution -> outcome enc.
  Variable enc_call : enc -> N -> N -> outcome (bytes * enc).
  Variable enc_done : enc -> bool.
  Variable dec : Type.
  Variable dec_init : dec.
  Variable dec_feed : version -> N -> dec -> bytes -> dec * list packet * outcome unit.
  Variable ores : Type.
  Variable ores_reset : ores -> N -> ores.
  Variable ores_resolve : ores -> option N -> bytes -> outcome (ores * resolution).
  Variable ires : Type.
  Variable ires_reset : ires -> ires.
  Variable ires_resolve : ires -> option N -> bytes -> outcome (ires * bytes).
  Variable v_out : option settings -> connect_opts -> resolution -> packet -> outcome unit.
  Variable v_in : option settings -> packet -> outcome unit.
  Variable cfg : config.

  Notation state := (Model.state enc dec ores ires).
  Notation init := (Model.init enc dec dec_init ores ires).
  Notation res := (Model.res enc dec ores ires).
  Notation release := (Model.release enc dec ores ires cfg).
  Notation disconnect_completion := (Model.disconnect_completion enc dec ores ires).
  Notation fail_op := (Model.fail_op enc dec ores ires cfg).
  Notation ping_extension := (Model.ping_extension enc dec ores ires).
  Notation succeed_op := (Model.succeed_op enc dec ores ires cfg).
  Notation fail_all := (Model.fail_all enc dec ores ires cfg).
  Notation succeed_all := (Model.succeed_all enc dec ores ires cfg).
  Notation andthen := (Model.andthen enc dec ores ires).
  Notation try_ := (Model.try_ enc dec ores ires).
  Notation pure := (Model.pure enc dec ores ires).
  Notation create_operation := (Model.create_operation enc dec ores ires).
  Notation passes_now := (Model.passes_now enc dec ores ires cfg).
  Notation user_event := (Model.user_event enc dec ores ires cfg).
  Notation create_connect := (Model.create_connect enc dec ores ires cfg).
  Notation net_opened := (Model.net_opened enc dec dec_init ores ires cfg).
  Notation op_exists := (Model.op_exists enc dec ores ires).
  Notation op_passes := (Model.op_passes enc dec ores ires cfg).
  Notation partition_policy := (Model.partition_policy enc dec ores ires cfg).
  Notation closed_current := (Model.closed_current enc dec ores ires cfg).
  Notation slow_start_init := (Model.slow_start_init enc dec ores ires cfg).
  Notation update_retries := (Model.update_retries enc dec ores ires cfg).
  Notation fail_exceeding := (Model.fail_exceeding enc dec ores ires cfg).
  Notation has_pubrel := (Model.has_pubrel enc dec ores ires).
  Notation net_closed_raw := (Model.net_closed_raw enc dec ores ires cfg).
  Notation net_closed := (Model.net_closed enc dec ores ires cfg).
  Notation net_write_completion := (Model.net_write_completion enc dec ores ires cfg).
  Notation acquire_free_pid := (Model.acquire_free_pid enc dec ores ires).
  Notation acquire_pid_for := (Model.acquire_pid_for enc dec ores ires).
  Notation unbind := (Model.unbind enc dec ores ires).
  Notation passes_receive_max := (Model.passes_receive_max enc dec ores ires).
  Notation throttled := (Model.throttled enc dec ores ires cfg).
  Notation has_pending_ack := (Model.has_pending_ack enc dec ores ires).
  Notation dequeue := (Model.dequeue enc dec ores ires cfg).
  Notation fully_written := (Model.fully_written enc dec ores ires).
  Notation sres := (Model.sres enc dec ores ires).
  Notation seat := (Model.seat enc dec ores ires).
  Notation seat_current := (Model.seat_current enc enc_reset dec ores ores_reset ores_resolve ires v_out cfg).
  Notation service_loop := (Model.service_loop enc enc_reset enc_call enc_done dec ores ores_reset ores_resolve ires v_out cfg).
  Notation service_queue := (Model.service_queue enc enc_reset enc_call enc_done dec ores ores_reset ores_resolve ires v_out cfg).
  Notation service_keep_alive := (Model.service_keep_alive enc dec ores ires cfg).
  Notation process_ack_timeouts := (Model.process_ack_timeouts enc dec ores ires cfg).
  Notation halt_on_error := (Model.halt_on_error enc dec ores ires).
  Notation service := (Model.service enc enc_reset enc_call enc_done dec ores ores_reset ores_resolve ires v_out cfg).
  Notation earliest_tmo := (Model.earliest_tmo enc dec ores ires).
  Notation nst_queue := (Model.nst_queue enc dec ores ires cfg).
  Notation next_service_time := (Model.next_service_time enc dec ores ires cfg).
  Notation build_settings := (Model.build_settings enc dec ores ires cfg).
  Notation apply_session := (Model.apply_session enc dec ores ires cfg).
  Notation hres := (Model.hres enc dec ores ires).
  Notation hres_of := (Model.hres_of enc dec ores ires).
  Notation pre_connack := (Model.pre_connack enc dec ores ires).
  Notation sum_ss := (Model.sum_ss enc dec ores ires).
  Notation handle_connack := (Model.handle_connack enc dec ores ores_reset ires ires_reset v_in cfg).
  Notation handle_pingresp := (Model.handle_pingresp enc dec ores ires).
  Notation handle_suback := (Model.handle_suback enc dec ores ires cfg).
  Notation handle_unsuback := (Model.handle_unsuback enc dec ores ires cfg).
  Notation publish_qos_of := (Model.publish_qos_of enc dec ores ires).
  Notation handle_puback := (Model.handle_puback enc dec ores ires cfg).
  Notation handle_pubrec := (Model.handle_pubrec enc dec ores ires cfg).
  Notation handle_pubrel := (Model.handle_pubrel enc dec ores ires).
  Notation handle_pubcomp := (Model.handle_pubcomp enc dec ores ires cfg).
  Notation handle_publish := (Model.handle_publish enc dec ores ires).
  Notation handle_disconnect := (Model.handle_disconnect enc dec ores ires cfg).
  Notation handle_packet := (Model.handle_packet enc dec ores ores_reset ires ires_reset v_in cfg).
  Notation handle_packets := (Model.handle_packets enc dec ores ores_reset ires ires_reset ires_resolve v_in cfg).
  Notation is_connect_op := (Model.is_connect_op enc dec ores ires).
  Notation connect_in_queue := (Model.connect_in_queue enc dec ores ires).
  Notation max_incoming_size := (Model.max_incoming_size cfg).
  Notation net_data := (Model.net_data enc dec dec_feed ores ores_reset ires ires_reset ires_resolve v_in cfg).
  Notation reset := (Model.reset enc dec ores ires cfg).
  Notation out_of_res := (Model.out_of_res enc dec ores ires).
  Notation step := (Model.step enc enc_reset enc_call enc_done dec dec_init dec_feed ores ores_reset ores_resolve ires ires_reset ires_resolve v_out v_in cfg).
  Notation run := (Model.run enc enc_reset enc_call enc_done dec dec_init dec_feed ores ores_reset ores_resolve ires ires_reset ires_resolve v_out v_in cfg).
  Notation SeatStop := (Model.SeatStop enc dec ores ires).
  Notation SeatContinue := (Model.SeatContinue enc dec ores ires).
  Notation SeatEncode := (Model.SeatEncode enc dec ores ires).
  Notation mkState := (Model.mkState enc dec ores ires).
  (* lia generalises over every hypothesis mentioning N, including the Section variables: clear them first *)
  Ltac slia := try clear v_in; try clear v_out; try clear ires_resolve; try clear ires_reset; try clear ores_resolve;
    try clear ores_reset; try clear dec_feed; try clear dec_init; try clear enc_done; try clear enc_call; try clear enc_reset; lia.
  Ltac dm := match goal with
    | |- context [match ?x with _ => _ end] => destruct x eqn:?
    end.

  Lemma earliest_tmo_is_min (s : state) : is_min (earliest_tmo s) (map snd (s_tmo s)).
  Proof.
    unfold Model.earliest_tmo. apply (fold_opt_min_is_min (s_tmo s) None []). split; [intros c []|intros t H; discriminate].
  Qed.

  (* ---- nst_queue mirrors dequeue ---- *)
  Definition is_some {A} (o : option A) : bool := match o with Some _ => true | None => false end.

  (* can the queue be serviced: no write pending and (a current operation or a dequeueable one) *)
  Definition serviceable (s : state) (mode_all : bool) : bool :=
    negb (s_pwc s) && (is_some (s_cur s) || is_some (snd (dequeue s mode_all))).

  Lemma blocked_iff (s : state) (id : N) :
    passes_receive_max s id =
    negb (match s_settings s with
          | Some st =>
              if st_receive_maximum_from_server st <=? len (s_ppub s) then
                match lookup id (s_ops s) with
                | Some o => match op_packet o with Publish pb => negb (pub_qos pb =? 0) | _ => false end
                | None => false end
              else false
          | None => false end).
  Proof.
    unfold Model.passes_receive_max. destruct (s_settings s) as [st|]; [|reflexivity].
    destruct (_ <=? _); [|reflexivity]. destruct (lookup id (s_ops s)) as [o|]; [|reflexivity].
    destruct (op_packet o); try reflexivity. destruct (pub_qos p =? 0); reflexivity.
  Qed.

  Theorem nst_queue_dequeue (s : state) (mode_all : bool) (now : N) :
    nst_queue s mode_all now = if serviceable s mode_all then Some now else None.
  Proof.
    unfold Model.nst_queue, serviceable, Model.dequeue. destruct (s_pwc s); [reflexivity|]. cbn [negb andb].
    destruct (s_cur s); [reflexivity|]. cbn [is_some orb].
    destruct (s_hq s); [|reflexivity]. destruct (negb mode_all); [reflexivity|].
    destruct (throttled s && has_pending_ack s); [reflexivity|].
    destruct (s_rq s) as [|id r].
    - destruct (s_uq s) as [|id r]; [destruct (s_settings s); [destruct (_ <=? _)|]; reflexivity|].
      rewrite (blocked_iff s id). destruct (s_settings s) as [st|]; [|reflexivity].
      destruct (_ <=? _); [|reflexivity]. destruct (lookup id (s_ops s)) as [o|]; [|reflexivity].
      destruct (op_packet o); try reflexivity. destruct (pub_qos p =? 0); reflexivity.
    - rewrite (blocked_iff s id). destruct (s_settings s) as [st|]; [|destruct (s_uq s); reflexivity].
      destruct (_ <=? _); [|destruct (s_uq s); reflexivity]. destruct (lookup id (s_ops s)) as [o|]; [|destruct (s_uq s); reflexivity].
      destruct (op_packet o); try (destruct (s_uq s); reflexivity). destruct (pub_qos p =? 0); cbn [negb]; [destruct (s_uq s)|]; reflexivity.
  Qed.

  (* the iff form *)
  Corollary nst_queue_iff (s : state) (mode_all : bool) (now : N) :
    s_pwc s = false ->
    (nst_queue s mode_all now = Some now <-> (s_cur s <> None \/ snd (dequeue s mode_all) <> None)).
  Proof.
    intros Hp. rewrite nst_queue_dequeue. unfold serviceable. rewrite Hp. cbn [negb andb].
    destruct (s_cur s), (snd (dequeue s mode_all)); cbn [is_some orb]; split; intros H; try reflexivity; try discriminate;
      try (left; discriminate); try (right; discriminate). destruct H as [H|H]; contradiction.
  Qed.

  Corollary nst_queue_none_or_now (s : state) (mode_all : bool) (now : N) :
    nst_queue s mode_all now = None \/ nst_queue s mode_all now = Some now.
  Proof. rewrite nst_queue_dequeue. destruct (serviceable s mode_all); auto. Qed.

  (* while a write is pending nothing is dequeued and the queue asks for no service *)
  Lemma pending_write_blocks (s : state) (mode_all : bool) (now : N) :
    s_pwc s = true -> nst_queue s mode_all now = None /\ dequeue s mode_all = (s, None).
  Proof. intros Hp. unfold Model.nst_queue, Model.dequeue. rewrite Hp. split; reflexivity. Qed.

  (* ---- the candidate wake-up times ---- *)
  Definition queue_cands (s : state) (mode_all : bool) (now : N) : list N :=
    if serviceable s mode_all then [now] else [].

  Definition candidates (s : state) (now : N) : list N :=
    match s_st s with
    | Disconnected | Halted => []
    | PendingConnack => queue_cands s false now ++ opt_list (s_connack_to s)
    | Connected =>
        queue_cands s true now ++ (opt_list (s_ping_to s) ++ map snd (s_tmo s))
          ++ (if s_pwc s then [] else opt_list (s_next_ping s))
    | PendingDisconnect => queue_cands s false now ++ map snd (s_tmo s)
    end.

  Lemma queue_is_min (s : state) m now : is_min (nst_queue s m now) (queue_cands s m now).
  Proof.
    rewrite nst_queue_dequeue. unfold queue_cands. destruct (serviceable s m).
    - apply (is_min_opt (Some now)).
    - apply (is_min_opt None).
  Qed.

  (* the reported time is the minimum of the candidates (None iff there is none) *)
  Theorem next_service_time_min (s : state) (now : N) :
    (s_st s = PendingConnack -> s_connack_to s <> None) ->
    exists r, next_service_time s now = Ok r /\ is_min r (candidates s now).
  Proof.
    intros Hc. unfold Model.next_service_time, candidates. destruct (s_st s).
    - exists None. split; [reflexivity|apply (is_min_opt None)].
    - destruct (s_connack_to s) as [d|]; [|exfalso; apply Hc; reflexivity].
      eexists. split; [reflexivity|]. apply is_min_opt_min; [apply queue_is_min|apply (is_min_opt (Some d))].
    - assert (Ht : is_min (opt_min (s_ping_to s) (earliest_tmo s)) (opt_list (s_ping_to s) ++ map snd (s_tmo s))).
      { apply is_min_opt_min; [apply is_min_opt|apply earliest_tmo_is_min]. }
      destruct (s_pwc s) eqn:Hp.
      + eexists. split; [reflexivity|]. rewrite app_nil_r.
        unfold queue_cands, serviceable. rewrite Hp. cbn [negb andb app]. exact Ht.
      + eexists. split; [reflexivity|].
        apply is_min_opt_min; [apply queue_is_min|]. apply is_min_opt_min; [exact Ht|apply is_min_opt].
    - eexists. split; [reflexivity|]. apply is_min_opt_min; [apply queue_is_min|apply earliest_tmo_is_min].
    - exists None. split; [reflexivity|apply (is_min_opt None)].
  Qed.

  (* no lost wake-up: work that can be done now is reported as due now (or earlier, for an
     already expired timer) *)
  Corollary no_lost_wakeup (s : state) (now : N) :
    (s_st s = PendingConnack \/ s_st s = Connected) ->
    (s_st s = PendingConnack -> s_connack_to s <> None) ->
    s_pwc s = false -> (s_cur s <> None \/ s_hq s <> []) ->
    exists t, next_service_time s now = Ok (Some t) /\ t <= now.
  Proof.
    intros Hst Hc Hp Hw. destruct (next_service_time_min s now Hc) as (r & Hr & [Hmin _]).
    assert (Hs : forall m, serviceable s m = true).
    { intros m. unfold serviceable, Model.dequeue. rewrite Hp. cbn [negb andb].
      destruct (s_cur s); [reflexivity|]. destruct (s_hq s); [destruct Hw as [H|H]; exfalso; apply H; reflexivity|reflexivity]. }
    assert (Hin : In now (candidates s now)).
    { unfold candidates, queue_cands. destruct Hst as [-> | ->]; rewrite Hs; left; reflexivity. }
    destruct (Hmin now Hin) as (t & -> & Hle). exists t. split; [exact Hr|exact Hle].
  Qed.

  (* every armed timer is honoured *)
  Corollary timers_honoured (s : state) (now : N) r :
    next_service_time s now = Ok r ->
    (s_st s = Connected -> forall d, s_ping_to s = Some d -> opt_le r d) /\
    (s_st s = Connected \/ s_st s = PendingDisconnect -> forall id d, In (id, d) (s_tmo s) -> opt_le r d) /\
    (s_st s = Connected -> s_pwc s = false -> forall d, s_next_ping s = Some d -> opt_le r d) /\
    (s_st s = PendingConnack -> forall d, s_connack_to s = Some d -> opt_le r d).
  Proof.
    intros Hr.
    assert (Hmin : (s_st s = PendingConnack -> s_connack_to s <> None) -> forall c, In c (candidates s now) -> opt_le r c).
    { intros Hc. destruct (next_service_time_min s now Hc) as (r' & Hr' & [Hm _]). rewrite Hr in Hr'. inversion Hr'; subst. exact Hm. }
    repeat split.
    - intros Hst d Hd. apply Hmin; [rewrite Hst; discriminate|]. unfold candidates. rewrite Hst, Hd.
      apply in_or_app. right. apply in_or_app. left. left. reflexivity.
    - intros Hst id d Hin. apply (in_map snd) in Hin. cbn [snd] in Hin.
      apply Hmin; [destruct Hst as [-> | ->]; discriminate|]. unfold candidates.
      destruct Hst as [-> | ->]; apply in_or_app; right; [apply in_or_app; left; apply in_or_app; right|]; exact Hin.
    - intros Hst Hp d Hd. apply Hmin; [rewrite Hst; discriminate|]. unfold candidates. rewrite Hst, Hp, Hd.
      apply in_or_app. right. apply in_or_app. right. left. reflexivity.
    - intros Hst d Hd. apply Hmin; [rewrite Hd; discriminate|]. unfold candidates. rewrite Hst, Hd.
      apply in_or_app. right. left. reflexivity.
  Qed.
End Engine.
