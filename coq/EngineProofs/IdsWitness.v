(* Concrete configurations, packets and runs of the instantiated engine (Engine/Instance.v) used by
   the non-vacuity examples of Properties/C01, C08, C09, C14, C15, C18. *)
From GM Require Import Base.Prelude Base.Outcome Codec.Packets Codec.Settings Alias.Outbound Engine.Model Engine.Instance.
Open Scope N_scope.

Definition x_connect (keep_alive : N) : connect_opts :=
  {| co_keep_alive := Some keep_alive; co_rejoin := 0; co_client_id := Some [97; 97]; co_username := None; co_password := None;
     co_sei := None; co_rri := None; co_rpi := None; co_receive_max := None; co_tam := None; co_max_packet := None;
     co_will_delay := None; co_will := None; co_up := None |}.

(* MQTT 5, offline policy [pol], drain policy [one], retry limit [retry], ping timeout 10 s *)
Definition x_cfg_full (pol : N) (one : bool) (retry : option N) (keep_alive : N) : config :=
  mkConfig V5 pol one retry 10000 (x_connect keep_alive).
Definition x_cfg (pol : N) : config := x_cfg_full pol false None 0.

Definition x_pub (q : N) : packet :=
  Publish {| pub_pid := 0; pub_topic := [116]; pub_qos := q; pub_dup := false; pub_retain := false;
             pub_payload := None; pub_pfi := None; pub_mei := None; pub_alias := None; pub_response_topic := None;
             pub_correlation := None; pub_subids := None; pub_content_type := None; pub_up := None |}.
Definition x_sub : packet :=
  Subscribe {| s_pid := 0; s_subs := [{| sub_filter := [116]; sub_qos := 1; sub_no_local := false; sub_rap := false; sub_rh := 0 |}];
               s_subid := None; s_up := None |}.

Definition x_connack_bytes : bytes := [32; 3; 0; 0; 0].          (* CONNACK, session absent, Success, no properties *)
Definition x_connack_rm1_bytes : bytes := [32; 6; 0; 0; 3; 33; 0; 1].   (* ... with Receive Maximum = 1 *)

(* open the connection, write CONNECT, flush, receive CONNACK *)
Definition x_connect_events (connack : bytes) : list event :=
  [EvOpen 0 1000; EvService 0 4096 0; EvWriteComplete 0; EvData 0 connack].

Definition x_init (c : config) : istate := i_init c RNull.
Definition x_outs (c : config) (h : list event) : list output := snd (i_run c (x_init c) h).
Definition x_state (c : config) (h : list event) : istate := fst (i_run c (x_init c) h).
