(* The well-formedness invariant is inductive: WF_init, WF_step, WF_run; every step from a
   well-formed state is panic-free. *)
From GM Require Import Base.Prelude Base.Outcome Codec.Packets Codec.Settings Engine.Model
  EngineProofs.AssocLemmas EngineProofs.PacketIds EngineProofs.WFLemmas EngineProofs.WFDefs EngineProofs.WFCore
  EngineProofs.WFComplete EngineProofs.WFClose EngineProofs.WFClose2 EngineProofs.WFService EngineProofs.WFService4
  EngineProofs.WFEvents EngineProofs.WFData3 EngineProofs.WFTrack.
From Coq Require Import Sorting.Sorted.
From RecordUpdate Require Import RecordSet.
Import RecordSetNotations.
Open Scope N_scope.

(* the four component types are implicit in the engine functions, locally to this file *)
#[local] Arguments init {enc dec} _ {ores ires} _ _.
#[local] Arguments release {enc dec ores ires} _ _ _ _.
#[local] Arguments disconnect_completion {enc dec ores ires} _ _.
#[local] Arguments fail_op {enc dec ores ires} _ _ _ _.
#[local] Arguments ping_extension {enc dec ores ires} _ _.
#[local] Arguments succeed_op {enc dec ores ires} _ _ _ _.
#[local] Arguments fail_all {enc dec ores ires} _ _ _ _.
#[local] Arguments succeed_all {enc dec ores ires} _ _ _.
#[local] Arguments andthen {enc dec ores ires} _ _.
#[local] Arguments try_ {enc dec ores ires} _ _.
#[local] Arguments pure {enc dec ores ires} _.
#[local] Arguments create_operation {enc dec ores ires} _ _.
#[local] Arguments passes_now {enc dec ores ires} _ _ _.
#[local] Arguments user_event {enc dec ores ires} _ _ _ _.
#[local] Arguments create_connect {enc dec ores ires} _ _.
#[local] Arguments net_opened {enc dec} _ {ores ires} _ _ _.
#[local] Arguments op_exists {enc dec ores ires} _ _.
#[local] Arguments op_passes {enc dec ores ires} _ _ _.
#[local] Arguments partition_policy {enc dec ores ires} _ _ _.
#[local] Arguments closed_current {enc dec ores ires} _ _.
#[local] Arguments slow_start_init {enc dec ores ires} _ _.
#[local] Arguments update_retries {enc dec ores ires} _ _.
#[local] Arguments fail_exceeding {enc dec ores ires} _ _.
#[local] Arguments has_pubrel {enc dec ores ires} _ _.
#[local] Arguments net_closed_raw {enc dec ores ires} _ _.
#[local] Arguments net_closed {enc dec ores ires} _ _.
#[local] Arguments net_write_completion {enc dec ores ires} _ _.
#[local] Arguments acquire_free_pid {enc dec ores ires} _ _.
#[local] Arguments acquire_pid_for {enc dec ores ires} _ _.
#[local] Arguments unbind {enc dec ores ires} _ _.
#[local] Arguments passes_receive_max {enc dec ores ires} _ _.
#[local] Arguments throttled {enc dec ores ires} _ _.
#[local] Arguments has_pending_ack {enc dec ores ires} _.
#[local] Arguments dequeue {enc dec ores ires} _ _ _.
#[local] Arguments fully_written {enc dec ores ires} _ _.
#[local] Arguments service_keep_alive {enc dec ores ires} _ _ _.
#[local] Arguments process_ack_timeouts {enc dec ores ires} _ _ _.
#[local] Arguments halt_on_error {enc dec ores ires} _ _.
#[local] Arguments next_service_time {enc dec ores ires} _ _ _.
#[local] Arguments build_settings {enc dec ores ires} _ _ _.
#[local] Arguments apply_session {enc dec ores ires} _ _ _.
#[local] Arguments hres_of {enc dec ores ires} _ _.
#[local] Arguments pre_connack {enc dec ores ires} _.
#[local] Arguments sum_ss {enc dec ores ires} _.
#[local] Arguments handle_pingresp {enc dec ores ires} _.
#[local] Arguments handle_suback {enc dec ores ires} _ _ _.
#[local] Arguments handle_unsuback {enc dec ores ires} _ _ _.
#[local] Arguments publish_qos_of {enc dec ores ires} _ _.
#[local] Arguments handle_puback {enc dec ores ires} _ _ _.
#[local] Arguments handle_pubrec {enc dec ores ires} _ _ _.
#[local] Arguments handle_pubrel {enc dec ores ires} _ _.
#[local] Arguments handle_pubcomp {enc dec ores ires} _ _ _.
#[local] Arguments handle_publish {enc dec ores ires} _ _.
#[local] Arguments handle_disconnect {enc dec ores ires} _ _ _.
#[local] Arguments is_connect_op {enc dec ores ires} _ _.
#[local] Arguments connect_in_queue {enc dec ores ires} _.
#[local] Arguments reset {enc dec ores ires} _ _.
#[local] Arguments out_of_res {enc dec ores ires} _ _.
#[local] Arguments nst_queue {enc dec ores ires} _ _ _ _.
#[local] Arguments earliest_tmo {enc dec ores ires} _.
#[local] Arguments SeatStop {enc dec ores ires} _.
#[local] Arguments SeatContinue {enc dec ores ires} _ _.
#[local] Arguments SeatEncode {enc dec ores ires} _.


Section Step.
  Variable enc : Type.
  Variable enc_reset : version -> packet -> resolution -> outcome enc.
  Variable enc_call : enc -> N -> N -> outcome (bytes * enc).
  Variable enc_done : enc -> bool.
  Variable dec : Type.
  Variable dec_init : dec.
  Variable dec_feed : version -> N -> dec -> bytes -> dec * list packet * outcome unit.
  Variable ores : Type.
  Variable ores_reset : ores -> N -> ores.
  Variable ores_resolve : ores -> option N -> bytes -> outcome (ores * resolution).
  Variable ires : Type.
  Variable ires_reset : ires -> ires.
  Variable ires_resolve : ires -> option N -> bytes -> outcome (ires * bytes).
  Variable v_out : option settings -> connect_opts -> resolution -> packet -> outcome unit.
  Variable v_in : option settings -> packet -> outcome unit.
  Variable cfg : config.
  Variable HC : comps_ok enc enc_reset enc_call dec dec_init dec_feed ores ores_reset ores_resolve ires ires_reset ires_resolve v_out v_in.
  Hypothesis Hcfg : ok_cfg cfg.

  Notation state := (state enc dec ores ires).
  Notation step := (step enc enc_reset enc_call enc_done dec dec_init dec_feed ores ores_reset ores_resolve
                         ires ires_reset ires_resolve v_out v_in cfg).
  Notation run := (run enc enc_reset enc_call enc_done dec dec_init dec_feed ores ores_reset ores_resolve
                       ires ires_reset ires_resolve v_out v_in cfg).
  Notation service := (service enc enc_reset enc_call enc_done dec ores ores_reset ores_resolve ires v_out cfg).
  Notation net_data := (net_data enc dec dec_feed ores ores_reset ires ires_reset ires_resolve v_in cfg).

  Ltac splits := repeat match goal with |- _ /\ _ => split end.

  (* the full invariant: structural and per-state well-formedness, and the component invariants *)
  Definition WFX (s : state) : Prop := WF cfg s /\ cinv HC s.

  Theorem WF_init (o : ores) (i : ires) : ores_inv HC o -> ires_inv HC i -> WFX (init (enc:=enc) dec_init o i).
  Proof.
    intros Ho Hi. split; [split|].
    - eapply (WFc_reset [] _ 1). reflexivity.
    - unfold WFP. cbn. splits; reflexivity.
    - unfold cinv. cbn. splits; auto; [intros e He; discriminate|apply (co_dec_init HC)].
  Qed.

  Lemma WF_halt (s : state) (out : outcome unit) :
    WFS s -> (out = Ok tt -> WFP cfg s) -> cinv HC s -> WFX (halt_on_error s out).
  Proof.
    intros HW HP HI. destruct out as [[]|k|site]; cbn [halt_on_error].
    - split; [split; [exact HW|apply HP; reflexivity]|exact HI].
    - split; [split; [exact HW|exact I]|exact HI].
    - split; [split; [exact HW|exact I]|exact HI].
  Qed.

  Theorem step_spec (s : state) e :
    WFX s -> ok_event e ->
    (forall site, o_res (snd (step s e)) <> Panic site) /\ WFX (fst (step s e)).
  Proof.
    intros [HWF HI] Hev. pose proof HWF as [HW HP]. destruct e as [now p t|now dl|now|now data|now|now cap fill|now|now]; cbn [Model.step].
    - (* user submission *)
      destruct (user_event_spec cfg s p t HWF) as (E & HWF' & Hc). unfold out_of_res. cbn [fst snd o_res]. rewrite E.
      split; [intros; discriminate|]. split; [exact HWF'|eapply cinv_comp; [exact Hc|exact HI]].
    - destruct (net_opened_spec cfg dec_init s dl HWF) as (N1 & W1 & P1 & _ & _ & C1 & C2 & C3 & C4). unfold out_of_res. cbn [fst snd o_res].
      split; [exact N1|apply WF_halt; try assumption].
      destruct HI as (I1 & I2 & I3 & I4). unfold cinv. rewrite C1, C2, C3. splits; auto.
      destruct C4 as [-> | ->]; [exact I2|apply (co_dec_init HC)].
    - (* connection closed *)
      unfold out_of_res. cbn [fst snd o_res].
      destruct (pstate_eqb (s_st s) Disconnected) eqn:Est.
      + apply pstate_eqb_eq in Est. rewrite (net_closed_disconnected cfg s Est). cbn. split; [intros; discriminate|].
        split; [split; [exact HW|exact I]|exact HI].
      + apply pstate_eqb_neq in Est. destruct (net_closed_spec cfg s HW Est) as (E & W1 & S1 & (F1 & F2 & F3 & F4 & F5 & F6) & (_ & Hc) & _).
        rewrite E. cbn [halt_on_error]. split; [intros; discriminate|]. split; [|eapply cinv_comp; [exact Hc|exact HI]].
        split; [exact W1|]. unfold WFP. rewrite S1. splits; assumption.
    - (* inbound bytes *)
      cbn [fst snd o_res]. assert (Hd : hps_post cfg HC (TR s) (net_data s now data)) by (eapply net_data_spec; eauto).
      destruct Hd as (N1 & W1 & P1 & J1 & _). split; [exact N1|apply WF_halt; assumption].
    - destruct (net_write_completion_spec cfg s HWF) as (N1 & W1 & P1 & Hc & _). unfold out_of_res. cbn [fst snd o_res].
      split; [exact N1|apply WF_halt; try assumption]. eapply cinv_comp; [exact Hc|exact HI].
    - (* service *)
      destruct Hev as [Hnow Hcap]. cbn [fst snd o_res].
      assert (Hs : svc_post cfg HC (TR s) (service s now cap fill)) by (eapply service_spec; eauto).
      destruct Hs as (N1 & W1 & _ & J1 & _). split; [exact N1|split; assumption].
    - (* next service time *)
      unfold next_service_time. destruct (s_st s) eqn:Est; cbn; try (split; [intros; discriminate|split; assumption]).
      + unfold WFP in HP. rewrite Est in HP. destruct (s_connack_to s); [|tauto]. cbn. split; [intros; discriminate|split; assumption].
      + destruct (s_pwc s); cbn; (split; [intros; discriminate|split; assumption]).
    - destruct (reset_spec cfg s HW) as (E & HWF' & _ & _ & Hc). unfold out_of_res. cbn [fst snd o_res]. rewrite E.
      split; [intros; discriminate|]. split; [exact HWF'|eapply cinv_comp; [exact Hc|exact HI]].
  Qed.

  Corollary WF_step (s : state) e : WFX s -> ok_event e -> WFX (fst (step s e)).
  Proof. intros H1 H2. apply step_spec; assumption. Qed.

  Theorem WF_run : forall h (s : state), WFX s -> Forall ok_event h -> WFX (fst (run s h)).
  Proof.
    induction h as [|e r IH]; intros s HWF Hall; cbn [Model.run]; [exact HWF|].
    inversion Hall as [|? ? He Hr]; subst.
    pose proof (WF_step s e HWF He) as HW1.
    destruct (step s e) as [s1 o]. cbn [fst] in HW1. specialize (IH s1 HW1 Hr).
    destruct (run s1 r) as [s2 os]. exact IH.
  Qed.

  Theorem run_no_panic : forall h (s : state), WFX s -> Forall ok_event h ->
    forall o, In o (snd (run s h)) -> forall site, o_res o <> Panic site.
  Proof.
    induction h as [|e r IH]; intros s HWF Hall o Hin; cbn [Model.run] in Hin; [destruct Hin|].
    inversion Hall as [|? ? He Hr]; subst.
    destruct (step_spec s e HWF He) as (N1 & W1).
    destruct (step s e) as [s1 o1] eqn:Es. destruct (run s1 r) as [s2 os] eqn:Er. cbn [fst snd] in *.
    destruct Hin as [<-|Hin]; [exact N1|].
    apply (IH s1 W1 Hr). rewrite Er. exact Hin.
  Qed.
  (* ---- no operation is silently dropped ---- *)
  Lemma TR_halt (s : state) (out : outcome unit) : TR s -> TR (halt_on_error s out).
  Proof. intros T. destruct out as [[]|k|site]; cbn [halt_on_error]; auto; (apply (TR_queues s); [reflexivity|unfold inQ; cbn; tauto|exact T]). Qed.

  Theorem TR_init (o : ores) (i : ires) : TR (init (enc:=enc) dec_init o i).
  Proof. apply TR_no_ops. reflexivity. Qed.

  Theorem step_tr (s : state) e :
    WFX s -> ok_event e -> ok_submit e -> TR s -> TR (fst (step s e)).
  Proof.
    intros [HWF HI] Hev Hsub HT. pose proof HWF as [HW HP].
    destruct e as [now p t|now dl|now|now data|now|now cap fill|now|now]; cbn [Model.step].
    - unfold out_of_res. cbn [fst]. apply user_event_tr; assumption.
    - unfold out_of_res. cbn [fst]. apply TR_halt. apply net_opened_tr; assumption.
    - unfold out_of_res. cbn [fst]. apply TR_halt.
      destruct (pstate_eqb (s_st s) Disconnected) eqn:Est.
      + apply pstate_eqb_eq in Est. rewrite (net_closed_disconnected cfg s Est). exact HT.
      + apply pstate_eqb_neq in Est. destruct (net_closed_spec cfg s HW Est) as (_ & _ & _ & _ & _ & G). apply G. exact HT.
    - cbn [fst]. apply TR_halt. assert (Hd : hps_post cfg HC (TR s) (net_data s now data)) by (eapply net_data_spec; eauto).
      destruct Hd as (_ & _ & _ & _ & G). apply G. exact HT.
    - unfold out_of_res. cbn [fst]. apply TR_halt. destruct (net_write_completion_spec cfg s HWF) as (_ & _ & _ & _ & G). apply G. exact HT.
    - destruct Hev as [Hnow Hcap]. cbn [fst].
      assert (Hs : svc_post cfg HC (TR s) (service s now cap fill)) by (eapply service_spec; eauto).
      destruct Hs as (_ & _ & _ & _ & G). apply G. exact HT.
    - destruct (next_service_time cfg s now); exact HT.
    - unfold out_of_res. cbn [fst]. apply TR_no_ops. destruct (reset_spec cfg s HW) as (_ & _ & _ & E & _). exact E.
  Qed.

  Theorem run_tr : forall h (s : state), WFX s -> TR s -> Forall ok_event h -> Forall ok_submit h -> TR (fst (run s h)).
  Proof.
    induction h as [|e r IH]; intros s HWF HT Hall Hsub; cbn [Model.run]; [exact HT|].
    inversion Hall as [|? ? He Hr]; subst. inversion Hsub as [|? ? Hs Hsr]; subst.
    pose proof (WF_step s e HWF He) as HW1. pose proof (step_tr s e HWF He Hs HT) as HT1.
    destruct (step s e) as [s1 o]. cbn [fst] in HW1, HT1. specialize (IH s1 HW1 HT1 Hr Hsr).
    destruct (run s1 r) as [s2 os]. exact IH.
  Qed.
End Step.
