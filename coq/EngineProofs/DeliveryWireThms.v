(* C04, RUN LEVEL: the wire-level theorems about the transmissions of one operation, for EVERY event history of the engine
   model (any codec / validator / alias components satisfying comps_ok, ok_cfg, ok_event, and ok_submit = submitted PUBLISH
   packets carry DUP = 0).  The delivery log [dlog h] of a history is DeliveryWire.run_dlog from the initial state;
   [sends i h] lists the encoder constructions for operation i with their connection number.  Each theorem is the
   corresponding statement of DeliveryWireLang.v about the accepted language, applied to DeliveryWire.reachable_accepts. *)
From GM Require Import Base.Prelude Base.Outcome Codec.Packets Codec.Settings Engine.Model
  EngineProofs.WFDefs EngineProofs.WFTrack EngineProofs.IdsFrame EngineProofs.InboundSpec EngineProofs.AliasRunLog
  EngineProofs.DeliveryWireDefs EngineProofs.DeliveryWire EngineProofs.DeliveryWireLang EngineProofs.DeliveryWireDone.
Open Scope N_scope.

Section Thms.
  Variable enc : Type.
  Variable enc_reset : version -> packet -> resolution -> outcome enc.
  Variable enc_call : enc -> N -> N -> outcome (bytes * enc).
  Variable enc_done : enc -> bool.
  Variable dec : Type.
  Variable dec_init : dec.
  Variable dec_feed : version -> N -> dec -> bytes -> dec * list packet * outcome unit.
  Variable ores : Type.
  Variable ores_reset : ores -> N -> ores.
  Variable ores_resolve : ores -> option N -> bytes -> outcome (ores * resolution).
  Variable ires : Type.
  Variable ires_reset : ires -> ires.
  Variable ires_resolve : ires -> option N -> bytes -> outcome (ires * bytes).
  Variable v_out : option settings -> connect_opts -> resolution -> packet -> outcome unit.
  Variable v_in : option settings -> packet -> outcome unit.
  Variable cfg : config.
  Variable HC : comps_ok enc enc_reset enc_call dec dec_init dec_feed ores ores_reset ores_resolve ires ires_reset ires_resolve v_out v_in.
  Hypothesis Hcfg : ok_cfg cfg.
  Variable o0 : ores.
  Variable i0 : ires.
  Hypothesis Ho : ores_inv HC o0.
  Hypothesis Hi : ires_inv HC i0.

  Definition dlog (h : list event) : list dev :=
    run_dlog enc enc_reset enc_call enc_done dec dec_init dec_feed ores ores_reset ores_resolve ires ires_reset ires_resolve v_out v_in cfg
             (init enc dec dec_init ores ires o0 i0) h.

  (* the transmissions of operation i: (connection number, packet handed to the encoder) *)
  Definition sends (i : N) (h : list event) : list (nat * packet) := sends_from i 0 (dlog h).

  Variable h : list event.
  Hypothesis Hev : Forall ok_event h.
  Hypothesis Hsub : Forall ok_submit h.
  Variable i : N.

  Lemma dlog_accepted : accepts i g0 (dlog h).
  Proof.
    exact (proj1 (reachable_accepts enc enc_reset enc_call enc_done dec dec_init dec_feed ores ores_reset ores_resolve
                    ires ires_reset ires_resolve v_out v_in cfg HC Hcfg i o0 i0 h Ho Hi Hev Hsub)).
  Qed.

  (* [submitted i (dlog h)]: operation id i was given to a submitted QoS 1/2 PUBLISH somewhere in the history; the machine
     also proves that the submission precedes everything handed to the encoder for i (DeliveryWireLang.sub_q12).
     (a) the first PUBLISH handed to the encoder for a submitted QoS 1/2 publish: DUP = 0, a bound identifier, the
     submitted content *)
  Theorem wire_first_transmission l1 e l2 pb :
    dlog h = l1 ++ e :: l2 -> pub_of i e = Some pb -> submitted i (dlog h) -> (forall x, In x l1 -> pub_of i x = None) ->
    pub_dup pb = false /\ 1 <= pub_pid pb <= 65535 /\ pub_qos pb <> 0 /\
    exists p0, In (DS i p0) l1 /\ pubq p0 = true /\ norm (Publish pb) = norm p0.
  Proof. intros E. rewrite E. apply (first_transmission i l1 e l2 pb). rewrite <- E. exact dlog_accepted. Qed.

  (* (b) between two PUBLISH constructions of the operation a connection was closed, opened or the engine reset: never
     twice within one connection *)
  Theorem wire_no_second_publish l1 e1 lm e2 l2 pb1 pb2 :
    dlog h = l1 ++ e1 :: lm ++ e2 :: l2 -> submitted i (dlog h) -> pub_of i e1 = Some pb1 -> pub_of i e2 = Some pb2 ->
    exists x, In x lm /\ boundary x = true.
  Proof. intros E. rewrite E. apply (no_second_publish i l1 e1 lm e2 l2 pb1 pb2). rewrite <- E. exact dlog_accepted. Qed.

  (* (b) after a processed PUBREC that set the PUBREL slot of the operation, whatever is handed to the encoder for it is
     the PUBREL with the acknowledged identifier - on this connection and on later ones - until a CONNACK without session *)
  Theorem wire_pubrel_after_pubrec l1 e1 lm e2 l2 a p :
    dlog h = l1 ++ e1 :: lm ++ e2 :: l2 -> rec_of i e1 = Some a -> enc_of i e2 = Some p ->
    (forall x, In x lm -> sess_item x <> Some false) ->
    p = Pubrel (default_ack (ack_pid a)).
  Proof. intros E. apply (pubrel_after_pubrec i l1 e1 lm e2 l2 a p). rewrite <- E. exact dlog_accepted. Qed.

  (* (c) a PUBLISH with DUP = 1: the CONNACK of the current connection reported the session present; the PUBLISH of the
     operation was handed to the encoder with the SAME identifier and completely written on an earlier connection; same
     content *)
  Theorem wire_retransmission l1 e l2 pb :
    dlog h = l1 ++ e :: l2 -> submitted i (dlog h) -> pub_of i e = Some pb -> pub_dup pb = true ->
    sp_now l1 /\ wrote i (pub_pid pb) l1 /\ pub_qos pb <> 0 /\
    exists p0, In (DS i p0) l1 /\ pubq p0 = true /\ norm (Publish pb) = norm p0.
  Proof. intros E. rewrite E. apply (retransmission i l1 e l2 pb). rewrite <- E. exact dlog_accepted. Qed.

  (* (d) after a CONNACK without session the next packet handed to the encoder for the operation is its PUBLISH with
     DUP = 0 (a restart, the identifier freshly bound) *)
  Theorem wire_restart l1 e1 lm e2 l2 p :
    dlog h = l1 ++ e1 :: lm ++ e2 :: l2 -> submitted i (dlog h) -> sess_item e1 = Some false -> enc_of i e2 = Some p ->
    (forall x, In x lm -> enc_of i x = None) ->
    exists pb, p = Publish pb /\ pub_dup pb = false /\ 1 <= pub_pid pb <= 65535 /\ pub_qos pb <> 0.
  Proof. intros E. rewrite E. apply (restart_after_no_session i l1 e1 lm e2 l2 p). rewrite <- E. exact dlog_accepted. Qed.
End Thms.

(* (e) needs no premise at all *)
Section Done.
  Variable enc : Type.
  Variable enc_reset : version -> packet -> resolution -> outcome enc.
  Variable enc_call : enc -> N -> N -> outcome (bytes * enc).
  Variable enc_done : enc -> bool.
  Variable dec : Type.
  Variable dec_init : dec.
  Variable dec_feed : version -> N -> dec -> bytes -> dec * list packet * outcome unit.
  Variable ores : Type.
  Variable ores_reset : ores -> N -> ores.
  Variable ores_resolve : ores -> option N -> bytes -> outcome (ores * resolution).
  Variable ires : Type.
  Variable ires_reset : ires -> ires.
  Variable ires_resolve : ires -> option N -> bytes -> outcome (ires * bytes).
  Variable v_out : option settings -> connect_opts -> resolution -> packet -> outcome unit.
  Variable v_in : option settings -> packet -> outcome unit.
  Variable cfg : config.

  (* once an operation has been completed (its id is in the completions of a step) no packet of it is handed to the
     encoder in any later step *)
  Theorem wire_nothing_after_completion (o0 : ores) (i0 : ires) h1 e h2 id c :
    let run := Model.run enc enc_reset enc_call enc_done dec dec_init dec_feed ores ores_reset ores_resolve ires ires_reset ires_resolve v_out v_in cfg in
    let step := Model.step enc enc_reset enc_call enc_done dec dec_init dec_feed ores ores_reset ores_resolve ires ires_reset ires_resolve v_out v_in cfg in
    let s1 := fst (run (init enc dec dec_init ores ires o0 i0) h1) in
    In (id, c) (o_done (snd (step s1 e))) ->
    forall p r ok, ~ In (DO (OEncode id p r ok))
      (run_dlog enc enc_reset enc_call enc_done dec dec_init dec_feed ores ores_reset ores_resolve ires ires_reset ires_resolve v_out v_in cfg
                (fst (step s1 e)) h2).
  Proof. cbv zeta. apply nothing_after_completion. Qed.
End Done.
