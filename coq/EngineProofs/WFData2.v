(* Well-formedness through the inbound path, part 2: apply_session. *)
From GM Require Import Base.Prelude Base.Outcome Codec.Packets Codec.Settings Engine.Model
  EngineProofs.AssocLemmas EngineProofs.PacketIds EngineProofs.WFLemmas EngineProofs.WFDefs EngineProofs.WFCore
  EngineProofs.WFComplete EngineProofs.WFClose EngineProofs.WFClose2 EngineProofs.WFService EngineProofs.WFService4
  EngineProofs.WFEvents EngineProofs.WFData EngineProofs.WFTrack.
From Coq Require Import Sorting.Sorted Sorting.Permutation.
From RecordUpdate Require Import RecordSet.
Import RecordSetNotations.
Open Scope N_scope.

(* the four component types are implicit in the engine functions, locally to this file *)
#[local] Arguments init {enc dec} _ {ores ires} _ _.
#[local] Arguments release {enc dec ores ires} _ _ _ _.
#[local] Arguments disconnect_completion {enc dec ores ires} _ _.
#[local] Arguments fail_op {enc dec ores ires} _ _ _ _.
#[local] Arguments ping_extension {enc dec ores ires} _ _.
#[local] Arguments succeed_op {enc dec ores ires} _ _ _ _.
#[local] Arguments fail_all {enc dec ores ires} _ _ _ _.
#[local] Arguments succeed_all {enc dec ores ires} _ _ _.
#[local] Arguments andthen {enc dec ores ires} _ _.
#[local] Arguments try_ {enc dec ores ires} _ _.
#[local] Arguments pure {enc dec ores ires} _.
#[local] Arguments create_operation {enc dec ores ires} _ _.
#[local] Arguments passes_now {enc dec ores ires} _ _ _.
#[local] Arguments user_event {enc dec ores ires} _ _ _ _.
#[local] Arguments create_connect {enc dec ores ires} _ _.
#[local] Arguments net_opened {enc dec} _ {ores ires} _ _ _.
#[local] Arguments op_exists {enc dec ores ires} _ _.
#[local] Arguments op_passes {enc dec ores ires} _ _ _.
#[local] Arguments partition_policy {enc dec ores ires} _ _ _.
#[local] Arguments closed_current {enc dec ores ires} _ _.
#[local] Arguments slow_start_init {enc dec ores ires} _ _.
#[local] Arguments update_retries {enc dec ores ires} _ _.
#[local] Arguments fail_exceeding {enc dec ores ires} _ _.
#[local] Arguments has_pubrel {enc dec ores ires} _ _.
#[local] Arguments net_closed_raw {enc dec ores ires} _ _.
#[local] Arguments net_closed {enc dec ores ires} _ _.
#[local] Arguments net_write_completion {enc dec ores ires} _ _.
#[local] Arguments acquire_free_pid {enc dec ores ires} _ _.
#[local] Arguments acquire_pid_for {enc dec ores ires} _ _.
#[local] Arguments unbind {enc dec ores ires} _ _.
#[local] Arguments passes_receive_max {enc dec ores ires} _ _.
#[local] Arguments throttled {enc dec ores ires} _ _.
#[local] Arguments has_pending_ack {enc dec ores ires} _.
#[local] Arguments dequeue {enc dec ores ires} _ _ _.
#[local] Arguments fully_written {enc dec ores ires} _ _.
#[local] Arguments service_keep_alive {enc dec ores ires} _ _ _.
#[local] Arguments process_ack_timeouts {enc dec ores ires} _ _ _.
#[local] Arguments halt_on_error {enc dec ores ires} _ _.
#[local] Arguments next_service_time {enc dec ores ires} _ _ _.
#[local] Arguments build_settings {enc dec ores ires} _ _ _.
#[local] Arguments apply_session {enc dec ores ires} _ _ _.
#[local] Arguments hres_of {enc dec ores ires} _ _.
#[local] Arguments pre_connack {enc dec ores ires} _.
#[local] Arguments sum_ss {enc dec ores ires} _.
#[local] Arguments handle_pingresp {enc dec ores ires} _.
#[local] Arguments handle_suback {enc dec ores ires} _ _ _.
#[local] Arguments handle_unsuback {enc dec ores ires} _ _ _.
#[local] Arguments publish_qos_of {enc dec ores ires} _ _.
#[local] Arguments handle_puback {enc dec ores ires} _ _ _.
#[local] Arguments handle_pubrec {enc dec ores ires} _ _ _.
#[local] Arguments handle_pubrel {enc dec ores ires} _ _.
#[local] Arguments handle_pubcomp {enc dec ores ires} _ _ _.
#[local] Arguments handle_publish {enc dec ores ires} _ _.
#[local] Arguments handle_disconnect {enc dec ores ires} _ _ _.
#[local] Arguments is_connect_op {enc dec ores ires} _ _.
#[local] Arguments connect_in_queue {enc dec ores ires} _.
#[local] Arguments reset {enc dec ores ires} _ _.
#[local] Arguments out_of_res {enc dec ores ires} _ _.
#[local] Arguments nst_queue {enc dec ores ires} _ _ _ _.
#[local] Arguments earliest_tmo {enc dec ores ires} _.
#[local] Arguments SeatStop {enc dec ores ires} _.
#[local] Arguments SeatContinue {enc dec ores ires} _ _.
#[local] Arguments SeatEncode {enc dec ores ires} _.


Section Session2.
  Context {enc dec ores ires : Type}.
  Notation state := (state enc dec ores ires).
  Notation res := (res enc dec ores ires).
  Variable cfg : config.

  Ltac splits := repeat match goal with |- _ /\ _ => split end.
  Ltac tuple_eqs H := repeat (apply pair_equal_spec in H; destruct H as [H ?]).
  Ltac core_cbn := unfold tracked, inq; cbn [core_of c_ops c_uq c_rq c_hq c_cur c_alloc c_ppub c_pnon c_pwco c_nid c_npid].

  Lemma sort_In l x : In x (Model.sort l) <-> In x l.
  Proof. split; apply Permutation_in; [apply sort_perm|apply Permutation_sym, sort_perm]. Qed.

  (* what the session step leaves alone *)
  Definition sess_keep (s : state) :=
    (s_st s, s_pwc s, s_tmo s, s_hq s, s_cur s, s_enc s, s_ppub s, s_pnon s, s_pwco s, s_settings s, s_next_id s,
     s_connected_before s, s_dec s, s_next_ping s, s_ping_to s, s_connack_to s, s_ores s, s_ires s, s_ss_count s).

  (* the common tail: sort the two intake queues, then the five assertions *)
  Definition sess_tail (s2 : state) (d : dones) (out : outcome unit) : res :=
    let s3 := s2 <| s_rq := Model.sort (s_rq s2) |> <| s_uq := Model.sort (s_uq s2) |> in
    let check (b : bool) (site : N) (k : res) : res := if b then k else mkRes s3 d (Panic site) in
    check (match s_hq s3 with [] => true | _ => false end) 1666
   (check (match s_ppub s3 with [] => true | _ => false end) 1667
   (check (match s_pnon s3 with [] => true | _ => false end) 1668
   (check (match s_tmo s3 with [] => true | _ => false end) 1669
   (check (match s_pwco s3 with [] => true | _ => false end) 1670
      (mkRes s3 d out))))).

  Lemma sess_tail_spec (s2 : state) d out :
    WFS s2 -> s_hq s2 = [] -> s_ppub s2 = [] -> s_pnon s2 = [] -> s_tmo s2 = [] -> s_pwco s2 = [] ->
    let r := sess_tail s2 d out in
    r_out r = out /\ WFS (r_s r) /\ sess_keep (r_s r) = sess_keep s2 /\ s_ops (r_s r) = s_ops s2 /\ (TR s2 -> TR (r_s r)).
  Proof.
    intros HW E1 E2 E3 E4 E5. unfold sess_tail. cbn. rewrite E1, E2, E3, E4, E5. cbn. splits; try reflexivity.
    2:{ apply TR_queues; [reflexivity|]. unfold inQ. cbn. intros i Q _. rewrite !sort_In. exact Q. }
    eapply WFS_queues; [exact HW| | | | | | | | | | |]; cbn; auto; try tauto.
    - core_cbn. cbn. intros p i o Hi Hp T. rewrite !sort_In. exact T.
    - core_cbn. cbn. intros i. rewrite !sort_In. tauto.
  Qed.

  Definition sess_head (s : state) (sp : bool) : res :=
    if sp then pure s else
    let rq := s_rq s in
    let (kept, rejected) := partition_policy cfg s rq in
    let s1 := s <| s_rq := [] |>
                <| s_ops := fold_left (fun ops id => update id (set_dup false) ops) kept (s_ops s) |>
                <| s_uq := s_uq s ++ kept |> in
    let r := fail_all cfg s1 rejected EOfflineQueuePolicyFailed in
    if is_panic (r_out r) then r else
    mkRes (r_s r <| s_q2in := [] |> <| s_alloc := [] |>) (r_done r) (r_out r).

  Lemma apply_session_unfold (s : state) sp :
    apply_session cfg s sp =
    let r1 := sess_head s sp in
    if is_panic (r_out r1) then r1 else
    sess_tail (fold_left unbind (s_uq (r_s r1)) (r_s r1)) (r_done r1) (r_out r1).
  Proof. unfold apply_session, sess_head, sess_tail. Timeout 60 reflexivity. Qed.

  Lemma unb_ok_set_dup_false o : unb_ok o -> unb_ok (set_dup false o).
  Proof.
    intros (U1 & U2). destruct (set_dup_fields false o) as (_ & F2 & _). unfold unb_ok. rewrite F2. split; [exact U1|].
    destruct (set_dup_packet false o) as [(pb & pb' & E1 & E2 & E3 & _)|[_ E2]].
    - intros pb0 H0. rewrite E2 in H0. inversion H0; subst. left. exact E3.
    - rewrite E2. exact U2.
  Qed.

  Lemma unb_ok_iter n o : unb_ok o -> unb_ok (Nat.iter n (set_dup false) o).
  Proof. intros H. induction n as [|n IH]; [exact H|]. change (Nat.iter (S n) (set_dup false) o) with (set_dup false (Nat.iter n (set_dup false) o)). apply unb_ok_set_dup_false. exact IH. Qed.

  Lemma TR_unbind_all X (s : state) :
    WFSx X s -> s_ppub s = [] -> s_pnon s = [] -> TR s -> TR (fold_left unbind (s_uq s) s).
  Proof.
    intros HW Epp Epn HT. destruct (unbind_all_spec X (s_uq s) s HW Epp Epn) as (U1 & U2 & U3 & U4 & U5 & U6).
    pose proof (unbind_all_packet (s_uq s) s) as UP.
    set (s2 := fold_left unbind (s_uq s) s) in *. clearbody s2. unfold but_oa in U2. tuple_eqs U2.
    assert (Hq : forall i, inQ s i -> inQ s2 i).
    { unfold inQ. intros i Q. replace (s_uq s2) with (s_uq s) by congruence. replace (s_rq s2) with (s_rq s) by congruence.
      replace (s_hq s2) with (s_hq s) by congruence. replace (s_cur s2) with (s_cur s) by congruence.
      replace (s_pwco s2) with (s_pwco s) by congruence. exact Q. }
    apply (TR_gen s s2 HT). intros i o' Hi Hp.
    destruct (UP i o' Hi) as (o & Ho & P1 & P2). destruct (U5 i o' Hi) as (o0 & Ho0 & Q1 & Q2 & Q3 & Q4).
    assert (o0 = o) by congruence. subst o0.
    destruct (op_pid o) as [p|] eqn:Hpo.
    - left. destruct (in_dec N.eq_dec i (s_uq s)) as [Hin|Hnin].
      + split; [apply Hq; unfold inQ; tauto|]. destruct (Q3 Hin) as (_ & Hpr). split; [exact Hpr|].
        intros pb' Hpb. right. apply (P2 Hp); [discriminate|exact Hpb].
      + exfalso. rewrite (Q4 Hnin) in Hp. congruence.
    - right. exists o. destruct (P1 eq_refl) as (_ & Epk). destruct (HT i o Ho Hpo) as (_ & Hpr & _).
      split; [exact Ho|]. split; [exact Hpo|]. split; [exact Epk|]. split; [rewrite Hpr; apply Q2; exact Hpr|apply Hq].
  Qed.

  Record mid_spec (s s2 : state) : Prop := mkMid {
    md_wfs : WFS s2;
    md_w9 : W9 cfg s2;
    md_hq : s_hq s2 = []; md_ppub : s_ppub s2 = []; md_pnon : s_pnon s2 = []; md_tmo : s_tmo s2 = []; md_pwco : s_pwco s2 = [];
    md_st : s_st s2 = s_st s; md_settings : s_settings s2 = s_settings s; md_cur : s_cur s2 = s_cur s;
    md_enc : s_enc s2 = s_enc s;
    md_comp : comp_of s2 = comp_of s;
    md_tr : TR s -> TR s2;
    md_gone : forall i, getop s i = None -> getop s2 i = None }.

  Lemma sess_mid_present (s : state) :
    WFS s -> W9 cfg s -> s_hq s = [] -> s_ppub s = [] -> s_pnon s = [] -> s_tmo s = [] -> s_pwco s = [] ->
    mid_spec s (fold_left unbind (s_uq s) s).
  Proof.
    intros HW H9 E1 E2 E3 E4 E5.
    destruct (unbind_all_spec [] (s_uq s) s HW E2 E3) as (U1 & U2 & U3 & U4 & U5 & U6).
    pose proof (TR_unbind_all [] s HW E2 E3) as UT.
    set (s2 := fold_left unbind (s_uq s) s) in *. clearbody s2.
    unfold but_oa in U2. tuple_eqs U2.
    constructor; try congruence; auto; try (unfold comp_of; congruence).
    unfold W9, ss_ok in *. rewrite U4. replace (s_st s2) with (s_st s) by congruence.
    replace (s_ss_count s2) with (s_ss_count s) by congruence. exact H9.
  Qed.

  Lemma sess_mid_absent (s : state) :
    WFS s -> W9 cfg s -> s_st s = Connected ->
    s_hq s = [] -> s_ppub s = [] -> s_pnon s = [] -> s_tmo s = [] -> s_pwco s = [] ->
    (forall i, s_cur s = Some i -> getop s i = None) ->
    let r1 := sess_head s false in
    (forall site, r_out r1 <> Panic site) /\ mid_spec s (fold_left unbind (s_uq (r_s r1)) (r_s r1)).
  Proof.
    intros HW H9 Hst E1 E2 E3 E4 E5 Hcur. unfold sess_head.
    destruct (partition_policy cfg s (s_rq s)) as [kept rejected] eqn:Epart.
    set (X := s_rq s).
    set (s1 := s <| s_rq := [] |>
                 <| s_ops := fold_left (fun ops id => update id (set_dup false) ops) kept (s_ops s) |>
                 <| s_uq := s_uq s ++ kept |>).
    assert (Hkept : forall i, In i kept -> In i X /\ op_exists s i = true).
    { intros i Hi. assert (Hk : In i (fst (partition_policy cfg s (s_rq s)))) by (rewrite Epart; exact Hi).
      apply partition_kept in Hk. tauto. }
    (* s1: the kept operations move to the user queue, dup cleared *)
    assert (HW1 : WFSx X s1).
    { set (c0 := mkCore (upd_all (set_dup false) kept (s_ops s)) (s_uq s) (s_rq s) (s_hq s) (s_cur s) (s_alloc s) (s_ppub s)
                        (s_pnon s) (s_pwco s) (s_next_id s) (s_next_pid s)).
      assert (H0 : WFc X c0).
      { eapply WFc_upd_all; [eapply WFc_exempt; [exact HW|intros i []]| |reflexivity].
        intros i o Hi. apply upd_ok_set_dup. right. apply Hkept. exact Hi. }
      eapply (WFc_mono X X c0); [exact H0| | | | | | | | | | | |]; cbn; try reflexivity; try lia; try apply H0; auto.
      - core_cbn. cbn. intros p i o Hi Hp T. unfold X. destruct T as [T|[T|[T|T]]]; try tauto. right; left. apply in_or_app. tauto.
      - core_cbn. cbn. intros i [Hi|[[]|Hi]]; try tauto. apply in_app_or in Hi. destruct Hi as [Hi|Hi]; [tauto|].
        left. right; left. apply Hkept. exact Hi. }
    assert (H91 : W9 cfg s1).
    { unfold W9, ss_ok in *. cbn. change (fold_left _ kept (s_ops s)) with (upd_all (set_dup false) kept (s_ops s)).
      rewrite sumss_upd_all by (intros o; apply set_dup_fields). exact H9. }
    pose proof (fail_all_spec cfg X rejected s1 EOfflineQueuePolicyFailed HW1 H91) as F.
    set (r := fail_all cfg s1 rejected EOfflineQueuePolicyFailed) in *.
    cbv zeta. rewrite (nopanic_is_panic _ (fs_nopanic _ _ _ _ _ F)). cbn [r_s r_out r_done].
    split; [apply F|].
    destruct (rest_fields _ _ (fc_rest _ _ _ (fs_frame _ _ _ _ _ F))) as (R1 & R2 & R3 & R4 & R5 & R6 & R7 & R8 & R9 & R10 & R11 & R12 & R13).
    assert (EppA : s_ppub (r_s r) = []) by (eapply subset_nil; [apply (fc_ppub _ _ _ (fs_frame _ _ _ _ _ F))|exact E2]).
    assert (EpnA : s_pnon (r_s r) = []) by (eapply subset_nil; [apply (fc_pnon _ _ _ (fs_frame _ _ _ _ _ F))|exact E3]).
    assert (HstA : s_st (r_s r) = s_st s).
    { destruct (fc_st _ _ _ (fs_frame _ _ _ _ _ F)) as [E|[E _]]; [exact E|]. cbn in E. congruence. }
    (* unbinding in the state that still has its packet-id table *)
    destruct (unbind_all_spec X (s_uq (r_s r)) (r_s r) (fs_wfs _ _ _ _ _ F) EppA EpnA) as (U1 & U2 & U3 & U4 & U5 & U6).
    pose proof (TR_unbind_all X (r_s r) (fs_wfs _ _ _ _ _ F) EppA EpnA) as UTA.
    (* ... and in the real one, where the table was cleared first *)
    set (sA' := (r_s r) <| s_q2in := [] |> <| s_alloc := [] |>).
    destruct (unbind_all_comm (s_uq (r_s r)) (r_s r) sA' eq_refl eq_refl) as (C1 & C2).
    change (s_uq sA') with (s_uq (r_s r)).
    set (s2 := fold_left unbind (s_uq (r_s r)) (r_s r)) in *.
    set (s2' := fold_left unbind (s_uq (r_s r)) sA') in *. clearbody s2 s2'.
    unfold but_aq2 in C1. tuple_eqs C1. unfold but_oa in U2. tuple_eqs U2.
    (* existence in s2 goes back to s *)
    assert (Hback : forall i o', getop s2 i = Some o' -> exists o, getop (r_s r) i = Some o /\ unb_all_rel (s_uq (r_s r)) i o o').
    { exact U5. }
    assert (Hs1s : forall i, getop s i = None -> getop s1 i = None).
    { intros i Hi. unfold getop in *. cbn. change (fold_left _ kept (s_ops s)) with (upd_all (set_dup false) kept (s_ops s)).
      apply lookup_none_not_in. rewrite keys_upd_all. apply lookup_none_not_in. exact Hi. }
    assert (Hs1ex : forall i o, getop s1 i = Some o -> op_exists s i = true).
    { intros i o Hi. unfold op_exists. destruct (lookup i (s_ops s)) eqn:E; [reflexivity|].
      rewrite (Hs1s i E) in Hi. discriminate. }
    assert (Hunbound : forall i o', getop s2 i = Some o' -> op_pid o' = None /\ op_pubrel o' = None \/ ~ In i X).
    { intros i o' Hi. destruct (U5 i o' Hi) as (o & Ho & Q1 & Q2 & Q3 & Q4).
      destruct (in_dec N.eq_dec i X) as [HiX|HiX]; [left|right; exact HiX].
      apply Q3. rewrite R1. cbn. apply in_or_app. right.
      pose proof (fc_sub _ _ _ (fs_frame _ _ _ _ _ F) _ _ Ho) as Ho1.
      destruct (partition_cases cfg s (s_rq s) i HiX (Hs1ex _ _ Ho1)) as [Hk|Hk]; rewrite Epart in Hk; cbn [fst snd] in Hk; [exact Hk|].
      pose proof (fs_gone _ _ _ _ _ F i Hk) as Hg. congruence. }
    assert (Hallunbound : forall i o', getop s2 i = Some o' -> op_pid o' = None).
    { intros i o' Hi. destruct (op_pid o') as [p|] eqn:Hp; [exfalso|reflexivity].
      destruct (Hunbound i o' Hi) as [[Hu _]|HnX]; [congruence|].
      destruct (U5 i o' Hi) as (o & Ho & Q1 & Q2 & Q3 & Q4).
      destruct (w_tracked _ _ U1 i o' p Hi Hp) as [T|[T|[T|[T|[T|T]]]]]; cbn in T.
      - contradiction.
      - replace (s_uq s2) with (s_uq (r_s r)) in T by congruence. destruct (Q3 T). congruence.
      - replace (s_rq s2) with (s_rq (r_s r)) in T by congruence. rewrite R2 in T. destruct T.
      - replace (s_cur s2) with (s_cur (r_s r)) in T by congruence. rewrite R4 in T. cbn in T.
        pose proof (fc_sub _ _ _ (fs_frame _ _ _ _ _ F) _ _ Ho) as Ho1. rewrite (Hs1s i (Hcur i T)) in Ho1. discriminate.
      - replace (s_ppub s2) with (s_ppub (r_s r)) in T by congruence. rewrite EppA in T. destruct T.
      - replace (s_pnon s2) with (s_pnon (r_s r)) in T by congruence. rewrite EpnA in T. destruct T. }
    assert (HW2' : WFS s2').
    { assert (HX2' : WFSx X s2').
      { eapply (WFc_clear_alloc X (core_of s2)); [exact U1|exact Hallunbound|]. unfold core_of. cbn [c_ops c_uq c_rq c_hq c_cur c_alloc c_ppub c_pnon c_pwco c_nid c_npid]. f_equal; congruence. }
      apply (WFc_unexempt X _ HX2').
      - intros i o p HiX Hi Hp. exfalso. assert (Hi2 : getop s2 i = Some o) by (unfold getop, gop in *; cbn in Hi; congruence).
        rewrite (Hallunbound i o Hi2) in Hp. discriminate.
      - intros i o HiX Hi Hpr. exfalso. assert (Hi2 : getop s2 i = Some o) by (unfold getop, gop in *; cbn in Hi; congruence).
        destruct (Hunbound i o Hi2) as [[_ Hu]|HnX]; [congruence|contradiction]. }
    constructor; try congruence.
    - unfold W9, ss_ok in *. replace (s_ops s2') with (s_ops s2) by congruence. rewrite U4.
      replace (s_st s2') with (s_st (r_s r)) by congruence. replace (s_ss_count s2') with (s_ss_count (r_s r)) by congruence.
      apply (fs_w9 _ _ _ _ _ F).
    - replace (s_hq s2') with (s_hq (r_s r)) by congruence. rewrite R3. exact E1.
    - replace (s_tmo s2') with (s_tmo (r_s r)) by congruence. rewrite R6. exact E4.
    - replace (s_pwco s2') with (s_pwco (r_s r)) by congruence. rewrite R5. exact E5.
    - replace (s_settings s2') with (s_settings (r_s r)) by congruence. rewrite R8. reflexivity.
    - replace (s_cur s2') with (s_cur (r_s r)) by congruence. rewrite R4. reflexivity.
    - replace (s_enc s2') with (s_enc (r_s r)) by congruence. rewrite R11. reflexivity.
    - transitivity (comp_of (r_s r)); [unfold comp_of; congruence|].
      rewrite (rest_comp _ _ (fc_rest _ _ _ (fs_frame _ _ _ _ _ F))). reflexivity.
    - intros T.
      assert (TA : TR (r_s r)).
      { apply (TR_gen s _ T). intros i o1 Hi Hp. left.
        pose proof (fc_sub _ _ _ (fs_frame _ _ _ _ _ F) _ _ Hi) as Hi1. unfold getop in Hi1. cbn in Hi1.
        change (fold_left _ kept (s_ops s)) with (upd_all (set_dup false) kept (s_ops s)) in Hi1.
        destruct (lookup_upd_all (set_dup false) kept (s_ops s) i) as (n & Hn & _). rewrite Hn in Hi1.
        destruct (lookup i (s_ops s)) as [o0|] eqn:Ho0; [|discriminate]. inversion Hi1; subst o1.
        assert (Hp0 : op_pid o0 = None).
        { rewrite <- Hp. symmetry. apply (iter_pres (set_dup false) op_pid). intros a. apply set_dup_fields. }
        destruct (T i o0 Ho0 Hp0) as (Q & Uo). split; [|apply unb_ok_iter; exact Uo].
        unfold inQ. rewrite R1, R2, R3, R4, R5. cbn. destruct Q as [Q|[Q|[Q|[Q|Q]]]]; try tauto; [left; apply in_or_app; tauto|].
        left. apply in_or_app. right.
        assert (He : op_exists s i = true) by (unfold op_exists; rewrite Ho0; reflexivity).
        destruct (partition_cases cfg s (s_rq s) i Q He) as [Hk|Hk]; rewrite Epart in Hk; cbn [fst snd] in Hk; [exact Hk|].
        pose proof (fs_gone _ _ _ _ _ F i Hk) as Hg. congruence. }
      pose proof (UTA TA) as T2. apply (TR_queues s2); [congruence| |exact T2].
      unfold inQ. intros i Q _. replace (s_uq s2') with (s_uq s2) by congruence. replace (s_rq s2') with (s_rq s2) by congruence.
      replace (s_hq s2') with (s_hq s2) by congruence. replace (s_cur s2') with (s_cur s2) by congruence.
      replace (s_pwco s2') with (s_pwco s2) by congruence. exact Q.
    - intros i Hi. unfold getop. replace (s_ops s2') with (s_ops s2) by congruence. apply U6.
      eapply getop_none_frame; [apply F|]. apply Hs1s. exact Hi.
  Qed.

  Lemma apply_session_spec (s : state) sp :
    WFS s -> W9 cfg s -> s_st s = Connected ->
    s_hq s = [] -> s_ppub s = [] -> s_pnon s = [] -> s_tmo s = [] -> s_pwco s = [] ->
    (forall i, s_cur s = Some i -> getop s i = None) ->
    let r := apply_session cfg s sp in
    (forall site, r_out r <> Panic site) /\ WFS (r_s r) /\ W9 cfg (r_s r) /\ s_st (r_s r) = Connected /\
    s_settings (r_s r) = s_settings s /\ s_cur (r_s r) = s_cur s /\ s_enc (r_s r) = s_enc s /\
    (forall i, s_cur s = Some i -> getop (r_s r) i = None) /\ comp_of (r_s r) = comp_of s /\ (TR s -> TR (r_s r)).
  Proof.
    intros HW H9 Hst E1 E2 E3 E4 E5 Hcur. rewrite apply_session_unfold. cbv zeta.
    assert (Hmid : (forall site, r_out (sess_head s sp) <> Panic site) /\
                   mid_spec s (fold_left unbind (s_uq (r_s (sess_head s sp))) (r_s (sess_head s sp)))).
    { destruct sp.
      - cbn [sess_head pure r_s r_out]. split; [intros; discriminate|]. apply sess_mid_present; assumption.
      - apply sess_mid_absent; assumption. }
    destruct Hmid as (N1 & M). rewrite (nopanic_is_panic _ N1).
    set (r1 := sess_head s sp) in *. set (s2 := fold_left unbind (s_uq (r_s r1)) (r_s r1)) in *. clearbody s2.
    destruct M as [M1 M2 M3 M4 M5 M6 M7 M8 M9 M10 M11 M13 M14 M12].
    destruct (sess_tail_spec s2 (r_done r1) (r_out r1) M1 M3 M4 M5 M6 M7) as (T1 & T2 & T3 & T4 & T5).
    set (r := sess_tail s2 (r_done r1) (r_out r1)) in *. clearbody r.
    unfold sess_keep in T3. tuple_eqs T3.
    splits; try congruence; auto.
    - unfold W9, ss_ok in *. rewrite T4. replace (s_st (r_s r)) with (s_st s2) by congruence.
      replace (s_ss_count (r_s r)) with (s_ss_count s2) by congruence. exact M2.
    - intros i Hi. unfold getop. rewrite T4. apply M12. apply Hcur. exact Hi.
    - rewrite <- M13. unfold comp_of. congruence.
  Qed.
End Session2.
