(* C04, run level: the frame [quiet i] (DeliveryWireDefs.v) for every engine function that does not take part in the
   delivery of operation i: completions of other operations (release / fail_op / succeed_op and their sequences; the only
   premise is SvcTimeout.pid_consistent, implied by WFS), creation of internal operations, the packet handlers (a PUBREC
   only when it does not set the PUBREL slot of i), keep-alive, ack timeouts, write completion, submission of another
   operation.  [shrink] is the operation-independent form for the completion paths. *)
From GM Require Import Base.Prelude Base.Outcome Codec.Packets Codec.Settings Engine.Model
  EngineProofs.AssocLemmas EngineProofs.WFLemmas EngineProofs.WFDefs EngineProofs.IdsFrame EngineProofs.SvcTimeout
  EngineProofs.InboundSpec EngineProofs.HandshakeRunTrace EngineProofs.AliasRunLog EngineProofs.InboundLoop EngineProofs.DeliveryWireDefs.
From RecordUpdate Require Import RecordSet.
Import RecordSetNotations.
Open Scope N_scope.

(* the four component types are implicit in the engine functions, locally to this file *)
#[local] Arguments init {enc dec} _ {ores ires} _ _.
#[local] Arguments release {enc dec ores ires} _ _ _ _.
#[local] Arguments disconnect_completion {enc dec ores ires} _ _.
#[local] Arguments fail_op {enc dec ores ires} _ _ _ _.
#[local] Arguments ping_extension {enc dec ores ires} _ _.
#[local] Arguments succeed_op {enc dec ores ires} _ _ _ _.
#[local] Arguments fail_all {enc dec ores ires} _ _ _ _.
#[local] Arguments succeed_all {enc dec ores ires} _ _ _.
#[local] Arguments andthen {enc dec ores ires} _ _.
#[local] Arguments try_ {enc dec ores ires} _ _.
#[local] Arguments pure {enc dec ores ires} _.
#[local] Arguments create_operation {enc dec ores ires} _ _.
#[local] Arguments passes_now {enc dec ores ires} _ _ _.
#[local] Arguments user_event {enc dec ores ires} _ _ _ _.
#[local] Arguments create_connect {enc dec ores ires} _ _.
#[local] Arguments net_opened {enc dec} _ {ores ires} _ _ _.
#[local] Arguments op_exists {enc dec ores ires} _ _.
#[local] Arguments op_passes {enc dec ores ires} _ _ _.
#[local] Arguments partition_policy {enc dec ores ires} _ _ _.
#[local] Arguments closed_current {enc dec ores ires} _ _.
#[local] Arguments slow_start_init {enc dec ores ires} _ _.
#[local] Arguments update_retries {enc dec ores ires} _ _.
#[local] Arguments fail_exceeding {enc dec ores ires} _ _.
#[local] Arguments has_pubrel {enc dec ores ires} _ _.
#[local] Arguments net_closed_raw {enc dec ores ires} _ _.
#[local] Arguments net_closed {enc dec ores ires} _ _.
#[local] Arguments net_write_completion {enc dec ores ires} _ _.
#[local] Arguments acquire_free_pid {enc dec ores ires} _ _.
#[local] Arguments acquire_pid_for {enc dec ores ires} _ _.
#[local] Arguments unbind {enc dec ores ires} _ _.
#[local] Arguments passes_receive_max {enc dec ores ires} _ _.
#[local] Arguments throttled {enc dec ores ires} _ _.
#[local] Arguments has_pending_ack {enc dec ores ires} _.
#[local] Arguments dequeue {enc dec ores ires} _ _ _.
#[local] Arguments fully_written {enc dec ores ires} _ _.
#[local] Arguments service_keep_alive {enc dec ores ires} _ _ _.
#[local] Arguments process_ack_timeouts {enc dec ores ires} _ _ _.
#[local] Arguments halt_on_error {enc dec ores ires} _ _.
#[local] Arguments next_service_time {enc dec ores ires} _ _ _.
#[local] Arguments build_settings {enc dec ores ires} _ _ _.
#[local] Arguments apply_session {enc dec ores ires} _ _ _.
#[local] Arguments hres_of {enc dec ores ires} _ _.
#[local] Arguments pre_connack {enc dec ores ires} _.
#[local] Arguments sum_ss {enc dec ores ires} _.
#[local] Arguments handle_pingresp {enc dec ores ires} _.
#[local] Arguments handle_suback {enc dec ores ires} _ _ _.
#[local] Arguments handle_unsuback {enc dec ores ires} _ _ _.
#[local] Arguments publish_qos_of {enc dec ores ires} _ _.
#[local] Arguments handle_puback {enc dec ores ires} _ _ _.
#[local] Arguments handle_pubrec {enc dec ores ires} _ _ _.
#[local] Arguments handle_pubrel {enc dec ores ires} _ _.
#[local] Arguments handle_pubcomp {enc dec ores ires} _ _ _.
#[local] Arguments handle_publish {enc dec ores ires} _ _.
#[local] Arguments handle_disconnect {enc dec ores ires} _ _ _.
#[local] Arguments is_connect_op {enc dec ores ires} _ _.
#[local] Arguments connect_in_queue {enc dec ores ires} _.
#[local] Arguments reset {enc dec ores ires} _ _.
#[local] Arguments out_of_res {enc dec ores ires} _ _.
#[local] Arguments nst_queue {enc dec ores ires} _ _ _ _.
#[local] Arguments earliest_tmo {enc dec ores ires} _.
#[local] Arguments SeatStop {enc dec ores ires} _.
#[local] Arguments SeatContinue {enc dec ores ires} _ _.
#[local] Arguments SeatEncode {enc dec ores ires} _.

Section Frames.
  Context {enc dec ores ires : Type}.
  Notation state := (state enc dec ores ires).
  Notation res := (res enc dec ores ires).
  Notation pid_consistent := (SvcTimeout.pid_consistent enc dec ores ires).
  Variable cfg : config.
  Variable i : N.
  Notation quiet := (quiet (enc:=enc) (dec:=dec) (ores:=ores) (ires:=ires) i).

  Ltac splits := repeat match goal with |- _ /\ _ => split end.

  (* ---- constructors of the frame ---- *)
  Lemma quiet_fields (s s' : state) :
    s_ops s' = s_ops s -> s_ppub s' = s_ppub s -> s_cur s' = s_cur s -> s_rq s' = s_rq s -> s_next_id s' = s_next_id s ->
    (alive s' -> s_st s' = s_st s) -> quiet s s'.
  Proof.
    intros E1 E2 E3 E4 E5 E6. constructor; unfold getop; rewrite ?E1, ?E2, ?E3, ?E4, ?E5; try tauto; [|lia].
    intros o' H. left. exists o'. auto.
  Qed.

  (* the operation-independent frame of the completion paths: operations and pending publishes only disappear, a
     pending-publish entry disappears only with its operation *)
  Record shrink (s s' : state) : Prop := mkShrink {
    sh_ops : forall k o, lookup k (s_ops s') = Some o -> lookup k (s_ops s) = Some o;
    sh_sub : forall x, In x (s_ppub s') -> In x (s_ppub s);
    sh_keep : forall p k, In (p, k) (s_ppub s) -> lookup k (s_ops s') <> None -> In (p, k) (s_ppub s');
    sh_cur : s_cur s' = s_cur s; sh_rq : s_rq s' = s_rq s; sh_nid : s_next_id s' = s_next_id s;
    sh_st : alive s' -> s_st s' = s_st s }.

  Lemma shrink_refl s : shrink s s.
  Proof. constructor; auto. Qed.

  Lemma shrink_trans s1 s2 s3 : shrink s1 s2 -> shrink s2 s3 -> shrink s1 s3.
  Proof.
    intros [A1 A2 A3 A4 A5 A6 A7] [B1 B2 B3 B4 B5 B6 B7]. constructor; try congruence; auto.
    - intros p k Hin Hne. apply B3; [|exact Hne]. apply A3; [exact Hin|].
      destruct (lookup k (s_ops s3)) as [o|] eqn:E; [|congruence]. rewrite (B1 _ _ E). discriminate.
    - intros H3. rewrite (B7 H3). apply A7. unfold alive in *. rewrite <- (B7 H3). exact H3.
  Qed.

  Lemma shrink_pc s s' : shrink s s' -> pid_consistent s -> pid_consistent s'.
  Proof.
    intros [A1 A2 _ _ _ _ _] Hc p id Hin id' o' Hl Hp. eapply Hc; [apply A2; exact Hin|apply A1; exact Hl|exact Hp].
  Qed.

  Lemma shrink_quiet s s' : shrink s s' -> quiet s s'.
  Proof.
    intros [A1 A2 A3 A4 A5 A6 A7]. constructor; rewrite ?A4, ?A5, ?A6; try tauto; [| |lia].
    - intros o' H. left. exists o'. split; [apply A1; exact H|reflexivity].
    - intros Hne _. splits; try tauto. intros p. split; [apply A2|]. intros Hin. apply A3; assumption.
  Qed.

  Lemma shrink_fields (s s' : state) :
    s_ops s' = s_ops s -> s_ppub s' = s_ppub s -> s_cur s' = s_cur s -> s_rq s' = s_rq s -> s_next_id s' = s_next_id s ->
    (alive s' -> s_st s' = s_st s) -> shrink s s'.
  Proof. intros E1 E2 E3 E4 E5 E6. constructor; rewrite ?E1, ?E2; auto. Qed.

  (* ---- completions ---- *)
  Lemma release_shrink (s s1 : state) id o :
    pid_consistent s -> lookup id (s_ops s) = Some o -> release cfg s id o = Ok s1 -> shrink s s1.
  Proof.
    intros Hc Hl Hr. pose proof (release_ops_exact _ _ _ _ _ _ _ _ _ Hr) as Eo. pose proof (release_ppub _ _ _ _ _ _ _ _ _ Hr) as Ep.
    destruct (release_fields _ _ _ _ _ _ _ _ _ Hr) as [Ef Est]. unfold SvcTimeout.queue_fields in Ef.
    repeat (apply pair_equal_spec in Ef; destruct Ef as [Ef ?]).
    constructor; try congruence.
    - intros k o'. rewrite Eo. intros Hx. apply lookup_remove_inv in Hx. tauto.
    - intros x. rewrite Ep. destruct (op_pid o); [apply in_remove_values|auto].
    - intros p k Hin Hne. rewrite Ep. destruct (op_pid o) as [p0|] eqn:Epid; [|exact Hin].
      apply In_remove. split; [exact Hin|]. intros ->. rewrite Eo in Hne.
      assert (k = id) by (symmetry; eapply Hc; eassumption). subst k. rewrite lookup_remove_eq in Hne. congruence.
  Qed.

  Lemma disconnect_completion_shrink (s : state) o : shrink s (fst (disconnect_completion s o)).
  Proof.
    unfold disconnect_completion. destruct (is_disconnect (op_packet o)); [|apply shrink_refl].
    destruct (pstate_eqb (s_st s) PendingDisconnect); [|apply shrink_refl]. cbn [fst].
    apply shrink_fields; try reflexivity. unfold alive. cbn. intros [H|H]; discriminate.
  Qed.

  Lemma fail_op_shrink (s : state) id e : pid_consistent s -> shrink s (r_s (fail_op cfg s id e)).
  Proof.
    intros Hc. unfold fail_op. destruct (lookup id (s_ops s)) as [o|] eqn:El; [|apply shrink_refl].
    destruct (release cfg s id o) as [s1|k|site] eqn:Er; [|apply shrink_refl|apply shrink_refl].
    pose proof (release_shrink _ _ _ _ Hc El Er) as H1. pose proof (disconnect_completion_shrink s1 o) as H2.
    destruct (disconnect_completion s1 o) as [s2 r]. cbn [fst] in H2.
    assert (H : shrink s s2) by (eapply shrink_trans; eassumption).
    destruct r; [destruct (op_user o)|..]; exact H.
  Qed.

  Lemma ping_extension_shrink (s : state) o : shrink s (ping_extension s o).
  Proof.
    unfold ping_extension.
    destruct (match op_packet o with Subscribe _ | Unsubscribe _ => op_ext o | Publish pb => if pub_qos pb =? 0 then None else op_ext o | _ => None end);
      [|apply shrink_refl].
    destruct (s_settings s); [|apply shrink_refl]. destruct (s_next_ping s); [|apply shrink_refl].
    destruct (_ <? _); [|apply shrink_refl]. apply shrink_fields; reflexivity.
  Qed.

  Lemma succeed_op_shrink (s : state) id resp : pid_consistent s -> shrink s (r_s (succeed_op cfg s id resp)).
  Proof.
    intros Hc. unfold succeed_op. destruct (lookup id (s_ops s)) as [o|] eqn:El; [|apply shrink_refl].
    destruct (release cfg s id o) as [s1|k|site] eqn:Er; [|apply shrink_refl|apply shrink_refl].
    pose proof (release_shrink _ _ _ _ Hc El Er) as H1. pose proof (ping_extension_shrink s1 o) as H2.
    pose proof (disconnect_completion_shrink (ping_extension s1 o) o) as H3.
    destruct (disconnect_completion (ping_extension s1 o) o) as [s2 r]. cbn [fst] in H3.
    assert (H : shrink s s2) by (eapply shrink_trans; [exact H1|eapply shrink_trans; eassumption]).
    destruct r; [destruct (op_user o); [destruct (success_value o resp)|]|..]; exact H.
  Qed.

  Lemma fail_all_shrink ids : forall (s : state) e, pid_consistent s -> shrink s (r_s (fail_all cfg s ids e)).
  Proof.
    induction ids as [|id r IH]; intros s e Hc; cbn [fail_all]; [apply shrink_refl|].
    pose proof (fail_op_shrink s id e Hc) as H1. destruct (is_panic _); [exact H1|].
    pose proof (IH (r_s (fail_op cfg s id e)) e (shrink_pc _ _ H1 Hc)) as H2.
    destruct (is_panic _); cbn [r_s]; eapply shrink_trans; eassumption.
  Qed.

  Lemma succeed_all_shrink ids : forall (s : state), pid_consistent s -> shrink s (r_s (succeed_all cfg s ids)).
  Proof.
    induction ids as [|id r IH]; intros s Hc; cbn [succeed_all]; [apply shrink_refl|].
    pose proof (succeed_op_shrink s id None Hc) as H1. destruct (is_panic _); [exact H1|].
    pose proof (IH (r_s (succeed_op cfg s id None)) (shrink_pc _ _ H1 Hc)) as H2.
    destruct (is_panic _); cbn [r_s]; eapply shrink_trans; eassumption.
  Qed.

  Lemma pc_fields (s s' : state) : s_ops s' = s_ops s -> s_ppub s' = s_ppub s -> pid_consistent s -> pid_consistent s'.
  Proof. intros E1 E2 H. unfold SvcTimeout.pid_consistent. rewrite E1, E2. exact H. Qed.

  (* ---- creation of an operation ---- *)
  Lemma create_quiet (s : state) o0 :
    (s_next_id s = i -> pubq (op_packet o0) = false) -> quiet s (fst (create_operation s o0)).
  Proof.
    intros Hk. unfold create_operation. cbn [fst]. constructor; unfold getop; cbn; try tauto; [|lia].
    intros o'. rewrite lookup_app. destruct (lookup i (s_ops s)) as [o|]; [intros H; left; exists o'; split; [congruence|reflexivity]|].
    cbn. destruct (s_next_id s =? i) eqn:E; [|discriminate]. intros H. inversion H; subst o'. right.
    apply N.eqb_eq in E. split; [lia|apply Hk; exact E].
  Qed.

  Lemma create_pc (s : state) o0 : op_pid o0 = None -> pid_consistent s -> pid_consistent (fst (create_operation s o0)).
  Proof.
    intros Hp Hc p id Hin id' o'. unfold create_operation. cbn. rewrite lookup_app.
    destruct (lookup id' (s_ops s)) as [o|] eqn:E; [intros H1 H2; inversion H1; subst; eapply Hc; eassumption|].
    cbn. destruct (s_next_id s =? id'); [|discriminate]. intros H1 H2. inversion H1; subst. congruence.
  Qed.

  Lemma quiet_new (s s' : state) o0 :
    s_ops s' = s_ops s ++ [(s_next_id s, o0)] -> (s_next_id s = i -> pubq (op_packet o0) = false) ->
    s_ppub s' = s_ppub s -> s_cur s' = s_cur s -> s_rq s' = s_rq s -> s_next_id s' = s_next_id s + 1 ->
    (alive s' -> s_st s' = s_st s) -> quiet s s'.
  Proof.
    intros E1 Hk E2 E3 E4 E5 E6. constructor; unfold getop; rewrite ?E1, ?E2, ?E3, ?E4, ?E5; try tauto; [|lia].
    intros o'. rewrite lookup_app. destruct (lookup i (s_ops s)) as [o|]; [intros H; left; exists o'; split; [congruence|reflexivity]|].
    cbn. destruct (s_next_id s =? i) eqn:E; [|discriminate]. intros H. inversion H; subst o'. right.
    apply N.eqb_eq in E. split; [lia|apply Hk; exact E].
  Qed.

  Lemma pc_new (s s' : state) o0 :
    s_ops s' = s_ops s ++ [(s_next_id s, o0)] -> op_pid o0 = None -> s_ppub s' = s_ppub s -> pid_consistent s -> pid_consistent s'.
  Proof.
    intros E1 Hp E2 Hc p id Hin id' o'. rewrite E1, lookup_app. rewrite E2 in Hin.
    destruct (lookup id' (s_ops s)) as [o|] eqn:E; [intros H1 H2; inversion H1; subst; eapply Hc; eassumption|].
    cbn. destruct (s_next_id s =? id'); [|discriminate]. intros H1 H2. inversion H1; subst. congruence.
  Qed.

  (* an update of another operation *)
  Lemma quiet_upd (s s' : state) id (f : op -> op) :
    id <> i -> s_ops s' = update id f (s_ops s) -> s_ppub s' = s_ppub s -> s_cur s' = s_cur s -> s_rq s' = s_rq s ->
    s_next_id s' = s_next_id s -> (alive s' -> s_st s' = s_st s) -> quiet s s'.
  Proof.
    intros Hne E1 E2 E3 E4 E5 E6. constructor; unfold getop; rewrite ?E1, ?E2, ?E3, ?E4, ?E5; try tauto; [|lia].
    intros o'. rewrite lookup_update_neq by congruence. intros H. left. exists o'. auto.
  Qed.

  (* ---- the packet handlers ---- *)
  Notation handle_connack := (handle_connack enc dec ores).
  Notation handle_packet := (handle_packet enc dec ores).
  Notation sess_applied := (InboundLoop.sess_applied enc dec ores ires).
  Notation pubrel_target := (InboundLoop.pubrel_target enc dec ores ires).

  Lemma handle_pingresp_quiet (s : state) : quiet s (h_s (handle_pingresp s)).
  Proof.
    unfold handle_pingresp. destruct (s_st s); try apply quiet_refl; destruct (s_ping_to s); try apply quiet_refl;
      apply quiet_fields; reflexivity.
  Qed.

  Lemma handle_suback_quiet (s : state) a : pid_consistent s -> quiet s (h_s (handle_suback cfg s a)).
  Proof.
    intros Hc. unfold handle_suback. destruct (pre_connack s); [apply quiet_refl|].
    destruct (lookup (sa_pid a) (s_pnon s)) as [id|]; [|apply quiet_refl]. destruct (lookup id (s_ops s)) as [o|]; [|apply quiet_refl].
    destruct (op_packet o); try apply quiet_refl. destruct (negb _); [apply quiet_refl|]. apply shrink_quiet, succeed_op_shrink, Hc.
  Qed.

  Lemma handle_unsuback_quiet (s : state) a : pid_consistent s -> quiet s (h_s (handle_unsuback cfg s a)).
  Proof.
    intros Hc. unfold handle_unsuback. destruct (pre_connack s); [apply quiet_refl|].
    destruct (lookup (ua_pid a) (s_pnon s)) as [id|]; [|apply quiet_refl]. destruct (lookup id (s_ops s)) as [o|]; [|apply quiet_refl].
    destruct (op_packet o); try apply quiet_refl. destruct (version_eqb _ _); [apply shrink_quiet, succeed_op_shrink, Hc|].
    destruct (negb _); [apply quiet_refl|]. apply shrink_quiet, succeed_op_shrink, Hc.
  Qed.

  Lemma handle_puback_quiet (s : state) a : pid_consistent s -> quiet s (h_s (handle_puback cfg s a)).
  Proof.
    intros Hc. unfold handle_puback. destruct (pre_connack s); [apply quiet_refl|].
    destruct (lookup (ack_pid a) (s_ppub s)) as [id|]; [|apply quiet_refl].
    destruct (publish_qos_of s id) as [[|[| |]]|]; try apply quiet_refl. apply shrink_quiet, succeed_op_shrink, Hc.
  Qed.

  Lemma handle_pubcomp_quiet (s : state) a : pid_consistent s -> quiet s (h_s (handle_pubcomp cfg s a)).
  Proof.
    intros Hc. unfold handle_pubcomp. destruct (pre_connack s); [apply quiet_refl|].
    destruct (lookup (ack_pid a) (s_ppub s)) as [id|]; [|apply quiet_refl]. destruct (lookup id (s_ops s)) as [o|]; [|apply quiet_refl].
    destruct (op_packet o); try apply quiet_refl. destruct (_ =? 2); [|apply quiet_refl].
    destruct (op_pubrel o); [|apply quiet_refl]. apply shrink_quiet, succeed_op_shrink, Hc.
  Qed.

  Lemma handle_pubrec_quiet (s : state) a :
    pid_consistent s -> pubrel_target s a <> Some i -> quiet s (h_s (handle_pubrec cfg s a)).
  Proof.
    intros Hc. unfold handle_pubrec, InboundLoop.pubrel_target. destruct (pre_connack s); [intros _; apply quiet_refl|].
    destruct (lookup (ack_pid a) (s_ppub s)) as [id|]; [|intros _; apply quiet_refl].
    destruct (lookup id (s_ops s)) as [o|]; [|intros _; apply quiet_refl].
    destruct (op_packet o); try (intros _; apply quiet_refl). destruct (_ =? 2); [|intros _; apply quiet_refl].
    destruct (128 <=? ack_rc a); cbn [andb negb]; [intros _; apply shrink_quiet, succeed_op_shrink, Hc|].
    intros Hne. cbn [h_s]. eapply (quiet_upd s _ id); try reflexivity. congruence.
  Qed.

  Lemma handle_pubrel_quiet (s : state) a : quiet s (h_s (handle_pubrel s a)).
  Proof.
    unfold handle_pubrel. destruct (pre_connack s); [apply quiet_refl|]. unfold create_operation. cbn [h_s].
    eapply (quiet_new s _ (new_op (Pubcomp (default_ack (ack_pid a))) false None)); try reflexivity.
  Qed.

  Lemma handle_publish_quiet (s : state) pb : quiet s (h_s (handle_publish s pb)).
  Proof.
    unfold handle_publish. destruct (pre_connack s); [apply quiet_refl|]. destruct (pub_qos pb =? 0); [apply quiet_refl|].
    destruct (pub_qos pb =? 1); unfold create_operation; cbn [h_s].
    - eapply (quiet_new s _ (new_op (Puback (default_ack (pub_pid pb))) false None)); try reflexivity.
    - destruct (mem (pub_pid pb) (s_q2in s)); eapply (quiet_new s _ (new_op (Pubrec (default_ack (pub_pid pb))) false None)); try reflexivity.
  Qed.

  Lemma handle_disconnect_quiet (s : state) d : quiet s (h_s (handle_disconnect cfg s d)).
  Proof. unfold handle_disconnect. destruct (pre_connack s); [apply quiet_refl|]. destruct (version_eqb _ _); apply quiet_refl. Qed.

  Section Connack.
    Variable ores_reset : ores -> N -> ores.
    Variable ires_reset : ires -> ires.
    Variable v_in : option settings -> packet -> outcome unit.

    Lemma handle_connack_ignored (s : state) now c :
      sess_applied v_in s (Connack c) = false -> h_s (handle_connack ores_reset ires ires_reset v_in cfg s now c) = s.
    Proof.
      unfold InboundLoop.sess_applied, Model.handle_connack. destruct (pstate_eqb (s_st s) PendingConnack); cbn [negb andb]; [|reflexivity].
      destruct (ca_rc c =? 0); cbn [negb andb]; [|reflexivity]. destruct (v_in None (Connack c)); cbn; [discriminate|reflexivity|reflexivity].
    Qed.

    Theorem handle_packet_quiet (s : state) now p :
      pid_consistent s -> sess_applied v_in s p = false -> (forall a, p = Pubrec a -> pubrel_target s a <> Some i) ->
      quiet s (h_s (handle_packet ores_reset ires ires_reset v_in cfg s now p)).
    Proof.
      intros Hc Hs Hr. destruct p as [c|c|pb|a|a|a|a|sb|a|un|a| | |d|a]; cbn [Model.handle_packet h_s]; try apply quiet_refl.
      - rewrite (handle_connack_ignored s now c Hs). apply quiet_refl.
      - apply handle_publish_quiet.
      - apply handle_puback_quiet, Hc.
      - apply handle_pubrec_quiet; [exact Hc|apply Hr; reflexivity].
      - apply handle_pubrel_quiet.
      - apply handle_pubcomp_quiet, Hc.
      - apply handle_suback_quiet, Hc.
      - apply handle_unsuback_quiet, Hc.
      - apply handle_pingresp_quiet.
      - apply handle_disconnect_quiet.
    Qed.
  End Connack.

  (* ---- write completion, keep-alive, ack timeouts, submission ---- *)
  Lemma net_write_completion_quiet (s : state) : pid_consistent s -> quiet s (r_s (net_write_completion cfg s)).
  Proof.
    intros Hc. unfold net_write_completion. destruct (_ || _); [apply quiet_refl|].
    destruct (negb (s_pwc s)); [cbn [r_s]; apply quiet_fields; try reflexivity; unfold alive; cbn; intros [H|H]; discriminate|].
    eapply quiet_trans; [|apply shrink_quiet, succeed_all_shrink; eapply pc_fields; [| |exact Hc]; reflexivity].
    apply quiet_fields; reflexivity.
  Qed.

  Lemma service_keep_alive_quiet (s s1 : state) now : service_keep_alive cfg s now = Ok s1 -> quiet s s1.
  Proof.
    unfold service_keep_alive. destruct (s_ping_to s) as [pt|]; [destruct (pt <=? now); [discriminate|intros H; inversion H; apply quiet_refl]|].
    destruct (s_next_ping s) as [np|]; [|intros H; inversion H; apply quiet_refl].
    destruct (np <=? now); [|intros H; inversion H; apply quiet_refl].
    cbn [create_operation]. cbv zeta. cbn [s_settings]. destruct (s_settings _) as [st|]; [|discriminate].
    destruct (add_time 1493 now _) as [pt|k|site]; cbn [obind]; [|discriminate|discriminate].
    destruct (0 <? st_server_keep_alive st); intros H; inversion H; subst s1;
      eapply (quiet_new s _ (new_op Pingreq false None)); try reflexivity.
  Qed.

  Lemma process_ack_timeouts_quiet (s : state) now : pid_consistent s -> quiet s (r_s (process_ack_timeouts cfg s now)).
  Proof.
    intros Hc. unfold process_ack_timeouts.
    eapply quiet_trans; [|apply shrink_quiet, fail_all_shrink; eapply pc_fields; [| |exact Hc]; reflexivity].
    apply quiet_fields; reflexivity.
  Qed.

  Lemma user_event_quiet (s : state) p t :
    pid_consistent s -> (s_next_id s = i -> pubq p = false) -> quiet s (r_s (user_event cfg s p t)).
  Proof.
    intros Hc Hk. unfold user_event, create_operation.
    set (o0 := new_op p (negb (is_disconnect p)) (if is_disconnect p then None else t)).
    set (s1 := s <| s_next_id := s_next_id s + 1 |> <| s_ops := s_ops s ++ [(s_next_id s, o0)] |>).
    assert (Q1 : quiet s s1) by (eapply (quiet_new s s1 o0); try reflexivity; exact Hk).
    assert (C1 : pid_consistent s1) by (eapply (pc_new s s1 o0); try reflexivity; exact Hc).
    destruct (negb (passes_now cfg s1 p)).
    - cbn [r_s]. eapply quiet_trans; [exact Q1|apply shrink_quiet, fail_op_shrink, C1].
    - destruct (is_disconnect p); cbn [pure r_s]; (eapply quiet_trans; [exact Q1|apply quiet_fields; reflexivity]).
  Qed.

  Lemma halt_quiet (s : state) (out : outcome unit) : quiet s (halt_on_error s out).
  Proof.
    destruct out; cbn [halt_on_error]; [apply quiet_refl| |]; apply quiet_fields; try reflexivity; unfold alive; cbn; intros [H|H]; discriminate.
  Qed.
End Frames.
