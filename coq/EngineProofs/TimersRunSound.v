(* C18 run level: an AckTimeout completion is never early.  Under the assumption that the outbound validator
   never answers with the AckTimeout error kind (it is an abstract component here), every (i, AckTimeout)
   reported by a service call at time now in a reachable state comes from a due record: now >= w + T for the time
   w of a service call made after the last close / reset and the ack timeout T of the user operation i. *)
From GM Require Import Base.Prelude Base.Outcome Codec.Packets Codec.Settings Engine.Model
  EngineProofs.AssocLemmas EngineProofs.WFLemmas EngineProofs.SvcTimeout
  EngineProofs.WFDefs EngineProofs.WFCore EngineProofs.WFComplete EngineProofs.WFClose EngineProofs.WFClose2 EngineProofs.WFEvents
  EngineProofs.WFStep EngineProofs.WFProps
  EngineProofs.TimersRunDefs EngineProofs.TimersRunSvc EngineProofs.TimersRunData EngineProofs.TimersRunClose EngineProofs.TimersRun.
From RecordUpdate Require Import RecordSet.
Import RecordSetNotations.
Open Scope N_scope.

Section Sound.
  Variable enc : Type.
  Variable enc_reset : version -> packet -> resolution -> outcome enc.
  Variable enc_call : enc -> N -> N -> outcome (bytes * enc).
  Variable enc_done : enc -> bool.
  Variable dec : Type.
  Variable dec_init : dec.
  Variable dec_feed : version -> N -> dec -> bytes -> dec * list packet * outcome unit.
  Variable ores : Type.
  Variable ores_reset : ores -> N -> ores.
  Variable ores_resolve : ores -> option N -> bytes -> outcome (ores * resolution).
  Variable ires : Type.
  Variable ires_reset : ires -> ires.
  Variable ires_resolve : ires -> option N -> bytes -> outcome (ires * bytes).
  Variable v_out : option settings -> connect_opts -> resolution -> packet -> outcome unit.
  Variable v_in : option settings -> packet -> outcome unit.
  Variable cfg : config.

  Notation state := (Model.state enc dec ores ires).
  Notation init := (Model.init enc dec dec_init ores ires).
  Notation res := (Model.res enc dec ores ires).
  Notation release := (Model.release enc dec ores ires cfg).
  Notation disconnect_completion := (Model.disconnect_completion enc dec ores ires).
  Notation fail_op := (Model.fail_op enc dec ores ires cfg).
  Notation ping_extension := (Model.ping_extension enc dec ores ires).
  Notation succeed_op := (Model.succeed_op enc dec ores ires cfg).
  Notation fail_all := (Model.fail_all enc dec ores ires cfg).
  Notation succeed_all := (Model.succeed_all enc dec ores ires cfg).
  Notation andthen := (Model.andthen enc dec ores ires).
  Notation try_ := (Model.try_ enc dec ores ires).
  Notation pure := (Model.pure enc dec ores ires).
  Notation create_operation := (Model.create_operation enc dec ores ires).
  Notation passes_now := (Model.passes_now enc dec ores ires cfg).
  Notation user_event := (Model.user_event enc dec ores ires cfg).
  Notation create_connect := (Model.create_connect enc dec ores ires cfg).
  Notation net_opened := (Model.net_opened enc dec dec_init ores ires cfg).
  Notation op_exists := (Model.op_exists enc dec ores ires).
  Notation op_passes := (Model.op_passes enc dec ores ires cfg).
  Notation partition_policy := (Model.partition_policy enc dec ores ires cfg).
  Notation closed_current := (Model.closed_current enc dec ores ires cfg).
  Notation slow_start_init := (Model.slow_start_init enc dec ores ires cfg).
  Notation update_retries := (Model.update_retries enc dec ores ires cfg).
  Notation fail_exceeding := (Model.fail_exceeding enc dec ores ires cfg).
  Notation has_pubrel := (Model.has_pubrel enc dec ores ires).
  Notation net_closed_raw := (Model.net_closed_raw enc dec ores ires cfg).
  Notation net_closed := (Model.net_closed enc dec ores ires cfg).
  Notation net_write_completion := (Model.net_write_completion enc dec ores ires cfg).
  Notation acquire_free_pid := (Model.acquire_free_pid enc dec ores ires).
  Notation acquire_pid_for := (Model.acquire_pid_for enc dec ores ires).
  Notation unbind := (Model.unbind enc dec ores ires).
  Notation passes_receive_max := (Model.passes_receive_max enc dec ores ires).
  Notation throttled := (Model.throttled enc dec ores ires cfg).
  Notation has_pending_ack := (Model.has_pending_ack enc dec ores ires).
  Notation dequeue := (Model.dequeue enc dec ores ires cfg).
  Notation fully_written := (Model.fully_written enc dec ores ires).
  Notation sres := (Model.sres enc dec ores ires).
  Notation seat := (Model.seat enc dec ores ires).
  Notation seat_current := (Model.seat_current enc enc_reset dec ores ores_reset ores_resolve ires v_out cfg).
  Notation service_loop := (Model.service_loop enc enc_reset enc_call enc_done dec ores ores_reset ores_resolve ires v_out cfg).
  Notation service_queue := (Model.service_queue enc enc_reset enc_call enc_done dec ores ores_reset ores_resolve ires v_out cfg).
  Notation service_keep_alive := (Model.service_keep_alive enc dec ores ires cfg).
  Notation process_ack_timeouts := (Model.process_ack_timeouts enc dec ores ires cfg).
  Notation halt_on_error := (Model.halt_on_error enc dec ores ires).
  Notation service := (Model.service enc enc_reset enc_call enc_done dec ores ores_reset ores_resolve ires v_out cfg).
  Notation earliest_tmo := (Model.earliest_tmo enc dec ores ires).
  Notation nst_queue := (Model.nst_queue enc dec ores ires cfg).
  Notation next_service_time := (Model.next_service_time enc dec ores ires cfg).
  Notation build_settings := (Model.build_settings enc dec ores ires cfg).
  Notation apply_session := (Model.apply_session enc dec ores ires cfg).
  Notation hres := (Model.hres enc dec ores ires).
  Notation hres_of := (Model.hres_of enc dec ores ires).
  Notation pre_connack := (Model.pre_connack enc dec ores ires).
  Notation sum_ss := (Model.sum_ss enc dec ores ires).
  Notation handle_connack := (Model.handle_connack enc dec ores ores_reset ires ires_reset v_in cfg).
  Notation handle_pingresp := (Model.handle_pingresp enc dec ores ires).
  Notation handle_suback := (Model.handle_suback enc dec ores ires cfg).
  Notation handle_unsuback := (Model.handle_unsuback enc dec ores ires cfg).
  Notation publish_qos_of := (Model.publish_qos_of enc dec ores ires).
  Notation handle_puback := (Model.handle_puback enc dec ores ires cfg).
  Notation handle_pubrec := (Model.handle_pubrec enc dec ores ires cfg).
  Notation handle_pubrel := (Model.handle_pubrel enc dec ores ires).
  Notation handle_pubcomp := (Model.handle_pubcomp enc dec ores ires cfg).
  Notation handle_publish := (Model.handle_publish enc dec ores ires).
  Notation handle_disconnect := (Model.handle_disconnect enc dec ores ires cfg).
  Notation handle_packet := (Model.handle_packet enc dec ores ores_reset ires ires_reset v_in cfg).
  Notation handle_packets := (Model.handle_packets enc dec ores ores_reset ires ires_reset ires_resolve v_in cfg).
  Notation is_connect_op := (Model.is_connect_op enc dec ores ires).
  Notation connect_in_queue := (Model.connect_in_queue enc dec ores ires).
  Notation max_incoming_size := (Model.max_incoming_size cfg).
  Notation net_data := (Model.net_data enc dec dec_feed ores ores_reset ires ires_reset ires_resolve v_in cfg).
  Notation reset := (Model.reset enc dec ores ires cfg).
  Notation out_of_res := (Model.out_of_res enc dec ores ires).
  Notation step := (Model.step enc enc_reset enc_call enc_done dec dec_init dec_feed ores ores_reset ores_resolve ires ires_reset ires_resolve v_out v_in cfg).
  Notation run := (Model.run enc enc_reset enc_call enc_done dec dec_init dec_feed ores ores_reset ores_resolve ires ires_reset ires_resolve v_out v_in cfg).
  Notation SeatStop := (Model.SeatStop enc dec ores ires).
  Notation SeatContinue := (Model.SeatContinue enc dec ores ires).
  Notation SeatEncode := (Model.SeatEncode enc dec ores ires).
  Notation mkState := (Model.mkState enc dec ores ires).

  Ltac slia := try clear v_in; try clear v_out; try clear ires_resolve; try clear ires_reset; try clear ores_resolve;
    try clear ores_reset; try clear dec_feed; try clear dec_init; try clear enc_done; try clear enc_call; try clear enc_reset; lia.
  Ltac dm := match goal with
    | |- context [match ?x with _ => _ end] => destruct x eqn:?
    end.

  Ltac dmh H := match type of H with
    | context [match ?x with _ => _ end] => destruct x eqn:?
    end.
  Notation FR := (TimersRunDefs.FR enc dec ores ires).
  Notation NW := (TimersRunDefs.NW enc dec ores ires).
  Notation KR := (TimersRunDefs.KR enc dec ores ires).
  Notation ORi := (TimersRunDefs.OR enc dec ores ires isame TimersRunDefs.fresh_i).
  Notation ORt := (TimersRunDefs.OR enc dec ores ires tsame fresh_op).
  Notation fv := (TimersRunDefs.fv enc dec ores ires).
  Notation FR_refl := (TimersRunDefs.FR_refl enc dec ores ires).
  Notation FR_trans := (TimersRunDefs.FR_trans enc dec ores ires).
  Notation NW_refl := (TimersRunDefs.NW_refl enc dec ores ires).
  Notation NW_trans := (TimersRunDefs.NW_trans enc dec ores ires).
  Notation KR_refl := (TimersRunDefs.KR_refl enc dec ores ires).
  Notation KR_trans := (TimersRunDefs.KR_trans enc dec ores ires).
  Notation FR_view := (TimersRunDefs.FR_view enc dec ores ires).
  Notation KR_view := (TimersRunDefs.KR_view enc dec ores ires).
  Notation NW_view := (TimersRunDefs.NW_view enc dec ores ires).
  Notation FR_sub := (TimersRunDefs.FR_sub enc dec ores ires).
  Notation FR_from := (TimersRunDefs.FR_from enc dec ores ires).
  Notation FR_ops := (TimersRunDefs.FR_ops enc dec ores ires).
  Notation FR_update := (TimersRunDefs.FR_update enc dec ores ires).
  Notation FR_fold := (TimersRunDefs.FR_fold enc dec ores ires).
  Notation ORt_ORi := (TimersRunDefs.ORt_ORi enc dec ores ires).
  Notation ORi_refl := (TimersRunDefs.ORi_refl enc dec ores ires).
  Notation ORi_trans := (TimersRunDefs.ORi_trans enc dec ores ires).
  Notation create_FR := (TimersRunDefs.create_FR enc dec ores ires).
  Notation halt_on_error_FR := (TimersRunDefs.halt_on_error_FR enc dec ores ires).
  Notation unbind_FR := (TimersRunDefs.unbind_FR enc dec ores ires).
  Notation fold_unbind_FR := (TimersRunDefs.fold_unbind_FR enc dec ores ires).
  Notation andthen_R := (TimersRunDefs.andthen_R enc dec ores ires).
  Notation try_R := (TimersRunDefs.try_R enc dec ores ires).
  Notation fail_all_R := (TimersRunDefs.fail_all_R enc dec ores ires cfg).
  Notation fail_op_FR := (TimersRunDefs.fail_op_FR enc dec ores ires cfg).
  Notation succeed_op_FR := (TimersRunDefs.succeed_op_FR enc dec ores ires cfg).
  Notation fail_all_FR := (TimersRunDefs.fail_all_FR enc dec ores ires cfg).
  Notation succeed_all_FR := (TimersRunDefs.succeed_all_FR enc dec ores ires cfg).
  Notation user_event_FR := (TimersRunDefs.user_event_FR enc dec ores ires cfg).
  Notation net_opened_NW := (TimersRunDefs.net_opened_NW enc dec dec_init ores ires cfg).
  Notation net_write_completion_FR := (TimersRunDefs.net_write_completion_FR enc dec ores ires cfg).
  Notation service_keep_alive_NW := (TimersRunDefs.service_keep_alive_NW enc dec ores ires cfg).
  Notation seat_current_FR := (TimersRunDefs.seat_current_FR enc enc_reset dec ores ores_reset ores_resolve ires v_out cfg).
  Ltac splits := repeat match goal with |- _ /\ _ => split end.
  Ltac frv := apply FR_view; reflexivity.
  Notation service_queue_inv := (TimersRunSvc.service_queue_inv enc enc_reset enc_call enc_done dec ores ores_reset ores_resolve ires v_out cfg).
  Notation service_TM := (TimersRunSvc.service_TM enc enc_reset enc_call enc_done dec ores ores_reset ores_resolve ires v_out cfg).
  Notation service_ORi := (TimersRunSvc.service_ORi enc enc_reset enc_call enc_done dec ores ores_reset ores_resolve ires v_out cfg).
  Notation TM_FR := (TimersRunSvc.TM_FR enc dec ores ires).
  Notation TM_NW := (TimersRunSvc.TM_NW enc dec ores ires).
  Notation TM_weaken := (TimersRunSvc.TM_weaken enc dec ores ires).
  Notation TM_written := (TimersRunSvc.TM_written enc dec ores ires).
  Notation TM_timeouts := (TimersRunSvc.TM_timeouts enc dec ores ires cfg).
  Notation fully_written_shape := (TimersRunSvc.fully_written_shape enc dec ores ires).
  Notation fully_written_KR := (TimersRunSvc.fully_written_KR enc dec ores ires).
  Notation fully_written_ORi := (TimersRunSvc.fully_written_ORi enc dec ores ires).
  Notation process_ack_timeouts_KR := (TimersRunSvc.process_ack_timeouts_KR enc dec ores ires cfg).
  Notation process_ack_timeouts_ORi := (TimersRunSvc.process_ack_timeouts_ORi enc dec ores ires cfg).
  Notation net_data_inv := (TimersRunData.net_data_inv enc dec dec_feed ores ores_reset ires ires_reset ires_resolve v_in cfg).
  Notation net_data_TM := (TimersRunData.net_data_TM enc dec dec_feed ores ores_reset ires ires_reset ires_resolve v_in cfg).
  Notation net_data_ORi := (TimersRunData.net_data_ORi enc dec dec_feed ores ores_reset ires ires_reset ires_resolve v_in cfg).
  Notation net_data_KI := (TimersRunData.net_data_KI enc dec dec_feed ores ores_reset ires ires_reset ires_resolve v_in cfg).
  Notation handle_connack_NW := (TimersRunData.handle_connack_NW enc dec ores ores_reset ires ires_reset v_in cfg).
  Notation KI_connack := (TimersRunData.KI_connack enc dec ores ores_reset ires ires_reset v_in cfg).
  Notation KI_FR := (TimersRunData.KI_FR enc dec ores ires cfg).
  Notation KI_KR := (TimersRunData.KI_KR enc dec ores ires cfg).
  Notation KI_keep_alive := (TimersRunData.KI_keep_alive enc dec ores ires cfg).
  Notation apply_session_FR := (TimersRunData.apply_session_FR enc dec ores ires cfg).
  Notation ka_final := (TimersRunData.ka_final cfg).
  Notation close_intr := (TimersRunClose.close_intr enc dec ores ires cfg).
  Notation close_nid := (TimersRunClose.close_nid enc dec ores ires cfg).
  Notation close_phases := (TimersRunClose.close_phases enc dec ores ires cfg).
  Notation net_closed_ka := (TimersRunClose.net_closed_ka enc dec ores ires cfg).
  Notation net_closed_rs := (TimersRunClose.net_closed_rs enc dec ores ires cfg).
  Notation net_closed_done := (TimersRunClose.net_closed_done enc dec ores ires cfg).
  Notation PC2 := (TimersRunClose.PC2 enc dec ores ires).
  Notation R0 := (TimersRunClose.R0 enc dec ores ires).
  Notation R0_old := (TimersRunClose.R0_old enc dec ores ires).
  Notation WFS_PC2 := (TimersRunClose.WFS_PC2 enc dec ores ires).
  Notation fail_all_keeps := (TimersRunClose.fail_all_keeps enc dec ores ires cfg).
  Notation fail_all_R0 := (TimersRunClose.fail_all_R0 enc dec ores ires cfg).
  Notation fail_exceeding_R0 := (TimersRunClose.fail_exceeding_R0 enc dec ores ires cfg).
  Notation phaseA_R0 := (TimersRunClose.phaseA_R0 enc dec ores ires cfg).
  Notation phaseB_R0 := (TimersRunClose.phaseB_R0 enc dec ores ires cfg).
  Notation phaseC_R0 := (TimersRunClose.phaseC_R0 enc dec ores ires cfg).
  Notation pending_nodup := (TimersRunClose.pending_nodup enc dec ores ires).
  Variable HC : comps_ok enc enc_reset enc_call dec dec_init dec_feed ores ores_reset ores_resolve ires ires_reset ires_resolve v_out v_in.
  Hypothesis Hcfg : ok_cfg cfg.
  Notation WFX := (WFStep.WFX enc enc_reset enc_call dec dec_init dec_feed ores ores_reset ores_resolve ires ires_reset ires_resolve v_out v_in cfg HC).
  Notation step_spec := (WFStep.step_spec enc enc_reset enc_call enc_done dec dec_init dec_feed ores ores_reset ores_resolve ires ires_reset ires_resolve v_out v_in cfg HC Hcfg).
  Notation WF_init := (WFStep.WF_init enc enc_reset enc_call dec dec_init dec_feed ores ores_reset ores_resolve ires ires_reset ires_resolve v_out v_in cfg HC).
  Notation WFS := (@WFDefs.WFS enc dec ores ires).
  Notation TM := (TimersRunSvc.TM enc dec ores ires).
  Notation KI := (TimersRunData.KI enc dec ores ires cfg).
  Notation pending_ids := (SvcTimeout.pending_ids enc dec ores ires).
  Notation caught_inc := (TimersRunClose.caught_inc enc dec ores ires cfg).
  Notation reachable_inv := (TimersRun.reachable_inv enc enc_reset enc_call enc_done dec dec_init dec_feed ores ores_reset ores_resolve ires ires_reset ires_resolve v_out v_in cfg HC Hcfg).
  Notation fail_op_done := (TimersRunClose.fail_op_done enc dec ores ires cfg).

  (* completions of the write phase carry an error kind answered by the outbound validator *)
  Definition DQ (dn : dones) : Prop :=
    forall i c, In (i, c) dn -> exists k st co r p, c = CompErr k /\ v_out st co r p = Err k.

  Lemma seat_current_dq s m acc dn : DQ dn ->
    match seat_current s m acc dn with
    | Model.SeatStop _ _ _ _ r => DQ (sr_done r)
    | Model.SeatContinue _ _ _ _ _ dn' => DQ dn'
    | Model.SeatEncode _ _ _ _ _ => True
    end.
  Proof.
    intros Hd. unfold Model.seat_current. destruct (s_cur s); [exact I|].
    destruct (dequeue s m) as [s1 next]. destruct next as [id|]; [|exact Hd].
    destruct (negb (op_exists (s1 <| s_cur := Some id |>) id)); [exact Hd|].
    destruct (acquire_pid_for (s1 <| s_cur := Some id |>) id) as [s3| |]; [|exact Hd..].
    destruct (lookup id (s_ops s3)) as [o|]; [|exact Hd].
    match goal with |- context [match ?res with Ok _ => _ | Err _ => _ | Panic _ => _ end] => destruct res as [[s4 r]| |] end; [|exact Hd..].
    match goal with |- context [v_out ?a ?b ?c ?d] => destruct (v_out a b c d) as [[]|k|site] eqn:Ev end.
    - destruct (enc_reset _ _ _); [exact I|exact Hd..].
    - match goal with |- context [fail_op ?sx id k] => set (s4' := sx) end.
      assert (Hf : DQ (dn ++ r_done (fail_op s4' id k))).
      { intros i c Hin. apply in_app_or in Hin. destruct Hin as [Hin|Hin]; [exact (Hd i c Hin)|].
        apply fail_op_done in Hin. subst c. eauto 10. }
      destruct (r_out (fail_op s4' id k)); cbn [sr_done]; exact Hf.
    - exact Hd.
  Qed.

  Lemma service_loop_dq now fuel : forall s m cap fill acc dn, DQ dn -> DQ (sr_done (service_loop fuel s m now cap fill acc dn)).
  Proof.
    induction fuel as [|f IH]; intros s m cap fill acc dn Hd; cbn [Model.service_loop]; [exact Hd|].
    dm; [exact Hd|].
    pose proof (seat_current_dq s m acc dn Hd) as Hs.
    destruct (seat_current s m acc dn) as [r|s5 dn'|s5]; [exact Hs|apply IH; exact Hs|].
    destruct (s_cur s5); [|exact Hd].
    dm; [exact Hd|]. destruct (s_enc s5) as [e|]; [|exact Hd].
    destruct (enc_call e (fill + len acc) cap) as [[out e']| |]; [|exact Hd..].
    destruct (enc_done e'); [|exact Hd].
    destruct (fully_written (s5 <| s_enc := Some e' |>) now) as [s7| |]; [|exact Hd..].
    apply IH. exact Hd.
  Qed.

  Lemma service_queue_dq s m now cap fill : DQ (sr_done (service_queue s m now cap fill)).
  Proof.
    unfold Model.service_queue.
    match goal with |- context [service_loop ?f s m now cap fill [] []] =>
      pose proof (service_loop_dq now f s m cap fill [] [] (fun i c H => match H with end)) as H; set (r := service_loop f s m now cap fill [] []) in * end.
    destruct (sr_bytes r); exact H.
  Qed.

  Section NoAckTimeoutFromValidator.
    Hypothesis Hv : forall st co r p, v_out st co r p <> Err EAckTimeout.

    Theorem service_acktimeout_sound E s now cap fill i :
      TM E s -> In (i, CompErr EAckTimeout) (sr_done (service s now cap fill)) ->
      exists w T, w + T <= now /\ In w (now :: E) /\
        forall o, lookup i (s_ops s) = Some o -> op_user o = true /\ op_timeout o = Some T.
    Proof.
      intros HT0 Hin. assert (HT : TM (now :: E) s) by (eapply TM_weaken; [|exact HT0]; intros w Hw; right; exact Hw). clear HT0.
      assert (HQ : forall s1 m, TM (now :: E) s1 /\ ORi s s1 ->
                TM (now :: E) (sr_s (service_queue s1 m now cap fill)) /\ ORi s (sr_s (service_queue s1 m now cap fill))).
      { intros s1 m. apply (service_queue_inv (fun x => TM (now :: E) x /\ ORi s x) now).
        - intros a b Hf [A B]. split; [eapply TM_FR; eassumption|]. eapply ORi_trans; [exact B|]. apply ORt_ORi. destruct Hf as [[_ N _ _] _]. exact N.
        - intros a b Hw [A B]. split; [eapply TM_written; [left; reflexivity|exact Hw|exact A]|].
          eapply ORi_trans; [exact B|eapply fully_written_ORi; exact Hw]. }
      assert (Hfin : forall s1, TM (now :: E) s1 -> ORi s s1 -> In (i, CompErr EAckTimeout) (r_done (process_ack_timeouts s1 now)) ->
                exists w T, w + T <= now /\ In w (now :: E) /\ forall o, lookup i (s_ops s) = Some o -> op_user o = true /\ op_timeout o = Some T).
      { intros s1 H1 R1 Hd. destruct (ack_timeouts_sound enc dec ores ires cfg s1 now i _ Hd) as (_ & (t & Ht & Hle) & o1 & Ho1 & Hu1).
        destruct (tm_sound _ _ _ _ _ _ H1 i t Ht) as (Hlt & _ & w & T & -> & Hw & Hop). destruct (Hop o1 Ho1) as (_ & Hto & _).
        exists w, T. split; [exact Hle|]. split; [exact Hw|]. intros o Ho. destruct R1 as [_ R1].
        destruct (R1 _ _ Ho1) as [(o' & Ho' & Ru & Rt & _)|[[Hn _] _]].
        - assert (o' = o) by congruence. subst o'. split; congruence.
        - exfalso. pose proof (tm_lt _ _ _ _ _ _ HT i o Ho). slia. }
      assert (Hno : forall dn, DQ dn -> ~ In (i, CompErr EAckTimeout) dn).
      { intros dn Hd Hi. destruct (Hd _ _ Hi) as (k & st & co & r & p & Hc & Hk). inversion Hc; subst k. exact (Hv _ _ _ _ Hk). }
      revert Hin. unfold Model.service. cbn [sr_done]. destruct (s_st s).
      - intros [].
      - destruct (s_connack_to s) as [t|]; [|intros []]. destruct (t <=? now); [intros []|]. intros Hin. exfalso. exact (Hno _ (service_queue_dq s false now cap fill) Hin).
      - destruct (service_keep_alive s now) as [s1| |] eqn:Ek; [|intros []..].
        assert (H1 : TM (now :: E) s1 /\ ORi s s1).
        { pose proof (service_keep_alive_NW _ _ _ Ek) as N. split; [eapply TM_NW; eassumption|]. apply ORt_ORi. destruct N as [_ N _ _]. exact N. }
        destruct (HQ s1 true H1) as [Hq1 Hq2]. destruct (sr_out (service_queue s1 true now cap fill)); cbn [sr_done].
        + intros Hin. apply in_app_or in Hin. destruct Hin as [Hin|Hin]; [exfalso; exact (Hno _ (service_queue_dq s1 true now cap fill) Hin)|].
          eapply Hfin; eassumption.
        + intros Hin. exfalso. exact (Hno _ (service_queue_dq s1 true now cap fill) Hin).
        + intros Hin. exfalso. exact (Hno _ (service_queue_dq s1 true now cap fill) Hin).
      - cbn [sr_done]. apply Hfin; [exact HT|apply ORi_refl].
      - intros [].
    Qed.

    (* every reachable state: AckTimeout only for a user operation with an ack timeout T, at least T after a service
       call (a complete write) made after the last close / reset *)
    Theorem run_acktimeout_sound (o0 : ores) (i0 : ires) h : ores_inv HC o0 -> ires_inv HC i0 -> Forall ok_event h ->
      forall now cap fill i, In (i, CompErr EAckTimeout) (o_done (snd (step (fst (run (init o0 i0) h)) (EvService now cap fill)))) ->
        exists w T, w + T <= now /\ In w (now :: epoch h) /\
          forall o, lookup i (s_ops (fst (run (init o0 i0) h))) = Some o -> op_user o = true /\ op_timeout o = Some T.
    Proof.
      intros Ho0 Hi0 Hall now cap fill i Hin. destruct (reachable_inv o0 i0 h Ho0 Hi0 Hall) as (_ & HT & _).
      cbn [Model.step snd o_done] in Hin. eapply service_acktimeout_sound; eassumption.
    Qed.
  End NoAckTimeoutFromValidator.
End Sound.
