(* C18 run level: the AckTimeout completion itself.  An operation that is neither seated nor in an intake
   queue is not touched by the write phase of a service call, so when its record is due the call reports
   (i, AckTimeout) for it. *)
From GM Require Import Base.Prelude Base.Outcome Codec.Packets Codec.Settings Engine.Model
  EngineProofs.AssocLemmas EngineProofs.WFLemmas EngineProofs.SvcTimeout
  EngineProofs.WFDefs EngineProofs.WFCore EngineProofs.WFComplete EngineProofs.WFClose EngineProofs.WFClose2 EngineProofs.WFEvents
  EngineProofs.WFStep EngineProofs.WFProps
  EngineProofs.TimersRunDefs EngineProofs.TimersRunSvc EngineProofs.TimersRunData EngineProofs.TimersRunClose EngineProofs.TimersRun
  EngineProofs.TimersRunThms.
From RecordUpdate Require Import RecordSet.
Import RecordSetNotations.
Open Scope N_scope.

Section Fire.
  Variable enc : Type.
  Variable enc_reset : version -> packet -> resolution -> outcome enc.
  Variable enc_call : enc -> N -> N -> outcome (bytes * enc).
  Variable enc_done : enc -> bool.
  Variable dec : Type.
  Variable dec_init : dec.
  Variable dec_feed : version -> N -> dec -> bytes -> dec * list packet * outcome unit.
  Variable ores : Type.
  Variable ores_reset : ores -> N -> ores.
  Variable ores_resolve : ores -> option N -> bytes -> outcome (ores * resolution).
  Variable ires : Type.
  Variable ires_reset : ires -> ires.
  Variable ires_resolve : ires -> option N -> bytes -> outcome (ires * bytes).
  Variable v_out : option settings -> connect_opts -> resolution -> packet -> outcome unit.
  Variable v_in : option settings -> packet -> outcome unit.
  Variable cfg : config.

  Notation state := (Model.state enc dec ores ires).
  Notation init := (Model.init enc dec dec_init ores ires).
  Notation res := (Model.res enc dec ores ires).
  Notation release := (Model.release enc dec ores ires cfg).
  Notation disconnect_completion := (Model.disconnect_completion enc dec ores ires).
  Notation fail_op := (Model.fail_op enc dec ores ires cfg).
  Notation ping_extension := (Model.ping_extension enc dec ores ires).
  Notation succeed_op := (Model.succeed_op enc dec ores ires cfg).
  Notation fail_all := (Model.fail_all enc dec ores ires cfg).
  Notation succeed_all := (Model.succeed_all enc dec ores ires cfg).
  Notation andthen := (Model.andthen enc dec ores ires).
  Notation try_ := (Model.try_ enc dec ores ires).
  Notation pure := (Model.pure enc dec ores ires).
  Notation create_operation := (Model.create_operation enc dec ores ires).
  Notation passes_now := (Model.passes_now enc dec ores ires cfg).
  Notation user_event := (Model.user_event enc dec ores ires cfg).
  Notation create_connect := (Model.create_connect enc dec ores ires cfg).
  Notation net_opened := (Model.net_opened enc dec dec_init ores ires cfg).
  Notation op_exists := (Model.op_exists enc dec ores ires).
  Notation op_passes := (Model.op_passes enc dec ores ires cfg).
  Notation partition_policy := (Model.partition_policy enc dec ores ires cfg).
  Notation closed_current := (Model.closed_current enc dec ores ires cfg).
  Notation slow_start_init := (Model.slow_start_init enc dec ores ires cfg).
  Notation update_retries := (Model.update_retries enc dec ores ires cfg).
  Notation fail_exceeding := (Model.fail_exceeding enc dec ores ires cfg).
  Notation has_pubrel := (Model.has_pubrel enc dec ores ires).
  Notation net_closed_raw := (Model.net_closed_raw enc dec ores ires cfg).
  Notation net_closed := (Model.net_closed enc dec ores ires cfg).
  Notation net_write_completion := (Model.net_write_completion enc dec ores ires cfg).
  Notation acquire_free_pid := (Model.acquire_free_pid enc dec ores ires).
  Notation acquire_pid_for := (Model.acquire_pid_for enc dec ores ires).
  Notation unbind := (Model.unbind enc dec ores ires).
  Notation passes_receive_max := (Model.passes_receive_max enc dec ores ires).
  Notation throttled := (Model.throttled enc dec ores ires cfg).
  Notation has_pending_ack := (Model.has_pending_ack enc dec ores ires).
  Notation dequeue := (Model.dequeue enc dec ores ires cfg).
  Notation fully_written := (Model.fully_written enc dec ores ires).
  Notation sres := (Model.sres enc dec ores ires).
  Notation seat := (Model.seat enc dec ores ires).
  Notation seat_current := (Model.seat_current enc enc_reset dec ores ores_reset ores_resolve ires v_out cfg).
  Notation service_loop := (Model.service_loop enc enc_reset enc_call enc_done dec ores ores_reset ores_resolve ires v_out cfg).
  Notation service_queue := (Model.service_queue enc enc_reset enc_call enc_done dec ores ores_reset ores_resolve ires v_out cfg).
  Notation service_keep_alive := (Model.service_keep_alive enc dec ores ires cfg).
  Notation process_ack_timeouts := (Model.process_ack_timeouts enc dec ores ires cfg).
  Notation halt_on_error := (Model.halt_on_error enc dec ores ires).
  Notation service := (Model.service enc enc_reset enc_call enc_done dec ores ores_reset ores_resolve ires v_out cfg).
  Notation earliest_tmo := (Model.earliest_tmo enc dec ores ires).
  Notation nst_queue := (Model.nst_queue enc dec ores ires cfg).
  Notation next_service_time := (Model.next_service_time enc dec ores ires cfg).
  Notation build_settings := (Model.build_settings enc dec ores ires cfg).
  Notation apply_session := (Model.apply_session enc dec ores ires cfg).
  Notation hres := (Model.hres enc dec ores ires).
  Notation hres_of := (Model.hres_of enc dec ores ires).
  Notation pre_connack := (Model.pre_connack enc dec ores ires).
  Notation sum_ss := (Model.sum_ss enc dec ores ires).
  Notation handle_connack := (Model.handle_connack enc dec ores ores_reset ires ires_reset v_in cfg).
  Notation handle_pingresp := (Model.handle_pingresp enc dec ores ires).
  Notation handle_suback := (Model.handle_suback enc dec ores ires cfg).
  Notation handle_unsuback := (Model.handle_unsuback enc dec ores ires cfg).
  Notation publish_qos_of := (Model.publish_qos_of enc dec ores ires).
  Notation handle_puback := (Model.handle_puback enc dec ores ires cfg).
  Notation handle_pubrec := (Model.handle_pubrec enc dec ores ires cfg).
  Notation handle_pubrel := (Model.handle_pubrel enc dec ores ires).
  Notation handle_pubcomp := (Model.handle_pubcomp enc dec ores ires cfg).
  Notation handle_publish := (Model.handle_publish enc dec ores ires).
  Notation handle_disconnect := (Model.handle_disconnect enc dec ores ires cfg).
  Notation handle_packet := (Model.handle_packet enc dec ores ores_reset ires ires_reset v_in cfg).
  Notation handle_packets := (Model.handle_packets enc dec ores ores_reset ires ires_reset ires_resolve v_in cfg).
  Notation is_connect_op := (Model.is_connect_op enc dec ores ires).
  Notation connect_in_queue := (Model.connect_in_queue enc dec ores ires).
  Notation max_incoming_size := (Model.max_incoming_size cfg).
  Notation net_data := (Model.net_data enc dec dec_feed ores ores_reset ires ires_reset ires_resolve v_in cfg).
  Notation reset := (Model.reset enc dec ores ires cfg).
  Notation out_of_res := (Model.out_of_res enc dec ores ires).
  Notation step := (Model.step enc enc_reset enc_call enc_done dec dec_init dec_feed ores ores_reset ores_resolve ires ires_reset ires_resolve v_out v_in cfg).
  Notation run := (Model.run enc enc_reset enc_call enc_done dec dec_init dec_feed ores ores_reset ores_resolve ires ires_reset ires_resolve v_out v_in cfg).
  Notation SeatStop := (Model.SeatStop enc dec ores ires).
  Notation SeatContinue := (Model.SeatContinue enc dec ores ires).
  Notation SeatEncode := (Model.SeatEncode enc dec ores ires).
  Notation mkState := (Model.mkState enc dec ores ires).

  Ltac slia := try clear v_in; try clear v_out; try clear ires_resolve; try clear ires_reset; try clear ores_resolve;
    try clear ores_reset; try clear dec_feed; try clear dec_init; try clear enc_done; try clear enc_call; try clear enc_reset; lia.
  Ltac dm := match goal with
    | |- context [match ?x with _ => _ end] => destruct x eqn:?
    end.

  Ltac dmh H := match type of H with
    | context [match ?x with _ => _ end] => destruct x eqn:?
    end.
  Notation FR := (TimersRunDefs.FR enc dec ores ires).
  Notation NW := (TimersRunDefs.NW enc dec ores ires).
  Notation KR := (TimersRunDefs.KR enc dec ores ires).
  Notation ORi := (TimersRunDefs.OR enc dec ores ires isame TimersRunDefs.fresh_i).
  Notation ORt := (TimersRunDefs.OR enc dec ores ires tsame fresh_op).
  Notation fv := (TimersRunDefs.fv enc dec ores ires).
  Notation FR_refl := (TimersRunDefs.FR_refl enc dec ores ires).
  Notation FR_trans := (TimersRunDefs.FR_trans enc dec ores ires).
  Notation NW_refl := (TimersRunDefs.NW_refl enc dec ores ires).
  Notation NW_trans := (TimersRunDefs.NW_trans enc dec ores ires).
  Notation KR_refl := (TimersRunDefs.KR_refl enc dec ores ires).
  Notation KR_trans := (TimersRunDefs.KR_trans enc dec ores ires).
  Notation FR_view := (TimersRunDefs.FR_view enc dec ores ires).
  Notation KR_view := (TimersRunDefs.KR_view enc dec ores ires).
  Notation NW_view := (TimersRunDefs.NW_view enc dec ores ires).
  Notation FR_sub := (TimersRunDefs.FR_sub enc dec ores ires).
  Notation FR_from := (TimersRunDefs.FR_from enc dec ores ires).
  Notation FR_ops := (TimersRunDefs.FR_ops enc dec ores ires).
  Notation FR_update := (TimersRunDefs.FR_update enc dec ores ires).
  Notation FR_fold := (TimersRunDefs.FR_fold enc dec ores ires).
  Notation ORt_ORi := (TimersRunDefs.ORt_ORi enc dec ores ires).
  Notation ORi_refl := (TimersRunDefs.ORi_refl enc dec ores ires).
  Notation ORi_trans := (TimersRunDefs.ORi_trans enc dec ores ires).
  Notation create_FR := (TimersRunDefs.create_FR enc dec ores ires).
  Notation halt_on_error_FR := (TimersRunDefs.halt_on_error_FR enc dec ores ires).
  Notation unbind_FR := (TimersRunDefs.unbind_FR enc dec ores ires).
  Notation fold_unbind_FR := (TimersRunDefs.fold_unbind_FR enc dec ores ires).
  Notation andthen_R := (TimersRunDefs.andthen_R enc dec ores ires).
  Notation try_R := (TimersRunDefs.try_R enc dec ores ires).
  Notation fail_all_R := (TimersRunDefs.fail_all_R enc dec ores ires cfg).
  Notation fail_op_FR := (TimersRunDefs.fail_op_FR enc dec ores ires cfg).
  Notation succeed_op_FR := (TimersRunDefs.succeed_op_FR enc dec ores ires cfg).
  Notation fail_all_FR := (TimersRunDefs.fail_all_FR enc dec ores ires cfg).
  Notation succeed_all_FR := (TimersRunDefs.succeed_all_FR enc dec ores ires cfg).
  Notation user_event_FR := (TimersRunDefs.user_event_FR enc dec ores ires cfg).
  Notation net_opened_NW := (TimersRunDefs.net_opened_NW enc dec dec_init ores ires cfg).
  Notation net_write_completion_FR := (TimersRunDefs.net_write_completion_FR enc dec ores ires cfg).
  Notation service_keep_alive_NW := (TimersRunDefs.service_keep_alive_NW enc dec ores ires cfg).
  Notation seat_current_FR := (TimersRunDefs.seat_current_FR enc enc_reset dec ores ores_reset ores_resolve ires v_out cfg).
  Ltac splits := repeat match goal with |- _ /\ _ => split end.
  Ltac frv := apply FR_view; reflexivity.
  Notation service_queue_inv := (TimersRunSvc.service_queue_inv enc enc_reset enc_call enc_done dec ores ores_reset ores_resolve ires v_out cfg).
  Notation service_TM := (TimersRunSvc.service_TM enc enc_reset enc_call enc_done dec ores ores_reset ores_resolve ires v_out cfg).
  Notation service_ORi := (TimersRunSvc.service_ORi enc enc_reset enc_call enc_done dec ores ores_reset ores_resolve ires v_out cfg).
  Notation TM_FR := (TimersRunSvc.TM_FR enc dec ores ires).
  Notation TM_NW := (TimersRunSvc.TM_NW enc dec ores ires).
  Notation TM_weaken := (TimersRunSvc.TM_weaken enc dec ores ires).
  Notation TM_written := (TimersRunSvc.TM_written enc dec ores ires).
  Notation TM_timeouts := (TimersRunSvc.TM_timeouts enc dec ores ires cfg).
  Notation fully_written_shape := (TimersRunSvc.fully_written_shape enc dec ores ires).
  Notation fully_written_KR := (TimersRunSvc.fully_written_KR enc dec ores ires).
  Notation fully_written_ORi := (TimersRunSvc.fully_written_ORi enc dec ores ires).
  Notation process_ack_timeouts_KR := (TimersRunSvc.process_ack_timeouts_KR enc dec ores ires cfg).
  Notation process_ack_timeouts_ORi := (TimersRunSvc.process_ack_timeouts_ORi enc dec ores ires cfg).
  Notation net_data_inv := (TimersRunData.net_data_inv enc dec dec_feed ores ores_reset ires ires_reset ires_resolve v_in cfg).
  Notation net_data_TM := (TimersRunData.net_data_TM enc dec dec_feed ores ores_reset ires ires_reset ires_resolve v_in cfg).
  Notation net_data_ORi := (TimersRunData.net_data_ORi enc dec dec_feed ores ores_reset ires ires_reset ires_resolve v_in cfg).
  Notation net_data_KI := (TimersRunData.net_data_KI enc dec dec_feed ores ores_reset ires ires_reset ires_resolve v_in cfg).
  Notation handle_connack_NW := (TimersRunData.handle_connack_NW enc dec ores ores_reset ires ires_reset v_in cfg).
  Notation KI_connack := (TimersRunData.KI_connack enc dec ores ores_reset ires ires_reset v_in cfg).
  Notation KI_FR := (TimersRunData.KI_FR enc dec ores ires cfg).
  Notation KI_KR := (TimersRunData.KI_KR enc dec ores ires cfg).
  Notation KI_keep_alive := (TimersRunData.KI_keep_alive enc dec ores ires cfg).
  Notation apply_session_FR := (TimersRunData.apply_session_FR enc dec ores ires cfg).
  Notation ka_final := (TimersRunData.ka_final cfg).
  Notation close_intr := (TimersRunClose.close_intr enc dec ores ires cfg).
  Notation close_nid := (TimersRunClose.close_nid enc dec ores ires cfg).
  Notation close_phases := (TimersRunClose.close_phases enc dec ores ires cfg).
  Notation net_closed_ka := (TimersRunClose.net_closed_ka enc dec ores ires cfg).
  Notation net_closed_rs := (TimersRunClose.net_closed_rs enc dec ores ires cfg).
  Notation net_closed_done := (TimersRunClose.net_closed_done enc dec ores ires cfg).
  Notation PC2 := (TimersRunClose.PC2 enc dec ores ires).
  Notation R0 := (TimersRunClose.R0 enc dec ores ires).
  Notation R0_old := (TimersRunClose.R0_old enc dec ores ires).
  Notation WFS_PC2 := (TimersRunClose.WFS_PC2 enc dec ores ires).
  Notation fail_all_keeps := (TimersRunClose.fail_all_keeps enc dec ores ires cfg).
  Notation fail_all_R0 := (TimersRunClose.fail_all_R0 enc dec ores ires cfg).
  Notation fail_exceeding_R0 := (TimersRunClose.fail_exceeding_R0 enc dec ores ires cfg).
  Notation phaseA_R0 := (TimersRunClose.phaseA_R0 enc dec ores ires cfg).
  Notation phaseB_R0 := (TimersRunClose.phaseB_R0 enc dec ores ires cfg).
  Notation phaseC_R0 := (TimersRunClose.phaseC_R0 enc dec ores ires cfg).
  Notation pending_nodup := (TimersRunClose.pending_nodup enc dec ores ires).
  Variable HC : comps_ok enc enc_reset enc_call dec dec_init dec_feed ores ores_reset ores_resolve ires ires_reset ires_resolve v_out v_in.
  Hypothesis Hcfg : ok_cfg cfg.
  Notation WFX := (WFStep.WFX enc enc_reset enc_call dec dec_init dec_feed ores ores_reset ores_resolve ires ires_reset ires_resolve v_out v_in cfg HC).
  Notation step_spec := (WFStep.step_spec enc enc_reset enc_call enc_done dec dec_init dec_feed ores ores_reset ores_resolve ires ires_reset ires_resolve v_out v_in cfg HC Hcfg).
  Notation WF_init := (WFStep.WF_init enc enc_reset enc_call dec dec_init dec_feed ores ores_reset ores_resolve ires ires_reset ires_resolve v_out v_in cfg HC).
  Notation WFS := (@WFDefs.WFS enc dec ores ires).
  Notation TM := (TimersRunSvc.TM enc dec ores ires).
  Notation KI := (TimersRunData.KI enc dec ores ires cfg).
  Notation pending_ids := (SvcTimeout.pending_ids enc dec ores ires).
  Notation caught_inc := (TimersRunClose.caught_inc enc dec ores ires cfg).
  Notation reachable_inv := (TimersRun.reachable_inv enc enc_reset enc_call enc_done dec dec_init dec_feed ores ores_reset ores_resolve ires ires_reset ires_resolve v_out v_in cfg HC Hcfg).
  Notation run_armed := (TimersRunThms.run_armed enc enc_reset enc_call enc_done dec dec_init dec_feed ores ores_reset ores_resolve ires ires_reset ires_resolve v_out v_in cfg HC Hcfg).
  Notation queue_fields := (SvcTimeout.queue_fields enc dec ores ires).

  Section Untouched.
    Variable i : N.
    Variable o : op.

    (* operation i is the same [o], is not seated and is in no intake queue *)
    Definition UT (s : state) : Prop :=
      lookup i (s_ops s) = Some o /\ ~ In i (s_hq s) /\ ~ In i (s_rq s) /\ ~ In i (s_uq s) /\ s_cur s <> Some i.

    Lemma UT_view s s' : (s_ops s', s_hq s', s_rq s', s_uq s', s_cur s') = (s_ops s, s_hq s, s_rq s, s_uq s, s_cur s) -> UT s -> UT s'.
    Proof.
      intros H. apply pair_equal_spec in H. destruct H as [H V5]. apply pair_equal_spec in H. destruct H as [H V4].
      apply pair_equal_spec in H. destruct H as [H V3]. apply pair_equal_spec in H. destruct H as [V1 V2].
      unfold UT. rewrite V1, V2, V3, V4, V5. auto.
    Qed.

    Lemma fail_op_other s id e : id <> i -> lookup i (s_ops (r_s (fail_op s id e))) = lookup i (s_ops s).
    Proof.
      intros Hne. destruct (IdsHelpers.fail_op_spec enc dec ores ires cfg s id e) as [_ [[Eo _]|(o' & _ & Eo & _)]]; rewrite Eo; [reflexivity|].
      apply lookup_remove_neq. congruence.
    Qed.

    Lemma dequeue_shape s m :
      s_ops (fst (dequeue s m)) = s_ops s /\ s_cur (fst (dequeue s m)) = s_cur s /\
      (forall x, In x (s_hq (fst (dequeue s m))) -> In x (s_hq s)) /\ (forall x, In x (s_rq (fst (dequeue s m))) -> In x (s_rq s)) /\
      (forall x, In x (s_uq (fst (dequeue s m))) -> In x (s_uq s)) /\
      (forall id, snd (dequeue s m) = Some id -> In id (s_hq s) \/ In id (s_rq s) \/ In id (s_uq s)).
    Proof.
      unfold Model.dequeue. repeat dm; cbn [fst snd]; repeat split; try reflexivity; try (intros id Hid; discriminate Hid);
        try (intros x Hx; cbn in Hx; first [exact Hx | right; exact Hx | match goal with H : _ s = _ |- _ => rewrite H in Hx; first [exact Hx | right; exact Hx] end]);
        intros id Hid; inversion Hid; subst; first [cbn; tauto | match goal with H : _ s = _ :: _ |- _ => rewrite H; cbn; tauto end].
    Qed.

    Lemma dequeue_UT s m : UT s -> s_cur s = None ->
      UT (fst (dequeue s m)) /\ s_cur (fst (dequeue s m)) = None /\ forall id, snd (dequeue s m) = Some id -> id <> i.
    Proof.
      intros (A & B & C & D & E) Hc. destruct (dequeue_shape s m) as (S1 & S2 & S3 & S4 & S5 & S6).
      split; [|split].
      - unfold UT. rewrite S1, S2. repeat split; auto.
      - congruence.
      - intros id Hid ->. destruct (S6 i Hid) as [H|[H|H]]; auto.
    Qed.

    Lemma acquire_pid_for_other s id s' : acquire_pid_for s id = Ok s' -> id <> i ->
      lookup i (s_ops s') = lookup i (s_ops s) /\ (s_hq s', s_rq s', s_uq s', s_cur s') = (s_hq s, s_rq s, s_uq s, s_cur s).
    Proof.
      unfold Model.acquire_pid_for. destruct (lookup id (s_ops s)) as [o1|]; [|discriminate].
      destruct (op_pid o1); [intros H; inversion H; auto|]. destruct (negb (needs_pid (op_packet o1))); [intros H; inversion H; auto|].
      destruct (acquire_free_pid s id) as [[s1 pid]| |] eqn:Ea; cbn [obind]; try discriminate.
      assert (H1 : s_ops s1 = s_ops s /\ (s_hq s1, s_rq s1, s_uq s1, s_cur s1) = (s_hq s, s_rq s, s_uq s, s_cur s))
        by (revert Ea; unfold Model.acquire_free_pid; repeat dm; intros H; inversion H; subst; split; reflexivity).
      destruct H1 as [H1 H2]. destruct (with_pid pid (op_packet o1)); cbn [obind]; try discriminate.
      intros H Hne; inversion H; subst. cbn. rewrite H1. split; [apply lookup_update_neq; congruence|exact H2].
    Qed.

    Lemma seat_current_UT s m acc dn : UT s ->
      match seat_current s m acc dn with
      | Model.SeatStop _ _ _ _ r => UT (sr_s r)
      | Model.SeatContinue _ _ _ _ s5 _ => UT s5
      | Model.SeatEncode _ _ _ _ s5 => UT s5
      end.
    Proof.
      intros HU. unfold Model.seat_current. destruct (s_cur s) eqn:Ec; [exact HU|].
      destruct (dequeue_UT s m HU Ec) as (H1 & Hc1 & Hid). destruct (dequeue s m) as [s1 next]. cbn [fst snd] in *.
      destruct next as [id|]; [|exact H1]. specialize (Hid id eq_refl).
      assert (H2 : UT (s1 <| s_cur := Some id |>)).
      { destruct H1 as (A & B & C & D & E). unfold UT. cbn. repeat split; auto. intros H; inversion H; congruence. }
      destruct (negb (op_exists (s1 <| s_cur := Some id |>) id)).
      { destruct H1 as (A & B & C & D & E). unfold UT. cbn. repeat split; auto. discriminate. }
      destruct (acquire_pid_for (s1 <| s_cur := Some id |>) id) as [s3| |] eqn:Ea; [|exact H2..].
      destruct (acquire_pid_for_other _ _ _ Ea Hid) as [A3 B3].
      assert (H3 : UT s3).
      { destruct H2 as (A & B & C & D & E). apply pair_equal_spec in B3. destruct B3 as [B3 Bc].
        apply pair_equal_spec in B3. destruct B3 as [B3 Bu]. apply pair_equal_spec in B3. destruct B3 as [Bh Br].
        unfold UT. rewrite A3, Bh, Br, Bu, Bc. auto. }
      destruct (lookup id (s_ops s3)) as [o'|] eqn:El; [|exact H3].
      match goal with |- context [match ?res with Ok _ => _ | Err _ => _ | Panic _ => _ end] =>
        assert (Hres : forall s4 r, res = Ok (s4, r) -> (s_ops s4, s_hq s4, s_rq s4, s_uq s4, s_cur s4) = (s_ops s3, s_hq s3, s_rq s3, s_uq s3, s_cur s3));
        [|destruct res as [[s4 r]| |] eqn:Eres] end.
      { intros s4 r. unfold obind. repeat dm; intros H; inversion H; subst; reflexivity. }
      2,3: exact H3.
      assert (H4 : UT s4) by (eapply UT_view; [apply (Hres s4 r eq_refl)|exact H3]).
      match goal with |- context [v_out ?a ?b ?c ?d] => destruct (v_out a b c d) as [[]|k|site] eqn:Ev end.
      - destruct (enc_reset _ _ _); [|exact H4..]. eapply UT_view; [|exact H4]. reflexivity.
      - match goal with |- context [fail_op ?sx id k] => set (s4' := sx) end.
        assert (H4' : UT s4').
        { destruct H4 as (A & B & C & D & E). unfold s4', UT. destruct (r_alias r); cbn; repeat split; auto; discriminate. }
        assert (Hf : UT (r_s (fail_op s4' id k))).
        { destruct H4' as (A & B & C & D & E). pose proof (fail_op_fields enc dec ores ires cfg s4' id k) as F.
          unfold SvcTimeout.queue_fields in F. inversion F. unfold UT. rewrite (fail_op_other s4' id k Hid).
          repeat split; congruence. }
        destruct (r_out (fail_op s4' id k)); cbn [sr_s]; exact Hf.
      - exact H4.
    Qed.

    Lemma fully_written_UT s now s' : fully_written s now = Ok s' -> UT s -> UT s'.
    Proof.
      intros H (A & B & C & D & E). destruct (fully_written_shape s now s' H) as (id & o1 & Ec & El & A1 & _).
      assert (Hne : id <> i) by (intros ->; apply E; exact Ec).
      assert (Hq : (s_hq s', s_rq s', s_uq s') = (s_hq s, s_rq s, s_uq s) /\ s_cur s' = None).
      { revert H. unfold Model.fully_written. rewrite Ec, El.
        match goal with |- context [update id ?f (s_ops ?s1)] => set (s1v := s1); set (fu := f) end.
        assert (H1 : (s_hq s1v, s_rq s1v, s_uq s1v) = (s_hq s, s_rq s, s_uq s)) by (unfold s1v; repeat dm; reflexivity).
        destruct (if op_user o1 then op_timeout o1 else None) as [d|]; cbn [obind]; [destruct (IMAX <? now + d)|];
          intros H; inversion H; subst s'; cbn; split; auto. }
      destruct Hq as [Hq Hc]. apply pair_equal_spec in Hq. destruct Hq as [Hq Qu]. apply pair_equal_spec in Hq. destruct Hq as [Qh Qr].
      unfold UT. rewrite A1, Qh, Qr, Qu, Hc. repeat split; auto; [|discriminate]. rewrite lookup_update_neq by congruence. exact A.
    Qed.

    Lemma service_loop_UT now fuel : forall s m cap fill acc dn, UT s -> UT (sr_s (service_loop fuel s m now cap fill acc dn)).
    Proof.
      induction fuel as [|f IH]; intros s m cap fill acc dn HP; cbn [Model.service_loop]; [exact HP|].
      dm; [exact HP|].
      pose proof (seat_current_UT s m acc dn HP) as Hs.
      destruct (seat_current s m acc dn) as [r|s5 dn'|s5]; [exact Hs|apply IH; exact Hs|].
      destruct (s_cur s5); [|exact Hs].
      dm; [exact Hs|]. destruct (s_enc s5) as [e|]; [|exact Hs].
      destruct (enc_call e (fill + len acc) cap) as [[out e']| |]; [|exact Hs..].
      assert (H6 : UT (s5 <| s_enc := Some e' |>)) by (eapply UT_view; [|exact Hs]; reflexivity).
      destruct (enc_done e'); [|exact H6].
      destruct (fully_written (s5 <| s_enc := Some e' |>) now) as [s7| |] eqn:Ef; [|exact H6..].
      apply IH. eapply fully_written_UT; eassumption.
    Qed.

    Lemma service_queue_UT s m now cap fill : UT s -> UT (sr_s (service_queue s m now cap fill)).
    Proof.
      intros HP. unfold Model.service_queue.
      match goal with |- context [service_loop ?f s m now cap fill [] []] =>
        pose proof (service_loop_UT now f s m cap fill [] [] HP) as H; set (r := service_loop f s m now cap fill [] []) in * end.
      destruct (sr_bytes r); [exact H|]. cbn [sr_s]. eapply UT_view; [|exact H]. reflexivity.
    Qed.

    Lemma keep_alive_UT s now s1 : service_keep_alive s now = Ok s1 -> i < s_next_id s -> UT s -> UT s1.
    Proof.
      unfold Model.service_keep_alive. intros H Hlt HU. destruct (s_ping_to s); [destruct (_ <=? now); [discriminate|inversion H; subst; exact HU]|].
      destruct (s_next_ping s); [|inversion H; subst; exact HU]. destruct (_ <=? now); [|inversion H; subst; exact HU].
      cbn in H. destruct (s_settings s); [|discriminate]. unfold add_time in H. destruct (IMAX <? _); cbn [obind] in H; [discriminate|].
      destruct HU as (A & B & C & D & E).
      assert (G : forall x : state, s_ops x = s_ops s ++ [(s_next_id s, new_op Pingreq false None)] -> s_hq x = s_next_id s :: s_hq s ->
                s_rq x = s_rq s -> s_uq x = s_uq s -> s_cur x = s_cur s -> UT x).
      { intros x X1 X2 X3 X4 X5. unfold UT. rewrite X1, X2, X3, X4, X5, lookup_app, A. repeat split; auto.
        intros [Hx|Hx]; [slia|exact (B Hx)]. }
      destruct (0 <? _); inversion H; subst; apply G; reflexivity.
    Qed.

    (* the due record of an untouched operation produces its AckTimeout completion *)
    Theorem service_fires_acktimeout s now cap fill t :
      In (i, t) (s_tmo s) -> t <= now -> s_st s = Connected \/ s_st s = PendingDisconnect -> i < s_next_id s -> UT s -> completes o = true ->
      sr_out (service s now cap fill) = Ok tt -> In (i, CompErr EAckTimeout) (sr_done (service s now cap fill)).
    Proof.
      intros Hin Hle Hst Hlt HU Hco.
      assert (Hfire : forall s1, In (i, t) (s_tmo s1) -> UT s1 -> r_out (process_ack_timeouts s1 now) = Ok tt ->
                In (i, CompErr EAckTimeout) (r_done (process_ack_timeouts s1 now))).
      { intros s1 H1 (A & _) Ho. assert (Hp : is_panic (r_out (process_ack_timeouts s1 now)) = false) by (rewrite Ho; reflexivity).
        destruct (ack_timeouts_exact enc dec ores ires cfg s1 now Hp) as (_ & X2 & _). apply X2.
        split; [reflexivity|]. split; [exists t; auto|exists o; auto]. }
      assert (HQ : forall s1 m, In (i, t) (s_tmo s1) -> In (i, t) (s_tmo (sr_s (service_queue s1 m now cap fill)))).
      { intros s1 m. apply (service_queue_inv (fun x => In (i, t) (s_tmo x)) now).
        - intros a b [[N _ _ _] _] H. rewrite N. exact H.
        - intros a b Hw H. destruct (fully_written_shape a now b Hw) as (id & o1 & Ec & El & _).
          rewrite (deadline_armed enc dec ores ires a now b id o1 Hw Ec El). apply in_or_app. left. exact H. }
      unfold Model.service. cbn [sr_s sr_out sr_done]. destruct Hst as [Est|Est]; rewrite Est.
      - destruct (service_keep_alive s now) as [s1| |] eqn:Ek; cbn [sr_out sr_done]; try (intros Hx; discriminate Hx).
        assert (H1 : In (i, t) (s_tmo s1)) by (destruct (service_keep_alive_NW _ _ _ Ek) as [N _ _ _]; rewrite N; exact Hin).
        pose proof (keep_alive_UT _ _ _ Ek Hlt HU) as HU1. pose proof (service_queue_UT s1 true now cap fill HU1) as HUq.
        specialize (HQ s1 true H1). destruct (sr_out (service_queue s1 true now cap fill)) as [[]| |] eqn:Eq; cbn [sr_out sr_done]; try (rewrite Eq; intros Hx; discriminate Hx).
        intros Ho. apply in_or_app. right. apply Hfire; assumption.
      - cbn [sr_out sr_done]. intros Ho. apply Hfire; assumption.
    Qed.
  End Untouched.

  (* ---- every reachable state: the first successful service call at or after w + T reports AckTimeout for an
     operation awaiting its acknowledgement that is not seated / queued for a follow-up packet ---- *)
  Theorem run_timeout_acktimeout (o0 : ores) (i0 : ires) h : ores_inv HC o0 -> ires_inv HC i0 -> Forall ok_event h ->
    forall p i o T w now cap fill,
      In (p, i) (s_ppub (fst (run (init o0 i0) h))) \/ In (p, i) (s_pnon (fst (run (init o0 i0) h))) ->
      lookup i (s_ops (fst (run (init o0 i0) h))) = Some o ->
      op_user o = true -> op_timeout o = Some T -> op_ext o = Some w -> w + T <= IMAX -> w + T <= now ->
      ~ In i (s_hq (fst (run (init o0 i0) h))) -> ~ In i (s_rq (fst (run (init o0 i0) h))) -> ~ In i (s_uq (fst (run (init o0 i0) h))) ->
      s_cur (fst (run (init o0 i0) h)) <> Some i ->
      o_res (snd (step (fst (run (init o0 i0) h)) (EvService now cap fill))) = Ok tt ->
      In (i, CompErr EAckTimeout) (o_done (snd (step (fst (run (init o0 i0) h)) (EvService now cap fill)))).
  Proof.
    intros Ho0 Hi0 Hall p i o T w now cap fill Hin Hl Hu Ht He Hle Hdue Q1 Q2 Q3 Q4 Hok.
    pose proof (run_armed o0 i0 h Ho0 Hi0 Hall p i o T w Hin Hl Hu Ht He Hle) as Hrec.
    destruct (reachable_inv o0 i0 h Ho0 Hi0 Hall) as ([[HW HP] _] & HT & _).
    set (sR := fst (run (init o0 i0) h)) in *. cbn [Model.step fst snd o_res o_done] in *.
    apply (service_fires_acktimeout i o sR now cap fill (w + T)); auto.
    - unfold WFP in HP. destruct (s_st sR) eqn:Est; auto.
      + destruct HP as (P1 & P2 & _). rewrite P1, P2 in Hin. destruct Hin as [[]|[]].
      + destruct HP as (P1 & P2 & _). rewrite P1, P2 in Hin. destruct Hin as [[]|[]].
      + exfalso. revert Hok. unfold Model.service. rewrite Est. cbn. discriminate.
    - eapply (tm_lt _ _ _ _ _ _ HT). exact Hl.
    - unfold UT. auto.
    - unfold completes. rewrite Hu. cbn.
      destruct Hin as [Hin|Hin]; [destruct (w_ppub _ _ HW _ _ Hin) as (o' & Ho' & _ & Hk)|destruct (w_pnon _ _ HW _ _ Hin) as (o' & Ho' & _ & Hk)];
        unfold gop in Ho'; cbn in Ho'; assert (o' = o) by congruence; subst o'; destruct (op_packet o); cbn in Hk |- *; try discriminate; reflexivity.
  Qed.
End Fire.
