(* C17, engine level, corollary B: the outbound log of the CONCRETE resolvers (Alias/Outbound.v) against a
   reference SERVER-side alias table.  Pure reasoning about logs accepted by the reference machine of
   AliasRunLog.v: the resolver-level theorems (AliasProofs/OutboundP.v: run_check) say every resolution
   handed out is safe for a server that saw every earlier resolution; here the server sees only the
   PUBLISH packets that were actually handed to the encoder. *)
From GM Require Import Base.Prelude Base.Outcome Codec.Packets Codec.Settings Alias.Outbound AliasProofs.OutboundP
  Engine.Model EngineProofs.AliasRunLog.
Open Scope N_scope.

Notation gstO := (gst ores).
Notation gstepO := (gstep ores ores_reset ores_resolve).
Notation grunsO := (gruns ores ores_reset ores_resolve).

(* the resolver operations of a log *)
Definition aops_ev (e : oev) : list aop :=
  match e with
  | OConnack m | OReset m => [AReset m]
  | OResolve _ a t _ => [AResolve a t]
  | _ => []
  end.
Definition aops (l : list oev) : list aop := flat_map aops_ev l.

(* the server's table after a log: cleared by a CONNACK, updated by every PUBLISH handed to the encoder *)
Definition wstep (x : amap * N) (e : oev) : amap * N :=
  match e with
  | OConnack m => ([], m)
  | OEncode _ (Publish pb) r true => (server_apply (fst x) (pub_topic pb) r, snd x)
  | _ => x
  end.
Definition wtbl (x : amap * N) (l : list oev) : amap * N := fold_left wstep l x.

(* every PUBLISH handed to the encoder carries a resolution that is safe for that server *)
Fixpoint wire_ok (x : amap * N) (l : list oev) : Prop :=
  match l with
  | [] => True
  | e :: r =>
      match e with
      | OEncode _ (Publish pb) rs true => res_ok (fst x) (snd x) (pub_topic pb) rs = true
      | _ => True
      end /\ wire_ok (wstep x e) r
  end.

Definition sub (a b : amap) : Prop := forall k t, amap_get a k = Some t -> amap_get b k = Some t.

Lemma sub_apply a b t r : sub a b -> sub (server_apply a t r) (server_apply b t r).
Proof.
  unfold server_apply. intros H. destruct (r_alias r) as [al|]; [|exact H]. destruct (r_skip_topic r); [exact H|].
  intros k t'. rewrite !amap_get_insert. destruct (al =? k); [auto|apply H].
Qed.

Lemma res_ok_mono a b mx mx' t r : sub a b -> mx <= mx' -> res_ok a mx t r = true -> res_ok b mx' t r = true.
Proof.
  unfold res_ok. intros Hs Hm. destruct (r_alias r) as [al|]; [|auto]. intros H.
  apply andb_true_iff in H as [H1 H2]. apply andb_true_iff in H1 as [H0 H1].
  apply andb_true_iff. split; [apply andb_true_iff; split; [exact H0|lia]|].
  destruct (r_skip_topic r); [|reflexivity]. destruct (amap_get a al) as [t'|] eqn:E; [|discriminate].
  rewrite (Hs _ _ E). exact H2.
Qed.

(* the simulation invariant: [tbl] / [mxr] are the table and maximum of run_check, [x] the server's *)
Definition pend (ph : phase) (tbl : amap) (mxr : N) (x : amap * N) : Prop :=
  match ph with
  | PResolved _ _ t r => exists tbl0, sub tbl0 (fst x) /\ tbl = server_apply tbl0 t r /\ res_ok tbl0 mxr t r = true
  | PChecked _ (Publish pb) r _ => exists tbl0, sub tbl0 (fst x) /\ tbl = server_apply tbl0 (pub_topic pb) r /\
                                                res_ok tbl0 mxr (pub_topic pb) r = true
  | _ => sub tbl (fst x)
  end.

Definition sim_inv (g : gstO) (tbl : amap) (mxr : N) (x : amap * N) (live : bool) : Prop :=
  live = true -> pend (g_ph ores g) tbl mxr x /\ mxr <= snd x /\ snd x = g_cm ores g.

Theorem wire_sim : forall l (g g' : gstO) tbl mxr x live,
  grunsO g l g' -> run_check (g_ores ores g) tbl mxr (aops l) = true -> pcc live l ->
  sim_inv g tbl mxr x live -> wire_ok x l.
Proof.
  induction l as [|e l IH]; intros g g' tbl mxr x live HG HC HP HI; [exact I|].
  cbn [gruns AliasRunLog.gruns] in HG. destruct HG as (g1 & S1 & R1).
  assert (Hdead : forall tbl' mxr' x', sim_inv g1 tbl' mxr' x' false) by (intros ? ? ? H; discriminate).
  destruct e as [id|id|id|id a t res|id p r v|m|id k|id p r ok|id|m| | | ]; cbn [aops flat_map aops_ev app] in HC; cbn [wire_ok]; (split; [|]).
  all: try exact I.
  - (* OPick *) cbn in S1. destruct S1 as [E1 ->]. cbn [pcc breaks] in HP. eapply IH; [exact R1|exact HC|exact HP|].
    intros Hl. destruct (HI Hl) as (A & B & C). rewrite E1 in A. cbn in *. auto.
  - (* OGone *) cbn in S1. destruct S1 as [E1 ->]. cbn [pcc breaks] in HP. eapply IH; [exact R1|exact HC|exact HP|].
    intros Hl. destruct (HI Hl) as (A & B & C). rewrite E1 in A. cbn in *. auto.
  - (* OStall *) cbn in S1. destruct S1 as [E1 ->]. cbn [pcc breaks] in HP. eapply IH; [exact R1|exact HC|exact HP|apply Hdead].
  - (* OResolve *)
    cbn in S1. destruct S1 as (E1 & -> & ->). cbn [run_check] in HC.
    destruct (ores_resolve (g_ores ores g) a t) as [[o' r]|k|site] eqn:Er; [|discriminate..].
    apply andb_true_iff in HC as [HC1 HC2]. cbn [pcc breaks res_of] in HP.
    eapply IH; [exact R1|exact HC2|exact HP|].
    intros Hl. destruct (HI Hl) as (A & B & C). rewrite E1 in A. cbn in *. split; [|auto]. exists tbl. auto.
  - (* OValid *)
    cbn in S1. destruct S1 as [E1 ->].
    assert (HP' : pcc (match v with Panic _ => false | _ => live end) l).
    { cbn [pcc] in HP. destruct v; exact HP. }
    eapply IH; [exact R1|exact HC|exact HP'|].
    destruct v as [u|k|site]; [| |apply Hdead]; intros Hl; destruct (HI Hl) as (A & B & C); cbn [g_ph g_cm];
      (split; [|auto]); destruct p as [c|c|pb|a|a|a|a|sb|a|un|a| | |d|a];
      (lazymatch type of E1 with _ /\ _ => destruct E1 as [E1 _] | _ => idtac end); rewrite E1 in A; cbn in A |- *; exact A.
  - (* OReset *)
    cbn in S1. destruct S1 as (id & p & r & k & E1 & E2 & E3 & ->). cbn [run_check] in HC. cbn [pcc breaks] in HP.
    eapply IH; [exact R1|exact HC|exact HP|].
    intros Hl. destruct (HI Hl) as (A & B & C). cbn. split; [intros k0 t0 H0; discriminate|]. split; [|exact C].
    destruct E3 as [->| ->]; lia.
  - (* ORejected *)
    cbn in S1. destruct S1 as [E1 ->]. cbn [pcc breaks] in HP. eapply IH; [exact R1|exact HC|exact HP|].
    intros Hl. destruct (HI Hl) as (A & B & C). cbn. split; [|auto].
    destruct E1 as [E1|(p & r & E1 & E2)]; rewrite E1 in A; cbn in A; [exact A|].
    destruct p; try exact A. destruct A as (tbl0 & A1 & -> & _). unfold server_apply. rewrite E2. exact A1.
  - (* OEncode: the resolution handed to the encoder is safe for the server *)
    cbn in S1. destruct S1 as [E1 ->].
    destruct p as [c|c|pb|a|a|a|a|sb|a|un|a| | |d|a]; try exact I. destruct ok; [|exact I].
    cbn [pcc] in HP. destruct HP as [-> _]. destruct (HI eq_refl) as (A & B & C). rewrite E1 in A. cbn in A.
    destruct A as (tbl0 & A1 & _ & A3). eapply res_ok_mono; eauto.
  - (* OEncode: the rest *)
    cbn in S1. destruct S1 as [E1 ->].
    assert (Hgen : forall live', pcc live' l -> sim_inv (mkG ores (g_ores ores g) (PBusy id) (g_cm ores g)) tbl mxr (wstep x (OEncode id p r ok)) live' -> wire_ok (wstep x (OEncode id p r ok)) l).
    { intros live' P' I'. eapply IH; [exact R1|exact HC|exact P'|exact I']. }
    destruct p as [c|c|pb|a|a|a|a|sb|a|un|a| | |d|a]; destruct ok; cbn [pcc breaks] in HP;
      try (apply (Hgen false); [exact HP|apply Hdead]).
    all: try (apply (Hgen live); [exact HP|]; intros Hl; destruct (HI Hl) as (A & B & C); rewrite E1 in A; cbn in *; auto).
    destruct HP as [-> HP]. apply (Hgen true); [exact HP|]. intros _. destruct (HI eq_refl) as (A & B & C). rewrite E1 in A. cbn in A |- *.
    destruct A as (tbl0 & A1 & -> & A3). split; [apply sub_apply; exact A1|auto].
  - (* ODone *) cbn in S1. destruct S1 as [E1 ->]. cbn [pcc breaks] in HP. eapply IH; [exact R1|exact HC|exact HP|].
    intros Hl. destruct (HI Hl) as (A & B & C). rewrite E1 in A. cbn in *. auto.
  - (* OConnack *)
    cbn in S1. destruct S1 as [E1 ->]. cbn [run_check] in HC. cbn [pcc] in HP. eapply IH; [exact R1|exact HC|exact HP|].
    intros _. cbn. split; [|split; [lia|reflexivity]].
    destruct E1 as [E1|(id & E1)]; rewrite E1; cbn; intros k0 t0 H0; discriminate.
  - cbn in S1. destruct S1 as [_ ->]. cbn [pcc breaks] in HP. eapply IH; [exact R1|exact HC|exact HP|apply Hdead].
  - cbn in S1. destruct S1 as [_ ->]. cbn [pcc breaks] in HP. eapply IH; [exact R1|exact HC|exact HP|apply Hdead].
  - cbn in S1. destruct S1 as [_ ->]. cbn [pcc breaks] in HP. eapply IH; [exact R1|exact HC|exact HP|apply Hdead].
Qed.

(* ---- the statement spelled out ---- *)
Lemma wire_ok_at : forall l1 x e l2, wire_ok x (l1 ++ e :: l2) ->
  match e with
  | OEncode _ (Publish pb) rs true => res_ok (fst (wtbl x l1)) (snd (wtbl x l1)) (pub_topic pb) rs = true
  | _ => True
  end.
Proof.
  induction l1 as [|a l1 IH]; intros x e l2 H; cbn [app wire_ok] in H; destruct H as [H1 H2]; [exact H1|].
  cbn [wtbl fold_left]. exact (IH _ _ _ H2).
Qed.

Lemma wtbl_max l : forall x, snd (wtbl x l) = cmax (snd x) l.
Proof.
  induction l as [|e l IH]; intros x; [reflexivity|]. cbn [wtbl cmax fold_left]. fold (wtbl (wstep x e) l). fold (cmax (cmax_step (snd x) e) l).
  rewrite IH. f_equal. destruct e as [id|id|id|id a t res|id p r v|m|id k|id p r ok|id|m| | | ]; try reflexivity.
  destruct p; try reflexivity. destruct ok; reflexivity.
Qed.

(* since the PUBLISH that bound alias [a], no CONNACK was accepted and no PUBLISH rebound [a] *)
Definition quiet_ev (a : N) (e : oev) : Prop :=
  match e with
  | OConnack _ => False
  | OEncode _ (Publish _) r true => ~ (r_alias r = Some a /\ r_skip_topic r = false)
  | _ => True
  end.
Definition quiet (a : N) (l : list oev) : Prop := Forall (quiet_ev a) l.

Lemma wtbl_snoc x l e : wtbl x (l ++ [e]) = wstep (wtbl x l) e.
Proof. unfold wtbl. rewrite fold_left_app. reflexivity. Qed.

Lemma wtbl_get : forall l a t, amap_get (fst (wtbl ([], 0) l)) a = Some t ->
  exists la id pb r lb, l = la ++ OEncode id (Publish pb) r true :: lb /\
                        r_alias r = Some a /\ r_skip_topic r = false /\ pub_topic pb = t /\ quiet a lb.
Proof.
  induction l as [|e l IH] using rev_ind; intros a t H; [discriminate|].
  rewrite wtbl_snoc in H.
  assert (Hkeep : quiet_ev a e -> amap_get (fst (wtbl ([], 0) l)) a = Some t ->
            exists la id pb r lb, l ++ [e] = la ++ OEncode id (Publish pb) r true :: lb /\
                                  r_alias r = Some a /\ r_skip_topic r = false /\ pub_topic pb = t /\ quiet a lb).
  { intros Hq H0. destruct (IH a t H0) as (la & id & pb & r & lb & E & A1 & A2 & A3 & A4).
    exists la, id, pb, r, (lb ++ [e]). split; [rewrite E, <- app_assoc; reflexivity|]. split; [exact A1|]. split; [exact A2|].
    split; [exact A3|]. apply Forall_app. split; [exact A4|constructor; [exact Hq|constructor]]. }
  destruct e as [id|id|id|id a0 t0 res|id p r v|m|id k|id p r ok|id|m| | | ]; try (apply Hkeep; [exact I|exact H]).
  - destruct p as [c|c|pb|a1|a1|a1|a1|sb|a1|un|a1| | |d|a1]; try (apply Hkeep; [exact I|exact H]).
    destruct ok; [|apply Hkeep; [exact I|exact H]]. cbn [wstep fst] in H. unfold server_apply in H.
    destruct (r_alias r) as [al|] eqn:Ea; [|apply Hkeep; [cbn; rewrite Ea; intros [? _]; discriminate|exact H]].
    destruct (r_skip_topic r) eqn:Es; [apply Hkeep; [cbn; rewrite Es; intros [_ ?]; discriminate|exact H]|].
    rewrite amap_get_insert in H. destruct (al =? a) eqn:E.
    + apply N.eqb_eq in E. subst al. inversion H; subst t. exists l, id, pb, r, []. repeat split; auto. constructor.
    + apply Hkeep; [|exact H]. cbn. rewrite Ea. intros [E' _]. inversion E'; subst. rewrite N.eqb_refl in E. discriminate.
  - cbn in H. discriminate.
Qed.

(* Corollary B in words: in a log whose PUBLISH packets are all safe for the server ([wire_ok]), a PUBLISH
   handed to the encoder without an alias keeps its topic; with an alias, the alias is in 1..the Topic
   Alias Maximum of the last accepted CONNACK, and if the topic is omitted then an earlier PUBLISH handed to
   the encoder after that CONNACK carried this alias together with exactly this topic, and no PUBLISH in
   between rebound the alias *)
Theorem wire_explicit l : wire_ok ([], 0) l ->
  forall l1 id pb r l2, l = l1 ++ OEncode id (Publish pb) r true :: l2 ->
    match r_alias r with
    | None => r_skip_topic r = false
    | Some a =>
        1 <= a <= cmax 0 l1 /\
        (r_skip_topic r = true ->
         exists la id' pb' r' lb, l1 = la ++ OEncode id' (Publish pb') r' true :: lb /\
                                  r_alias r' = Some a /\ r_skip_topic r' = false /\ pub_topic pb' = pub_topic pb /\ quiet a lb)
    end.
Proof.
  intros H l1 id pb r l2 ->. pose proof (wire_ok_at _ _ _ _ H) as Hr. cbn in Hr. rewrite wtbl_max in Hr. cbn [snd] in Hr.
  unfold res_ok in Hr. destruct (r_alias r) as [a|]; [|destruct (r_skip_topic r); [discriminate|reflexivity]].
  apply andb_true_iff in Hr as [H1 H2]. apply andb_true_iff in H1 as [H0 H1]. split; [lia|].
  intros Es. rewrite Es in H2. destruct (amap_get (fst (wtbl ([], 0) l1)) a) as [t'|] eqn:Eg; [|discriminate].
  apply bytes_eqb_eq in H2. subst t'. exact (wtbl_get _ _ _ Eg).
Qed.

(* with a maximum of 0 (also: no CONNACK accepted yet) no alias is used *)
Corollary wire_no_alias_when_zero l : wire_ok ([], 0) l ->
  forall l1 id pb r l2, l = l1 ++ OEncode id (Publish pb) r true :: l2 -> cmax 0 l1 = 0 ->
    r_alias r = None /\ r_skip_topic r = false.
Proof.
  intros H l1 id pb r l2 E Hz. pose proof (wire_explicit l H l1 id pb r l2 E) as X.
  destruct (r_alias r) as [a|]; [destruct X as [X _]; lia|auto].
Qed.
