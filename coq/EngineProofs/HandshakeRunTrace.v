(* Seat traces: the service loop of Engine/Model.v instrumented with the list of operations it
   dequeues ("seats"), each tagged with the queue it came from.  [service_loop_t] returns the very
   result of [service_loop] (service_loop_t_fst) together with that list, so statements about the
   trace are statements about what the model's loop does.  WF-free facts about the trace: it is a
   legal priority-ordered draining of the three queues (the lifted form of C10_dequeue_priority).
   Used by HandshakeRun*.v (C07) and OrderRun*.v (C10). *)
From GM Require Import Base.Prelude Base.Outcome Codec.Packets Codec.Settings Engine.Model
  EngineProofs.AssocLemmas.
From RecordUpdate Require Import RecordSet.
Import RecordSetNotations.
Open Scope N_scope.
#[local] Set Default Proof Using "Type".


(* the four component types are implicit in the engine functions, locally to this file *)
#[local] Arguments init {enc dec} _ {ores ires} _ _.
#[local] Arguments release {enc dec ores ires} _ _ _ _.
#[local] Arguments disconnect_completion {enc dec ores ires} _ _.
#[local] Arguments fail_op {enc dec ores ires} _ _ _ _.
#[local] Arguments ping_extension {enc dec ores ires} _ _.
#[local] Arguments succeed_op {enc dec ores ires} _ _ _ _.
#[local] Arguments fail_all {enc dec ores ires} _ _ _ _.
#[local] Arguments succeed_all {enc dec ores ires} _ _ _.
#[local] Arguments andthen {enc dec ores ires} _ _.
#[local] Arguments try_ {enc dec ores ires} _ _.
#[local] Arguments pure {enc dec ores ires} _.
#[local] Arguments create_operation {enc dec ores ires} _ _.
#[local] Arguments passes_now {enc dec ores ires} _ _ _.
#[local] Arguments user_event {enc dec ores ires} _ _ _ _.
#[local] Arguments create_connect {enc dec ores ires} _ _.
#[local] Arguments net_opened {enc dec} _ {ores ires} _ _ _.
#[local] Arguments op_exists {enc dec ores ires} _ _.
#[local] Arguments op_passes {enc dec ores ires} _ _ _.
#[local] Arguments partition_policy {enc dec ores ires} _ _ _.
#[local] Arguments closed_current {enc dec ores ires} _ _.
#[local] Arguments slow_start_init {enc dec ores ires} _ _.
#[local] Arguments update_retries {enc dec ores ires} _ _.
#[local] Arguments fail_exceeding {enc dec ores ires} _ _.
#[local] Arguments has_pubrel {enc dec ores ires} _ _.
#[local] Arguments net_closed_raw {enc dec ores ires} _ _.
#[local] Arguments net_closed {enc dec ores ires} _ _.
#[local] Arguments net_write_completion {enc dec ores ires} _ _.
#[local] Arguments acquire_free_pid {enc dec ores ires} _ _.
#[local] Arguments acquire_pid_for {enc dec ores ires} _ _.
#[local] Arguments unbind {enc dec ores ires} _ _.
#[local] Arguments passes_receive_max {enc dec ores ires} _ _.
#[local] Arguments throttled {enc dec ores ires} _ _.
#[local] Arguments has_pending_ack {enc dec ores ires} _.
#[local] Arguments dequeue {enc dec ores ires} _ _ _.
#[local] Arguments fully_written {enc dec ores ires} _ _.
#[local] Arguments service_keep_alive {enc dec ores ires} _ _ _.
#[local] Arguments process_ack_timeouts {enc dec ores ires} _ _ _.
#[local] Arguments halt_on_error {enc dec ores ires} _ _.
#[local] Arguments next_service_time {enc dec ores ires} _ _ _.
#[local] Arguments build_settings {enc dec ores ires} _ _ _.
#[local] Arguments apply_session {enc dec ores ires} _ _ _.
#[local] Arguments hres_of {enc dec ores ires} _ _.
#[local] Arguments pre_connack {enc dec ores ires} _.
#[local] Arguments sum_ss {enc dec ores ires} _.
#[local] Arguments handle_pingresp {enc dec ores ires} _.
#[local] Arguments handle_suback {enc dec ores ires} _ _ _.
#[local] Arguments handle_unsuback {enc dec ores ires} _ _ _.
#[local] Arguments publish_qos_of {enc dec ores ires} _ _.
#[local] Arguments handle_puback {enc dec ores ires} _ _ _.
#[local] Arguments handle_pubrec {enc dec ores ires} _ _ _.
#[local] Arguments handle_pubrel {enc dec ores ires} _ _.
#[local] Arguments handle_pubcomp {enc dec ores ires} _ _ _.
#[local] Arguments handle_publish {enc dec ores ires} _ _.
#[local] Arguments handle_disconnect {enc dec ores ires} _ _ _.
#[local] Arguments is_connect_op {enc dec ores ires} _ _.
#[local] Arguments connect_in_queue {enc dec ores ires} _.
#[local] Arguments reset {enc dec ores ires} _ _.
#[local] Arguments out_of_res {enc dec ores ires} _ _.
#[local] Arguments nst_queue {enc dec ores ires} _ _ _ _.
#[local] Arguments earliest_tmo {enc dec ores ires} _.
#[local] Arguments SeatStop {enc dec ores ires} _.
#[local] Arguments SeatContinue {enc dec ores ires} _ _.
#[local] Arguments SeatEncode {enc dec ores ires} _.


Inductive qsrc := QH | QR | QU.
Definition seat_ev : Type := (qsrc * N)%type.

(* the trace is a legal draining of the three queues: a seat takes the head of the high-priority
   queue; the head of the resubmit queue only when the high-priority queue is empty; the head of
   the user queue only when both are empty.  The last three arguments are what is left. *)
Inductive seats : list N -> list N -> list N -> list seat_ev -> list N -> list N -> list N -> Prop :=
| seats_nil h r u : seats h r u [] h r u
| seats_h i h r u t h' r' u' : seats h r u t h' r' u' -> seats (i :: h) r u ((QH, i) :: t) h' r' u'
| seats_r i r u t h' r' u' : seats [] r u t h' r' u' -> seats [] (i :: r) u ((QR, i) :: t) h' r' u'
| seats_u i u t h' r' u' : seats [] [] u t h' r' u' -> seats [] [] (i :: u) ((QU, i) :: t) h' r' u'.

Definition qsrc_eqb (a b : qsrc) : bool :=
  match a, b with QH, QH | QR, QR | QU, QU => true | _, _ => false end.
Definition ids_of (q : qsrc) (t : list seat_ev) : list N := map snd (filter (fun x => qsrc_eqb (fst x) q) t).

Lemma seats_prefix h r u t h' r' u' :
  seats h r u t h' r' u' -> h = ids_of QH t ++ h' /\ r = ids_of QR t ++ r' /\ u = ids_of QU t ++ u'.
Proof.
  induction 1 as [| ? ? ? ? ? ? ? ? _ (A & B & C) | ? ? ? ? ? ? ? _ (A & B & C) | ? ? ? ? ? ? _ (A & B & C)];
    unfold ids_of in *; cbn; repeat split; congruence.
Qed.

(* nothing is seated from the user queue before the resubmit queue is empty, nor from either
   before the high-priority queue is empty *)
Lemma seats_priority h r u t h' r' u' :
  seats h r u t h' r' u' ->
  forall t1 q i t2, t = t1 ++ (q, i) :: t2 ->
    match q with
    | QH => True
    | QR => ids_of QH t1 = h /\ ids_of QH t2 = []
    | QU => ids_of QH t1 = h /\ ids_of QR t1 = r /\ ids_of QH t2 = [] /\ ids_of QR t2 = []
    end.
Proof.
  induction 1 as [| i h r u t h' r' u' Hs IH | i r u t h' r' u' Hs IH | i u t h' r' u' Hs IH]; intros t1 q j t2 E.
  - destruct t1; discriminate.
  - destruct t1 as [|x t1]; cbn in E; inversion E; subst; [exact I|].
    specialize (IH t1 q j t2 eq_refl). destruct q; [exact I| |]; unfold ids_of in *; cbn; intuition congruence.
  - destruct (seats_prefix _ _ _ _ _ _ _ Hs) as (A & B & C).
    destruct t1 as [|x t1]; cbn in E; inversion E; subst.
    + split; [reflexivity|]. symmetry in A. apply app_eq_nil in A. tauto.
    + specialize (IH t1 q j t2 eq_refl). destruct q; [exact I| |]; unfold ids_of in *; cbn; intuition congruence.
  - destruct (seats_prefix _ _ _ _ _ _ _ Hs) as (A & B & C).
    destruct t1 as [|x t1]; cbn in E; inversion E; subst.
    + symmetry in A, B. apply app_eq_nil in A. apply app_eq_nil in B. unfold ids_of in *. cbn. tauto.
    + specialize (IH t1 q j t2 eq_refl). destruct q; [exact I| |]; unfold ids_of in *; cbn; intuition congruence.
Qed.

Section Trace.
  Variable enc : Type.
  Variable enc_reset : version -> packet -> resolution -> outcome enc.
  Variable enc_call : enc -> N -> N -> outcome (bytes * enc).
  Variable enc_done : enc -> bool.
  Variable dec : Type.
  Variable ores : Type.
  Variable ores_reset : ores -> N -> ores.
  Variable ores_resolve : ores -> option N -> bytes -> outcome (ores * resolution).
  Variable ires : Type.
  Variable v_out : option settings -> connect_opts -> resolution -> packet -> outcome unit.
  Variable cfg : config.

  Notation state := (state enc dec ores ires).
  Notation sres := (sres enc dec ores ires).
  Notation seat_current := (seat_current enc enc_reset dec ores ores_reset ores_resolve ires v_out cfg).
  Notation service_loop := (service_loop enc enc_reset enc_call enc_done dec ores ores_reset ores_resolve ires v_out cfg).
  Notation service_queue := (service_queue enc enc_reset enc_call enc_done dec ores ores_reset ores_resolve ires v_out cfg).
  Notation service := (service enc enc_reset enc_call enc_done dec ores ores_reset ores_resolve ires v_out cfg).

  (* which queue [dequeue] takes from, and which operation *)
  Definition dequeue_src (s : state) (m : bool) : option seat_ev :=
    if s_pwc s then None else
    match s_hq s with
    | id :: _ => Some (QH, id)
    | [] =>
        if negb m then None else
        if throttled cfg s && has_pending_ack s then None else
        match s_rq s with
        | id :: _ => if passes_receive_max s id then Some (QR, id) else None
        | [] => match s_uq s with
                | id :: _ => if passes_receive_max s id then Some (QU, id) else None
                | [] => None
                end
        end
    end.

  Lemma dequeue_src_id (s : state) m : option_map snd (dequeue_src s m) = snd (dequeue cfg s m).
  Proof.
    unfold dequeue_src, dequeue. destruct (s_pwc s); [reflexivity|]. destruct (s_hq s); [|reflexivity].
    destruct (negb m); [reflexivity|]. destruct (throttled cfg s && has_pending_ack s); [reflexivity|].
    destruct (s_rq s) as [|a r]; [destruct (s_uq s) as [|a r]; [reflexivity|]|]; destruct (passes_receive_max s a); reflexivity.
  Qed.

  Definition qs (s : state) := (s_hq s, s_rq s, s_uq s).

  (* one dequeue is one legal seat *)
  Lemma dequeue_src_seats (s : state) m :
    let s' := fst (dequeue cfg s m) in
    match dequeue_src s m with
    | None => s' = s
    | Some x => forall t h' r' u', seats (s_hq s') (s_rq s') (s_uq s') t h' r' u' ->
                                   seats (s_hq s) (s_rq s) (s_uq s) (x :: t) h' r' u'
    end /\ (m = false -> match dequeue_src s m with Some (QH, _) | None => True | _ => False end).
  Proof.
    unfold dequeue_src, dequeue. destruct (s_pwc s); [split; [reflexivity|auto]|].
    destruct (s_hq s) as [|a r] eqn:Eh.
    2:{ cbn. split; [|auto]. intros t h' r' u' H. constructor. exact H. }
    destruct m; cbn [negb]; [|split; [reflexivity|auto]].
    destruct (throttled cfg s && has_pending_ack s); [split; [reflexivity|discriminate]|].
    destruct (s_rq s) as [|a r] eqn:Er.
    - destruct (s_uq s) as [|a r] eqn:Eu; [split; [reflexivity|discriminate]|].
      destruct (passes_receive_max s a); [|split; [reflexivity|discriminate]].
      cbn. rewrite Eh, Er. split; [|discriminate]. intros t h' r' u' H. constructor. exact H.
    - destruct (passes_receive_max s a); [|split; [reflexivity|discriminate]].
      cbn. rewrite Eh. split; [|discriminate]. intros t h' r' u' H. constructor. exact H.
  Qed.

  (* ---- the instrumented loop ---- *)
  Definition seat_here (s : state) (m : bool) : list seat_ev :=
    match s_cur s with
    | Some _ => []
    | None => match dequeue_src s m with Some x => [x] | None => [] end
    end.

  (* the encode half of one iteration: a final result, or the state and buffer the loop goes on with *)
  Definition encode_next (now cap fill : N) (s5 : state) (acc : bytes) (dn : dones) : sres + (state * bytes) :=
    match s_cur s5 with
    | None => inl (mkSres s5 acc dn (Panic 1433))
    | Some id =>
        if negb (op_exists s5 id) then inl (mkSres s5 acc dn (Err EInternalStateError)) else
        match s_enc s5 with
        | None => inl (mkSres s5 acc dn (Panic 1436))
        | Some e =>
            match enc_call e (fill + len acc) cap with
            | Err k => inl (mkSres s5 acc dn (Err k))
            | Panic site => inl (mkSres s5 acc dn (Panic site))
            | Ok (out, e') =>
                let s6 := s5 <| s_enc := Some e' |> in
                if enc_done e' then
                  match fully_written s6 now with
                  | Ok s7 => inr (s7, acc ++ out)
                  | Err k => inl (mkSres s6 (acc ++ out) dn (Err k))
                  | Panic site => inl (mkSres s6 (acc ++ out) dn (Panic site))
                  end
                else inl (mkSres s6 (acc ++ out) dn (Ok tt))
            end
        end
    end.

  Fixpoint service_loop_t (fuel : nat) (s : state) (m : bool) (now cap fill : N) (acc : bytes) (dn : dones)
    : sres * list seat_ev :=
    match fuel with
    | O => (mkSres s acc dn (Panic 9999), [])
    | S f =>
      if negb (pstate_eqb (s_st s) PendingConnack || pstate_eqb (s_st s) Connected) then (mkSres s acc dn (Ok tt), []) else
      match seat_current s m acc dn with
      | SeatStop r => (r, seat_here s m)
      | SeatContinue s5 dn' =>
          let rt := service_loop_t f s5 m now cap fill acc dn' in (fst rt, seat_here s m ++ snd rt)
      | SeatEncode s5 =>
          match encode_next now cap fill s5 acc dn with
          | inl r => (r, seat_here s m)
          | inr (s7, acc') =>
              let rt := service_loop_t f s7 m now cap fill acc' dn in (fst rt, seat_here s m ++ snd rt)
          end
      end
    end.

  (* the instrumented loop computes exactly the model's loop *)
  Lemma service_loop_t_fst : forall f (s : state) m now cap fill acc dn,
    fst (service_loop_t f s m now cap fill acc dn) = service_loop f s m now cap fill acc dn.
  Proof.
    induction f as [|f IH]; intros s m now cap fill acc dn; [reflexivity|].
    cbn [service_loop_t Model.service_loop].
    destruct (negb (pstate_eqb (s_st s) PendingConnack || pstate_eqb (s_st s) Connected)); [reflexivity|].
    destruct (seat_current s m acc dn) as [r|s5 dn'|s5]; [reflexivity|cbn [fst]; apply IH|].
    unfold encode_next. destruct (s_cur s5) as [id|]; [|reflexivity].
    destruct (negb (op_exists s5 id)); [reflexivity|]. destruct (s_enc s5) as [e|]; [|reflexivity].
    destruct (enc_call e (fill + len acc) cap) as [[out e']|k|site]; [|reflexivity|reflexivity].
    cbv zeta. destruct (enc_done e'); [|reflexivity].
    destruct (fully_written (s5 <| s_enc := Some e' |>) now) as [s7|k|site]; [|reflexivity|reflexivity].
    cbn [fst]. apply IH.
  Qed.

  Definition queue_fuel (s : state) : nat :=
    let fuel := S (S (length (s_hq s) + length (s_rq s) + length (s_uq s))) in (fuel + fuel)%nat.

  Definition service_queue_seats (s : state) (m : bool) (now cap fill : N) : list seat_ev :=
    snd (service_loop_t (queue_fuel s) s m now cap fill [] []).

  (* the operations seated by one [service] call *)
  Definition service_seats (s : state) (now cap fill : N) : list seat_ev :=
    match s_st s with
    | PendingConnack =>
        match s_connack_to s with
        | Some t => if t <=? now then [] else service_queue_seats s false now cap fill
        | None => []
        end
    | Connected =>
        match service_keep_alive cfg s now with
        | Ok s1 => service_queue_seats s1 true now cap fill
        | _ => []
        end
    | _ => []
    end.

  Lemma service_queue_loop (s : state) m now cap fill :
    service_queue s m now cap fill =
    let r := fst (service_loop_t (queue_fuel s) s m now cap fill [] []) in
    match sr_bytes r with
    | [] => r
    | _ => mkSres (sr_s r <| s_pwc := true |>) (sr_bytes r) (sr_done r) (sr_out r)
    end.
  Proof. unfold Model.service_queue, queue_fuel. cbv zeta. rewrite service_loop_t_fst. reflexivity. Qed.

  (* ---- the queues are only touched by [dequeue] ---- *)
  Lemma fail_op_qs (s : state) id e : qs (r_s (fail_op cfg s id e)) = qs s.
  Proof.
    unfold fail_op. destruct (lookup id (s_ops s)) as [o|]; [|reflexivity].
    unfold release. destruct (op_pid o); cbn;
      repeat match goal with |- context [if ?b then _ else _] => destruct b; cbn end;
      unfold disconnect_completion; repeat match goal with |- context [if ?b then _ else _] => destruct b; cbn end; reflexivity.
  Qed.

  Lemma acquire_pid_for_qs (s s' : state) id : acquire_pid_for s id = Ok s' -> qs s' = qs s.
  Proof.
    unfold acquire_pid_for. destruct (lookup id (s_ops s)) as [o|]; [|discriminate].
    destruct (op_pid o); [intros H; inversion H; reflexivity|].
    destruct (negb (needs_pid (op_packet o))); [intros H; inversion H; reflexivity|].
    unfold acquire_free_pid. destruct (match first_gap _ _ _ with Some c => Some c | None => _ end) as [c|]; cbn; [|discriminate].
    destruct (with_pid c (op_packet o)); cbn; [|discriminate|discriminate]. intros H; inversion H; reflexivity.
  Qed.

  Lemma fully_written_qs (s s' : state) now : fully_written s now = Ok s' -> qs s' = qs s.
  Proof.
    unfold fully_written. destruct (s_cur s) as [id|]; [|discriminate]. destruct (lookup id (s_ops s)) as [o|]; [|discriminate].
    destruct (if op_user o then op_timeout o else None) as [d|]; [destruct (IMAX <? now + d)|];
      destruct (op_packet o) as [| |pb| | | | | | | | | | | |]; cbn; try destruct (pub_qos pb =? 0); cbn;
      intros H; inversion H; reflexivity.
  Qed.

  Definition seat_state (x : seat enc dec ores ires) : state :=
    match x with SeatStop r => sr_s r | SeatContinue s' _ => s' | SeatEncode s' => s' end.

  Lemma seat_current_qs (s : state) m acc dn :
    qs (seat_state (seat_current s m acc dn)) =
    match s_cur s with Some _ => qs s | None => qs (fst (dequeue cfg s m)) end.
  Proof.
    unfold Model.seat_current. destruct (s_cur s); [reflexivity|].
    destruct (dequeue cfg s m) as [s1 next]. cbn [fst]. destruct next as [id|]; [|reflexivity].
    destruct (negb (op_exists (s1 <| s_cur := Some id |>) id)); [reflexivity|].
    destruct (acquire_pid_for (s1 <| s_cur := Some id |>) id) as [s3|k|site] eqn:Ea; [|reflexivity|reflexivity].
    apply acquire_pid_for_qs in Ea. change (qs (s1 <| s_cur := Some id |>)) with (qs s1) in Ea. rewrite <- Ea.
    destruct (lookup id (s_ops s3)) as [o|]; [|reflexivity].
    set (packet := match op_pubrel o with Some pr => pr | None => op_packet o end).
    assert (Hres : forall x : outcome (state * resolution),
              x = match packet with
                  | Publish pb => do (o', r) <- ores_resolve (s_ores s3) (pub_alias pb) (pub_topic pb) ; Ok (s3 <| s_ores := o' |>, r)
                  | _ => Ok (s3, no_resolution) end ->
              match x with Ok (s4, _) => qs s4 = qs s3 | _ => True end).
    { intros x ->. destruct packet; try reflexivity.
      destruct (ores_resolve _ _ _) as [[o' r]| |]; cbn; try exact I. reflexivity. }
    specialize (Hres _ eq_refl).
    destruct (match packet with Publish pb => _ | _ => _ end) as [[s4 r]|k|site]; [|reflexivity|reflexivity].
    destruct (v_out (s_settings s4) (cf_connect cfg) r packet) as [u|k|site]; [| |cbn; exact Hres].
    - destruct (enc_reset (cf_version cfg) packet r); cbn; exact Hres.
    - match goal with |- context [fail_op cfg ?sx id k] => pose proof (fail_op_qs sx id k) as Hf; set (rf := fail_op cfg sx id k) in * end.
      assert (Hq : qs (r_s rf) = qs s3).
      { rewrite Hf. destruct (r_alias r); cbn; exact Hres. }
      destruct (r_out rf); cbn; exact Hq.
  Qed.

  Lemma encode_next_qs now cap fill (s5 : state) acc dn :
    match encode_next now cap fill s5 acc dn with
    | inl r => qs (sr_s r) = qs s5
    | inr (s7, _) => qs s7 = qs s5
    end.
  Proof.
    unfold encode_next. destruct (s_cur s5) as [id|]; [|reflexivity].
    destruct (negb (op_exists s5 id)); [reflexivity|]. destruct (s_enc s5) as [e|]; [|reflexivity].
    destruct (enc_call e (fill + len acc) cap) as [[out e']|k|site]; [|reflexivity|reflexivity].
    cbv zeta. destruct (enc_done e'); [|reflexivity].
    destruct (fully_written (s5 <| s_enc := Some e' |>) now) as [s7|k|site] eqn:Ef; [|reflexivity|reflexivity].
    apply fully_written_qs in Ef. exact Ef.
  Qed.

  Lemma qs_fields (s s' : state) : qs s' = qs s -> s_hq s' = s_hq s /\ s_rq s' = s_rq s /\ s_uq s' = s_uq s.
  Proof. unfold qs. intros H. inversion H. auto. Qed.

  (* the loop's trace is a legal draining of the queues of its start state, leaving the queues of its result *)
  Theorem service_loop_seats : forall f (s : state) m now cap fill acc dn,
    let rt := service_loop_t f s m now cap fill acc dn in
    seats (s_hq s) (s_rq s) (s_uq s) (snd rt) (s_hq (sr_s (fst rt))) (s_rq (sr_s (fst rt))) (s_uq (sr_s (fst rt))) /\
    (m = false -> forall x, In x (snd rt) -> fst x = QH).
  Proof.
    induction f as [|f IH]; intros s m now cap fill acc dn; cbn [service_loop_t]; [cbn; split; [constructor|intros _ x []]|].
    destruct (negb (pstate_eqb (s_st s) PendingConnack || pstate_eqb (s_st s) Connected)); [cbn; split; [constructor|intros _ x []]|].
    pose proof (seat_current_qs s m acc dn) as Hq.
    pose proof (dequeue_src_seats s m) as [Hd Hm]. cbv zeta in Hd.
    (* the seat of this iteration, then whatever follows from the state the seat leaves *)
    assert (Hstep : forall (s' : state) t h' r' u',
              qs s' = qs (seat_state (seat_current s m acc dn)) ->
              seats (s_hq s') (s_rq s') (s_uq s') t h' r' u' ->
              seats (s_hq s) (s_rq s) (s_uq s) (seat_here s m ++ t) h' r' u').
    { intros s' t h' r' u' E Hs. rewrite Hq in E. unfold seat_here. destruct (s_cur s).
      - destruct (qs_fields _ _ E) as (E1 & E2 & E3). rewrite <- E1, <- E2, <- E3. exact Hs.
      - destruct (qs_fields _ _ E) as (E1 & E2 & E3). rewrite E1, E2, E3 in Hs.
        destruct (dequeue_src s m) as [x|]; [apply Hd; exact Hs|]. rewrite Hd in Hs. exact Hs. }
    assert (Hhere : m = false -> forall x, In x (seat_here s m) -> fst x = QH).
    { intros E x. unfold seat_here. destruct (s_cur s); [intros []|]. specialize (Hm E).
      destruct (dequeue_src s m) as [[q i]|]; [destruct q; try destruct Hm; intros [<-|[]]; reflexivity|intros []]. }
    destruct (seat_current s m acc dn) as [r|s5 dn'|s5]; cbn [seat_state] in *.
    - cbn [fst snd]. split; [|exact Hhere]. rewrite (app_nil_end (seat_here s m)). eapply Hstep; [reflexivity|constructor].
    - destruct (IH s5 m now cap fill acc dn') as [I1 I2]. cbn [fst snd]. split.
      + eapply Hstep; [reflexivity|exact I1].
      + intros E x Hx. apply in_app_or in Hx. destruct Hx; auto.
    - pose proof (encode_next_qs now cap fill s5 acc dn) as He.
      destruct (encode_next now cap fill s5 acc dn) as [r|[s7 acc']].
      + cbn [fst snd]. split; [|exact Hhere]. rewrite (app_nil_end (seat_here s m)). eapply Hstep; [exact He|constructor].
      + destruct (IH s7 m now cap fill acc' dn) as [I1 I2]. cbn [fst snd]. split.
        * eapply Hstep; [exact He|exact I1].
        * intros E x Hx. apply in_app_or in Hx. destruct Hx; auto.
  Qed.
End Trace.
